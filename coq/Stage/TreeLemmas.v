(* Generic lemmas about the item tree used by Stage/PassProofs.v: induction principle, ids,
   update-by-id as a structural map at one level. *)
From Coq Require Import Lia.
From ZenoV Require Import Tree.Item Tree.ItemSpec.
Open Scope N_scope.

(* ---- induction principle ---- *)
Lemma item_ind2 (P : item -> Prop) :
  (forall i cs, Forall P cs -> P (Node i cs)) -> forall t, P t.
Proof.
  intros H. fix IH 1. intros [i cs]. apply H.
  induction cs as [|c r IHr]; constructor; [apply IH | exact IHr].
Qed.

(* ---- small list facts ---- *)
Lemma flat_map_map {A B C} (f : B -> list C) (g : A -> B) l :
  flat_map f (map g l) = flat_map (fun x => f (g x)) l.
Proof. induction l as [|a r IH]; cbn; [reflexivity | now rewrite IH]. Qed.

Lemma map_flat_map {A B C} (f : B -> C) (g : A -> list B) l :
  map f (flat_map g l) = flat_map (fun x => map f (g x)) l.
Proof. induction l as [|a r IH]; cbn; [reflexivity | now rewrite map_app, IH]. Qed.

Lemma flat_map_flat_map {A B C} (f : B -> list C) (g : A -> list B) l :
  flat_map f (flat_map g l) = flat_map (fun x => flat_map f (g x)) l.
Proof. induction l as [|a r IH]; cbn; [reflexivity | now rewrite flat_map_app, IH]. Qed.

Lemma flat_map_ext_in {A B} (f g : A -> list B) l :
  (forall x, In x l -> f x = g x) -> flat_map f l = flat_map g l.
Proof.
  induction l as [|a r IH]; intros H; cbn; [reflexivity|].
  rewrite H by (left; reflexivity). rewrite IH; [reflexivity|]. intros x Hx. apply H. right. exact Hx.
Qed.

Lemma flat_map_singleton {A B} (f : A -> B) l : flat_map (fun x => [f x]) l = map f l.
Proof. induction l as [|a r IH]; cbn; [reflexivity | now rewrite IH]. Qed.

Lemma NoDup_app_l {A} (l1 l2 : list A) : NoDup (l1 ++ l2) -> NoDup l1.
Proof.
  induction l1 as [|a r IH]; intros H; [constructor|].
  inversion H as [|x l Hn Hd]; subst. constructor; [|apply IH; exact Hd].
  intros Hin. apply Hn. apply in_or_app. left. exact Hin.
Qed.

Lemma NoDup_app_r {A} (l1 l2 : list A) : NoDup (l1 ++ l2) -> NoDup l2.
Proof.
  induction l1 as [|a r IH]; intros H; [exact H|]. inversion H; subst. apply IH. assumption.
Qed.

Lemma NoDup_app_disj {A} (l1 l2 : list A) x : NoDup (l1 ++ l2) -> In x l1 -> In x l2 -> False.
Proof.
  induction l1 as [|a r IH]; intros H H1 H2; [destruct H1|].
  inversion H as [|y l Hn Hd]; subst. destruct H1 as [->|H1].
  - apply Hn. apply in_or_app. right. exact H2.
  - exact (IH Hd H1 H2).
Qed.

Lemma NoDup_app_intro {A} (l1 l2 : list A) :
  NoDup l1 -> NoDup l2 -> (forall x, In x l1 -> In x l2 -> False) -> NoDup (l1 ++ l2).
Proof.
  induction l1 as [|a r IH]; intros H1 H2 Hd; [exact H2|].
  inversion H1 as [|x l Hn Hr]; subst. cbn. constructor.
  - intros Hin. apply in_app_or in Hin as [Hin|Hin]; [exact (Hn Hin)|]. apply (Hd a); [left; reflexivity | exact Hin].
  - apply IH; [exact Hr | exact H2 |]. intros x Hx1 Hx2. apply (Hd x); [right; exact Hx1 | exact Hx2].
Qed.

(* ---- ids / flatten ---- *)
Lemma ids_node i cs : ids (Node i cs) = nid i :: flat_map ids cs.
Proof.
  unfold ids. cbn [flatten map]. f_equal. unfold id_of at 1. cbn.
  rewrite map_flat_map. reflexivity.
Qed.

Lemma flatten_node i cs : flatten (Node i cs) = Node i cs :: flat_map flatten cs.
Proof. reflexivity. Qed.

Lemma in_flatten_self t : In t (flatten t).
Proof. destruct t. left. reflexivity. Qed.

Lemma id_in_ids t : In (id_of t) (ids t).
Proof. unfold ids. apply in_map. apply in_flatten_self. Qed.

Lemma in_flatten_ids n t : In n (flatten t) -> In (id_of n) (ids t).
Proof. intros H. unfold ids. apply in_map. exact H. Qed.

Lemma flatten_trans n m t : In n (flatten m) -> In m (flatten t) -> In n (flatten t).
Proof.
  revert m n. induction t as [i cs IH] using item_ind2. intros m n Hn Hm.
  rewrite flatten_node in Hm. destruct Hm as [<-|Hm]; [exact Hn|].
  rewrite flatten_node. right. apply in_flat_map in Hm as [c [Hc Hm]].
  apply in_flat_map. exists c. split; [exact Hc|].
  rewrite Forall_forall in IH. exact (IH c Hc m n Hn Hm).
Qed.

Lemma ids_sub n t : In n (flatten t) -> incl (ids n) (ids t).
Proof.
  intros Hn x Hx. unfold ids in Hx. apply in_map_iff in Hx as [m [<- Hm]].
  apply in_flatten_ids. exact (flatten_trans _ _ _ Hm Hn).
Qed.

Lemma nodes_at_flatten lvl : forall t n, In n (nodes_at lvl t) -> In n (flatten t).
Proof.
  induction lvl as [|l IH]; intros [i cs] n H.
  - destruct H as [<-|[]]. apply in_flatten_self.
  - cbn [nodes_at] in H. apply in_flat_map in H as [c [Hc H]].
    rewrite flatten_node. right. apply in_flat_map. exists c. split; [exact Hc | exact (IH c n H)].
Qed.

Lemma flatten_nodes_at : forall t n, In n (flatten t) -> exists lvl, In n (nodes_at lvl t).
Proof.
  induction t as [i cs IH] using item_ind2. intros n H. rewrite flatten_node in H.
  destruct H as [<-|H]; [exists 0%nat; left; reflexivity|].
  apply in_flat_map in H as [c [Hc H]]. rewrite Forall_forall in IH.
  destruct (IH c Hc n H) as [l Hl]. exists (S l). cbn [nodes_at]. apply in_flat_map. exists c. split; assumption.
Qed.

Lemma NoDup_ids_child i cs c : NoDup (ids (Node i cs)) -> In c cs -> NoDup (ids c).
Proof.
  rewrite ids_node. intros H Hc. inversion H as [|x l _ Hd]; subst. clear H.
  induction cs as [|a r IH]; [destruct Hc|]. cbn in Hd. destruct Hc as [->|Hc].
  - exact (NoDup_app_l _ _ Hd).
  - apply IH; [exact Hc | exact (NoDup_app_r _ _ Hd)].
Qed.

Lemma NoDup_ids_root i cs c : NoDup (ids (Node i cs)) -> In c cs -> ~ In (nid i) (ids c).
Proof.
  rewrite ids_node. intros H Hc Hin. inversion H as [|x l Hn _]; subst. apply Hn.
  apply in_flat_map. exists c. split; assumption.
Qed.

Lemma NoDup_ids_sub n t : NoDup (ids t) -> In n (flatten t) -> NoDup (ids n).
Proof.
  revert n. induction t as [i cs IH] using item_ind2. intros n Hd Hn.
  rewrite flatten_node in Hn. destruct Hn as [<-|Hn]; [exact Hd|].
  apply in_flat_map in Hn as [c [Hc Hn]]. rewrite Forall_forall in IH.
  exact (IH c Hc n (NoDup_ids_child _ _ _ Hd Hc) Hn).
Qed.

(* two nodes of a tree with unique ids that have the same id are the same node *)
Lemma NoDup_ids_inj : forall t n m,
  NoDup (ids t) -> In n (flatten t) -> In m (flatten t) -> id_of n = id_of m -> n = m.
Proof.
  induction t as [i cs IH] using item_ind2. intros n m Hd Hn Hm He.
  rewrite flatten_node in Hn, Hm.
  destruct Hn as [<-|Hn]; destruct Hm as [<-|Hm]; [reflexivity| | |].
  - exfalso. apply in_flat_map in Hm as [c [Hc Hm]].
    apply (NoDup_ids_root _ _ _ Hd Hc). change (nid i) with (id_of (Node i cs)). rewrite He.
    apply in_flatten_ids. exact Hm.
  - exfalso. apply in_flat_map in Hn as [c [Hc Hn]].
    apply (NoDup_ids_root _ _ _ Hd Hc). change (nid i) with (id_of (Node i cs)). rewrite <- He.
    apply in_flatten_ids. exact Hn.
  - rewrite ids_node in Hd. inversion Hd as [|x l _ Hd']; subst. clear Hd.
    induction cs as [|a r IHr]; [destruct Hn|]. cbn in Hn, Hm, Hd'.
    inversion IH as [|x l Ha Hr]; subst.
    apply in_app_or in Hn. apply in_app_or in Hm.
    destruct Hn as [Hn|Hn]; destruct Hm as [Hm|Hm].
    + exact (Ha n m (NoDup_app_l _ _ Hd') Hn Hm He).
    + exfalso. apply (NoDup_app_disj _ _ (id_of n) Hd'); [apply in_flatten_ids; exact Hn|].
      rewrite He. apply in_flat_map in Hm as [c [Hc Hm]]. apply in_flat_map. exists c.
      split; [exact Hc | apply in_flatten_ids; exact Hm].
    + exfalso. apply (NoDup_app_disj _ _ (id_of m) Hd'); [apply in_flatten_ids; exact Hm|].
      rewrite <- He. apply in_flat_map in Hn as [c [Hc Hn]]. apply in_flat_map. exists c.
      split; [exact Hc | apply in_flatten_ids; exact Hn].
    + exact (IHr Hr Hn Hm (NoDup_app_r _ _ Hd')).
Qed.

(* the levels of a tree with unique ids have disjoint id sets *)
Lemma NoDup_levels : forall t l1 l2 n m,
  NoDup (ids t) -> In n (nodes_at l1 t) -> In m (nodes_at l2 t) -> id_of n = id_of m -> l1 = l2.
Proof.
  induction t as [i cs IH] using item_ind2. intros l1 l2 n m Hd Hn Hm He.
  destruct l1 as [|l1]; destruct l2 as [|l2]; [reflexivity| | |].
  - exfalso. destruct Hn as [<-|[]]. cbn [nodes_at] in Hm. apply in_flat_map in Hm as [c [Hc Hm]].
    apply (NoDup_ids_root _ _ _ Hd Hc). change (nid i) with (id_of (Node i cs)). rewrite He.
    apply in_flatten_ids. exact (nodes_at_flatten _ _ _ Hm).
  - exfalso. destruct Hm as [<-|[]]. cbn [nodes_at] in Hn. apply in_flat_map in Hn as [c [Hc Hn]].
    apply (NoDup_ids_root _ _ _ Hd Hc). change (nid i) with (id_of (Node i cs)). rewrite <- He.
    apply in_flatten_ids. exact (nodes_at_flatten _ _ _ Hn).
  - f_equal. cbn [nodes_at] in Hn, Hm.
    apply in_flat_map in Hn as [c1 [Hc1 Hn]]. apply in_flat_map in Hm as [c2 [Hc2 Hm]].
    assert (c1 = c2) as <-.
    { rewrite ids_node in Hd. inversion Hd as [|x l _ Hd']; subst. clear Hd IH.
      induction cs as [|a r IHr]; [destruct Hc1|]. cbn in Hd'.
      destruct Hc1 as [->|Hc1]; destruct Hc2 as [->|Hc2]; [reflexivity| | |].
      - exfalso. apply (NoDup_app_disj _ _ (id_of n) Hd').
        + apply in_flatten_ids. exact (nodes_at_flatten _ _ _ Hn).
        + rewrite He. apply in_flat_map. exists c2. split; [exact Hc2|].
          apply in_flatten_ids. exact (nodes_at_flatten _ _ _ Hm).
      - exfalso. apply (NoDup_app_disj _ _ (id_of m) Hd').
        + apply in_flatten_ids. exact (nodes_at_flatten _ _ _ Hm).
        + rewrite <- He. apply in_flat_map. exists c1. split; [exact Hc1|].
          apply in_flatten_ids. exact (nodes_at_flatten _ _ _ Hn).
      - exact (IHr Hc1 Hc2 (NoDup_app_r _ _ Hd')). }
    rewrite Forall_forall in IH.
    exact (IH c1 Hc1 l1 l2 n m (NoDup_ids_child _ _ _ Hd Hc1) Hn Hm He).
Qed.

(* ---- update ---- *)
Lemma update_notin id f : forall t, ~ In id (ids t) -> update id f t = t.
Proof.
  induction t as [i cs IH] using item_ind2. intros Hn. rewrite ids_node in Hn. cbn [update].
  assert (map (update id f) cs = cs) as ->.
  { rewrite <- (map_id cs) at 2. apply map_ext_in. intros c Hc. rewrite Forall_forall in IH.
    apply IH; [exact Hc|]. intros Hin. apply Hn. right. apply in_flat_map. exists c. split; assumption. }
  destruct (N.eqb_spec (nid i) id) as [He|_]; [|reflexivity].
  exfalso. apply Hn. left. exact He.
Qed.

(* ---- map_at: apply [g] to every node of one level ---- *)
Fixpoint map_at (lvl : nat) (g : item -> item) (t : item) : item :=
  match lvl with
  | O => g t
  | S l => match t with Node i cs => Node i (map (map_at l g) cs) end
  end.

Lemma nodes_at_map_at g : forall lvl t, nodes_at lvl (map_at lvl g t) = map g (nodes_at lvl t).
Proof.
  induction lvl as [|l IH]; intros [i cs]; [reflexivity|].
  cbn [map_at nodes_at]. rewrite flat_map_map, map_flat_map. apply flat_map_ext_in. intros c _. apply IH.
Qed.

Lemma map_at_compose g1 g2 : forall lvl t,
  map_at lvl g2 (map_at lvl g1 t) = map_at lvl (fun n => g2 (g1 n)) t.
Proof.
  induction lvl as [|l IH]; intros [i cs]; [reflexivity|].
  cbn [map_at]. rewrite map_map. f_equal. apply map_ext. intros c. apply IH.
Qed.

Lemma map_at_ext g g' : forall lvl t,
  (forall n, In n (nodes_at lvl t) -> g n = g' n) -> map_at lvl g t = map_at lvl g' t.
Proof.
  induction lvl as [|l IH]; intros [i cs] H.
  - apply H. left. reflexivity.
  - cbn [map_at]. f_equal. apply map_ext_in. intros c Hc. apply IH. intros n Hn. apply H.
    cbn [nodes_at]. apply in_flat_map. exists c. split; assumption.
Qed.

Lemma map_at_id : forall lvl t, map_at lvl (fun n => n) t = t.
Proof.
  induction lvl as [|l IH]; intros [i cs]; [reflexivity|].
  cbn [map_at]. f_equal. rewrite <- (map_id cs) at 2. apply map_ext. intros c. apply IH.
Qed.

Lemma map_at_S g : forall lvl t,
  map_at (S lvl) g t = map_at lvl (fun p => Node (inf p) (map g (kids p))) t.
Proof.
  induction lvl as [|l IH]; intros [i cs]; [reflexivity|].
  change (map_at (S (S l)) g (Node i cs)) with (Node i (map (map_at (S l) g) cs)).
  cbn [map_at]. f_equal. apply map_ext. intros c. apply IH.
Qed.

Definition sel (id : N) (f : item -> item) (m : item) : item :=
  if N.eqb (id_of m) id then f m else m.

(* an update by id is a map at the level of that id, when the id occurs at no other level *)
Lemma update_as_map_at id f : forall lvl t,
  (forall k, k <> lvl -> ~ In id (map id_of (nodes_at k t))) ->
  update id f t = map_at lvl (sel id f) t.
Proof.
  induction lvl as [|l IH]; intros [i cs] H.
  - cbn [map_at update]. unfold sel, id_of. cbn [inf].
    assert (map (update id f) cs = cs) as ->; [|reflexivity].
    rewrite <- (map_id cs) at 2. apply map_ext_in. intros c Hc. apply update_notin.
    intros Hin. unfold ids in Hin. apply in_map_iff in Hin as [n [Hid Hn]].
    destruct (flatten_nodes_at _ _ Hn) as [k Hk].
    apply (H (S k)); [discriminate|]. rewrite <- Hid. apply in_map. cbn [nodes_at].
    apply in_flat_map. exists c. split; assumption.
  - cbn [map_at update].
    destruct (N.eqb_spec (nid i) id) as [He|_].
    + exfalso. apply (H 0%nat); [discriminate|]. left. exact He.
    + f_equal. apply map_ext_in. intros c Hc. apply IH. intros k Hk Hin.
      apply (H (S k)); [congruence|]. apply in_map_iff in Hin as [n [Hid Hn]].
      rewrite <- Hid. apply in_map. cbn [nodes_at]. apply in_flat_map. exists c. split; assumption.
Qed.

Lemma update_level id f lvl t n :
  NoDup (ids t) -> In n (nodes_at lvl t) -> id_of n = id ->
  update id f t = map_at lvl (sel id f) t.
Proof.
  intros Hd Hn Hid. apply update_as_map_at. intros k Hk Hin.
  apply in_map_iff in Hin as [m [Hm Hin]]. apply Hk.
  apply (NoDup_levels t k lvl m n Hd Hin Hn). congruence.
Qed.

Lemma NoDup_nodes_at : forall lvl t, NoDup (ids t) -> NoDup (map id_of (nodes_at lvl t)).
Proof.
  induction lvl as [|l IH]; intros [i cs] Hd.
  - cbn. constructor; [intros []|constructor].
  - cbn [nodes_at]. rewrite ids_node in Hd. inversion Hd as [|x r _ Hd']; subst. clear Hd.
    induction cs as [|a r IHr]; [constructor|]. cbn in Hd' |- *. rewrite map_app.
    apply NoDup_app_intro.
    + apply IH. exact (NoDup_app_l _ _ Hd').
    + apply IHr. exact (NoDup_app_r _ _ Hd').
    + intros x H1 H2. apply (NoDup_app_disj _ _ x Hd').
      * apply in_map_iff in H1 as [n [<- Hn]]. apply in_flatten_ids. exact (nodes_at_flatten _ _ _ Hn).
      * apply in_map_iff in H2 as [n [<- Hn]]. apply in_flat_map in Hn as [c [Hc Hn]].
        apply in_flat_map. exists c. split; [exact Hc|]. apply in_flatten_ids. exact (nodes_at_flatten _ _ _ Hn).
Qed.

Lemma ids_map_at g : forall lvl t,
  (forall n, In n (nodes_at lvl t) -> ids (g n) = ids n) -> ids (map_at lvl g t) = ids t.
Proof.
  induction lvl as [|l IH]; intros [i cs] H.
  - apply H. left. reflexivity.
  - cbn [map_at]. rewrite !ids_node. f_equal. rewrite flat_map_map. apply flat_map_ext_in.
    intros c Hc. apply IH. intros n Hn. apply H. cbn [nodes_at]. apply in_flat_map. exists c. split; assumption.
Qed.

Lemma id_of_map_at g : forall lvl t, (forall n, id_of (g n) = id_of n) -> id_of (map_at lvl g t) = id_of t.
Proof. intros [|l] [i cs] H; [apply H | reflexivity]. Qed.

Lemma update_root f i cs : NoDup (ids (Node i cs)) -> update (nid i) f (Node i cs) = f (Node i cs).
Proof.
  intros Hd. cbn [update]. rewrite N.eqb_refl.
  assert (map (update (nid i) f) cs = cs) as ->; [|reflexivity].
  rewrite <- (map_id cs) at 2. apply map_ext_in. intros c Hc. apply update_notin.
  exact (NoDup_ids_root _ _ _ Hd Hc).
Qed.

(* max_depth and levels *)
Lemma nodes_at_max_depth : forall t, nodes_at (max_depth t) t <> [].
Proof.
  induction t as [i cs IH] using item_ind2. destruct cs as [|c r]; [discriminate|].
  change (max_depth (Node i (c :: r))) with (S (list_max (map max_depth (c :: r)))).
  cbn [nodes_at]. remember (c :: r) as cs eqn:E.
  assert (Hne : cs <> []) by (subst; discriminate). clear E c r.
  assert (exists c, In c cs /\ max_depth c = list_max (map max_depth cs)) as [c [Hc Hm]].
  { clear IH. induction cs as [|a r IHr]; [congruence|]. destruct r as [|b r'].
    - exists a. split; [left; reflexivity|]. cbn. lia.
    - destruct IHr as [c [Hc Hm]]; [discriminate|]. cbn [map list_max fold_right] in *.
      destruct (Nat.max_spec (max_depth a) (Nat.max (max_depth b) (fold_right Nat.max 0%nat (map max_depth r')))) as [[_ E]|[_ E]].
      + exists c. split; [right; exact Hc|]. unfold list_max in *. cbn [fold_right]. lia.
      + exists a. split; [left; reflexivity|]. unfold list_max in *. cbn [fold_right]. lia. }
  rewrite Forall_forall in IH. specialize (IH c Hc). rewrite Hm in IH.
  intros E. apply IH. destruct (nodes_at (list_max (map max_depth cs)) c) as [|x l] eqn:Ex; [reflexivity|].
  exfalso. assert (In x (flat_map (nodes_at (list_max (map max_depth cs))) cs)).
  { apply in_flat_map. exists c. split; [exact Hc|]. rewrite Ex. left. reflexivity. }
  rewrite E in H. destruct H.
Qed.

Lemma nodes_at_above : forall lvl t, (max_depth t < lvl)%nat -> nodes_at lvl t = [].
Proof.
  induction lvl as [|l IH]; intros [i cs] H; [lia|].
  cbn [nodes_at]. destruct cs as [|c r]; [reflexivity|].
  change (max_depth (Node i (c :: r))) with (S (list_max (map max_depth (c :: r)))) in H.
  remember (c :: r) as cs. clear Heqcs.
  assert (Hall : forall x, In x cs -> nodes_at l x = []).
  { intros x Hx. apply IH. assert (max_depth x <= list_max (map max_depth cs))%nat; [|lia].
    pose proof (list_max_le (map max_depth cs) (list_max (map max_depth cs))) as [Hle _].
    specialize (Hle (le_n _)). rewrite Forall_forall in Hle. apply Hle. apply in_map. exact Hx. }
  clear H. induction cs as [|a q IHq]; [reflexivity|]. cbn. rewrite (Hall a) by (left; reflexivity).
  apply IHq. intros x Hx. apply Hall. right. exact Hx.
Qed.

Lemma max_depth_char t k : nodes_at k t <> [] -> nodes_at (S k) t = [] -> max_depth t = k.
Proof.
  intros H1 H2. destruct (Nat.lt_trichotomy (max_depth t) k) as [Hl|[He|Hg]]; [|exact He|].
  - exfalso. apply H1. apply nodes_at_above. exact Hl.
  - exfalso. pose proof (nodes_at_max_depth t) as Hm.
    (* a node at level max_depth > k: its ancestor chain passes level S k *)
    assert (Hmono : forall a b u, nodes_at a u = [] -> nodes_at (a + b) u = []).
    { clear. induction a as [|a IH]; intros b [i cs] H; [discriminate|].
      cbn [nodes_at plus] in *. induction cs as [|c r IHr]; [reflexivity|]. cbn in *.
      apply app_eq_nil in H as [Hc Hr]. rewrite (IH b c Hc). cbn. apply IHr. exact Hr. }
    apply Hm. replace (max_depth t) with (S k + (max_depth t - S k))%nat by lia. apply Hmono. exact H2.
Qed.

(* ---- folds of updates-by-id over the nodes of one level ---- *)
Definition subst (done : list (N * item)) (m : item) : item :=
  match assoc (id_of m) done with Some m' => m' | None => m end.

Lemma update_ident id : forall t, update id (fun m => m) t = t.
Proof.
  induction t as [i cs IH] using item_ind2. cbn [update].
  assert (map (update id (fun m => m)) cs = cs) as ->.
  { rewrite <- (map_id cs) at 2. apply map_ext_in. intros x Hx. rewrite Forall_forall in IH. apply IH. exact Hx. }
  destruct (nid i =? id); reflexivity.
Qed.

Lemma step_update D t0 done n F :
  NoDup (ids t0) -> NoDup (ids (map_at D (subst done) t0)) ->
  In n (nodes_at D t0) -> assoc (id_of n) done = None ->
  (forall m, In m (nodes_at D t0) -> id_of (subst done m) = id_of m) ->
  update (id_of n) F (map_at D (subst done) t0) = map_at D (subst ((id_of n, F n) :: done)) t0.
Proof.
  intros Hd Hdc Hn Ha Hid.
  assert (Hsn : subst done n = n) by (unfold subst; rewrite Ha; reflexivity).
  rewrite (update_level (id_of n) F D _ n Hdc); [| |reflexivity].
  - rewrite map_at_compose. apply map_at_ext. intros m Hm. unfold sel.
    rewrite (Hid m Hm).
    change (subst ((id_of n, F n) :: done) m) with
      (match (if N.eqb (id_of m) (id_of n) then Some (F n) else assoc (id_of m) done) with
       | Some m' => m' | None => m end).
    destruct (N.eqb_spec (id_of m) (id_of n)) as [He|Hne]; [|reflexivity].
    assert (m = n) as ->.
    { apply (NoDup_ids_inj t0); [exact Hd | | | exact He]; apply (nodes_at_flatten D); assumption. }
    rewrite Hsn. reflexivity.
  - rewrite nodes_at_map_at. rewrite <- Hsn at 1. apply in_map. exact Hn.
Qed.

Section FoldLocal.
Context {S : Type}.
Variable D : nat.
Variable step : item -> item * S -> item * S.
Variable R : S -> item -> item -> S -> Prop.   (* state before, snapshot, new node, state after *)
Variable I : S -> item -> Prop.                 (* invariant on (state, current tree) *)
Hypothesis I_nodup : forall s T, I s T -> NoDup (ids T).
Hypothesis Hstep : forall s n T, I s T -> In n (nodes_at D T) ->
  exists F s', step n (T, s) = (update (id_of n) F T, s')
               /\ R s n (F n) s' /\ id_of (F n) = id_of n /\ I s' (update (id_of n) F T).

Lemma fold_local_gen t0 : NoDup (ids t0) -> forall L2 L1 done s,
  nodes_at D t0 = L1 ++ L2 ->
  I s (map_at D (subst done) t0) ->
  (forall m, In m (nodes_at D t0) -> id_of (subst done m) = id_of m) ->
  (forall m, In m L2 -> assoc (id_of m) done = None) ->
  (forall m, In m L1 -> exists s1 s2, R s1 m (subst done m) s2) ->
  exists done' s',
    fold_left (fun st n => step n st) L2 (map_at D (subst done) t0, s) = (map_at D (subst done') t0, s')
    /\ I s' (map_at D (subst done') t0)
    /\ (forall m, In m (nodes_at D t0) -> id_of (subst done' m) = id_of m)
    /\ (forall m, In m (nodes_at D t0) -> exists s1 s2, R s1 m (subst done' m) s2).
Proof.
  intros Hd. induction L2 as [|n L2 IH]; intros L1 done s HL HI Hid Hnone Hspec.
  - exists done, s. split; [reflexivity|]. split; [exact HI|]. split; [exact Hid|].
    intros m Hm. apply Hspec. rewrite HL, app_nil_r in Hm. exact Hm.
  - assert (Hn : In n (nodes_at D t0)) by (rewrite HL; apply in_or_app; right; left; reflexivity).
    assert (Ha : assoc (id_of n) done = None) by (apply Hnone; left; reflexivity).
    assert (Hsn : subst done n = n) by (unfold subst; rewrite Ha; reflexivity).
    assert (Hncur : In n (nodes_at D (map_at D (subst done) t0))).
    { rewrite nodes_at_map_at. rewrite <- Hsn at 1. apply in_map. exact Hn. }
    destruct (Hstep s n _ HI Hncur) as [F [s' [Est [HR [HidF HI']]]]].
    cbn [fold_left]. rewrite Est.
    rewrite (step_update D t0 done n F Hd (I_nodup _ _ HI) Hn Ha Hid) in *.
    pose proof (NoDup_nodes_at D t0 Hd) as Hnd. rewrite HL in Hnd.
    assert (Hdisj : forall m, In m (L1 ++ L2) -> id_of m <> id_of n).
    { intros m Hm He. rewrite map_app in Hnd. cbn [map] in Hnd.
      apply NoDup_remove_2 in Hnd. apply Hnd. rewrite <- map_app, <- He. apply in_map. exact Hm. }
    assert (Hsub : forall m, id_of m <> id_of n -> subst ((id_of n, F n) :: done) m = subst done m).
    { intros m Hne. unfold subst. cbn [assoc]. destruct (N.eqb_spec (id_of m) (id_of n)); [contradiction|reflexivity]. }
    apply (IH (L1 ++ [n]) ((id_of n, F n) :: done) s').
    + rewrite <- app_assoc. exact HL.
    + exact HI'.
    + intros m Hm. destruct (N.eq_dec (id_of m) (id_of n)) as [He|Hne].
      * unfold subst. cbn [assoc]. rewrite He, N.eqb_refl. rewrite HidF. reflexivity.
      * rewrite (Hsub m Hne). apply Hid. exact Hm.
    + intros m Hm. cbn [assoc].
      assert (Hne : id_of m <> id_of n) by (apply Hdisj; apply in_or_app; right; exact Hm).
      destruct (N.eqb_spec (id_of m) (id_of n)); [contradiction|]. apply Hnone. right. exact Hm.
    + intros m Hm. apply in_app_or in Hm as [Hm|[<-|[]]].
      * rewrite Hsub by (apply Hdisj; apply in_or_app; left; exact Hm). apply Hspec. exact Hm.
      * exists s, s'. unfold subst. cbn [assoc]. rewrite N.eqb_refl. exact HR.
Qed.

Lemma fold_local t0 s0 : NoDup (ids t0) -> I s0 t0 ->
  exists done s',
    fold_left (fun st n => step n st) (nodes_at D t0) (t0, s0) = (map_at D (subst done) t0, s')
    /\ I s' (map_at D (subst done) t0)
    /\ (forall m, In m (nodes_at D t0) -> id_of (subst done m) = id_of m)
    /\ (forall m, In m (nodes_at D t0) -> exists s1 s2, R s1 m (subst done m) s2).
Proof.
  intros Hd HI.
  assert (E : map_at D (subst []) t0 = t0).
  { rewrite <- (map_at_id D t0) at 2. apply map_at_ext. reflexivity. }
  destruct (fold_local_gen t0 Hd (nodes_at D t0) [] [] s0) as [done [s' H]].
  - reflexivity.
  - rewrite E. exact HI.
  - reflexivity.
  - reflexivity.
  - intros m [].
  - rewrite E in H. exists done, s'. exact H.
Qed.
End FoldLocal.

(* ---- children / same-level subtrees are id-disjoint ---- *)
Lemma child_disjoint cs : NoDup (flat_map ids cs) -> forall c1 c2 x,
  In c1 cs -> In c2 cs -> In x (ids c1) -> In x (ids c2) -> c1 = c2.
Proof.
  induction cs as [|a r IH]; intros Hd c1 c2 x H1 H2 Hx1 Hx2; [destruct H1|]. cbn in Hd.
  destruct H1 as [->|H1]; destruct H2 as [->|H2]; [reflexivity| | |].
  - exfalso. apply (NoDup_app_disj _ _ x Hd Hx1). apply in_flat_map. exists c2. split; assumption.
  - exfalso. apply (NoDup_app_disj _ _ x Hd Hx2). apply in_flat_map. exists c1. split; assumption.
  - exact (IH (NoDup_app_r _ _ Hd) c1 c2 x H1 H2 Hx1 Hx2).
Qed.

Lemma level_disjoint : forall d t p q x,
  NoDup (ids t) -> In p (nodes_at d t) -> In q (nodes_at d t) -> In x (ids p) -> In x (ids q) -> p = q.
Proof.
  induction d as [|d IH]; intros [i cs] p q x Hd Hp Hq Hxp Hxq.
  - destruct Hp as [<-|[]]. destruct Hq as [<-|[]]. reflexivity.
  - cbn [nodes_at] in Hp, Hq. apply in_flat_map in Hp as [c1 [Hc1 Hp]]. apply in_flat_map in Hq as [c2 [Hc2 Hq]].
    assert (c1 = c2) as <-.
    { rewrite ids_node in Hd. inversion Hd as [|y l _ Hd']; subst.
      apply (child_disjoint cs Hd' c1 c2 x Hc1 Hc2).
      - exact (ids_sub _ _ (nodes_at_flatten _ _ _ Hp) x Hxp).
      - exact (ids_sub _ _ (nodes_at_flatten _ _ _ Hq) x Hxq). }
    exact (IH c1 p q x (NoDup_ids_child _ _ _ Hd Hc1) Hp Hq Hxp Hxq).
Qed.

Lemma in_kids_flatten c q : In c (kids q) -> In c (flatten q).
Proof.
  destruct q as [i cs]. cbn [kids]. intros H. rewrite flatten_node. right.
  apply in_flat_map. exists c. split; [exact H | apply in_flatten_self].
Qed.

Lemma nodes_at_S : forall d t, nodes_at (S d) t = flat_map kids (nodes_at d t).
Proof.
  induction d as [|d IH]; intros [i cs].
  - cbn. rewrite app_nil_r. induction cs as [|a r IHr]; [reflexivity|]. cbn. f_equal. exact IHr.
  - change (nodes_at (S (S d)) (Node i cs)) with (flat_map (nodes_at (S d)) cs).
    cbn [nodes_at]. rewrite flat_map_flat_map. apply flat_map_ext_in. intros c _. apply IH.
Qed.
