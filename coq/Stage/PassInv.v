(* The structural form of the between-stages invariant used by Stage/PassProofs.v.
   [shape L k cx t]: every node of [t] above level [k] is an "inner" node (not pending, consistent
   with its parent), and every node at level [k] satisfies the leaf predicate [L].  The context
   [cx] carries what a node needs to know about the path from the seed: its parent's info, the
   parent's asset depth (number of asset edges from the seed) and whether all ancestors still
   have work.  [bnd = true] adds the C06 data (redirect counters, asset depth). *)
From Coq Require Import Lia.
From ZenoV Require Import Tree.Item Tree.ItemSpec Stage.Pass Stage.TreeLemmas.
Open Scope N_scope.

Record ctx := Ctx { cpar : option info; cpad : nat; clive : bool }.

Definition ctx0 : ctx := Ctx None 0 true.
Definition omap (cx : ctx) : option status := option_map nst (cpar cx).

Section Shape.
Variable c : cfg.
Variable bnd : bool.

Definition node_ad (cx : ctx) (i : info) : nat :=
  match cpar cx with None => 0%nat | Some _ => if nredir i =? 0 then S (cpad cx) else cpad cx end.

Definition down (cx : ctx) (i : info) : ctx :=
  Ctx (Some i) (node_ad cx i) (clive cx && has_work_st (nst i)).

Definition par_ok (cx : ctx) (i : info) : Prop :=
  match cpar cx with
  | None => bnd = true -> nredir i = 0
  | Some p =>
    nvia i = false /\ (nst i = Fresh -> is_got (nst p) = true)
    /\ (bnd = true ->
        (nst p = GotRedirected -> nredir i = nredir p + 1)
        /\ (nst p = GotChildren -> nredir i = 0)
        /\ (nredir i = 0 \/ nredir i = nredir p + 1))
  end
  /\ (bnd = true -> nredir i <= max_redirect c /\ (domains_crawl c = false -> (node_ad cx i <= 3)%nat))
  /\ (pending_st (nst i) = true -> clive cx = true).

Definition inner_ok (t : item) : Prop :=
  pending_st (st_of t) = false
  /\ (kids t <> [] -> is_got (st_of t) || status_eqb (st_of t) Completed || status_eqb (st_of t) Failed = true)
  /\ (st_of t = GotRedirected -> (length (kids t) <= 1)%nat).

Definition leaf (P : item -> Prop) (cx : ctx) (n : item) : Prop :=
  kids n = [] /\ par_ok cx (inf n) /\ P n.

Fixpoint shape (L : ctx -> item -> Prop) (k : nat) (cx : ctx) (t : item) : Prop :=
  match k with
  | O => L cx t
  | S k' => par_ok cx (inf t) /\ inner_ok t /\ Forall (shape L k' (down cx (inf t))) (kids t)
  end.

Definition fresh_leaf : ctx -> item -> Prop := leaf (fun n => st_of n = Fresh).

(* ---- generic facts ---- *)
Lemma shape_mono (L L' : ctx -> item -> Prop) : forall k cx t,
  (forall cx n, L cx n -> L' cx n) -> shape L k cx t -> shape L' k cx t.
Proof.
  induction k as [|k IH]; intros cx [i cs] HL H; [apply HL; exact H|].
  destruct H as [Hp [Hi Hc]]. split; [exact Hp|]. split; [exact Hi|].
  cbn [kids inf] in *. rewrite Forall_forall in *. intros x Hx. apply IH; [exact HL | apply Hc; exact Hx].
Qed.

Lemma shape_map_at (L1 L2 : ctx -> item -> Prop) g : forall k cx t,
  (forall cx n, In n (nodes_at k t) -> L1 cx n -> L2 cx (g n)) ->
  shape L1 k cx t -> shape L2 k cx (map_at k g t).
Proof.
  induction k as [|k IH]; intros cx [i cs] HL H.
  - apply HL; [left; reflexivity | exact H].
  - destruct H as [Hp [Hi Hc]]. cbn [map_at]. split; [exact Hp|]. cbn [kids inf] in *. split.
    + destruct Hi as [H1 [H2 H3]]. unfold inner_ok, st_of in *. cbn [inf kids] in *.
      split; [exact H1|]. split.
      * intros Hne. apply H2. intros ->. apply Hne. reflexivity.
      * intros Hs. rewrite map_length. apply H3. exact Hs.
    + rewrite Forall_forall in *. intros x Hx. apply in_map_iff in Hx as [y [<- Hy]].
      apply IH; [|apply Hc; exact Hy]. intros cx' n Hn. apply HL. cbn [nodes_at].
      apply in_flat_map. exists y. split; assumption.
Qed.

Lemma shape_S_inner (L : ctx -> item -> Prop) : forall k cx t,
  shape L (S k) cx t <-> shape (shape L 1) k cx t.
Proof.
  induction k as [|k IH]; intros cx [i cs]; [reflexivity|].
  change (shape L (S (S k)) cx (Node i cs)) with
    (par_ok cx i /\ inner_ok (Node i cs) /\ Forall (shape L (S k) (down cx i)) cs).
  change (shape (shape L 1) (S k) cx (Node i cs)) with
    (par_ok cx i /\ inner_ok (Node i cs) /\ Forall (shape (shape L 1) k (down cx i)) cs).
  rewrite !Forall_forall. split; intros [Hp [Hi Hc]]; (split; [exact Hp|]; split; [exact Hi|]);
    intros x Hx; apply IH; apply Hc; exact Hx.
Qed.

Lemma shape_nodes_at (L : ctx -> item -> Prop) : forall k cx t n,
  shape L k cx t -> In n (nodes_at k t) -> exists cx', L cx' n.
Proof.
  induction k as [|k IH]; intros cx [i cs] n H Hn.
  - destruct Hn as [<-|[]]. exists cx. exact H.
  - destruct H as [_ [_ Hc]]. cbn [nodes_at] in Hn. apply in_flat_map in Hn as [x [Hx Hn]].
    cbn [kids] in Hc. rewrite Forall_forall in Hc. exact (IH _ _ _ (Hc x Hx) Hn).
Qed.

Lemma shape_nodes_above (L : ctx -> item -> Prop) : forall k cx t lvl n,
  shape L k cx t -> (lvl < k)%nat -> In n (nodes_at lvl t) -> inner_ok n.
Proof.
  induction k as [|k IH]; intros cx [i cs] lvl n H Hl Hn; [lia|].
  destruct H as [_ [Hi Hc]]. destruct lvl as [|lvl].
  - destruct Hn as [<-|[]]. exact Hi.
  - cbn [nodes_at] in Hn. apply in_flat_map in Hn as [x [Hx Hn]].
    cbn [kids] in Hc. rewrite Forall_forall in Hc. apply (IH _ _ lvl n (Hc x Hx)); [lia | exact Hn].
Qed.

(* leaves have no children: nothing below level k *)
Lemma shape_leaf_bottom (P : item -> Prop) : forall k cx t,
  shape (leaf P) k cx t -> nodes_at (S k) t = [].
Proof.
  induction k as [|k IH]; intros cx [i cs] H.
  - destruct H as [Hk _]. cbn in Hk. subst. reflexivity.
  - destruct H as [_ [_ Hc]]. cbn [kids inf] in Hc. cbn [nodes_at].
    induction cs as [|x r IHr]; [reflexivity|]. inversion Hc as [|y l Hx Hr]; subst.
    cbn [flat_map]. change (nodes_at (S k) x) with (nodes_at (S k) x).
    assert (E : match x with Node _ cs0 => flat_map (nodes_at k) cs0 end = nodes_at (S k) x) by (destruct x; reflexivity).
    rewrite E, (IH _ _ Hx). cbn. apply IHr. exact Hr.
Qed.

(* ---- consistency check ---- *)
Lemma first_nonzero_zero l : Forall (fun x => x = 0%nat) l -> first_nonzero l = 0%nat.
Proof. induction 1 as [|x r Hx _ IH]; [reflexivity|]. subst. exact IH. Qed.

Lemma first_nonzero_zero_inv l : first_nonzero l = 0%nat -> Forall (fun x => x = 0%nat) l.
Proof.
  induction l as [|x r IH]; intros H; [constructor|]. destruct x as [|x]; [|discriminate H].
  constructor; [reflexivity | apply IH; exact H].
Qed.

Lemma check_node_inner cx i cs :
  par_ok cx i -> inner_ok (Node i cs) -> check_node (omap cx) (Node i cs) = 0%nat.
Proof.
  intros Hp [H1 [H2 H3]]. unfold st_of in *. cbn [inf kids] in *.
  unfold check_node, omap. unfold par_ok in Hp.
  destruct (cpar cx) as [p|]; cbn [option_map].
  - destruct Hp as [[Hv [Hf _]] _]. rewrite Hv.
    destruct cs as [|x [|y r]]; destruct (nst i); cbn in *; try reflexivity; try discriminate;
      try (specialize (H2 ltac:(discriminate)); discriminate H2);
      try (specialize (H3 eq_refl); lia).
  - destruct cs as [|x [|y r]]; destruct (nst i); cbn in *; try reflexivity; try discriminate;
      try (specialize (H2 ltac:(discriminate)); discriminate H2);
      try (specialize (H3 eq_refl); lia).
Qed.

Lemma check_node_leaf P cx n : leaf P cx n -> check (omap cx) n = 0%nat.
Proof.
  intros [Hk [Hp _]]. destruct n as [i cs]. cbn in Hk. subst cs.
  unfold par_ok in Hp. unfold omap. cbn [check check_node map first_nonzero length].
  destruct (cpar cx) as [p|]; cbn [option_map].
  - destruct Hp as [[Hv [Hf _]] _]. cbn [inf] in *. rewrite Hv.
    destruct (nst i) eqn:Es; cbn; try reflexivity.
    specialize (Hf eq_refl). rewrite Hf. reflexivity.
  - destruct (nst i); reflexivity.
Qed.

Lemma shape_check (P : item -> Prop) : forall k cx t,
  shape (leaf P) k cx t -> check (omap cx) t = 0%nat.
Proof.
  induction k as [|k IH]; intros cx [i cs] H.
  - exact (check_node_leaf P cx _ H).
  - destruct H as [Hp [Hi Hc]]. cbn [inf kids] in *.
    cbn [check]. rewrite (check_node_inner cx i cs Hp Hi).
    apply first_nonzero_zero. rewrite Forall_forall in *. intros x Hx.
    apply in_map_iff in Hx as [y [<- Hy]]. apply (IH (down cx i) y). apply Hc. exact Hy.
Qed.


(* ---- pending / closed ---- *)
Lemma forallb_flat_map {A B} (f : B -> bool) (g : A -> list B) l :
  forallb f (flat_map g l) = forallb (fun x => forallb f (g x)) l.
Proof. induction l as [|a r IH]; cbn; [reflexivity|]. rewrite forallb_app, IH. reflexivity. Qed.

Lemma no_pending_node i cs :
  no_pending (Node i cs) = negb (pending_st (nst i)) && forallb no_pending cs.
Proof. unfold no_pending. rewrite flatten_node. cbn [forallb]. rewrite forallb_flat_map. reflexivity. Qed.

Lemma shape_closed (P : item -> Prop) : forall k cx t,
  shape (leaf P) k cx t -> (clive cx = false -> no_pending t = true) /\ closed t = true.
Proof.
  induction k as [|k IH]; intros cx [i cs] H.
  - destruct H as [Hk [Hp _]]. cbn in Hk. subst cs. cbn [inf] in Hp.
    destruct Hp as [_ [_ Hl]]. split.
    + intros Hc. rewrite no_pending_node. cbn. destruct (pending_st (nst i)); [|reflexivity].
      specialize (Hl eq_refl). congruence.
    + cbn. rewrite orb_true_r. reflexivity.
  - destruct H as [Hp [[Hi _] Hc]]. cbn [inf kids] in *. unfold st_of in Hi. cbn [inf] in Hi.
    rewrite Forall_forall in Hc.
    assert (Hcl : forallb closed cs = true).
    { apply forallb_forall. intros x Hx. exact (proj2 (IH _ _ (Hc x Hx))). }
    assert (Hnp : clive cx && has_work_st (nst i) = false -> forallb no_pending cs = true).
    { intros Hd. apply forallb_forall. intros x Hx. apply (proj1 (IH _ _ (Hc x Hx))). exact Hd. }
    split.
    + intros Hd. rewrite no_pending_node, Hi. cbn. apply Hnp. rewrite Hd. reflexivity.
    + cbn [closed]. rewrite Hcl, andb_true_r. destruct (has_work_st (nst i)) eqn:Ew; [reflexivity|].
      cbn. apply Hnp. apply andb_false_r.
Qed.

Lemma shape_level (P : item -> Prop) : forall k cx t lvl n,
  shape (leaf P) k cx t -> In n (nodes_at lvl t) ->
  ((lvl < k)%nat -> pending_st (st_of n) = false) /\ (lvl = k -> P n /\ kids n = []) /\ (lvl <= k)%nat.
Proof.
  intros k cx t lvl n H Hn.
  destruct (Nat.lt_trichotomy lvl k) as [Hl|[He|Hg]].
  - split; [|split; [lia|lia]]. intros _. exact (proj1 (shape_nodes_above _ k cx t lvl n H Hl Hn)).
  - subst lvl. split; [lia|]. split; [|lia]. intros _.
    destruct (shape_nodes_at _ k cx t n H Hn) as [cx' [Hk [_ HP]]]. split; assumption.
  - exfalso. pose proof (shape_leaf_bottom P k cx t H) as Hb.
    assert (Hmono : forall a b u, nodes_at a u = [] -> nodes_at (a + b) u = []).
    { clear. induction a as [|a IH]; intros b [i cs] H; [discriminate|].
      cbn [nodes_at plus] in *. induction cs as [|c r IHr]; [reflexivity|]. cbn in *.
      apply app_eq_nil in H as [Hc Hr]. rewrite (IH b c Hc). cbn. apply IHr. exact Hr. }
    replace lvl with (S k + (lvl - S k))%nat in Hn by lia. rewrite (Hmono _ _ _ Hb) in Hn. destruct Hn.
Qed.

Lemma shape_max_depth (P : item -> Prop) k cx t :
  shape (leaf P) k cx t -> nodes_at k t <> [] -> max_depth t = k.
Proof. intros H Hne. apply max_depth_char; [exact Hne | exact (shape_leaf_bottom P k cx t H)]. Qed.

Lemma shape_max_depth_le (P : item -> Prop) k cx t :
  shape (leaf P) k cx t -> (max_depth t <= k)%nat.
Proof.
  intros H. pose proof (nodes_at_max_depth t) as Hm.
  destruct (nodes_at (max_depth t) t) as [|n r] eqn:E; [congruence|].
  assert (Hn : In n (nodes_at (max_depth t) t)) by (rewrite E; left; reflexivity).
  exact (proj2 (proj2 (shape_level P k cx t _ n H Hn))).
Qed.


(* ---- status changes and children replacement ---- *)
Lemma par_ok_set_st cx i s :
  par_ok cx i -> s <> Fresh -> pending_st s = false -> par_ok cx (set_st s i).
Proof.
  intros [H1 [H2 H3]] Hf Hp. unfold par_ok in *. cbn [set_st nvia nst nredir].
  split; [|split].
  - destruct (cpar cx) as [p|]; [|exact H1]. destruct H1 as [Hv [_ Hb]].
    split; [exact Hv|]. split; [intros E; contradiction | exact Hb].
  - unfold node_ad in *. cbn [nredir]. exact H2.
  - rewrite Hp. discriminate.
Qed.

(* a pending status may be replaced by any other pending status *)
Lemma par_ok_set_pending cx i s :
  par_ok cx i -> pending_st (nst i) = true -> s <> Fresh -> par_ok cx (set_st s i).
Proof.
  intros [H1 [H2 H3]] Hp Hf. unfold par_ok in *. cbn [set_st nvia nst nredir].
  split; [|split].
  - destruct (cpar cx) as [p|]; [|exact H1]. destruct H1 as [Hv [_ Hb]].
    split; [exact Hv|]. split; [intros E; contradiction | exact Hb].
  - unfold node_ad in *. cbn [nredir]. exact H2.
  - intros _. apply H3. exact Hp.
Qed.

Lemma par_ok_set_url cx i u : par_ok cx i -> par_ok cx (set_url u i).
Proof. intros H. exact H. Qed.

Lemma kids_sub_shape cx p ks :
  shape fresh_leaf 1 cx p -> (length ks <= length (kids p))%nat ->
  (forall x, In x ks -> fresh_leaf (down cx (inf p)) x) ->
  shape fresh_leaf 1 cx (Node (inf p) ks).
Proof.
  intros [Hp [[H1 [H2 H3]] Hc]] Hl Hx. split; [exact Hp|]. split.
  - unfold inner_ok, st_of in *. cbn [inf kids]. split; [exact H1|]. split.
    + intros Hne. apply H2. intros E. rewrite E in Hl. destruct ks; [congruence | cbn in Hl; lia].
    + intros Hs. specialize (H3 Hs). lia.
  - cbn [kids inf]. apply Forall_forall. exact Hx.
Qed.

Lemma shape_no_pending (P : item -> Prop) : forall k cx t,
  shape (leaf P) k cx t -> (forall n, In n (nodes_at k t) -> pending_st (st_of n) = false) ->
  no_pending t = true.
Proof.
  induction k as [|k IH]; intros cx [i cs] H Hn.
  - destruct H as [Hk _]. cbn in Hk. subst. rewrite no_pending_node.
    specialize (Hn _ (or_introl eq_refl)). unfold st_of in Hn. cbn in Hn. rewrite Hn. reflexivity.
  - destruct H as [_ [[Hi _] Hc]]. unfold st_of in Hi. cbn [inf kids] in *. rewrite no_pending_node, Hi.
    cbn. apply forallb_forall. intros x Hx. rewrite Forall_forall in Hc. apply (IH _ x (Hc x Hx)).
    intros n Hin. apply Hn. cbn [nodes_at]. apply in_flat_map. exists x. split; assumption.
Qed.

Lemma shape_live_root (P : item -> Prop) : forall k cx t n,
  shape (leaf P) k cx t -> In n (nodes_at k t) -> pending_st (st_of n) = true ->
  clive cx = true /\ ((0 < k)%nat -> has_work t = true).
Proof.
  induction k as [|k IH]; intros cx [i cs] n H Hn Hp.
  - destruct Hn as [<-|[]]. destruct H as [_ [[_ [_ Hl]] _]]. split; [apply Hl; exact Hp | lia].
  - destruct H as [_ [_ Hc]]. cbn [kids inf] in Hc. cbn [nodes_at] in Hn.
    apply in_flat_map in Hn as [x [Hx Hn]]. rewrite Forall_forall in Hc.
    destruct (IH _ x n (Hc x Hx) Hn Hp) as [Hl _]. cbn [down clive] in Hl.
    apply andb_prop in Hl as [Hl Hw]. split; [exact Hl|]. intros _. exact Hw.
Qed.

(* ---- mark_completed ---- *)
Lemma nodes_at_mark_completed : forall lvl t,
  nodes_at lvl (mark_completed t) = map mark_completed (nodes_at lvl t).
Proof.
  induction lvl as [|l IH]; intros [i cs]; [reflexivity|].
  cbn [mark_completed].
  destruct (forallb (fun c0 => negb (has_work c0)) (map mark_completed cs) && is_got (nst i));
    cbn [nodes_at]; rewrite flat_map_map, map_flat_map; apply flat_map_ext_in; intros x _; apply IH.
Qed.

Lemma ids_mark_completed : forall t, ids (mark_completed t) = ids t.
Proof.
  induction t as [i cs IH] using item_ind2. cbn [mark_completed].
  assert (E : flat_map ids (map mark_completed cs) = flat_map ids cs).
  { rewrite flat_map_map. apply flat_map_ext_in. intros x Hx. rewrite Forall_forall in IH. apply IH. exact Hx. }
  destruct (forallb (fun c0 => negb (has_work c0)) (map mark_completed cs) && is_got (nst i));
    rewrite !ids_node; cbn [set_st nid]; rewrite E; reflexivity.
Qed.

Lemma shape_ctx_dead : forall k i i' ad lv lv' t,
  shape fresh_leaf k (Ctx (Some i) ad lv) t -> has_work t = false ->
  nredir i' = nredir i -> is_got (nst i) = true -> nst i' = Completed ->
  shape fresh_leaf k (Ctx (Some i') ad lv') t.
Proof.
  intros k i i' ad lv lv' [j cs] H Hw Hr Hg Hs. destruct k as [|k].
  - destruct H as [_ [_ Hf]]. unfold has_work, st_of in *. cbn [inf] in *. rewrite Hf in Hw. discriminate.
  - destruct H as [Hp [Hi Hc]]. cbn [inf kids] in *. unfold has_work, st_of in Hw. cbn [inf] in Hw.
    split; [|split; [exact Hi|]].
    + destruct Hp as [[Hv [Hf Hb]] [H2 H3]]. cbn [cpar] in *. unfold par_ok. cbn [cpar clive].
      split; [|split].
      * split; [exact Hv|]. split.
        -- intros E. cbn [inf] in E. rewrite E in Hw. discriminate.
        -- intros Hbt. cbn [inf] in *. destruct (Hb Hbt) as [Hb1 [Hb2 Hb3]]. rewrite Hs, Hr.
           split; [discriminate|]. split; [discriminate|].
           destruct (nst i); try discriminate; [right; apply Hb1; reflexivity | left; apply Hb2; reflexivity].
      * exact H2.
      * intros Hpd. cbn [inf] in Hpd. destruct (nst j); discriminate.
    + assert (E : down (Ctx (Some i') ad lv') j = down (Ctx (Some i) ad lv) j).
      { unfold down, node_ad. cbn [cpar cpad clive]. rewrite Hw, !andb_false_r. reflexivity. }
      cbn [kids inf]. rewrite E. exact Hc.
Qed.

Lemma mc_shape : forall k cx t,
  shape fresh_leaf k cx t -> shape fresh_leaf k cx (mark_completed t).
Proof.
  induction k as [|k IH]; intros cx [i cs] H.
  - destruct H as [Hk [Hp Hf]]. cbn in Hk. subst cs. unfold st_of in Hf. cbn [inf] in Hf.
    cbn [mark_completed map forallb]. rewrite Hf. cbn. split; [reflexivity|]. split; [exact Hp|].
    unfold st_of. cbn. exact Hf.
  - destruct H as [Hp [[H1 [H2 H3]] Hc]]. cbn [inf kids] in *. unfold st_of in *. cbn [inf kids] in *.
    rewrite Forall_forall in Hc.
    assert (Hc' : forall x, In x (map mark_completed cs) -> shape fresh_leaf k (down cx i) x).
    { intros x Hx. apply in_map_iff in Hx as [y [<- Hy]]. apply IH. apply Hc. exact Hy. }
    cbn [mark_completed].
    destruct (forallb (fun c0 => negb (has_work c0)) (map mark_completed cs)) eqn:Eall;
      [destruct (is_got (nst i)) eqn:Eg|]; cbn [andb].
    + split; [|split].
      * cbn [inf]. apply par_ok_set_st; [exact Hp | discriminate | reflexivity].
      * unfold inner_ok, st_of. cbn [inf kids set_st nst]. split; [reflexivity|]. split; [reflexivity|discriminate].
      * cbn [kids inf]. apply Forall_forall. intros x Hx.
        rewrite forallb_forall in Eall. specialize (Eall x Hx). apply negb_true_iff in Eall.
        apply (shape_ctx_dead k i (set_st Completed i) (node_ad cx i) (clive cx && has_work_st (nst i))).
        -- apply Hc'. exact Hx.
        -- exact Eall.
        -- reflexivity.
        -- exact Eg.
        -- reflexivity.
    + split; [exact Hp|]. split.
      * unfold inner_ok, st_of. cbn [inf kids]. split; [exact H1|]. split.
        -- intros Hne. rewrite Eg. apply H2. intros ->. apply Hne. reflexivity.
        -- intros Hs. rewrite map_length. apply H3. exact Hs.
      * cbn [kids inf]. apply Forall_forall. exact Hc'.
    + split; [exact Hp|]. split.
      * unfold inner_ok, st_of. cbn [inf kids]. split; [exact H1|]. split.
        -- intros Hne. apply H2. intros ->. apply Hne. reflexivity.
        -- intros Hs. rewrite map_length. apply H3. exact Hs.
      * cbn [kids inf]. apply Forall_forall. exact Hc'.
Qed.

End Shape.
