(* Harness side of the stage model: replay of one seed's life, pass by pass, against the tree
   snapshots the real stages produced; monitors on the observed trees. *)
From ZenoV Require Import Lib.Harness Tree.Item Tree.ItemSpec Tree.TreeHarness Stage.Pass.
Open Scope N_scope.

Record prec := PR {
  p_pre : list (N * pre_ans);        (* normalisation / scope answers, by construction of the site *)
  p_seen : list N;                   (* nodes the seen-store marked *)
  p_fetch : list (N * option resp);  (* what the scripted server answered *)
  p_t_pre : item; p_t_arch : item; p_t_post : item; p_t_fin : item;
  p_dec : decision }.

Record pcase := PC {
  c_cfg : cfg; c_url : N; c_hops : N; c_finished : bool; c_passes : list prec }.

Definition oracle_of (p : prec) : oracle :=
  Oracle (fun id => match assoc id (p_pre p) with Some a => a | None => PNormFail end)
         (fun id => existsb (N.eqb id) (p_seen p))
         (fun _ => false)
         (fun id => match assoc id (p_fetch p) with Some r => r | None => None end).

Definition dec_eqb (a c : decision) : bool :=
  match a, c with DFeedback, DFeedback | DFinish, DFinish => true | _, _ => false end.

Fixpoint replay_passes (c : cfg) (st : item * N) (ps : list prec) : bool :=
  match ps with
  | [] => true
  | p :: r =>
    let o := oracle_of p in
    match pre_worker o (fst st) with
    | Ok t1 =>
      item_eqb t1 (p_t_pre p) &&
      match arch_worker o t1 with
      | Ok t2 =>
        item_eqb t2 (p_t_arch p) &&
        match post_worker c o t2 (snd st) with
        | Ok (t3, next') =>
          item_eqb t3 (p_t_post p) &&
          match fin_worker t3 with
          | Ok (t4, d) =>
            item_eqb t4 (p_t_fin p) && dec_eqb d (p_dec p) &&
            match d with
            | DFinish => match r with [] => true | _ => false end
            | DFeedback => replay_passes c (t4, next') r
            end
          | Panic _ => false
          end
        | Panic _ => false
        end
      | Panic _ => false
      end
    | Panic _ => false
    end
  end.

(* the state the replay starts from: the seed as the driver built it. The theorems of Stage/PassSpec.v start from
   [seed0] (a row of the queue: no via); a seed born from an outlink carries a via, which the model records in [nvia]
   (CheckConsistency: only the seed may have one) - for those the run of the model functions is compared all the same *)
Definition seed_init (c : pcase) : item * N :=
  match c_passes c with
  | p :: _ => match p_t_pre p with
              | Node i _ => (Node (Info 0 (c_url c) Fresh (nvia i) (c_hops c) 0) [], 1)
              end
  | [] => seed0 (c_url c) (c_hops c)
  end.

Definition diff_case (c : pcase) : bool :=
  negb (c_finished c && replay_passes (c_cfg c) (seed_init c) (c_passes c)).
Definition diffs (l : list pcase) := bad_idx diff_case l.

(* ---- monitors: on the observed trees only ---- *)
Definition all_trees (c : pcase) : list item :=
  flat_map (fun p => [p_t_pre p; p_t_arch p; p_t_post p; p_t_fin p]) (c_passes c).

(* m0: the seed was finished, exactly once, by the last pass; every earlier pass fed it back *)
Fixpoint finish_last (ps : list prec) : bool :=
  match ps with
  | [] => false
  | [p] => dec_eqb (p_dec p) DFinish
  | p :: r => dec_eqb (p_dec p) DFeedback && finish_last r
  end.
Definition mon_finished_once (c : pcase) : bool := c_finished c && finish_last (c_passes c).

(* m1: well-formed at every stage boundary: consistency check, unique ids *)
Definition mon_wf (c : pcase) : bool :=
  forallb (fun t => Nat.eqb (check_consistency t) 0 && nodupN (ids t)) (all_trees c).

(* m2: finished only when nothing awaits fetching or post-processing; fed back only when something does *)
Definition mon_finish_iff (c : pcase) : bool :=
  forallb (fun p => match p_dec p with
                    | DFinish => no_pending (p_t_fin p)
                    | DFeedback => negb (no_pending (p_t_fin p))
                    end) (c_passes c).

(* m3: within one tree no URL is held by two non-seed nodes after preprocessing *)
Definition mon_unique_urls (c : pcase) : bool :=
  forallb (fun p => nodupN (nonseed_urls (p_t_pre p))) (c_passes c).

(* m4 (C06): no redirect chain longer than max_redirect; m5: no node deeper than 3 asset levels *)
Fixpoint redir_chain_ok (mr : N) (t : item) : bool :=
  match t with Node i cs => (nredir i <=? mr) && forallb (redir_chain_ok mr) cs end.
Definition mon_redirects (c : pcase) : bool :=
  forallb (fun t => redir_chain_ok (max_redirect (c_cfg c)) t) (all_trees c).
(* the depth is only meaningful for nodes that still have work: once a redirect node is marked
   Completed the status-based computation counts it as a level (the real code evaluates it on
   Archived nodes only, whose ancestors are never Completed yet) *)
Fixpoint pending_depth_ok (d : nat) (t : item) : bool :=   (* d = this node's value + 1 *)
  match t with
  | Node i cs => (negb (pending_st (nst i)) || Nat.leb d 4)
                 && forallb (fun k => pending_depth_ok (dwr_child d k) k) cs
  end.
Definition mon_depth (c : pcase) : bool :=
  domains_crawl (c_cfg c) || forallb (fun t => pending_depth_ok (dwr_seed t) t) (all_trees c).

(* m6: nothing that was fetched (Archived or later) is ever fetched by a second node: every node
   that is PreProcessed after preprocessing has a URL no other non-seed node of the tree has
   (follows from m3) and was Fresh before - checked through statuses: a node is PreProcessed at most
   once in its life *)
Fixpoint preprocessed_ids (t : item) : list N :=
  match t with Node i cs =>
    (if status_eqb (nst i) PreProcessed then [nid i] else []) ++ flat_map preprocessed_ids cs end.
Definition mon_fetch_once (c : pcase) : bool :=
  nodupN (flat_map (fun p => preprocessed_ids (p_t_pre p)) (c_passes c)).

(* m7: a redirect within the limit is always followed - at any depth, for any MIME type, with or without asset
   capture (Stage/Pass.v post_item handles the redirect before every "nothing more to do here" rule; theorem
   post_item_follows_redirect): every node that was Archived with a 3xx answer and redirects left has, after
   post-processing, the status GotRedirected and a child *)
Definition mon_redirect_followed (c : pcase) : bool :=
  forallb (fun p =>
    forallb (fun n =>
      match assoc (id_of n) (p_fetch p) with
      | Some (Some r) =>
        if status_eqb (st_of n) Archived && r_redirect r && (nredir (inf n) <? max_redirect (c_cfg c)) then
          match find (fun m => N.eqb (id_of m) (id_of n)) (flatten (p_t_post p)) with
          | Some m => status_eqb (st_of m) GotRedirected && negb (match kids m with [] => true | _ => false end)
          | None => false
          end
        else true
      | _ => true
      end) (flatten (p_t_arch p))) (c_passes c).

(* m8: a redirect target is never dropped for a reason that only applies to embedded assets: the Fresh child of a
   GotRedirected node that normalises and is in scope (answer POk _ false _) is still in the tree after the next
   pre-processing, whatever its path (the "removing child with empty path" rule is for GotChildren parents; theorem
   pre_loop_keeps_redirect_target) *)
Fixpoint mon_targets_from (prev : item) (ps : list prec) : bool :=
  match ps with
  | [] => true
  | p :: r =>
    forallb (fun np =>
      match snd np with
      | Some par =>
        if status_eqb (st_of (fst np)) Fresh && status_eqb (st_of par) GotRedirected then
          match assoc (id_of (fst np)) (p_pre p) with
          | Some (POk u false _) =>
            existsb (N.eqb (id_of (fst np))) (ids (p_t_pre p))
            || existsb (fun m => N.eqb (url_of m) u) (flatten (p_t_pre p))   (* de-duplicated: another node carries its URL *)
          | _ => true
          end
        else true
      | None => true
      end) (level_par (max_depth prev) None prev)
    && mon_targets_from (p_t_fin p) r
  end.
Definition mon_redirect_target_kept (c : pcase) : bool :=
  match c_passes c with
  | [] => true
  | p :: r => mon_targets_from (p_t_fin p) r
  end.

Definition mons (l : list pcase) :=
  mon_idx [mon_finished_once; mon_wf; mon_finish_iff; mon_unique_urls; mon_redirects; mon_depth; mon_fetch_once;
           mon_redirect_followed; mon_redirect_target_kept] l.
