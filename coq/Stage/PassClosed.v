(* The statements of Stage/PassSpec.v closed with the tree lemmas of Tree/ItemProofs.v, the end
   results with their quantifiers spelled out, non-vacuity examples, and the witnesses that refute
   the first formulation of the C06 invariants. *)
From Coq Require Import Lia.
From ZenoV Require Import Tree.Item Tree.ItemSpec Tree.ItemProofs Stage.Pass Stage.PassSpec
  Stage.TreeLemmas Stage.PassInv Stage.PassStages Stage.PassProofs.
Open Scope N_scope.

(* ---- instantiation ---- *)
Notation close L :=
  (L dedupe_unique_lemma dedupe_prune_lemma dedupe_ids_lemma WF_fresh_leaves_lemma
     complete_iff_lemma remove_child_ids_lemma add_child_ids_lemma) (only parsing).

Lemma seed0_inv_closed : seed0_inv_stmt.                   Proof. exact seed0_inv_lemma. Qed.
Lemma pass_preserves_closed : pass_preserves_stmt.         Proof. exact (close pass_preserves_lemma). Qed.
Lemma pass_stages_closed : pass_stages_stmt.               Proof. exact (close pass_stages_lemma). Qed.
Lemma run_passes_closed : run_passes_stmt.                 Proof. exact (close run_passes_lemma). Qed.
Lemma pass_preserves_bounds_closed : pass_preserves_bounds_stmt.
Proof. exact (close pass_preserves_bounds_lemma). Qed.
Lemma passes_bounded_closed : passes_bounded_stmt.         Proof. exact (close passes_bounded_lemma). Qed.
Lemma passes_bounded_tight_closed : passes_bounded_tight_stmt.
Proof. exact (close passes_bounded_tight_lemma). Qed.
Lemma pass_depth_closed : pass_depth_stmt.                 Proof. exact (close pass_depth_lemma). Qed.
Lemma pass_redirects_closed : pass_redirects_stmt.         Proof. exact (close pass_redirects_lemma). Qed.
Lemma fetch_once_closed : fetch_once_stmt.                 Proof. exact (close fetch_once_lemma). Qed.

(* ================================================================================== *)
(* The end results, quantifiers spelled out                                            *)
(* ================================================================================== *)

(* the trees at the four stage boundaries of every pass of a seed's life *)
Fixpoint run_trees (c : cfg) (os : list oracle) (st : item * N) : list item :=
  match os with
  | [] => []
  | o :: r =>
    match pre_worker o (fst st) with
    | Ok t1 =>
      t1 :: match arch_worker o t1 with
            | Ok t2 =>
              t2 :: match post_worker c o t2 (snd st) with
                    | Ok (t3, next') =>
                      t3 :: match fin_worker t3 with
                            | Ok (t4, DFeedback) => t4 :: run_trees c r (t4, next')
                            | Ok (t4, DFinish) => [t4]
                            | Panic _ => []
                            end
                    | Panic _ => []
                    end
            | Panic _ => []
            end
    | Panic _ => []
    end
  end.

(* (a) for every configuration, every list of oracles (= whatever the site, the seen-store and the
   filters answer in each pass) and every seed: no stage ever panics *)
Theorem a_no_panic : forall c os u hops w, run_passes c os (seed0 u hops) <> Panic w.
Proof.
  intros c os u hops w H. destruct (run_passes_closed c os u hops) as [t [n [d [E _]]]]. congruence.
Qed.

(* the invariant holds between passes, for the whole life *)
Lemma run_feedback_inv c : forall os t next t' next',
  Inv t next -> run_passes c os (t, next) = Ok (t', next', DFeedback) -> Inv t' next'.
Proof.
  intros os t next t' next' HI E.
  destruct (close run_passes_inv c os t next HI) as [t1 [n1 [d [E1 [_ [_ [_ Hfb]]]]]]].
  rewrite E1 in E. inversion E; subst. exact (Hfb eq_refl).
Qed.

Lemma run_feedback_invb c : forall os t next t' next',
  InvB c t next -> run_passes c os (t, next) = Ok (t', next', DFeedback) -> InvB c t' next'.
Proof.
  induction os as [|o r IH]; intros t next t' next' HB E.
  - cbn in E. inversion E; subst. exact HB.
  - cbn [run_passes] in E. destruct (pass c o (t, next)) as [[[t1 n1] d]|w] eqn:Ep; [|discriminate].
    destruct d; [|discriminate]. apply (IH t1 n1 t' next'); [|exact E].
    exact (pass_preserves_bounds_closed c o t next t1 n1 HB Ep).
Qed.

(* (b) at every stage boundary of every pass the tree has unique ids and passes the consistency check *)
Lemma run_trees_wf c : forall os t next, Inv t next -> forall x, In x (run_trees c os (t, next)) -> wf x.
Proof.
  induction os as [|o r IH]; intros t next HI x Hx; [destruct Hx|].
  destruct (pass_stages_closed c o t next HI)
    as [t1 [t2 [t3 [n' [t4 [d [E1 [E2 [E3 [E4 [Ep [W1 [W2 [W3 [W4 _]]]]]]]]]]]]]]].
  cbn [run_trees fst snd] in Hx. rewrite E1, E2, E3, E4 in Hx.
  destruct Hx as [<-|[<-|[<-|Hx]]]; [exact W1 | exact W2 | exact W3|].
  destruct d.
  - destruct Hx as [<-|Hx]; [exact W4|]. apply (IH t4 n'); [|exact Hx].
    destruct (pass_preserves_closed c o t next HI) as [t' [n'' [d' [Ep' [_ [Hfb _]]]]]].
    rewrite Ep in Ep'. inversion Ep'; subst. exact (proj1 (Hfb eq_refl)).
  - destruct Hx as [<-|[]]. exact W4.
Qed.

Theorem b_wellformed_at_every_boundary : forall c os u hops x,
  In x (run_trees c os (seed0 u hops)) -> NoDup (ids x) /\ check_consistency x = 0%nat.
Proof.
  intros c os u hops x Hx.
  exact (run_trees_wf c os _ _ (seed0_inv_closed u hops) x Hx).
Qed.

(* (c) in every pass of every run: the finisher says Finish iff nothing in the tree it received
   awaits fetching or post-processing (and the tree it hands on has the same answer); when it
   feeds the seed back, the invariant holds again and the tree is exactly one level deeper *)
Theorem c_finish_iff_nothing_pending : forall c os1 o u hops t next,
  run_passes c os1 (seed0 u hops) = Ok (t, next, DFeedback) ->
  exists t1 t2 t3 next' t4 d,
    pre_worker o t = Ok t1 /\ arch_worker o t1 = Ok t2 /\ post_worker c o t2 next = Ok (t3, next')
    /\ fin_worker t3 = Ok (t4, d) /\ pass c o (t, next) = Ok (t4, next', d)
    /\ (d = DFinish <-> no_pending t3 = true) /\ no_pending t4 = no_pending t3
    /\ (d = DFeedback -> Inv t4 next' /\ max_depth t4 = S (max_depth t)).
Proof.
  intros c os1 o u hops t next E.
  assert (HI : Inv t next).
  { apply (run_feedback_inv c os1 _ _ t next (seed0_inv_closed u hops)). exact E. }
  destruct (pass_stages_closed c o t next HI)
    as [t1 [t2 [t3 [n' [t4 [d [E1 [E2 [E3 [E4 [Ep [_ [_ [_ [_ [Hiff Hnp]]]]]]]]]]]]]]]].
  exists t1, t2, t3, n', t4, d. split; [exact E1|]. split; [exact E2|]. split; [exact E3|]. split; [exact E4|].
  split; [exact Ep|]. split; [exact Hiff|]. split; [exact Hnp|].
  intros Hd. destruct (pass_preserves_closed c o t next HI) as [t' [n'' [d' [Ep' [_ [Hfb _]]]]]].
  rewrite Ep in Ep'. inversion Ep'; subst. exact (Hfb eq_refl).
Qed.

(* (d) C06, whatever the oracles answer.  Between passes: the redirect counters are exact and at
   most max_redirect, and with domains-crawl off no node is deeper than 3 asset levels. *)
Theorem d_bounds_between_passes : forall c os u hops t next,
  run_passes c os (seed0 u hops) = Ok (t, next, DFeedback) ->
  redir_ok c None t = true /\ (domains_crawl c = false -> adepth_ok 3 0 t = true).
Proof.
  intros c os u hops t next E.
  exact (proj2 (run_feedback_invb c os _ _ t next (seed0_invb c u hops) E)).
Qed.

(* ... and at the stage boundaries of the next pass: counters exact and bounded; with domains-crawl
   off no node that awaits fetching or post-processing is deeper than 3 asset levels in the code's
   own measure (GetDepthWithoutRedirections <= 3) *)
Theorem d_bounds_at_boundaries : forall c os1 o u hops t next t1 t2 t3 next' t4 d,
  run_passes c os1 (seed0 u hops) = Ok (t, next, DFeedback) ->
  pre_worker o t = Ok t1 -> arch_worker o t1 = Ok t2 -> post_worker c o t2 next = Ok (t3, next') ->
  fin_worker t3 = Ok (t4, d) ->
  (redir_ok c None t1 = true /\ redir_ok c None t2 = true /\ redir_ok c None t3 = true /\ redir_ok c None t4 = true)
  /\ (domains_crawl c = false ->
      pending_depth_ok (dwr_seed t1) t1 = true /\ pending_depth_ok (dwr_seed t2) t2 = true
      /\ pending_depth_ok (dwr_seed t3) t3 = true).
Proof.
  intros c os1 o u hops t next t1 t2 t3 next' t4 d E E1 E2 E3 E4.
  pose proof (run_feedback_invb c os1 _ _ t next (seed0_invb c u hops) E) as HB. split.
  - exact (pass_redirects_closed c o t next t1 t2 t3 next' t4 d HB E1 E2 E3 E4).
  - intros Hdc. exact (pass_depth_closed c o t next t1 t2 t3 next' HB Hdc E1 E2 E3).
Qed.

(* ... and the seed is finished after at most 4 * (max_redirect + 1) passes *)
Theorem d_finished_within_bound : forall c os u hops,
  domains_crawl c = false ->
  (length os >= 4 * (N.to_nat (max_redirect c) + 1))%nat ->
  exists t next, run_passes c os (seed0 u hops) = Ok (t, next, DFinish).
Proof. exact passes_bounded_tight_closed. Qed.

(* (e) over the seed's whole life no non-seed node is fetched twice and no URL is fetched by two
   different non-seed nodes *)
Theorem e_fetch_once : forall c os u hops,
  NoDup (map fst (run_fetched c os (seed0 u hops))) /\ NoDup (map snd (run_fetched c os (seed0 u hops))).
Proof. exact fetch_once_closed. Qed.

(* ================================================================================== *)
(* Executable checks of the invariants (for the examples)                              *)
(* ================================================================================== *)
Fixpoint nodupb (l : list N) : bool :=
  match l with [] => true | x :: r => negb (existsb (N.eqb x) r) && nodupb r end.

Lemma nodupb_sound l : nodupb l = true -> NoDup l.
Proof.
  induction l as [|x r IH]; intros H; [constructor|]. cbn in H. apply andb_prop in H as [H1 H2].
  constructor; [|exact (IH H2)]. intros Hin. apply negb_true_iff in H1.
  assert (existsb (N.eqb x) r = true) by (apply existsb_exists; exists x; split; [exact Hin | apply N.eqb_refl]).
  congruence.
Qed.

Definition level_okb (t : item) : bool :=
  let D := max_depth t in
  forallb (fun lvl =>
    forallb (fun n => if Nat.eqb lvl D then status_eqb (st_of n) Fresh
                      else negb (pending_st (st_of n))) (nodes_at lvl t)) (seq 0 (S D)).

Definition invb (t : item) (next : N) : bool :=
  nodupb (ids t) && forallb (fun i => i <? next) (ids t) && Nat.eqb (check_consistency t) 0
  && level_okb t && closed t && has_work t && nodupb (worked_urls t).

Lemma invb_sound t next : invb t next = true -> Inv t next.
Proof.
  unfold invb. intros H.
  apply andb_prop in H as [H Hu]. apply andb_prop in H as [H Hw]. apply andb_prop in H as [H Hcl].
  apply andb_prop in H as [H Hl]. apply andb_prop in H as [H Hc]. apply andb_prop in H as [Hd Hb].
  split; [apply nodupb_sound; exact Hd|]. split.
  { intros i Hi. rewrite forallb_forall in Hb. apply N.ltb_lt. exact (Hb i Hi). }
  split; [apply Nat.eqb_eq; exact Hc|]. split.
  { intros lvl n Hn. unfold level_okb in Hl. rewrite forallb_forall in Hl.
    destruct (Nat.le_gt_cases lvl (max_depth t)) as [Hle|Hgt].
    - assert (Hin : In lvl (seq 0 (S (max_depth t)))) by (apply in_seq; lia).
      specialize (Hl lvl Hin). rewrite forallb_forall in Hl. specialize (Hl n Hn). split.
      + intros ->. rewrite Nat.eqb_refl in Hl. destruct (st_of n); try discriminate; reflexivity.
      + intros Hlt. assert (E : Nat.eqb lvl (max_depth t) = false) by (apply Nat.eqb_neq; lia).
        rewrite E in Hl. apply negb_true_iff in Hl. exact Hl.
    - rewrite (nodes_at_above lvl t Hgt) in Hn. destruct Hn. }
  split; [exact Hcl|]. split; [exact Hw|]. apply nodupb_sound. exact Hu.
Qed.

Definition invBb (c : cfg) (t : item) (next : N) : bool :=
  invb t next && redir_ok c None t && (domains_crawl c || adepth_ok 3 0 t).

Lemma invBb_sound c t next : invBb c t next = true -> InvB c t next.
Proof.
  unfold invBb. intros H. apply andb_prop in H as [H H3]. apply andb_prop in H as [H1 H2].
  split; [exact (invb_sound t next H1)|]. split; [exact H2|]. intros Hdc. rewrite Hdc in H3. exact H3.
Qed.

(* ================================================================================== *)
(* Non-vacuity: a seed driven through four passes with a duplicate asset, an asset that *)
(* normalises badly, a seen asset, a request that cannot be built, a failed fetch, a     *)
(* redirect, assets of the redirect target, a duplicate of an already fetched URL and an *)
(* excluded asset                                                                        *)
(* ================================================================================== *)
Definition mk_oracle (pre : list (N * pre_ans)) (seen reqf : list N) (fetch : list (N * option resp)) : oracle :=
  Oracle (fun id => match assoc id pre with Some a => a | None => POk (1000 + id) false false end)
         (fun id => existsb (N.eqb id) seen) (fun id => existsb (N.eqb id) reqf)
         (fun id => match assoc id fetch with Some r => r | None => Some (Resp false 0 true false []) end).

Definition ex_c := Cfg 2 false false.
Definition ex_os : list oracle :=
  [ mk_oracle [(0, POk 7 false false)] [] [] [(0, Some (Resp false 0 true true [11;12;12;13;14;15]))];
    mk_oracle [(1, POk 11 false false); (2, POk 12 false false); (3, POk 12 false false); (4, POk 13 false false);
               (5, PNormFail); (6, POk 16 false false)] [4] [6]
              [(1, Some (Resp true 21 false false [])); (2, None)];
    mk_oracle [(7, POk 21 false false)] [] [] [(7, Some (Resp false 0 true false [31; 11; 32]))];
    mk_oracle [(8, POk 31 false false); (9, POk 11 false false); (10, POk 32 true false)] [] [] [] ].

Definition ex_state (k : nat) := run_passes ex_c (firstn k ex_os) (seed0 7 0).

(* the first three passes feed the seed back, the fourth finishes it *)
Example ex_decisions :
  map (fun k => match ex_state k with Ok (_, _, d) => Some d | Panic _ => None end) [1; 2; 3; 4]%nat
  = [Some DFeedback; Some DFeedback; Some DFeedback; Some DFinish].
Proof. vm_compute. reflexivity. Qed.

(* the hypotheses of pass_preserves / pass_preserves_bounds / pass_stages / pass_depth /
   pass_redirects hold in the non-trivial states of this run (11 nodes are created, 7 survive) *)
Example ex_invariant_nonvacuous :
  forall k, In k [0; 1; 2; 3]%nat ->
  exists t next, ex_state k = Ok (t, next, DFeedback) /\ InvB ex_c t next /\ max_depth t = k.
Proof.
  intros k Hk.
  repeat (destruct Hk as [<-|Hk];
          [eexists; eexists; split; [vm_compute; reflexivity|];
           split; [apply invBb_sound; vm_compute; reflexivity | vm_compute; reflexivity]|]).
  destruct Hk.
Qed.

Example ex_final :
  exists t next, ex_state 4 = Ok (t, next, DFinish) /\ no_pending t = true /\ size t = 7%nat /\ next = 11.
Proof. eexists; eexists. split; [vm_compute; reflexivity|]. repeat split; vm_compute; reflexivity. Qed.

(* what was fetched over the whole life: the duplicates (ids 3 and 9), the seen (4), the unbuildable
   (6), the badly normalised (5) and the excluded (10) assets were not *)
Example ex_fetched : run_fetched ex_c ex_os (seed0 7 0) = [(1, 11); (2, 12); (7, 21); (8, 31)].
Proof. vm_compute. reflexivity. Qed.

Example ex_boundary_trees : length (run_trees ex_c ex_os (seed0 7 0)) = 16%nat.
Proof. vm_compute. reflexivity. Qed.

(* ---- the pass bound is exact: an endless-redirect / endless-nesting site ---- *)
Definition adv_oracle (mr k : N) : oracle :=
  Oracle (fun id => POk (1000 + id) false false) (fun _ => false) (fun _ => false)
         (fun id => Some (Resp (k mod (mr + 1) <? mr) (100 + k) true false [200 + k])).
Definition adv_oracles (mr : N) (n : nat) := map (fun k => adv_oracle mr (N.of_nat k)) (seq 0 n).

Example passes_bound_tight_example :
  (exists t next, run_passes (Cfg 2 false false) (adv_oracles 2 11) (seed0 7 0) = Ok (t, next, DFeedback))
  /\ (exists t next, run_passes (Cfg 2 false false) (adv_oracles 2 12) (seed0 7 0) = Ok (t, next, DFinish)).
Proof. split; eexists; eexists; vm_compute; reflexivity. Qed.

(* ================================================================================== *)
(* The first formulation of the C06 invariants is refuted by reachable trees           *)
(* ================================================================================== *)
Definition rf_os : list oracle :=
  [ mk_oracle [] [] [] [(0, Some (Resp false 0 true false [11;12]))];
    mk_oracle [] [] [] [(1, Some (Resp true 21 false false [])); (2, Some (Resp false 0 true false [31]))];
    mk_oracle [] [] [] [(3, Some (Resp false 0 true false [])); (4, Some (Resp false 0 true false [41]))] ].

Lemma redir_ok_orig_refuted :
  exists c os u hops t next,
    run_passes c os (seed0 u hops) = Ok (t, next, DFeedback) /\ Inv t next
    /\ redir_ok_orig c 0 t = false /\ redir_ok c None t = true.
Proof.
  exists ex_c, rf_os, 7, 0. eexists; eexists. split; [vm_compute; reflexivity|].
  split; [apply invb_sound; vm_compute; reflexivity|]. split; vm_compute; reflexivity.
Qed.

Definition rd_os : list oracle :=
  [ mk_oracle [] [] [] [(0, Some (Resp false 0 true false [11]))];
    mk_oracle [] [] [] [(1, Some (Resp false 0 true false [21;22]))];
    mk_oracle [] [] [] [(2, Some (Resp false 0 true false [31])); (3, Some (Resp false 0 true false [32]))];
    mk_oracle [] [] [] [(4, Some (Resp true 41 false false [])); (5, Some (Resp true 42 false false []))];
    mk_oracle [] [] [] [(6, Some (Resp false 0 true false [])); (7, Some (Resp true 52 false false []))] ].

Lemma depth_ok_orig_refuted :
  exists c os u hops t next,
    domains_crawl c = false /\ run_passes c os (seed0 u hops) = Ok (t, next, DFeedback) /\ Inv t next
    /\ depth_ok_orig t = false /\ adepth_ok 3 0 t = true /\ pending_depth_ok (dwr_seed t) t = true.
Proof.
  exists ex_c, rd_os, 7, 0. eexists; eexists. split; [reflexivity|]. split; [vm_compute; reflexivity|].
  split; [apply invb_sound; vm_compute; reflexivity|]. repeat split; vm_compute; reflexivity.
Qed.

Print Assumptions a_no_panic.
Print Assumptions b_wellformed_at_every_boundary.
Print Assumptions c_finish_iff_nothing_pending.
Print Assumptions d_bounds_between_passes.
Print Assumptions d_bounds_at_boundaries.
Print Assumptions d_finished_within_bound.
Print Assumptions e_fetch_once.
Print Assumptions pass_preserves_closed.
Print Assumptions pass_preserves_bounds_closed.
Print Assumptions passes_bounded_closed.
Print Assumptions run_passes_closed.
