(* Response bodies held by the nodes of a seed's tree (C16).  Transcribed from
   internal/pkg/archiver/archiver.go (a node that is archived holds its response body: the spooled
   copy made by ProcessBody, possibly a temp file on disk), internal/pkg/postprocessor/item.go
   (postprocessItem defers closeBody on the node it works on) and postprocessor.go (the worker calls
   closeBodies(seed), a traversal of the WHOLE tree, before it sends the seed on). *)
From Coq Require Export List Bool.
Export ListNotations.

Inductive btree := BNode (open : bool) (kids : list btree).

Fixpoint any_open (t : btree) : bool :=
  match t with BNode o ks => o || existsb any_open ks end.

(* closeBodies: Traverse visits every node and closes what is open *)
Fixpoint close_bodies (t : btree) : btree :=
  match t with BNode _ ks => BNode false (map close_bodies ks) end.

(* the archiver may attach a body to any node, the postprocessor may add children anywhere: both
   are arbitrary tree transformations here *)
Definition post_stage (f : btree -> btree) (t : btree) : btree := close_bodies (f t).

Fixpoint btree_ind2 (P : btree -> Prop)
  (H : forall o ks, Forall P ks -> P (BNode o ks)) (t : btree) : P t :=
  match t with
  | BNode o ks => H o ks ((fix go (l : list btree) : Forall P l :=
                              match l with [] => Forall_nil P | x :: r => Forall_cons x (btree_ind2 P H x) (go r) end) ks)
  end.

Lemma close_bodies_none_open : forall t, any_open (close_bodies t) = false.
Proof.
  apply btree_ind2. intros o ks IH. simpl.
  induction ks as [|k r IHr]; simpl; auto.
  inversion IH; subst. rewrite H1. simpl. apply IHr. exact H2.
Qed.

(* whatever the archiver and the postprocessor did to the tree, a seed leaves the postprocessor
   (towards the finisher, hence towards the feedback loop or the finish) holding no body *)
Theorem no_body_after_post : forall f t, any_open (post_stage f t) = false.
Proof. intros f t. apply close_bodies_none_open. Qed.

Example bodies_example :
  any_open (BNode false [BNode true []; BNode false [BNode true []]]) = true
  /\ any_open (post_stage (fun t => t) (BNode false [BNode true []; BNode false [BNode true []]])) = false.
Proof. split; reflexivity. Qed.
