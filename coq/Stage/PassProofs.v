(* Proofs of the statements of Stage/PassSpec.v.  Everything is proved inside a Section whose
   hypotheses are statements of Tree/ItemSpec.v (proved in Tree/ItemProofs.v and
   Tree/ItemProofsExtra.v); Stage/PassClosed.v instantiates them. *)
From Coq Require Import Lia.
From ZenoV Require Import Tree.Item Tree.ItemSpec Stage.Pass Stage.PassSpec
  Stage.TreeLemmas Stage.PassInv Stage.PassStages.
Open Scope N_scope.

(* ---- reading the consistency check ---- *)
Lemma check_inv par i cs :
  check par (Node i cs) = 0%nat ->
  check_node par (Node i cs) = 0%nat /\ Forall (fun x => check (Some (nst i)) x = 0%nat) cs.
Proof.
  cbn [check]. destruct (check_node par (Node i cs)) eqn:E; [|discriminate].
  intros H. split; [reflexivity|]. apply first_nonzero_zero_inv in H.
  rewrite Forall_forall in *. intros x Hx. apply H. apply in_map. exact Hx.
Qed.

Lemma check_node_facts par i cs :
  check_node par (Node i cs) = 0%nat ->
  (par <> None -> nvia i = false)
  /\ (nst i = Fresh -> cs = [])
  /\ (nst i = Fresh -> forall ps, par = Some ps -> is_got ps = true)
  /\ (nst i = GotRedirected -> (length cs <= 1)%nat)
  /\ (cs <> [] -> is_got (nst i) || status_eqb (nst i) Completed || status_eqb (nst i) Failed = true).
Proof.
  unfold check_node. intros H.
  destruct par as [ps|]; destruct (nvia i) eqn:Ev; try discriminate H;
  destruct (nst i) eqn:Es; destruct cs as [|x [|y r]]; cbn in H; try discriminate H;
  repeat split; intros; try reflexivity; try congruence; try (cbn; lia);
  try match goal with
      | [ Hp : Some ?a = Some ?b |- _ ] => inversion Hp; subst; destruct b; cbn in *; congruence
      end.
Qed.

Section Bridge.
Variable c : cfg.
Variable bnd : bool.

Definition bnd_conds (cx : ctx) (t : item) : Prop :=
  bnd = true ->
  redir_ok c (cpar cx) t = true
  /\ (domains_crawl c = false -> adepth_ok 3 (node_ad cx (inf t)) t = true).

Lemma par_ok_from cx i cs :
  check_node (omap cx) (Node i cs) = 0%nat -> bnd_conds cx (Node i cs) ->
  (pending_st (nst i) = true -> clive cx = true) -> par_ok c bnd cx i.
Proof.
  intros Hc Hb Hl. destruct (check_node_facts _ _ _ Hc) as [Hv [_ [Hf _]]].
  unfold par_ok. split; [|split; [|exact Hl]].
  - unfold omap in *. destruct (cpar cx) as [p|] eqn:Ep; cbn [option_map] in *.
    + split; [apply Hv; discriminate|]. split; [intros E; exact (Hf E _ eq_refl)|].
      intros Hbt. destruct (Hb Hbt) as [Hr _]. cbn [redir_ok] in Hr. rewrite Ep in Hr.
      apply andb_prop in Hr as [Hr _]. apply andb_prop in Hr as [_ Hr].
      destruct (nst p);
        try (apply orb_prop in Hr as [Hr|Hr]; apply N.eqb_eq in Hr;
             (split; [discriminate|]; split; [discriminate|]); [left|right]; exact Hr);
        apply N.eqb_eq in Hr.
      * split; [intros _; exact Hr|]. split; [discriminate|]. right. exact Hr.
      * split; [discriminate|]. split; [intros _; exact Hr|]. left. exact Hr.
    + intros Hbt. destruct (Hb Hbt) as [Hr _]. cbn [redir_ok] in Hr. rewrite Ep in Hr.
      apply andb_prop in Hr as [Hr _]. apply andb_prop in Hr as [_ Hr]. apply N.eqb_eq in Hr. exact Hr.
  - intros Hbt. destruct (Hb Hbt) as [Hr Ha]. cbn [redir_ok] in Hr.
    apply andb_prop in Hr as [Hr _]. apply andb_prop in Hr as [Hr _]. apply N.leb_le in Hr.
    split; [exact Hr|]. intros Hdc. specialize (Ha Hdc). cbn [adepth_ok inf] in Ha.
    apply andb_prop in Ha as [Ha _]. apply Nat.leb_le in Ha. exact Ha.
Qed.

Lemma bnd_conds_child cx i cs x : bnd_conds cx (Node i cs) -> In x cs -> bnd_conds (down cx i) x.
Proof.
  intros Hb Hx Hbt. destruct (Hb Hbt) as [Hr Ha]. split.
  - cbn [redir_ok] in Hr. apply andb_prop in Hr as [_ Hr]. rewrite forallb_forall in Hr.
    cbn [down cpar]. apply Hr. exact Hx.
  - intros Hdc. specialize (Ha Hdc). cbn [adepth_ok inf] in Ha. apply andb_prop in Ha as [_ Ha].
    rewrite forallb_forall in Ha. specialize (Ha x Hx).
    unfold node_ad at 1. cbn [down cpar cpad]. exact Ha.
Qed.

Lemma inv_shape_gen : forall k cx t,
  check (omap cx) t = 0%nat ->
  (forall lvl n, In n (nodes_at lvl t) ->
     (lvl = k -> st_of n = Fresh) /\ ((lvl < k)%nat -> pending_st (st_of n) = false)) ->
  closed t = true -> (clive cx = false -> no_pending t = true) -> bnd_conds cx t ->
  shape c bnd (fresh_leaf c bnd) k cx t.
Proof.
  induction k as [|k IH]; intros cx [i cs] Hc Hlvl Hcl Hlive Hb;
    destruct (check_inv _ _ _ Hc) as [Hn Hcs];
    assert (Hroot := Hlvl 0%nat (Node i cs) (or_introl eq_refl));
    assert (Hpl : pending_st (nst i) = true -> clive cx = true)
      by (intros Hp; destruct (clive cx) eqn:El; [reflexivity|];
          specialize (Hlive eq_refl); rewrite no_pending_node, Hp in Hlive; discriminate Hlive).
  - destruct Hroot as [Hf _]. specialize (Hf eq_refl). unfold st_of in Hf. cbn [inf] in Hf.
    destruct (check_node_facts _ _ _ Hn) as [_ [Hk _]]. specialize (Hk Hf). subst cs.
    split; [reflexivity|]. split; [exact (par_ok_from cx i [] Hn Hb Hpl) | exact Hf].
  - destruct Hroot as [_ Hp]. specialize (Hp ltac:(lia)). unfold st_of in Hp. cbn [inf] in Hp.
    destruct (check_node_facts _ _ _ Hn) as [_ [_ [_ [Hr Hk]]]].
    split; [exact (par_ok_from cx i cs Hn Hb Hpl)|]. split.
    + unfold inner_ok, st_of. cbn [inf kids]. split; [exact Hp|]. split; [exact Hk | exact Hr].
    + cbn [kids inf]. apply Forall_forall. intros x Hx. apply IH.
      * rewrite Forall_forall in Hcs. exact (Hcs x Hx).
      * intros lvl n Hin. destruct (Hlvl (S lvl) n) as [H1 H2].
        { cbn [nodes_at]. apply in_flat_map. exists x. split; assumption. }
        split; [intros E; apply H1; congruence | intros Hl; apply H2; lia].
      * cbn [closed] in Hcl. apply andb_prop in Hcl as [_ Hcl]. rewrite forallb_forall in Hcl. exact (Hcl x Hx).
      * cbn [down clive]. intros Hd. apply andb_false_iff in Hd as [Hd|Hd].
        -- specialize (Hlive Hd). rewrite no_pending_node in Hlive. apply andb_prop in Hlive as [_ Hlive].
           rewrite forallb_forall in Hlive. exact (Hlive x Hx).
        -- cbn [closed] in Hcl. apply andb_prop in Hcl as [Hcl _]. rewrite Hd in Hcl. cbn in Hcl.
           rewrite forallb_forall in Hcl. exact (Hcl x Hx).
      * exact (bnd_conds_child cx i cs x Hb Hx).
Qed.

(* and back *)
Lemma shape_bnd_conds (P : item -> Prop) : forall k cx t,
  shape c bnd (leaf c bnd P) k cx t -> bnd_conds cx t.
Proof.
  induction k as [|k IH]; intros cx [i cs] H Hbt.
  - destruct H as [Hk [Hp _]]. cbn in Hk. subst cs. cbn [inf] in Hp. destruct Hp as [H1 [H2 _]].
    destruct (H2 Hbt) as [Hm Ha]. cbn [redir_ok adepth_ok forallb inf]. rewrite !andb_true_r. split.
    + apply andb_true_intro. split; [apply N.leb_le; exact Hm|].
      destruct (cpar cx) as [p|]; [|apply N.eqb_eq; exact (H1 Hbt)].
      destruct H1 as [_ [_ H1]]. destruct (H1 Hbt) as [Ha1 [Ha2 Ha3]].
      destruct (nst p); try (apply orb_true_iff; destruct Ha3 as [E|E]; [left|right]; apply N.eqb_eq; exact E);
        apply N.eqb_eq; [apply Ha1 | apply Ha2]; reflexivity.
    + intros Hdc. apply Nat.leb_le. exact (Ha Hdc).
  - destruct H as [Hp [_ Hc]]. cbn [inf kids] in *. destruct Hp as [H1 [H2 _]].
    destruct (H2 Hbt) as [Hm Ha]. rewrite Forall_forall in Hc. split.
    + cbn [redir_ok]. apply andb_true_intro. split; [apply andb_true_intro; split|].
      * apply N.leb_le. exact Hm.
      * destruct (cpar cx) as [p|]; [|apply N.eqb_eq; exact (H1 Hbt)].
        destruct H1 as [_ [_ H1]]. destruct (H1 Hbt) as [Ha1 [Ha2 Ha3]].
        destruct (nst p); try (apply orb_true_iff; destruct Ha3 as [E|E]; [left|right]; apply N.eqb_eq; exact E);
          apply N.eqb_eq; [apply Ha1 | apply Ha2]; reflexivity.
      * apply forallb_forall. intros x Hx. exact (proj1 (IH _ x (Hc x Hx) Hbt)).
    + intros Hdc. cbn [adepth_ok inf]. apply andb_true_intro. split; [apply Nat.leb_le; exact (Ha Hdc)|].
      apply forallb_forall. intros x Hx. destruct (IH _ x (Hc x Hx) Hbt) as [_ Hax].
      specialize (Hax Hdc). unfold node_ad at 1 in Hax. cbn [down cpar cpad] in Hax. exact Hax.
Qed.
End Bridge.

(* ---- projections of the nodes (urls, (id, url) pairs) through the stage operations ---- *)
Section Proj.
Context {A : Type}.
Variable fi : info -> A.
Hypothesis fi_st : forall s i, fi (set_st s i) = fi i.

Definition worked (n : item) : bool := negb (is_fresh_node n).
Definition allp (t : item) : list A := map (fun n => fi (inf n)) (flatten t).
Definition wkp (t : item) : list A := map (fun n => fi (inf n)) (filter worked (flatten t)).
Definition nsp (t : item) : list A := flat_map allp (kids t).
Definition wnsp (t : item) : list A := flat_map wkp (kids t).

Lemma filter_flat_map {B C} (p : C -> bool) (g : B -> list C) l :
  filter p (flat_map g l) = flat_map (fun x => filter p (g x)) l.
Proof. induction l as [|a r IH]; cbn; [reflexivity|]. rewrite filter_app, IH. reflexivity. Qed.

Lemma allp_node i cs : allp (Node i cs) = fi i :: flat_map allp cs.
Proof. unfold allp. rewrite flatten_node. cbn [map inf]. f_equal. rewrite map_flat_map. reflexivity. Qed.

Lemma wkp_node i cs :
  wkp (Node i cs) = (if status_eqb (nst i) Fresh then [] else [fi i]) ++ flat_map wkp cs.
Proof.
  unfold wkp. rewrite flatten_node. cbn [filter]. unfold worked at 1, is_fresh_node, st_of. cbn [inf].
  destruct (status_eqb (nst i) Fresh); cbn [negb map app inf];
    rewrite filter_flat_map, map_flat_map; reflexivity.
Qed.

Lemma wkp_incl t : incl (wkp t) (allp t).
Proof.
  intros x Hx. unfold wkp, allp in *. apply in_map_iff in Hx as [n [<- Hn]].
  apply filter_In in Hn as [Hn _]. apply (in_map (fun n => fi (inf n))). exact Hn.
Qed.

Lemma wnsp_incl t : incl (wnsp t) (nsp t).
Proof.
  intros x Hx. unfold wnsp, nsp in *. apply in_flat_map in Hx as [k [Hk Hx]].
  apply in_flat_map. exists k. split; [exact Hk | exact (wkp_incl k x Hx)].
Qed.

Lemma allp_map_at g : forall k t,
  (forall n, In n (nodes_at k t) -> allp (g n) = allp n) -> allp (map_at k g t) = allp t.
Proof.
  induction k as [|k IH]; intros [i cs] H; [apply H; left; reflexivity|].
  cbn [map_at]. rewrite !allp_node. f_equal. rewrite flat_map_map. apply flat_map_ext_in.
  intros x Hx. apply IH. intros n Hn. apply H. cbn [nodes_at]. apply in_flat_map. exists x. split; assumption.
Qed.

Lemma wkp_map_at g : forall k t,
  (forall n, In n (nodes_at k t) -> wkp (g n) = wkp n) -> wkp (map_at k g t) = wkp t.
Proof.
  induction k as [|k IH]; intros [i cs] H; [apply H; left; reflexivity|].
  cbn [map_at]. rewrite !wkp_node. f_equal. rewrite flat_map_map. apply flat_map_ext_in.
  intros x Hx. apply IH. intros n Hn. apply H. cbn [nodes_at]. apply in_flat_map. exists x. split; assumption.
Qed.

(* when every node above level k is worked and [g] turns a level-k node into worked nodes with the
   same projection: the worked projection of the result is the full projection of the input *)
Lemma wkp_map_at_all g : forall k t,
  (forall lvl n, (lvl < k)%nat -> In n (nodes_at lvl t) -> st_of n <> Fresh) ->
  (forall n, In n (nodes_at k t) -> wkp (g n) = allp n) -> wkp (map_at k g t) = allp t.
Proof.
  induction k as [|k IH]; intros [i cs] Hup H; [apply H; left; reflexivity|].
  cbn [map_at]. rewrite wkp_node, allp_node.
  assert (Hi : status_eqb (nst i) Fresh = false).
  { specialize (Hup 0%nat (Node i cs) ltac:(lia) (or_introl eq_refl)). unfold st_of in Hup. cbn in Hup.
    destruct (nst i); try reflexivity. congruence. }
  rewrite Hi. cbn [app]. f_equal. rewrite flat_map_map. apply flat_map_ext_in. intros x Hx. apply IH.
  - intros lvl n Hl Hn. apply (Hup (S lvl) n); [lia|]. cbn [nodes_at]. apply in_flat_map. exists x. split; assumption.
  - intros n Hn. apply H. cbn [nodes_at]. apply in_flat_map. exists x. split; assumption.
Qed.

Lemma mc_inf_fi t : fi (inf (mark_completed t)) = fi (inf t).
Proof.
  destruct t as [i cs]. cbn [mark_completed].
  destruct (forallb (fun c0 => negb (has_work c0)) (map mark_completed cs) && is_got (nst i)); cbn [inf]; [apply fi_st|reflexivity].
Qed.

Lemma allp_mc : forall t, allp (mark_completed t) = allp t.
Proof.
  induction t as [i cs IH] using item_ind2.
  assert (E : flat_map allp (map mark_completed cs) = flat_map allp cs).
  { rewrite flat_map_map. apply flat_map_ext_in. intros x Hx. rewrite Forall_forall in IH. apply IH. exact Hx. }
  cbn [mark_completed].
  destruct (forallb (fun c0 => negb (has_work c0)) (map mark_completed cs) && is_got (nst i));
    rewrite !allp_node, E; [rewrite fi_st|]; reflexivity.
Qed.

Lemma wkp_mc : forall t, wkp (mark_completed t) = wkp t.
Proof.
  induction t as [i cs IH] using item_ind2.
  assert (E : flat_map wkp (map mark_completed cs) = flat_map wkp cs).
  { rewrite flat_map_map. apply flat_map_ext_in. intros x Hx. rewrite Forall_forall in IH. apply IH. exact Hx. }
  cbn [mark_completed].
  destruct (forallb (fun c0 => negb (has_work c0)) (map mark_completed cs) && is_got (nst i)) eqn:Ec;
    rewrite !wkp_node, E; [|reflexivity].
  apply andb_prop in Ec as [_ Eg]. cbn [set_st nst]. rewrite fi_st.
  destruct (nst i); try discriminate Eg; reflexivity.
Qed.

Lemma kids_mc t : kids (mark_completed t) = map mark_completed (kids t).
Proof.
  destruct t as [i cs]. cbn [mark_completed].
  destruct (forallb (fun c0 => negb (has_work c0)) (map mark_completed cs) && is_got (nst i)); reflexivity.
Qed.

Lemma nsp_mc t : nsp (mark_completed t) = nsp t.
Proof.
  unfold nsp. rewrite kids_mc, flat_map_map. apply flat_map_ext_in. intros x _. apply allp_mc.
Qed.
Lemma wnsp_mc t : wnsp (mark_completed t) = wnsp t.
Proof.
  unfold wnsp. rewrite kids_mc, flat_map_map. apply flat_map_ext_in. intros x _. apply wkp_mc.
Qed.

(* non-seed versions for a map at level k >= 1 *)
Lemma nsp_map_at g k t :
  (forall n, In n (nodes_at (S k) t) -> allp (g n) = allp n) -> nsp (map_at (S k) g t) = nsp t.
Proof.
  destruct t as [i cs]. intros H. unfold nsp. cbn [map_at kids]. rewrite flat_map_map.
  apply flat_map_ext_in. intros x Hx. apply allp_map_at. intros n Hn. apply H.
  cbn [nodes_at]. apply in_flat_map. exists x. split; assumption.
Qed.
Lemma wnsp_map_at g k t :
  (forall n, In n (nodes_at (S k) t) -> wkp (g n) = wkp n) -> wnsp (map_at (S k) g t) = wnsp t.
Proof.
  destruct t as [i cs]. intros H. unfold wnsp. cbn [map_at kids]. rewrite flat_map_map.
  apply flat_map_ext_in. intros x Hx. apply wkp_map_at. intros n Hn. apply H.
  cbn [nodes_at]. apply in_flat_map. exists x. split; assumption.
Qed.
Lemma wnsp_map_at_all g k t :
  (forall lvl n, (0 < lvl < S k)%nat -> In n (nodes_at lvl t) -> st_of n <> Fresh) ->
  (forall n, In n (nodes_at (S k) t) -> wkp (g n) = allp n) -> wnsp (map_at (S k) g t) = nsp t.
Proof.
  destruct t as [i cs]. intros Hup H. unfold wnsp, nsp. cbn [map_at kids]. rewrite flat_map_map.
  apply flat_map_ext_in. intros x Hx. apply wkp_map_at_all.
  - intros lvl n Hl Hn. apply (Hup (S lvl) n); [lia|]. cbn [nodes_at]. apply in_flat_map. exists x. split; assumption.
  - intros n Hn. apply H. cbn [nodes_at]. apply in_flat_map. exists x. split; assumption.
Qed.
End Proj.

Lemma nonseed_urls_nsp t : nonseed_urls t = nsp nurl t.
Proof.
  destruct t as [i cs]. unfold nonseed_urls, nsp. cbn [kids]. rewrite map_flat_map. reflexivity.
Qed.
Lemma worked_urls_wnsp t : worked_urls t = wnsp nurl t.
Proof.
  destruct t as [i cs]. unfold worked_urls, wnsp, nonseed_nodes. cbn [kids].
  rewrite filter_flat_map, map_flat_map. reflexivity.
Qed.

(* ---- small facts used by the stage lemmas ---- *)
Lemma set_status_root s t : NoDup (ids t) -> set_status (id_of t) s t = setst s t.
Proof. destruct t as [i cs]. intros Hd. exact (update_root (setst s) i cs Hd). Qed.

Lemma incl_ids_map_at g : forall k t,
  (forall n, In n (nodes_at k t) -> incl (ids (g n)) (ids n)) -> incl (ids (map_at k g t)) (ids t).
Proof.
  induction k as [|k IH]; intros [i cs] H; [apply H; left; reflexivity|].
  cbn [map_at]. rewrite !ids_node. intros x [Hx|Hx]; [left; exact Hx|right].
  rewrite flat_map_map in Hx. apply in_flat_map in Hx as [y [Hy Hx]]. apply in_flat_map. exists y.
  split; [exact Hy|]. apply (IH y); [|exact Hx]. intros n Hn. apply H. cbn [nodes_at].
  apply in_flat_map. exists y. split; assumption.
Qed.

Lemma idsOK_incl s t t' : idsOK s t -> NoDup (ids t') -> incl (ids t') (ids t) -> idsOK s t'.
Proof. intros [_ Hb] Hd Hi. split; [exact Hd|]. intros i Hin. apply Hb. apply Hi. exact Hin. Qed.

Lemma idsOK_same s t t' : idsOK s t -> ids t' = ids t -> idsOK s t'.
Proof. intros [Hd Hb] E. unfold idsOK. rewrite E. split; assumption. Qed.

(* completing the seed of a tree in which nothing is pending *)
Lemma root_completed_ok i cs :
  check None (Node i cs) = 0%nat -> no_pending (Node i cs) = true ->
  check None (Node (set_st Completed i) cs) = 0%nat
  /\ no_pending (Node (set_st Completed i) cs) = true
  /\ has_work (Node (set_st Completed i) cs) = false.
Proof.
  intros Hc Hn. destruct (check_inv _ _ _ Hc) as [Hr Hcs].
  rewrite no_pending_node in Hn. apply andb_prop in Hn as [_ Hn]. split; [|split; [|reflexivity]].
  - cbn [check]. assert (E : check_node None (Node (set_st Completed i) cs) = 0%nat).
    { unfold check_node. cbn [set_st nst nvia]. destruct cs as [|x [|y r]]; reflexivity. }
    rewrite E. apply first_nonzero_zero. apply Forall_forall. intros x Hx.
    apply in_map_iff in Hx as [y [<- Hy]]. rewrite Forall_forall in Hcs. specialize (Hcs y Hy).
    rewrite forallb_forall in Hn. specialize (Hn y Hy).
    destruct y as [j ys]. rewrite no_pending_node in Hn. apply andb_prop in Hn as [Hj _].
    cbn [set_st nst]. destruct (check_inv _ _ _ Hcs) as [Hrj Hcj].
    cbn [check]. assert (E2 : check_node (Some Completed) (Node j ys) = 0%nat).
    { unfold check_node in *. destruct (nvia j); [exact Hrj|].
      destruct (nst j); cbn in Hj |- *; try discriminate Hj; exact Hrj. }
    rewrite E2. apply first_nonzero_zero. apply Forall_forall. intros z Hz.
    apply in_map_iff in Hz as [w [<- Hw]]. rewrite Forall_forall in Hcj. exact (Hcj w Hw).
  - rewrite no_pending_node. cbn [set_st nst pending_st negb andb]. exact Hn.
Qed.

Lemma has_work_terminal_skip_arch o t : has_work t = false -> check_consistency t = 0%nat -> arch_worker o t = Ok t.
Proof.
  intros Hw Hc. unfold arch_worker. rewrite Hc. cbn [Nat.eqb negb]. unfold has_work in Hw.
  destruct (st_of t); try discriminate Hw; reflexivity.
Qed.
Lemma has_work_terminal_skip_post c o t next :
  has_work t = false -> check_consistency t = 0%nat -> post_worker c o t next = Ok (t, next).
Proof.
  intros Hw Hc. unfold post_worker. rewrite Hc. cbn [Nat.eqb negb]. unfold has_work in Hw.
  destruct (st_of t); try discriminate Hw; reflexivity.
Qed.
Lemma has_work_terminal_fin t :
  has_work t = false -> check_consistency t = 0%nat -> fin_worker t = Ok (t, DFinish).
Proof.
  intros Hw Hc. unfold fin_worker, complete_and_check. rewrite Hc, Hw. reflexivity.
Qed.

Lemma id_of_mc t : id_of (mark_completed t) = id_of t.
Proof.
  destruct t as [i cs]. cbn [mark_completed].
  destruct (forallb (fun c0 => negb (has_work c0)) (map mark_completed cs) && is_got (nst i)); reflexivity.
Qed.

Lemma level_ids_mc lvl t : map id_of (nodes_at lvl (mark_completed t)) = map id_of (nodes_at lvl t).
Proof. rewrite nodes_at_mark_completed, map_map. apply map_ext. intros x. apply id_of_mc. Qed.

Lemma level_ids_map_at g k t :
  (forall n, id_of (g n) = id_of n) -> map id_of (nodes_at k (map_at k g t)) = map id_of (nodes_at k t).
Proof. intros H. rewrite nodes_at_map_at, map_map. apply map_ext. intros x. apply H. Qed.

Lemma level_ids_kids g d t :
  (forall p, In p (nodes_at d t) -> incl (map id_of (kids (g p))) (map id_of (kids p))) ->
  incl (map id_of (nodes_at (S d) (map_at d g t))) (map id_of (nodes_at (S d) t)).
Proof.
  intros H. rewrite !nodes_at_S, nodes_at_map_at, flat_map_map, !map_flat_map.
  intros x Hx. apply in_flat_map in Hx as [p [Hp Hx]]. apply in_flat_map. exists p. split; [exact Hp|].
  exact (H p Hp x Hx).
Qed.

Lemma wkp_root_worked {A} (fi : info -> A) t : st_of t <> Fresh -> wkp fi t = fi (inf t) :: wnsp fi t.
Proof.
  destruct t as [i cs]. unfold st_of. cbn [inf]. intros H. rewrite wkp_node.
  destruct (nst i); try reflexivity. congruence.
Qed.

Lemma allp_root {A} (fi : info -> A) t : allp fi t = fi (inf t) :: nsp fi t.
Proof. destruct t as [i cs]. apply allp_node. Qed.

Lemma inf_map_at g k t : (forall n, inf (g n) = inf n) -> inf (map_at k g t) = inf t.
Proof. intros H. destruct k, t; [apply H | reflexivity]. Qed.

Lemma wnsp_from_wkp {A} (fi : info -> A) t t' :
  inf t' = inf t -> wkp fi t' = wkp fi t -> wnsp fi t' = wnsp fi t.
Proof.
  destruct t as [i cs], t' as [i' cs']. cbn [inf]. intros -> H. rewrite !wkp_node in H.
  apply app_inv_head in H. exact H.
Qed.

Section WithTreeLemmas.
Hypothesis H_dedupe_unique : dedupe_unique_stmt.
Hypothesis H_dedupe_prune : dedupe_prune_stmt.
Hypothesis H_dedupe_ids : dedupe_ids_stmt.
Hypothesis H_fresh_leaves : WF_fresh_leaves_stmt.
Hypothesis H_complete_iff : complete_iff_stmt.
Hypothesis H_remove_child_ids : remove_child_ids_stmt.
Hypothesis H_add_child_ids : add_child_ids_stmt.

Section OnePass.
Variable c : cfg.
Variable bnd : bool.
Variable o : oracle.

Notation shp := (shape c bnd).
Notation fl := (fresh_leaf c bnd).
Notation lf := (leaf c bnd).

Definition SInv (D : nat) (t : item) (next : N) : Prop :=
  idsOK next t /\ shp fl D ctx0 t /\ nodes_at D t <> [] /\ NoDup (worked_urls t) /\ has_work t = true.

Definition pre_leaf : ctx -> item -> Prop :=
  lf (fun n => st_of n = Seen \/ st_of n = Failed \/ st_of n = PreProcessed).

Definition fi_ok {A} (fi : info -> A) : Prop := forall s i, fi (set_st s i) = fi i.

Definition PreMain (D : nat) (t t1 : item) : Prop :=
  shp pre_leaf D ctx0 t1 /\ nodes_at D t1 <> [] /\ has_work t1 = true
  /\ NoDup (nonseed_urls t1)
  /\ (forall A (fi : info -> A), fi_ok fi -> incl (wnsp fi t) (nsp fi t1))
  /\ incl (map id_of (nodes_at D t1)) (map id_of (nodes_at D t)).

Definition Terminal (t1 : item) : Prop :=
  has_work t1 = false /\ check_consistency t1 = 0%nat /\ no_pending t1 = true
  /\ (bnd = true -> redir_ok c None t1 = true).

Lemma redir_ok_parent_weaken i i' x :
  nredir i' = nredir i -> nst i' = Completed ->
  redir_ok c (Some i) x = true -> redir_ok c (Some i') x = true.
Proof.
  intros Hr Hs. destruct x as [j ys]. cbn [redir_ok]. rewrite Hs, Hr. intros H.
  apply andb_prop in H as [H H3]. apply andb_prop in H as [H1 H2]. rewrite H1, H3, andb_true_r. cbn [andb].
  destruct (nst i); try exact H2; rewrite H2; [apply orb_true_r | reflexivity].
Qed.

Lemma redir_root_completed i cs :
  redir_ok c None (Node i cs) = true -> redir_ok c None (Node (set_st Completed i) cs) = true.
Proof.
  cbn [redir_ok set_st nredir]. intros H. apply andb_prop in H as [H H3]. rewrite H. cbn [andb].
  apply forallb_forall. intros x Hx. rewrite forallb_forall in H3.
  apply (redir_ok_parent_weaken i); [reflexivity | reflexivity | exact (H3 x Hx)].
Qed.

Definition PreOut (D : nat) (t : item) (next : N) (t1 : item) : Prop :=
  idsOK next t1 /\ (Terminal t1 \/ PreMain D t t1).

Lemma shape_root (P : item -> Prop) D t :
  shp (lf P) D ctx0 t -> has_work t = true ->
  match D with O => P t /\ kids t = [] | S _ => is_got (st_of t) = true end.
Proof.
  destruct D as [|d]; intros Hs Hw.
  - destruct Hs as [Hk [_ HP]]. split; assumption.
  - destruct Hs as [_ [[Hp _] _]]. unfold has_work in Hw. destruct (st_of t); try discriminate; reflexivity.
Qed.

(* the parents of the deepest level *)
Lemma parents_facts d t p :
  shp fl (S d) ctx0 t -> In p (nodes_at d t) ->
  exists cx, shp fl 1 cx p.
Proof.
  intros Hs Hp. apply shape_S_inner in Hs. exact (shape_nodes_at c bnd _ d ctx0 t p Hs Hp).
Qed.

Lemma seturl_fresh_leaf cx u x : fl cx x -> fl cx (seturl u x).
Proof. destruct x as [i cs]. intros [Hk [Hp Hf]]. split; [exact Hk|]. split; [exact Hp | exact Hf]. Qed.

Lemma pre_par_shape cx p : shp fl 1 cx p -> shp fl 1 cx (pre_par o p).
Proof.
  intros H. unfold pre_par. apply kids_sub_shape; [exact H| |].
  - induction (kids p) as [|a r IH]; [cbn; lia|]. cbn [flat_map]. rewrite app_length. cbn [length].
    assert (length (pre_child o (st_of p) a) <= 1)%nat; [|lia].
    unfold pre_child. destruct (o_pre o (id_of a)) as [|u ex ep]; [cbn; lia|].
    destruct ex; [cbn; lia|]. destruct (status_eqb (st_of p) GotChildren && ep); cbn; lia.
  - intros x Hx. apply in_flat_map in Hx as [a [Ha Hx]]. destruct H as [_ [_ Hc]].
    rewrite Forall_forall in Hc. specialize (Hc a Ha). unfold pre_child in Hx.
    destruct (o_pre o (id_of a)) as [|u ex ep]; [destruct Hx|]. destruct ex; [destruct Hx|].
    destruct (status_eqb (st_of p) GotChildren && ep); [destruct Hx|]. destruct Hx as [<-|[]].
    apply seturl_fresh_leaf. exact Hc.
Qed.

Lemma palive_shape dead cx p : shp fl 1 cx p -> shp fl 1 cx (palive dead p).
Proof.
  intros H. unfold palive. apply kids_sub_shape; [exact H| |].
  - induction (kids p) as [|a r IH]; [cbn; lia|]. cbn [filter]. destruct (negb (dead (id_of a))); cbn [length]; lia.
  - intros x Hx. apply filter_In in Hx as [Hx _]. destruct H as [_ [_ Hc]]. rewrite Forall_forall in Hc. exact (Hc x Hx).
Qed.

(* worked projection of a parent whose children are all fresh leaves *)
Lemma wkp_fresh_kids {A} (fi : info -> A) cx p :
  shp fl 1 cx p -> wkp fi p = if status_eqb (st_of p) Fresh then [] else [fi (inf p)].
Proof.
  destruct p as [i cs]. intros [_ [_ Hc]]. cbn [kids inf] in Hc. rewrite wkp_node. unfold st_of. cbn [inf].
  assert (E : flat_map (wkp fi) cs = []).
  { rewrite Forall_forall in Hc. induction cs as [|a r IH]; [reflexivity|]. cbn [flat_map].
    rewrite IH by (intros x Hx; apply Hc; right; exact Hx).
    destruct (Hc a (or_introl eq_refl)) as [Hk [_ Hf]]. destruct a as [j ys]. cbn in Hk. subst ys.
    unfold st_of in Hf. cbn in Hf. rewrite wkp_node, Hf. reflexivity. }
  rewrite E, app_nil_r. reflexivity.
Qed.

Definition seen_node (n : item) : item := if o_seen o (id_of n) then setst Seen n else n.
Definition req_node (n : item) : item :=
  if is_fresh n then setst (if o_reqfail o (id_of n) then Failed else PreProcessed) n else n.

Lemma shape_check0 (P : item -> Prop) k t : shp (lf P) k ctx0 t -> check_consistency t = 0%nat.
Proof. intros H. exact (shape_check c bnd P k ctx0 t H). Qed.

Lemma allp_setst {A} (fi : info -> A) (Hfi : fi_ok fi) s n : allp fi (setst s n) = allp fi n.
Proof. destruct n as [i cs]. cbn [setst]. rewrite !allp_node, Hfi. reflexivity. Qed.

(* the preprocessor on a tree of depth >= 1 *)
Lemma pre_S d t next : SInv (S d) t next -> exists t1, preprocess o t = Ok t1 /\ PreOut (S d) t next t1.
Proof.
  intros [HI [Hs [Hne [Hwu Hhw]]]]. destruct HI as [Hd Hb].
  assert (Hmd : max_depth t = S d) by (exact (shape_max_depth c bnd _ (S d) ctx0 t Hs Hne)).
  (* first loop *)
  assert (Hpar : forall p, In p (nodes_at d t) -> is_got (st_of p) = true \/ kids p = []).
  { intros p Hp. destruct (parents_facts d t p Hs Hp) as [cx [_ [_ Hc]]].
    destruct (kids p) as [|a r] eqn:Ek; [right; reflexivity|left].
    inversion Hc as [|x l Ha _]; subst. destruct Ha as [_ [Hpa Hf]].
    destruct Hpa as [Hpa _]. cbn [down cpar] in Hpa. destruct Hpa as [_ [Hg _]]. apply Hg. exact Hf. }
  assert (Hfr : forall n, In n (nodes_at (S d) t) -> st_of n = Fresh).
  { intros n Hn. exact (proj1 (proj1 (proj2 (shape_level c bnd _ (S d) ctx0 t (S d) n Hs Hn)) eq_refl)). }
  destruct (pre_loop_struct H_remove_child_ids o d t Hd Hpar Hfr) as [Eloop Hd1].
  set (t1a := map_at d (pre_par o) t) in *.
  assert (Hs1a : shp fl (S d) ctx0 t1a).
  { apply shape_S_inner. apply shape_map_at with (L1 := shp fl 1); [|apply shape_S_inner; exact Hs].
    intros cx n _ H. apply pre_par_shape. exact H. }
  assert (Hinc1 : incl (ids t1a) (ids t)).
  { apply incl_ids_map_at. intros p _. destruct p as [pi pcs]. unfold pre_par. cbn [inf kids].
    rewrite !ids_node. intros x [Hx|Hx]; [left; exact Hx|right].
    apply in_flat_map in Hx as [y [Hy Hx]]. apply in_flat_map in Hy as [a [Ha Hy]].
    apply in_flat_map. exists a. split; [exact Ha|]. unfold pre_child in Hy.
    destruct (o_pre o (id_of a)) as [|u ex ep]; [destruct Hy|]. destruct ex; [destruct Hy|].
    destruct (status_eqb (st_of (Node pi pcs)) GotChildren && ep); [destruct Hy|]. destruct Hy as [<-|[]].
    rewrite ids_seturl in Hx. exact Hx. }
  assert (Hwk1 : forall A (fi : info -> A), wkp fi t1a = wkp fi t).
  { intros A fi. apply wkp_map_at. intros p Hp. destruct (parents_facts d t p Hs Hp) as [cx Hcx].
    rewrite (wkp_fresh_kids fi cx p Hcx), (wkp_fresh_kids fi cx _ (pre_par_shape cx p Hcx)). reflexivity. }
  assert (Hlv1 : incl (map id_of (nodes_at (S d) t1a)) (map id_of (nodes_at (S d) t))).
  { apply level_ids_kids. intros p _. unfold pre_par. cbn [kids]. intros x Hx.
    apply in_map_iff in Hx as [y [<- Hy]]. apply in_flat_map in Hy as [a [Ha Hy]]. unfold pre_child in Hy.
    destruct (o_pre o (id_of a)) as [|u ex ep]; [destruct Hy|]. destruct ex; [destruct Hy|].
    destruct (status_eqb (st_of p) GotChildren && ep); [destruct Hy|]. destruct Hy as [<-|[]].
    rewrite id_of_seturl. apply in_map. exact Ha. }
  (* dedupe *)
  assert (HInv0 : Inv0 t1a).
  { split; [exact Hd1|]. split.
    - apply H_fresh_leaves. split; [exact Hd1 | exact (shape_check0 _ _ _ Hs1a)].
    - rewrite worked_urls_wnsp. rewrite worked_urls_wnsp in Hwu.
      assert (E : wnsp nurl t1a = wnsp nurl t); [|rewrite E; exact Hwu].
      apply wnsp_from_wkp; [|apply Hwk1]. unfold t1a. apply inf_map_at. intros n. reflexivity. }
  destruct (H_dedupe_prune t1a HInv0) as [dead [Hdead Ededupe]].
  destruct (H_dedupe_ids t1a HInv0) as [Hd2 [Hinc2 _]].
  pose proof (H_dedupe_unique t1a HInv0) as Hun2.
  assert (Eprune : prune dead t1a = map_at d (palive dead) t1a).
  { apply prune_level.
    - intros lvl n Hn Hl Hne'. destruct (dead (id_of n)) eqn:Edd; [|reflexivity]. exfalso.
      assert (Hns : In n (nonseed_nodes t1a)).
      { destruct t1a as [i cs]. destruct lvl as [|lvl]; [lia|]. cbn [nodes_at] in Hn. unfold nonseed_nodes.
        apply in_flat_map in Hn as [x [Hx Hn]]. apply in_flat_map. exists x. split; [exact Hx|].
        exact (nodes_at_flatten _ _ _ Hn). }
      specialize (Hdead n Hns Edd). unfold is_fresh_node in Hdead.
      destruct (shape_level c bnd _ (S d) ctx0 t1a lvl n Hs1a Hn) as [Hlt [_ Hle]].
      assert (lvl < S d)%nat by lia. specialize (Hlt H). destruct (st_of n); discriminate.
    - intros n Hn. exact (proj2 (proj1 (proj2 (shape_level c bnd _ (S d) ctx0 t1a (S d) n Hs1a Hn)) eq_refl)). }
  set (t2 := dedupe t1a) in *.
  assert (Et2 : t2 = mark_completed (map_at d (palive dead) t1a)) by (rewrite <- Eprune; exact Ededupe).
  assert (Hs2 : shp fl (S d) ctx0 t2).
  { rewrite Et2. apply mc_shape. apply shape_S_inner. apply shape_map_at with (L1 := shp fl 1); [|apply shape_S_inner; exact Hs1a].
    intros cx n _ H. apply palive_shape. exact H. }
  assert (HI2 : idsOK next t2).
  { split; [exact Hd2|]. intros i Hi. apply Hb. apply Hinc1. apply Hinc2. exact Hi. }
  assert (Hwk2 : forall A (fi : info -> A), fi_ok fi -> wkp fi t2 = wkp fi t).
  { intros A fi Hfi. rewrite Et2, (wkp_mc fi Hfi), <- Hwk1. apply wkp_map_at. intros p Hp.
    assert (exists cx, shp fl 1 cx p) as [cx Hcx].
    { apply shape_S_inner in Hs1a. exact (shape_nodes_at c bnd _ d ctx0 t1a p Hs1a Hp). }
    rewrite (wkp_fresh_kids fi cx p Hcx), (wkp_fresh_kids fi cx _ (palive_shape dead cx p Hcx)). reflexivity. }
  assert (Hlv2 : incl (map id_of (nodes_at (S d) t2)) (map id_of (nodes_at (S d) t))).
  { rewrite Et2, level_ids_mc. intros x Hx. apply Hlv1. revert x Hx. apply level_ids_kids.
    intros p _. unfold palive. cbn [kids]. intros x Hx. apply in_map_iff in Hx as [y [<- Hy]].
    apply filter_In in Hy as [Hy _]. apply in_map. exact Hy. }
  assert (Hc2 : check_consistency t2 = 0%nat) by exact (shape_check0 _ _ _ Hs2).
  assert (Hhw2 : nodes_at (S d) t2 <> [] -> has_work t2 = true).
  { intros Hne2. destruct (nodes_at (S d) t2) as [|n r] eqn:En; [congruence|].
    assert (Hn : In n (nodes_at (S d) t2)) by (rewrite En; left; reflexivity).
    assert (Hp : pending_st (st_of n) = true).
    { rewrite (proj1 (proj1 (proj2 (shape_level c bnd _ (S d) ctx0 t2 (S d) n Hs2 Hn)) eq_refl)). reflexivity. }
    apply (proj2 (shape_live_root c bnd _ (S d) ctx0 t2 n Hs2 Hn Hp)). lia. }
  (* completing the seed when nothing is left *)
  assert (Hterm : forall T, shp (lf (fun n => st_of n = Fresh \/ st_of n = Seen)) (S d) ctx0 T -> idsOK next T ->
            (forall n, In n (nodes_at (S d) T) -> st_of n <> Fresh) ->
            PreOut (S d) t next (set_status (id_of T) Completed T)).
  { intros T HsT HIT Hnf. rewrite (set_status_root Completed T (proj1 HIT)).
    assert (Hnp : no_pending T = true).
    { apply (shape_no_pending c bnd _ (S d) ctx0 T HsT). intros n Hn.
      destruct (proj1 (proj1 (proj2 (shape_level c bnd _ (S d) ctx0 T (S d) n HsT Hn)) eq_refl)) as [E|E];
        [exfalso; exact (Hnf n Hn E) | rewrite E; reflexivity]. }
    pose proof (shape_check c bnd _ (S d) ctx0 T HsT) as HcT.
    pose proof (shape_bnd_conds c bnd _ (S d) ctx0 T HsT) as HbT.
    destruct T as [i cs]. destruct (root_completed_ok i cs HcT Hnp) as [H1 [H2 H3]].
    split; [apply (idsOK_same next (Node i cs)); [exact HIT | apply ids_setst]|].
    left. split; [exact H3|]. split; [exact H1|]. split; [exact H2|].
    intros Hbt. cbn [setst]. apply redir_root_completed. exact (proj1 (HbT Hbt)). }
  exists (match nodes_at (S d) t2 with
          | [] => set_status (id_of t2) Completed t2
          | _ => let t3 := mark_seen o (nodes_at (S d) t2) t2 in
                 match filter is_fresh (nodes_at (S d) t3) with
                 | [] => set_status (id_of t3) Completed t3
                 | todo => build_requests o todo t3
                 end
          end).
  split.
  { unfold preprocess. rewrite Hmd, Eloop. fold t1a. fold t2. destruct (nodes_at (S d) t2); [reflexivity|].
    cbv zeta. destruct (filter is_fresh (nodes_at (S d) (mark_seen o (i :: l) t2))); reflexivity. }
  destruct (nodes_at (S d) t2) as [|n2 r2] eqn:En2.
  { apply Hterm; [|exact HI2|intros n Hn; rewrite En2 in Hn; destruct Hn].
    apply (shape_mono c bnd fl); [|exact Hs2]. intros cx n [Hk [Hp Hf]]. split; [exact Hk|]. split; [exact Hp|left; exact Hf]. }
  rewrite <- En2. cbv zeta.
  (* seencheck *)
  assert (Et3 : mark_seen o (nodes_at (S d) t2) t2 = map_at (S d) seen_node t2).
  { unfold mark_seen. exact (fold_set_status_level (fun n => o_seen o (id_of n)) (fun _ => Seen) (S d) t2 Hd2). }
  rewrite Et3. set (t3 := map_at (S d) seen_node t2) in *.
  assert (Hs3 : shp (lf (fun n => st_of n = Fresh \/ st_of n = Seen)) (S d) ctx0 t3).
  { apply shape_map_at with (L1 := fl); [|exact Hs2]. intros cx n _ [Hk [Hp Hf]]. unfold seen_node.
    destruct (o_seen o (id_of n)).
    - destruct n as [i cs]. cbn in Hk. subst cs. split; [reflexivity|]. split; [|right; reflexivity].
      cbn [setst inf]. apply par_ok_set_st; [exact Hp | discriminate | reflexivity].
    - split; [exact Hk|]. split; [exact Hp | left; exact Hf]. }
  assert (Hids3 : ids t3 = ids t2).
  { apply ids_map_at. intros n _. unfold seen_node. destruct (o_seen o (id_of n)); [apply ids_setst|reflexivity]. }
  assert (HI3 : idsOK next t3) by (apply (idsOK_same next t2); assumption).
  destruct (filter is_fresh (nodes_at (S d) t3)) as [|n3 r3] eqn:Ef3.
  { apply Hterm; [exact Hs3 | exact HI3|]. intros n Hn Hf.
    assert (In n (filter is_fresh (nodes_at (S d) t3))) as Hin.
    { apply filter_In. split; [exact Hn|]. unfold is_fresh. rewrite Hf. reflexivity. }
    rewrite Ef3 in Hin. destruct Hin. }
  rewrite <- Ef3.
  (* requests *)
  assert (Et4 : build_requests o (filter is_fresh (nodes_at (S d) t3)) t3 = map_at (S d) req_node t3).
  { unfold build_requests. rewrite fold_left_filter.
    exact (fold_set_status_level is_fresh (fun n => if o_reqfail o (id_of n) then Failed else PreProcessed) (S d) t3 (proj1 HI3)). }
  rewrite Et4. set (t4 := map_at (S d) req_node t3) in *.
  assert (Hids4 : ids t4 = ids t3).
  { apply ids_map_at. intros n _. unfold req_node. destruct (is_fresh n); [apply ids_setst|reflexivity]. }
  split; [apply (idsOK_same next t3); assumption|]. right.
  assert (Hroot : forall g T, inf (map_at (S d) g T) = inf T) by (intros g [i cs]; reflexivity).
  split; [|split; [|split; [|split; [|split]]]].
  - apply shape_map_at with (L1 := lf (fun n => st_of n = Fresh \/ st_of n = Seen)); [|exact Hs3].
    intros cx n _ [Hk [Hp Hf]]. unfold req_node, is_fresh. destruct Hf as [Hf|Hf]; rewrite Hf; cbn [status_eqb].
    + destruct n as [i cs]. cbn in Hk. subst cs. unfold st_of in Hf. cbn [inf] in Hf. split; [reflexivity|]. split.
      * cbn [setst inf]. apply par_ok_set_pending; [exact Hp | rewrite Hf; reflexivity|].
        destruct (o_reqfail o (id_of (Node i []))); discriminate.
      * unfold st_of. cbn [setst inf set_st nst]. destruct (o_reqfail o (id_of (Node i []))); auto.
    + split; [exact Hk|]. split; [exact Hp | left; exact Hf].
  - unfold t4, t3. rewrite !nodes_at_map_at, En2. discriminate.
  - unfold has_work, st_of. unfold t4, t3. rewrite !Hroot. apply Hhw2. discriminate.
  - rewrite nonseed_urls_nsp. rewrite nonseed_urls_nsp in Hun2.
    assert (E : nsp nurl t4 = nsp nurl t2); [|rewrite E; exact Hun2].
    unfold t4, t3. rewrite !nsp_map_at; [reflexivity| |].
    + intros n _. unfold seen_node. destruct (o_seen o (id_of n)); [apply allp_setst; intros s i; reflexivity|reflexivity].
    + intros n _. unfold req_node. destruct (is_fresh n); [apply allp_setst; intros s i; reflexivity|reflexivity].
  - intros A fi Hfi.
    assert (E : nsp fi t4 = nsp fi t2).
    { unfold t4, t3. rewrite !nsp_map_at; [reflexivity| |].
      + intros n _. unfold seen_node. destruct (o_seen o (id_of n)); [apply allp_setst; exact Hfi|reflexivity].
      + intros n _. unfold req_node. destruct (is_fresh n); [apply allp_setst; exact Hfi|reflexivity]. }
    assert (E2 : wnsp fi t2 = wnsp fi t).
    { pose proof (Hwk2 A fi Hfi) as Ew. rewrite !wkp_root_worked in Ew.
      - injection Ew as _ Ew. exact Ew.
      - pose proof (shape_root _ (S d) t Hs Hhw) as Hg. intros Hf. rewrite Hf in Hg. discriminate.
      - assert (Hw2 : has_work t2 = true) by (apply Hhw2; discriminate).
        pose proof (shape_root _ (S d) t2 Hs2 Hw2) as Hg. intros Hf. rewrite Hf in Hg. discriminate. }
    rewrite E, <- E2. apply wnsp_incl.
  - unfold t4, t3. rewrite !level_ids_map_at; [rewrite En2; exact Hlv2| |].
    + intros n. unfold seen_node. destruct (o_seen o (id_of n)); [apply id_of_setst|reflexivity].
    + intros n. unfold req_node. destruct (is_fresh n); [apply id_of_setst|reflexivity].
Qed.

Lemma preprocess_leaf i : nst i = Fresh ->
  preprocess o (Node i []) =
  Ok (match o_pre o (nid i) with
      | PNormFail => Node (set_st Failed i) []
      | POk u ex _ =>
        if ex then Node (set_st Completed (set_url u i)) []
        else if o_seen o (nid i) then Node (set_st Completed (set_st Seen (set_url u i))) []
        else Node (set_st (if o_reqfail o (nid i) then Failed else PreProcessed) (set_url u i)) []
      end).
Proof.
  destruct i as [id url st via hops red]. cbn [nst nid]. intros ->.
  unfold preprocess. cbn [max_depth level_par pre_loop st_of inf nst status_eqb negb id_of nid].
  destruct (o_pre o id) as [|u ex ep].
  - unfold set_status. cbn. rewrite N.eqb_refl. reflexivity.
  - unfold set_url_of, set_status. cbn. rewrite N.eqb_refl. destruct ex.
    + cbn. rewrite N.eqb_refl. reflexivity.
    + unfold dedupe, dedupe_with, mark_seen, build_requests. cbn.
      destruct (o_seen o id); cbn; rewrite ?N.eqb_refl; cbn; rewrite ?N.eqb_refl; try reflexivity.
Qed.

Lemma terminal_leaf i : has_work_st (nst i) = false ->
  (bnd = true -> nredir i <= max_redirect c /\ nredir i = 0) -> Terminal (Node i []).
Proof.
  intros H Hr. split; [exact H|]. split; [|split].
  - unfold check_consistency. cbn. destruct (nst i); try discriminate H; reflexivity.
  - rewrite no_pending_node. destruct (nst i); try discriminate H; reflexivity.
  - intros Hb. destruct (Hr Hb) as [H1 H2]. cbn [redir_ok forallb]. rewrite andb_true_r.
    apply andb_true_intro. split; [apply N.leb_le; exact H1 | apply N.eqb_eq; exact H2].
Qed.

(* the preprocessor on a seed that has not been fetched yet *)
Lemma pre_0 t next : SInv 0 t next -> exists t1, preprocess o t = Ok t1 /\ PreOut 0 t next t1.
Proof.
  intros [HI [Hs _]]. destruct t as [i cs]. destruct Hs as [Hk [Hp Hf]]. cbn in Hk. subst cs.
  unfold st_of in Hf. cbn [inf] in Hf, Hp.
  assert (HIs : forall j, nid j = nid i -> idsOK next (Node j [])).
  { intros j Hj. apply (idsOK_same next (Node i [])); [exact HI|]. rewrite !ids_node, Hj. reflexivity. }
  assert (Hred : bnd = true -> nredir i <= max_redirect c /\ nredir i = 0).
  { intros Hb. destruct Hp as [H1 [H2 _]]. cbn [ctx0 cpar] in H1. split; [exact (proj1 (H2 Hb)) | exact (H1 Hb)]. }
  rewrite (preprocess_leaf i Hf). eexists. split; [reflexivity|].
  destruct (o_pre o (nid i)) as [|u ex ep].
  { split; [apply HIs; reflexivity|]. left. apply terminal_leaf; [reflexivity | exact Hred]. }
  destruct ex.
  { split; [apply HIs; reflexivity|]. left. apply terminal_leaf; [reflexivity | exact Hred]. }
  destruct (o_seen o (nid i)).
  { split; [apply HIs; reflexivity|]. left. apply terminal_leaf; [reflexivity | exact Hred]. }
  split; [apply HIs; reflexivity|].
  destruct (o_reqfail o (nid i)).
  { left. apply terminal_leaf; [reflexivity | exact Hred]. }
  right. split; [|split; [|split; [|split; [|split]]]].
  - split; [reflexivity|]. split.
    + cbn [inf]. apply par_ok_set_pending; [exact Hp | cbn [set_url nst]; rewrite Hf; reflexivity | discriminate].
    + right. right. reflexivity.
  - discriminate.
  - reflexivity.
  - constructor.
  - intros A fi _. intros x [].
  - cbn. intros x Hx. exact Hx.
Qed.

Lemma pre_any D t next : SInv D t next -> exists t1, pre_worker o t = Ok t1 /\ PreOut D t next t1.
Proof.
  intros H. assert (H' := H). destruct H' as [_ [Hs [_ [_ Hw]]]].
  unfold pre_worker. rewrite (shape_check0 _ _ _ Hs). cbn [Nat.eqb negb].
  assert (E : status_eqb (st_of t) Failed || status_eqb (st_of t) Completed = false).
  { unfold has_work in Hw. destruct (st_of t); try discriminate Hw; reflexivity. }
  rewrite E. destruct D as [|d]; [exact (pre_0 t next H) | exact (pre_S d t next H)].
Qed.

(* ---- archive ---- *)
Definition arch_node (n : item) : item :=
  if status_eqb (st_of n) PreProcessed
  then setst (match o_fetch o (id_of n) with Some _ => Archived | None => Failed end) n else n.

Definition arch_leaf : ctx -> item -> Prop :=
  lf (fun n => st_of n = Seen \/ st_of n = Failed \/ (st_of n = Archived /\ o_fetch o (id_of n) <> None)).

Definition ArchMain (D : nat) (t1 t2 : item) : Prop :=
  shp arch_leaf D ctx0 t2 /\ nodes_at D t2 <> [] /\ has_work t2 = true
  /\ (forall A (fi : info -> A), fi_ok fi -> allp fi t2 = allp fi t1).

Lemma arch_main D t t1 next :
  idsOK next t1 -> PreMain D t t1 ->
  exists t2, arch_worker o t1 = Ok t2 /\ idsOK next t2
             /\ (ArchMain D t1 t2 \/ (Terminal t2 /\ (forall A (fi : info -> A), fi_ok fi -> allp fi t2 = allp fi t1))).
Proof.
  intros HI [Hs [Hne [Hw _]]].
  assert (Hmd : max_depth t1 = D) by exact (shape_max_depth c bnd _ D ctx0 t1 Hs Hne).
  assert (Earch : archive o t1 = map_at D arch_node t1).
  { unfold archive. rewrite Hmd.
    exact (fold_set_status_level (fun n => status_eqb (st_of n) PreProcessed)
             (fun n => match o_fetch o (id_of n) with Some _ => Archived | None => Failed end) D t1 (proj1 HI)). }
  assert (Ew : arch_worker o t1 = Ok (map_at D arch_node t1)).
  { unfold arch_worker. rewrite (shape_check0 _ _ _ Hs). cbn [Nat.eqb negb]. rewrite <- Earch.
    pose proof (shape_root _ D t1 Hs Hw) as Hr. destruct D as [|d].
    - destruct Hr as [[E|[E|E]] _]; unfold has_work in Hw; rewrite E in *; try discriminate Hw; reflexivity.
    - destruct (st_of t1); try discriminate Hr; reflexivity. }
  exists (map_at D arch_node t1). split; [exact Ew|].
  assert (Hids : ids (map_at D arch_node t1) = ids t1).
  { apply ids_map_at. intros n _. unfold arch_node. destruct (status_eqb (st_of n) PreProcessed); [apply ids_setst|reflexivity]. }
  split; [apply (idsOK_same next t1); assumption|].
  assert (Hs2 : shp arch_leaf D ctx0 (map_at D arch_node t1)).
  { apply shape_map_at with (L1 := pre_leaf); [|exact Hs]. intros cx n _ [Hk [Hp HP]]. unfold arch_node.
    destruct HP as [E|[E|E]]; rewrite E; cbn [status_eqb].
    - split; [exact Hk|]. split; [exact Hp|left; exact E].
    - split; [exact Hk|]. split; [exact Hp|right; left; exact E].
    - destruct n as [i cs]. cbn in Hk. subst cs. unfold st_of in E. cbn [inf] in E. split; [reflexivity|].
      destruct (o_fetch o (id_of (Node i []))) eqn:Ef.
      + split; [cbn [setst inf]; apply par_ok_set_pending; [exact Hp | rewrite E; reflexivity | discriminate]|].
        right. right. split; [reflexivity|]. rewrite id_of_setst, Ef. discriminate.
      + split; [cbn [setst inf]; apply par_ok_set_st; [exact Hp | discriminate | reflexivity]|].
        right. left. reflexivity. }
  assert (Hall : forall A (fi : info -> A), fi_ok fi -> allp fi (map_at D arch_node t1) = allp fi t1).
  { intros A fi Hfi. apply allp_map_at. intros n _. unfold arch_node.
    destruct (status_eqb (st_of n) PreProcessed); [apply allp_setst; exact Hfi|reflexivity]. }
  destruct (has_work (map_at D arch_node t1)) eqn:Ehw.
  - left. split; [exact Hs2|]. split; [rewrite nodes_at_map_at; destruct (nodes_at D t1); [congruence|discriminate]|].
    split; [exact Ehw | exact Hall].
  - right. split; [|exact Hall]. destruct D as [|d].
    + cbn [map_at] in *. pose proof (shape_bnd_conds c bnd _ 0 ctx0 _ Hs2) as Hb2.
      destruct Hs2 as [Hk _]. destruct (arch_node t1) as [j ys]. cbn in Hk. subst ys.
      apply terminal_leaf; [exact Ehw|]. intros Hb. destruct (Hb2 Hb) as [Hr _].
      cbn [redir_ok ctx0 cpar forallb] in Hr. rewrite andb_true_r in Hr. apply andb_prop in Hr as [H1 H2].
      split; [apply N.leb_le; exact H1 | apply N.eqb_eq; exact H2].
    + exfalso. destruct t1 as [i cs]. cbn [map_at] in Ehw. unfold has_work, st_of in *. cbn [inf] in *. congruence.
Qed.

(* ---- the code's status-based depth agrees with the asset depth on nodes that await work ---- *)
Definition dval (cx : ctx) (n : item) : nat :=
  (node_ad cx (inf n) + match st_of n with GotRedirected => 0 | _ => 1 end)%nat.

Lemma shape_par_ok (P : item -> Prop) k cx t : shp (lf P) k cx t -> par_ok c bnd cx (inf t).
Proof. destruct k; intros H; [exact (proj1 (proj2 H)) | exact (proj1 H)]. Qed.

Lemma dval_child (P : item -> Prop) k cx i cs x :
  bnd = true -> is_got (nst i) = true -> In x cs -> shp (lf P) k (down cx i) x ->
  dwr_child (dval cx (Node i cs)) x = dval (down cx i) x.
Proof.
  intros Hb Hg Hx Hs. pose proof (shape_par_ok P k _ x Hs) as [Hp _].
  cbn [down cpar] in Hp. destruct Hp as [_ [_ Hp]]. destruct (Hp Hb) as [H1 [H2 _]].
  assert (En : node_ad (down cx i) (inf x) = if nredir (inf x) =? 0 then S (node_ad cx i) else node_ad cx i) by reflexivity.
  unfold dwr_child, dval, st_of. cbn [inf]. rewrite En. generalize (node_ad cx i) as a. intros a.
  destruct (nst i) eqn:Ei; try discriminate Hg.
  - specialize (H1 eq_refl). assert (E : (nredir (inf x) =? 0) = false) by (apply N.eqb_neq; lia).
    rewrite E. destruct (nst (inf x)); lia.
  - specialize (H2 eq_refl). rewrite H2. cbn [N.eqb]. destruct (nst (inf x)); lia.
Qed.

Lemma dlink (P : item -> Prop) (dw : list (N * nat)) : bnd = true -> forall k cx t dt,
  shp (lf P) k cx t ->
  (clive cx = true -> dt = dval cx t) ->
  (forall id dd, In (id, dd) (dwr_list dt t) -> lookupN id dw = dd) ->
  shp (fun cx' n => lf P cx' n /\ (pending_st (st_of n) = true -> lookupN (id_of n) dw = dval cx' n)) k cx t.
Proof.
  intros Hb. induction k as [|k IH]; intros cx [i cs] dt Hs Hdt Hdw.
  - split; [exact Hs|]. intros Hp. destruct Hs as [_ [[_ [_ Hl]] _]]. cbn [inf] in Hl. unfold st_of in Hp. cbn [inf] in Hp.
    rewrite <- (Hdt (Hl Hp)). apply Hdw. cbn [dwr_list]. left. reflexivity.
  - destruct Hs as [Hp [Hi Hc]]. split; [exact Hp|]. split; [exact Hi|]. cbn [kids inf] in *.
    rewrite Forall_forall in *. intros x Hx. apply (IH _ x (dwr_child dt x) (Hc x Hx)).
    + cbn [down clive]. intros Hl. apply andb_prop in Hl as [Hl Hw]. rewrite (Hdt Hl).
      apply (dval_child P k cx i cs x Hb); [|exact Hx|exact (Hc x Hx)].
      destruct Hi as [Hnp _]. unfold st_of in Hnp. cbn [inf] in Hnp. destruct (nst i); try discriminate; reflexivity.
    + intros id dd Hin. apply Hdw. cbn [dwr_list]. right. apply in_flat_map. exists x. split; [exact Hx|exact Hin].
Qed.

Lemma dwr_list_fst : forall t d, map fst (dwr_list d t) = ids t.
Proof.
  induction t as [i cs IH] using item_ind2. intros d. cbn [dwr_list map fst]. rewrite ids_node. f_equal.
  rewrite map_flat_map. apply flat_map_ext_in. intros x Hx. rewrite Forall_forall in IH. apply IH. exact Hx.
Qed.

Lemma assoc_nodup {V} (l : list (N * V)) k v : NoDup (map fst l) -> In (k, v) l -> assoc k l = Some v.
Proof.
  induction l as [|[k' v'] r IH]; intros Hd Hin; [destruct Hin|]. cbn [assoc]. cbn [map fst] in Hd.
  inversion Hd as [|x l Hn Hr]; subst. destruct Hin as [E|Hin].
  - inversion E; subst. rewrite N.eqb_refl. reflexivity.
  - destruct (N.eqb_spec k k') as [->|_]; [|apply IH; assumption].
    exfalso. apply Hn. apply (in_map fst) in Hin. exact Hin.
Qed.

Lemma dlink_root (P : item -> Prop) k t : bnd = true -> NoDup (ids t) -> shp (lf P) k ctx0 t ->
  shp (fun cx' n => lf P cx' n /\ (pending_st (st_of n) = true -> lookupN (id_of n) (dwr_all t) = dval cx' n)) k ctx0 t.
Proof.
  intros Hb Hd Hs. apply (dlink P (dwr_all t) Hb k ctx0 t (dwr_seed t) Hs).
  - intros _. unfold dval, dwr_seed, node_ad. cbn [ctx0 cpar]. destruct (st_of t); reflexivity.
  - intros id dd Hin. unfold lookupN, dwr_all. rewrite (assoc_nodup _ id dd); [reflexivity| |exact Hin].
    rewrite dwr_list_fst. exact Hd.
Qed.

(* nodes that await work are at most 3 asset levels deep, in the code's own (status-based) measure *)
Lemma pdo_shape (P : item -> Prop) : bnd = true -> domains_crawl c = false -> forall k cx t dt,
  shp (lf P) k cx t -> (clive cx = true -> dt = dval cx t) -> pending_depth_ok dt t = true.
Proof.
  intros Hb Hdc. induction k as [|k IH]; intros cx [i cs] dt Hs Hdt.
  - destruct Hs as [Hk [Hp _]]. cbn in Hk. subst cs. cbn [inf] in Hp. cbn [pending_depth_ok forallb].
    rewrite andb_true_r. destruct (pending_st (nst i)) eqn:Ep; [|reflexivity]. cbn [negb orb].
    destruct Hp as [_ [Hp2 Hl]]. rewrite (Hdt (Hl Ep)). destruct (Hp2 Hb) as [_ Ha]. specialize (Ha Hdc).
    apply Nat.leb_le. unfold dval, st_of. cbn [inf]. destruct (nst i); lia.
  - destruct Hs as [Hp [Hi Hc]]. cbn [inf kids] in *. cbn [pending_depth_ok].
    destruct Hi as [Hnp _]. unfold st_of in Hnp. cbn [inf] in Hnp. rewrite Hnp. cbn [negb orb andb].
    apply forallb_forall. intros x Hx. rewrite Forall_forall in Hc. apply (IH _ x _ (Hc x Hx)).
    cbn [down clive]. intros Hl. apply andb_prop in Hl as [Hl Hw]. rewrite (Hdt Hl).
    apply (dval_child P k cx i cs x Hb); [|exact Hx|exact (Hc x Hx)].
    destruct (nst i); try discriminate; reflexivity.
Qed.

Lemma pdo_root (P : item -> Prop) k t : bnd = true -> domains_crawl c = false ->
  shp (lf P) k ctx0 t -> pending_depth_ok (dwr_seed t) t = true.
Proof.
  intros Hb Hdc Hs. apply (pdo_shape P Hb Hdc k ctx0 t _ Hs). intros _.
  unfold dval, dwr_seed, node_ad. cbn [ctx0 cpar]. destruct (st_of t); reflexivity.
Qed.

Lemma pdo_no_pending : forall t d, no_pending t = true -> pending_depth_ok d t = true.
Proof.
  induction t as [i cs IH] using item_ind2. intros d Hn. rewrite no_pending_node in Hn.
  apply andb_prop in Hn as [H1 H2]. cbn [pending_depth_ok]. rewrite H1. cbn [orb andb].
  apply forallb_forall. intros x Hx. rewrite Forall_forall in IH. apply IH; [exact Hx|].
  rewrite forallb_forall in H2. exact (H2 x Hx).
Qed.

(* ---- postprocess ---- *)
Lemma shape1_leaf cx j : par_ok c bnd cx j -> pending_st (nst j) = false -> shp fl 1 cx (Node j []).
Proof.
  intros Hp Hn. split; [exact Hp|]. split; [|constructor].
  unfold inner_ok, st_of. cbn [inf kids length]. split; [exact Hn|]. split; [intros H; congruence | intros _; lia].
Qed.

Lemma shape1_kids cx j ks :
  par_ok c bnd cx j -> (nst j = GotChildren \/ (nst j = GotRedirected /\ (length ks <= 1)%nat)) ->
  Forall (fl (down cx j)) ks -> shp fl 1 cx (Node j ks).
Proof.
  intros Hp Hs Hk. split; [exact Hp|]. split; [|exact Hk].
  unfold inner_ok, st_of. cbn [inf kids]. destruct Hs as [E|[E Hl]]; rewrite E; cbn.
  - split; [reflexivity|]. split; [reflexivity|discriminate].
  - split; [reflexivity|]. split; [reflexivity|intros _; exact Hl].
Qed.

Lemma mkassets_in h : forall us s x, In x (mkassets s h us) -> exists s' u, x = new_child s' u h 0 false.
Proof.
  induction us as [|u r IH]; intros s x Hx; [destruct Hx|]. cbn [mkassets] in Hx.
  destruct Hx as [<-|Hx]; [exists s, u; reflexivity | exact (IH _ _ Hx)].
Qed.

Lemma wkp_fresh_list {A} (fi : info -> A) ks :
  (forall x, In x ks -> st_of x = Fresh /\ kids x = []) -> flat_map (wkp fi) ks = [].
Proof.
  induction ks as [|a r IH]; intros H; [reflexivity|]. cbn [flat_map].
  rewrite IH by (intros x Hx; apply H; right; exact Hx).
  destruct (H a (or_introl eq_refl)) as [Hf Hk]. destruct a as [j ys]. cbn in Hk. subst ys.
  unfold st_of in Hf. cbn in Hf. rewrite wkp_node, Hf. reflexivity.
Qed.

Lemma post_node cx m s dm :
  arch_leaf cx m -> (bnd = true -> pending_st (st_of m) = true -> dm = dval cx m) ->
  shp fl 1 cx (fst (post_F c o dm m s) m)
  /\ (forall A (fi : info -> A), fi_ok fi -> wkp fi (fst (post_F c o dm m s) m) = allp fi m).
Proof.
  intros [Hk [Hp HP]] Hdm. destruct m as [i cs]. cbn in Hk. subst cs. cbn [inf] in Hp.
  unfold st_of in *. cbn [inf] in *.
  assert (Hall : forall A (fi : info -> A), allp fi (Node i []) = [fi i]) by (intros; reflexivity).
  assert (Hsame : nst i = Seen \/ nst i = Failed ->
            shp fl 1 cx (Node i []) /\ forall A (fi : info -> A), fi_ok fi -> wkp fi (Node i []) = allp fi (Node i [])).
  { intros Hst. split.
    - apply shape1_leaf; [exact Hp|]. destruct Hst as [E|E]; rewrite E; reflexivity.
    - intros A fi _. rewrite wkp_node. destruct Hst as [E|E]; rewrite E; reflexivity. }
  assert (Hcompl : shp fl 1 cx (setst Completed (Node i []))
            /\ forall A (fi : info -> A), fi_ok fi -> wkp fi (setst Completed (Node i [])) = allp fi (Node i [])).
  { cbn [setst]. split.
    - apply shape1_leaf; [|reflexivity]. apply par_ok_set_st; [exact Hp|discriminate|reflexivity].
    - intros A fi Hfi. rewrite wkp_node. cbn [set_st nst status_eqb flat_map app]. rewrite Hfi. reflexivity. }
  unfold post_F, st_of. cbn [inf].
  destruct HP as [E|[E|[E Hf]]]; [rewrite E; cbn [status_eqb negb fst]; apply Hsame; left; exact E
                                 |rewrite E; cbn [status_eqb negb fst]; apply Hsame; right; exact E|].
  rewrite E. cbn [status_eqb negb]. unfold id_of in *. cbn [inf] in *.
  destruct (o_fetch o (nid i)) as [r|]; [|congruence]. clear Hf.
  assert (Hlive : clive cx = true) by (apply (proj2 (proj2 Hp)); rewrite E; reflexivity).
  assert (Hdv : bnd = true -> dm = S (node_ad cx i)).
  { intros Hb. rewrite (Hdm Hb) by (rewrite E; reflexivity). unfold dval, st_of. cbn [inf]. rewrite E. lia. }
  assert (HpG : forall s', is_got s' = true -> par_ok c bnd cx (set_st s' i)).
  { intros s' Hg. apply par_ok_set_st; [exact Hp| |]; destruct s'; try discriminate; reflexivity. }
  destruct (r_redirect r).
  - destruct (max_redirect c <=? nredir i) eqn:Emax; cbn [fst]; [exact Hcompl|].
    apply N.leb_gt in Emax. cbn [addkid new_child set_st app]. split.
    + apply shape1_kids; [apply (HpG GotRedirected); reflexivity | right; split; [reflexivity|cbn; lia]|].
      constructor; [|constructor]. split; [reflexivity|]. split; [|reflexivity].
      cbn [inf]. unfold par_ok. cbn [down cpar clive nvia nst nredir set_st].
      split; [|split].
      * split; [reflexivity|]. split; [reflexivity|]. intros _. split; [reflexivity|]. split; [discriminate|right; reflexivity].
      * intros Hb. split; [lia|]. intros Hdc. unfold node_ad. cbn [down cpar cpad nredir set_st].
        assert (En : (nredir i + 1 =? 0) = false) by (apply N.eqb_neq; lia). rewrite En.
        destruct Hp as [_ [Hp2 _]]. exact (proj2 (Hp2 Hb) Hdc).
      * intros _. rewrite Hlive. reflexivity.
    + intros A fi Hfi. rewrite wkp_node. cbn [nst status_eqb flat_map]. rewrite wkp_node. cbn [nst status_eqb app flat_map].
      rewrite Hfi. reflexivity.
  - destruct (negb (domains_crawl c) && Nat.ltb 3 dm) eqn:Eg1; cbn [fst]; [exact Hcompl|].
    destruct (negb (domains_crawl c) && Nat.eqb dm 2 && r_html r); cbn [fst]; [exact Hcompl|].
    destruct (disable_assets c && negb (domains_crawl c)); cbn [fst]; [exact Hcompl|].
    destruct (if r_ok200 r && negb (disable_assets c) then r_assets r else []) as [|a l] eqn:Ea; cbn [fst]; [exact Hcompl|].
    unfold akids. cbn [inf kids app]. split.
    + apply shape1_kids; [apply (HpG GotChildren); reflexivity | left; reflexivity|].
      apply Forall_forall. intros x Hx. destruct (mkassets_in _ _ _ _ Hx) as [s' [u ->]].
      split; [reflexivity|]. split; [|reflexivity].
      cbn [new_child inf]. unfold par_ok. cbn [down cpar clive nvia nst nredir set_st].
      split; [|split].
      * split; [reflexivity|]. split; [reflexivity|]. intros _. split; [discriminate|]. split; [reflexivity|left; reflexivity].
      * intros Hb. split; [lia|]. intros Hdc. unfold node_ad. cbn [down cpar cpad nredir set_st N.eqb].
        rewrite Hdc in Eg1. cbn [negb andb] in Eg1. apply Nat.ltb_ge in Eg1. rewrite (Hdv Hb) in Eg1.
        change (node_ad cx (set_st GotChildren i)) with (node_ad cx i). lia.
      * intros _. rewrite Hlive. reflexivity.
    + intros A fi Hfi. rewrite wkp_node. cbn [set_st nst status_eqb app]. rewrite Hfi.
      rewrite wkp_fresh_list; [reflexivity|]. intros x Hx. destruct (mkassets_in _ _ _ _ Hx) as [s' [u ->]].
      split; reflexivity.
Qed.

Lemma post_main D t1 t2 next :
  idsOK next t2 -> ArchMain D t1 t2 ->
  exists t3 next', post_worker c o t2 next = Ok (t3, next') /\ idsOK next' t3 /\ next <= next'
                   /\ shp fl (S D) ctx0 t3
                   /\ (forall A (fi : info -> A), fi_ok fi -> wkp fi t3 = allp fi t2).
Proof.
  intros HI [Hs [Hne [Hw _]]].
  assert (Hmd : max_depth t2 = D) by exact (shape_max_depth c bnd _ D ctx0 t2 Hs Hne).
  destruct (postprocess_struct H_add_child_ids D c o t2 next Hmd HI) as [done [next' [Epost [HI' [Hle Hspec]]]]].
  exists (map_at D (subst done) t2), next'.
  split.
  { unfold post_worker. rewrite (shape_check0 _ _ _ Hs). cbn [Nat.eqb negb]. rewrite Epost.
    pose proof (shape_root _ D t2 Hs Hw) as Hr. destruct D as [|d].
    - destruct Hr as [[E|[E|[E _]]] _]; unfold has_work in Hw; rewrite E in *; try discriminate Hw; reflexivity.
    - destruct (st_of t2); try discriminate Hr; reflexivity. }
  split; [exact HI'|]. split; [exact Hle|].
  set (L1 := fun cx n => arch_leaf cx n /\
                (bnd = true -> pending_st (st_of n) = true -> lookupN (id_of n) (dwr_all t2) = dval cx n)).
  assert (HsL : shp L1 D ctx0 t2).
  { destruct (Bool.bool_dec bnd true) as [Eb|Eb].
    - apply (shape_mono c bnd _ L1) with (2 := dlink_root _ D t2 Eb (proj1 HI) Hs).
      intros cx n [H1 H2]. split; [exact H1|]. intros _. exact H2.
    - apply (shape_mono c bnd arch_leaf L1); [|exact Hs]. intros cx n H. split; [exact H|]. intros E. contradiction. }
  split.
  - apply shape_S_inner. apply shape_map_at with (L1 := L1); [|exact HsL].
    intros cx n Hn [Ha Hd]. destruct (Hspec n Hn) as [s [_ ->]].
    apply (proj1 (post_node cx n s _ Ha Hd)).
  - intros A fi Hfi. apply wkp_map_at_all.
    + intros lvl n Hl Hn Hf. pose proof (proj1 (shape_level c bnd _ D ctx0 t2 lvl n Hs Hn) Hl) as Hp.
      rewrite Hf in Hp. discriminate.
    + intros n Hn. destruct (shape_nodes_at c bnd _ D ctx0 t2 n HsL Hn) as [cx [Ha Hd]].
      destruct (Hspec n Hn) as [s [_ ->]]. apply (proj2 (post_node cx n s _ Ha Hd)). exact Hfi.
Qed.

(* ---- finisher ---- *)
Lemma fin_main D t3 next' :
  idsOK next' t3 -> shp fl (S D) ctx0 t3 ->
  exists t4 d, fin_worker t3 = Ok (t4, d)
    /\ (d = DFinish <-> no_pending t3 = true) /\ no_pending t4 = no_pending t3
    /\ idsOK next' t4 /\ check_consistency t4 = 0%nat /\ shp fl (S D) ctx0 t4
    /\ (d = DFeedback -> t4 = mark_completed t3 /\ has_work t4 = true
                         /\ shp fl (S D) ctx0 t4 /\ nodes_at (S D) t4 <> []).
Proof.
  intros HI Hs. pose proof (shape_check0 _ _ _ Hs) as Hc.
  pose proof (proj2 (shape_closed c bnd _ (S D) ctx0 t3 Hs)) as Hcl.
  destruct (H_complete_iff t3 Hcl) as [Hsnd Hfst].
  unfold fin_worker. rewrite Hc. cbn [Nat.eqb negb].
  destruct (complete_and_check t3) as [t4 b] eqn:Ecc. cbn [fst snd] in *.
  exists t4, (if b then DFinish else DFeedback). split; [reflexivity|].
  unfold complete_and_check in Ecc. destruct (has_work t3) eqn:Hw3; cbn [negb] in Ecc; injection Ecc as E1 E2; subst t4 b.
  - (* marked *)
    assert (Hs4 : shp fl (S D) ctx0 (mark_completed t3)) by (apply mc_shape; exact Hs).
    split; [rewrite <- Hsnd; destruct (has_work (mark_completed t3)); cbn; split; intros; congruence|].
    split; [exact Hfst|]. split; [apply (idsOK_same next' t3); [exact HI | apply ids_mark_completed]|].
    split; [exact (shape_check0 _ _ _ Hs4)|]. split; [exact Hs4|].
    intros Hd. split; [reflexivity|].
    split; [destruct (has_work (mark_completed t3)); [reflexivity|discriminate Hd]|]. split; [exact Hs4|].
    intros Hnil. assert (Hnp : no_pending (mark_completed t3) = true).
    { apply (shape_no_pending c bnd _ (S D) ctx0 _ Hs4). intros n Hn. rewrite Hnil in Hn. destruct Hn. }
    rewrite Hfst, <- Hsnd in Hnp. rewrite Hnp in Hd. discriminate Hd.
  - split; [rewrite <- Hsnd; split; reflexivity|]. split; [reflexivity|]. split; [exact HI|].
    split; [exact Hc|]. split; [exact Hs|]. discriminate.
Qed.

(* ---- one pass ---- *)
Definition PassOut (D : nat) (t : item) (next : N) : Prop :=
  exists t1 t2 t3 next' t4 d,
    pre_worker o t = Ok t1 /\ arch_worker o t1 = Ok t2
    /\ post_worker c o t2 next = Ok (t3, next') /\ fin_worker t3 = Ok (t4, d)
    /\ wf t1 /\ wf t2 /\ wf t3 /\ wf t4
    /\ (d = DFinish <-> no_pending t3 = true) /\ no_pending t4 = no_pending t3 /\ next <= next'
    /\ PreOut D t next t1
    /\ (d = DFeedback ->
        SInv (S D) t4 next' /\ PreMain D t t1
        /\ forall A (fi : info -> A), fi_ok fi -> wkp fi t4 = allp fi t1)
    /\ (bnd = true -> domains_crawl c = false ->
        pending_depth_ok (dwr_seed t1) t1 = true /\ pending_depth_ok (dwr_seed t2) t2 = true
        /\ pending_depth_ok (dwr_seed t3) t3 = true)
    /\ (bnd = true -> redir_ok c None t1 = true /\ redir_ok c None t2 = true
                      /\ redir_ok c None t3 = true /\ redir_ok c None t4 = true).

Lemma pass_struct D t next : SInv D t next -> PassOut D t next.
Proof.
  intros HS. destruct (pre_any D t next HS) as [t1 [Epre HP]]. assert (HP' := HP). destruct HP' as [HI1 [HT|HM]].
  - (* the seed is done after preprocessing *)
    destruct HT as [Hw [Hc [Hn Hr]]].
    exists t1, t1, t1, next, t1, DFinish.
    split; [exact Epre|]. split; [exact (has_work_terminal_skip_arch o t1 Hw Hc)|].
    split; [exact (has_work_terminal_skip_post c o t1 next Hw Hc)|].
    split; [exact (has_work_terminal_fin t1 Hw Hc)|].
    assert (Hwf : wf t1) by (split; [exact (proj1 HI1) | exact Hc]).
    repeat (split; [exact Hwf|]). split; [split; intros; [exact Hn|reflexivity]|].
    split; [reflexivity|]. split; [lia|]. split; [exact HP|]. split; [discriminate|].
    split; [intros _ _; repeat split; apply pdo_no_pending; exact Hn|].
    intros Hb. specialize (Hr Hb). repeat split; exact Hr.
  - destruct (arch_main D t t1 next HI1 HM) as [t2 [Earch [HI2 HA]]].
    assert (Hwf1 : wf t1) by (split; [exact (proj1 HI1) | exact (shape_check0 _ _ _ (proj1 HM))]).
    destruct HA as [HA|[[Hw [Hc [Hn Hr]]] _]].
    + destruct (post_main D t1 t2 next HI2 HA) as [t3 [next' [Epost [HI3 [Hle [Hs3 Hwk3]]]]]].
      destruct (fin_main D t3 next' HI3 Hs3) as [t4 [d [Efin [Hiff [Hnp [HI4 [Hc4 [Hs4' Hfb]]]]]]]].
      exists t1, t2, t3, next', t4, d.
      split; [exact Epre|]. split; [exact Earch|]. split; [exact Epost|]. split; [exact Efin|].
      split; [exact Hwf1|]. split; [split; [exact (proj1 HI2) | exact (shape_check0 _ _ _ (proj1 HA))]|].
      split; [split; [exact (proj1 HI3) | exact (shape_check0 _ _ _ Hs3)]|].
      split; [split; [exact (proj1 HI4) | exact Hc4]|].
      split; [exact Hiff|]. split; [exact Hnp|]. split; [exact Hle|]. split; [exact HP|].
      split.
      2:{ split.
          - intros Hb Hdc. split; [exact (pdo_root _ D t1 Hb Hdc (proj1 HM))|].
            split; [exact (pdo_root _ D t2 Hb Hdc (proj1 HA)) | exact (pdo_root _ (S D) t3 Hb Hdc Hs3)].
          - intros Hb. split; [exact (proj1 (shape_bnd_conds c bnd _ D ctx0 t1 (proj1 HM) Hb))|].
            split; [exact (proj1 (shape_bnd_conds c bnd _ D ctx0 t2 (proj1 HA) Hb))|].
            split; [exact (proj1 (shape_bnd_conds c bnd _ (S D) ctx0 t3 Hs3 Hb))|].
            exact (proj1 (shape_bnd_conds c bnd _ (S D) ctx0 t4 Hs4' Hb)). }
      intros Hd. destruct (Hfb Hd) as [E4 [Hw4 [Hs4 Hne4]]].
      assert (Hwk4 : forall A (fi : info -> A), fi_ok fi -> wkp fi t4 = allp fi t1).
      { intros A fi Hfi. rewrite E4, (wkp_mc fi Hfi), (Hwk3 A fi Hfi). exact (proj2 (proj2 (proj2 HA)) A fi Hfi). }
      split; [|split; [exact HM | exact Hwk4]].
      split; [exact HI4|]. split; [exact Hs4|]. split; [exact Hne4|]. split; [|exact Hw4].
      rewrite worked_urls_wnsp.
      assert (E : wnsp nurl t4 = nsp nurl t1).
      { pose proof (Hwk4 _ nurl (fun s i => eq_refl)) as E. rewrite allp_root, wkp_root_worked in E.
        - injection E as _ E. exact E.
        - intros Hf. unfold has_work in Hw4. destruct Hs4 as [_ [[Hp4 _] _]]. rewrite Hf in Hp4. discriminate. }
      rewrite E, <- nonseed_urls_nsp. exact (proj1 (proj2 (proj2 (proj2 HM)))).
    + exists t1, t2, t2, next, t2, DFinish.
      split; [exact Epre|]. split; [exact Earch|].
      split; [exact (has_work_terminal_skip_post c o t2 next Hw Hc)|].
      split; [exact (has_work_terminal_fin t2 Hw Hc)|].
      assert (Hwf : wf t2) by (split; [exact (proj1 HI2) | exact Hc]).
      split; [exact Hwf1|]. repeat (split; [exact Hwf|]). split; [split; intros; [exact Hn|reflexivity]|].
      split; [reflexivity|]. split; [lia|]. split; [exact HP|]. split; [discriminate|].
      split.
      * intros Hb Hdc. split; [exact (pdo_root _ D t1 Hb Hdc (proj1 HM))|].
        split; apply pdo_no_pending; exact Hn.
      * intros Hb. split; [exact (proj1 (shape_bnd_conds c bnd _ D ctx0 t1 (proj1 HM) Hb))|].
        specialize (Hr Hb). repeat split; exact Hr.
Qed.

Lemma pass_eq t next t1 t2 t3 next' t4 d :
  pre_worker o t = Ok t1 -> arch_worker o t1 = Ok t2 -> post_worker c o t2 next = Ok (t3, next') ->
  fin_worker t3 = Ok (t4, d) -> pass c o (t, next) = Ok (t4, next', d).
Proof. intros E1 E2 E3 E4. unfold pass. rewrite E1, E2, E3, E4. reflexivity. Qed.
End OnePass.

(* ---- the invariant of PassSpec.v and the structural one ---- *)
Lemma inv_sinv c t next : Inv t next -> SInv c false (max_depth t) t next.
Proof.
  intros [Hd [Hb [Hc [Hl [Hcl [Hw Hu]]]]]]. split; [split; assumption|]. split.
  - apply inv_shape_gen; [exact Hc | exact Hl | exact Hcl | discriminate | intros E; discriminate E].
  - split; [apply nodes_at_max_depth|]. split; assumption.
Qed.

Lemma invb_sinv c t next : InvB c t next -> SInv c true (max_depth t) t next.
Proof.
  intros [[Hd [Hb [Hc [Hl [Hcl [Hw Hu]]]]]] [Hr Ha]]. split; [split; assumption|]. split.
  - apply inv_shape_gen; [exact Hc | exact Hl | exact Hcl | discriminate |]. intros _. split; [exact Hr | exact Ha].
  - split; [apply nodes_at_max_depth|]. split; assumption.
Qed.

Lemma sinv_inv c bnd D t next : SInv c bnd D t next ->
  Inv t next /\ max_depth t = D
  /\ (bnd = true -> redir_ok c None t = true /\ (domains_crawl c = false -> adepth_ok 3 0 t = true)).
Proof.
  intros [[Hd Hb] [Hs [Hne [Hu Hw]]]].
  pose proof (shape_max_depth c bnd _ D ctx0 t Hs Hne) as Hmd.
  split; [|split; [exact Hmd|]].
  - split; [exact Hd|]. split; [exact Hb|]. split; [exact (shape_check c bnd _ D ctx0 t Hs)|]. split.
    + intros lvl n Hn. rewrite Hmd. destruct (shape_level c bnd _ D ctx0 t lvl n Hs Hn) as [H1 [H2 _]].
      split; [intros E; exact (proj1 (H2 E)) | exact H1].
    + split; [exact (proj2 (shape_closed c bnd _ D ctx0 t Hs))|]. split; assumption.
  - intros Hbt. exact (shape_bnd_conds c bnd _ D ctx0 t Hs Hbt).
Qed.

(* ---- the statements of PassSpec.v ---- *)
Lemma seed0_inv_lemma : seed0_inv_stmt.
Proof.
  intros u hops. cbn [seed0 fst snd]. split; [|split; [|split; [|split; [|split; [|split]]]]].
  - cbn. constructor; [intros []|constructor].
  - cbn. intros i [<-|[]]. reflexivity.
  - reflexivity.
  - intros lvl n Hn. destruct lvl as [|lvl]; [|destruct Hn].
    destruct Hn as [<-|[]]. split; [reflexivity|]. cbn. lia.
  - reflexivity.
  - reflexivity.
  - cbn. constructor.
Qed.

Lemma seed0_invb c u hops : InvB c (fst (seed0 u hops)) (snd (seed0 u hops)).
Proof.
  split; [apply seed0_inv_lemma|]. cbn [seed0 fst]. split; [|reflexivity].
  cbn [redir_ok nredir forallb N.eqb]. rewrite !andb_true_r. apply N.leb_le. lia.
Qed.

Lemma pass_stages_lemma : pass_stages_stmt.
Proof.
  intros c o t next HI.
  destruct (pass_struct c false o _ t next (inv_sinv c t next HI))
    as [t1 [t2 [t3 [next' [t4 [d [E1 [E2 [E3 [E4 [W1 [W2 [W3 [W4 [Hiff [Hnp _]]]]]]]]]]]]]]]].
  exists t1, t2, t3, next', t4, d. repeat (split; [assumption|]).
  split; [exact (pass_eq c o t next t1 t2 t3 next' t4 d E1 E2 E3 E4)|].
  repeat (split; [assumption|]). exact Hnp.
Qed.

Lemma pass_preserves_lemma : pass_preserves_stmt.
Proof.
  intros c o t next HI.
  destruct (pass_struct c false o _ t next (inv_sinv c t next HI))
    as [t1 [t2 [t3 [next' [t4 [d [E1 [E2 [E3 [E4 [W1 [W2 [W3 [W4 [Hiff [Hnp [Hle [_ [Hfb _]]]]]]]]]]]]]]]]]]].
  exists t4, next', d. split; [exact (pass_eq c o t next t1 t2 t3 next' t4 d E1 E2 E3 E4)|].
  split; [exact Hle|]. split.
  - intros Hd. destruct (Hfb Hd) as [HS _]. destruct (sinv_inv c false _ t4 next' HS) as [HI4 [Hmd _]].
    split; [exact HI4 | exact Hmd].
  - intros Hd. split; [rewrite Hnp; apply Hiff; exact Hd|]. split; [exact (proj2 W4) | exact (proj1 W4)].
Qed.

Lemma pass_preserves_bounds_lemma : pass_preserves_bounds_stmt.
Proof.
  intros c o t next t' next' HB Hpass.
  destruct (pass_struct c true o _ t next (invb_sinv c t next HB))
    as [t1 [t2 [t3 [next'' [t4 [d [E1 [E2 [E3 [E4 [_ [_ [_ [_ [_ [_ [_ [_ [Hfb _]]]]]]]]]]]]]]]]]]].
  rewrite (pass_eq c o t next t1 t2 t3 next'' t4 d E1 E2 E3 E4) in Hpass. inversion Hpass; subst.
  destruct (Hfb eq_refl) as [HS _]. destruct (sinv_inv c true _ t' next' HS) as [HI4 [_ Hb]].
  split; [exact HI4 | exact (Hb eq_refl)].
Qed.

Lemma run_passes_inv c : forall os t next, Inv t next ->
  exists t' next' d,
    run_passes c os (t, next) = Ok (t', next', d)
    /\ check_consistency t' = 0%nat /\ NoDup (ids t')
    /\ (d = DFinish -> no_pending t' = true) /\ (d = DFeedback -> Inv t' next').
Proof.
  induction os as [|o r IH]; intros t next HI.
  - exists t, next, DFeedback. split; [reflexivity|]. assert (HI' := HI). destruct HI' as [Hd [_ [Hc _]]].
    split; [exact Hc|]. split; [exact Hd|]. split; [discriminate|]. intros _. exact HI.
  - destruct (pass_preserves_lemma c o t next HI) as [t1 [n1 [d [Ep [_ [Hfb Hfin]]]]]].
    cbn [run_passes]. rewrite Ep. destruct d.
    + destruct (Hfb eq_refl) as [HI1 _]. exact (IH t1 n1 HI1).
    + destruct (Hfin eq_refl) as [Hn [Hc Hd]]. exists t1, n1, DFinish. split; [reflexivity|].
      split; [exact Hc|]. split; [exact Hd|]. split; [intros _; exact Hn | discriminate].
Qed.

Lemma run_passes_lemma : run_passes_stmt.
Proof. intros c os u hops. exact (run_passes_inv c os _ _ (seed0_inv_lemma u hops)). Qed.

(* ---- C06: the depth of the tree, hence the number of passes, is bounded ---- *)
Definition rank (c : cfg) (cx : ctx) (i : info) : nat :=
  (node_ad cx i * (N.to_nat (max_redirect c) + 1) + N.to_nat (nredir i))%nat.

Lemma depth_bound c (P : item -> Prop) : domains_crawl c = false -> forall k cx t,
  shape c true (leaf c true P) k cx t -> nodes_at k t <> [] ->
  (rank c cx (inf t) + k <= 4 * N.to_nat (max_redirect c) + 3)%nat.
Proof.
  intros Hdc. induction k as [|k IH]; intros cx [i cs] Hs Hne.
  - destruct Hs as [_ [[_ [Hb _]] _]]. cbn [inf] in *. destruct (Hb eq_refl) as [Hm Ha]. specialize (Ha Hdc).
    unfold rank. set (M := N.to_nat (max_redirect c)) in *.
    assert (N.to_nat (nredir i) <= M)%nat by (unfold M; lia).
    assert (node_ad cx i * (M + 1) <= 3 * (M + 1))%nat by (apply Nat.mul_le_mono_r; exact Ha). lia.
  - destruct Hs as [Hp [_ Hc]]. cbn [inf kids] in *. cbn [nodes_at] in Hne.
    assert (exists x, In x cs /\ nodes_at k x <> []) as [x [Hx Hnx]].
    { clear - Hne. induction cs as [|a r IHr]; [cbn in Hne; congruence|]. cbn in Hne.
      destruct (nodes_at k a) eqn:Ea.
      - destruct IHr as [x [Hx Hn]]; [exact Hne|]. exists x. split; [right; exact Hx | exact Hn].
      - exists a. split; [left; reflexivity|]. rewrite Ea. discriminate. }
    rewrite Forall_forall in Hc. specialize (IH _ x (Hc x Hx) Hnx).
    assert (Hpx : par_ok c true (down cx i) (inf x)).
    { destruct k; [exact (proj1 (proj2 (Hc x Hx))) | exact (proj1 (Hc x Hx))]. }
    destruct Hpx as [[_ [_ Hbx]] _]. destruct (Hbx eq_refl) as [_ [_ Hor]].
    destruct Hp as [_ [Hb _]]. destruct (Hb eq_refl) as [Hm _].
    unfold rank in *. set (M := N.to_nat (max_redirect c)) in *.
    assert (Hn : node_ad (down cx i) (inf x) = if nredir (inf x) =? 0 then S (node_ad cx i) else node_ad cx i) by reflexivity.
    rewrite Hn in IH. assert (N.to_nat (nredir i) <= M)%nat by (unfold M; lia).
    destruct Hor as [E|E].
    + rewrite E in IH. cbn [N.eqb] in IH. rewrite Nat.mul_succ_l in IH. change (N.to_nat 0) with 0%nat in IH. lia.
    + assert (En : (nredir (inf x) =? 0) = false) by (apply N.eqb_neq; lia). rewrite En, E in IH.
      assert (N.to_nat (nredir i + 1) = S (N.to_nat (nredir i))) by lia. lia.
Qed.

Lemma sinv_depth c D t next : domains_crawl c = false -> SInv c true D t next ->
  (D <= 4 * N.to_nat (max_redirect c) + 3)%nat.
Proof.
  intros Hdc [_ [Hs [Hne _]]]. pose proof (depth_bound c _ Hdc D ctx0 t Hs Hne). lia.
Qed.

Lemma run_bounded c : domains_crawl c = false -> forall os D t next,
  SInv c true D t next -> (length os + D >= 4 * (N.to_nat (max_redirect c) + 1))%nat ->
  exists t' next', run_passes c os (t, next) = Ok (t', next', DFinish).
Proof.
  intros Hdc. induction os as [|o r IH]; intros D t next HS Hlen.
  - pose proof (sinv_depth c D t next Hdc HS). cbn [length] in Hlen. lia.
  - destruct (pass_struct c true o D t next HS)
      as [t1 [t2 [t3 [next' [t4 [d [E1 [E2 [E3 [E4 [_ [_ [_ [_ [_ [_ [_ [_ [Hfb _]]]]]]]]]]]]]]]]]]].
    cbn [run_passes]. rewrite (pass_eq c o t next t1 t2 t3 next' t4 d E1 E2 E3 E4). destruct d.
    + destruct (Hfb eq_refl) as [HS' _]. apply (IH (S D) t4 next' HS'). cbn [length] in Hlen. lia.
    + exists t4, next'. reflexivity.
Qed.

Lemma seed0_sinv c u hops : SInv c true 0 (fst (seed0 u hops)) (snd (seed0 u hops)).
Proof. exact (invb_sinv c _ _ (seed0_invb c u hops)). Qed.

Lemma passes_bounded_tight_lemma : passes_bounded_tight_stmt.
Proof.
  intros c os u hops Hdc Hlen. destruct (run_bounded c Hdc os 0 _ _ (seed0_sinv c u hops)) as [t [next E]]; [lia|].
  exists t, next. exact E.
Qed.

Lemma passes_bounded_lemma : passes_bounded_stmt.
Proof. intros c os u hops Hdc Hlen. apply passes_bounded_tight_lemma; [exact Hdc | lia]. Qed.

Lemma pass_depth_lemma : pass_depth_stmt.
Proof.
  intros c o t next t1 t2 t3 next' HB Hdc E1 E2 E3.
  destruct (pass_struct c true o _ t next (invb_sinv c t next HB))
    as [u1 [u2 [u3 [n' [u4 [d [F1 [F2 [F3 [_ [_ [_ [_ [_ [_ [_ [_ [_ [_ [Hpd _]]]]]]]]]]]]]]]]]]]].
  rewrite F1 in E1. injection E1 as <-. rewrite F2 in E2. injection E2 as <-.
  rewrite F3 in E3. injection E3 as <- <-. exact (Hpd eq_refl Hdc).
Qed.

Lemma pass_redirects_lemma : pass_redirects_stmt.
Proof.
  intros c o t next t1 t2 t3 next' t4 d HB E1 E2 E3 E4.
  destruct (pass_struct c true o _ t next (invb_sinv c t next HB))
    as [u1 [u2 [u3 [n' [u4 [d' [F1 [F2 [F3 [F4 [_ [_ [_ [_ [_ [_ [_ [_ [_ [_ Hr]]]]]]]]]]]]]]]]]]]].
  rewrite F1 in E1. injection E1 as <-. rewrite F2 in E2. injection E2 as <-.
  rewrite F3 in E3. injection E3 as <- <-. rewrite F4 in E4. injection E4 as <- <-. exact (Hr eq_refl).
Qed.

(* ---- no URL is fetched twice within one seed's tree ---- *)
Lemma nodup_map_inj {A B} (f : A -> B) W a b :
  NoDup (map f W) -> In a W -> In b W -> f a = f b -> a = b.
Proof.
  induction W as [|w r IH]; intros Hd Ha Hb E; [destruct Ha|]. cbn [map] in Hd.
  inversion Hd as [|x l Hn Hr]; subst. destruct Ha as [->|Ha]; destruct Hb as [->|Hb]; [reflexivity| | |].
  - exfalso. apply Hn. rewrite E. apply in_map. exact Hb.
  - exfalso. apply Hn. rewrite <- E. apply in_map. exact Ha.
  - exact (IH Hr Ha Hb E).
Qed.

Lemma nodup_map_incl {A B} (f : A -> B) W L :
  NoDup (map f W) -> NoDup L -> incl L W -> NoDup (map f L).
Proof.
  intros HW. induction L as [|a r IH]; intros HL Hi; [constructor|].
  inversion HL as [|x l Hn Hr]; subst. cbn [map]. constructor.
  - intros Hin. apply in_map_iff in Hin as [b [E Hb]]. apply Hn.
    rewrite (nodup_map_inj f W a b HW); [exact Hb | apply Hi; left; reflexivity | apply Hi; right; exact Hb | symmetry; exact E].
  - apply IH; [exact Hr|]. intros x Hx. apply Hi. right. exact Hx.
Qed.

Lemma nodup_map_filter {A B} (f : A -> B) (p : A -> bool) l : NoDup (map f l) -> NoDup (map f (filter p l)).
Proof.
  induction l as [|a r IH]; intros H; [constructor|]. cbn [map] in H. inversion H as [|x l Hn Hr]; subst.
  cbn [filter]. destruct (p a); [|exact (IH Hr)]. cbn [map]. constructor; [|exact (IH Hr)].
  intros Hin. apply Hn. apply in_map_iff in Hin as [b [E Hb]]. apply filter_In in Hb as [Hb _].
  rewrite <- E. apply in_map. exact Hb.
Qed.

Lemma nodup_of_map {A B} (f : A -> B) l : NoDup (map f l) -> NoDup l.
Proof.
  induction l as [|a r IH]; intros H; [constructor|]. cbn [map] in H. inversion H as [|x l Hn Hr]; subst.
  constructor; [|exact (IH Hr)]. intros Hin. apply Hn. apply in_map. exact Hin.
Qed.

Definition fp (i : info) : N * N := (nid i, nurl i).
Lemma fp_ok : fi_ok fp. Proof. intros s i. reflexivity. Qed.

Lemma nsp_nonseed {A} (fi : info -> A) t : nsp fi t = map (fun n => fi (inf n)) (nonseed_nodes t).
Proof. destruct t as [i cs]. unfold nsp, nonseed_nodes, allp. cbn [kids]. rewrite map_flat_map. reflexivity. Qed.

Lemma wnsp_nonseed {A} (fi : info -> A) t :
  wnsp fi t = map (fun n => fi (inf n)) (filter worked (nonseed_nodes t)).
Proof.
  destruct t as [i cs]. unfold wnsp, nonseed_nodes, wkp. cbn [kids].
  rewrite filter_flat_map, map_flat_map. reflexivity.
Qed.

Lemma nsp_fp_fst t : NoDup (ids t) -> NoDup (map fst (nsp fp t)).
Proof.
  destruct t as [i cs]. rewrite ids_node. intros H. inversion H as [|x l _ Hd]; subst.
  unfold nsp. cbn [kids]. rewrite map_flat_map.
  assert (E : flat_map (fun x => map fst (allp fp x)) cs = flat_map ids cs); [|rewrite E; exact Hd].
  apply flat_map_ext_in. intros x _. unfold allp, ids. rewrite map_map. reflexivity.
Qed.

Lemma nsp_fp_snd t : map snd (nsp fp t) = nonseed_urls t.
Proof.
  rewrite nonseed_urls_nsp. destruct t as [i cs]. unfold nsp. cbn [kids]. rewrite map_flat_map.
  apply flat_map_ext_in. intros x _. unfold allp. rewrite map_map. reflexivity.
Qed.

Lemma fetched_incl t : incl (fetched t) (nsp fp t).
Proof.
  rewrite nsp_nonseed. intros x Hx. unfold fetched in Hx. apply in_map_iff in Hx as [n [<- Hn]].
  apply filter_In in Hn as [Hn _]. apply (in_map (fun n => fp (inf n))) in Hn. exact Hn.
Qed.

Lemma fetched_nodup t : NoDup (ids t) -> NoDup (fetched t).
Proof.
  intros Hd. apply (nodup_of_map fst). unfold fetched.
  pose proof (nsp_fp_fst t Hd) as H. rewrite nsp_nonseed, map_map in H.
  rewrite map_map. exact (nodup_map_filter _ _ _ H).
Qed.

Lemma fetched_terminal t : no_pending t = true -> fetched t = [].
Proof.
  intros Hn. unfold fetched.
  assert (E : filter (fun n => status_eqb (st_of n) PreProcessed) (nonseed_nodes t) = []); [|rewrite E; reflexivity].
  destruct (filter _ (nonseed_nodes t)) as [|n r] eqn:Ef; [reflexivity|]. exfalso.
  assert (Hin : In n (filter (fun n => status_eqb (st_of n) PreProcessed) (nonseed_nodes t))) by (rewrite Ef; left; reflexivity).
  apply filter_In in Hin as [Hin Hs]. unfold no_pending in Hn. rewrite forallb_forall in Hn.
  assert (Hfl : In n (flatten t)).
  { destruct t as [i cs]. rewrite flatten_node. right. exact Hin. }
  specialize (Hn n Hfl). destruct (st_of n); try discriminate Hs. discriminate Hn.
Qed.

Lemma wnsp_fp_ids t x : In x (wnsp fp t) ->
  exists n, In n (flatten t) /\ id_of n = fst x /\ st_of n <> Fresh.
Proof.
  rewrite wnsp_nonseed. intros Hx. apply in_map_iff in Hx as [n [<- Hn]]. apply filter_In in Hn as [Hn Hw].
  exists n. split; [|split; [reflexivity|]].
  - destruct t as [i cs]. rewrite flatten_node. right. exact Hn.
  - intros Hf. unfold worked, is_fresh_node in Hw. rewrite Hf in Hw. discriminate.
Qed.

Section FetchOnce.
Variable c : cfg.

Lemma fetch_step o D t next t1 F :
  SInv c false D t next -> pre_worker o t = Ok t1 -> PreOut c false D t next t1 ->
  NoDup F -> incl F (wnsp fp t) ->
  NoDup (F ++ fetched t1)
  /\ NoDup (map fst (F ++ fetched t1)) /\ NoDup (map snd (F ++ fetched t1))
  /\ (PreMain c false D t t1 -> incl (F ++ fetched t1) (nsp fp t1)).
Proof.
  intros HS Epre [HI1 HP] HF Hinc. assert (HS' := HS). destruct HS' as [[Hd Hb] [Hs [Hne [Hwu Hw]]]].
  assert (HWt : NoDup (map fst (wnsp fp t)) /\ NoDup (map snd (wnsp fp t))).
  { split.
    - apply (nodup_map_incl fst (nsp fp t)); [apply nsp_fp_fst; exact Hd| |apply wnsp_incl].
      rewrite wnsp_nonseed. apply (nodup_of_map fst). rewrite map_map.
      pose proof (nsp_fp_fst t Hd) as H. rewrite nsp_nonseed, map_map in H. exact (nodup_map_filter _ _ _ H).
    - rewrite worked_urls_wnsp in Hwu. assert (E : map snd (wnsp fp t) = wnsp nurl t); [|rewrite E; exact Hwu].
      destruct t as [i cs]. unfold wnsp. cbn [kids]. rewrite map_flat_map. apply flat_map_ext_in. intros x _.
      unfold wkp. rewrite map_map. reflexivity. }
  destruct HP as [[_ [_ [Hnp _]]]|HM].
  - rewrite (fetched_terminal t1 Hnp), app_nil_r. split; [exact HF|]. split; [|split].
    + exact (nodup_map_incl fst _ F (proj1 HWt) HF Hinc).
    + exact (nodup_map_incl snd _ F (proj2 HWt) HF Hinc).
    + intros [_ [_ [_ [_ [Hi _]]]]]. intros x Hx. apply (Hi _ fp fp_ok). apply Hinc. exact Hx.
  - assert (HM' := HM). destruct HM' as [Hs1 [Hne1 [Hw1 [Hun1 [Hi1 Hlv1]]]]].
    assert (Hall : incl (F ++ fetched t1) (nsp fp t1)).
    { intros x Hx. apply in_app_or in Hx as [Hx|Hx]; [apply (Hi1 _ fp fp_ok); apply Hinc; exact Hx | exact (fetched_incl t1 x Hx)]. }
    assert (Hnd : NoDup (F ++ fetched t1)).
    { apply NoDup_app_intro; [exact HF | exact (fetched_nodup t1 (proj1 HI1))|].
      intros x HxF Hx1. destruct (wnsp_fp_ids t x (Hinc x HxF)) as [n [Hn [Hidn Hnf]]].
      unfold fetched in Hx1. apply in_map_iff in Hx1 as [m [Em Hm]]. apply filter_In in Hm as [Hm Hst].
      assert (Hmf : In m (flatten t1)) by (destruct t1 as [i cs]; rewrite flatten_node; right; exact Hm).
      destruct (flatten_nodes_at t1 m Hmf) as [lvl Hlvl].
      destruct (shape_level c false _ D ctx0 t1 lvl m Hs1 Hlvl) as [Hlt [_ Hle]].
      assert (lvl = D) as ->.
      { destruct (Nat.eq_dec lvl D) as [E|E]; [exact E|]. assert (lvl < D)%nat by lia.
        specialize (Hlt H). destruct (st_of m); try discriminate Hst. discriminate Hlt. }
      assert (Hidm : In (id_of m) (map id_of (nodes_at D t))) by (apply Hlv1; apply in_map; exact Hlvl).
      apply in_map_iff in Hidm as [m0 [Eid Hm0]].
      assert (n = m0).
      { apply (NoDup_ids_inj t n m0 Hd Hn (nodes_at_flatten _ _ _ Hm0)). rewrite Hidn, Eid, <- Em. reflexivity. }
      subst m0. apply Hnf. exact (proj1 (proj1 (proj2 (shape_level c false _ D ctx0 t D n Hs Hm0)) eq_refl)). }
    split; [exact Hnd|]. split; [|split; [|intros _; exact Hall]].
    + exact (nodup_map_incl fst _ _ (nsp_fp_fst t1 (proj1 HI1)) Hnd Hall).
    + apply (nodup_map_incl snd (nsp fp t1)); [rewrite nsp_fp_snd; exact Hun1 | exact Hnd | exact Hall].
Qed.

Lemma run_fetched_ok : forall os D t next F,
  SInv c false D t next -> NoDup F -> incl F (wnsp fp t) ->
  NoDup (map fst (F ++ run_fetched c os (t, next))) /\ NoDup (map snd (F ++ run_fetched c os (t, next))).
Proof.
  induction os as [|o r IH]; intros D t next F HS HF Hinc.
  - cbn [run_fetched]. rewrite app_nil_r. destruct HS as [[Hd Hb] [Hs [Hne [Hwu Hw]]]].
    split.
    + apply (nodup_map_incl fst (nsp fp t)); [apply nsp_fp_fst; exact Hd | exact HF|].
      intros x Hx. apply wnsp_incl. apply Hinc. exact Hx.
    + rewrite worked_urls_wnsp in Hwu.
      assert (E : map snd (wnsp fp t) = wnsp nurl t).
      { destruct t as [i cs]. unfold wnsp. cbn [kids]. rewrite map_flat_map. apply flat_map_ext_in. intros x _.
        unfold wkp. rewrite map_map. reflexivity. }
      apply (nodup_map_incl snd (wnsp fp t)); [rewrite E; exact Hwu | exact HF | exact Hinc].
  - destruct (pass_struct c false o D t next HS)
      as [t1 [t2 [t3 [next' [t4 [d [E1 [E2 [E3 [E4 [_ [_ [_ [_ [_ [_ [_ [HP [Hfb _]]]]]]]]]]]]]]]]]]].
    cbn [run_fetched fst]. rewrite E1, (pass_eq c o t next t1 t2 t3 next' t4 d E1 E2 E3 E4).
    destruct (fetch_step o D t next t1 F HS E1 HP HF Hinc) as [Hnd [Hf [Hs' Hall]]].
    destruct d.
    + destruct (Hfb eq_refl) as [HS4 [HM Hwk4]].
      rewrite app_assoc. apply (IH (S D) t4 next' (F ++ fetched t1) HS4 Hnd).
      assert (E : wnsp fp t4 = nsp fp t1).
      { pose proof (Hwk4 _ fp fp_ok) as E. rewrite allp_root, wkp_root_worked in E.
        - apply (f_equal (@tl _)) in E. exact E.
        - destruct HS4 as [_ [Hs4 [_ [_ Hw4]]]]. intros Hf'. destruct Hs4 as [_ [[Hp4 _] _]]. rewrite Hf' in Hp4. discriminate. }
      rewrite E. exact (Hall HM).
    + rewrite app_nil_r. split; assumption.
Qed.
End FetchOnce.

Lemma fetch_once_lemma : fetch_once_stmt.
Proof.
  intros c os u hops.
  destruct (run_fetched_ok c os 0 _ _ [] (inv_sinv c _ _ (seed0_inv_lemma u hops))) as [H1 H2].
  - constructor.
  - intros x [].
  - cbn [app] in *. change (max_depth (fst (seed0 u hops))) with 0%nat in *.
    replace (fst (seed0 u hops), snd (seed0 u hops)) with (seed0 u hops) in * by reflexivity. split; assumption.
Qed.
End WithTreeLemmas.
