(* Harness side of the hop rules (C06): the real postprocessItem on a synthetic archived page. *)
From ZenoV Require Import Lib.Harness Stage.Outlinks.
Open Scope N_scope.

Record hcase := HC {
  h_cfg : ocfg; h_hops : N; h_status : N; h_redirs : N; h_maxredir : N;
  h_links : list (N * bool);       (* anchors planted in the page: (url, matches the domains-crawl pattern) *)
  h_out : list (N * N);            (* observed outlinks to the planted hosts: (url, hops), as a set *)
  h_kids : list (N * N);           (* observed children of the page: (hops, redirect counter) *)
  h_via_bad : N                    (* 1 if some outlink's via is not the page URL *)
}.

Definition is_redirect (st : N) : bool :=
  (st =? 300) || (st =? 301) || (st =? 302) || (st =? 303) || (st =? 307) || (st =? 308).

Definition pair_eqb (a b : N * N) : bool := (fst a =? fst b) && (snd a =? snd b).
Definition set_eq (a b : list (N * N)) : bool :=
  forallb (fun x => existsb (pair_eqb x) b) a && forallb (fun x => existsb (pair_eqb x) a) b.

Definition expected_out (c : hcase) : list (N * N) :=
  if is_redirect (h_status c) then []
  else outlinks_of (h_cfg c) (h_hops c) (h_status c =? 200) true (h_links c).

Definition expected_kids_ok (c : hcase) : bool :=
  if is_redirect (h_status c) then
    if h_maxredir c <=? h_redirs c then match h_kids c with [] => true | _ => false end
    else match h_kids c with
         | [(h, r)] => (h =? redirect_hops (h_hops c)) && (r =? h_redirs c + 1)
         | _ => false
         end
  else forallb (fun k => (fst k =? asset_hops (h_hops c)) && (snd k =? 0)) (h_kids c).

Definition diff_case (c : hcase) : bool :=
  negb (set_eq (expected_out c) (h_out c) && expected_kids_ok c).
Definition diffs (l : list hcase) := bad_idx diff_case l.

(* monitors: the hop rules read off the observed outlinks and children only *)
Definition matches (c : hcase) (u : N) : bool :=
  existsb (fun l => (fst l =? u) && snd l) (h_links c).
Definition mon_outlink_hops (c : hcase) : bool :=
  forallb (fun o =>
    if dc_enabled (h_cfg c) && matches c (fst o) then snd o =? 0
    else (h_hops c <? max_hops (h_cfg c)) && (snd o =? h_hops c + 1)) (h_out c).
Definition mon_children_inherit (c : hcase) : bool :=
  forallb (fun k => fst k =? h_hops c) (h_kids c).
Definition mon_redirect_limit (c : hcase) : bool :=
  negb (is_redirect (h_status c)) ||
  forallb (fun k => (snd k =? h_redirs c + 1) && (snd k <=? h_maxredir c)) (h_kids c).
Definition mon_via (c : hcase) : bool := h_via_bad c =? 0.
Definition mons (l : list hcase) := mon_idx [mon_outlink_hops; mon_children_inherit; mon_redirect_limit; mon_via] l.
