(* Executable tests of the statements of PassSpec.v on generated (cfg, oracle list) inputs.
   Only [Example ... vm_compute] checks; nothing here is used by the proofs. *)
From ZenoV Require Import Tree.Item Tree.ItemSpec Tree.TreeHarness Stage.Pass Stage.PassSpec.
Open Scope N_scope.

(* ---- deterministic pseudo-random oracles ---- *)
Definition mix (a b c : N) : N :=
  let x := (a * 2654435761 + b * 40503 + c * 9973 + 12345) mod 4294967296 in
  let y := (x * 1103515245 + 12345) mod 4294967296 in
  (y / 65536 + x / 7) mod 1000003.

Definition gen_resp (s id : N) (U : N) : option resp :=
  let k := mix s id 1 in
  if k mod 17 =? 0 then None
  else
    let redirect := (mix s id 2) mod 3 =? 0 in
    let loc := (mix s id 3) mod U in
    let ok := negb ((mix s id 4) mod 9 =? 0) in
    let html := (mix s id 5) mod 5 =? 0 in
    let na := (mix s id 6) mod 7 in
    let assets := map (fun j => (mix s id (10 + j)) mod U) (firstn (N.to_nat na) [0;1;2;3;4]) in
    Some (Resp redirect loc ok html assets).

Definition gen_oracle (s : N) (U : N) : oracle :=
  Oracle
    (fun id => let k := (mix s id 20) mod 29 in
               if k =? 0 then PNormFail
               else POk ((mix s id 21) mod U) (k =? 1) (k =? 2))
    (fun id => (mix s id 22) mod 13 =? 0)
    (fun id => (mix s id 23) mod 19 =? 0)
    (fun id => gen_resp s id U).

Definition gen_oracles (s U : N) (n : nat) : list oracle :=
  map (fun k => gen_oracle (s * 101 + N.of_nat k) U) (seq 0 n).

(* ---- boolean versions of the invariants ---- *)
Definition level_okb (t : item) : bool :=
  let D := max_depth t in
  forallb (fun lvl =>
    forallb (fun n => if Nat.eqb lvl D then status_eqb (st_of n) Fresh
                      else negb (pending_st (st_of n))) (nodes_at lvl t)) (seq 0 (S D)).

Definition inv_code (t : item) (next : N) : nat :=
  if negb (nodupN (ids t)) then 1
  else if negb (forallb (fun i => i <? next) (ids t)) then 2
  else if negb (Nat.eqb (check_consistency t) 0) then 3
  else if negb (level_okb t) then 4
  else if negb (closed t) then 5
  else if negb (has_work t) then 6
  else if negb (nodupN (worked_urls t)) then 7
  else 0%nat.

(* candidate repairs *)
Fixpoint redir_ok2 (c : cfg) (par : option info) (t : item) : bool :=
  match t with
  | Node i cs =>
    (nredir i <=? max_redirect c)
    && match par with
       | None => nredir i =? 0
       | Some p => match nst p with
                   | GotRedirected => nredir i =? nredir p + 1
                   | GotChildren => nredir i =? 0
                   | _ => (nredir i =? 0) || (nredir i =? nredir p + 1)
                   end
       end
    && forallb (redir_ok2 c (Some i)) cs
  end.
(* asset depth, structural: number of asset edges (child with nredir = 0) from the seed *)
Fixpoint adepth_ok (bound : nat) (ad : nat) (t : item) : bool :=
  match t with
  | Node i cs => Nat.leb ad bound
                 && forallb (fun k => adepth_ok bound (if nredir (inf k) =? 0 then S ad else ad) k) cs
  end.
Fixpoint live_depth_ok (d : nat) (t : item) : bool :=
  match t with
  | Node i cs => (negb (has_work_st (nst i)) || Nat.leb d 4)
                 && forallb (fun k => live_depth_ok (dwr_child d k) k) cs
  end.
Definition mode := 2%nat.
Definition invb_code (c : cfg) (t : item) (next : N) : nat :=
  if Nat.eqb mode 0 && negb (redir_ok c 0 t) then 8
  else if Nat.eqb mode 1 && negb (domains_crawl c) && negb (depth_ok t) then 9
  else if negb (redir_ok2 c None t) then 10
  else if negb (domains_crawl c) && negb (adepth_ok 3 0 t) then 11
  else if negb (domains_crawl c) && negb (live_depth_ok (dwr_seed t) t) then 12
  else 0%nat.

(* run, checking the statements pass by pass; result: (pass index, failure code) or None *)
Fixpoint run_check (c : cfg) (k : nat) (os : list oracle) (st : item * N) : option (nat * nat) :=
  match os with
  | [] => None
  | o :: r =>
    match pass c o st with
    | Panic w => Some (k, 100 + w)%nat
    | Ok (t, next, DFinish) =>
      if negb (no_pending t) then Some (k, 20%nat)
      else if negb (Nat.eqb (check_consistency t) 0) then Some (k, 21%nat)
      else if negb (nodupN (ids t)) then Some (k, 22%nat)
      else None
    | Ok (t, next, DFeedback) =>
      match inv_code t next with
      | O => if negb (Nat.eqb (max_depth t) (S (max_depth (fst st)))) then Some (k, 30%nat)
             else if negb (snd st <=? next) then Some (k, 31%nat)
             else match invb_code c t next with
                  | O => run_check c (S k) r (t, next)
                  | e => Some (k, e)
                  end
      | e => Some (k, e)
      end
    end
  end.

Definition cfgs : list cfg :=
  [Cfg 0 false false; Cfg 1 false false; Cfg 2 false false; Cfg 3 false true;
   Cfg 1 true false; Cfg 2 true true; Cfg 20 false false].

Definition failures (seeds : list nat) (U : N) (n : nat) : list (nat * nat * (nat * nat)) :=
  flat_map (fun s =>
    flat_map (fun ci =>
      match nth_error cfgs ci with
      | None => []
      | Some c => match run_check c 0 (gen_oracles (N.of_nat s) U n) (seed0 7 0) with
                  | None => []
                  | Some e => [(s, ci, e)]
                  end
      end) (seq 0 (length cfgs))) seeds.


Fixpoint run_len (c : cfg) (os : list oracle) (st : item * N) : nat * nat :=
  match os with
  | [] => (0, size (fst st))%nat
  | o :: r => match pass c o st with
              | Ok (t, next, DFeedback) => let '(a, b) := run_len c r (t, next) in (S a, b)
              | Ok (t, _, DFinish) => (1%nat, size t)
              | Panic _ => (99%nat, 0%nat)
              end
  end.




(* adversarial chain: redirect whenever allowed, else one new asset *)
Definition adv_oracle (mr : N) (k : N) : oracle :=
  Oracle (fun id => POk (1000 + id) false false) (fun _ => false) (fun _ => false)
         (fun id => Some (Resp (k mod (mr + 1) <? mr) (100 + k) true false [200 + k])).
Definition adv_oracles (mr : N) (n : nat) := map (fun k => adv_oracle mr (N.of_nat k)) (seq 0 n).
Eval vm_compute in (map (fun mr => run_len (Cfg mr false false) (adv_oracles mr 60) (seed0 7 0)) [0;1;2;3;5]).

(* (e): URLs fetched by non-seed nodes over the whole life *)
Definition fetched (t : item) : list (N * N) :=
  map (fun n => (id_of n, url_of n)) (filter (fun n => status_eqb (st_of n) PreProcessed) (nonseed_nodes t)).
Fixpoint run_fetched (c : cfg) (os : list oracle) (st : item * N) : list (N * N) :=
  match os with
  | [] => []
  | o :: r =>
    match pre_worker o (fst st) with
    | Ok t1 => fetched t1 ++ match pass c o st with
                             | Ok (t, next, DFeedback) => run_fetched c r (t, next)
                             | _ => []
                             end
    | Panic _ => []
    end
  end.
Definition fetch_fail (seeds : list nat) (U : N) (n : nat) :=
  flat_map (fun s => flat_map (fun c =>
     let f := run_fetched c (gen_oracles (N.of_nat s) U n) (seed0 7 0) in
     if nodupN (map fst f) && nodupN (map snd f) then [] else [(s, length f)]) cfgs) seeds.
Eval vm_compute in (fetch_fail (seq 0 300) 12 16).
Eval vm_compute in (fetch_fail (seq 500 150) 5 14).
Eval vm_compute in (map (fun s => length (run_fetched (Cfg 2 false false) (gen_oracles (N.of_nat s) 12 16) (seed0 7 0))) (seq 0 40)).
