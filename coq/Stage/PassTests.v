(* Executable tests of the statements of PassSpec.v on generated (cfg, oracle list) inputs: the
   statements were tested this way BEFORE they were proved (that is how the first formulation of
   the C06 invariants, [redir_ok_orig] / [depth_ok_orig], was found to be false - see the failure
   codes 8 and 9 below).  Only [Example ... vm_compute] checks; nothing here is used by the proofs. *)
From ZenoV Require Import Tree.Item Tree.ItemSpec Stage.Pass Stage.PassSpec Stage.PassClosed.
Open Scope N_scope.

(* ---- deterministic pseudo-random oracles ---- *)
Definition mix (a b c : N) : N :=
  let x := (a * 2654435761 + b * 40503 + c * 9973 + 12345) mod 4294967296 in
  let y := (x * 1103515245 + 12345) mod 4294967296 in
  (y / 65536 + x / 7) mod 1000003.

Definition gen_resp (s id : N) (U : N) : option resp :=
  let k := mix s id 1 in
  if k mod 17 =? 0 then None
  else
    let redirect := (mix s id 2) mod 3 =? 0 in
    let loc := (mix s id 3) mod U in
    let ok := negb ((mix s id 4) mod 9 =? 0) in
    let html := (mix s id 5) mod 5 =? 0 in
    let na := (mix s id 6) mod 7 in
    let assets := map (fun j => (mix s id (10 + j)) mod U) (firstn (N.to_nat na) [0;1;2;3;4]) in
    Some (Resp redirect loc ok html assets).

Definition gen_oracle (s : N) (U : N) : oracle :=
  Oracle
    (fun id => let k := (mix s id 20) mod 29 in
               if k =? 0 then PNormFail
               else POk ((mix s id 21) mod U) (k =? 1) (k =? 2))
    (fun id => (mix s id 22) mod 13 =? 0)
    (fun id => (mix s id 23) mod 19 =? 0)
    (fun id => gen_resp s id U).

Definition gen_oracles (s U : N) (n : nat) : list oracle :=
  map (fun k => gen_oracle (s * 101 + N.of_nat k) U) (seq 0 n).

(* ---- the statements, evaluated pass by pass; result: (pass index, failure code) or None ---- *)
Definition inv_code (c : cfg) (t : item) (next : N) : nat :=
  if negb (invb t next) then 1
  else if negb (redir_ok c None t) then 10
  else if negb (domains_crawl c) && negb (adepth_ok 3 0 t) then 11
  else if negb (domains_crawl c) && negb (pending_depth_ok (dwr_seed t) t) then 12
  else 0%nat.

Fixpoint run_check (c : cfg) (k : nat) (os : list oracle) (st : item * N) : option (nat * nat) :=
  match os with
  | [] => None
  | o :: r =>
    match pass c o st with
    | Panic w => Some (k, 100 + w)%nat
    | Ok (t, next, DFinish) =>
      if negb (no_pending t) then Some (k, 20%nat)
      else if negb (Nat.eqb (check_consistency t) 0) then Some (k, 21%nat)
      else if negb (nodupb (ids t)) then Some (k, 22%nat)
      else None
    | Ok (t, next, DFeedback) =>
      match inv_code c t next with
      | O => if negb (Nat.eqb (max_depth t) (S (max_depth (fst st)))) then Some (k, 30%nat)
             else if negb (snd st <=? next) then Some (k, 31%nat)
             else run_check c (S k) r (t, next)
      | e => Some (k, e)
      end
    end
  end.

(* the first formulation: codes 8 (redirect counters) and 9 (status-based depth of every node) *)
Fixpoint run_check_orig (depth : bool) (c : cfg) (k : nat) (os : list oracle) (st : item * N) : option (nat * nat) :=
  match os with
  | [] => None
  | o :: r =>
    match pass c o st with
    | Ok (t, next, DFeedback) =>
      if negb depth && negb (redir_ok_orig c 0 t) then Some (k, 8%nat)
      else if depth && negb (domains_crawl c) && negb (depth_ok_orig t) then Some (k, 9%nat)
      else run_check_orig depth c (S k) r (t, next)
    | _ => None
    end
  end.

Definition cfgs : list cfg :=
  [Cfg 0 false false; Cfg 1 false false; Cfg 2 false false; Cfg 3 false true;
   Cfg 1 true false; Cfg 2 true true; Cfg 20 false false].

Definition failures (chk : cfg -> nat -> list oracle -> item * N -> option (nat * nat))
           (seeds : list nat) (U : N) (n : nat) : list (nat * nat * (nat * nat)) :=
  flat_map (fun s =>
    flat_map (fun ci =>
      match nth_error cfgs ci with
      | None => []
      | Some c => match chk c 0%nat (gen_oracles (N.of_nat s) U n) (seed0 7 0) with
                  | None => []
                  | Some e => [(s, ci, e)]
                  end
      end) (seq 0 (length cfgs))) seeds.

(* boundary trees: well-formed, counters bounded, pending depth bounded *)
Definition boundary_fail (seeds : list nat) (U : N) (n : nat) : list (nat * nat) :=
  flat_map (fun s => flat_map (fun ci =>
    match nth_error cfgs ci with
    | None => []
    | Some c =>
      if forallb (fun x => nodupb (ids x) && Nat.eqb (check_consistency x) 0 && redir_ok c None x
                           && (domains_crawl c || pending_depth_ok (dwr_seed x) x))
                 (run_trees c (gen_oracles (N.of_nat s) U n) (seed0 7 0))
      then [] else [(s, ci)]
    end) (seq 0 (length cfgs))) seeds.

Definition fetch_fail (seeds : list nat) (U : N) (n : nat) : list (nat * nat) :=
  flat_map (fun s => flat_map (fun c =>
     let f := run_fetched c (gen_oracles (N.of_nat s) U n) (seed0 7 0) in
     if nodupb (map fst f) && nodupb (map snd f) then [] else [(s, length f)]) cfgs) seeds.

(* the generated runs are not trivial: number of passes and final tree size of a sample *)
Fixpoint run_len (c : cfg) (os : list oracle) (st : item * N) : nat * nat :=
  match os with
  | [] => (0, size (fst st))%nat
  | o :: r => match pass c o st with
              | Ok (t, next, DFeedback) => let '(a, b) := run_len c r (t, next) in (S a, b)
              | Ok (t, _, DFinish) => (1%nat, size t)
              | Panic _ => (99%nat, 0%nat)
              end
  end.

Example sample_is_nontrivial :
  let l := map (fun s => run_len (Cfg 2 true false) (gen_oracles (N.of_nat s) 40 10) (seed0 7 0)) (seq 0 30) in
  (10 <= length (filter (fun x => Nat.leb 5 (fst x) && Nat.leb 12 (snd x)) l))%nat.
Proof. vm_compute. repeat constructor. Qed.

Example statements_hold_on_samples :
  failures run_check (seq 0 12) 12 16 = [] /\ failures run_check (seq 345 6) 40 12 = []
  /\ failures run_check (seq 500 12) 5 14 = [].
Proof. vm_compute. repeat split. Qed.

Example boundaries_hold_on_samples : boundary_fail (seq 0 10) 12 14 = [] /\ boundary_fail (seq 348 4) 40 12 = [].
Proof. vm_compute. split; reflexivity. Qed.

Example fetch_once_holds_on_samples : fetch_fail (seq 0 12) 12 16 = [] /\ fetch_fail (seq 500 12) 5 14 = [].
Proof. vm_compute. split; reflexivity. Qed.

(* the first formulation fails on the same samples *)
Example first_formulation_fails_on_samples :
  (1 <= length (failures (run_check_orig false) (seq 0 4) 12 16))%nat
  /\ (1 <= length (failures (run_check_orig true) (seq 350 1) 40 14))%nat.
Proof. vm_compute. split; repeat constructor. Qed.
