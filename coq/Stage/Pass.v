(* The four stages as functions over one seed's tree (shared by C01, C05, C06, C08, C11, C16).
   Everything the outside world decides enters through an [oracle] (the label of the pass):
   what normalisation/scope filtering says about each URL, what the seen-store says, whether a
   request could be built, what the server answered.  [Panic] stands for every panic(...) of the
   real workers.  Transcribed from
     internal/pkg/preprocessor/preprocessor.go  (worker, preprocess)
     internal/pkg/archiver/archiver.go          (worker, archive: final outcome of the retry loop)
     internal/pkg/postprocessor/{postprocessor,item}.go (worker, postprocess, postprocessItem)
     internal/pkg/finisher/finisher.go          (worker: decision block). *)
From ZenoV Require Export Tree.Item.
Open Scope N_scope.

Record cfg := Cfg {
  max_redirect : N;
  domains_crawl : bool;     (* domainscrawl.Enabled() *)
  disable_assets : bool     (* --disable-assets-capture *)
}.

(* what came back for a fetched URL, as far as the tree is concerned *)
Record resp := Resp {
  r_redirect : bool;        (* isStatusCodeRedirect(status) *)
  r_loc : N;                (* Location header (interned raw text) *)
  r_ok200 : bool;
  r_html : bool;            (* MIME type contains "html" *)
  r_assets : list N         (* what extractAssets returns (raw texts), body present *)
}.

Inductive pre_ans :=
| PNormFail                                   (* NormalizeURL error *)
| POk (url' : N) (excluded empty_path : bool). (* canonical URL; fails include / matches exclude; path "" or "/" *)

Record oracle := Oracle {
  o_pre : N -> pre_ans;       (* by node id *)
  o_seen : N -> bool;         (* the seen-store marks this node as seen *)
  o_reqfail : N -> bool;      (* http.NewRequest failed *)
  o_fetch : N -> option resp  (* None: retries exhausted / body processing failed => ItemFailed *)
}.

Inductive result (A : Type) := Ok (a : A) | Panic (why : nat).
Arguments Ok {A} a.
Arguments Panic {A} why.

(* panic codes *)
Definition P_CONSISTENCY := 1%nat.
Definition P_NONFRESH := 2%nat.     (* non-fresh item at the working depth in preprocess *)
Definition P_SEEDSTATUS := 3%nat.   (* preprocessor received a Failed/Completed seed *)

(* nodes at a level together with their parent's status (None: the seed itself) *)
Fixpoint level_par (lvl : nat) (par : option item) (t : item) : list (item * option item) :=
  match lvl with
  | O => [(t, par)]
  | S l => match t with Node _ cs => flat_map (level_par l (Some t)) cs end
  end.

Definition set_url_of (id u : N) (t : item) : item :=
  update id (fun n => match n with Node i cs => Node (set_url u i) cs end) t.

(* ---- preprocess ------------------------------------------------------------------- *)
(* first loop; [inl t] = `return` inside the loop, [inr t] = loop finished *)
Fixpoint pre_loop (o : oracle) (items : list (item * option item)) (t : item) : result (item + item) :=
  match items with
  | [] => Ok (inr t)
  | (n, par) :: r =>
    if negb (status_eqb (st_of n) Fresh) then Panic P_NONFRESH else
    let id := id_of n in
    match par with
    | None =>
      match o_pre o id with
      | PNormFail => Ok (inl (set_status id Failed t))
      | POk u ex _ =>
        let t1 := set_url_of id u t in
        if ex then Ok (inl (set_status id Completed t1)) else pre_loop o r t1
      end
    | Some p =>
      match o_pre o id with
      | PNormFail => pre_loop o r (remove_child (id_of p) id t)
      | POk u ex ep =>
        let t1 := set_url_of id u t in
        if ex then
          if is_got (st_of p) then pre_loop o r (remove_child (id_of p) id t1)
          else Ok (inl (set_status id Completed t1))
        else if status_eqb (st_of p) GotChildren && ep then pre_loop o r (remove_child (id_of p) id t1)
        else pre_loop o r t1
      end
    end
  end.

Definition mark_seen (o : oracle) (items : list item) (t : item) : item :=
  fold_left (fun t n => if o_seen o (id_of n) then set_status (id_of n) Seen t else t) items t.

Definition build_requests (o : oracle) (items : list item) (t : item) : item :=
  fold_left (fun t n => set_status (id_of n) (if o_reqfail o (id_of n) then Failed else PreProcessed) t) items t.

Definition is_fresh (n : item) : bool := status_eqb (st_of n) Fresh.

Definition preprocess (o : oracle) (t : item) : result item :=
  let d := max_depth t in
  match pre_loop o (level_par d None t) t with
  | Panic w => Panic w
  | Ok (inl t') => Ok t'
  | Ok (inr t1) =>
    let t2 := dedupe t1 in
    match nodes_at d t2 with
    | [] => Ok (set_status (id_of t2) Completed t2)
    | items =>
      let t3 := mark_seen o items t2 in
      match filter is_fresh (nodes_at d t3) with
      | [] => Ok (set_status (id_of t3) Completed t3)
      | todo => Ok (build_requests o todo t3)
      end
    end
  end.

Definition pre_worker (o : oracle) (t : item) : result item :=
  if negb (Nat.eqb (check_consistency t) 0) then Panic P_CONSISTENCY
  else if status_eqb (st_of t) Failed || status_eqb (st_of t) Completed then Panic P_SEEDSTATUS
  else preprocess o t.

(* ---- archive ---------------------------------------------------------------------- *)
Definition archive (o : oracle) (t : item) : item :=
  fold_left (fun t n =>
    if status_eqb (st_of n) PreProcessed
    then set_status (id_of n) (match o_fetch o (id_of n) with Some _ => Archived | None => Failed end) t
    else t) (nodes_at (max_depth t) t) t.

Definition arch_worker (o : oracle) (t : item) : result item :=
  if negb (Nat.eqb (check_consistency t) 0) then Panic P_CONSISTENCY
  else match st_of t with
       | PreProcessed | GotRedirected | GotChildren => Ok (archive o t)
       | _ => Ok t
       end.

(* ---- postprocess ------------------------------------------------------------------ *)
Definition lookupN (id : N) (l : list (N * nat)) : nat :=
  match assoc id l with Some d => d | None => 0%nat end.

(* add the assets as fresh children, ids from [next] upwards *)
Fixpoint add_assets (pid hops : N) (urls : list N) (t : item) (next : N) : item * N :=
  match urls with
  | [] => (t, next)
  | u :: r =>
    match add_child pid (new_child next u hops 0 false) GotChildren t with
    | Some t' => add_assets pid hops r t' (next + 1)
    | None => (t, next)
    end
  end.

(* postprocessItem on node [n] (snapshot taken before the loop); [dwr1] = its depth without
   redirections + 1 *)
Definition post_item (c : cfg) (o : oracle) (dwr1 : nat) (n : item) (st : item * N) : item * N :=
  let '(t, next) := st in
  let id := id_of n in
  if negb (status_eqb (st_of n) Archived) then (t, next) else
  match o_fetch o id with
  | None => (t, next)                       (* not reachable: Archived implies a response *)
  | Some r =>
    if r_redirect r then
      if max_redirect c <=? nredir (inf n) then (set_status id Completed t, next)
      else match add_child id (new_child next (r_loc r) (nhops (inf n)) (nredir (inf n) + 1) false) GotRedirected t with
           | Some t' => (t', next + 1)
           | None => (t, next)
           end
    else if negb (domains_crawl c) && Nat.ltb 3 dwr1 then (set_status id Completed t, next)
    else if negb (domains_crawl c) && Nat.eqb dwr1 2 && r_html r then (set_status id Completed t, next)
    else if disable_assets c && negb (domains_crawl c) then (set_status id Completed t, next)
    else
      let assets := if r_ok200 r && negb (disable_assets c) then r_assets r else [] in
      match assets with
      | [] => (set_status id Completed t, next)
      | _ => add_assets id (nhops (inf n)) assets t next
      end
  end.

Definition postprocess (c : cfg) (o : oracle) (t : item) (next : N) : item * N :=
  let dw := dwr_all t in
  fold_left (fun st n =>
               (* the node's own status is Archived here, so its value is parent's + 1;
                  dwr_all was computed on the snapshot where it is Archived too *)
               post_item c o (lookupN (id_of n) dw) n st)
            (nodes_at (max_depth t) t) (t, next).

Definition post_worker (c : cfg) (o : oracle) (t : item) (next : N) : result (item * N) :=
  if negb (Nat.eqb (check_consistency t) 0) then Panic P_CONSISTENCY
  else match st_of t with
       | Archived | GotRedirected | GotChildren => Ok (postprocess c o t next)
       | _ => Ok (t, next)
       end.

(* ---- finisher --------------------------------------------------------------------- *)
Inductive decision := DFeedback | DFinish.

Definition fin_worker (t : item) : result (item * decision) :=
  if negb (Nat.eqb (check_consistency t) 0) then Panic P_CONSISTENCY
  else let '(t', b) := complete_and_check t in Ok (t', if b then DFinish else DFeedback).

(* ---- one pass of the pipeline over one seed ---------------------------------------- *)
Definition pass (c : cfg) (o : oracle) (st : item * N) : result (item * N * decision) :=
  let '(t, next) := st in
  match pre_worker o t with
  | Panic w => Panic w
  | Ok t1 =>
    match arch_worker o t1 with
    | Panic w => Panic w
    | Ok t2 =>
      match post_worker c o t2 next with
      | Panic w => Panic w
      | Ok (t3, next') =>
        match fin_worker t3 with
        | Panic w => Panic w
        | Ok (t4, d) => Ok (t4, next', d)
        end
      end
    end
  end.

(* a seed's whole life: passes until the finisher says Finish (or the oracle list runs out) *)
Fixpoint run_passes (c : cfg) (os : list oracle) (st : item * N) : result (item * N * decision) :=
  match os with
  | [] => Ok (fst st, snd st, DFeedback)
  | o :: r =>
    match pass c o st with
    | Panic w => Panic w
    | Ok (t, next, DFinish) => Ok (t, next, DFinish)
    | Ok (t, next, DFeedback) => run_passes c r (t, next)
    end
  end.

Definition seed0 (u hops : N) : item * N := (Node (Info 0 u Fresh false hops 0) [], 1).
