(* The hop rules of internal/pkg/postprocessor/{item.go (outlink block of postprocessItem),
   outlinks.go (shouldExtractOutlinks, extractOutlinks), assets.go (hops of assets and of the
   outlinks found among assets)}.  What the extractors return is an input: a list of
   (interned URL, does it match --domains-crawl?) pairs. *)
From Coq Require Export List NArith Bool Lia.
Export ListNotations.
Open Scope N_scope.

Record ocfg := OCfg { max_hops : N; dc_enabled : bool }.

Definition should_extract_outlinks (c : ocfg) (hops : N) (has_body : bool) : bool :=
  (dc_enabled c && has_body) || ((hops <? max_hops c) && has_body).

(* one extracted link -> the queued outlink (url, hops), or nothing *)
Definition outlink_of (c : ocfg) (hops : N) (l : N * bool) : option (N * N) :=
  let '(u, m) := l in
  if dc_enabled c && m then Some (u, 0)
  else if dc_enabled c && negb m && (max_hops c <=? hops) then None
  else Some (u, hops + 1).

Fixpoint filter_map {A B} (f : A -> option B) (l : list A) : list B :=
  match l with
  | [] => []
  | x :: r => match f x with Some y => y :: filter_map f r | None => filter_map f r end
  end.

Definition outlinks_of (c : ocfg) (hops : N) (ok200 has_body : bool) (links : list (N * bool)) : list (N * N) :=
  if ok200 && should_extract_outlinks c hops has_body then filter_map (outlink_of c hops) links else [].

(* assets and redirect targets inherit the page's hops (assets.go line "asset.SetHops(item hops)",
   item.go "Hops: item.GetURL().GetHops()") *)
Definition asset_hops (page_hops : N) : N := page_hops.
Definition redirect_hops (page_hops : N) : N := page_hops.

Lemma in_filter_map {A B} (f : A -> option B) l y : In y (filter_map f l) <-> exists x, In x l /\ f x = Some y.
Proof.
  induction l as [|a r IH]; simpl.
  - split; [tauto|intros (x & [] & _)].
  - destruct (f a) eqn:E; simpl; rewrite IH; split.
    + intros [<-|(x & H & F)]; [exists a; auto|exists x; auto].
    + intros (x & [<-|H] & F); [left; congruence|right; eauto].
    + intros (x & H & F). exists x; auto.
    + intros (x & [<-|H] & F); [congruence|eauto].
Qed.

(* The hop rules of C06, for every configuration, page and extractor output *)
Theorem outlink_hops_lemma : forall c hops ok200 has_body links u h,
  In (u, h) (outlinks_of c hops ok200 has_body links) ->
  exists m, In (u, m) links
    /\ ((dc_enabled c = true /\ m = true /\ h = 0)
        \/ ((dc_enabled c = false \/ m = false) /\ hops < max_hops c /\ h = hops + 1)).
Proof.
  intros c hops ok200 has_body links u h H. unfold outlinks_of in H.
  destruct (ok200 && should_extract_outlinks c hops has_body) eqn:E; [|destruct H].
  apply in_filter_map in H. destruct H as ([u' m] & Hin & F). exists m.
  apply andb_prop in E as [_ E]. unfold should_extract_outlinks in E.
  unfold outlink_of in F.
  destruct (dc_enabled c) eqn:D; simpl in *.
  - destruct m; simpl in *.
    + inversion F; subst. split; [exact Hin|]. left. auto.
    + destruct (max_hops c <=? hops) eqn:L; [discriminate|]. inversion F; subst.
      apply N.leb_gt in L. split; [exact Hin|]. right. repeat split; auto.
  - inversion F; subst. split; [exact Hin|]. right. apply andb_prop in E as [E _].
    apply N.ltb_lt in E. repeat split; auto.
Qed.

(* nothing is lost either: a link that the rules admit is queued *)
Theorem outlink_complete_lemma : forall c hops links u m,
  In (u, m) links ->
  (dc_enabled c = true /\ m = true -> In (u, 0) (outlinks_of c hops true true links))
  /\ ((dc_enabled c = false \/ m = false) -> hops < max_hops c -> In (u, hops + 1) (outlinks_of c hops true true links)).
Proof.
  intros c hops links u m Hin. split.
  - intros [D M]. unfold outlinks_of, should_extract_outlinks. rewrite D. simpl.
    apply in_filter_map. exists (u, m). split; auto. unfold outlink_of. rewrite D, M. reflexivity.
  - intros HD HL. unfold outlinks_of, should_extract_outlinks.
    apply N.ltb_lt in HL. rewrite HL. simpl. rewrite orb_true_r.
    apply in_filter_map. exists (u, m). split; auto. unfold outlink_of.
    apply N.ltb_lt in HL. assert (L : (max_hops c <=? hops) = false) by (apply N.leb_gt; exact HL).
    destruct HD as [D|M]; [rewrite D; reflexivity|rewrite M, L]. destruct (dc_enabled c); reflexivity.
Qed.

Example outlinks_example :
  outlinks_of (OCfg 2 true) 2 true true [(10, true); (11, false)] = [(10, 0)]
  /\ outlinks_of (OCfg 2 true) 1 true true [(10, true); (11, false)] = [(10, 0); (11, 2)]
  /\ outlinks_of (OCfg 2 false) 1 true true [(10, true); (11, false)] = [(10, 2); (11, 2)]
  /\ outlinks_of (OCfg 2 false) 2 true true [(10, true); (11, false)] = [].
Proof. repeat split; reflexivity. Qed.
