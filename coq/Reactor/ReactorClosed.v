(* C12 - proofs about the reactor model (Reactor.v): a frozen / stopping reactor accepts nothing; the original code. *)
From Coq Require Import Lia.
From ZenoV Require Import Reactor.ReactorBase.

(* ------------------------------------------------------------------ frozen / stopped: nothing is accepted *)

(* the reactor is frozen (or stopping) and no call in progress has passed its test of ctx/freezeCtx *)
Definition Closed (s : state) : Prop := frozen s = true /\ sumw w_past (calls s) = 0.

Lemma closed_step : forall s l s', Closed s -> step fixed s l = Some s' ->
  Closed s'
  /\ (forall j, In j (table s') -> In j (table s))
  /\ sent s' = sent s
  /\ (rets s' = rets s \/ exists x, rets s' = x :: rets s /\ accepting x = false).
Proof.
  intros s l s' [F P] H. step_cases2 H; unf; unfold Closed; simpl in *;
    pose_sums w_past; simpl in *;
    try match goal with Hf : frozen _ = false |- _ => congruence end;
    try match goal with b : bool |- _ => destruct b end; simpl in *;
    try (exfalso; lia);
    (split; [split; [assumption || reflexivity | lia] |]);
    (split; [intros j Hj; try assumption; try (eapply In_rem1; eassumption); fail |]);
    (split; [reflexivity |]); auto; right; eexists; split; reflexivity.
Qed.

Lemma closed_lemma : forall ls s s', Closed s -> run fixed s ls = Some s' ->
  Closed s'
  /\ (forall j, In j (table s') -> In j (table s))
  /\ sent s' = sent s
  /\ exists new, rets s' = new ++ rets s /\ Forall (fun x => accepting x = false) new.
Proof.
  induction ls as [|l r IH]; simpl; intros s s' C H.
  - inversion H; subst. split; [exact C|]. split; [auto|]. split; [reflexivity|].
    exists []. split; [reflexivity | constructor].
  - destruct (step fixed s l) as [s1|] eqn:E; [|discriminate].
    destruct (closed_step _ _ _ C E) as [C1 [T1 [S1 R1]]].
    destruct (IH _ _ C1 H) as [C2 [T2 [S2 [new [R2 F2]]]]].
    split; [exact C2|]. split; [auto|]. split; [congruence|].
    destruct R1 as [R1|[x [R1 A1]]].
    + exists new. split; [congruence | exact F2].
    + exists (new ++ [x]). split.
      * rewrite R2, R1, <- app_assoc. reflexivity.
      * apply Forall_app. split; [exact F2 | constructor; [exact A1 | constructor]].
Qed.

(* Once Freeze() (or the cancel() of Stop()) has happened with no call past its test, whatever
   follows: no seed is added to the state table, nothing is sent to the input channel, and no
   insert and no feedback returns nil. *)
Lemma closed_accepts_nothing_lemma : forall s0 l ls s1 s2,
  l = Freeze \/ l = StopCancel ->
  nilled s0 = false -> sumw w_past (calls s0) = 0 ->
  step fixed s0 l = Some s1 -> run fixed s1 ls = Some s2 ->
  (forall j, In j (table s2) -> In j (table s0))
  /\ sent s2 = sent s0
  /\ exists new, rets s2 = new ++ rets s0 /\ Forall (fun x => accepting x = false) new.
Proof.
  intros s0 l ls s1 s2 L N P H R.
  assert (C : Closed s1 /\ table s1 = table s0 /\ sent s1 = sent s0 /\ rets s1 = rets s0).
  { destruct L; subst l; unfold step in H; destruct (crashed s0); try discriminate;
      rewrite N in H; inversion H; subst; unfold Closed; unf; simpl; auto. }
  destruct C as [C [T [S X]]].
  destruct (closed_lemma _ _ _ C R) as [_ [T2 [S2 [new [R2 F2]]]]].
  split; [intros j Hj; rewrite <- T; auto|]. split; [congruence|].
  exists new. split; [congruence | exact F2].
Qed.

(* after Stop() has completed every call reports "not initialized" and changes nothing *)
Lemma stopped_lemma : forall v s o, crashed s = false -> nilled s = true ->
  step v s (match o with OIns i => InsCall i | OFb i => FbCall i | OFin i => FinCall i end)
  = Some (ret o RNotInit s).
Proof. intros v s o Hc Hn. destruct o; unfold step; rewrite Hc, Hn; reflexivity. Qed.

(* ------------------------------------------------------------------ the original code *)

(* ReceiveFeedback before the fix: feedback for a seed the reactor does not track is "rejected"
   and yet leaves the seed in the state table with no token; a finish of that seed then waits
   for a token that nobody holds. *)
Lemma unknown_feedback_orig_refuted :
  exists ls s s2,
    run original (init 1 1) ls = Some s
    /\ crashed s = false /\ calls s = [] /\ rets s = [(OFb 7, RNotPresent)]
    /\ table s = [7] /\ tokens s = 0
    /\ run original s [FinCall 7; FinDelete 7] = Some s2
    /\ calls s2 = [PFinRel 7] /\ step original s2 (FinRelease 7) = None.
Proof.
  exists [FbCall 7; FbSwap 7]. eexists. eexists. vm_compute. repeat split; reflexivity.
Qed.

(* ReceiveInsert / ReceiveFeedback before the fix: with the reactor frozen and no call in
   progress, an insert (and a feedback) issued afterwards is accepted *)
Lemma frozen_accepts_orig_refuted :
  exists s0 ls s2,
    run original (init 2 1) [InsCall 1; InsSelect 1 ArmChan; InsStore 1; InsSend 1; RunRecv; RunHand] = Some s0
    /\ calls s0 = [] /\ nilled s0 = false
    /\ run original s0 (Freeze :: ls) = Some s2
    /\ frozen s2 = true
    /\ rets s2 = [(OFb 1, ROk); (OIns 2, ROk)] ++ rets s0
    /\ table s2 = [2; 1] /\ sent s2 = sent s0 ++ [2; 1].
Proof.
  eexists. exists [InsCall 2; InsSelect 2 ArmChan; InsStore 2; InsSend 2; FbCall 1; FbSwap 1; FbSelect 1 ArmChan].
  eexists. vm_compute. repeat split; reflexivity.
Qed.


(* A seeded mutation of the first fix: Load() then a plain Store() instead of the CompareAndSwap
   loop.  A finish of the same seed between the Load and the Store (a badly behaved client) has its
   delete undone: the seed is tracked again, with its token already given back.  On the same
   schedule the code as committed finds the entry gone, loads again and rejects the feedback. *)
Definition ls_race : list label :=
  [InsCall 1; InsSelect 1 ArmChan; InsCheck 1 ArmChan; InsStore 1; InsSend 1; RunRecv; RunHand;
   FbCall 1; FbLoad 1; FinCall 1; FinDelete 1; FinRelease 1; FbCas 1].

Lemma feedback_loadstore_refuted :
  exists s s',
    run loadstore (init 2 1) (ls_race ++ [FbCheck 1 ArmChan; FbSelect 1 ArmChan]) = Some s
    /\ crashed s = false /\ calls s = []
    /\ rets s = [(OFb 1, ROk); (OFin 1, ROk); (OIns 1, ROk)]
    /\ table s = [1] /\ tokens s = 0
    /\ run fixed (init 2 1) (ls_race ++ [FbLoad 1]) = Some s'
    /\ calls s' = [] /\ rets s' = [(OFb 1, RNotPresent); (OFin 1, ROk); (OIns 1, ROk)]
    /\ table s' = [] /\ tokens s' = 0.
Proof. eexists. eexists. vm_compute. repeat split; reflexivity. Qed.
