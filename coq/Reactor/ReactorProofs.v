(* C12 - proofs about the reactor model (Reactor.v): the lemmas behind the property theorems.
   ReactorBase: list helpers, run, tactics.  ReactorAcc / ReactorLedger / ReactorFifo / ReactorWf /
   ReactorClosed: one-step invariants (separate files so that they build in parallel). *)
From Coq Require Import Lia.
From ZenoV Require Export Reactor.ReactorBase Reactor.ReactorAcc Reactor.ReactorLedger Reactor.ReactorFifo
  Reactor.ReactorWf Reactor.ReactorClosed.

(* ------------------------------------------------------------------ theorems over all label sequences *)

Lemma accounting_lemma : forall v n m ls s, v_fb_fix v = true ->
  run v (init n m) ls = Some s -> crashed s = false ->
  tokens s = length (table s) + sumw w_trans (calls s)
  /\ length (table s) <= tokens s <= n
  /\ NoDup (table s)
  /\ (calls s = [] -> tokens s = length (table s)).
Proof.
  intros v n m ls s Hv H Hc.
  assert (A : Acc s).
  { eapply run_inv; [| apply (acc_init n m) | exact H]. intros. eapply acc_step; eauto. }
  assert (C : cap s = n).
  { eapply (run_inv v (fun s => cap s = n)); [| | exact H]; [|reflexivity].
    intros s0 l s1 E0 E1. apply cap_step in E1. destruct E1. congruence. }
  assert (D : NoDup (table s)).
  { eapply (run_inv v (fun s => NoDup (table s))); [| | exact H]; [|constructor].
    intros. eapply nodup_step; eauto. }
  destruct (A Hc) as [A1 A2]. split; [exact A1|]. split; [lia|]. split; [exact D|].
  intro E. rewrite E in A1. simpl in A1. lia.
Qed.

Lemma ledger_lemma : forall v n m ls s, v_fb_fix v = true ->
  run v (init n m) ls = Some s -> crashed s = false ->
  (forall j, cnt j (table s) + cntret (OFin j) ROk (rets s) + sumw (w_rel_id j) (calls s)
             = cntret (OIns j) ROk (rets s) + sumw (w_send_id j) (calls s))
  /\ (calls s = [] -> forall j, cnt j (table s) + cntret (OFin j) ROk (rets s) = cntret (OIns j) ROk (rets s)).
Proof.
  intros v n m ls s Hv H Hc.
  assert (A : Ledger s).
  { eapply run_inv; [| apply (ledger_init n m) | exact H]. intros. eapply ledger_step; eauto. }
  split; [exact (A Hc)|]. intros E j. pose proof (A Hc j) as Aj. rewrite E in Aj. simpl in Aj. lia.
Qed.

Lemma fifo_lemma : forall v n m ls s, run v (init n m) ls = Some s ->
  consumed s ++ outq s ++ hand_list s ++ input s = rev (omap send_ok (rets s)).
Proof.
  intros v n m ls s H.
  assert (A : sent s = flow s).
  { eapply (run_inv v (fun s => sent s = flow s)); [| | exact H]; [|reflexivity].
    intros. eapply fifo_step; eauto. }
  assert (B : sent s = rev (omap send_ok (rets s))).
  { eapply (run_inv v (fun s => sent s = rev (omap send_ok (rets s)))); [| | exact H]; [|reflexivity].
    intros. eapply sent_rets_step; eauto. }
  unfold flow in A. congruence.
Qed.

(* ------------------------------------------------------------------ feedback: no token, never blocks *)

Lemma fb_no_token_lemma : forall v s l s',
  step v s l = Some s' -> fb_step l = true \/ (exists i, l = FbSwap i) -> tokens s' = tokens s.
Proof.
  intros v s l s' H F. step_cases H; destruct F as [F|[k F]]; simpl in F; try discriminate F;
    unf; simpl; reflexivity.
Qed.

Lemma winv_runw : forall n m ls s, runw fixed (init n m) ls = Some s -> WInv s.
Proof.
  intros n m ls s H. eapply runw_inv; [| apply (winv_init n m) | exact H].
  intros. eapply winv_step; eauto.
Qed.

Lemma winv_room : forall s p, WInv s -> In p (calls s) -> w_loc p = 1 -> length (input s) < cap s.
Proof.
  intros s p W Hin Hp. pose proof (sumw_In_le w_loc p (calls s) Hin).
  pose proof (w_len s W). pose proof (w_acc1 s W). pose proof (w_acc2 s W). lia.
Qed.

Lemma winv_alive : forall s p, WInv s -> In p (calls s) -> nilled s = false.
Proof.
  intros s p W Hin. destruct (nilled s) eqn:E; [|reflexivity].
  rewrite (w_nil s W E) in Hin. destruct Hin.
Qed.

Lemma never_blocks_lemma : forall n m ls s i, runw fixed (init n m) ls = Some s ->
  (In (PFbSel i) (calls s) -> length (input s) < cap s /\ exists s', step fixed s (FbSelect i ArmChan) = Some s')
  /\ (In (PInsSend i) (calls s) -> length (input s) < cap s /\ exists s', step fixed s (InsSend i) = Some s').
Proof.
  intros n m ls s i H. pose proof (winv_runw _ _ _ _ H) as W. split; intro Hin.
  - assert (L : length (input s) < cap s) by (eapply winv_room; eauto).
    split; [exact L|]. unfold step. rewrite (w_crash s W). unfold at_pc.
    rewrite (proj2 (memb_pc_In _ _) Hin), (winv_alive _ _ W Hin).
    apply Nat.ltb_lt in L. rewrite L. eauto.
  - assert (L : length (input s) < cap s) by (eapply winv_room; eauto).
    split; [exact L|]. unfold step. rewrite (w_crash s W). unfold at_pc.
    rewrite (proj2 (memb_pc_In _ _) Hin), (winv_alive _ _ W Hin).
    apply Nat.ltb_lt in L. rewrite L. eauto.
Qed.

(* The input channel has room for every token holder, for every token count: the calls that carry a
   tracked seed towards the input channel (an insert that has stored, a feedback, ...) plus the items
   already buffered there never exceed the tracked seeds, hence the tokens in use, hence n - which IS
   the capacity of the input channel ([cap] is the one capacity of the model). *)
Lemma input_has_room_lemma : forall n m ls s, runw fixed (init n m) ls = Some s ->
  cap s = n
  /\ sumw w_loc (calls s) + length (input s) <= length (table s)
  /\ length (table s) <= tokens s /\ tokens s <= cap s.
Proof.
  intros n m ls s H. pose proof (winv_runw _ _ _ _ H) as W.
  assert (C : cap s = n).
  { apply runw_run in H. eapply (run_inv fixed (fun s => cap s = n)); [| | exact H]; [|reflexivity].
    intros s0 l s1 E0 E1. apply cap_step in E1. destruct E1. congruence. }
  pose proof (w_len s W). pose proof (w_acc1 s W). pose proof (w_acc2 s W).
  split; [exact C|]. unfold id in *. lia.
Qed.

(* a well-formed client never makes the reactor panic *)
Lemma wf_no_crash_lemma : forall n m ls s, runw fixed (init n m) ls = Some s -> crashed s = false.
Proof. intros. eapply w_crash, winv_runw; eauto. Qed.

(* ------------------------------------------------------------------ rejected calls change nothing *)

Lemma reject_pure_lemma : forall v s l s' o r, v_fb_fix v = true -> step v s l = Some s' ->
  rets s' = (o, r) :: rets s -> r = RNotPresent \/ r = RNotFound \/ r = RNotInit ->
  observe s' = observe s.
Proof.
  intros v s l s' o r Hv H R D. use_fb_fix Hv H. step_cases H; unf; simpl in *;
    try (rewrite Hv in *; try discriminate);
    try (symmetry in R; apply cons_neq in R; destruct R);
    try match goal with b : bool |- _ => destruct b end;
    inversion R; subst; destruct D as [D|[D|D]]; try discriminate D; reflexivity.
Qed.

Lemma unknown_feedback_lemma : forall s i,
  crashed s = false -> nilled s = false -> ~ In i (table s) ->
  exists s', run fixed s [FbCall i; FbLoad i] = Some s'
             /\ rets s' = (OFb i, RNotPresent) :: rets s
             /\ observe s' = observe s /\ calls s' = calls s.
Proof.
  intros s i Hc Hn Ht. apply memb_nat_notIn in Ht.
  unfold run, step. rewrite Hc, Hn. simpl. rewrite Hc. unfold at_pc. simpl.
  rewrite Nat.eqb_refl, Hn. simpl. unfold tracked. simpl. rewrite Ht.
  eexists. split; [reflexivity|]. unfold observe. simpl. rewrite Nat.eqb_refl, Hc. auto.
Qed.

Lemma repeated_finish_lemma : forall v n m ls s i, v_fb_fix v = true ->
  run v (init n m) ls = Some s -> crashed s = false -> nilled s = false -> In i (table s) ->
  exists s1 s2,
    run v s [FinCall i; FinDelete i; FinRelease i] = Some s1
    /\ rets s1 = (OFin i, ROk) :: rets s /\ S (tokens s1) = tokens s /\ ~ In i (table s1)
    /\ run v s1 [FinCall i; FinDelete i] = Some s2
    /\ rets s2 = (OFin i, RNotFound) :: rets s1 /\ observe s2 = observe s1 /\ calls s2 = calls s1.
Proof.
  intros v n m ls s i Hv H Hc Hn Ht.
  destruct (accounting_lemma v n m ls s Hv H Hc) as [_ [[A _] [D _]]].
  assert (T : 0 < tokens s).
  { pose proof (length_rem1 i (table s) Ht). unfold id in *. lia. }
  assert (N : ~ In i (rem1 Nat.eqb i (table s))).
  { intro X. apply cnt_pos_In in X. pose proof (cnt_rem1 i i (table s) Ht) as Y.
    rewrite Nat.eqb_refl in Y.
    assert (cnt i (table s) <= 1).
    { clear -D. induction (table s) as [|x r IH]; simpl; [lia|]. inversion D; subst.
      destruct (x =? i) eqn:E; [apply Nat.eqb_eq in E; subst|auto].
      apply cnt_zero_notIn in H1. lia. }
    lia. }
  pose proof Ht as Ht'. apply memb_nat_In in Ht'. pose proof N as N'. apply memb_nat_notIn in N'.
  apply Nat.ltb_lt in T.
  unfold run, step. rewrite Hc, Hn. simpl. rewrite Hc. unfold at_pc. simpl.
  rewrite Nat.eqb_refl, Hn. simpl. unfold tracked. simpl. rewrite Ht'. simpl. rewrite Hc. simpl.
  rewrite Nat.eqb_refl, Hn. simpl. rewrite T. simpl.
  eexists. eexists. split; [reflexivity|]. simpl.
  split; [reflexivity|]. split; [apply Nat.ltb_lt in T; lia|]. split; [exact N|].
  rewrite Hc, Hn. simpl. rewrite Hc, Nat.eqb_refl, Hn. simpl. rewrite N'.
  split; [reflexivity|]. simpl. rewrite Nat.eqb_refl. unfold observe. simpl. auto.
Qed.

(* ------------------------------------------------------------------ progress *)

(* every step of a call in progress, of run() or of a consumer uses up the measure: with a
   well-formed client every execution of internal steps is finite *)
Lemma measure_step : forall s l s', WInv s -> internal l = true -> step fixed s l = Some s' ->
  measure s' < measure s.
Proof.
  intros s l s' W I H. unfold measure, sys_measure, hand_list.
  step_cases2 H; try discriminate I; try (absurd_branch W); unf; simpl;
    pose_sums w_measure;
    repeat match goal with E : hand s = _ |- _ => rewrite E in *; clear E
                         | E : input s = _ |- _ => rewrite E in *; clear E
                         | E : outq s = _ |- _ => rewrite E in *; clear E end;
    rewrite ?app_length in *; simpl in *; lia.
Qed.

Lemma measure_run : forall ls s s', WInv s -> forallb internal ls = true ->
  run fixed s ls = Some s' -> measure s' + length ls <= measure s.
Proof.
  induction ls as [|l r IH]; simpl; intros s s' W A H.
  - inversion H; subst. lia.
  - apply andb_true_iff in A. destruct A as [A1 A2].
    destruct (step fixed s l) as [s1|] eqn:E; [|discriminate].
    pose proof (measure_step _ _ _ W A1 E).
    assert (W1 : WInv s1).
    { eapply winv_step; eauto. destruct l; simpl in A1; try discriminate; reflexivity. }
    specialize (IH _ _ W1 A2 H). lia.
Qed.

(* what moves the system on without a new insert / feedback: a step of a call in progress, of
   run(), of a consumer, or the client finishing a seed it holds *)
Definition progress_label (l : label) : bool :=
  internal l || match l with FinCall _ => true | _ => false end.

Definition w_nonsel (p : pc) : nat := match p with PInsSel _ => 0 | _ => 1 end.

Lemma at_pc_In : forall p s, In p (calls s) -> at_pc p s = true.
Proof. intros. unfold at_pc. apply memb_pc_In. assumption. Qed.

Ltac enabled W Hin :=
  unfold step; rewrite (w_crash _ W), (at_pc_In _ _ Hin), ?(winv_alive _ _ W Hin).

Lemma closed_test_total : forall s, exists a x, closed_test s a = Some x.
Proof.
  intro s. destruct (cancelled s) eqn:C.
  - exists ArmCtx. simpl. rewrite C. eauto.
  - destruct (frozen s) eqn:F.
    + exists ArmFrozen. simpl. rewrite F. eauto.
    + exists ArmChan. simpl. rewrite F, C. simpl. eauto.
Qed.

(* a call that is not waiting for a token can always take its next step *)
Lemma call_enabled : forall s p, WInv s -> In p (calls s) -> w_nonsel p = 1 ->
  exists l s', call_step l = true /\ step fixed s l = Some s'.
Proof.
  intros s p W Hin Hp.
  assert (T : w_trans p = 1 -> 0 < tokens s).
  { intro X. pose proof (sumw_In_le w_trans p (calls s) Hin). pose proof (w_acc1 s W). lia. }
  assert (R : w_loc p = 1 -> (length (input s) <? cap s) = true).
  { intro X. apply Nat.ltb_lt. eapply winv_room; eauto. }
  destruct p; simpl in Hp; try discriminate Hp.
  - destruct (closed_test_total s) as [a [x C]].
    exists (InsCheck i a). enabled W Hin. rewrite C. destruct x; eauto.
  - exists (InsBack i shut). enabled W Hin. specialize (T eq_refl). apply Nat.ltb_lt in T. rewrite T. eauto.
  - exists (InsStore i). enabled W Hin.
    assert (X : tracked i s = false).
    { unfold tracked. apply memb_nat_notIn. intro Y. apply cnt_pos_In in Y.
      pose proof (sumw_In_le (w_pre_id i) _ _ Hin) as Z. simpl in Z. rewrite Nat.eqb_refl in Z.
      pose proof (w_pre s W i). lia. }
    rewrite X. eauto.
  - exists (InsSend i). enabled W Hin. rewrite (R eq_refl). eauto.
  - exists (FbLoad i). enabled W Hin. destruct (tracked i s); eauto.
  - exists (FbCas i). enabled W Hin. destruct (tracked i s); simpl; eauto.
  - exfalso. pose proof (sumw_In_le w_orig _ _ Hin) as Z. simpl in Z. pose proof (w_noorig s W). lia.
  - destruct (closed_test_total s) as [a [x C]].
    exists (FbCheck i a). enabled W Hin. rewrite C. destruct x; eauto.
  - exists (FbSelect i ArmChan). enabled W Hin. rewrite (R eq_refl). eauto.
  - exists (FinDelete i). enabled W Hin. destruct (tracked i s); eauto.
  - exists (FinRelease i). enabled W Hin. specialize (T eq_refl). apply Nat.ltb_lt in T. rewrite T. eauto.
Qed.

Lemma all_sel : forall l, sumw w_nonsel l = 0 ->
  sumw w_trans l = 0 /\ sumw w_loc l = 0.
Proof.
  induction l as [|p r IH]; simpl; intro H; [auto|].
  destruct p; simpl in *; lia.
Qed.

(* No deadlock: with at least one token configured, whenever a call is in progress something can
   move that does not need a new insert or feedback: a step of a call, of run() or of a consumer,
   or the client finishing a seed it holds. *)
Lemma deadlock_free_lemma : forall s, WInv s -> 1 <= cap s -> calls s <> [] ->
  exists l s', progress_label l = true /\ wf_label s l = true /\ step fixed s l = Some s'.
Proof.
  intros s W Hcap Hne.
  destruct (sumw w_nonsel (calls s)) eqn:NS.
  - (* only inserts waiting in their select *)
    destruct (calls s) as [|p r] eqn:Ec; [congruence|].
    assert (Hin : In p (calls s)) by (rewrite Ec; left; reflexivity).
    assert (Hp : w_nonsel p = 0) by (simpl in NS; lia).
    destruct p; simpl in Hp; try discriminate Hp.
    destruct (cancelled s) eqn:C.
    { exists (InsSelect i ArmCtx). enabled W Hin. rewrite C. eauto. }
    destruct (frozen s) eqn:F.
    { exists (InsSelect i ArmFrozen). enabled W Hin. rewrite F. eauto. }
    destruct (tokens s <? cap s) eqn:T.
    { exists (InsSelect i ArmChan). enabled W Hin. rewrite T. eauto. }
    apply Nat.ltb_ge in T.
    rewrite <- Ec in NS. destruct (all_sel _ NS) as [Z1 Z2].
    pose proof (w_acc1 s W) as A1. pose proof (w_acc2 s W) as A2. pose proof (w_len s W) as L.
    assert (Hrun : running s = true).
    { destruct (running s) eqn:R; [reflexivity|]. pose proof (w_run s W R). congruence. }
    destruct (outq s) as [|o q] eqn:Eo.
    + destruct (hand s) as [h|] eqn:Eh.
      * exists RunHand. unfold step. rewrite (w_crash s W), Hrun, Eh, Eo. eauto.
      * destruct (input s) as [|x xs] eqn:Ei.
        -- destruct (held s) as [|h hs] eqn:Eh2.
           ++ exfalso. unfold hand_list in L. rewrite Eh in L. simpl in L. lia.
           ++ exists (FinCall h). unfold step. rewrite (w_crash s W), (winv_alive _ _ W Hin).
              simpl. rewrite Eh2. simpl. rewrite Nat.eqb_refl. eauto.
        -- exists RunRecv. unfold step. rewrite (w_crash s W), Hrun, Eh, Ei. eauto.
    + exists Consume. unfold step. rewrite (w_crash s W), Eo. eauto.
  - assert (P : 0 < sumw w_nonsel (calls s)) by lia.
    destruct (sumw_pos_In _ _ P) as [p [Hin Hp]].
    assert (Hp1 : w_nonsel p = 1) by (destruct p; simpl in *; lia).
    destruct (call_enabled s p W Hin Hp1) as [l [s' [L E]]].
    exists l, s'. split; [unfold progress_label, internal; rewrite L; reflexivity|].
    split; [destruct l; simpl in L; try discriminate; reflexivity | exact E].
Qed.

(* the two statements over whole executions of reactor + well-formed client *)
Lemma progress_lemma : forall n m ls s, 1 <= n -> runw fixed (init n m) ls = Some s ->
  (calls s <> [] -> exists l s', progress_label l = true /\ wf_label s l = true /\ step fixed s l = Some s')
  /\ (forall ls' s', forallb internal ls' = true -> run fixed s ls' = Some s' ->
        measure s' + length ls' <= measure s).
Proof.
  intros n m ls s Hn H. pose proof (winv_runw _ _ _ _ H) as W.
  assert (C : cap s = n).
  { apply runw_run in H. eapply (run_inv fixed (fun s => cap s = n)); [| | exact H]; [|reflexivity].
    intros s0 l s1 E0 E1. apply cap_step in E1. destruct E1. congruence. }
  split.
  - intro Hne. apply deadlock_free_lemma; auto. lia.
  - intros. eapply measure_run; eauto.
Qed.

(* ------------------------------------------------------------------ non-vacuity *)

(* one accepted insert, delivered through run() and the output buffer to a consumer, fed back;
   a second insert that holds a token and has not stored yet *)
Definition ls_ex : list label :=
  [InsCall 1; InsSelect 1 ArmChan; InsCheck 1 ArmChan; InsStore 1; InsSend 1; RunRecv; RunSend; Consume;
   InsCall 2; InsSelect 2 ArmChan; FbCall 1; FbLoad 1; FbCas 1; FbCheck 1 ArmChan].

(* accounting / never-blocks / ledger: a reachable well-formed state with a transient token and a
   feedback at its select *)
Example ex_reachable : exists s,
  runw fixed (init 3 1) ls_ex = Some s /\ crashed s = false
  /\ tokens s = 2 /\ table s = [1] /\ sumw w_trans (calls s) = 1
  /\ In (PFbSel 1) (calls s) /\ In (PInsChk 2) (calls s) /\ held s = [].
Proof. eexists. vm_compute. repeat split; auto. Qed.

(* ... from which the feedback's send is enabled, and a finish + repeated finish can be run *)
Example ex_finish : exists s,
  run fixed (init 3 1) (ls_ex ++ [FbSelect 1 ArmChan; RunRecv; RunHand]) = Some s
  /\ crashed s = false /\ nilled s = false /\ In 1 (table s) /\ held s = [1].
Proof. eexists. vm_compute. repeat split; auto. Qed.

(* closed reactor: a freeze with no call past its test, followed by an insert that even gets a
   token and by a feedback of a held seed - both are turned away *)
Example ex_closed : exists s0 s1 s2,
  run fixed (init 3 1) [InsCall 1; InsSelect 1 ArmChan; InsCheck 1 ArmChan; InsStore 1; InsSend 1; RunRecv; RunHand] = Some s0
  /\ nilled s0 = false /\ sumw w_past (calls s0) = 0
  /\ step fixed s0 Freeze = Some s1
  /\ run fixed s1 [InsCall 2; InsSelect 2 ArmChan; InsCheck 2 ArmFrozen; InsBack 2 false;
                   FbCall 1; FbLoad 1; FbCas 1; FbCheck 1 ArmFrozen] = Some s2
  /\ rets s2 = [(OFb 1, RFrozen); (OIns 2, RFrozen)] ++ rets s0 /\ tokens s2 = 1 /\ table s2 = [1].
Proof. eexists. eexists. eexists. vm_compute. repeat split; auto. Qed.

(* progress: every token is in use and an insert waits for one; its own select is not enabled,
   the finish of the held seed is *)
Example ex_blocked : exists s,
  runw fixed (init 1 1) [InsCall 1; InsSelect 1 ArmChan; InsCheck 1 ArmChan; InsStore 1; InsSend 1;
                         RunRecv; RunSend; Consume; InsCall 2] = Some s
  /\ calls s = [PInsSel 2] /\ tokens s = cap s /\ held s = [1]
  /\ step fixed s (InsSelect 2 ArmChan) = None /\ step fixed s (InsSelect 2 ArmCtx) = None
  /\ step fixed s (InsSelect 2 ArmFrozen) = None
  /\ wf_label s (FinCall 1) = true /\ step fixed s (FinCall 1) <> None.
Proof. eexists. vm_compute. repeat split; auto; discriminate. Qed.

(* delivery: something in every stage of the pipe *)
Example ex_transit : exists s,
  run fixed (init 3 1) [InsCall 1; InsSelect 1 ArmChan; InsCheck 1 ArmChan; InsStore 1; InsSend 1;
                        InsCall 2; InsSelect 2 ArmChan; InsCheck 2 ArmChan; InsStore 2; InsSend 2;
                        InsCall 3; InsSelect 3 ArmChan; InsCheck 3 ArmChan; InsStore 3; InsSend 3;
                        RunRecv; RunSend; RunRecv] = Some s
  /\ crashed s = false /\ running s = true
  /\ outq s = [1] /\ hand s = Some 2 /\ input s = [3] /\ sys_measure s = 6
  /\ drain_labels s = [Consume; RunHand; RunRecv; RunHand].
Proof. eexists. vm_compute. repeat split; auto. Qed.

(* the client discipline is needed: a client that feeds back a seed it does not hold can fill the
   input channel, and then a feedback does block (one token, nobody reads the output) *)
Example ex_illformed_feedback_blocks : exists s,
  run fixed (init 1 0) [InsCall 1; InsSelect 1 ArmChan; InsCheck 1 ArmChan; InsStore 1; InsSend 1; RunRecv;
                        FbCall 1; FbLoad 1; FbCas 1; FbCheck 1 ArmChan; FbSelect 1 ArmChan;
                        FbCall 1; FbLoad 1; FbCas 1; FbCheck 1 ArmChan] = Some s
  /\ crashed s = false /\ calls s = [PFbSel 1] /\ length (input s) = cap s
  /\ step fixed s (FbSelect 1 ArmChan) = None.
Proof. eexists. vm_compute. repeat split; auto. Qed.

(* a duplicate insert panics with its token taken: what the crashed flag stands for *)
Example ex_duplicate_insert_panics : exists s,
  run fixed (init 2 1) [InsCall 1; InsSelect 1 ArmChan; InsCheck 1 ArmChan; InsStore 1; InsSend 1;
                        InsCall 1; InsSelect 1 ArmChan; InsCheck 1 ArmChan; InsStore 1] = Some s
  /\ crashed s = true /\ rets s = [(OIns 1, RPanic); (OIns 1, ROk)] /\ tokens s = 2 /\ table s = [1].
Proof. eexists. vm_compute. repeat split; auto. Qed.

(* ------------------------------------------------------------------ every accepted seed reaches the output *)

(* From any state the reactor reaches with run() alive: (1) there is a schedule of run() and
   consumer steps after which the consumers have received every seed of every insert / feedback
   that returned nil so far, in the order of those returns; (2) whatever run() and the consumers
   do, nothing in transit is lost or reordered, they can take at most [sys_measure] steps, they
   are never stuck before everything is delivered. *)
Lemma delivery_lemma : forall v n m ls s,
  run v (init n m) ls = Some s -> crashed s = false -> running s = true ->
  (exists s', run v s (drain_labels s) = Some s'
     /\ consumed s' = rev (omap send_ok (rets s')) /\ rets s' = rets s
     /\ outq s' = [] /\ hand s' = None /\ input s' = [])
  /\ (forall ls' s', forallb sys_step ls' = true -> run v s ls' = Some s' ->
        flow s' = rev (omap send_ok (rets s')) /\ rets s' = rets s
        /\ sys_measure s' + length ls' <= sys_measure s
        /\ (sys_measure s' = 0 -> consumed s' = rev (omap send_ok (rets s')))
        /\ (0 < sys_measure s' -> exists l s'', sys_step l = true /\ step v s' l = Some s'')).
Proof.
  intros v n m ls s H Hc Hr. pose proof (fifo_lemma _ _ _ _ _ H) as F. fold (flow s) in F.
  split.
  - destruct (drain_lemma v s Hc Hr) as [s' [R [C [O [Hh I]]]]].
    destruct (sys_run_flags _ _ _ _ (drain_labels_sys s) R) as [_ [_ X]].
    exists s'. rewrite X. repeat split; auto. congruence.
  - intros ls' s' A R.
    destruct (sys_run_lemma _ _ _ _ A R) as [F1 [M1 _]].
    destruct (sys_run_flags _ _ _ _ A R) as [G1 [G2 G3]].
    rewrite G3. split; [congruence|]. split; [reflexivity|]. split; [exact M1|]. split.
    + intro Z. rewrite (sys_done_lemma _ Z). congruence.
    + intro Z. apply sys_enabled_lemma; congruence.
Qed.

