(* C12 - proofs about the reactor model (Reactor.v). *)
From Coq Require Import Lia.
From ZenoV Require Import Reactor.Reactor.

(* ------------------------------------------------------------------ list helpers *)

Lemma res_eqb_eq : forall a b, res_eqb a b = true <-> a = b.
Proof. destruct a, b; simpl; split; intro H; try discriminate; reflexivity. Qed.

Lemma res_eqb_refl : forall a, res_eqb a a = true.
Proof. destruct a; reflexivity. Qed.

Lemma pc_eqb_eq : forall a b, pc_eqb a b = true <-> a = b.
Proof.
  destruct a, b; simpl; rewrite ?andb_true_iff, ?Nat.eqb_eq, ?Bool.eqb_true_iff; split; intro H;
    try discriminate; try (inversion H; subst; auto); try (destruct H; subst; reflexivity).
Qed.

Lemma pc_eqb_refl : forall a, pc_eqb a a = true.
Proof. intro a. apply pc_eqb_eq. reflexivity. Qed.

Lemma memb_pc_In : forall p l, memb pc_eqb p l = true <-> In p l.
Proof.
  induction l as [|q r IH]; simpl.
  - split; [discriminate | tauto].
  - rewrite orb_true_iff, IH, pc_eqb_eq. split; intros [H|H]; auto.
Qed.

Lemma memb_nat_In : forall i l, memb Nat.eqb i l = true <-> In i l.
Proof.
  induction l as [|q r IH]; simpl.
  - split; [discriminate | tauto].
  - rewrite orb_true_iff, IH, Nat.eqb_eq. split; intros [H|H]; auto.
Qed.

Lemma memb_nat_notIn : forall i l, memb Nat.eqb i l = false <-> ~ In i l.
Proof.
  intros i l. rewrite <- memb_nat_In. destruct (memb Nat.eqb i l); split; intro H; congruence.
Qed.

Lemma sumw_rem1 : forall w p l, In p l -> sumw w (rem1 pc_eqb p l) + w p = sumw w l.
Proof.
  induction l as [|q r IH]; simpl; intros H; [tauto|].
  destruct (pc_eqb p q) eqn:E.
  - apply pc_eqb_eq in E. subst. lia.
  - destruct H as [H|H]; [subst; rewrite pc_eqb_refl in E; discriminate|].
    simpl. specialize (IH H). lia.
Qed.

Lemma sumw_pos_In : forall w l, 0 < sumw w l -> exists p, In p l /\ 0 < w p.
Proof.
  induction l as [|q r IH]; simpl; intros H; [lia|].
  destruct (w q) eqn:E.
  - destruct (IH H) as [p [Hp Hw]]. exists p. auto.
  - exists q. split; auto. lia.
Qed.

Lemma sumw_In_le : forall w p l, In p l -> w p <= sumw w l.
Proof.
  induction l as [|q r IH]; simpl; intros H; [tauto|].
  destruct H as [H|H]; [subst; lia|]. specialize (IH H). lia.
Qed.

Lemma sumw_zero : forall w l, sumw w l = 0 -> forall p, In p l -> w p = 0.
Proof. intros w l H p Hin. pose proof (sumw_In_le w p l Hin). lia. Qed.

Lemma cnt_app : forall j a b, cnt j (a ++ b) = cnt j a + cnt j b.
Proof. induction a as [|x r IH]; simpl; intros; [reflexivity|]. rewrite IH. lia. Qed.

Lemma cnt_pos_In : forall j l, 0 < cnt j l <-> In j l.
Proof.
  induction l as [|x r IH]; simpl; [split; [lia|tauto]|].
  destruct (x =? j) eqn:E.
  - apply Nat.eqb_eq in E. subst. split; [auto|lia].
  - apply Nat.eqb_neq in E. rewrite <- IH. split; [intro H; right; lia| intros [H|H]; [congruence|lia]].
Qed.

Lemma cnt_zero_notIn : forall j l, cnt j l = 0 <-> ~ In j l.
Proof. intros j l. rewrite <- cnt_pos_In. lia. Qed.

Lemma cnt_rem1 : forall j i l, In i l ->
  cnt j (rem1 Nat.eqb i l) + (if i =? j then 1 else 0) = cnt j l.
Proof.
  induction l as [|x r IH]; simpl; intros H; [tauto|].
  destruct (i =? x) eqn:E.
  - apply Nat.eqb_eq in E. subst. lia.
  - destruct H as [H|H]; [subst; rewrite Nat.eqb_refl in E; discriminate|].
    simpl. specialize (IH H). lia.
Qed.

Lemma rem1_notIn : forall i l, ~ In i l -> rem1 Nat.eqb i l = l.
Proof.
  induction l as [|x r IH]; simpl; intros H; [reflexivity|].
  destruct (i =? x) eqn:E.
  - apply Nat.eqb_eq in E. subst. tauto.
  - f_equal. apply IH. tauto.
Qed.

Lemma length_rem1 : forall i l, In i l -> S (length (rem1 Nat.eqb i l)) = length l.
Proof.
  induction l as [|x r IH]; simpl; intros H; [tauto|].
  destruct (i =? x) eqn:E; [reflexivity|].
  destruct H as [H|H]; [subst; rewrite Nat.eqb_refl in E; discriminate|].
  simpl. rewrite IH; auto.
Qed.

Lemma In_rem1 : forall j i l, In j (rem1 Nat.eqb i l) -> In j l.
Proof.
  induction l as [|x r IH]; simpl; intros H; [tauto|].
  destruct (i =? x); [right; exact H|]. destruct H as [H|H]; auto.
Qed.

Lemma cnt_le_length : forall j l, cnt j l <= length l.
Proof. induction l as [|x r IH]; simpl; [lia|]. destruct (x =? j); lia. Qed.

Lemma NoDup_cnt : forall l, (forall j, cnt j l <= 1) -> NoDup l.
Proof.
  induction l as [|x r IH]; intros H; constructor.
  - intro Hin. apply cnt_pos_In in Hin. specialize (H x). simpl in H. rewrite Nat.eqb_refl in H. lia.
  - apply IH. intro j. specialize (H j). simpl in H. lia.
Qed.

(* ------------------------------------------------------------------ run *)

Lemma run_app : forall v ls1 ls2 s,
  run v s (ls1 ++ ls2) = match run v s ls1 with Some s' => run v s' ls2 | None => None end.
Proof.
  induction ls1 as [|l r IH]; simpl; intros; [reflexivity|].
  destruct (step v s l); [apply IH | reflexivity].
Qed.

(* an invariant of [step] holds after every label sequence *)
Lemma run_inv : forall v (P : state -> Prop),
  (forall s l s', P s -> step v s l = Some s' -> P s') ->
  forall ls s s', P s -> run v s ls = Some s' -> P s'.
Proof.
  intros v P Hstep. induction ls as [|l r IH]; simpl; intros s s' HP H.
  - inversion H. subst. exact HP.
  - destruct (step v s l) eqn:E; [|discriminate]. eapply IH; [|exact H]. eapply Hstep; eauto.
Qed.

Lemma runw_run : forall v ls s s', runw v s ls = Some s' -> run v s ls = Some s'.
Proof.
  induction ls as [|l r IH]; simpl; intros s s' H; [exact H|].
  destruct (wf_label s l); [|discriminate].
  destruct (step v s l); [apply IH; exact H | discriminate].
Qed.

Lemma runw_inv : forall v (P : state -> Prop),
  (forall s l s', P s -> wf_label s l = true -> step v s l = Some s' -> P s') ->
  forall ls s s', P s -> runw v s ls = Some s' -> P s'.
Proof.
  intros v P Hstep. induction ls as [|l r IH]; simpl; intros s s' HP H.
  - inversion H. subst. exact HP.
  - destruct (wf_label s l) eqn:W; [|discriminate].
    destruct (step v s l) eqn:E; [|discriminate]. eapply IH; [|exact H]. eapply Hstep; eauto.
Qed.

(* ------------------------------------------------------------------ tactics *)

Ltac brk H :=
  repeat match type of H with
  | context [match ?x with _ => _ end] => let E := fresh "E" in destruct x eqn:E; try discriminate H
  end.

Ltac unf := unfold crash, ret, push_input, call_add, call_del, call_mov, give_back, take_from_client,
  with_tokens, with_table, with_input, with_hand, with_outq, with_running, with_frozen, with_cancelled,
  with_nilled, with_crashed, with_calls, with_rets, with_sent, with_consumed, with_held in *.

(* turn boolean facts produced by [brk] into propositions *)
Ltac facts :=
  repeat match goal with
  | H : at_pc _ _ = true |- _ => unfold at_pc in H; apply memb_pc_In in H
  | H : tracked _ _ = true |- _ => unfold tracked in H; apply memb_nat_In in H
  | H : tracked _ _ = false |- _ => unfold tracked in H; apply memb_nat_notIn in H
  | H : (_ <? _) = true |- _ => apply Nat.ltb_lt in H
  | H : (_ <? _) = false |- _ => apply Nat.ltb_ge in H
  | H : (_ && _) = true |- _ => apply andb_true_iff in H; destruct H
  | H : (_ || _) = false |- _ => apply orb_false_iff in H; destruct H
  | H : negb _ = true |- _ => apply negb_true_iff in H
  end.

(* one step, all cases: H : step v s l = Some s' *)
Ltac step_cases H :=
  unfold step, closed_test in H;
  match type of H with (if crashed ?s then _ else _) = _ =>
    let C := fresh "Hnc" in destruct (crashed s) eqn:C; [discriminate H|] end;
  match type of H with match ?l with _ => _ end = _ => destruct l end;
  brk H; inversion H; subst; clear H; facts.

(* ------------------------------------------------------------------ accounting *)

(* tokens in use = tracked seeds + calls that hold a token for a seed that is not in the table
   (inserts between token and store, finishes between delete and release); never more than cap *)
Definition Acc (s : state) : Prop :=
  crashed s = false ->
  tokens s = length (table s) + sumw w_trans (calls s) /\ tokens s <= cap s.

Ltac pose_sums w :=
  repeat match goal with
  | Hin : In ?p (calls ?s) |- _ =>
      lazymatch goal with
      | _ : sumw w (rem1 pc_eqb p (calls s)) + _ = _ |- _ => fail
      | _ => pose proof (sumw_rem1 w p (calls s) Hin)
      end
  end.

Lemma acc_step : forall v s l s', v_fb_fix v = true ->
  Acc s -> step v s l = Some s' -> Acc s'.
Proof.
  intros v s l s' Hv A H. step_cases H; specialize (A Hnc); destruct A as [A1 A2];
    unf; unfold Acc; simpl; intro Hc; try discriminate Hc;
    try (rewrite Hv in *; try discriminate);
    pose_sums w_trans;
    try match goal with
    | Hin : In ?i (table s) |- context [rem1 Nat.eqb ?i (table s)] =>
        pose proof (length_rem1 i (table s) Hin)
    end;
    simpl in *; unfold id in *; try lia.
Qed.

(* ------------------------------------------------------------------ the token ledger *)

Ltac eqbs :=
  repeat match goal with
  | H : (?a =? ?b) = true |- _ => apply Nat.eqb_eq in H; try subst
  | H : (?a =? ?b) = false |- _ => apply Nat.eqb_neq in H
  | |- context [?a =? ?b] => let E := fresh "Eq" in destruct (a =? b) eqn:E
  | H : context [?a =? ?b] |- _ => let E := fresh "Eq" in destruct (a =? b) eqn:E
  end.

(* per seed: entries in the table + finishes that returned nil or are about to = inserts that
   returned nil or are about to *)
Definition Ledger (s : state) : Prop :=
  crashed s = false ->
  forall j, cnt j (table s) + cntret (OFin j) ROk (rets s) + sumw (w_rel_id j) (calls s)
            = cntret (OIns j) ROk (rets s) + sumw (w_send_id j) (calls s).

Lemma ledger_step : forall v s l s', v_fb_fix v = true ->
  Ledger s -> step v s l = Some s' -> Ledger s'.
Proof.
  intros v s l s' Hv A H. step_cases H; specialize (A Hnc);
    unf; unfold Ledger; simpl; intros Hc j; try discriminate Hc; specialize (A j);
    try (rewrite Hv in *; try discriminate);
    pose_sums (w_rel_id j); pose_sums (w_send_id j);
    try match goal with
    | Hin : In ?i (table s) |- context [rem1 Nat.eqb ?i (table s)] =>
        pose proof (cnt_rem1 j i (table s) Hin)
    end;
    try match goal with b : bool |- _ => destruct b end;
    simpl in *; unfold id in *; eqbs; try lia.
Qed.

(* ------------------------------------------------------------------ no seed tracked twice; FIFO *)

Lemma NoDup_rem1 : forall i l, NoDup l -> NoDup (rem1 Nat.eqb i l).
Proof.
  induction l as [|x r IH]; simpl; intros H; [constructor|].
  inversion H; subst. destruct (i =? x); [assumption|].
  constructor; [|apply IH; assumption]. intro Hin. apply In_rem1 in Hin. contradiction.
Qed.

Lemma nodup_step : forall v s l s', v_fb_fix v = true ->
  NoDup (table s) -> step v s l = Some s' -> NoDup (table s').
Proof.
  intros v s l s' Hv A H. step_cases H; unf; simpl; try assumption;
    try (rewrite Hv in *; discriminate).
  - constructor; assumption.
  - apply NoDup_rem1; assumption.
Qed.

(* everything that was sent on the input channel is, in that order: received by the consumers,
   or in the output buffer, or in run()'s hand, or still in the input channel *)
Lemma fifo_step : forall v s l s',
  sent s = flow s -> step v s l = Some s' -> sent s' = flow s'.
Proof.
  intros v s l s' A H. unfold flow, hand_list in *.
  step_cases H; unf; simpl in *; try assumption;
    repeat match goal with E : hand s = _ |- _ => rewrite E in *; clear E
                         | E : input s = _ |- _ => rewrite E in *; clear E
                         | E : outq s = _ |- _ => rewrite E in *; clear E end;
    simpl in *; rewrite ?A; repeat rewrite <- app_assoc; simpl; try reflexivity; try assumption.
Qed.

(* the sends are exactly the inserts and feedbacks that returned nil, in the order of their returns *)
Lemma sent_rets_step : forall v s l s',
  sent s = rev (omap send_ok (rets s)) -> step v s l = Some s' -> sent s' = rev (omap send_ok (rets s')).
Proof.
  intros v s l s' A H.
  step_cases H; unf; simpl in *; try assumption;
    try match goal with b : bool |- _ => destruct b end; simpl; rewrite ?A; try reflexivity; try assumption.
Qed.

(* ------------------------------------------------------------------ well-formed clients *)

(* The invariant of reactor + well-formed client.  Every tracked seed is in exactly one place
   (w_loc1): carried by an insert that has stored it, in the input channel, in run()'s hand, in
   the output buffer, held by the client, or carried by a feedback / an unfinished finish call. *)
Record WInv (s : state) : Prop := {
  w_crash : crashed s = false;
  w_loc1 : forall j, sumw (w_loc_id j) (calls s) + cnt j (input s) + cnt j (hand_list s)
                     + cnt j (outq s) + cnt j (held s) = cnt j (table s);
  w_pre : forall j, sumw (w_pre_id j) (calls s) + cnt j (table s) <= 1;
  w_len : sumw w_loc (calls s) + length (input s) + length (hand_list s)
          + length (outq s) + length (held s) = length (table s);
  w_acc1 : tokens s = length (table s) + sumw w_trans (calls s);
  w_acc2 : tokens s <= cap s;
  w_nil : nilled s = true -> calls s = [];
  w_run : running s = false -> cancelled s = true;
  w_can : cancelled s = true -> frozen s = true;
  w_noorig : sumw w_orig (calls s) = 0 }.

Lemma winv_init : forall n m, WInv (init n m).
Proof. intros n m. constructor; simpl; auto; try discriminate; intros; lia. Qed.

Lemma pre_zero : forall i l, ~ In i (omap ins_pre_id l) -> sumw (w_pre_id i) l = 0.
Proof.
  induction l as [|p r IH]; simpl; intros H; [auto|].
  destruct p; simpl in *; try (apply IH; exact H);
    try (destruct (i0 =? i) eqn:E;
         [apply Nat.eqb_eq in E; subst; exfalso; apply H; left; reflexivity
         | apply IH; intro; apply H; right; assumption]).
Qed.

Ltac facts2 :=
  repeat match goal with
  | H : memb Nat.eqb _ _ = true |- _ => apply memb_nat_In in H
  | H : memb Nat.eqb _ _ = false |- _ => apply memb_nat_notIn in H
  | H : (_ && _) = true |- _ => apply andb_true_iff in H; destruct H
  | H : negb _ = true |- _ => apply negb_true_iff in H
  | H : tracked _ _ = true |- _ => unfold tracked in H; apply memb_nat_In in H
  | H : tracked _ _ = false |- _ => unfold tracked in H; apply memb_nat_notIn in H
  end.

(* branches that a well-formed client never reaches *)
Ltac absurd_branch W :=
  match goal with
  | Hn : nilled ?s = true, Hin : In _ (calls ?s) |- _ =>
      exfalso; rewrite (w_nil _ W Hn) in Hin; exact Hin
  | Hin : In (PInsStore ?i) (calls ?s), Ht : In ?i (table ?s) |- _ =>
      exfalso; apply cnt_pos_In in Ht;
      pose proof (sumw_In_le (w_pre_id i) _ _ Hin) as Hle; simpl in Hle; rewrite Nat.eqb_refl in Hle;
      pose proof (w_pre _ W i); lia
  | Hin : In ?p (calls ?s), Hn : ~ In ?i (table ?s) |- _ =>
      exfalso; apply Hn; apply cnt_pos_In;
      pose proof (sumw_In_le (w_loc_id i) p (calls s) Hin) as Hle; simpl in Hle; rewrite Nat.eqb_refl in Hle;
      pose proof (w_loc1 _ W i); lia
  | Hin : In (PFbSwap ?i) (calls ?s) |- _ =>
      exfalso; pose proof (sumw_In_le w_orig _ _ Hin) as Hle; simpl in Hle; pose proof (w_noorig _ W); lia
  end.

Ltac pose_all j :=
  pose_sums w_loc; pose_sums (w_loc_id j); pose_sums (w_pre_id j); pose_sums w_trans; pose_sums w_orig.

Ltac rem_facts j :=
  repeat match goal with
  | Hin : In ?i (held ?s) |- _ =>
      lazymatch goal with
      | _ : S (length (rem1 Nat.eqb i (held s))) = _ |- _ => fail
      | _ => pose proof (length_rem1 i (held s) Hin); pose proof (cnt_rem1 j i (held s) Hin)
      end
  | Hin : In ?i (table ?s) |- _ =>
      lazymatch goal with
      | _ : S (length (rem1 Nat.eqb i (table s))) = _ |- _ => fail
      | _ => pose proof (length_rem1 i (table s) Hin); pose proof (cnt_rem1 j i (table s) Hin)
      end
  end.

Ltac chan_eqs :=
  unfold hand_list in *;
  repeat match goal with
  | E : hand ?s = _ |- _ => rewrite E in *; clear E
  | E : input ?s = _ |- _ => rewrite E in *; clear E
  | E : outq ?s = _ |- _ => rewrite E in *; clear E
  end.

Lemma winv_step : forall s l s',
  WInv s -> wf_label s l = true -> step fixed s l = Some s' -> WInv s'.
Proof.
  intros s l s' W Hwf H.
  pose proof (w_crash s W) as Wc; pose proof (w_loc1 s W) as W1; pose proof (w_pre s W) as Wp;
    pose proof (w_len s W) as Wl; pose proof (w_acc1 s W) as Wa1; pose proof (w_acc2 s W) as Wa2;
    pose proof (w_nil s W) as Wn; pose proof (w_run s W) as Wr; pose proof (w_can s W) as Wcn;
    pose proof (w_noorig s W) as Wo.
  step_cases H; simpl in Hwf; facts2; try (absurd_branch W).
  all: constructor; unf; simpl; try assumption; try reflexivity.
  all: try match goal with
           | Hp : ~ In ?i (omap ins_pre_id (calls ?s)), Ht : ~ In ?i (table ?s) |- _ =>
               pose proof (pre_zero i _ Hp); apply cnt_zero_notIn in Ht
           end.
  all: try (intro j; specialize (W1 j); specialize (Wp j); pose_all j; rem_facts j; chan_eqs;
            rewrite ?cnt_app, ?app_length in *; simpl in *; unfold id in *; eqbs; lia).
  all: try (pose_all 0; rem_facts 0; chan_eqs; rewrite ?app_length in *; simpl in *; unfold id in *; lia).
  all: try (intros; simpl in *; congruence).
  all: try (intros; simpl in *; auto; fail).
  all: try (intro Hx; exfalso; match goal with Hin : In _ (calls ?s) |- _ => rewrite (Wn Hx) in Hin; exact Hin end).
  all: try (intros _; match goal with Hw : match calls ?s with _ => _ end = true |- _ => destruct (calls s); [reflexivity | discriminate Hw] end).
Qed.

(* ------------------------------------------------------------------ theorems over all label sequences *)

Lemma cap_step : forall v s l s', step v s l = Some s' -> cap s' = cap s /\ ocap s' = ocap s.
Proof. intros v s l s' H. step_cases H; unf; simpl; auto. Qed.

Lemma acc_init : forall n m, Acc (init n m).
Proof. intros n m _. simpl. lia. Qed.

Lemma accounting_lemma : forall v n m ls s, v_fb_fix v = true ->
  run v (init n m) ls = Some s -> crashed s = false ->
  tokens s = length (table s) + sumw w_trans (calls s)
  /\ length (table s) <= tokens s <= n
  /\ NoDup (table s)
  /\ (calls s = [] -> tokens s = length (table s)).
Proof.
  intros v n m ls s Hv H Hc.
  assert (A : Acc s).
  { eapply run_inv; [| apply (acc_init n m) | exact H]. intros. eapply acc_step; eauto. }
  assert (C : cap s = n).
  { eapply (run_inv v (fun s => cap s = n)); [| | exact H]; [|reflexivity].
    intros s0 l s1 E0 E1. apply cap_step in E1. destruct E1. congruence. }
  assert (D : NoDup (table s)).
  { eapply (run_inv v (fun s => NoDup (table s))); [| | exact H]; [|constructor].
    intros. eapply nodup_step; eauto. }
  destruct (A Hc) as [A1 A2]. split; [exact A1|]. split; [lia|]. split; [exact D|].
  intro E. rewrite E in A1. simpl in A1. lia.
Qed.

Lemma ledger_init : forall n m, Ledger (init n m).
Proof. intros n m _ j. reflexivity. Qed.

Lemma ledger_lemma : forall v n m ls s, v_fb_fix v = true ->
  run v (init n m) ls = Some s -> crashed s = false ->
  (forall j, cnt j (table s) + cntret (OFin j) ROk (rets s) + sumw (w_rel_id j) (calls s)
             = cntret (OIns j) ROk (rets s) + sumw (w_send_id j) (calls s))
  /\ (calls s = [] -> forall j, cnt j (table s) + cntret (OFin j) ROk (rets s) = cntret (OIns j) ROk (rets s)).
Proof.
  intros v n m ls s Hv H Hc.
  assert (A : Ledger s).
  { eapply run_inv; [| apply (ledger_init n m) | exact H]. intros. eapply ledger_step; eauto. }
  split; [exact (A Hc)|]. intros E j. pose proof (A Hc j) as Aj. rewrite E in Aj. simpl in Aj. lia.
Qed.

Lemma fifo_lemma : forall v n m ls s, run v (init n m) ls = Some s ->
  consumed s ++ outq s ++ hand_list s ++ input s = rev (omap send_ok (rets s)).
Proof.
  intros v n m ls s H.
  assert (A : sent s = flow s).
  { eapply (run_inv v (fun s => sent s = flow s)); [| | exact H]; [|reflexivity].
    intros. eapply fifo_step; eauto. }
  assert (B : sent s = rev (omap send_ok (rets s))).
  { eapply (run_inv v (fun s => sent s = rev (omap send_ok (rets s)))); [| | exact H]; [|reflexivity].
    intros. eapply sent_rets_step; eauto. }
  unfold flow in A. congruence.
Qed.

(* ------------------------------------------------------------------ feedback: no token, never blocks *)

Lemma fb_no_token_lemma : forall v s l s',
  step v s l = Some s' -> fb_step l = true \/ (exists i, l = FbSwap i) -> tokens s' = tokens s.
Proof.
  intros v s l s' H F. step_cases H; destruct F as [F|[k F]]; simpl in F; try discriminate F;
    unf; simpl; reflexivity.
Qed.

Lemma winv_runw : forall n m ls s, runw fixed (init n m) ls = Some s -> WInv s.
Proof.
  intros n m ls s H. eapply runw_inv; [| apply (winv_init n m) | exact H].
  intros. eapply winv_step; eauto.
Qed.

Lemma winv_room : forall s p, WInv s -> In p (calls s) -> w_loc p = 1 -> length (input s) < cap s.
Proof.
  intros s p W Hin Hp. pose proof (sumw_In_le w_loc p (calls s) Hin).
  pose proof (w_len s W). pose proof (w_acc1 s W). pose proof (w_acc2 s W). lia.
Qed.

Lemma winv_alive : forall s p, WInv s -> In p (calls s) -> nilled s = false.
Proof.
  intros s p W Hin. destruct (nilled s) eqn:E; [|reflexivity].
  rewrite (w_nil s W E) in Hin. destruct Hin.
Qed.

Lemma never_blocks_lemma : forall n m ls s i, runw fixed (init n m) ls = Some s ->
  (In (PFbSel i) (calls s) -> length (input s) < cap s /\ exists s', step fixed s (FbSelect i ArmChan) = Some s')
  /\ (In (PInsSend i) (calls s) -> length (input s) < cap s /\ exists s', step fixed s (InsSend i) = Some s').
Proof.
  intros n m ls s i H. pose proof (winv_runw _ _ _ _ H) as W. split; intro Hin.
  - assert (L : length (input s) < cap s) by (eapply winv_room; eauto).
    split; [exact L|]. unfold step. rewrite (w_crash s W). unfold at_pc.
    rewrite (proj2 (memb_pc_In _ _) Hin), (winv_alive _ _ W Hin).
    apply Nat.ltb_lt in L. rewrite L. eauto.
  - assert (L : length (input s) < cap s) by (eapply winv_room; eauto).
    split; [exact L|]. unfold step. rewrite (w_crash s W). unfold at_pc.
    rewrite (proj2 (memb_pc_In _ _) Hin), (winv_alive _ _ W Hin).
    apply Nat.ltb_lt in L. rewrite L. eauto.
Qed.

(* a well-formed client never makes the reactor panic *)
Lemma wf_no_crash_lemma : forall n m ls s, runw fixed (init n m) ls = Some s -> crashed s = false.
Proof. intros. eapply w_crash, winv_runw; eauto. Qed.

(* ------------------------------------------------------------------ rejected calls change nothing *)

Lemma cons_neq : forall {A} (x : A) l, x :: l <> l.
Proof. intros A x l H. apply (f_equal (@length A)) in H. simpl in H. lia. Qed.

Lemma reject_pure_lemma : forall v s l s' o r, v_fb_fix v = true -> step v s l = Some s' ->
  rets s' = (o, r) :: rets s -> r = RNotPresent \/ r = RNotFound \/ r = RNotInit ->
  observe s' = observe s.
Proof.
  intros v s l s' o r Hv H R D. step_cases H; unf; simpl in *;
    try (rewrite Hv in *; try discriminate);
    try (symmetry in R; apply cons_neq in R; destruct R);
    try match goal with b : bool |- _ => destruct b end;
    inversion R; subst; destruct D as [D|[D|D]]; try discriminate D; reflexivity.
Qed.

Lemma unknown_feedback_lemma : forall s i,
  crashed s = false -> nilled s = false -> ~ In i (table s) ->
  exists s', run fixed s [FbCall i; FbLoad i] = Some s'
             /\ rets s' = (OFb i, RNotPresent) :: rets s
             /\ observe s' = observe s /\ calls s' = calls s.
Proof.
  intros s i Hc Hn Ht. apply memb_nat_notIn in Ht.
  unfold run, step. rewrite Hc, Hn. simpl. rewrite Hc. unfold at_pc. simpl.
  rewrite Nat.eqb_refl, Hn. simpl. unfold tracked. simpl. rewrite Ht.
  eexists. split; [reflexivity|]. unfold observe. simpl. rewrite Nat.eqb_refl, Hc. auto.
Qed.

Lemma repeated_finish_lemma : forall v n m ls s i, v_fb_fix v = true ->
  run v (init n m) ls = Some s -> crashed s = false -> nilled s = false -> In i (table s) ->
  exists s1 s2,
    run v s [FinCall i; FinDelete i; FinRelease i] = Some s1
    /\ rets s1 = (OFin i, ROk) :: rets s /\ S (tokens s1) = tokens s /\ ~ In i (table s1)
    /\ run v s1 [FinCall i; FinDelete i] = Some s2
    /\ rets s2 = (OFin i, RNotFound) :: rets s1 /\ observe s2 = observe s1 /\ calls s2 = calls s1.
Proof.
  intros v n m ls s i Hv H Hc Hn Ht.
  destruct (accounting_lemma v n m ls s Hv H Hc) as [_ [[A _] [D _]]].
  assert (T : 0 < tokens s).
  { pose proof (length_rem1 i (table s) Ht). unfold id in *. lia. }
  assert (N : ~ In i (rem1 Nat.eqb i (table s))).
  { intro X. apply cnt_pos_In in X. pose proof (cnt_rem1 i i (table s) Ht) as Y.
    rewrite Nat.eqb_refl in Y.
    assert (cnt i (table s) <= 1).
    { clear -D. induction (table s) as [|x r IH]; simpl; [lia|]. inversion D; subst.
      destruct (x =? i) eqn:E; [apply Nat.eqb_eq in E; subst|auto].
      apply cnt_zero_notIn in H1. lia. }
    lia. }
  pose proof Ht as Ht'. apply memb_nat_In in Ht'. pose proof N as N'. apply memb_nat_notIn in N'.
  apply Nat.ltb_lt in T.
  unfold run, step. rewrite Hc, Hn. simpl. rewrite Hc. unfold at_pc. simpl.
  rewrite Nat.eqb_refl, Hn. simpl. unfold tracked. simpl. rewrite Ht'. simpl. rewrite Hc. simpl.
  rewrite Nat.eqb_refl, Hn. simpl. rewrite T. simpl.
  eexists. eexists. split; [reflexivity|]. simpl.
  split; [reflexivity|]. split; [apply Nat.ltb_lt in T; lia|]. split; [exact N|].
  rewrite Hc, Hn. simpl. rewrite Hc, Nat.eqb_refl, Hn. simpl. rewrite N'.
  split; [reflexivity|]. simpl. rewrite Nat.eqb_refl. unfold observe. simpl. auto.
Qed.

(* ------------------------------------------------------------------ frozen / stopped: nothing is accepted *)

(* the reactor is frozen (or stopping) and no call in progress has passed its test of ctx/freezeCtx *)
Definition Closed (s : state) : Prop := frozen s = true /\ sumw w_past (calls s) = 0.

Ltac step_cases2 H :=
  step_cases H;
  repeat match goal with
  | E : match ?x with _ => _ end = _ |- _ => destruct x eqn:?; try discriminate E
  end;
  repeat match goal with
  | E : Some _ = Some _ |- _ => inversion E; subst; clear E
  end; facts.

Lemma closed_step : forall s l s', Closed s -> step fixed s l = Some s' ->
  Closed s'
  /\ (forall j, In j (table s') -> In j (table s))
  /\ sent s' = sent s
  /\ (rets s' = rets s \/ exists x, rets s' = x :: rets s /\ accepting x = false).
Proof.
  intros s l s' [F P] H. step_cases2 H; unf; unfold Closed; simpl in *;
    pose_sums w_past; simpl in *;
    try match goal with Hf : frozen _ = false |- _ => congruence end;
    try match goal with b : bool |- _ => destruct b end; simpl in *;
    try (exfalso; lia);
    (split; [split; [assumption || reflexivity | lia] |]);
    (split; [intros j Hj; try assumption; try (eapply In_rem1; eassumption); fail |]);
    (split; [reflexivity |]); auto; right; eexists; split; reflexivity.
Qed.

Lemma closed_lemma : forall ls s s', Closed s -> run fixed s ls = Some s' ->
  Closed s'
  /\ (forall j, In j (table s') -> In j (table s))
  /\ sent s' = sent s
  /\ exists new, rets s' = new ++ rets s /\ Forall (fun x => accepting x = false) new.
Proof.
  induction ls as [|l r IH]; simpl; intros s s' C H.
  - inversion H; subst. split; [exact C|]. split; [auto|]. split; [reflexivity|].
    exists []. split; [reflexivity | constructor].
  - destruct (step fixed s l) as [s1|] eqn:E; [|discriminate].
    destruct (closed_step _ _ _ C E) as [C1 [T1 [S1 R1]]].
    destruct (IH _ _ C1 H) as [C2 [T2 [S2 [new [R2 F2]]]]].
    split; [exact C2|]. split; [auto|]. split; [congruence|].
    destruct R1 as [R1|[x [R1 A1]]].
    + exists new. split; [congruence | exact F2].
    + exists (new ++ [x]). split.
      * rewrite R2, R1, <- app_assoc. reflexivity.
      * apply Forall_app. split; [exact F2 | constructor; [exact A1 | constructor]].
Qed.

(* Once Freeze() (or the cancel() of Stop()) has happened with no call past its test, whatever
   follows: no seed is added to the state table, nothing is sent to the input channel, and no
   insert and no feedback returns nil. *)
Lemma closed_accepts_nothing_lemma : forall s0 l ls s1 s2,
  l = Freeze \/ l = StopCancel ->
  nilled s0 = false -> sumw w_past (calls s0) = 0 ->
  step fixed s0 l = Some s1 -> run fixed s1 ls = Some s2 ->
  (forall j, In j (table s2) -> In j (table s0))
  /\ sent s2 = sent s0
  /\ exists new, rets s2 = new ++ rets s0 /\ Forall (fun x => accepting x = false) new.
Proof.
  intros s0 l ls s1 s2 L N P H R.
  assert (C : Closed s1 /\ table s1 = table s0 /\ sent s1 = sent s0 /\ rets s1 = rets s0).
  { destruct L; subst l; unfold step in H; destruct (crashed s0); try discriminate;
      rewrite N in H; inversion H; subst; unfold Closed; unf; simpl; auto. }
  destruct C as [C [T [S X]]].
  destruct (closed_lemma _ _ _ C R) as [_ [T2 [S2 [new [R2 F2]]]]].
  split; [intros j Hj; rewrite <- T; auto|]. split; [congruence|].
  exists new. split; [congruence | exact F2].
Qed.

(* after Stop() has completed every call reports "not initialized" and changes nothing *)
Lemma stopped_lemma : forall v s o, crashed s = false -> nilled s = true ->
  step v s (match o with OIns i => InsCall i | OFb i => FbCall i | OFin i => FinCall i end)
  = Some (ret o RNotInit s).
Proof. intros v s o Hc Hn. destruct o; unfold step; rewrite Hc, Hn; reflexivity. Qed.

(* ------------------------------------------------------------------ the original code *)

(* ReceiveFeedback before the fix: feedback for a seed the reactor does not track is "rejected"
   and yet leaves the seed in the state table with no token; a finish of that seed then waits
   for a token that nobody holds. *)
Lemma unknown_feedback_orig_refuted :
  exists ls s s2,
    run original (init 1 1) ls = Some s
    /\ crashed s = false /\ calls s = [] /\ rets s = [(OFb 7, RNotPresent)]
    /\ table s = [7] /\ tokens s = 0
    /\ run original s [FinCall 7; FinDelete 7] = Some s2
    /\ calls s2 = [PFinRel 7] /\ step original s2 (FinRelease 7) = None.
Proof.
  exists [FbCall 7; FbSwap 7]. eexists. eexists. vm_compute. repeat split; reflexivity.
Qed.

(* ReceiveInsert / ReceiveFeedback before the fix: with the reactor frozen and no call in
   progress, an insert (and a feedback) issued afterwards is accepted *)
Lemma frozen_accepts_orig_refuted :
  exists s0 ls s2,
    run original (init 2 1) [InsCall 1; InsSelect 1 ArmChan; InsStore 1; InsSend 1; RunRecv; RunHand] = Some s0
    /\ calls s0 = [] /\ nilled s0 = false
    /\ run original s0 (Freeze :: ls) = Some s2
    /\ frozen s2 = true
    /\ rets s2 = [(OFb 1, ROk); (OIns 2, ROk)] ++ rets s0
    /\ table s2 = [2; 1] /\ sent s2 = sent s0 ++ [2; 1].
Proof.
  eexists. exists [InsCall 2; InsSelect 2 ArmChan; InsStore 2; InsSend 2; FbCall 1; FbSwap 1; FbSelect 1 ArmChan].
  eexists. vm_compute. repeat split; reflexivity.
Qed.

(* ------------------------------------------------------------------ delivery *)

(* steps of run() and of the consumers keep everything in transit in order and use up the measure *)
Lemma sys_step_lemma : forall v s l s', sys_step l = true -> step v s l = Some s' ->
  flow s' = flow s /\ sys_measure s' < sys_measure s
  /\ tokens s' = tokens s /\ table s' = table s /\ calls s' = calls s /\ rets s' = rets s.
Proof.
  intros v s l s' L H. unfold flow, sys_measure, hand_list.
  step_cases H; try discriminate L; unf; simpl;
    repeat match goal with E : hand s = _ |- _ => rewrite E in *; clear E
                         | E : input s = _ |- _ => rewrite E in *; clear E
                         | E : outq s = _ |- _ => rewrite E in *; clear E end;
    simpl; rewrite ?app_length; simpl; repeat rewrite <- app_assoc; simpl;
    (split; [reflexivity|]); (split; [lia|]); auto.
Qed.

Lemma sys_enabled_lemma : forall v s, crashed s = false -> running s = true -> 0 < sys_measure s ->
  exists l s', sys_step l = true /\ step v s l = Some s'.
Proof.
  intros v s Hc Hr M. unfold sys_measure, hand_list in M.
  destruct (outq s) as [|o q] eqn:Eo.
  - destruct (hand s) as [h|] eqn:Eh.
    + exists RunHand. unfold step. rewrite Hc, Hr, Eh, Eo. eauto.
    + destruct (input s) as [|x r] eqn:Ei; [simpl in M; lia|].
      exists RunRecv. unfold step. rewrite Hc, Hr, Eh, Ei. eauto.
  - exists Consume. unfold step. rewrite Hc, Eo. eauto.
Qed.

Lemma sys_done_lemma : forall s, sys_measure s = 0 -> consumed s = flow s.
Proof.
  intros s M. unfold sys_measure, flow, hand_list in *.
  destruct (input s); [|simpl in M; lia]. destruct (hand s); [simpl in M; lia|].
  destruct (outq s); [|simpl in M; lia]. simpl. rewrite app_nil_r. reflexivity.
Qed.

(* every sequence of run()/consumer steps is shorter than the measure and loses nothing *)
Lemma sys_run_lemma : forall v ls s s', forallb sys_step ls = true -> run v s ls = Some s' ->
  flow s' = flow s /\ sys_measure s' + length ls <= sys_measure s
  /\ tokens s' = tokens s /\ table s' = table s /\ calls s' = calls s.
Proof.
  induction ls as [|l r IH]; simpl; intros s s' A H.
  - inversion H; subst. repeat split; try reflexivity; try lia.
  - apply andb_true_iff in A. destruct A as [A1 A2].
    destruct (step v s l) as [s1|] eqn:E; [|discriminate].
    destruct (sys_step_lemma _ _ _ _ A1 E) as [F1 [M1 [T1 [B1 [C1 _]]]]].
    destruct (IH _ _ A2 H) as [F2 [M2 [T2 [B2 C2]]]].
    repeat split; try congruence; lia.
Qed.

(* the explicit schedule: with run() alive and a consumer reading, everything in transit is
   delivered, in the order in which it was sent *)
Lemma consume_all : forall v q s, crashed s = false -> outq s = q ->
  exists s', run v s (repeat Consume (length q)) = Some s'
    /\ consumed s' = consumed s ++ q /\ outq s' = [] /\ hand s' = hand s /\ input s' = input s
    /\ crashed s' = false /\ running s' = running s.
Proof.
  induction q as [|x q IH]; intros s Hc Ho; simpl.
  - exists s. rewrite app_nil_r. repeat split; auto.
  - unfold step at 1. rewrite Hc, Ho.
    match goal with |- context [run v ?s1 _] => destruct (IH s1) as [s' [R [C [O [Hh [I [Cr Ru]]]]]]] end;
      [exact Hc | reflexivity |].
    exists s'. split; [exact R|]. simpl in *. rewrite C, <- app_assoc. repeat split; auto.
Qed.

Lemma drain_input_all : forall v q s, crashed s = false -> running s = true ->
  input s = q -> hand s = None -> outq s = [] ->
  exists s', run v s (drain_input (length q)) = Some s'
    /\ consumed s' = consumed s ++ q /\ outq s' = [] /\ hand s' = None /\ input s' = [].
Proof.
  induction q as [|x q IH]; intros s Hc Hr Hi Hh Ho; simpl.
  - exists s. rewrite app_nil_r. repeat split; auto.
  - unfold step at 1. rewrite Hc, Hr, Hh, Hi.
    unfold step at 1. simpl. rewrite Hc, Hr, Ho.
    match goal with |- context [run v ?s1 _] => destruct (IH s1) as [s' [R [C [O [H1 I]]]]] end;
      try reflexivity; try assumption.
    exists s'. split; [exact R|]. simpl in *. rewrite C, <- app_assoc. repeat split; auto.
Qed.

Lemma drain_rest : forall v s, crashed s = false -> running s = true -> outq s = [] ->
  exists s', run v s ((match hand s with Some _ => [RunHand] | None => [] end)
                      ++ drain_input (length (input s))) = Some s'
    /\ consumed s' = consumed s ++ hand_list s ++ input s
    /\ outq s' = [] /\ hand s' = None /\ input s' = [].
Proof.
  intros v s Hc Hr Ho. unfold hand_list. destruct (hand s) as [h|] eqn:Eh.
  - simpl. unfold step at 1. rewrite Hc, Hr, Eh, Ho.
    match goal with |- context [run v ?s2 _] =>
      destruct (drain_input_all v (input s) s2) as [s' [R [C [O [H2 I]]]]] end;
      try reflexivity; try assumption.
    simpl in R. exists s'. split; [exact R|]. simpl in C. rewrite C.
    repeat rewrite <- app_assoc. repeat split; auto.
  - simpl. destruct (drain_input_all v (input s) s Hc Hr eq_refl Eh Ho) as [s' [R [C [O [H2 I]]]]].
    exists s'. split; [exact R|]. rewrite C. repeat split; auto.
Qed.

Lemma drain_lemma : forall v s, crashed s = false -> running s = true ->
  exists s', run v s (drain_labels s) = Some s'
    /\ consumed s' = flow s /\ outq s' = [] /\ hand s' = None /\ input s' = [].
Proof.
  intros v s Hc Hr. unfold drain_labels, flow.
  destruct (consume_all v (outq s) s Hc eq_refl) as [s1 [R1 [C1 [O1 [H1 [I1 [Cr1 Ru1]]]]]]].
  rewrite Hr in Ru1.
  destruct (drain_rest v s1 Cr1 Ru1 O1) as [s' [R [C [O [H2 I]]]]].
  unfold hand_list in *. rewrite H1, I1 in *.
  exists s'. rewrite run_app, R1. split; [exact R|]. rewrite C, C1.
  repeat rewrite <- app_assoc. repeat split; auto.
Qed.

(* ------------------------------------------------------------------ progress *)

(* every step of a call in progress, of run() or of a consumer uses up the measure: with a
   well-formed client every execution of internal steps is finite *)
Lemma measure_step : forall s l s', WInv s -> internal l = true -> step fixed s l = Some s' ->
  measure s' < measure s.
Proof.
  intros s l s' W I H. unfold measure, sys_measure, hand_list.
  step_cases2 H; try discriminate I; try (absurd_branch W); unf; simpl;
    pose_sums w_measure;
    repeat match goal with E : hand s = _ |- _ => rewrite E in *; clear E
                         | E : input s = _ |- _ => rewrite E in *; clear E
                         | E : outq s = _ |- _ => rewrite E in *; clear E end;
    rewrite ?app_length in *; simpl in *; lia.
Qed.

Lemma measure_run : forall ls s s', WInv s -> forallb internal ls = true ->
  run fixed s ls = Some s' -> measure s' + length ls <= measure s.
Proof.
  induction ls as [|l r IH]; simpl; intros s s' W A H.
  - inversion H; subst. lia.
  - apply andb_true_iff in A. destruct A as [A1 A2].
    destruct (step fixed s l) as [s1|] eqn:E; [|discriminate].
    pose proof (measure_step _ _ _ W A1 E).
    assert (W1 : WInv s1).
    { eapply winv_step; eauto. destruct l; simpl in A1; try discriminate; reflexivity. }
    specialize (IH _ _ W1 A2 H). lia.
Qed.

(* what moves the system on without a new insert / feedback: a step of a call in progress, of
   run(), of a consumer, or the client finishing a seed it holds *)
Definition progress_label (l : label) : bool :=
  internal l || match l with FinCall _ => true | _ => false end.

Definition w_nonsel (p : pc) : nat := match p with PInsSel _ => 0 | _ => 1 end.

Lemma at_pc_In : forall p s, In p (calls s) -> at_pc p s = true.
Proof. intros. unfold at_pc. apply memb_pc_In. assumption. Qed.

Ltac enabled W Hin :=
  unfold step; rewrite (w_crash _ W), (at_pc_In _ _ Hin), ?(winv_alive _ _ W Hin).

Lemma closed_test_total : forall s, exists a x, closed_test s a = Some x.
Proof.
  intro s. destruct (cancelled s) eqn:C.
  - exists ArmCtx. simpl. rewrite C. eauto.
  - destruct (frozen s) eqn:F.
    + exists ArmFrozen. simpl. rewrite F. eauto.
    + exists ArmChan. simpl. rewrite F, C. simpl. eauto.
Qed.

(* a call that is not waiting for a token can always take its next step *)
Lemma call_enabled : forall s p, WInv s -> In p (calls s) -> w_nonsel p = 1 ->
  exists l s', call_step l = true /\ step fixed s l = Some s'.
Proof.
  intros s p W Hin Hp.
  assert (T : w_trans p = 1 -> 0 < tokens s).
  { intro X. pose proof (sumw_In_le w_trans p (calls s) Hin). pose proof (w_acc1 s W). lia. }
  assert (R : w_loc p = 1 -> (length (input s) <? cap s) = true).
  { intro X. apply Nat.ltb_lt. eapply winv_room; eauto. }
  destruct p; simpl in Hp; try discriminate Hp.
  - destruct (closed_test_total s) as [a [x C]].
    exists (InsCheck i a). enabled W Hin. rewrite C. destruct x; eauto.
  - exists (InsBack i shut). enabled W Hin. specialize (T eq_refl). apply Nat.ltb_lt in T. rewrite T. eauto.
  - exists (InsStore i). enabled W Hin.
    assert (X : tracked i s = false).
    { unfold tracked. apply memb_nat_notIn. intro Y. apply cnt_pos_In in Y.
      pose proof (sumw_In_le (w_pre_id i) _ _ Hin) as Z. simpl in Z. rewrite Nat.eqb_refl in Z.
      pose proof (w_pre s W i). lia. }
    rewrite X. eauto.
  - exists (InsSend i). enabled W Hin. rewrite (R eq_refl). eauto.
  - exists (FbLoad i). enabled W Hin. destruct (tracked i s); eauto.
  - exists (FbCas i). enabled W Hin. destruct (tracked i s); eauto.
  - exfalso. pose proof (sumw_In_le w_orig _ _ Hin) as Z. simpl in Z. pose proof (w_noorig s W). lia.
  - destruct (closed_test_total s) as [a [x C]].
    exists (FbCheck i a). enabled W Hin. rewrite C. destruct x; eauto.
  - exists (FbSelect i ArmChan). enabled W Hin. rewrite (R eq_refl). eauto.
  - exists (FinDelete i). enabled W Hin. destruct (tracked i s); eauto.
  - exists (FinRelease i). enabled W Hin. specialize (T eq_refl). apply Nat.ltb_lt in T. rewrite T. eauto.
Qed.

Lemma all_sel : forall l, sumw w_nonsel l = 0 ->
  sumw w_trans l = 0 /\ sumw w_loc l = 0.
Proof.
  induction l as [|p r IH]; simpl; intro H; [auto|].
  destruct p; simpl in *; lia.
Qed.

(* No deadlock: with at least one token configured, whenever a call is in progress something can
   move that does not need a new insert or feedback: a step of a call, of run() or of a consumer,
   or the client finishing a seed it holds. *)
Lemma deadlock_free_lemma : forall s, WInv s -> 1 <= cap s -> calls s <> [] ->
  exists l s', progress_label l = true /\ wf_label s l = true /\ step fixed s l = Some s'.
Proof.
  intros s W Hcap Hne.
  destruct (sumw w_nonsel (calls s)) eqn:NS.
  - (* only inserts waiting in their select *)
    destruct (calls s) as [|p r] eqn:Ec; [congruence|].
    assert (Hin : In p (calls s)) by (rewrite Ec; left; reflexivity).
    assert (Hp : w_nonsel p = 0) by (simpl in NS; lia).
    destruct p; simpl in Hp; try discriminate Hp.
    destruct (cancelled s) eqn:C.
    { exists (InsSelect i ArmCtx). enabled W Hin. rewrite C. eauto. }
    destruct (frozen s) eqn:F.
    { exists (InsSelect i ArmFrozen). enabled W Hin. rewrite F. eauto. }
    destruct (tokens s <? cap s) eqn:T.
    { exists (InsSelect i ArmChan). enabled W Hin. rewrite T. eauto. }
    apply Nat.ltb_ge in T.
    rewrite <- Ec in NS. destruct (all_sel _ NS) as [Z1 Z2].
    pose proof (w_acc1 s W) as A1. pose proof (w_acc2 s W) as A2. pose proof (w_len s W) as L.
    assert (Hrun : running s = true).
    { destruct (running s) eqn:R; [reflexivity|]. pose proof (w_run s W R). congruence. }
    destruct (outq s) as [|o q] eqn:Eo.
    + destruct (hand s) as [h|] eqn:Eh.
      * exists RunHand. unfold step. rewrite (w_crash s W), Hrun, Eh, Eo. eauto.
      * destruct (input s) as [|x xs] eqn:Ei.
        -- destruct (held s) as [|h hs] eqn:Eh2.
           ++ exfalso. unfold hand_list in L. rewrite Eh in L. simpl in L. lia.
           ++ exists (FinCall h). unfold step. rewrite (w_crash s W), (winv_alive _ _ W Hin).
              simpl. rewrite Eh2. simpl. rewrite Nat.eqb_refl. eauto.
        -- exists RunRecv. unfold step. rewrite (w_crash s W), Hrun, Eh, Ei. eauto.
    + exists Consume. unfold step. rewrite (w_crash s W), Eo. eauto.
  - assert (P : 0 < sumw w_nonsel (calls s)) by lia.
    destruct (sumw_pos_In _ _ P) as [p [Hin Hp]].
    assert (Hp1 : w_nonsel p = 1) by (destruct p; simpl in *; lia).
    destruct (call_enabled s p W Hin Hp1) as [l [s' [L E]]].
    exists l, s'. split; [unfold progress_label, internal; rewrite L; reflexivity|].
    split; [destruct l; simpl in L; try discriminate; reflexivity | exact E].
Qed.

(* the two statements over whole executions of reactor + well-formed client *)
Lemma progress_lemma : forall n m ls s, 1 <= n -> runw fixed (init n m) ls = Some s ->
  (calls s <> [] -> exists l s', progress_label l = true /\ wf_label s l = true /\ step fixed s l = Some s')
  /\ (forall ls' s', forallb internal ls' = true -> run fixed s ls' = Some s' ->
        measure s' + length ls' <= measure s).
Proof.
  intros n m ls s Hn H. pose proof (winv_runw _ _ _ _ H) as W.
  assert (C : cap s = n).
  { apply runw_run in H. eapply (run_inv fixed (fun s => cap s = n)); [| | exact H]; [|reflexivity].
    intros s0 l s1 E0 E1. apply cap_step in E1. destruct E1. congruence. }
  split.
  - intro Hne. apply deadlock_free_lemma; auto. lia.
  - intros. eapply measure_run; eauto.
Qed.

(* ------------------------------------------------------------------ non-vacuity *)

(* one accepted insert, delivered through run() and the output buffer to a consumer, fed back;
   a second insert that holds a token and has not stored yet *)
Definition ls_ex : list label :=
  [InsCall 1; InsSelect 1 ArmChan; InsCheck 1 ArmChan; InsStore 1; InsSend 1; RunRecv; RunSend; Consume;
   InsCall 2; InsSelect 2 ArmChan; FbCall 1; FbLoad 1; FbCas 1; FbCheck 1 ArmChan].

(* accounting / never-blocks / ledger: a reachable well-formed state with a transient token and a
   feedback at its select *)
Example ex_reachable : exists s,
  runw fixed (init 3 1) ls_ex = Some s /\ crashed s = false
  /\ tokens s = 2 /\ table s = [1] /\ sumw w_trans (calls s) = 1
  /\ In (PFbSel 1) (calls s) /\ In (PInsChk 2) (calls s) /\ held s = [].
Proof. eexists. vm_compute. repeat split; auto. Qed.

(* ... from which the feedback's send is enabled, and a finish + repeated finish can be run *)
Example ex_finish : exists s,
  run fixed (init 3 1) (ls_ex ++ [FbSelect 1 ArmChan; RunRecv; RunHand]) = Some s
  /\ crashed s = false /\ nilled s = false /\ In 1 (table s) /\ held s = [1].
Proof. eexists. vm_compute. repeat split; auto. Qed.

(* closed reactor: a freeze with no call past its test, followed by an insert that even gets a
   token and by a feedback of a held seed - both are turned away *)
Example ex_closed : exists s0 s1 s2,
  run fixed (init 3 1) [InsCall 1; InsSelect 1 ArmChan; InsCheck 1 ArmChan; InsStore 1; InsSend 1; RunRecv; RunHand] = Some s0
  /\ nilled s0 = false /\ sumw w_past (calls s0) = 0
  /\ step fixed s0 Freeze = Some s1
  /\ run fixed s1 [InsCall 2; InsSelect 2 ArmChan; InsCheck 2 ArmFrozen; InsBack 2 false;
                   FbCall 1; FbLoad 1; FbCas 1; FbCheck 1 ArmFrozen] = Some s2
  /\ rets s2 = [(OFb 1, RFrozen); (OIns 2, RFrozen)] ++ rets s0 /\ tokens s2 = 1 /\ table s2 = [1].
Proof. eexists. eexists. eexists. vm_compute. repeat split; auto. Qed.

(* progress: every token is in use and an insert waits for one; its own select is not enabled,
   the finish of the held seed is *)
Example ex_blocked : exists s,
  runw fixed (init 1 1) [InsCall 1; InsSelect 1 ArmChan; InsCheck 1 ArmChan; InsStore 1; InsSend 1;
                         RunRecv; RunSend; Consume; InsCall 2] = Some s
  /\ calls s = [PInsSel 2] /\ tokens s = cap s /\ held s = [1]
  /\ step fixed s (InsSelect 2 ArmChan) = None /\ step fixed s (InsSelect 2 ArmCtx) = None
  /\ step fixed s (InsSelect 2 ArmFrozen) = None
  /\ wf_label s (FinCall 1) = true /\ step fixed s (FinCall 1) <> None.
Proof. eexists. vm_compute. repeat split; auto; discriminate. Qed.

(* delivery: something in every stage of the pipe *)
Example ex_transit : exists s,
  run fixed (init 3 1) [InsCall 1; InsSelect 1 ArmChan; InsCheck 1 ArmChan; InsStore 1; InsSend 1;
                        InsCall 2; InsSelect 2 ArmChan; InsCheck 2 ArmChan; InsStore 2; InsSend 2;
                        InsCall 3; InsSelect 3 ArmChan; InsCheck 3 ArmChan; InsStore 3; InsSend 3;
                        RunRecv; RunSend; RunRecv] = Some s
  /\ crashed s = false /\ running s = true
  /\ outq s = [1] /\ hand s = Some 2 /\ input s = [3] /\ sys_measure s = 6
  /\ drain_labels s = [Consume; RunHand; RunRecv; RunHand].
Proof. eexists. vm_compute. repeat split; auto. Qed.

(* the client discipline is needed: a client that feeds back a seed it does not hold can fill the
   input channel, and then a feedback does block (one token, nobody reads the output) *)
Example ex_illformed_feedback_blocks : exists s,
  run fixed (init 1 0) [InsCall 1; InsSelect 1 ArmChan; InsCheck 1 ArmChan; InsStore 1; InsSend 1; RunRecv;
                        FbCall 1; FbLoad 1; FbCas 1; FbCheck 1 ArmChan; FbSelect 1 ArmChan;
                        FbCall 1; FbLoad 1; FbCas 1; FbCheck 1 ArmChan] = Some s
  /\ crashed s = false /\ calls s = [PFbSel 1] /\ length (input s) = cap s
  /\ step fixed s (FbSelect 1 ArmChan) = None.
Proof. eexists. vm_compute. repeat split; auto. Qed.

(* a duplicate insert panics with its token taken: what the crashed flag stands for *)
Example ex_duplicate_insert_panics : exists s,
  run fixed (init 2 1) [InsCall 1; InsSelect 1 ArmChan; InsCheck 1 ArmChan; InsStore 1; InsSend 1;
                        InsCall 1; InsSelect 1 ArmChan; InsCheck 1 ArmChan; InsStore 1] = Some s
  /\ crashed s = true /\ rets s = [(OIns 1, RPanic); (OIns 1, ROk)] /\ tokens s = 2 /\ table s = [1].
Proof. eexists. vm_compute. repeat split; auto. Qed.

(* ------------------------------------------------------------------ every accepted seed reaches the output *)

Lemma sys_step_flags : forall v s l s', sys_step l = true -> step v s l = Some s' ->
  crashed s' = crashed s /\ running s' = running s.
Proof. intros v s l s' L H. step_cases H; try discriminate L; unf; simpl; auto. Qed.

Lemma sys_run_flags : forall v ls s s', forallb sys_step ls = true -> run v s ls = Some s' ->
  crashed s' = crashed s /\ running s' = running s /\ rets s' = rets s.
Proof.
  induction ls as [|l r IH]; simpl; intros s s' A H.
  - inversion H; subst. auto.
  - apply andb_true_iff in A. destruct A as [A1 A2].
    destruct (step v s l) as [s1|] eqn:E; [|discriminate].
    destruct (sys_step_flags _ _ _ _ A1 E) as [F1 F2].
    destruct (sys_step_lemma _ _ _ _ A1 E) as [_ [_ [_ [_ [_ R1]]]]].
    destruct (IH _ _ A2 H) as [G1 [G2 G3]]. repeat split; congruence.
Qed.

Lemma drain_input_sys : forall n, forallb sys_step (drain_input n) = true.
Proof. induction n; simpl; auto. Qed.

Lemma drain_labels_sys : forall s, forallb sys_step (drain_labels s) = true.
Proof.
  intro s. unfold drain_labels. rewrite !forallb_app. rewrite drain_input_sys.
  destruct (hand s); simpl; rewrite andb_true_r;
    induction (length (outq s)); simpl; auto.
Qed.

(* From any state the reactor reaches with run() alive: (1) there is a schedule of run() and
   consumer steps after which the consumers have received every seed of every insert / feedback
   that returned nil so far, in the order of those returns; (2) whatever run() and the consumers
   do, nothing in transit is lost or reordered, they can take at most [sys_measure] steps, they
   are never stuck before everything is delivered. *)
Lemma delivery_lemma : forall v n m ls s,
  run v (init n m) ls = Some s -> crashed s = false -> running s = true ->
  (exists s', run v s (drain_labels s) = Some s'
     /\ consumed s' = rev (omap send_ok (rets s')) /\ rets s' = rets s
     /\ outq s' = [] /\ hand s' = None /\ input s' = [])
  /\ (forall ls' s', forallb sys_step ls' = true -> run v s ls' = Some s' ->
        flow s' = rev (omap send_ok (rets s')) /\ rets s' = rets s
        /\ sys_measure s' + length ls' <= sys_measure s
        /\ (sys_measure s' = 0 -> consumed s' = rev (omap send_ok (rets s')))
        /\ (0 < sys_measure s' -> exists l s'', sys_step l = true /\ step v s' l = Some s'')).
Proof.
  intros v n m ls s H Hc Hr. pose proof (fifo_lemma _ _ _ _ _ H) as F. fold (flow s) in F.
  split.
  - destruct (drain_lemma v s Hc Hr) as [s' [R [C [O [Hh I]]]]].
    destruct (sys_run_flags _ _ _ _ (drain_labels_sys s) R) as [_ [_ X]].
    exists s'. rewrite X. repeat split; auto. congruence.
  - intros ls' s' A R.
    destruct (sys_run_lemma _ _ _ _ A R) as [F1 [M1 _]].
    destruct (sys_run_flags _ _ _ _ A R) as [G1 [G2 G3]].
    rewrite G3. split; [congruence|]. split; [reflexivity|]. split; [exact M1|]. split.
    + intro Z. rewrite (sys_done_lemma _ Z). congruence.
    + intro Z. apply sys_enabled_lemma; congruence.
Qed.
