(* C12 - proofs about the reactor model (Reactor.v): no seed tracked twice, FIFO conservation, delivery. *)
From Coq Require Import Lia.
From ZenoV Require Import Reactor.ReactorBase.

(* ------------------------------------------------------------------ no seed tracked twice; FIFO *)

Lemma NoDup_rem1 : forall i l, NoDup l -> NoDup (rem1 Nat.eqb i l).
Proof.
  induction l as [|x r IH]; simpl; intros H; [constructor|].
  inversion H; subst. destruct (i =? x); [assumption|].
  constructor; [|apply IH; assumption]. intro Hin. apply In_rem1 in Hin. contradiction.
Qed.

Lemma nodup_step : forall v s l s', v_fb_fix v = true ->
  NoDup (table s) -> step v s l = Some s' -> NoDup (table s').
Proof.
  intros v s l s' Hv A H. use_fb_fix Hv H. step_cases H; unf; simpl; try assumption;
    try (rewrite Hv in *; discriminate).
  - constructor; assumption.
  - apply NoDup_rem1; assumption.
Qed.

(* everything that was sent on the input channel is, in that order: received by the consumers,
   or in the output buffer, or in run()'s hand, or still in the input channel *)
Lemma fifo_step : forall v s l s',
  sent s = flow s -> step v s l = Some s' -> sent s' = flow s'.
Proof.
  intros v s l s' A H. unfold flow, hand_list in *.
  step_cases H; unf; simpl in *; try assumption;
    repeat match goal with E : hand s = _ |- _ => rewrite E in *; clear E
                         | E : input s = _ |- _ => rewrite E in *; clear E
                         | E : outq s = _ |- _ => rewrite E in *; clear E end;
    simpl in *; rewrite ?A; repeat rewrite <- app_assoc; simpl; try reflexivity; try assumption.
Qed.

(* the sends are exactly the inserts and feedbacks that returned nil, in the order of their returns *)
Lemma sent_rets_step : forall v s l s',
  sent s = rev (omap send_ok (rets s)) -> step v s l = Some s' -> sent s' = rev (omap send_ok (rets s')).
Proof.
  intros v s l s' A H.
  step_cases H; unf; simpl in *; try assumption;
    try match goal with b : bool |- _ => destruct b end; simpl; rewrite ?A; try reflexivity; try assumption.
Qed.

(* ------------------------------------------------------------------ delivery *)

(* steps of run() and of the consumers keep everything in transit in order and use up the measure *)
Lemma sys_step_lemma : forall v s l s', sys_step l = true -> step v s l = Some s' ->
  flow s' = flow s /\ sys_measure s' < sys_measure s
  /\ tokens s' = tokens s /\ table s' = table s /\ calls s' = calls s /\ rets s' = rets s.
Proof.
  intros v s l s' L H. unfold flow, sys_measure, hand_list.
  step_cases H; try discriminate L; unf; simpl;
    repeat match goal with E : hand s = _ |- _ => rewrite E in *; clear E
                         | E : input s = _ |- _ => rewrite E in *; clear E
                         | E : outq s = _ |- _ => rewrite E in *; clear E end;
    simpl; rewrite ?app_length; simpl; repeat rewrite <- app_assoc; simpl;
    (split; [reflexivity|]); (split; [lia|]); auto.
Qed.

Lemma sys_enabled_lemma : forall v s, crashed s = false -> running s = true -> 0 < sys_measure s ->
  exists l s', sys_step l = true /\ step v s l = Some s'.
Proof.
  intros v s Hc Hr M. unfold sys_measure, hand_list in M.
  destruct (outq s) as [|o q] eqn:Eo.
  - destruct (hand s) as [h|] eqn:Eh.
    + exists RunHand. unfold step. rewrite Hc, Hr, Eh, Eo. eauto.
    + destruct (input s) as [|x r] eqn:Ei; [simpl in M; lia|].
      exists RunRecv. unfold step. rewrite Hc, Hr, Eh, Ei. eauto.
  - exists Consume. unfold step. rewrite Hc, Eo. eauto.
Qed.

Lemma sys_done_lemma : forall s, sys_measure s = 0 -> consumed s = flow s.
Proof.
  intros s M. unfold sys_measure, flow, hand_list in *.
  destruct (input s); [|simpl in M; lia]. destruct (hand s); [simpl in M; lia|].
  destruct (outq s); [|simpl in M; lia]. simpl. rewrite app_nil_r. reflexivity.
Qed.

(* every sequence of run()/consumer steps is shorter than the measure and loses nothing *)
Lemma sys_run_lemma : forall v ls s s', forallb sys_step ls = true -> run v s ls = Some s' ->
  flow s' = flow s /\ sys_measure s' + length ls <= sys_measure s
  /\ tokens s' = tokens s /\ table s' = table s /\ calls s' = calls s.
Proof.
  induction ls as [|l r IH]; simpl; intros s s' A H.
  - inversion H; subst. repeat split; try reflexivity; try lia.
  - apply andb_true_iff in A. destruct A as [A1 A2].
    destruct (step v s l) as [s1|] eqn:E; [|discriminate].
    destruct (sys_step_lemma _ _ _ _ A1 E) as [F1 [M1 [T1 [B1 [C1 _]]]]].
    destruct (IH _ _ A2 H) as [F2 [M2 [T2 [B2 C2]]]].
    repeat split; try congruence; lia.
Qed.

(* the explicit schedule: with run() alive and a consumer reading, everything in transit is
   delivered, in the order in which it was sent *)
Lemma consume_all : forall v q s, crashed s = false -> outq s = q ->
  exists s', run v s (repeat Consume (length q)) = Some s'
    /\ consumed s' = consumed s ++ q /\ outq s' = [] /\ hand s' = hand s /\ input s' = input s
    /\ crashed s' = false /\ running s' = running s.
Proof.
  induction q as [|x q IH]; intros s Hc Ho; simpl.
  - exists s. rewrite app_nil_r. repeat split; auto.
  - unfold step at 1. rewrite Hc, Ho.
    match goal with |- context [run v ?s1 _] => destruct (IH s1) as [s' [R [C [O [Hh [I [Cr Ru]]]]]]] end;
      [exact Hc | reflexivity |].
    exists s'. split; [exact R|]. simpl in *. rewrite C, <- app_assoc. repeat split; auto.
Qed.

Lemma drain_input_all : forall v q s, crashed s = false -> running s = true ->
  input s = q -> hand s = None -> outq s = [] ->
  exists s', run v s (drain_input (length q)) = Some s'
    /\ consumed s' = consumed s ++ q /\ outq s' = [] /\ hand s' = None /\ input s' = [].
Proof.
  induction q as [|x q IH]; intros s Hc Hr Hi Hh Ho; simpl.
  - exists s. rewrite app_nil_r. repeat split; auto.
  - unfold step at 1. rewrite Hc, Hr, Hh, Hi.
    unfold step at 1. simpl. rewrite Hc, Hr, Ho.
    match goal with |- context [run v ?s1 _] => destruct (IH s1) as [s' [R [C [O [H1 I]]]]] end;
      try reflexivity; try assumption.
    exists s'. split; [exact R|]. simpl in *. rewrite C, <- app_assoc. repeat split; auto.
Qed.

Lemma drain_rest : forall v s, crashed s = false -> running s = true -> outq s = [] ->
  exists s', run v s ((match hand s with Some _ => [RunHand] | None => [] end)
                      ++ drain_input (length (input s))) = Some s'
    /\ consumed s' = consumed s ++ hand_list s ++ input s
    /\ outq s' = [] /\ hand s' = None /\ input s' = [].
Proof.
  intros v s Hc Hr Ho. unfold hand_list. destruct (hand s) as [h|] eqn:Eh.
  - simpl. unfold step at 1. rewrite Hc, Hr, Eh, Ho.
    match goal with |- context [run v ?s2 _] =>
      destruct (drain_input_all v (input s) s2) as [s' [R [C [O [H2 I]]]]] end;
      try reflexivity; try assumption.
    simpl in R. exists s'. split; [exact R|]. simpl in C. rewrite C.
    repeat rewrite <- app_assoc. repeat split; auto.
  - simpl. destruct (drain_input_all v (input s) s Hc Hr eq_refl Eh Ho) as [s' [R [C [O [H2 I]]]]].
    exists s'. split; [exact R|]. rewrite C. repeat split; auto.
Qed.

Lemma drain_lemma : forall v s, crashed s = false -> running s = true ->
  exists s', run v s (drain_labels s) = Some s'
    /\ consumed s' = flow s /\ outq s' = [] /\ hand s' = None /\ input s' = [].
Proof.
  intros v s Hc Hr. unfold drain_labels, flow.
  destruct (consume_all v (outq s) s Hc eq_refl) as [s1 [R1 [C1 [O1 [H1 [I1 [Cr1 Ru1]]]]]]].
  rewrite Hr in Ru1.
  destruct (drain_rest v s1 Cr1 Ru1 O1) as [s' [R [C [O [H2 I]]]]].
  unfold hand_list in *. rewrite H1, I1 in *.
  exists s'. rewrite run_app, R1. split; [exact R|]. rewrite C, C1.
  repeat rewrite <- app_assoc. repeat split; auto.
Qed.

(* ------------------------------------------------------------------ every accepted seed reaches the output *)

Lemma sys_step_flags : forall v s l s', sys_step l = true -> step v s l = Some s' ->
  crashed s' = crashed s /\ running s' = running s.
Proof. intros v s l s' L H. step_cases H; try discriminate L; unf; simpl; auto. Qed.

Lemma sys_run_flags : forall v ls s s', forallb sys_step ls = true -> run v s ls = Some s' ->
  crashed s' = crashed s /\ running s' = running s /\ rets s' = rets s.
Proof.
  induction ls as [|l r IH]; simpl; intros s s' A H.
  - inversion H; subst. auto.
  - apply andb_true_iff in A. destruct A as [A1 A2].
    destruct (step v s l) as [s1|] eqn:E; [|discriminate].
    destruct (sys_step_flags _ _ _ _ A1 E) as [F1 F2].
    destruct (sys_step_lemma _ _ _ _ A1 E) as [_ [_ [_ [_ [_ R1]]]]].
    destruct (IH _ _ A2 H) as [G1 [G2 G3]]. repeat split; congruence.
Qed.

Lemma drain_input_sys : forall n, forallb sys_step (drain_input n) = true.
Proof. induction n; simpl; auto. Qed.

Lemma drain_labels_sys : forall s, forallb sys_step (drain_labels s) = true.
Proof.
  intro s. unfold drain_labels. rewrite !forallb_app. rewrite drain_input_sys.
  destruct (hand s); simpl; rewrite andb_true_r;
    induction (length (outq s)); simpl; auto.
Qed.

