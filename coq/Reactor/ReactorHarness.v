(* C12 - what the generated case files evaluate.
   Sequential histories (driver `reactor`): the labelled transition system of Reactor.v is run
   at call granularity (every call in progress and run() are stepped until nothing more is
   enabled) and compared with what the real reactor answered after every operation ([diffs]);
   the property's own predicates are evaluated on the implementation's answers alone ([mons]).
   Concurrent histories (driver `reactorc`): monitors on the recorded call/return history and on
   the quiescent state, and a linearizability search against the call-granularity model. *)
From ZenoV Require Import Lib.Harness Reactor.Reactor.

(* ------------------------------------------------------------------ small list utilities *)

Fixpoint insert_sorted (x : nat) (l : list nat) : list nat :=
  match l with
  | [] => [x]
  | y :: r => if x <=? y then x :: l else y :: insert_sorted x r
  end.
Definition sort (l : list nat) : list nat := fold_right insert_sorted [] l.

Fixpoint nats_eqb (a b : list nat) : bool :=
  match a, b with
  | [], [] => true
  | x :: a', y :: b' => (x =? y) && nats_eqb a' b'
  | _, _ => false
  end.

Fixpoint nodupb (l : list nat) : bool :=
  match l with [] => true | x :: r => negb (memb Nat.eqb x r) && nodupb r end.

Fixpoint prefixb (a b : list nat) : bool :=
  match a, b with
  | [], _ => true
  | x :: a', y :: b' => (x =? y) && prefixb a' b'
  | _, _ => false
  end.

Definition ores_eqb (a b : option res) : bool :=
  match a, b with
  | None, None => true
  | Some x, Some y => res_eqb x y
  | _, _ => false
  end.
Definition onat_eqb (a b : option nat) : bool :=
  match a, b with
  | None, None => true
  | Some x, Some y => x =? y
  | _, _ => false
  end.

(* ------------------------------------------------------------------ sequential histories *)

Inductive sop := SCall (o : op) | SConsume | SFreeze | SStop.

(* what the driver wrote down after an operation (and after run() had settled) *)
Record sobs := SO {
  o_res : option res;     (* SCall: the return value; None = the call is blocked *)
  o_pend : option res;    (* return value of the earlier blocked call if it returned during this step *)
  o_got : option id;      (* SConsume: what the consumer received *)
  o_alive : bool;         (* globalReactor != nil; the remaining fields are only meaningful then *)
  o_tokens : nat;         (* len(tokenPool) *)
  o_table : list id;      (* GetStateTable(), sorted *)
  o_inlen : nat;          (* len(input) *)
  o_outlen : nat }.       (* len(output) *)

Record scase := SC {
  sc_cap : nat; sc_ocap : nat;
  sc_steps : list (sop * sobs);
  sc_stopped : bool }.    (* the history contains SStop *)
(* every history ends with the consume steps that empty the output (driver: final drain) *)

(* ---- the model at call granularity ---- *)

(* the labels a call in progress can take next; the channel arm first, then ctx, then freezeCtx *)
Definition next_labels (p : pc) : list label :=
  match p with
  | PInsSel i => [InsSelect i ArmChan; InsSelect i ArmCtx; InsSelect i ArmFrozen]
  | PInsChk i => [InsCheck i ArmChan; InsCheck i ArmCtx; InsCheck i ArmFrozen]
  | PInsBack i r => [InsBack i r]
  | PInsStore i => [InsStore i]
  | PInsSend i => [InsSend i]
  | PFbLoad i => [FbLoad i]
  | PFbCas i => [FbCas i]
  | PFbSwap i => [FbSwap i]
  | PFbChk i => [FbCheck i ArmChan; FbCheck i ArmCtx; FbCheck i ArmFrozen]
  | PFbSel i => [FbSelect i ArmChan; FbSelect i ArmCtx; FbSelect i ArmFrozen]
  | PFinDel i => [FinDelete i]
  | PFinRel i => [FinRelease i]
  end.

Fixpoint first_step (v : variant) (s : state) (ls : list label) : option state :=
  match ls with
  | [] => None
  | l :: r => match step v s l with Some s' => Some s' | None => first_step v s r end
  end.

Definition call_cands (s : state) : list label := flat_map next_labels (calls s).
Definition all_cands (s : state) : list label := call_cands s ++ [RunRecv; RunSend].

Fixpoint settle_with (cands : state -> list label) (v : variant) (fuel : nat) (s : state) : state :=
  match fuel with
  | 0 => s
  | S f => match first_step v s (cands s) with
           | Some s' => settle_with cands v f s'
           | None => s
           end
  end.
Definition settle := settle_with all_cands.
Definition settle_calls := settle_with call_cands.

Definition fuel0 : nat := 400.

Definition do_step (v : variant) (s : state) (l : label) : state :=
  match step v s l with Some s' => s' | None => s end.

Definition call_label (o : op) : label :=
  match o with OIns i => InsCall i | OFb i => FbCall i | OFin i => FinCall i end.

(* returns appended by a step *)
Definition new_rets (before after : state) : list (op * res) :=
  firstn (length (rets after) - length (rets before)) (rets after).
Fixpoint lookup_ret (o : op) (l : list (op * res)) : option res :=
  match l with
  | [] => None
  | (o', r) :: t => if op_eqb o o' then Some r else lookup_ret o t
  end.

Definition model_sop (v : variant) (s : state) (o : sop) : state * option id :=
  match o with
  | SCall c => (settle v fuel0 (do_step v s (call_label c)), None)
  | SConsume =>
      let take (l : label) (i : id) :=
        match step v s l with Some s' => (settle v fuel0 s', Some i) | None => (s, None) end in
      match outq s, hand s with
      | i :: _, _ => take Consume i
      | [], Some i => take RunHand i
      | [], None => (s, None)
      end
  | SFreeze => (settle v fuel0 (do_step v s Freeze), None)
  | SStop =>
      let s1 := settle_calls v fuel0 (do_step v s StopCancel) in
      let s2 := do_step v (do_step v s1 RunExit) StopFinish in
      (settle_calls v fuel0 s2, None)
  end.

(* a blocked call that returns while the reactor is stopping left its select through the ctx arm
   or the freezeCtx arm - both are ready, the choice is Go's *)
Definition pend_compat (model observed : option res) : bool :=
  match model, observed with
  | Some RShut, Some RFrozen => true
  | _, _ => ores_eqb model observed
  end.

Definition obs_matches (s : state) (b : sobs) : bool :=
  Bool.eqb (o_alive b) (negb (nilled s))
  && (if nilled s then true
      else (o_tokens b =? tokens s) && nats_eqb (o_table b) (sort (table s))
           && (o_inlen b =? length (input s)))
  && (o_outlen b =? length (outq s)).

(* replays the steps; [pend] is the blocked call, if any.  Returns the index (from 1) of the
   first step on which model and implementation differ, 0 if none, and the final model state. *)
Fixpoint replay (v : variant) (s : state) (pend : option op) (k : nat) (l : list (sop * sobs)) : nat * state :=
  match l with
  | [] => (0, s)
  | (o, b) :: r =>
      if crashed s then (0, s) else   (* the process would be gone: nothing left to compare *)
      let '(s', got) := model_sop v s o in
      let nr := new_rets s s' in
      let own := match o with SCall c => lookup_ret c nr | _ => None end in
      let pr := match pend with Some c => lookup_ret c nr | None => None end in
      let pend' := match o, own with
                   | SCall c, None => Some c
                   | _, _ => match pr with Some _ => None | None => pend end
                   end in
      if ores_eqb own (o_res b) && pend_compat pr (o_pend b) && onat_eqb got (o_got b) && obs_matches s' b
      then replay v s' pend' (S k) r
      else (S k, s')
  end.

Definition first_bad (c : scase) : nat :=
  fst (replay fixed (init (sc_cap c) (sc_ocap c)) None 0 (sc_steps c)).

Definition sdiff_case (c : scase) : bool := negb (first_bad c =? 0).

(* ---- monitors: the property's predicates on the implementation's answers only ---- *)

Definition is_ok (r : option res) : bool := ores_eqb r (Some ROk).
Definition is_panic (r : option res) : bool := ores_eqb r (Some RPanic).

(* observation folded over the steps: what an outside observer knows before each step *)
Record track := TR {
  t_pending : option op;       (* a call that has not returned yet *)
  t_prev : nat * list id * nat * nat;   (* tokens, table, inlen, outlen after the previous step *)
  t_acc : list id;             (* seeds whose insert returned nil *)
  t_fin : list id;             (* seeds whose finish returned nil *)
  t_sends : list id;           (* seeds of inserts / feedbacks that returned nil, in order *)
  t_got : list id;             (* what the consumer received, in order *)
  t_heldw : list id;           (* seeds a consumer received and has not fed back / finished since *)
  t_used : list id;            (* seeds an insert was called for *)
  t_wf : bool;                 (* so far the client was well-formed *)
  t_frozen : bool;             (* Freeze() has returned *)
  t_stopped : bool;            (* Stop() has returned *)
  t_panicked : bool }.

Definition track0 : track := TR None (0, [], 0, 0) [] [] [] [] [] [] true false false false.

Definition apply_ret (o : op) (r : res) (t : track) : track :=
  match o, r with
  | OIns i, ROk => TR (t_pending t) (t_prev t) (i :: t_acc t) (t_fin t) (t_sends t ++ [i]) (t_got t) (t_heldw t) (t_used t) (t_wf t) (t_frozen t) (t_stopped t) (t_panicked t)
  | OFb i, ROk => TR (t_pending t) (t_prev t) (t_acc t) (t_fin t) (t_sends t ++ [i]) (t_got t) (t_heldw t) (t_used t) (t_wf t) (t_frozen t) (t_stopped t) (t_panicked t)
  | OFin i, ROk => TR (t_pending t) (t_prev t) (t_acc t) (i :: t_fin t) (t_sends t) (t_got t) (t_heldw t) (t_used t) (t_wf t) (t_frozen t) (t_stopped t) (t_panicked t)
  | _, RPanic => TR (t_pending t) (t_prev t) (t_acc t) (t_fin t) (t_sends t) (t_got t) (t_heldw t) (t_used t) (t_wf t) (t_frozen t) (t_stopped t) true
  | _, _ => t
  end.

Definition wf_call (o : op) (t : track) : bool :=
  match o with
  | OIns i => negb (memb Nat.eqb i (t_used t))
  | OFb i | OFin i => memb Nat.eqb i (t_heldw t)
  end.

Definition op_id (o : op) : id := match o with OIns i | OFb i | OFin i => i end.

Definition advance (t : track) (x : sop * sobs) : track :=
  let '(o, b) := x in
  (* the call is issued *)
  let t1 := match o with
            | SCall c =>
                TR (t_pending t) (t_prev t) (t_acc t) (t_fin t) (t_sends t) (t_got t)
                   (match c with OIns _ => t_heldw t | _ => rem1 Nat.eqb (op_id c) (t_heldw t) end)
                   (match c with OIns i => i :: t_used t | _ => t_used t end)
                   (t_wf t && wf_call c t) (t_frozen t) (t_stopped t) (t_panicked t)
            | _ => t
            end in
  (* returns: the call's own first, then the earlier blocked call's *)
  let t2 := match o, o_res b with
            | SCall c, Some r => apply_ret c r t1
            | SCall c, None => TR (Some c) (t_prev t1) (t_acc t1) (t_fin t1) (t_sends t1) (t_got t1) (t_heldw t1) (t_used t1) (t_wf t1) (t_frozen t1) (t_stopped t1) (t_panicked t1)
            | _, _ => t1
            end in
  let t3 := match t_pending t, o_pend b with
            | Some c, Some r =>
                let t' := apply_ret c r t2 in
                TR (match o, o_res b with SCall c', None => Some c' | _, _ => None end)
                   (t_prev t') (t_acc t') (t_fin t') (t_sends t') (t_got t') (t_heldw t') (t_used t') (t_wf t') (t_frozen t') (t_stopped t') (t_panicked t')
            | _, _ => t2
            end in
  let got' := match o_got b with Some i => t_got t3 ++ [i] | None => t_got t3 end in
  let held' := match o_got b with
               | Some i => if memb Nat.eqb i (t_heldw t3) then t_heldw t3 else t_heldw t3 ++ [i]
               | None => t_heldw t3 end in
  TR (t_pending t3) (o_tokens b, o_table b, o_inlen b, o_outlen b) (t_acc t3) (t_fin t3) (t_sends t3) got' held' (t_used t3) (t_wf t3)
     (t_frozen t3 || match o with SFreeze => true | _ => false end)
     (t_stopped t3 || match o with SStop => true | _ => false end)
     (t_panicked t3).

Definition quad_eqb (a b : nat * list id * nat * nat) : bool :=
  let '(t1, l1, i1, o1) := a in let '(t2, l2, i2, o2) := b in
  (t1 =? t2) && nats_eqb l1 l2 && (i1 =? i2) && (o1 =? o2).

(* all monitors are folds of a per-step predicate [P t x t'] (state before, step, state after) *)
Fixpoint all_steps (P : track -> sop * sobs -> track -> bool) (t : track) (l : list (sop * sobs)) : bool :=
  match l with
  | [] => true
  | x :: r => let t' := advance t x in P t x t' && all_steps P t' r
  end.
Fixpoint final_track (t : track) (l : list (sop * sobs)) : track :=
  match l with [] => t | x :: r => final_track (advance t x) r end.

(* monitor 0 - accounting: never more tokens in use than configured, never more tracked seeds than
   tokens in use, no seed tracked twice; with no call in progress tracked seeds = tokens in use *)
Definition mon_accounting (c : scase) : bool :=
  all_steps (fun _ x t' =>
    let b := snd x in
    if negb (o_alive b) || t_panicked t' then true
    else (o_tokens b <=? sc_cap c) && (length (o_table b) <=? o_tokens b) && nodupb (o_table b)
         && match t_pending t' with
            | None => o_tokens b =? length (o_table b)
            | Some _ => o_tokens b <=? S (length (o_table b))
            end) track0 (sc_steps c).

(* monitor 1 - a token is taken exactly when a seed is accepted and given back exactly when it is
   finished: with no call in progress, tracked seeds + finished seeds = accepted seeds (as multisets;
   a badly behaved client may finish a seed while its insert is still in progress) *)
Definition mon_ledger (c : scase) : bool :=
  all_steps (fun _ x t' =>
    let b := snd x in
    if negb (o_alive b) || t_panicked t' then true
    else match t_pending t' with
         | None => nats_eqb (sort (o_table b ++ t_fin t')) (sort (t_acc t'))
                   && (o_tokens b + length (t_fin t') =? length (t_acc t'))
         | Some _ => true
         end) track0 (sc_steps c).

(* monitor 2 - a rejected call (unknown feedback, repeated finish, closed reactor) changes nothing *)
Definition mon_reject_pure (c : scase) : bool :=
  all_steps (fun t x t' =>
    let '(o, b) := x in
    match o, o_res b, o_pend b with
    | SCall _, Some r, None =>
        if res_eqb r ROk || res_eqb r RPanic || negb (o_alive b) then true
        else quad_eqb (t_prev t) (t_prev t')
    | _, _, _ => true
    end) track0 (sc_steps c).

(* monitor 3 - once Freeze() has returned no insert and no feedback issued afterwards is accepted;
   once Stop() has returned every call reports "not initialized" *)
Definition mon_closed (c : scase) : bool :=
  all_steps (fun t x _ =>
    let '(o, b) := x in
    match o with
    | SCall (OIns _) | SCall (OFb _) =>
        (if t_stopped t then ores_eqb (o_res b) (Some RNotInit) else true)
        && (if t_frozen t then negb (is_ok (o_res b)) else true)
    | SCall (OFin _) => if t_stopped t then ores_eqb (o_res b) (Some RNotInit) else true
    | _ => true
    end) track0 (sc_steps c).

(* monitor 4 - every accepted seed reaches the output while a consumer reads, in the order of the sends *)
Definition mon_delivery (c : scase) : bool :=
  let t := final_track track0 (sc_steps c) in
  if sc_stopped c || t_panicked t then prefixb (t_got t) (t_sends t) else nats_eqb (t_got t) (t_sends t).

(* monitor 5 - under a well-formed client feedback never blocks, and an insert blocks only when
   every token is in use *)
Definition mon_never_blocks (c : scase) : bool :=
  all_steps (fun t x t' =>
    let '(o, b) := x in
    if negb (t_wf t') || t_frozen t || t_stopped t then true
    else match o, o_res b with
         | SCall (OFb _), None => false
         | SCall (OFin _), None => false
         | SCall (OIns _), None => let '(tok, _, _, _) := t_prev t in tok =? sc_cap c
         | _, _ => true
         end) track0 (sc_steps c).

(* monitor 6 - the state table is keyed by seed id, whatever object carries the id: with no other
   call in progress a finish returns nil exactly for a seed the table showed (else "not found"), a
   feedback is "not present" exactly for a seed the table did not show *)
Definition mon_by_id (c : scase) : bool :=
  all_steps (fun t x t' =>
    let '(o, b) := x in
    let '(_, tbl, _, _) := t_prev t in
    if t_stopped t || t_panicked t' || negb (o_alive b) then true
    else match t_pending t, o_pend b, o, o_res b with
         | None, None, SCall (OFin i), Some r =>
             if memb Nat.eqb i tbl then res_eqb r ROk else res_eqb r RNotFound
         | None, None, SCall (OFb i), Some r =>
             Bool.eqb (res_eqb r RNotPresent) (negb (memb Nat.eqb i tbl))
         | _, _, _, _ => true
         end) track0 (sc_steps c).

Definition diffs (l : list scase) := bad_idx sdiff_case l.
Definition mons (l : list scase) :=
  mon_idx [mon_accounting; mon_ledger; mon_reject_pure; mon_closed; mon_delivery; mon_never_blocks; mon_by_id] l.

(* ------------------------------------------------------------------ concurrent histories *)

Inductive cop := CApi (o : op) | CFreeze.
(* the merged log: a call is issued / has returned (thread t), a consumer thread received a seed *)
Inductive cev := ECall (t : nat) (c : cop) | ERet (t : nat) (r : res) | EGot (t : nat) (i : id).

Record ccase := CC {
  cc_cap : nat;
  cc_events : list cev;
  cc_hung : bool;            (* the run did not become quiescent within the watchdog *)
  cc_tokens : nat;           (* len(tokenPool) when quiescent *)
  cc_table : list id;        (* GetStateTable() when quiescent, sorted *)
  cc_after : list (op * res) (* calls issued after Stop() returned *) }.

(* a call with the positions of its two events *)
Record ccall := CL { cl_call : nat; cl_ret : nat; cl_op : cop; cl_res : res }.

Fixpoint find_ret (t : nat) (pos : nat) (l : list cev) : option (nat * res) :=
  match l with
  | [] => None
  | ERet t' r :: rest => if t' =? t then Some (pos, r) else find_ret t (S pos) rest
  | _ :: rest => find_ret t (S pos) rest
  end.

Fixpoint calls_from (pos : nat) (l : list cev) : list ccall :=
  match l with
  | [] => []
  | ECall t c :: rest =>
      match find_ret t (S pos) rest with
      | Some (p, r) => CL pos p c r :: calls_from (S pos) rest
      | None => calls_from (S pos) rest          (* never returned (only when hung) *)
      end
  | _ :: rest => calls_from (S pos) rest
  end.
Definition calls_of (c : ccase) : list ccall := calls_from 0 (cc_events c).

Definition count {A} (f : A -> bool) (l : list A) : nat := length (filter f l).

Definition is_ins_ok (x : ccall) : bool :=
  match cl_op x, cl_res x with CApi (OIns _), ROk => true | _, _ => false end.
Definition is_fin_ok (x : ccall) : bool :=
  match cl_op x, cl_res x with CApi (OFin _), ROk => true | _, _ => false end.
Definition is_fb_ok (x : ccall) : bool :=
  match cl_op x, cl_res x with CApi (OFb _), ROk => true | _, _ => false end.
Definition call_id (x : ccall) : id :=
  match cl_op x with CApi o => op_id o | CFreeze => 0 end.

(* monitor 0 - no deadlock: the run became quiescent *)
Definition cmon_no_hang (c : ccase) : bool := negb (cc_hung c).

(* monitor 1 - bounded in-flight seeds: at every moment the inserts that have returned nil minus
   the (successful) finishes that have been issued are at most the configured tokens
   (one pass: [acc] inserts that have returned nil so far, [fin] finishes issued so far that will
   return nil, [open] the call each thread is in) *)
Fixpoint bounded_scan (cap acc fin : nat) (open : list (nat * cop)) (evs : list cev) : bool :=
  match evs with
  | [] => true
  | ECall t c :: rest =>
      let fin' := match c with
                  | CApi (OFin _) => match find_ret t 0 rest with Some (_, ROk) => S fin | _ => fin end
                  | _ => fin
                  end in
      bounded_scan cap acc fin' ((t, c) :: open) rest
  | ERet t r :: rest =>
      let acc' := match r, find (fun x => fst x =? t) open with
                  | ROk, Some (_, CApi (OIns _)) => S acc
                  | _, _ => acc
                  end in
      (acc' <=? cap + fin)
      && bounded_scan cap acc' fin (filter (fun x => negb (fst x =? t)) open) rest
  | EGot _ _ :: rest => bounded_scan cap acc fin open rest
  end.
Definition cmon_bounded (c : ccase) : bool := bounded_scan (cc_cap c) 0 0 [] (cc_events c).

Fixpoint remove_all (l : list id) (from : list id) : list id :=
  match l with [] => from | x :: r => remove_all r (rem1 Nat.eqb x from) end.

(* monitor 2 - quiescent accounting: tokens in use = tracked seeds = accepted - finished *)
Definition cmon_quiescent (c : ccase) : bool :=
  if cc_hung c then true else
  let cl := calls_of c in
  let acc := map call_id (filter is_ins_ok cl) in
  let fin := map call_id (filter is_fin_ok cl) in
  (cc_tokens c =? length (cc_table c)) && (cc_tokens c <=? cc_cap c)
  && (cc_tokens c + length fin =? length acc)
  && nats_eqb (cc_table c) (sort (remove_all fin acc)) && nodupb (cc_table c).

(* monitor 3 - every accepted seed reached a consumer, once per accepted insert / feedback *)
Definition cmon_delivery (c : ccase) : bool :=
  if cc_hung c then true else
  let cl := calls_of c in
  let sends := map call_id (filter (fun x => is_ins_ok x || is_fb_ok x) cl) in
  let gots := flat_map (fun e => match e with EGot _ i => [i] | _ => [] end) (cc_events c) in
  nats_eqb (sort sends) (sort gots).

(* monitor 4 - rejections: feedback is refused as "not present" exactly for seeds that were never
   accepted (seeds from 300 on belong to the rounds in which a feedback races a finish of the
   same seed: there the feedback is accepted or refused as "not present", nothing else; ids are
   kept small because they are unary numbers here); before Freeze() is called a held seed's
   feedback is accepted; each accepted seed's finish succeeds once, any other finish is "not found" *)
Definition cmon_rejections (c : ccase) : bool :=
  let cl := calls_of c in
  let acc := map call_id (filter is_ins_ok cl) in
  let freeze_call := match filter (fun x => match cl_op x with CFreeze => true | _ => false end) cl with
                     | x :: _ => Some (cl_call x) | [] => None end in
  forallb (fun x =>
    match cl_op x with
    | CApi (OFb i) =>
        if 300 <=? i
        then (* the racing pair: the feedback runs against a finish of the same seed *)
             res_eqb (cl_res x) ROk || res_eqb (cl_res x) RNotPresent
        else if memb Nat.eqb i acc
        then negb (res_eqb (cl_res x) RNotPresent)
             && (match freeze_call with
                 | Some p => if cl_ret x <? p then res_eqb (cl_res x) ROk else true
                 | None => res_eqb (cl_res x) ROk end)
        else res_eqb (cl_res x) RNotPresent
    | CApi (OFin i) =>
        res_eqb (cl_res x) ROk || res_eqb (cl_res x) RNotFound
    | _ => true
    end) cl
  && forallb (fun i => count (fun x => is_fin_ok x && (call_id x =? i)) cl <=? count (Nat.eqb i) acc)
             (map call_id (filter is_fin_ok cl))
  (* by id, whatever object carries it: a finish is issued for an accepted seed => one of them succeeds *)
  && (cc_hung c
      || forallb (fun x => match cl_op x with
                           | CApi (OFin i) =>
                               if memb Nat.eqb i acc
                               then 1 <=? count (fun y => is_fin_ok y && (call_id y =? i)) cl
                               else true
                           | _ => true end) cl).

(* monitor 5 - closed: no insert / feedback issued after Freeze() returned is accepted; after
   Stop() every call is "not initialized" *)
Definition cmon_closed (c : ccase) : bool :=
  let cl := calls_of c in
  forallb (fun z =>
    match cl_op z with
    | CFreeze =>
        forallb (fun x => match cl_op x with
                          | CApi (OIns _) | CApi (OFb _) =>
                              if cl_ret z <? cl_call x then negb (res_eqb (cl_res x) ROk) else true
                          | _ => true end) cl
    | _ => true
    end) cl
  && forallb (fun x => res_eqb (snd x) RNotInit) (cc_after c).

(* ---- linearizability against the model at call granularity ---- *)

Record ocall := OC { oc_t : nat; oc_op : cop; oc_lin : option res }.

(* one call run to completion on the model (run() has a consumer with a large buffer); None: it blocks *)
Definition atomic (s : state) (c : cop) : option (state * res) :=
  match c with
  | CFreeze => Some (settle fixed fuel0 (do_step fixed s Freeze), ROk)
  | CApi o =>
      let s' := settle fixed fuel0 (do_step fixed s (call_label o)) in
      match lookup_ret o (new_rets s s') with
      | Some r => Some (s', r)
      | None => None
      end
  end.

Fixpoint find_open (t : nat) (l : list ocall) : option ocall :=
  match l with [] => None | x :: r => if oc_t x =? t then Some x else find_open t r end.
Fixpoint remove_open (t : nat) (l : list ocall) : list ocall :=
  match l with [] => [] | x :: r => if oc_t x =? t then r else x :: remove_open t r end.
Fixpoint mark_open (t : nat) (res : res) (l : list ocall) : list ocall :=
  match l with
  | [] => []
  | x :: r => if oc_t x =? t then OC t (oc_op x) (Some res) :: r else x :: mark_open t res r
  end.

(* Wing-Gong search, linearizing lazily: only when a return forces it.  The search is bounded in
   depth (fuel) and in total work (budget, one unit per node visited); running out of either is
   inconclusive and reported as such, never as a difference. *)
Inductive lres := LYes | LNo | LOut.

Fixpoint try_all (f : ocall -> nat -> lres * nat) (l : list ocall) (b : nat) : lres * nat :=
  match l with
  | [] => (LNo, b)
  | x :: r => match f x b with
              | (LNo, b') => try_all f r b'
              | other => other
              end
  end.

Fixpoint lin (fuel : nat) (s : state) (open : list ocall) (evs : list cev) (budget : nat) : lres * nat :=
  match fuel, budget with
  | 0, _ => (LOut, budget)
  | _, 0 => (LOut, 0)
  | S f, S b =>
      match evs with
      | [] => (LYes, b)
      | EGot _ _ :: r => lin f s open r b
      | ECall t c :: r => lin f s (OC t c None :: open) r b
      | ERet t res :: r =>
          match find_open t open with
          | None => (LNo, b)
          | Some oc =>
              match oc_lin oc with
              | Some res' => if res_eqb res res' then lin f s (remove_open t open) r b else (LNo, b)
              | None =>
                  try_all (fun oc' b' =>
                    match oc_lin oc' with
                    | Some _ => (LNo, b')
                    | None =>
                        match atomic s (oc_op oc') with
                        | None => (LNo, b')
                        | Some (s', res') =>
                            if oc_t oc' =? t
                            then if res_eqb res res' then lin f s' (remove_open t open) r b' else (LNo, b')
                            else lin f s' (mark_open (oc_t oc') res' open) evs b'
                        end
                    end) open b
              end
          end
      end
  end.

Definition lin_limit : nat := 90.
Definition lin_budget : nat := 4000.

Definition lin_case (c : ccase) : lres :=
  fst (lin 400 (init (cc_cap c) 1000) [] (cc_events c) lin_budget).

Definition cdiff_case (c : ccase) : bool :=
  if cc_hung c || (lin_limit <? length (cc_events c)) then false
  else match lin_case c with LNo => true | _ => false end.

Definition cdiffs (l : list ccase) := bad_idx cdiff_case l.
Definition cmons (l : list ccase) :=
  mon_idx [cmon_no_hang; cmon_bounded; cmon_quiescent; cmon_delivery; cmon_rejections; cmon_closed] l.

(* ------------------------------------------------------------------ configuration of the real reactor *)

(* The model has ONE capacity: [init n m] gives the token pool and the combined input channel the
   same capacity [cap] = n, for every n (C12_input_has_room: token holders about to send + buffered
   items <= n = capacity of the input).  Numbers are binary here: n goes up to 200000. *)
Definition model_token_cap (n : N) : N := n.
Definition model_input_cap (n : N) : N := n.

Record kcase := KC {
  k_n : N;              (* Start(n) *)
  k_tokcap : N;         (* cap(tokenPool) read back *)
  k_incap : N;          (* cap(input) read back *)
  k_fill : bool;        (* n inserts were issued with the output not drained, then one feedback *)
  k_inserted : N;       (* inserts that returned nil (within the watchdog) *)
  k_fb : option res }.  (* the feedback's return; None: it did not return / was not reached *)

Definition fill_ok (c : kcase) : bool :=
  if k_fill c then (k_inserted c =? k_n c)%N && ores_eqb (k_fb c) (Some ROk) else true.

Definition kdiff_case (c : kcase) : bool :=
  negb ((k_tokcap c =? model_token_cap (k_n c))%N && (k_incap c =? model_input_cap (k_n c))%N && fill_ok c).

(* monitor 0 - the input channel has room for every token holder: capacity(input) >= token count *)
Definition kmon_input_room (c : kcase) : bool := (k_n c <=? k_incap c)%N.
(* monitor 1 - never more tokens than configured: capacity(tokenPool) = token count *)
Definition kmon_token_cap (c : kcase) : bool := (k_tokcap c =? k_n c)%N.
(* monitor 2 - with nobody reading the output all n inserts return (a token holder's send never
   blocks), and the feedback of a received seed returns nil (feedback never blocks) *)
Definition kmon_fill (c : kcase) : bool := fill_ok c.

Definition kdiffs (l : list kcase) := bad_idx kdiff_case l.
Definition kmons (l : list kcase) := mon_idx [kmon_input_room; kmon_token_cap; kmon_fill] l.

(* ------------------------------------------------------------------ what the pipeline configures *)

(* one real crawl (controler.Start with --workers w); the reactor was sampled while it ran *)
Record pcase := PC {
  p_workers : nat;       (* --workers *)
  p_tokcap : nat;        (* cap(tokenPool) seen by the watcher *)
  p_maxtracked : nat;    (* most state-table entries at any sample *)
  p_inputs : nat;        (* seeds given on the command line *)
  p_rows : nat;          (* rows of the local queue *)
  p_finished : nat;      (* seeds the child saw finished *)
  p_samples : nat;
  p_complete : bool }.   (* the crawl ran to its end and the watcher saw the reactor *)

(* the model instantiated with n = --workers: capacity n, and (C12_accounting) never more than n
   tracked seeds *)
Definition pdiff_case (c : pcase) : bool :=
  p_complete c
  && negb ((p_tokcap c =? cap (init (p_workers c) (p_workers c))) && (p_maxtracked c <=? cap (init (p_workers c) (p_workers c)))
           && (p_finished c =? p_inputs c + p_rows c)).

(* monitor 0 - the pipeline gives the reactor exactly --workers tokens *)
Definition pmon_tokens_are_workers (c : pcase) : bool :=
  if p_complete c then p_tokcap c =? p_workers c else true.
(* monitor 1 - at most --workers seeds in flight, at every sample *)
Definition pmon_bounded (c : pcase) : bool := p_maxtracked c <=? p_workers c.
(* monitor 2 - the crawl completed (the watcher needs something to look at) *)
Definition pmon_complete (c : pcase) : bool := p_complete c.

Definition pdiffs (l : list pcase) := bad_idx pdiff_case l.
Definition pmons (l : list pcase) := mon_idx [pmon_tokens_are_workers; pmon_bounded; pmon_complete] l.
