(* C12 - proofs about the reactor model (Reactor.v): the invariant of reactor + well-formed client. *)
From Coq Require Import Lia.
From ZenoV Require Import Reactor.ReactorBase.

(* ------------------------------------------------------------------ well-formed clients *)

(* The invariant of reactor + well-formed client.  Every tracked seed is in exactly one place
   (w_loc1): carried by an insert that has stored it, in the input channel, in run()'s hand, in
   the output buffer, held by the client, or carried by a feedback / an unfinished finish call. *)
Record WInv (s : state) : Prop := {
  w_crash : crashed s = false;
  w_loc1 : forall j, sumw (w_loc_id j) (calls s) + cnt j (input s) + cnt j (hand_list s)
                     + cnt j (outq s) + cnt j (held s) = cnt j (table s);
  w_pre : forall j, sumw (w_pre_id j) (calls s) + cnt j (table s) <= 1;
  w_len : sumw w_loc (calls s) + length (input s) + length (hand_list s)
          + length (outq s) + length (held s) = length (table s);
  w_acc1 : tokens s = length (table s) + sumw w_trans (calls s);
  w_acc2 : tokens s <= cap s;
  w_nil : nilled s = true -> calls s = [];
  w_run : running s = false -> cancelled s = true;
  w_can : cancelled s = true -> frozen s = true;
  w_noorig : sumw w_orig (calls s) = 0 }.

Lemma winv_init : forall n m, WInv (init n m).
Proof. intros n m. constructor; simpl; auto; try discriminate; intros; lia. Qed.

Lemma pre_zero : forall i l, ~ In i (omap ins_pre_id l) -> sumw (w_pre_id i) l = 0.
Proof.
  induction l as [|p r IH]; simpl; intros H; [auto|].
  destruct p; simpl in *; try (apply IH; exact H);
    try (destruct (i0 =? i) eqn:E;
         [apply Nat.eqb_eq in E; subst; exfalso; apply H; left; reflexivity
         | apply IH; intro; apply H; right; assumption]).
Qed.

Ltac facts2 :=
  repeat match goal with
  | H : memb Nat.eqb _ _ = true |- _ => apply memb_nat_In in H
  | H : memb Nat.eqb _ _ = false |- _ => apply memb_nat_notIn in H
  | H : (_ && _) = true |- _ => apply andb_true_iff in H; destruct H
  | H : negb _ = true |- _ => apply negb_true_iff in H
  | H : tracked _ _ = true |- _ => unfold tracked in H; apply memb_nat_In in H
  | H : tracked _ _ = false |- _ => unfold tracked in H; apply memb_nat_notIn in H
  end.

(* branches that a well-formed client never reaches *)
Ltac absurd_branch W :=
  match goal with
  | Hn : nilled ?s = true, Hin : In _ (calls ?s) |- _ =>
      exfalso; rewrite (w_nil _ W Hn) in Hin; exact Hin
  | Hin : In (PInsStore ?i) (calls ?s), Ht : In ?i (table ?s) |- _ =>
      exfalso; apply cnt_pos_In in Ht;
      pose proof (sumw_In_le (w_pre_id i) _ _ Hin) as Hle; simpl in Hle; rewrite Nat.eqb_refl in Hle;
      pose proof (w_pre _ W i); lia
  | Hin : In ?p (calls ?s), Hn : ~ In ?i (table ?s) |- _ =>
      exfalso; apply Hn; apply cnt_pos_In;
      pose proof (sumw_In_le (w_loc_id i) p (calls s) Hin) as Hle; simpl in Hle; rewrite Nat.eqb_refl in Hle;
      pose proof (w_loc1 _ W i); lia
  | Hin : In (PFbSwap ?i) (calls ?s) |- _ =>
      exfalso; pose proof (sumw_In_le w_orig _ _ Hin) as Hle; simpl in Hle; pose proof (w_noorig _ W); lia
  end.

Ltac pose_all j :=
  pose_sums w_loc; pose_sums (w_loc_id j); pose_sums (w_pre_id j); pose_sums w_trans; pose_sums w_orig.

Ltac rem_facts j :=
  repeat match goal with
  | Hin : In ?i (held ?s) |- _ =>
      lazymatch goal with
      | _ : S (length (rem1 Nat.eqb i (held s))) = _ |- _ => fail
      | _ => pose proof (length_rem1 i (held s) Hin); pose proof (cnt_rem1 j i (held s) Hin)
      end
  | Hin : In ?i (table ?s) |- _ =>
      lazymatch goal with
      | _ : S (length (rem1 Nat.eqb i (table s))) = _ |- _ => fail
      | _ => pose proof (length_rem1 i (table s) Hin); pose proof (cnt_rem1 j i (table s) Hin)
      end
  end.

Ltac chan_eqs :=
  unfold hand_list in *;
  repeat match goal with
  | E : hand ?s = _ |- _ => rewrite E in *; clear E
  | E : input ?s = _ |- _ => rewrite E in *; clear E
  | E : outq ?s = _ |- _ => rewrite E in *; clear E
  end.

Lemma winv_step : forall s l s',
  WInv s -> wf_label s l = true -> step fixed s l = Some s' -> WInv s'.
Proof.
  intros s l s' W Hwf H.
  pose proof (w_crash s W) as Wc; pose proof (w_loc1 s W) as W1; pose proof (w_pre s W) as Wp;
    pose proof (w_len s W) as Wl; pose proof (w_acc1 s W) as Wa1; pose proof (w_acc2 s W) as Wa2;
    pose proof (w_nil s W) as Wn; pose proof (w_run s W) as Wr; pose proof (w_can s W) as Wcn;
    pose proof (w_noorig s W) as Wo.
  step_cases H; simpl in Hwf; facts2; try (absurd_branch W).
  all: constructor; unf; simpl; try assumption; try reflexivity.
  all: try match goal with
           | Hp : ~ In ?i (omap ins_pre_id (calls ?s)), Ht : ~ In ?i (table ?s) |- _ =>
               pose proof (pre_zero i _ Hp); apply cnt_zero_notIn in Ht
           end.
  all: try (intro j; specialize (W1 j); specialize (Wp j); pose_all j; rem_facts j; chan_eqs;
            rewrite ?cnt_app, ?app_length in *; simpl in *; unfold id in *; eqbs; lia).
  all: try (pose_all 0; rem_facts 0; chan_eqs; rewrite ?app_length in *; simpl in *; unfold id in *; lia).
  all: try (intros; simpl in *; congruence).
  all: try (intros; simpl in *; auto; fail).
  all: try (intro Hx; exfalso; match goal with Hin : In _ (calls ?s) |- _ => rewrite (Wn Hx) in Hin; exact Hin end).
  all: try (intros _; match goal with Hw : match calls ?s with _ => _ end = true |- _ => destruct (calls s); [reflexivity | discriminate Hw] end).
Qed.

