(* C12 - proofs about the reactor model (Reactor.v): the per-seed token ledger. *)
From Coq Require Import Lia.
From ZenoV Require Import Reactor.ReactorBase.

(* ------------------------------------------------------------------ the token ledger *)

(* per seed: entries in the table + finishes that returned nil or are about to = inserts that
   returned nil or are about to *)
Definition Ledger (s : state) : Prop :=
  crashed s = false ->
  forall j, cnt j (table s) + cntret (OFin j) ROk (rets s) + sumw (w_rel_id j) (calls s)
            = cntret (OIns j) ROk (rets s) + sumw (w_send_id j) (calls s).

Lemma ledger_step : forall v s l s', v_fb_fix v = true ->
  Ledger s -> step v s l = Some s' -> Ledger s'.
Proof.
  intros v s l s' Hv A H. use_fb_fix Hv H. step_cases H; specialize (A Hnc);
    unf; unfold Ledger; simpl; intros Hc j; try discriminate Hc; specialize (A j);
    try (rewrite Hv in *; try discriminate);
    pose_sums (w_rel_id j); pose_sums (w_send_id j);
    try match goal with
    | Hin : In ?i (table s) |- context [rem1 Nat.eqb ?i (table s)] =>
        pose proof (cnt_rem1 j i (table s) Hin)
    end;
    try match goal with b : bool |- _ => destruct b end;
    simpl in *; unfold id in *; eqbs; try lia.
Qed.

Lemma ledger_init : forall n m, Ledger (init n m).
Proof. intros n m _ j. reflexivity. Qed.

