(* C12 - proofs about the reactor model (Reactor.v): list helpers, run, tactics. *)
From Coq Require Export Lia.
From ZenoV Require Export Reactor.Reactor.

(* ------------------------------------------------------------------ list helpers *)

Lemma res_eqb_eq : forall a b, res_eqb a b = true <-> a = b.
Proof. destruct a, b; simpl; split; intro H; try discriminate; reflexivity. Qed.

Lemma res_eqb_refl : forall a, res_eqb a a = true.
Proof. destruct a; reflexivity. Qed.

Lemma pc_eqb_eq : forall a b, pc_eqb a b = true <-> a = b.
Proof.
  destruct a, b; simpl; rewrite ?andb_true_iff, ?Nat.eqb_eq, ?Bool.eqb_true_iff; split; intro H;
    try discriminate; try (inversion H; subst; auto); try (destruct H; subst; reflexivity).
Qed.

Lemma pc_eqb_refl : forall a, pc_eqb a a = true.
Proof. intro a. apply pc_eqb_eq. reflexivity. Qed.

Lemma memb_pc_In : forall p l, memb pc_eqb p l = true <-> In p l.
Proof.
  induction l as [|q r IH]; simpl.
  - split; [discriminate | tauto].
  - rewrite orb_true_iff, IH, pc_eqb_eq. split; intros [H|H]; auto.
Qed.

Lemma memb_nat_In : forall i l, memb Nat.eqb i l = true <-> In i l.
Proof.
  induction l as [|q r IH]; simpl.
  - split; [discriminate | tauto].
  - rewrite orb_true_iff, IH, Nat.eqb_eq. split; intros [H|H]; auto.
Qed.

Lemma memb_nat_notIn : forall i l, memb Nat.eqb i l = false <-> ~ In i l.
Proof.
  intros i l. rewrite <- memb_nat_In. destruct (memb Nat.eqb i l); split; intro H; congruence.
Qed.

Lemma sumw_rem1 : forall w p l, In p l -> sumw w (rem1 pc_eqb p l) + w p = sumw w l.
Proof.
  induction l as [|q r IH]; simpl; intros H; [tauto|].
  destruct (pc_eqb p q) eqn:E.
  - apply pc_eqb_eq in E. subst. lia.
  - destruct H as [H|H]; [subst; rewrite pc_eqb_refl in E; discriminate|].
    simpl. specialize (IH H). lia.
Qed.

Lemma sumw_pos_In : forall w l, 0 < sumw w l -> exists p, In p l /\ 0 < w p.
Proof.
  induction l as [|q r IH]; simpl; intros H; [lia|].
  destruct (w q) eqn:E.
  - destruct (IH H) as [p [Hp Hw]]. exists p. auto.
  - exists q. split; auto. lia.
Qed.

Lemma sumw_In_le : forall w p l, In p l -> w p <= sumw w l.
Proof.
  induction l as [|q r IH]; simpl; intros H; [tauto|].
  destruct H as [H|H]; [subst; lia|]. specialize (IH H). lia.
Qed.

Lemma sumw_zero : forall w l, sumw w l = 0 -> forall p, In p l -> w p = 0.
Proof. intros w l H p Hin. pose proof (sumw_In_le w p l Hin). lia. Qed.

Lemma cnt_app : forall j a b, cnt j (a ++ b) = cnt j a + cnt j b.
Proof. induction a as [|x r IH]; simpl; intros; [reflexivity|]. rewrite IH. lia. Qed.

Lemma cnt_pos_In : forall j l, 0 < cnt j l <-> In j l.
Proof.
  induction l as [|x r IH]; simpl; [split; [lia|tauto]|].
  destruct (x =? j) eqn:E.
  - apply Nat.eqb_eq in E. subst. split; [auto|lia].
  - apply Nat.eqb_neq in E. rewrite <- IH. split; [intro H; right; lia| intros [H|H]; [congruence|lia]].
Qed.

Lemma cnt_zero_notIn : forall j l, cnt j l = 0 <-> ~ In j l.
Proof. intros j l. rewrite <- cnt_pos_In. lia. Qed.

Lemma cnt_rem1 : forall j i l, In i l ->
  cnt j (rem1 Nat.eqb i l) + (if i =? j then 1 else 0) = cnt j l.
Proof.
  induction l as [|x r IH]; simpl; intros H; [tauto|].
  destruct (i =? x) eqn:E.
  - apply Nat.eqb_eq in E. subst. lia.
  - destruct H as [H|H]; [subst; rewrite Nat.eqb_refl in E; discriminate|].
    simpl. specialize (IH H). lia.
Qed.

Lemma rem1_notIn : forall i l, ~ In i l -> rem1 Nat.eqb i l = l.
Proof.
  induction l as [|x r IH]; simpl; intros H; [reflexivity|].
  destruct (i =? x) eqn:E.
  - apply Nat.eqb_eq in E. subst. tauto.
  - f_equal. apply IH. tauto.
Qed.

Lemma length_rem1 : forall i l, In i l -> S (length (rem1 Nat.eqb i l)) = length l.
Proof.
  induction l as [|x r IH]; simpl; intros H; [tauto|].
  destruct (i =? x) eqn:E; [reflexivity|].
  destruct H as [H|H]; [subst; rewrite Nat.eqb_refl in E; discriminate|].
  simpl. rewrite IH; auto.
Qed.

Lemma In_rem1 : forall j i l, In j (rem1 Nat.eqb i l) -> In j l.
Proof.
  induction l as [|x r IH]; simpl; intros H; [tauto|].
  destruct (i =? x); [right; exact H|]. destruct H as [H|H]; auto.
Qed.

Lemma cnt_le_length : forall j l, cnt j l <= length l.
Proof. induction l as [|x r IH]; simpl; [lia|]. destruct (x =? j); lia. Qed.

Lemma NoDup_cnt : forall l, (forall j, cnt j l <= 1) -> NoDup l.
Proof.
  induction l as [|x r IH]; intros H; constructor.
  - intro Hin. apply cnt_pos_In in Hin. specialize (H x). simpl in H. rewrite Nat.eqb_refl in H. lia.
  - apply IH. intro j. specialize (H j). simpl in H. lia.
Qed.

(* ------------------------------------------------------------------ run *)

Lemma run_app : forall v ls1 ls2 s,
  run v s (ls1 ++ ls2) = match run v s ls1 with Some s' => run v s' ls2 | None => None end.
Proof.
  induction ls1 as [|l r IH]; simpl; intros; [reflexivity|].
  destruct (step v s l); [apply IH | reflexivity].
Qed.

(* an invariant of [step] holds after every label sequence *)
Lemma run_inv : forall v (P : state -> Prop),
  (forall s l s', P s -> step v s l = Some s' -> P s') ->
  forall ls s s', P s -> run v s ls = Some s' -> P s'.
Proof.
  intros v P Hstep. induction ls as [|l r IH]; simpl; intros s s' HP H.
  - inversion H. subst. exact HP.
  - destruct (step v s l) eqn:E; [|discriminate]. eapply IH; [|exact H]. eapply Hstep; eauto.
Qed.

Lemma runw_run : forall v ls s s', runw v s ls = Some s' -> run v s ls = Some s'.
Proof.
  induction ls as [|l r IH]; simpl; intros s s' H; [exact H|].
  destruct (wf_label s l); [|discriminate].
  destruct (step v s l); [apply IH; exact H | discriminate].
Qed.

Lemma runw_inv : forall v (P : state -> Prop),
  (forall s l s', P s -> wf_label s l = true -> step v s l = Some s' -> P s') ->
  forall ls s s', P s -> runw v s ls = Some s' -> P s'.
Proof.
  intros v P Hstep. induction ls as [|l r IH]; simpl; intros s s' HP H.
  - inversion H. subst. exact HP.
  - destruct (wf_label s l) eqn:W; [|discriminate].
    destruct (step v s l) eqn:E; [|discriminate]. eapply IH; [|exact H]. eapply Hstep; eauto.
Qed.

(* ------------------------------------------------------------------ tactics *)

Ltac brk H :=
  repeat match type of H with
  | context [match ?x with _ => _ end] => let E := fresh "E" in destruct x eqn:E; try discriminate H
  end.

Ltac unf := unfold crash, ret, push_input, call_add, call_del, call_mov, give_back, take_from_client,
  with_tokens, with_table, with_input, with_hand, with_outq, with_running, with_frozen, with_cancelled,
  with_nilled, with_crashed, with_calls, with_rets, with_sent, with_consumed, with_held in *.

(* turn boolean facts produced by [brk] into propositions *)
Ltac facts :=
  repeat match goal with
  | H : at_pc _ _ = true |- _ => unfold at_pc in H; apply memb_pc_In in H
  | H : tracked _ _ = true |- _ => unfold tracked in H; apply memb_nat_In in H
  | H : tracked _ _ = false |- _ => unfold tracked in H; apply memb_nat_notIn in H
  | H : (_ <? _) = true |- _ => apply Nat.ltb_lt in H
  | H : (_ <? _) = false |- _ => apply Nat.ltb_ge in H
  | H : (_ && _) = true |- _ => apply andb_true_iff in H; destruct H
  | H : (_ || _) = false |- _ => apply orb_false_iff in H; destruct H
  | H : negb _ = true |- _ => apply negb_true_iff in H
  end.

(* one step, all cases: H : step v s l = Some s' *)
Ltac step_cases H :=
  unfold step, closed_test in H;
  match type of H with (if crashed ?s then _ else _) = _ =>
    let C := fresh "Hnc" in destruct (crashed s) eqn:C; [discriminate H|] end;
  match type of H with match ?l with _ => _ end = _ => destruct l end;
  brk H; inversion H; subst; clear H; facts;
  try match goal with E : _ fixed = false |- _ => simpl in E; discriminate E end.

(* Hv : v_fb_fix v = true  is split and used up in  H : step v s l = Some s' *)
Ltac use_fb_fix Hv H :=
  let Hv2 := fresh "Hv2" in
  unfold v_fb_fix in Hv; apply andb_true_iff in Hv; destruct Hv as [Hv Hv2];
  unfold step in H; rewrite ?Hv, ?Hv2 in H.

Ltac pose_sums w :=
  repeat match goal with
  | Hin : In ?p (calls ?s) |- _ =>
      lazymatch goal with
      | _ : sumw w (rem1 pc_eqb p (calls s)) + _ = _ |- _ => fail
      | _ => pose proof (sumw_rem1 w p (calls s) Hin)
      end
  end.

Ltac eqbs :=
  repeat match goal with
  | H : (?a =? ?b) = true |- _ => apply Nat.eqb_eq in H; try subst
  | H : (?a =? ?b) = false |- _ => apply Nat.eqb_neq in H
  | |- context [?a =? ?b] => let E := fresh "Eq" in destruct (a =? b) eqn:E
  | H : context [?a =? ?b] |- _ => let E := fresh "Eq" in destruct (a =? b) eqn:E
  end.

Ltac step_cases2 H :=
  step_cases H;
  repeat match goal with
  | E : match ?x with _ => _ end = _ |- _ => destruct x eqn:?; try discriminate E
  end;
  repeat match goal with
  | E : Some _ = Some _ |- _ => inversion E; subst; clear E
  end; facts.

Lemma cons_neq : forall {A} (x : A) l, x :: l <> l.
Proof. intros A x l H. apply (f_equal (@length A)) in H. simpl in H. lia. Qed.

