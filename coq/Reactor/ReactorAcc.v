(* C12 - proofs about the reactor model (Reactor.v): the accounting invariant. *)
From Coq Require Import Lia.
From ZenoV Require Import Reactor.ReactorBase.

(* ------------------------------------------------------------------ accounting *)

(* tokens in use = tracked seeds + calls that hold a token for a seed that is not in the table
   (inserts between token and store, finishes between delete and release); never more than cap *)
Definition Acc (s : state) : Prop :=
  crashed s = false ->
  tokens s = length (table s) + sumw w_trans (calls s) /\ tokens s <= cap s.

Lemma acc_step : forall v s l s', v_fb_fix v = true ->
  Acc s -> step v s l = Some s' -> Acc s'.
Proof.
  intros v s l s' Hv A H. use_fb_fix Hv H. step_cases H; specialize (A Hnc); destruct A as [A1 A2];
    unf; unfold Acc; simpl; intro Hc; try discriminate Hc;
    try (rewrite Hv in *; try discriminate);
    pose_sums w_trans;
    try match goal with
    | Hin : In ?i (table s) |- context [rem1 Nat.eqb ?i (table s)] =>
        pose proof (length_rem1 i (table s) Hin)
    end;
    simpl in *; unfold id in *; try lia.
Qed.

Lemma cap_step : forall v s l s', step v s l = Some s' -> cap s' = cap s /\ ocap s' = ocap s.
Proof. intros v s l s' H. step_cases H; unf; simpl; auto. Qed.

Lemma acc_init : forall n m, Acc (init n m).
Proof. intros n m _. simpl. lia. Qed.

