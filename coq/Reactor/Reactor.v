(* C12 - model of internal/pkg/reactor/reactor.go (Start/Stop/Freeze/ReceiveInsert/
   ReceiveFeedback/MarkAsFinished/run).  Executable definitions only; proofs are in
   ReactorProofs.v.

   A deterministic labelled transition system at the granularity of the shared-memory actions of
   the Go code (one channel operation, one sync.Map operation, one context test per step).  A
   label names the action and carries every nondeterministic choice: which call moves (calls in
   progress are anonymous and identified by their program counter, which contains the seed id -
   two calls at the same pc for the same id are indistinguishable), and which arm of a `select`
   fires (ANY ready arm may be chosen, as in Go).  [step] returns None when the action is not
   enabled (no such call, or the channel operation would block).

   Two places of the code are changed by the fix patches fixes/C12-*.diff; the [variant] record
   selects the code before or after each fix, so that the refutation witnesses about the
   original code stay machine-checked:
     v_fb_load     ReceiveFeedback Load()s and rejects a missing entry before it writes
                   / original: Swap() first, test `loaded` afterwards
     v_fb_cas      ... and then writes with CompareAndSwap in a loop, so that it only ever replaces
                   an existing entry / [loadstore]: a plain Store() after the Load() (a seeded
                   mutation of the fix: it re-creates an entry that a concurrent finish deleted)
     v_fb_fix      = v_fb_load && v_fb_cas: the fix as committed
     v_closed_fix  ReceiveInsert re-tests ctx/freezeCtx after it got its token and gives the
                   token back, ReceiveFeedback tests them before its select / original: only the
                   select arms, chosen at random among the ready ones *)
From Coq Require Export List Arith Bool PeanoNat.
Export ListNotations.

Definition id := nat.

(* return values of the API *)
Inductive res :=
| ROk
| RNotInit      (* ErrReactorNotInitialized *)
| RShut         (* ErrReactorShuttingDown *)
| RFrozen       (* ErrReactorFrozen *)
| RNotPresent   (* ErrFeedbackItemNotPresent *)
| RNotFound     (* ErrFinisehdItemNotFound *)
| RPanic.       (* the call panicked *)

Inductive op := OIns (i : id) | OFb (i : id) | OFin (i : id).

(* program counter of an API call in progress *)
Inductive pc :=
| PInsSel (i : id)            (* ReceiveInsert: in the blocking select *)
| PInsChk (i : id)            (* token taken, before the re-test of ctx/freezeCtx (fixed code only) *)
| PInsBack (i : id) (shut : bool) (* re-test failed (ctx done / only freezeCtx done), before  <-tokenPool  (fixed code only) *)
| PInsStore (i : id)          (* token held, before stateTable.LoadOrStore *)
| PInsSend (i : id)           (* stored, before  input <- item *)
| PFbLoad (i : id)            (* ReceiveFeedback (fixed): before stateTable.Load *)
| PFbCas (i : id)             (* (fixed) loaded, before stateTable.CompareAndSwap *)
| PFbSwap (i : id)            (* (original) before stateTable.Swap *)
| PFbChk (i : id)             (* (fixed) entry replaced, before the test of ctx/freezeCtx *)
| PFbSel (i : id)             (* in the select *)
| PFinDel (i : id)            (* MarkAsFinished: before LoadAndDelete *)
| PFinRel (i : id).           (* deleted, before  <-tokenPool *)

(* arms of a select; also the three outcomes of the ctx/freezeCtx test *)
Inductive arm :=
| ArmCtx       (* <-ctx.Done()        / ctx.Err() != nil *)
| ArmFrozen    (* <-freezeCtx.Done()  / freezeCtx.Err() != nil *)
| ArmChan.     (* the channel operation: tokenPool <- {} (insert), input <- item (feedback) / both nil *)

Inductive label :=
| InsCall (i : id)               (* nil check, enter the select *)
| InsSelect (i : id) (a : arm)
| InsCheck (i : id) (a : arm)
| InsBack (i : id) (shut : bool)
| InsStore (i : id)
| InsSend (i : id)
| FbCall (i : id)                (* nil check, IsSeed *)
| FbLoad (i : id)
| FbCas (i : id)
| FbSwap (i : id)
| FbCheck (i : id) (a : arm)
| FbSelect (i : id) (a : arm)
| FinCall (i : id)
| FinDelete (i : id)
| FinRelease (i : id)
| RunRecv                        (* run(): item <- input *)
| RunSend                        (* run(): output <- item into the output channel's buffer *)
| RunHand                        (* run(): output <- item handed directly to a waiting consumer *)
| RunExit                        (* run(): <-ctx.Done() (outer or inner select) *)
| Consume                        (* a consumer receives from the output channel's buffer *)
| Freeze                         (* Freeze(): freezeCancel() *)
| StopCancel                     (* Stop(): cancel() - cancels ctx and its child freezeCtx *)
| StopFinish.                    (* Stop(): wg.Wait() returned; close(input); globalReactor = nil *)

Record variant := Variant { v_fb_load : bool; v_closed_fix : bool; v_fb_cas : bool }.
Definition v_fb_fix (v : variant) : bool := v_fb_load v && v_fb_cas v.
Definition original := Variant false false true.
Definition fixed := Variant true true true.
Definition loadstore := Variant true true false.

Record state := St {
  cap : nat;                 (* maxTokens = cap(tokenPool) = cap(input) *)
  ocap : nat;                (* cap(output); the channel belongs to the caller of Start *)
  tokens : nat;              (* len(tokenPool): tokens in use *)
  table : list id;           (* keys of stateTable *)
  input : list id;           (* buffered channel, head = oldest *)
  hand : option id;          (* item held by run() between its receive and its send
                                (stays there when run() exits while holding it: the item is dropped) *)
  outq : list id;            (* buffer of the output channel, head = oldest *)
  running : bool;            (* run() has not returned *)
  frozen : bool;             (* freezeCtx is done *)
  cancelled : bool;          (* ctx is done *)
  nilled : bool;             (* Stop() completed: input closed, globalReactor == nil *)
  crashed : bool;            (* a panic happened (duplicate insert, nil dereference, send on closed channel) *)
  calls : list pc;           (* API calls in progress *)
  rets : list (op * res);    (* ghost: calls that returned, newest first *)
  sent : list id;            (* ghost: every completed send on input, oldest first *)
  consumed : list id;        (* ghost: everything consumers received from the output, oldest first *)
  held : list id             (* ghost: seeds the client owns (received, not yet fed back / finished) *)
}.

Definition init (n m : nat) : state := St n m 0 [] [] None [] true false false false false [] [] [] [] [].

Definition with_tokens v s := St (cap s) (ocap s) v (table s) (input s) (hand s) (outq s) (running s) (frozen s) (cancelled s) (nilled s) (crashed s) (calls s) (rets s) (sent s) (consumed s) (held s).
Definition with_table v s := St (cap s) (ocap s) (tokens s) v (input s) (hand s) (outq s) (running s) (frozen s) (cancelled s) (nilled s) (crashed s) (calls s) (rets s) (sent s) (consumed s) (held s).
Definition with_input v s := St (cap s) (ocap s) (tokens s) (table s) v (hand s) (outq s) (running s) (frozen s) (cancelled s) (nilled s) (crashed s) (calls s) (rets s) (sent s) (consumed s) (held s).
Definition with_hand v s := St (cap s) (ocap s) (tokens s) (table s) (input s) v (outq s) (running s) (frozen s) (cancelled s) (nilled s) (crashed s) (calls s) (rets s) (sent s) (consumed s) (held s).
Definition with_outq v s := St (cap s) (ocap s) (tokens s) (table s) (input s) (hand s) v (running s) (frozen s) (cancelled s) (nilled s) (crashed s) (calls s) (rets s) (sent s) (consumed s) (held s).
Definition with_running v s := St (cap s) (ocap s) (tokens s) (table s) (input s) (hand s) (outq s) v (frozen s) (cancelled s) (nilled s) (crashed s) (calls s) (rets s) (sent s) (consumed s) (held s).
Definition with_frozen v s := St (cap s) (ocap s) (tokens s) (table s) (input s) (hand s) (outq s) (running s) v (cancelled s) (nilled s) (crashed s) (calls s) (rets s) (sent s) (consumed s) (held s).
Definition with_cancelled v s := St (cap s) (ocap s) (tokens s) (table s) (input s) (hand s) (outq s) (running s) (frozen s) v (nilled s) (crashed s) (calls s) (rets s) (sent s) (consumed s) (held s).
Definition with_nilled v s := St (cap s) (ocap s) (tokens s) (table s) (input s) (hand s) (outq s) (running s) (frozen s) (cancelled s) v (crashed s) (calls s) (rets s) (sent s) (consumed s) (held s).
Definition with_crashed v s := St (cap s) (ocap s) (tokens s) (table s) (input s) (hand s) (outq s) (running s) (frozen s) (cancelled s) (nilled s) v (calls s) (rets s) (sent s) (consumed s) (held s).
Definition with_calls v s := St (cap s) (ocap s) (tokens s) (table s) (input s) (hand s) (outq s) (running s) (frozen s) (cancelled s) (nilled s) (crashed s) v (rets s) (sent s) (consumed s) (held s).
Definition with_rets v s := St (cap s) (ocap s) (tokens s) (table s) (input s) (hand s) (outq s) (running s) (frozen s) (cancelled s) (nilled s) (crashed s) (calls s) v (sent s) (consumed s) (held s).
Definition with_sent v s := St (cap s) (ocap s) (tokens s) (table s) (input s) (hand s) (outq s) (running s) (frozen s) (cancelled s) (nilled s) (crashed s) (calls s) (rets s) v (consumed s) (held s).
Definition with_consumed v s := St (cap s) (ocap s) (tokens s) (table s) (input s) (hand s) (outq s) (running s) (frozen s) (cancelled s) (nilled s) (crashed s) (calls s) (rets s) (sent s) v (held s).
Definition with_held v s := St (cap s) (ocap s) (tokens s) (table s) (input s) (hand s) (outq s) (running s) (frozen s) (cancelled s) (nilled s) (crashed s) (calls s) (rets s) (sent s) (consumed s) v.

Definition res_eqb (a b : res) : bool :=
  match a, b with
  | ROk, ROk | RNotInit, RNotInit | RShut, RShut | RFrozen, RFrozen
  | RNotPresent, RNotPresent | RNotFound, RNotFound | RPanic, RPanic => true
  | _, _ => false
  end.

Definition pc_eqb (a b : pc) : bool :=
  match a, b with
  | PInsSel i, PInsSel j | PInsChk i, PInsChk j | PInsStore i, PInsStore j | PInsSend i, PInsSend j
  | PFbLoad i, PFbLoad j | PFbCas i, PFbCas j | PFbSwap i, PFbSwap j | PFbChk i, PFbChk j
  | PFbSel i, PFbSel j | PFinDel i, PFinDel j | PFinRel i, PFinRel j => i =? j
  | PInsBack i r, PInsBack j q => (i =? j) && Bool.eqb r q
  | _, _ => false
  end.

Section ListOps.
Context {A : Type} (eqb : A -> A -> bool).
(* membership and removal of the first occurrence *)
Fixpoint memb (x : A) (l : list A) : bool :=
  match l with [] => false | y :: r => eqb x y || memb x r end.
Fixpoint rem1 (x : A) (l : list A) : list A :=
  match l with [] => [] | y :: r => if eqb x y then r else y :: rem1 x r end.
End ListOps.

Definition ret (o : op) (r : res) (s : state) : state := with_rets ((o, r) :: rets s) s.
Definition call_add (p : pc) (s : state) : state := with_calls (p :: calls s) s.
Definition call_del (p : pc) (s : state) : state := with_calls (rem1 pc_eqb p (calls s)) s.
Definition call_mov (p q : pc) (s : state) : state := with_calls (q :: rem1 pc_eqb p (calls s)) s.
(* a panic: the call is gone, and so is the process - no label is enabled afterwards *)
Definition crash (p : pc) (o : op) (s : state) : state := with_crashed true (ret o RPanic (call_del p s)).
Definition at_pc (p : pc) (s : state) : bool := memb pc_eqb p (calls s).
Definition tracked (i : id) (s : state) : bool := memb Nat.eqb i (table s).
Definition give_back (i : id) (s : state) : state := with_held (i :: held s) s.
Definition take_from_client (i : id) (s : state) : state := with_held (rem1 Nat.eqb i (held s)) s.
Definition push_input (i : id) (s : state) : state := with_sent (sent s ++ [i]) (with_input (input s ++ [i]) s).

(* the test of ctx and freezeCtx (closedErr in the fixed code): the label says what it found.
   [Some None] = neither is done; [Some (Some shut)] = error [back_res shut]; [None] = this outcome is impossible now.
   ctx is tested first and freezeCtx second, and a cancelled ctx cancels freezeCtx, so "frozen" may
   be reported while stopping, but never "open" while frozen or stopping. *)
Definition closed_test (s : state) (a : arm) : option (option bool) :=
  match a with
  | ArmCtx => if cancelled s then Some (Some true) else None
  | ArmFrozen => if frozen s then Some (Some false) else None
  | ArmChan => if frozen s || cancelled s then None else Some None
  end.
(* the error reported by a failed test *)
Definition back_res (shut : bool) : res := if shut then RShut else RFrozen.

Definition step (v : variant) (s : state) (l : label) : option state :=
  if crashed s then None else
  match l with
  (* ---- ReceiveInsert ---- *)
  | InsCall i =>
      if nilled s then Some (ret (OIns i) RNotInit s)
      else Some (call_add (PInsSel i) s)
  | InsSelect i a =>
      (* the channel operands were evaluated when the select was entered *)
      if at_pc (PInsSel i) s then
        match a with
        | ArmCtx => if cancelled s then Some (ret (OIns i) RShut (call_del (PInsSel i) s)) else None
        | ArmFrozen => if frozen s then Some (ret (OIns i) RFrozen (call_del (PInsSel i) s)) else None
        | ArmChan => if tokens s <? cap s
                     then Some (with_tokens (S (tokens s))
                                  (call_mov (PInsSel i) (if v_closed_fix v then PInsChk i else PInsStore i) s))
                     else None
        end
      else None
  | InsCheck i a =>
      if at_pc (PInsChk i) s then
        if nilled s then Some (crash (PInsChk i) (OIns i) s)        (* nil dereference *)
        else match closed_test s a with
             | Some None => Some (call_mov (PInsChk i) (PInsStore i) s)
             | Some (Some r) => Some (call_mov (PInsChk i) (PInsBack i r) s)
             | None => None
             end
      else None
  | InsBack i r =>
      if at_pc (PInsBack i r) s then
        if nilled s then Some (crash (PInsBack i r) (OIns i) s)
        else if 0 <? tokens s
             then Some (ret (OIns i) (back_res r) (with_tokens (pred (tokens s)) (call_del (PInsBack i r) s)))
             else None
      else None
  | InsStore i =>
      if at_pc (PInsStore i) s then
        if nilled s then Some (crash (PInsStore i) (OIns i) s)
        else if tracked i s then Some (crash (PInsStore i) (OIns i) s)   (* panic("item already present in reactor") *)
        else Some (with_table (i :: table s) (call_mov (PInsStore i) (PInsSend i) s))
      else None
  | InsSend i =>
      if at_pc (PInsSend i) s then
        if nilled s then Some (crash (PInsSend i) (OIns i) s)            (* nil dereference / send on closed channel *)
        else if length (input s) <? cap s
             then Some (ret (OIns i) ROk (push_input i (call_del (PInsSend i) s)))
             else None
      else None
  (* ---- ReceiveFeedback ---- *)
  | FbCall i =>
      if nilled s then Some (ret (OFb i) RNotInit s)
      else Some (take_from_client i (call_add (if v_fb_load v then PFbLoad i else PFbSwap i) s))
  | FbLoad i =>
      if at_pc (PFbLoad i) s then
        if nilled s then Some (crash (PFbLoad i) (OFb i) s)
        else if tracked i s then Some (call_mov (PFbLoad i) (PFbCas i) s)
        else Some (ret (OFb i) RNotPresent (call_del (PFbLoad i) s))
      else None
  | FbCas i =>
      (* one *Item per id: CompareAndSwap succeeds iff the entry is still there *)
      if at_pc (PFbCas i) s then
        if nilled s then Some (crash (PFbCas i) (OFb i) s)
        else if tracked i s
             then Some (call_mov (PFbCas i) (if v_closed_fix v then PFbChk i else PFbSel i) s)
             else if v_fb_cas v
             then Some (call_mov (PFbCas i) (PFbLoad i) s)               (* CompareAndSwap failed: load again *)
             else Some (with_table (i :: table s)                        (* [loadstore]: Store() creates the entry *)
                          (call_mov (PFbCas i) (if v_closed_fix v then PFbChk i else PFbSel i) s))
      else None
  | FbSwap i =>
      if v_fb_load v then None else
      if at_pc (PFbSwap i) s then
        if nilled s then Some (crash (PFbSwap i) (OFb i) s)
        else if tracked i s
             then Some (call_mov (PFbSwap i) (if v_closed_fix v then PFbChk i else PFbSel i) s)
             else Some (ret (OFb i) RNotPresent (with_table (i :: table s) (call_del (PFbSwap i) s)))
      else None
  | FbCheck i a =>
      if at_pc (PFbChk i) s then
        if nilled s then Some (crash (PFbChk i) (OFb i) s)
        else match closed_test s a with
             | Some None => Some (call_mov (PFbChk i) (PFbSel i) s)
             | Some (Some r) => Some (give_back i (ret (OFb i) (back_res r) (call_del (PFbChk i) s)))
             | None => None
             end
      else None
  | FbSelect i a =>
      (* the channel operands were evaluated when the select was entered (the FbCheck / FbCas step) *)
      if at_pc (PFbSel i) s then
        match a with
        | ArmCtx => if cancelled s then Some (give_back i (ret (OFb i) RShut (call_del (PFbSel i) s))) else None
        | ArmFrozen => if frozen s then Some (give_back i (ret (OFb i) RFrozen (call_del (PFbSel i) s))) else None
        | ArmChan => if nilled s then Some (crash (PFbSel i) (OFb i) s)      (* send on closed channel *)
                     else if length (input s) <? cap s
                     then Some (ret (OFb i) ROk (push_input i (call_del (PFbSel i) s)))
                     else None
        end
      else None
  (* ---- MarkAsFinished ---- *)
  | FinCall i =>
      if nilled s then Some (ret (OFin i) RNotInit s)
      else Some (take_from_client i (call_add (PFinDel i) s))
  | FinDelete i =>
      if at_pc (PFinDel i) s then
        if nilled s then Some (crash (PFinDel i) (OFin i) s)
        else if tracked i s
             then Some (with_table (rem1 Nat.eqb i (table s)) (call_mov (PFinDel i) (PFinRel i) s))
             else Some (ret (OFin i) RNotFound (call_del (PFinDel i) s))
      else None
  | FinRelease i =>
      if at_pc (PFinRel i) s then
        if nilled s then Some (crash (PFinRel i) (OFin i) s)
        else if 0 <? tokens s
             then Some (ret (OFin i) ROk (with_tokens (pred (tokens s)) (call_del (PFinRel i) s)))
             else None
      else None
  (* ---- run() and the consumers of the output channel ---- *)
  | RunRecv =>
      if running s then
        match hand s, input s with
        | None, i :: rest => Some (with_hand (Some i) (with_input rest s))
        | _, _ => None
        end
      else None
  | RunSend =>
      if running s then
        match hand s with
        | Some i => if length (outq s) <? ocap s
                    then Some (with_outq (outq s ++ [i]) (with_hand None s))
                    else None
        | None => None
        end
      else None
  | RunHand =>
      if running s then
        match hand s, outq s with
        | Some i, [] => Some (give_back i (with_consumed (consumed s ++ [i]) (with_hand None s)))
        | _, _ => None
        end
      else None
  | Consume =>
      match outq s with
      | i :: rest => Some (give_back i (with_consumed (consumed s ++ [i]) (with_outq rest s)))
      | [] => None
      end
  | RunExit => if running s && cancelled s then Some (with_running false s) else None
  (* ---- Freeze / Stop ---- *)
  | Freeze => if nilled s then Some s else Some (with_frozen true s)
  | StopCancel => if nilled s then Some s else Some (with_frozen true (with_cancelled true s))
  | StopFinish => if cancelled s && negb (running s) && negb (nilled s) then Some (with_nilled true s) else None
  end.

Fixpoint run (v : variant) (s : state) (ls : list label) : option state :=
  match ls with
  | [] => Some s
  | l :: r => match step v s l with Some s' => run v s' r | None => None end
  end.

(* ---- the client discipline under which the liveness theorems are stated ---- *)

Definition ins_pre_id (p : pc) : option id :=
  match p with PInsSel i | PInsChk i | PInsBack i _ | PInsStore i => Some i | _ => None end.
Fixpoint omap {A B} (f : A -> option B) (l : list A) : list B :=
  match l with [] => [] | x :: r => match f x with Some y => y :: omap f r | None => omap f r end end.

(* a well-formed client: inserts a seed only when it is neither tracked nor being inserted (ids
   are UUIDs minted with the item); feeds back / finishes only seeds it holds; completes Stop()
   only when no API call is in progress (Zeno stops every stage and the source before
   reactor.Stop()). *)
Definition wf_label (s : state) (l : label) : bool :=
  match l with
  | InsCall i => negb (tracked i s) && negb (memb Nat.eqb i (omap ins_pre_id (calls s)))
  | FbCall i | FinCall i => memb Nat.eqb i (held s)
  | StopFinish => match calls s with [] => true | _ => false end
  | _ => true
  end.

Fixpoint runw (v : variant) (s : state) (ls : list label) : option state :=
  match ls with
  | [] => Some s
  | l :: r => if wf_label s l then match step v s l with Some s' => runw v s' r | None => None end else None
  end.

(* steps of calls in progress *)
Definition call_step (l : label) : bool :=
  match l with
  | InsSelect _ _ | InsCheck _ _ | InsBack _ _ | InsStore _ | InsSend _
  | FbLoad _ | FbCas _ | FbSwap _ | FbCheck _ _ | FbSelect _ _ | FinDelete _ | FinRelease _ => true
  | _ => false
  end.
(* steps of run() and of the consumers *)
Definition sys_step (l : label) : bool :=
  match l with RunRecv | RunSend | RunHand | Consume => true | _ => false end.
Definition internal (l : label) : bool := call_step l || sys_step l.
(* steps of the feedback path *)
Definition fb_step (l : label) : bool :=
  match l with
  | FbCall _ | FbLoad _ | FbCas _ | FbCheck _ _ | FbSelect _ _ => true
  | _ => false
  end.

(* what the API, the getters and the channels let a client see *)
Record observable := Obs {
  ob_tokens : nat; ob_table : list id; ob_input : list id; ob_hand : option id; ob_outq : list id;
  ob_consumed : list id; ob_flags : bool * bool * bool * bool * bool }.
Definition observe (s : state) : observable :=
  Obs (tokens s) (table s) (input s) (hand s) (outq s) (consumed s)
      (running s, frozen s, cancelled s, nilled s, crashed s).

(* weights over the calls in progress *)
Fixpoint sumw (w : pc -> nat) (l : list pc) : nat :=
  match l with [] => 0 | p :: r => w p + sumw w r end.
(* a call that holds a token for a seed that is not in the table *)
Definition w_trans (p : pc) : nat :=
  match p with PInsChk _ | PInsBack _ _ | PInsStore _ | PFinRel _ => 1 | _ => 0 end.
(* a call that carries a tracked seed (the seed is "located" in this call) *)
Definition w_loc (p : pc) : nat :=
  match p with PInsSend _ | PFbLoad _ | PFbCas _ | PFbChk _ | PFbSel _ | PFinDel _ => 1 | _ => 0 end.
Definition w_loc_id (j : id) (p : pc) : nat :=
  match p with
  | PInsSend i | PFbLoad i | PFbCas i | PFbChk i | PFbSel i | PFinDel i => if i =? j then 1 else 0
  | _ => 0
  end.
Definition w_pre_id (j : id) (p : pc) : nat :=
  match p with PInsSel i | PInsChk i | PInsBack i _ | PInsStore i => if i =? j then 1 else 0 | _ => 0 end.
Definition w_send_id (j : id) (p : pc) : nat :=
  match p with PInsSend i => if i =? j then 1 else 0 | _ => 0 end.
Definition w_rel_id (j : id) (p : pc) : nat :=
  match p with PFinRel i => if i =? j then 1 else 0 | _ => 0 end.
(* a call that has passed the test of ctx/freezeCtx and may still store or send *)
Definition w_past (p : pc) : nat :=
  match p with PInsStore _ | PInsSend _ | PFbSel _ => 1 | _ => 0 end.
(* pcs of the original code only *)
Definition w_orig (p : pc) : nat := match p with PFbSwap _ => 1 | _ => 0 end.

Fixpoint cnt (j : id) (l : list id) : nat :=
  match l with [] => 0 | x :: r => (if x =? j then 1 else 0) + cnt j r end.
Definition hand_list (s : state) : list id := match hand s with Some i => [i] | None => [] end.

(* returns in the ghost log *)
Definition op_eqb (a b : op) : bool :=
  match a, b with
  | OIns i, OIns j | OFb i, OFb j | OFin i, OFin j => i =? j
  | _, _ => false
  end.
Fixpoint cntret (o : op) (r : res) (l : list (op * res)) : nat :=
  match l with
  | [] => 0
  | (o', r') :: t => (if res_eqb r' r && op_eqb o' o then 1 else 0) + cntret o r t
  end.
(* the seed of a completed send *)
Definition send_ok (x : op * res) : option id :=
  match x with (OIns i, ROk) | (OFb i, ROk) => Some i | _ => None end.
Definition accepting (x : op * res) : bool :=
  match x with (OIns _, ROk) | (OFb _, ROk) => true | _ => false end.

(* everything in transit, in the order it was sent *)
Definition flow (s : state) : list id := consumed s ++ outq s ++ hand_list s ++ input s.

(* termination measures *)
Definition sys_measure (s : state) : nat :=
  3 * length (input s) + 2 * length (hand_list s) + length (outq s).
Definition w_measure (p : pc) : nat :=
  match p with
  | PInsSel _ => 9 | PInsChk _ => 8 | PInsBack _ _ => 1 | PInsStore _ => 7 | PInsSend _ => 6
  | PFbLoad _ => 9 | PFbCas _ => 8 | PFbSwap _ => 8 | PFbChk _ => 7 | PFbSel _ => 6
  | PFinDel _ => 2 | PFinRel _ => 1
  end.
Definition measure (s : state) : nat := sumw w_measure (calls s) + sys_measure s.

(* the schedule that delivers everything in transit: run() alternates receive and hand-over /
   send, the consumer empties the buffer first *)
Fixpoint drain_input (n : nat) : list label :=
  match n with 0 => [] | S k => RunRecv :: RunHand :: drain_input k end.
Definition drain_labels (s : state) : list label :=
  repeat Consume (length (outq s))
  ++ (match hand s with Some _ => [RunHand] | None => [] end)
  ++ drain_input (length (input s)).
