(* C05 - facts about the scope predicate (Scope.v): the substring test meets its specification,
   the default exclusions are always present, include / exclude algebra. *)
From Coq Require Import Lia.
From ZenoV Require Import Scope.Scope.

(* ---- substring test = its specification ---------------------------------------------- *)
Definition substring (n h : bytes) : Prop := exists a b, h = a ++ n ++ b.

Lemma prefixb_spec p : forall s, prefixb p s = true <-> exists r, s = p ++ r.
Proof.
  induction p as [|a p IH]; intros s; cbn [prefixb].
  - split; [intros _; exists s; reflexivity | reflexivity].
  - destruct s as [|c s].
    + split; [discriminate | intros [r Hr]; discriminate].
    + rewrite andb_true_iff, IH. split.
      * intros [Hac [r Hr]]. apply Ascii.eqb_eq in Hac. subst. exists r. reflexivity.
      * intros [r Hr]. cbn in Hr. injection Hr as Hc Hs. subst. split; [apply Ascii.eqb_refl | exists r; reflexivity].
Qed.

Lemma contains_spec n : forall h, contains n h = true <-> substring n h.
Proof.
  induction h as [|c h IH]; cbn [contains].
  - rewrite prefixb_spec. split.
    + intros [r Hr]. exists [], r. exact Hr.
    + intros [a [b Hab]]. destruct a as [|x a]; [exists b; exact Hab | discriminate].
  - rewrite orb_true_iff, prefixb_spec, IH. split.
    + intros [[r Hr] | [a [b Hab]]].
      * exists [], r. exact Hr.
      * exists (c :: a), b. cbn. rewrite Hab. reflexivity.
    + intros [a [b Hab]]. destruct a as [|x a].
      * left. exists b. exact Hab.
      * right. cbn in Hab. injection Hab as _ Hh. exists a, b. exact Hh.
Qed.

Lemma contains_any_spec t l :
  contains_any t l = true <-> exists e, In e l /\ substring e t.
Proof.
  unfold contains_any. rewrite existsb_exists. split; intros [e [He Hc]]; exists e; split; try exact He;
    apply contains_spec; exact Hc.
Qed.

Lemma contains_any_false t l :
  contains_any t l = false <-> forall e, In e l -> ~ substring e t.
Proof.
  split.
  - intros Hf e He Hs. assert (contains_any t l = true) as Ht by (apply contains_any_spec; exists e; split; assumption).
    congruence.
  - intros H. destruct (contains_any t l) eqn:E; [|reflexivity].
    apply contains_any_spec in E as [e [He Hs]]. exfalso. exact (H e He Hs).
Qed.

(* the empty pattern matches every string: `--exclude-string ""` excludes everything *)
Lemma contains_empty h : contains [] h = true.
Proof. apply contains_spec. exists [], h. reflexivity. Qed.

(* ---- DedupeStrings keeps exactly the members ------------------------------------------ *)
Lemma memb_spec x l : memb x l = true <-> In x l.
Proof.
  unfold memb. rewrite existsb_exists. split.
  - intros [y [Hy He]]. apply bytes_eqb_eq in He. subst. exact Hy.
  - intros H. exists x. split; [exact H | apply bytes_eqb_refl].
Qed.

Lemma dedupe_from_in x : forall l seen, In x (dedupe_from seen l) <-> In x l /\ ~ In x seen.
Proof.
  induction l as [|y r IH]; intros seen; cbn [dedupe_from].
  - split; [intros [] | intros [[] _]].
  - destruct (memb y seen) eqn:E.
    + rewrite IH. apply memb_spec in E. split.
      * intros [H1 H2]. split; [right; exact H1 | exact H2].
      * intros [[H1|H1] H2]; [subst; contradiction | split; assumption].
    + assert (~ In y seen) as Hy by (intros H; apply memb_spec in H; congruence).
      cbn [In]. rewrite IH. cbn [In]. split.
      * intros [H|[H1 H2]]; [subst; split; [left; reflexivity | exact Hy] | split; [right; exact H1 | tauto]].
      * intros [[H|H] H2]; [left; exact H|].
        destruct (bytes_eqb_spec y x) as [He|Hne]; [left; exact He | right; split; [exact H | tauto]].
Qed.

Lemma dedupe_strings_in x l : In x (dedupe_strings l) <-> In x l.
Proof. unfold dedupe_strings. rewrite dedupe_from_in. cbn [In]. tauto. Qed.

Lemma default_hosts_present_lemma (oc : opcfg) :
  In archive_org (exc_hosts (gen_cfg oc)) /\ In archive_it_org (exc_hosts (gen_cfg oc))
  /\ (forall h, In h (exc_hosts oc) -> In h (exc_hosts (gen_cfg oc))).
Proof.
  cbn [gen_cfg exc_hosts]. repeat split; intros; apply dedupe_strings_in; apply in_or_app.
  - right. left. reflexivity.
  - right. right. left. reflexivity.
  - left. assumption.
Qed.

(* nothing but the operator's hosts and the two defaults *)
Lemma gen_cfg_exact_lemma (oc : opcfg) h :
  In h (exc_hosts (gen_cfg oc)) <-> In h (exc_hosts oc) \/ h = archive_org \/ h = archive_it_org.
Proof.
  cbn [gen_cfg exc_hosts]. rewrite dedupe_strings_in, in_app_iff. cbn [In]. intuition congruence.
Qed.

Lemma gen_cfg_other_lemma (oc : opcfg) :
  inc_hosts (gen_cfg oc) = inc_hosts oc /\ inc_strings (gen_cfg oc) = inc_strings oc
  /\ exc_strings (gen_cfg oc) = exc_strings oc.
Proof. repeat split. Qed.

(* ---- the algebra the property names ---------------------------------------------------- *)
(* archive.org / archive-it.org: whatever the operator configured (include lists too), a host
   containing either string is out of scope *)
Lemma archive_always_excluded_lemma (oc : opcfg) host text bits :
  substring archive_org host \/ substring archive_it_org host ->
  in_scope (gen_cfg oc) host text bits = false.
Proof.
  intros H. unfold in_scope, excluded.
  assert (contains_any host (exc_hosts (gen_cfg oc)) = true) as ->.
  { apply contains_any_spec. destruct (default_hosts_present_lemma oc) as [H1 [H2 _]].
    destruct H as [H|H]; [exists archive_org | exists archive_it_org]; split; assumption. }
  cbn. apply andb_false_r.
Qed.

(* a non-empty include list and a URL that matches none of its entries: out of scope *)
Lemma include_required_lemma (c : opcfg) host text bits :
  inc_hosts c <> [] \/ inc_strings c <> [] ->
  (forall e, In e (inc_hosts c) -> ~ substring e host) ->
  (forall e, In e (inc_strings c) -> ~ substring e text) ->
  in_scope c host text bits = false.
Proof.
  intros Hne Hh Hs. unfold in_scope, included.
  apply contains_any_false in Hh. apply contains_any_false in Hs. rewrite Hh, Hs.
  assert (inc_active c = true) as ->; [|reflexivity].
  unfold inc_active. destruct Hne as [H|H]; [destruct (inc_hosts c) | destruct (inc_strings c)]; try congruence;
    cbn; try reflexivity. apply orb_true_r.
Qed.

(* exclusion is tested after inclusion and wins *)
Lemma exclusion_wins_lemma (c : opcfg) host text bits :
  excluded c host text bits = true -> in_scope c host text bits = false.
Proof. intros H. unfold in_scope. rewrite H. apply andb_false_r. Qed.

Lemma excluded_spec (c : opcfg) host text bits :
  excluded c host text bits = true <->
  (exists e, In e (exc_hosts c) /\ substring e host) \/ (exists e, In e (exc_strings c) /\ substring e text)
  \/ In true bits.
Proof.
  unfold excluded. rewrite !orb_true_iff, !contains_any_spec, existsb_exists. split.
  - intros [[H|H]|[b [Hb Ht]]]; [left; exact H | right; left; exact H | right; right; subst; exact Hb].
  - intros [H|[H|H]]; [left; left; exact H | left; right; exact H | right; exists true; split; [exact H | reflexivity]].
Qed.

(* the whole predicate, spelled out *)
Lemma in_scope_spec_lemma (c : opcfg) host text bits :
  in_scope c host text bits = true <->
  ((inc_hosts c = [] /\ inc_strings c = [])
   \/ (exists e, In e (inc_hosts c) /\ substring e host)
   \/ (exists e, In e (inc_strings c) /\ substring e text))
  /\ (forall e, In e (exc_hosts c) -> ~ substring e host)
  /\ (forall e, In e (exc_strings c) -> ~ substring e text)
  /\ ~ In true bits.
Proof.
  unfold in_scope. rewrite andb_true_iff, negb_true_iff. split.
  - intros [Hi He]. split.
    + unfold included in Hi. rewrite !orb_true_iff, negb_true_iff, !contains_any_spec in Hi.
      destruct Hi as [[Hi|Hi]|Hi]; [left | right; left; exact Hi | right; right; exact Hi].
      unfold inc_active in Hi. apply orb_false_iff in Hi as [H1 H2].
      destruct (inc_hosts c), (inc_strings c); try discriminate. split; reflexivity.
    + repeat split.
      * intros e Hin Hs. assert (excluded c host text bits = true) as Ht; [|congruence].
        apply excluded_spec. left. exists e. split; assumption.
      * intros e Hin Hs. assert (excluded c host text bits = true) as Ht; [|congruence].
        apply excluded_spec. right. left. exists e. split; assumption.
      * intros Hin. assert (excluded c host text bits = true) as Ht; [|congruence].
        apply excluded_spec. right. right. exact Hin.
  - intros [Hi [H1 [H2 H3]]]. split.
    + unfold included. rewrite !orb_true_iff, negb_true_iff, !contains_any_spec.
      destruct Hi as [[Ha Hb]|[Hi|Hi]]; [left; left | left; right; exact Hi | right; exact Hi].
      unfold inc_active. rewrite Ha, Hb. reflexivity.
    + destruct (excluded c host text bits) eqn:E; [|reflexivity]. exfalso.
      apply excluded_spec in E as [[e [Hin Hs]]|[[e [Hin Hs]]|Hin]];
        [exact (H1 e Hin Hs) | exact (H2 e Hin Hs) | exact (H3 Hin)].
Qed.

(* ---- exclusion files: every line of every file is in force --------------------------------- *)
Lemma gen_regexes_in_lemma (files : exclusion_files) re :
  In re (gen_regexes files) <-> exists f, In f files /\ In re f.
Proof.
  unfold gen_regexes. rewrite in_concat. split; intros [f [H1 H2]]; exists f; split; assumption.
Qed.

(* order: the expressions of an earlier file come before those of a later one, each file's in
   line order *)
Lemma gen_regexes_app_lemma (fs1 fs2 : exclusion_files) :
  gen_regexes (fs1 ++ fs2) = gen_regexes fs1 ++ gen_regexes fs2.
Proof. unfold gen_regexes. apply concat_app. Qed.

(* whatever Go's regexp answers ([matches]): a URL whose text is matched by a line of ANY of the
   exclusion files is out of scope, under every configuration of the four lists *)
Lemma exclusion_files_all_loaded_lemma (matches : bytes -> bytes -> bool) (files : exclusion_files) :
  forall f re (c : opcfg) host text,
    In f files -> In re f -> matches re text = true ->
    in_scope c host text (regex_bits matches files text) = false.
Proof.
  intros f re c host text Hf Hre Hm. apply exclusion_wins_lemma. apply excluded_spec. right. right.
  unfold regex_bits. apply in_map_iff. exists re. split; [exact Hm|].
  apply gen_regexes_in_lemma. exists f. split; assumption.
Qed.

(* ---- what is a line: the last line counts with or without a final newline ------------------- *)
Definition no_lf (s : bytes) : Prop := ~ In LF s.

Lemma lines_acc_cut : forall c acc rest,
  lines_acc acc (c ++ LF :: rest) = lines_acc acc (c ++ [LF]) ++ lines_acc [] rest.
Proof.
  induction c as [|x c IH]; intros acc rest; cbn [app lines_acc].
  - rewrite Ascii.eqb_refl. reflexivity.
  - destruct (Ascii.eqb x LF); [cbn [app]; f_equal; apply IH | apply IH].
Qed.

Lemma lines_acc_one : forall a acc, no_lf a -> (acc <> [] \/ a <> []) ->
  lines_acc acc a = [drop_last_cr (rev acc ++ a)].
Proof.
  induction a as [|x a IH]; intros acc Hn Hne; cbn [lines_acc].
  - rewrite app_nil_r. destruct acc; [destruct Hne; congruence | reflexivity].
  - destruct (Ascii.eqb_spec x LF) as [->|Hx]; [exfalso; apply Hn; left; reflexivity|].
    rewrite IH; [|intros H; apply Hn; right; exact H | left; discriminate].
    cbn [rev]. rewrite <- app_assoc. reflexivity.
Qed.

Lemma lines_acc_one_nl : forall a acc r, no_lf a ->
  lines_acc acc (a ++ LF :: r) = drop_last_cr (rev acc ++ a) :: lines_acc [] r.
Proof.
  induction a as [|x a IH]; intros acc r Hn; cbn [app lines_acc].
  - rewrite Ascii.eqb_refl, app_nil_r. reflexivity.
  - destruct (Ascii.eqb_spec x LF) as [->|Hx]; [exfalso; apply Hn; left; reflexivity|].
    rewrite IH; [|intros H; apply Hn; right; exact H]. cbn [rev]. rewrite <- app_assoc. reflexivity.
Qed.

(* [head] = everything before the last line: empty, or ending in LF *)
Definition whole_lines (head : bytes) : Prop := head = [] \/ exists h, head = h ++ [LF].

Lemma exclusion_file_last_line_lemma (head last : bytes) :
  whole_lines head -> no_lf last -> last <> [] ->
  read_lines (head ++ last) = read_lines head ++ [drop_last_cr last]
  /\ read_lines (head ++ last ++ [LF]) = read_lines head ++ [drop_last_cr last]
  /\ read_lines (head ++ last ++ [CR; LF]) = read_lines head ++ [drop_last_cr (last ++ [CR])].
Proof.
  intros Hh Hn Hne. unfold read_lines. destruct Hh as [->|[h ->]].
  - cbn [app]. repeat split.
    + rewrite lines_acc_one; [reflexivity | exact Hn | right; exact Hne].
    + rewrite lines_acc_one_nl; [reflexivity | exact Hn].
    + change (last ++ [CR; LF]) with (last ++ [CR] ++ [LF]). rewrite app_assoc, lines_acc_one_nl; [reflexivity|].
      intros H. apply in_app_or in H as [H|[H|[]]]; [exact (Hn H) | discriminate].
  - repeat split; rewrite <- app_assoc; cbn [app]; rewrite lines_acc_cut; f_equal.
    + rewrite lines_acc_one; [reflexivity | exact Hn | right; exact Hne].
    + rewrite lines_acc_one_nl; [reflexivity | exact Hn].
    + change (last ++ [CR; LF]) with (last ++ [CR] ++ [LF]). rewrite app_assoc, lines_acc_one_nl; [reflexivity|].
      intros H. apply in_app_or in H as [H|[H|[]]]; [exact (Hn H) | discriminate].
Qed.

Lemma drop_last_cr_app_cr s : drop_last_cr (s ++ [CR]) = s.
Proof.
  induction s as [|c r IH]; [reflexivity|]. cbn [app]. destruct r as [|d r'].
  - cbn. reflexivity.
  - change (drop_last_cr (c :: (d :: r') ++ [CR])) with (c :: drop_last_cr ((d :: r') ++ [CR])). rewrite IH. reflexivity.
Qed.

(* ... hence it is in force: an exclusion file whose last line [re] lacks the final newline (or
   ends in LF, or in CRLF) still excludes every URL that [re] matches *)
Lemma exclusion_file_last_line_in_force_lemma (matches : bytes -> bytes -> bool) :
  forall (before after : list bytes) (head re eol : bytes) (c : opcfg) host text,
    whole_lines head -> no_lf re -> re <> [] -> drop_last_cr re = re ->
    eol = [] \/ eol = [LF] \/ eol = [CR; LF] ->
    matches re text = true ->
    in_scope c host text
      (map (fun r => matches r text) (gen_regexes_raw (before ++ [head ++ re ++ eol] ++ after))) = false.
Proof.
  intros before after head re eol c host text Hh Hn Hne Hcr Heol Hm.
  apply exclusion_wins_lemma. apply excluded_spec. right. right.
  apply in_map_iff. exists re. split; [exact Hm|].
  unfold gen_regexes_raw. apply gen_regexes_in_lemma. exists (read_lines (head ++ re ++ eol)). split.
  - apply in_map. apply in_or_app. right. left. reflexivity.
  - destruct (exclusion_file_last_line_lemma head re Hh Hn Hne) as [H1 [H2 H3]].
    destruct Heol as [->|[->| ->]].
    + rewrite app_nil_r, H1. apply in_or_app. right. left. exact Hcr.
    + rewrite H2. apply in_or_app. right. left. exact Hcr.
    + rewrite H3, drop_last_cr_app_cr. apply in_or_app. right. left. reflexivity.
Qed.

Example ex_read_lines :
  read_lines (bs "a" ++ [LF] ++ bs "b") = [bs "a"; bs "b"]
  /\ read_lines (bs "a" ++ [LF] ++ bs "b" ++ [LF]) = [bs "a"; bs "b"]
  /\ read_lines (bs "a" ++ [CR; LF] ++ bs "b" ++ [CR; LF]) = [bs "a"; bs "b"]
  /\ read_lines (bs "a" ++ [LF; LF] ++ bs "b") = [bs "a"; []; bs "b"]
  /\ read_lines (bs "a" ++ [LF; LF]) = [bs "a"; []]
  /\ read_lines [] = [] /\ read_lines [LF] = [[]] /\ read_lines [CR] = [[]]
  /\ read_lines (bs "a" ++ [CR; CR; LF]) = [bs "a" ++ [CR]].
Proof. vm_compute. repeat split; reflexivity. Qed.

Example ex_two_files :
  gen_regexes [[bs "a"; bs ""]; []; [bs "b"]] = [bs "a"; bs ""; bs "b"]
  /\ in_scope (OC [] [] [] []) (bs "h.example") (bs "http://h.example/x.pdf")
       (regex_bits (fun re t => contains re t) [[bs ".pdf"]; [bs "zzz"]] (bs "http://h.example/x.pdf")) = false.
Proof. vm_compute. split; reflexivity. Qed.

(* ---- NormalizeURL's tests -------------------------------------------------------------- *)
Lemma shape_ok_spec_lemma proto hn :
  shape_ok proto hn = true <->
  (proto = bs "http:" \/ proto = bs "https:")
  /\ hn <> bs "localhost" /\ hn <> bs "127.0.0.1" /\ substring (bs ".") hn.
Proof.
  unfold shape_ok, scheme_ok, host_ok.
  rewrite !andb_true_iff, orb_true_iff, !negb_true_iff, !bytes_eqb_eq, contains_spec.
  split.
  - intros [Hs [[H1 H2] H3]]. repeat split; try exact Hs; try exact H3.
    + intros He. subst. rewrite bytes_eqb_refl in H1. discriminate.
    + intros He. subst. rewrite bytes_eqb_refl in H2. discriminate.
  - intros [Hs [H1 [H2 H3]]]. repeat split; try assumption.
    + destruct (bytes_eqb_spec hn (bs "localhost")); [contradiction | reflexivity].
    + destruct (bytes_eqb_spec hn (bs "127.0.0.1")); [contradiction | reflexivity].
Qed.

(* ---- the code before the fix: evaluation order vs the predicate -------------------------- *)
(* what a URL that passed the two blocks of the ORIGINAL code satisfies *)
Lemma passes_orig_sound_lemma (c : opcfg) (v : view) :
  passes_orig c v = true ->
  included c (v_host0 v) (v_text v) = true
  /\ ((excluded c (v_host0 v) (v_text v) (v_bits v) = false)
      \/ (contains_any (v_host0 v) (inc_hosts c) = false
          /\ excluded c (v_host1 v) (v_text v) (v_bits v) = false)).
Proof.
  unfold passes_orig, include_pass_orig, exclude_hit_orig, included.
  destruct (inc_active c); cbn [negb orb].
  - destruct (contains_any (v_host0 v) (inc_hosts c)) eqn:Eh; cbn [orb].
    + rewrite andb_true_iff, negb_true_iff. intros [_ H]. split; [reflexivity | left; exact H].
    + rewrite andb_true_iff, negb_true_iff. intros [H1 H2]. split; [exact H1 | right; split; [reflexivity | exact H2]].
  - rewrite andb_true_iff, negb_true_iff. intros [_ H]. split; [reflexivity | left; exact H].
Qed.

(* only when String() does not change the host did the original code decide by the predicate *)
Lemma passes_orig_in_scope_lemma (c : opcfg) (v : view) :
  v_host0 v = v_host1 v ->
  passes_orig c v = in_scope c (v_host1 v) (v_text v) (v_bits v).
Proof.
  intros Hh. unfold passes_orig, include_pass_orig, exclude_hit_orig, in_scope, included. rewrite Hh.
  destruct (inc_active c); cbn [negb orb].
  - destruct (contains_any (v_host1 v) (inc_hosts c)); cbn [orb]; [|reflexivity].
    destruct (contains_any (v_text v) (inc_strings c)); reflexivity.
  - reflexivity.
Qed.

(* ... and it does change it: ada keeps the label "xn--archive-", idna.ToASCII decodes it.  The
   original code accepted a URL whose request goes to archive.org (replayed on the real code:
   corpus/C05/scope.inputs). *)
Example bypass_view : view :=
  View 1 (bs "xn--archive-.org") (bs "archive.org") (bs "http://archive.org/A.PNG") [] false.

Lemma scope_bypass_refuted :
  exists (oc : opcfg) (v : view),
    passes_orig (gen_cfg oc) v = true
    /\ in_scope (gen_cfg oc) (v_host1 v) (v_text v) (v_bits v) = false.
Proof. exists (OC [] [] [] []), bypass_view. vm_compute. split; reflexivity. Qed.

(* the same through --include-host: the host tested is not the host requested *)
Lemma include_bypass_refuted :
  exists (oc : opcfg) (v : view),
    passes_orig (gen_cfg oc) v = true
    /\ in_scope (gen_cfg oc) (v_host1 v) (v_text v) (v_bits v) = false.
Proof.
  exists (OC [bs "xn--evil-"] [] [] []),
         (View 1 (bs "xn--evil-.example") (bs "evil.example") (bs "http://evil.example/") [] false).
  vm_compute. split; reflexivity.
Qed.

(* ---- non-vacuity ------------------------------------------------------------------------ *)
Example ex_cfg : opcfg := OC [bs "example.com"] [] [bs "ads."] [bs "logout"].

Example ex_in_scope :
  in_scope (gen_cfg ex_cfg) (bs "www.example.com:8080") (bs "http://www.example.com:8080/a.png") [false] = true.
Proof. vm_compute. reflexivity. Qed.

Example ex_not_included :
  in_scope (gen_cfg ex_cfg) (bs "cdn.example.net") (bs "http://cdn.example.net/a.png") [false] = false.
Proof. vm_compute. reflexivity. Qed.

Example ex_excluded_wins :
  included (gen_cfg ex_cfg) (bs "ads.example.com") (bs "http://ads.example.com/") = true
  /\ in_scope (gen_cfg ex_cfg) (bs "ads.example.com") (bs "http://ads.example.com/") [] = false.
Proof. vm_compute. split; reflexivity. Qed.

(* substring semantics: "notarchive.org" and "web.archive.org.example" are excluded too *)
Example ex_archive_substring :
  in_scope (gen_cfg (OC [] [] [] [])) (bs "notarchive.org") (bs "http://notarchive.org/") [] = false
  /\ in_scope (gen_cfg (OC [] [] [] [])) (bs "a.example") (bs "http://a.example/?u=archive.org") [] = true.
Proof. vm_compute. split; reflexivity. Qed.

Example ex_shape :
  shape_ok (bs "https:") (bs "a.example") = true /\ shape_ok (bs "ftp:") (bs "a.example") = false
  /\ shape_ok (bs "http:") (bs "localhost") = false /\ shape_ok (bs "http:") (bs "127.0.0.1") = false
  /\ shape_ok (bs "http:") (bs "intranet") = false /\ shape_ok (bs "http:") (bs "[::1]") = false
  /\ shape_ok (bs "http:") (bs "localhost.") = true /\ shape_ok (bs "http:") (bs "127.0.0.2") = true.
Proof. vm_compute. repeat split; reflexivity. Qed.

(* letter case.  The substring test is byte-exact (contains_spec) and gen_cfg keeps the operator's
   entries as typed (gen_cfg_other_lemma, gen_cfg_exact_lemma), so: *)
Lemma string_filters_case_sensitive_lemma :
  let ex := gen_cfg (OC [] [] [] [bs "/Private/"; bs "sessionID="]) in
  let inc := gen_cfg (OC [] [bs "/Docs/"] [] []) in
  let h := bs "www.example.com" in
  in_scope ex h (bs "https://www.example.com/Private/report.pdf") [] = false
  /\ in_scope ex h (bs "https://www.example.com/private/report.pdf") [] = true
  /\ in_scope ex h (bs "https://www.example.com/login?sessionID=abc123") [] = false
  /\ in_scope ex h (bs "https://www.example.com/login?sessionid=abc123") [] = true
  /\ in_scope inc h (bs "https://www.example.com/Docs/a.css") [] = true
  /\ in_scope inc h (bs "https://www.example.com/docs/old.css") [] = false.
Proof. vm_compute. repeat split; reflexivity. Qed.

(* the host filters are byte-exact too; the host they are compared with is ada's, always
   lower-case, so an entry with an upper-case letter matches nothing (what the code does today:
   --exclude-host Example.COM excludes nothing, --include-host Example.com admits nothing) *)
Lemma host_filters_upper_case_lemma :
  in_scope (gen_cfg (OC [] [] [bs "Example.COM"] [])) (bs "www.example.com") (bs "http://www.example.com/") [] = true
  /\ in_scope (gen_cfg (OC [] [] [bs "example.com"] [])) (bs "www.example.com") (bs "http://www.example.com/") [] = false
  /\ in_scope (gen_cfg (OC [bs "Example.com"] [] [] [])) (bs "www.example.com") (bs "http://www.example.com/") [] = false.
Proof. vm_compute. repeat split; reflexivity. Qed.
