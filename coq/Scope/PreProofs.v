(* C05 - the tree-level theorem: in the output of preprocess() (Stage/Pass.v), a request
   (status PreProcessed) is attached only to nodes whose URL the oracle accepted, for every tree
   with unique ids, every oracle, every position (seed / redirect target / asset).  Then the
   refinement: for the oracle computed by Scope.v from the operator's configuration, "accepted"
   means shape_ok /\ passes (in_scope). *)
From Coq Require Import Lia.
From ZenoV Require Import Scope.Scope Scope.ScopeProofs Scope.TreeFacts.
Open Scope N_scope.

Section Pre.
Variable o : oracle.
Variable t0 : item.
Hypothesis Hd0 : NoDup (ids t0).

(* the node carries the canonical URL the oracle accepted for its id *)
Definition goodn (m : item) : Prop := exists ep, o_pre o (id_of m) = POk (url_of m) false ep.

Lemma goodn_same m m' : id_of m' = id_of m -> url_of m' = url_of m -> goodn m -> goodn m'.
Proof. intros Hi Hu [ep H]. exists ep. rewrite Hi, Hu. exact H. Qed.

(* loop invariant of the first loop of preprocess(); [D] = ids already processed *)
Definition Inv (D : N -> Prop) (tc : item) : Prop :=
  NoDup (ids tc) /\ id_of tc = id_of t0 /\ incl (edges tc) (edges t0) /\ lpre R1 tc t0
  /\ (forall m, In m (flatten tc) -> D (id_of m) -> goodn m).

Lemma Inv_weaken (D D' : N -> Prop) tc : (forall y, D' y -> D y) -> Inv D tc -> Inv D' tc.
Proof. intros Hw [H1 [H2 [H3 [H4 H5]]]]. repeat split; try assumption. intros m Hm Hd. apply H5; auto. Qed.

Lemma Inv_init : Inv (fun _ => False) t0.
Proof.
  repeat split; try assumption; try reflexivity.
  - apply incl_refl.
  - apply lpre_refl. exact R1_refl.
  - intros m _ [].
Qed.

Lemma set_url_nid u i : nid (set_url u i) = nid i.
Proof. reflexivity. Qed.

Lemma inv_seturl D tc x u ex ep :
  Inv D tc -> o_pre o x = POk u ex ep ->
  Inv (fun y => D y \/ (ex = false /\ y = x)) (set_url_of x u tc).
Proof.
  intros [H1 [H2 [H3 [H4 H5]]]] Ho. repeat split.
  - rewrite set_url_imap, ids_update_imap; [exact H1 | apply set_url_nid].
  - rewrite set_url_imap, (id_of_update x _ (set_url u)); [exact H2 | apply localf_imap | apply set_url_nid].
  - rewrite set_url_imap, edges_update_imap; [exact H3 | apply set_url_nid].
  - eapply lpre_trans; [exact R1_trans | apply lpre_set_url | exact H4].
  - intros m' Hm' Hd. destruct (flatten_nodes_at _ _ Hm') as [k Hk]. rewrite set_url_imap in Hk.
    destruct (update_level x _ _ (localf_imap (set_url u)) k tc m' Hk) as [m [Hm Hinf]].
    apply nodes_at_flatten in Hm. unfold goodn, id_of, url_of in *. rewrite Hinf in *.
    destruct (N.eqb_spec (nid (inf m)) x) as [He|Hne]; cbn [set_url nid nurl] in *.
    + destruct Hd as [Hd|[Hex _]].
      * destruct (H5 m Hm Hd) as [ep' Hg]. rewrite He, Ho in Hg. injection Hg as -> -> ->.
        exists ep'. rewrite He. exact Ho.
      * subst ex. exists ep. rewrite He. exact Ho.
    + destruct Hd as [Hd|[_ Hx]]; [exact (H5 m Hm Hd) | contradiction].
Qed.

Lemma inv_remove D tc pid x : Inv D tc -> Inv D (remove_child pid x tc).
Proof.
  intros [H1 [H2 [H3 [H4 H5]]]]. repeat split.
  - exact (subl_NoDup _ _ (ids_remove_subl pid x tc) H1).
  - rewrite remove_child_rmf, (id_of_update pid _ (fun i => i)); [exact H2 | apply localf_rmf | reflexivity].
  - intros e He. apply H3. exact (edges_remove_incl pid x tc e He).
  - eapply lpre_trans; [exact R1_trans | | exact H4]. eapply lpre_weaken; [exact R0_R1 | apply lpre_remove].
  - intros m' Hm' Hd. destruct (lpre_flat _ _ _ (lpre_remove pid x tc) m' Hm') as [m [Hm [Hi [Hu _]]]].
    apply (goodn_same m m'); [exact Hi | exact Hu |]. apply H5; [exact Hm|]. unfold id_of in *. rewrite <- Hi. exact Hd.
Qed.

Lemma inv_remove_bad D tc pid x :
  Inv D tc -> In (pid, x) (edges t0) -> Inv (fun y => D y \/ y = x) (remove_child pid x tc).
Proof.
  intros HI He0. pose proof (inv_remove D tc pid x HI) as [H1 [H2 [H3 [H4 H5]]]].
  repeat split; try assumption. intros m' Hm' [Hd|Hx]; [exact (H5 m' Hm' Hd)|].
  exfalso. destruct HI as [G1 [G2 [G3 [G4 G5]]]].
  assert (In x (ids (remove_child pid x tc))) as Hin.
  { pose proof (in_flatten_ids _ _ Hm') as Hi. rewrite Hx in Hi. exact Hi. }
  assert (In x (ids tc)) as Hxc by exact (subl_incl _ _ (ids_remove_subl pid x tc) _ Hin).
  assert (x <> id_of tc) as Hroot.
  { rewrite G2. intros ->. destruct (edge_ends _ _ _ He0) as [_ Hk]. destruct t0 as [i0 cs0].
    rewrite ids_node in Hd0. inversion Hd0; subst. cbn [kids] in Hk. unfold id_of in Hk. cbn [inf] in Hk. contradiction. }
  destruct (has_parent tc x Hxc Hroot) as [p' Hp'].
  assert (p' = pid) as -> by exact (edges_fun t0 p' pid x Hd0 (G3 _ Hp') He0).
  exact (rm_gone pid x tc G1 Hp' Hin).
Qed.

Definition Post (D : N -> Prop) (res : result (item + item)) : Prop :=
  match res with
  | Panic _ => True
  | Ok (inl t') => lpre R1 t' t0          (* early return: no status became PreProcessed *)
  | Ok (inr t1) => Inv D t1
  end.

Lemma Post_weaken (D D' : N -> Prop) res : (forall y, D' y -> D y) -> Post D res -> Post D' res.
Proof. intros Hw. destruct res as [[t'|t1]|w]; cbn; auto. apply Inv_weaken. exact Hw. Qed.

Lemma early_return D tc id s : s <> PreProcessed -> Inv D tc -> lpre R1 (set_status id s tc) t0.
Proof.
  intros Hs [_ [_ [_ [H4 _]]]]. eapply lpre_trans; [exact R1_trans | | exact H4].
  eapply lpre_weaken; [exact R0_R1 | apply lpre_set_status; exact Hs].
Qed.

Lemma completed_ne : Completed <> PreProcessed. Proof. discriminate. Qed.
Lemma failed_ne : Failed <> PreProcessed. Proof. discriminate. Qed.

Lemma pre_loop_inv : forall items D tc,
  Inv D tc ->
  (forall n p, In (n, Some p) items -> In (id_of p, id_of n) (edges t0)) ->
  Post (fun y => D y \/ In y (map (fun np => id_of (fst np)) items)) (pre_loop o items tc).
Proof.
  induction items as [|[n par] r IH]; intros D tc HI He.
  - cbn. eapply Inv_weaken; [|exact HI]. intros y [H|[]]. exact H.
  - cbn [pre_loop]. destruct (negb (status_eqb (st_of n) Fresh)); [exact I|].
    assert (forall n' p', In (n', Some p') r -> In (id_of p', id_of n') (edges t0)) as He'
      by (intros n' p' H; apply He; right; exact H).
    destruct par as [p|].
    + assert (In (id_of p, id_of n) (edges t0)) as Hedge by (apply He; left; reflexivity).
      destruct (o_pre o (id_of n)) as [|u ex ep] eqn:Eo.
      * eapply Post_weaken; [|apply (IH _ _ (inv_remove_bad D tc _ _ HI Hedge) He')].
        cbn. intros y [H|[H|H]]; [left; left; exact H | left; right; symmetry; exact H | right; exact H].
      * pose proof (inv_seturl D tc _ u ex ep HI Eo) as HI1. destruct ex.
        -- destruct (is_got (st_of p)).
           ++ eapply Post_weaken; [|apply (IH _ _ (inv_remove_bad _ _ _ _ HI1 Hedge) He')].
              cbn. intros y [H|[H|H]]; [left; left; left; exact H | left; right; symmetry; exact H | right; exact H].
           ++ cbn. apply (early_return _ _ _ _ completed_ne HI1).
        -- destruct (status_eqb (st_of p) GotChildren && ep).
           ++ eapply Post_weaken; [|apply (IH _ _ (inv_remove _ _ (id_of p) (id_of n) HI1) He')].
              cbn. intros y [H|[H|H]]; [left; left; exact H | left; right; split; [reflexivity | symmetry; exact H] | right; exact H].
           ++ eapply Post_weaken; [|apply (IH _ _ HI1 He')].
              cbn. intros y [H|[H|H]]; [left; left; exact H | left; right; split; [reflexivity | symmetry; exact H] | right; exact H].
    + destruct (o_pre o (id_of n)) as [|u ex ep] eqn:Eo.
      * cbn. apply (early_return _ _ _ _ failed_ne HI).
      * pose proof (inv_seturl D tc _ u ex ep HI Eo) as HI1. destruct ex.
        -- cbn. apply (early_return _ _ _ _ completed_ne HI1).
        -- eapply Post_weaken; [|apply (IH _ _ HI1 He')].
           cbn. intros y [H|[H|H]]; [left; left; exact H | left; right; split; [reflexivity | symmetry; exact H] | right; exact H].
Qed.

(* a PreProcessed node of a tree that is level-wise below [t0] had a request on entry *)
Lemma old_request t' m' :
  lpre R1 t' t0 -> In m' (flatten t') -> st_of m' = PreProcessed ->
  exists m, In m (flatten t0) /\ id_of m = id_of m' /\ st_of m = PreProcessed.
Proof.
  intros Hl Hm Hs. destruct (lpre_flat _ _ _ Hl m' Hm) as [m [H1 [H2 H3]]].
  exists m. repeat split; [exact H1 | symmetry; exact H2 | apply H3; exact Hs].
Qed.

Theorem pre_requests_accepted t' :
  preprocess o t0 = Ok t' ->
  forall m', In m' (flatten t') -> st_of m' = PreProcessed ->
    (exists m, In m (flatten t0) /\ id_of m = id_of m' /\ st_of m = PreProcessed) \/ goodn m'.
Proof.
  unfold preprocess. set (d := max_depth t0).
  assert (forall n p, In (n, Some p) (level_par d None t0) -> In (id_of p, id_of n) (edges t0)) as He.
  { intros n p H. destruct (level_par_edges _ _ _ _ _ H) as [[Hp _]|H']; [discriminate | exact H']. }
  pose proof (pre_loop_inv (level_par d None t0) _ t0 Inv_init He) as HP.
  destruct (pre_loop o (level_par d None t0) t0) as [[te|t1]|w]; cbn [Post] in HP; [| |discriminate].
  - intros Ht m' Hm Hs. injection Ht as <-. left. exact (old_request _ _ HP Hm Hs).
  - destruct HP as [G1 [G2 [G3 [G4 G5]]]].
    assert (lpre R1 (dedupe t1) t0) as L2.
    { eapply lpre_trans; [exact R1_trans | | exact G4]. eapply lpre_weaken; [exact R0_R1 | apply lpre_dedupe]. }
    destruct (nodes_at d (dedupe t1)) as [|i2 l2] eqn:E2.
    + intros Ht m' Hm Hs. injection Ht as <-. left. refine (old_request _ _ _ Hm Hs).
      eapply lpre_trans; [exact R1_trans | | exact L2].
      eapply lpre_weaken; [exact R0_R1 | apply lpre_set_status; discriminate].
    + set (t3 := mark_seen o (i2 :: l2) (dedupe t1)).
      assert (lpre R0 t3 t1) as L31.
      { eapply lpre_trans; [exact R0_trans | apply lpre_mark_seen | apply lpre_dedupe]. }
      assert (lpre R1 t3 t0) as L3.
      { eapply lpre_trans; [exact R1_trans | | exact G4]. eapply lpre_weaken; [exact R0_R1 | exact L31]. }
      destruct (filter is_fresh (nodes_at d t3)) as [|i3 l3] eqn:E3.
      * intros Ht m' Hm Hs. injection Ht as <-. left. refine (old_request _ _ _ Hm Hs).
        eapply lpre_trans; [exact R1_trans | | exact L3].
        eapply lpre_weaken; [exact R0_R1 | apply lpre_set_status; discriminate].
      * intros Ht m' Hm Hs. injection Ht as <-.
        destruct (build_requests_pre o (i3 :: l3) t3 m' Hm) as [m3 [Hm3 [Hid [Hurl Hst]]]].
        destruct (Hst Hs) as [Hold|Hnew].
        -- left. destruct (old_request t3 m3 L3 Hm3 Hold) as [m [H1 [H2 H3]]].
           exists m. repeat split; [exact H1 | | exact H3]. rewrite H2. unfold id_of. symmetry. exact Hid.
        -- right.
           (* the listed node is at the working depth of t3, hence of t1, hence of t0: processed *)
           apply in_map_iff in Hnew as [n3 [Hn3id Hn3]]. rewrite <- E3 in Hn3. apply filter_In in Hn3 as [Hn3 _].
           destruct (L31 d n3 Hn3) as [n1 [Hn1 [Hn1id _]]].
           destruct (G4 d n1 Hn1) as [n0 [Hn0 [Hn0id _]]].
           destruct (lpre_flat _ _ _ L31 m3 Hm3) as [m1 [Hm1 [Hm1id [Hm1url _]]]].
           apply (goodn_same m1 m').
           ++ unfold id_of. congruence.
           ++ unfold url_of. congruence.
           ++ apply G5; [exact Hm1|]. right. apply in_map_iff.
              rewrite <- (level_par_fst d None t0) in Hn0. apply in_map_iff in Hn0 as [[n0' par0] [Hf Hin0]].
              cbn [fst] in Hf. subst n0'. exists (n0, par0). split; [|exact Hin0]. cbn [fst].
              unfold id_of in *. congruence.
Qed.
End Pre.

(* ---- refinement: the oracle computed from the operator's configuration ---------------------- *)
Lemma goodn_accepted oc nvs seen reqfail m :
  goodn (scope_oracle oc nvs seen reqfail) m -> accepted oc (nvs (id_of m)) (url_of m).
Proof.
  intros [ep H]. cbn [scope_oracle o_pre] in H. unfold scope_pre, pre_ans_of, pre_ans_with in H.
  destruct (nvs (id_of m)) as [|proto hn post]; [discriminate|].
  destruct (shape_ok proto hn) eqn:Es; [|discriminate]. destruct post as [v|]; [|discriminate].
  injection H as Hu Hp _. exists proto, hn, v. repeat split; try assumption.
  apply negb_false_iff in Hp. exact Hp.
Qed.

(* THE property: every node that leaves preprocess with a request attached (and had none on
   entry) carries the canonical URL of a reference that ada parsed, whose scheme/host passed
   NormalizeURL's tests and whose final host / text are in scope under the effective
   configuration - wherever the node sits in the tree. *)
Theorem request_implies_scope_lemma : forall oc nvs seen reqfail t t',
  NoDup (ids t) ->
  preprocess (scope_oracle oc nvs seen reqfail) t = Ok t' ->
  forall m', In m' (flatten t') -> st_of m' = PreProcessed ->
    (exists m, In m (flatten t) /\ id_of m = id_of m' /\ st_of m = PreProcessed)
    \/ accepted oc (nvs (id_of m')) (url_of m').
Proof.
  intros oc nvs seen reqfail t t' Hd Hp m' Hm Hs.
  destruct (pre_requests_accepted _ t Hd t' Hp m' Hm Hs) as [H|H]; [left; exact H | right].
  apply (goodn_accepted oc nvs seen reqfail). exact H.
Qed.

(* in the pipeline no node has a request when the seed enters the preprocessor (level discipline,
   C11/C01), so the first alternative is empty: *)
Corollary request_implies_scope_fresh_lemma : forall oc nvs seen reqfail t t',
  NoDup (ids t) -> (forall m, In m (flatten t) -> st_of m <> PreProcessed) ->
  preprocess (scope_oracle oc nvs seen reqfail) t = Ok t' ->
  forall m', In m' (flatten t') -> st_of m' = PreProcessed ->
    exists proto hn v,
      nvs (id_of m') = NVAda proto hn (Some v) /\ v_url v = url_of m'
      /\ shape_ok proto hn = true
      /\ in_scope (gen_cfg oc) (v_host1 v) (v_text v) (v_bits v) = true.
Proof.
  intros oc nvs seen reqfail t t' Hd Hno Hp m' Hm Hs.
  destruct (request_implies_scope_lemma oc nvs seen reqfail t t' Hd Hp m' Hm Hs) as [[m [H1 [_ H3]]]|H].
  - exfalso. exact (Hno m H1 H3).
  - exact H.
Qed.

(* a seed at the working depth is the whole tree.  Rejected => no request anywhere. *)
Theorem rejected_seed_no_request_lemma : forall oc nvs seen reqfail i,
  nst i = Fresh ->
  (forall url, ~ accepted oc (nvs (nid i)) url) ->
  exists t', preprocess (scope_oracle oc nvs seen reqfail) (Node i []) = Ok t'
    /\ (st_of t' = Failed \/ st_of t' = Completed) /\ kids t' = []
    /\ (forall m, In m (flatten t') -> st_of m <> PreProcessed).
Proof.
  intros oc nvs seen reqfail i Hf Hna. unfold preprocess. cbn [max_depth level_par pre_loop].
  unfold st_of, id_of. cbn [inf]. rewrite Hf. cbn [status_eqb negb].
  cbn [scope_oracle o_pre]. unfold scope_pre, pre_ans_of, pre_ans_with.
  assert (forall s j, set_status (nid i) s (Node j []) = if N.eqb (nid j) (nid i) then Node (set_st s j) [] else Node j []) as Hss
    by (intros s j; cbn; destruct (N.eqb (nid j) (nid i)); reflexivity).
  destruct (nvs (nid i)) as [|proto hn post] eqn:En.
  - eexists. split; [reflexivity|]. rewrite Hss, N.eqb_refl. cbn.
    repeat split; auto. intros m [<-|[]]. cbn. discriminate.
  - destruct (shape_ok proto hn) eqn:Es.
    + destruct post as [v|].
      * destruct (passes (gen_cfg oc) v) eqn:Ep.
        -- exfalso. apply (Hna (v_url v)). exists proto, hn, v. repeat split; assumption.
        -- cbn [negb]. eexists. split; [reflexivity|].
           assert (set_url_of (nid i) (v_url v) (Node i []) = Node (set_url (v_url v) i) []) as ->
             by (cbn; rewrite N.eqb_refl; reflexivity).
           rewrite Hss. cbn [set_url nid]. rewrite N.eqb_refl. cbn.
           repeat split; auto. intros m [<-|[]]. cbn. discriminate.
      * eexists. split; [reflexivity|]. rewrite Hss, N.eqb_refl. cbn.
        repeat split; auto. intros m [<-|[]]. cbn. discriminate.
    + eexists. split; [reflexivity|]. rewrite Hss, N.eqb_refl. cbn.
      repeat split; auto. intros m [<-|[]]. cbn. discriminate.
Qed.

(* the code before the fix violates the property at tree level: the asset "//xn--archive-.org/x"
   of a page leaves preprocess with a request for http://archive.org/x *)
Example bypass_tree : item :=
  Node (Info 0 100 GotChildren false 0 0) [Node (Info 1 101 Fresh false 0 0) []].
Example bypass_nvs (id : N) : norm_view :=
  match id with
  | 1 => NVAda (bs "http:") (bs "xn--archive-.org")
               (Some (View 11 (bs "xn--archive-.org") (bs "archive.org") (bs "http://archive.org/x") [] false))
  | _ => NVErr
  end.

Lemma request_implies_scope_orig_refuted :
  exists oc nvs t t' m',
    NoDup (ids t) /\ (forall m, In m (flatten t) -> st_of m <> PreProcessed)
    /\ preprocess (scope_oracle_orig oc nvs (fun _ => false) (fun _ => false)) t = Ok t'
    /\ In m' (flatten t') /\ st_of m' = PreProcessed
    /\ ~ accepted oc (nvs (id_of m')) (url_of m').
Proof.
  exists (OC [] [] [] []), bypass_nvs, bypass_tree,
         (Node (Info 0 100 GotChildren false 0 0) [Node (Info 1 11 PreProcessed false 0 0) []]),
         (Node (Info 1 11 PreProcessed false 0 0) []).
  split; [vm_compute; repeat constructor; cbn; intuition discriminate|].
  split; [intros m [<-|[<-|[]]]; cbn; discriminate|].
  split; [vm_compute; reflexivity|].
  split; [right; left; reflexivity|].
  split; [reflexivity|].
  intros [proto [hn [v [H1 [_ [_ H4]]]]]]. cbn in H1. injection H1 as _ _ <-. vm_compute in H4. discriminate.
Qed.

(* ---- non-vacuity: a seed with a redirect target, two assets under another node ... ---------- *)
(* tree: seed 0 (GotChildren) -> asset 1 (Fresh, accepted), asset 2 (Fresh, archive.org: excluded),
   asset 3 (Fresh, ftp: shape fails) *)
Example ex_oc : opcfg := OC [] [] [bs "ads."] [].
Example ex_view (u : N) (host text : string) : view := View u (bs host) (bs host) (bs text) [] false.
Example ex_nvs (id : N) : norm_view :=
  match id with
  | 1 => NVAda (bs "http:") (bs "a.example") (Some (ex_view 11 "a.example" "http://a.example/x.png"))
  | 2 => NVAda (bs "https:") (bs "web.archive.org") (Some (ex_view 12 "web.archive.org" "https://web.archive.org/x.png"))
  | 3 => NVAda (bs "ftp:") (bs "a.example") None
  | _ => NVErr
  end.
Example ex_tree : item :=
  Node (Info 0 100 GotChildren false 0 0)
    [Node (Info 1 101 Fresh false 0 0) []; Node (Info 2 102 Fresh false 0 0) []; Node (Info 3 103 Fresh false 0 0) []].

Example ex_request_only_in_scope :
  NoDup (ids ex_tree)
  /\ preprocess (scope_oracle ex_oc ex_nvs (fun _ => false) (fun _ => false)) ex_tree
     = Ok (Node (Info 0 100 GotChildren false 0 0) [Node (Info 1 11 PreProcessed false 0 0) []]).
Proof.
  split; [|vm_compute; reflexivity].
  vm_compute. repeat constructor; cbn; intuition discriminate.
Qed.

Example ex_rejected_seed :
  preprocess (scope_oracle ex_oc (fun _ => NVAda (bs "http:") (bs "localhost") None) (fun _ => false) (fun _ => false))
             (Node (Info 0 100 Fresh false 0 0) [])
  = Ok (Node (Info 0 100 Failed false 0 0) []).
Proof. vm_compute. reflexivity. Qed.
