(* C05 - generic facts about the item-tree operations of Tree/Item.v used by preprocess():
   every operation is an update-by-id that rewrites a node's info or deletes children, so each
   node of the result has a pre-image at the same level of the argument.  Self-contained on
   purpose (only the model files Tree/Item.v and Stage/Pass.v are imported). *)
From Coq Require Import Lia.
From ZenoV Require Import Tree.Item Stage.Pass.
Open Scope N_scope.

(* ---- induction principle -------------------------------------------------------------- *)
Lemma item_ind2 (P : item -> Prop) :
  (forall i cs, Forall P cs -> P (Node i cs)) -> forall t, P t.
Proof.
  intros H. fix IH 1. intros [i cs]. apply H.
  induction cs as [|c r IHr]; constructor; [apply IH | exact IHr].
Qed.

(* ---- lists ----------------------------------------------------------------------------- *)
Lemma map_flat_map {A B C} (f : B -> C) (g : A -> list B) l :
  map f (flat_map g l) = flat_map (fun x => map f (g x)) l.
Proof. induction l as [|a r IH]; [reflexivity|]. cbn. rewrite map_app, IH. reflexivity. Qed.

Lemma flat_map_map {A B C} (f : B -> list C) (g : A -> B) l :
  flat_map f (map g l) = flat_map (fun x => f (g x)) l.
Proof. induction l as [|a r IH]; [reflexivity|]. cbn. rewrite IH. reflexivity. Qed.

Lemma flat_map_ext_in {A B} (f g : A -> list B) l :
  (forall x, In x l -> f x = g x) -> flat_map f l = flat_map g l.
Proof.
  induction l as [|a r IH]; intros H; [reflexivity|]. cbn.
  rewrite (H a (or_introl eq_refl)), IH; [reflexivity|]. intros x Hx. apply H. right. exact Hx.
Qed.

(* subsequence *)
Inductive subl {A} : list A -> list A -> Prop :=
| subl_nil : subl [] []
| subl_skip x l' l : subl l' l -> subl l' (x :: l)
| subl_keep x l' l : subl l' l -> subl (x :: l') (x :: l).

Lemma subl_refl {A} (l : list A) : subl l l.
Proof. induction l; constructor; assumption. Qed.

Lemma subl_nil_l {A} (l : list A) : subl [] l.
Proof. induction l; constructor; assumption. Qed.

Lemma subl_app {A} (a a' b b' : list A) : subl a a' -> subl b b' -> subl (a ++ b) (a' ++ b').
Proof. intros Ha Hb. induction Ha; cbn; [exact Hb | constructor; assumption | constructor; assumption]. Qed.

Lemma subl_trans {A} (a b c : list A) : subl a b -> subl b c -> subl a c.
Proof.
  intros Hab Hbc. revert a Hab. induction Hbc as [|x b c Hbc IH|x b c Hbc IH]; intros a Hab.
  - exact Hab.
  - constructor. apply IH. exact Hab.
  - inversion Hab as [|y a' b' Ha|y a' b' Ha]; subst.
    + apply subl_skip. apply IH. exact Ha.
    + apply subl_keep. apply IH. exact Ha.
Qed.

Lemma subl_incl {A} (a b : list A) : subl a b -> incl a b.
Proof.
  intros H. induction H as [|x a b H IH|x a b H IH]; intros y Hy.
  - exact Hy.
  - right. apply IH. exact Hy.
  - destruct Hy as [<-|Hy]; [left; reflexivity | right; apply IH; exact Hy].
Qed.

Lemma subl_NoDup {A} (a b : list A) : subl a b -> NoDup b -> NoDup a.
Proof.
  intros H. induction H as [|x a b H IH|x a b H IH]; intros Hd.
  - exact Hd.
  - inversion Hd; subst. apply IH. assumption.
  - inversion Hd as [|y l Hn Hd']; subst. constructor; [|apply IH; exact Hd'].
    intros Hin. apply Hn. exact (subl_incl _ _ H _ Hin).
Qed.

Lemma subl_flat_map {A B} (f' f : A -> list B) l :
  (forall x, In x l -> subl (f' x) (f x)) -> subl (flat_map f' l) (flat_map f l).
Proof.
  induction l as [|a r IH]; intros H; [constructor|]. cbn. apply subl_app.
  - apply H. left. reflexivity.
  - apply IH. intros x Hx. apply H. right. exact Hx.
Qed.

Lemma NoDup_app_l {A} (l1 l2 : list A) : NoDup (l1 ++ l2) -> NoDup l1.
Proof. apply subl_NoDup. rewrite <- (app_nil_r l1) at 1. apply subl_app; [apply subl_refl | apply subl_nil_l]. Qed.

Lemma NoDup_app_r {A} (l1 l2 : list A) : NoDup (l1 ++ l2) -> NoDup l2.
Proof. apply subl_NoDup. change l2 with ([] ++ l2) at 1. apply subl_app; [apply subl_nil_l | apply subl_refl]. Qed.

Lemma NoDup_app_disj {A} (l1 l2 : list A) x : NoDup (l1 ++ l2) -> In x l1 -> In x l2 -> False.
Proof.
  induction l1 as [|a r IH]; intros Hd H1 H2; [destruct H1|].
  cbn in Hd. inversion Hd as [|y l Hn Hd']; subst. destruct H1 as [<-|H1].
  - apply Hn. apply in_or_app. right. exact H2.
  - exact (IH Hd' H1 H2).
Qed.

(* ---- ids, flatten, levels -------------------------------------------------------------- *)
Lemma ids_node i cs : ids (Node i cs) = nid i :: flat_map ids cs.
Proof. unfold ids. cbn [flatten map]. unfold id_of at 1. cbn [inf]. rewrite map_flat_map. reflexivity. Qed.

Lemma flatten_node i cs : flatten (Node i cs) = Node i cs :: flat_map flatten cs.
Proof. reflexivity. Qed.

Lemma in_flatten_self t : In t (flatten t).
Proof. destruct t. left. reflexivity. Qed.

Lemma in_flatten_ids n t : In n (flatten t) -> In (id_of n) (ids t).
Proof. intros H. unfold ids. apply in_map. exact H. Qed.

Lemma id_in_ids t : In (id_of t) (ids t).
Proof. apply in_flatten_ids. apply in_flatten_self. Qed.

Lemma nodes_at_flatten : forall k t n, In n (nodes_at k t) -> In n (flatten t).
Proof.
  induction k as [|k IH]; intros [i cs] n H.
  - destruct H as [<-|[]]. apply in_flatten_self.
  - cbn [nodes_at] in H. apply in_flat_map in H as [c [Hc Hn]]. rewrite flatten_node. right.
    apply in_flat_map. exists c. split; [exact Hc | apply IH; exact Hn].
Qed.

Lemma flatten_nodes_at : forall t n, In n (flatten t) -> exists k, In n (nodes_at k t).
Proof.
  induction t as [i cs IH] using item_ind2. intros n H. rewrite flatten_node in H. destruct H as [<-|H].
  - exists 0%nat. left. reflexivity.
  - apply in_flat_map in H as [c [Hc Hn]]. rewrite Forall_forall in IH. destruct (IH c Hc n Hn) as [k Hk].
    exists (S k). cbn [nodes_at]. apply in_flat_map. exists c. split; assumption.
Qed.

(* ---- the two kinds of local rewrite ----------------------------------------------------- *)
Definition imap (g : info -> info) (n : item) : item := match n with Node i cs => Node (g i) cs end.
Definition rmf (x : N) (n : item) : item := match n with Node i cs => Node i (remove_first x cs) end.

Lemma set_status_imap id s t : set_status id s t = update id (imap (set_st s)) t.
Proof. reflexivity. Qed.
Lemma set_url_imap id u t : set_url_of id u t = update id (imap (set_url u)) t.
Proof. reflexivity. Qed.
Lemma remove_child_rmf pid x t : remove_child pid x t = update pid (rmf x) t.
Proof. reflexivity. Qed.

(* [f] rewrites the root's info by [g] and keeps a subsequence of the children *)
Definition localf (g : info -> info) (f : item -> item) : Prop :=
  forall i cs, exists cs', f (Node i cs) = Node (g i) cs' /\ subl cs' cs.

Lemma localf_imap g : localf g (imap g).
Proof. intros i cs. exists cs. split; [reflexivity | apply subl_refl]. Qed.

Lemma subl_remove_first x cs : subl (remove_first x cs) cs.
Proof.
  induction cs as [|c r IH]; [constructor|]. cbn [remove_first].
  destruct (N.eqb (id_of c) x); [constructor; apply subl_refl | constructor; exact IH].
Qed.

Lemma localf_rmf x : localf (fun i => i) (rmf x).
Proof. intros i cs. exists (remove_first x cs). split; [reflexivity | apply subl_remove_first]. Qed.

Lemma id_of_update id f g t : localf g f -> (forall i, nid (g i) = nid i) -> id_of (update id f t) = id_of t.
Proof.
  intros Hf Hg. destruct t as [i cs]. cbn [update].
  destruct (Hf i (map (update id f) cs)) as [cs' [He _]].
  destruct (N.eqb (nid i) id); [rewrite He; unfold id_of; cbn [inf]; apply Hg | reflexivity].
Qed.

(* every node of the result has a pre-image at the same level *)
Lemma update_level id f g (Hf : localf g f) : forall k t m',
  In m' (nodes_at k (update id f t)) ->
  exists m, In m (nodes_at k t) /\ inf m' = (if N.eqb (nid (inf m)) id then g (inf m) else inf m).
Proof.
  induction k as [|k IH]; intros [i cs] m' Hin; cbn [update] in Hin;
    destruct (Hf i (map (update id f) cs)) as [cs' [He Hs]]; destruct (N.eqb (nid i) id) eqn:E.
  - rewrite He in Hin. destruct Hin as [<-|[]]. exists (Node i cs). split; [left; reflexivity|].
    cbn [inf]. rewrite E. reflexivity.
  - destruct Hin as [<-|[]]. exists (Node i cs). split; [left; reflexivity|]. cbn [inf]. rewrite E. reflexivity.
  - rewrite He in Hin. cbn [nodes_at] in Hin. apply in_flat_map in Hin as [c' [Hc' Hm]].
    apply (subl_incl _ _ Hs) in Hc'. apply in_map_iff in Hc' as [c [<- Hc]].
    destruct (IH c m' Hm) as [m [Hm1 Hm2]]. exists m. split; [|exact Hm2].
    cbn [nodes_at]. apply in_flat_map. exists c. split; assumption.
  - cbn [nodes_at] in Hin. apply in_flat_map in Hin as [c' [Hc' Hm]].
    apply in_map_iff in Hc' as [c [<- Hc]].
    destruct (IH c m' Hm) as [m [Hm1 Hm2]]. exists m. split; [|exact Hm2].
    cbn [nodes_at]. apply in_flat_map. exists c. split; assumption.
Qed.

(* ---- level-wise pre-image relation ------------------------------------------------------- *)
Definition lpre (R : info -> info -> Prop) (t' t : item) : Prop :=
  forall k m', In m' (nodes_at k t') -> exists m, In m (nodes_at k t) /\ R (inf m') (inf m).

Lemma lpre_flat R t' t : lpre R t' t ->
  forall m', In m' (flatten t') -> exists m, In m (flatten t) /\ R (inf m') (inf m).
Proof.
  intros H m' Hm. destruct (flatten_nodes_at _ _ Hm) as [k Hk]. destruct (H k m' Hk) as [m [H1 H2]].
  exists m. split; [exact (nodes_at_flatten _ _ _ H1) | exact H2].
Qed.

Lemma lpre_refl (R : info -> info -> Prop) t : (forall i, R i i) -> lpre R t t.
Proof. intros Hr k m' H. exists m'. split; [exact H | apply Hr]. Qed.

Lemma lpre_trans (R : info -> info -> Prop) t'' t' t :
  (forall a b c, R a b -> R b c -> R a c) -> lpre R t'' t' -> lpre R t' t -> lpre R t'' t.
Proof.
  intros Ht H1 H2 k m'' Hm. destruct (H1 k m'' Hm) as [m' [Hm' Hr1]]. destruct (H2 k m' Hm') as [m [Hm0 Hr2]].
  exists m. split; [exact Hm0 | exact (Ht _ _ _ Hr1 Hr2)].
Qed.

Lemma lpre_weaken (R R' : info -> info -> Prop) t' t :
  (forall a b, R a b -> R' a b) -> lpre R t' t -> lpre R' t' t.
Proof. intros Hw H k m' Hm. destruct (H k m' Hm) as [m [H1 H2]]. exists m. split; [exact H1 | apply Hw; exact H2]. Qed.

(* same id, same URL, and a request (PreProcessed) only where there was one *)
Definition R0 (i' i : info) : Prop :=
  nid i' = nid i /\ nurl i' = nurl i /\ (nst i' = PreProcessed -> nst i = PreProcessed).
(* the same without the URL *)
Definition R1 (i' i : info) : Prop :=
  nid i' = nid i /\ (nst i' = PreProcessed -> nst i = PreProcessed).

Lemma R0_refl i : R0 i i.
Proof. repeat split; auto. Qed.
Lemma R0_trans a b c : R0 a b -> R0 b c -> R0 a c.
Proof. intros [H1 [H2 H3]] [H4 [H5 H6]]. repeat split; try congruence. auto. Qed.
Lemma R1_refl i : R1 i i.
Proof. split; auto. Qed.
Lemma R1_trans a b c : R1 a b -> R1 b c -> R1 a c.
Proof. intros [H1 H3] [H4 H6]. split; try congruence. auto. Qed.
Lemma R0_R1 a b : R0 a b -> R1 a b.
Proof. intros [H1 [_ H3]]. split; assumption. Qed.

Lemma lpre_set_status id s t : s <> PreProcessed -> lpre R0 (set_status id s t) t.
Proof.
  intros Hs k m' Hm. rewrite set_status_imap in Hm.
  destruct (update_level id _ _ (localf_imap (set_st s)) k t m' Hm) as [m [H1 H2]].
  exists m. split; [exact H1|]. rewrite H2. destruct (N.eqb (nid (inf m)) id); [|apply R0_refl].
  repeat split. cbn. intros He. congruence.
Qed.

Lemma lpre_set_url id u t : lpre R1 (set_url_of id u t) t.
Proof.
  intros k m' Hm. rewrite set_url_imap in Hm.
  destruct (update_level id _ _ (localf_imap (set_url u)) k t m' Hm) as [m [H1 H2]].
  exists m. split; [exact H1|]. rewrite H2. destruct (N.eqb (nid (inf m)) id); [|apply R1_refl].
  split; [reflexivity | cbn; auto].
Qed.

Lemma lpre_remove pid x t : lpre R0 (remove_child pid x t) t.
Proof.
  intros k m' Hm. rewrite remove_child_rmf in Hm.
  destruct (update_level pid _ _ (localf_rmf x) k t m' Hm) as [m [H1 H2]].
  exists m. split; [exact H1|]. rewrite H2. destruct (N.eqb (nid (inf m)) pid); apply R0_refl.
Qed.

Lemma lpre_mark_completed : forall t, lpre R0 (mark_completed t) t.
Proof.
  intros t k. revert t. induction k as [|k IH]; intros [i cs] m' Hm; cbn [mark_completed] in Hm.
  - destruct (forallb (fun c => negb (has_work c)) (map mark_completed cs) && is_got (nst i));
      destruct Hm as [<-|[]]; exists (Node i cs); (split; [left; reflexivity|]); cbn [inf].
    + repeat split. cbn. discriminate.
    + apply R0_refl.
  - assert (In m' (flat_map (nodes_at k) (map mark_completed cs))) as Hm'.
    { destruct (forallb (fun c => negb (has_work c)) (map mark_completed cs) && is_got (nst i)); exact Hm. }
    apply in_flat_map in Hm' as [c' [Hc' Hn]]. apply in_map_iff in Hc' as [c [<- Hc]].
    destruct (IH c m' Hn) as [m [H1 H2]]. exists m. split; [|exact H2].
    cbn [nodes_at]. apply in_flat_map. exists c. split; assumption.
Qed.

Lemma lpre_dedupe_loop rule : forall nodes seen t, lpre R0 (dedupe_loop rule nodes seen t) t.
Proof.
  induction nodes as [|[[[id url] st] pid] r IH]; intros seen t; cbn [dedupe_loop].
  - apply lpre_refl. exact R0_refl.
  - destruct (assoc url seen) as [[[eid est] epid]|].
    + destruct (rule est st).
      * eapply lpre_trans; [exact R0_trans | apply IH | apply lpre_remove].
      * eapply lpre_trans; [exact R0_trans | apply IH | apply lpre_remove].
    + apply IH.
Qed.

Lemma lpre_dedupe t : lpre R0 (dedupe t) t.
Proof.
  unfold dedupe, dedupe_with. eapply lpre_trans; [exact R0_trans | apply lpre_mark_completed | apply lpre_dedupe_loop].
Qed.

Lemma lpre_mark_seen o : forall items t, lpre R0 (mark_seen o items t) t.
Proof.
  unfold mark_seen. induction items as [|n r IH]; intros t; cbn [fold_left].
  - apply lpre_refl. exact R0_refl.
  - eapply lpre_trans; [exact R0_trans | apply IH |].
    destruct (o_seen o (id_of n)); [apply lpre_set_status; discriminate | apply lpre_refl; exact R0_refl].
Qed.

(* build_requests: a request appears only on the listed nodes *)
Lemma build_requests_pre o : forall todo t m',
  In m' (flatten (build_requests o todo t)) ->
  exists m, In m (flatten t) /\ nid (inf m') = nid (inf m) /\ nurl (inf m') = nurl (inf m)
            /\ (nst (inf m') = PreProcessed -> nst (inf m) = PreProcessed \/ In (nid (inf m)) (map id_of todo)).
Proof.
  unfold build_requests. induction todo as [|n r IH]; intros t m' Hm; cbn [fold_left] in Hm.
  - exists m'. repeat split; auto.
  - destruct (IH _ m' Hm) as [m1 [Hm1 [Hid [Hurl Hst]]]].
    destruct (flatten_nodes_at _ _ Hm1) as [k Hk]. rewrite set_status_imap in Hk.
    destruct (update_level _ _ _ (localf_imap _) k t m1 Hk) as [m [H1 H2]].
    exists m. split; [exact (nodes_at_flatten _ _ _ H1)|].
    assert (nid (inf m1) = nid (inf m) /\ nurl (inf m1) = nurl (inf m)
            /\ (nst (inf m1) = PreProcessed -> nst (inf m) = PreProcessed \/ id_of n = nid (inf m))) as [A1 [A2 A3]].
    { rewrite H2. destruct (N.eqb_spec (nid (inf m)) (id_of n)) as [He|Hne].
      - repeat split. intros _. right. symmetry. exact He.
      - repeat split. intros Hp. left. exact Hp. }
    repeat split; [congruence | congruence |].
    intros Hp. destruct (Hst Hp) as [H|H].
    + destruct (A3 H) as [H'|H']; [left; exact H' | right; left; exact H'].
    + right. right. rewrite <- A1. exact H.
Qed.

(* ---- ids under the operations ------------------------------------------------------------ *)
Lemma ids_update_imap id g : (forall i, nid (g i) = nid i) -> forall t, ids (update id (imap g) t) = ids t.
Proof.
  intros Hg. induction t as [i cs IH] using item_ind2. cbn [update].
  assert (flat_map ids (map (update id (imap g)) cs) = flat_map ids cs) as Hcs.
  { rewrite flat_map_map. apply flat_map_ext_in. intros c Hc. rewrite Forall_forall in IH. apply IH. exact Hc. }
  destruct (N.eqb (nid i) id); cbn [imap]; rewrite !ids_node, Hcs; [rewrite Hg|]; reflexivity.
Qed.

Lemma subl_ids_remove_first x cs : subl (flat_map ids (remove_first x cs)) (flat_map ids cs).
Proof.
  induction cs as [|c r IH]; [constructor|]. cbn [remove_first]. destruct (N.eqb (id_of c) x); cbn [flat_map].
  - change (flat_map ids r) with ([] ++ flat_map ids r) at 1. apply subl_app; [apply subl_nil_l | apply subl_refl].
  - apply subl_app; [apply subl_refl | exact IH].
Qed.

Lemma ids_remove_subl pid x : forall t, subl (ids (remove_child pid x t)) (ids t).
Proof.
  induction t as [i cs IH] using item_ind2. rewrite remove_child_rmf. cbn [update].
  assert (subl (flat_map ids (map (update pid (rmf x)) cs)) (flat_map ids cs)) as Hcs.
  { rewrite flat_map_map. apply subl_flat_map. intros c Hc. rewrite Forall_forall in IH.
    specialize (IH c Hc). rewrite remove_child_rmf in IH. exact IH. }
  destruct (N.eqb (nid i) pid); cbn [rmf]; rewrite !ids_node; apply subl_keep; [|exact Hcs].
  eapply subl_trans; [apply subl_ids_remove_first | exact Hcs].
Qed.

Lemma update_notin id f : forall t, ~ In id (ids t) -> update id f t = t.
Proof.
  induction t as [i cs IH] using item_ind2. intros Hn. rewrite ids_node in Hn. cbn [update].
  assert (map (update id f) cs = cs) as ->.
  { rewrite <- (map_id cs) at 2. apply map_ext_in. intros c Hc. rewrite Forall_forall in IH.
    apply IH; [exact Hc|]. intros Hin. apply Hn. right. apply in_flat_map. exists c. split; assumption. }
  destruct (N.eqb_spec (nid i) id) as [He|_]; [|reflexivity].
  exfalso. apply Hn. left. exact He.
Qed.

Lemma child_disjoint cs : NoDup (flat_map ids cs) -> forall c1 c2 x,
  In c1 cs -> In c2 cs -> In x (ids c1) -> In x (ids c2) -> c1 = c2.
Proof.
  induction cs as [|a r IH]; intros Hd c1 c2 x H1 H2 Hx1 Hx2; [destruct H1|].
  cbn [flat_map] in Hd. destruct H1 as [<-|H1], H2 as [<-|H2].
  - reflexivity.
  - exfalso. apply (NoDup_app_disj _ _ x Hd Hx1). apply in_flat_map. exists c2. split; assumption.
  - exfalso. apply (NoDup_app_disj _ _ x Hd Hx2). apply in_flat_map. exists c1. split; assumption.
  - exact (IH (NoDup_app_r _ _ Hd) c1 c2 x H1 H2 Hx1 Hx2).
Qed.

(* ---- parent/child edges ------------------------------------------------------------------ *)
Fixpoint edges (t : item) : list (N * N) :=
  match t with Node i cs => map (fun c => (nid i, id_of c)) cs ++ flat_map edges cs end.

Lemma edges_node i cs : edges (Node i cs) = map (fun c => (nid i, id_of c)) cs ++ flat_map edges cs.
Proof. reflexivity. Qed.

(* the two ends of an edge: the parent is a node, the child is a proper descendant of the root *)
Lemma edge_ends : forall t p x, In (p, x) (edges t) -> In p (ids t) /\ In x (flat_map ids (kids t)).
Proof.
  induction t as [i cs IH] using item_ind2. intros p x H. rewrite edges_node in H. rewrite ids_node. cbn [kids].
  apply in_app_or in H as [H|H].
  - apply in_map_iff in H as [c [He Hc]]. injection He as <- <-. split; [left; reflexivity|].
    apply in_flat_map. exists c. split; [exact Hc | apply id_in_ids].
  - apply in_flat_map in H as [c [Hc He]]. rewrite Forall_forall in IH. destruct (IH c Hc p x He) as [H1 H2].
    split.
    + right. apply in_flat_map. exists c. split; [exact Hc | exact H1].
    + apply in_flat_map. exists c. split; [exact Hc|].
      destruct c as [ci ccs]. rewrite ids_node. right. exact H2.
Qed.

Lemma has_parent : forall t x, In x (ids t) -> x <> id_of t -> exists p, In (p, x) (edges t).
Proof.
  induction t as [i cs IH] using item_ind2. intros x Hx Hne. rewrite ids_node in Hx.
  destruct Hx as [Hx|Hx]; [exfalso; apply Hne; symmetry; exact Hx|].
  apply in_flat_map in Hx as [c [Hc Hx]]. rewrite edges_node.
  destruct (N.eq_dec x (id_of c)) as [He|Hn].
  - exists (nid i). apply in_or_app. left. apply in_map_iff. exists c. split; [rewrite He; reflexivity | exact Hc].
  - rewrite Forall_forall in IH. destruct (IH c Hc x Hx Hn) as [p Hp]. exists p. apply in_or_app. right.
    apply in_flat_map. exists c. split; assumption.
Qed.

Lemma NoDup_flat_child cs c : NoDup (flat_map ids cs) -> In c cs -> NoDup (ids c).
Proof.
  induction cs as [|a r IHr]; intros Hd Hc; [destruct Hc|]. cbn [flat_map] in Hd. destruct Hc as [->|Hc];
    [exact (NoDup_app_l _ _ Hd) | exact (IHr (NoDup_app_r _ _ Hd) Hc)].
Qed.

Lemma edges_fun : forall t p p' x, NoDup (ids t) -> In (p, x) (edges t) -> In (p', x) (edges t) -> p = p'.
Proof.
  induction t as [i cs IH] using item_ind2. intros p p' x Hd H1 H2. rewrite ids_node in Hd.
  inversion Hd as [|y l Hroot Hd']; subst. rewrite edges_node in H1, H2.
  (* a direct child id cannot also be the child end of an edge inside a subtree *)
  assert (forall c c' q, In c cs -> In c' cs -> In (q, id_of c) (edges c') -> False) as Hmix.
  { intros c c' q Hc Hc' He. destruct (edge_ends _ _ _ He) as [_ Hx].
    assert (In (id_of c) (ids c')) as Hin.
    { destruct c' as [ci ccs]. rewrite ids_node. right. exact Hx. }
    assert (c = c') as <- by exact (child_disjoint cs Hd' c c' (id_of c) Hc Hc' (id_in_ids c) Hin).
    assert (NoDup (ids c)) as Hdc by exact (NoDup_flat_child cs c Hd' Hc).
    destruct c as [ci ccs]. rewrite ids_node in Hdc. inversion Hdc; subst. cbn [kids] in Hx. unfold id_of in Hx. cbn [inf] in Hx.
    contradiction. }
  apply in_app_or in H1 as [H1|H1]; apply in_app_or in H2 as [H2|H2].
  - apply in_map_iff in H1 as [c1 [E1 _]]. apply in_map_iff in H2 as [c2 [E2 _]]. congruence.
  - apply in_map_iff in H1 as [c1 [E1 Hc1]]. injection E1 as <- <-.
    apply in_flat_map in H2 as [c2 [Hc2 He2]]. exfalso. exact (Hmix c1 c2 p' Hc1 Hc2 He2).
  - apply in_map_iff in H2 as [c2 [E2 Hc2]]. injection E2 as <- <-.
    apply in_flat_map in H1 as [c1 [Hc1 He1]]. exfalso. exact (Hmix c2 c1 p Hc2 Hc1 He1).
  - apply in_flat_map in H1 as [c1 [Hc1 He1]]. apply in_flat_map in H2 as [c2 [Hc2 He2]].
    destruct (edge_ends _ _ _ He1) as [_ Hx1]. destruct (edge_ends _ _ _ He2) as [_ Hx2].
    assert (In x (ids c1)) as Hi1 by (destruct c1 as [ci ccs]; rewrite ids_node; right; exact Hx1).
    assert (In x (ids c2)) as Hi2 by (destruct c2 as [ci ccs]; rewrite ids_node; right; exact Hx2).
    assert (c1 = c2) as <- by exact (child_disjoint cs Hd' c1 c2 x Hc1 Hc2 Hi1 Hi2).
    rewrite Forall_forall in IH. apply (IH c1 Hc1 p p' x); try assumption.
    exact (NoDup_flat_child cs c1 Hd' Hc1).
Qed.

Lemma NoDup_child i cs c : NoDup (ids (Node i cs)) -> In c cs -> NoDup (ids c).
Proof.
  rewrite ids_node. intros Hd Hc. inversion Hd as [|y l _ Hd']; subst.
  exact (NoDup_flat_child cs c Hd' Hc).
Qed.

Lemma edges_update_imap id g : (forall i, nid (g i) = nid i) -> forall t, edges (update id (imap g) t) = edges t.
Proof.
  intros Hg. induction t as [i cs IH] using item_ind2. cbn [update].
  assert (forall c, id_of (update id (imap g) c) = id_of c) as Hid.
  { intros c. apply (id_of_update id _ g); [apply localf_imap | exact Hg]. }
  assert (flat_map edges (map (update id (imap g)) cs) = flat_map edges cs) as Hcs.
  { rewrite flat_map_map. apply flat_map_ext_in. intros c Hc. rewrite Forall_forall in IH. apply IH. exact Hc. }
  destruct (N.eqb (nid i) id); cbn [imap]; rewrite !edges_node, Hcs, map_map; f_equal; apply map_ext; intros c;
    rewrite Hid; [rewrite Hg|]; reflexivity.
Qed.

Lemma edges_remove_incl pid x : forall t, incl (edges (remove_child pid x t)) (edges t).
Proof.
  induction t as [i cs IH] using item_ind2. rewrite remove_child_rmf. cbn [update].
  assert (forall c, id_of (update pid (rmf x) c) = id_of c) as Hid.
  { intros c. apply (id_of_update pid _ (fun i => i)); [apply localf_rmf | reflexivity]. }
  set (cs1 := map (update pid (rmf x)) cs).
  assert (incl (edges (Node i cs1)) (edges (Node i cs))) as H1.
  { rewrite !edges_node. unfold cs1. intros e He. apply in_app_or in He as [He|He]; apply in_or_app.
    - left. rewrite map_map in He. apply in_map_iff in He as [c [E Hc]]. rewrite Hid in E.
      apply in_map_iff. exists c. split; assumption.
    - right. rewrite flat_map_map in He. apply in_flat_map in He as [c [Hc He]]. apply in_flat_map. exists c.
      split; [exact Hc|]. rewrite Forall_forall in IH. specialize (IH c Hc). rewrite remove_child_rmf in IH.
      apply IH. exact He. }
  destruct (N.eqb (nid i) pid); [|exact H1].
  cbn [rmf]. intros e He. apply H1. rewrite edges_node in He |- *. apply in_app_or in He as [He|He]; apply in_or_app.
  - left. apply in_map_iff in He as [c [E Hc]]. apply in_map_iff. exists c. split; [exact E|].
    exact (subl_incl _ _ (subl_remove_first x cs1) _ Hc).
  - right. apply in_flat_map in He as [c [Hc He]]. apply in_flat_map. exists c. split; [|exact He].
    exact (subl_incl _ _ (subl_remove_first x cs1) _ Hc).
Qed.

(* with unique ids, removing the child [x] of [pid] removes every node whose id is [x] *)
Lemma remove_first_gone x : forall cs c, NoDup (flat_map ids cs) -> In c cs -> id_of c = x ->
  ~ In x (flat_map ids (remove_first x cs)).
Proof.
  induction cs as [|a r IH]; intros c Hd Hc Hid; [destruct Hc|]. cbn [remove_first]. cbn [flat_map] in Hd.
  destruct (N.eqb_spec (id_of a) x) as [Ha|Ha].
  - intros Hin. apply (NoDup_app_disj _ _ x Hd); [rewrite <- Ha; apply id_in_ids | exact Hin].
  - destruct Hc as [->|Hc]; [contradiction|]. cbn [flat_map]. intros Hin. apply in_app_or in Hin as [Hin|Hin].
    + apply (NoDup_app_disj _ _ x Hd Hin). apply in_flat_map. exists c. split; [exact Hc|]. rewrite <- Hid. apply id_in_ids.
    + exact (IH c (NoDup_app_r _ _ Hd) Hc Hid Hin).
Qed.

Lemma rm_gone pid x : forall t, NoDup (ids t) -> In (pid, x) (edges t) -> ~ In x (ids (remove_child pid x t)).
Proof.
  induction t as [i cs IH] using item_ind2. intros Hd He. rewrite remove_child_rmf. cbn [update].
  pose proof Hd as Hd0. rewrite ids_node in Hd. inversion Hd as [|y l Hroot Hd']; subst.
  destruct (edge_ends _ _ _ He) as [_ Hxin]. cbn [kids] in Hxin.
  assert (x <> nid i) as Hxr by (intros ->; contradiction).
  rewrite edges_node in He.
  destruct (N.eqb_spec (nid i) pid) as [Hp|Hp].
  - (* this node is the parent: no deeper node has its id, so the children are untouched *)
    assert (map (update pid (rmf x)) cs = cs) as ->.
    { rewrite <- (map_id cs) at 2. apply map_ext_in. intros c Hc. apply update_notin. intros Hin.
      apply Hroot. rewrite Hp. apply in_flat_map. exists c. split; assumption. }
    cbn [rmf]. rewrite ids_node. intros [Hin|Hin]; [apply Hxr; symmetry; exact Hin|].
    apply in_app_or in He as [He|He].
    + apply in_map_iff in He as [c [E Hc]]. injection E as _ E. exact (remove_first_gone x cs c Hd' Hc E Hin).
    + apply in_flat_map in He as [c [Hc He]]. destruct (edge_ends _ _ _ He) as [Hpin _].
      apply Hroot. rewrite Hp. apply in_flat_map. exists c. split; assumption.
  - rewrite ids_node. intros [Hin|Hin]; [apply Hxr; symmetry; exact Hin|].
    apply in_app_or in He as [He|He].
    + apply in_map_iff in He as [c [E _]]. injection E as E _. contradiction.
    + apply in_flat_map in He as [c [Hc He]]. rewrite flat_map_map in Hin.
      apply in_flat_map in Hin as [c' [Hc' Hin]].
      destruct (edge_ends _ _ _ He) as [_ Hxc].
      assert (In x (ids c)) as Hxc' by (destruct c as [ci ccs]; rewrite ids_node; right; exact Hxc).
      assert (In x (ids c')) as Hxc''.
      { pose proof (ids_remove_subl pid x c') as Hs. rewrite remove_child_rmf in Hs. exact (subl_incl _ _ Hs _ Hin). }
      assert (c = c') as <- by exact (child_disjoint cs Hd' c c' x Hc Hc' Hxc' Hxc'').
      rewrite Forall_forall in IH. apply (IH c Hc (NoDup_child _ _ _ Hd0 Hc) He).
      rewrite remove_child_rmf. exact Hin.
Qed.

(* ---- level_par --------------------------------------------------------------------------- *)
Lemma level_par_fst : forall k par t, map fst (level_par k par t) = nodes_at k t.
Proof.
  induction k as [|k IH]; intros par [i cs]; [reflexivity|].
  cbn [level_par nodes_at]. rewrite map_flat_map. apply flat_map_ext_in. intros c _. apply IH.
Qed.

Lemma level_par_edges : forall k par t n p, In (n, Some p) (level_par k par t) ->
  (par = Some p /\ k = 0%nat /\ n = t) \/ In (id_of p, id_of n) (edges t).
Proof.
  induction k as [|k IH]; intros par [i cs] n p H.
  - destruct H as [H|[]]. injection H as <- <-. left. repeat split.
  - right. cbn [level_par] in H. apply in_flat_map in H as [c [Hc H]]. rewrite edges_node. apply in_or_app.
    destruct (IH _ _ _ _ H) as [[Hp [_ Hn]]|He].
    + left. injection Hp as <-. subst n. apply in_map_iff. exists c. split; [reflexivity | exact Hc].
    + right. apply in_flat_map. exists c. split; assumption.
Qed.

Lemma level_par_none : forall k t n, In (n, None) (level_par k None t) -> k = 0%nat /\ n = t.
Proof.
  intros [|k] [i cs] n H.
  - destruct H as [H|[]]. injection H as <-. split; reflexivity.
  - exfalso. cbn [level_par] in H. apply in_flat_map in H as [c [_ H]].
    assert (forall k par t, par <> None -> ~ In (n, None) (level_par k par t)) as Hno.
    { clear. induction k as [|k IH]; intros par [i cs] Hp H.
      - destruct H as [H|[]]. injection H as _ H. congruence.
      - cbn [level_par] in H. apply in_flat_map in H as [c [_ H]]. apply (IH (Some (Node i cs)) c); [discriminate | exact H]. }
    apply (Hno k (Some (Node i cs)) c); [discriminate | exact H].
Qed.
