(* C05 - what the START-UP of a crawl does to the operator's scope: executable model.  Proofs are in
   StartProofs.v.  Transcribed from

     internal/pkg/config/config.go   GenerateCrawlConfig: the loop over --exclusion-file (local
                                     path or http(s) URL, readLocalExclusionFile /
                                     readRemoteExclusionFile, compileRegexes) and the hand-over of
                                     --domains-crawl to domainscrawl.AddElements
     internal/pkg/postprocessor/domainscrawl/domainscrawl.go   isSubdomainOrExactMatch
     internal/pkg/preprocessor/preprocessor.go   preprocess(): what it reads of --domains-crawl
                                     when it decides on a URL (nothing)

   Two things the scope model (Scope.v) took for granted:
   (1) the four filter lists are not the only options present when preprocess() decides:
       --domains-crawl (a hop-count option of the postprocessor) comes with its own matcher;
   (2) the exclusion expressions are in force only if every file the operator named was READ:
       a file is a local path or a URL, and the one read at start-up can fail. *)
From Coq Require Export List Bool Ascii String NArith.
From ZenoV Require Export Lib.Hex Scope.Scope.
Export ListNotations.

(* ---- (1) --domains-crawl ------------------------------------------------------------------- *)
(* the operator's options that are in view when a URL is decided on *)
Record opcfg_x := OCX {
  x_cfg : opcfg;                    (* --include-host/--include-string/--exclude-host/--exclude-string *)
  x_domains_crawl : list bytes      (* --domains-crawl: naive domains, URLs, regular expressions *)
}.

(* GenerateCrawlConfig: the four lists as in [gen_cfg]; config.DomainsCrawl is handed to
   domainscrawl.AddElements as it is *)
Definition gen_cfg_x (c : opcfg_x) : opcfg_x := OCX (gen_cfg (x_cfg c)) (x_domains_crawl c).

(* domainscrawl.isSubdomainOrExactMatch(host, domain): host == domain || HasSuffix(host, "."+domain) *)
Definition suffixb (s h : bytes) : bool := prefixb (rev s) (rev h).
Definition sub_or_exact (host domain : bytes) : bool :=
  bytes_eqb host domain || suffixb (bs "." ++ domain) host.
(* Match restricted to naive-domain entries (URL and regex entries: an oracle, [dcm] below) *)
Definition dc_domain_match (domains : list bytes) (host : bytes) : bool :=
  existsb (sub_or_exact host) domains.

(* preprocess(): include block, exclude block.  [dcm] = what domainscrawl.Match(URL.String())
   answers for this URL; the code does not ask: the decision is [passes] of the four lists. *)
Definition passes_x (c : opcfg_x) (dcm : bool) (v : view) : bool := passes (x_cfg c) v.

(* the per-node oracle of Stage/Pass.v, with every option in view; [dcm id] = the matcher's answer
   for node [id] *)
Definition scope_oracle_x (oc : opcfg_x) (dcm : N -> bool) (nvs : N -> norm_view) (seen reqfail : N -> bool) : oracle :=
  Oracle (fun id => pre_ans_with (fun c v => passes_x (OCX c (x_domains_crawl oc)) (dcm id) v) (gen_cfg (x_cfg oc)) (nvs id))
         seen reqfail (fun _ => None).

(* NOT the code: an include block that lets a URL pass when the domains-crawl matcher knows it
   ("the domains given with --domains-crawl count as included").  Kept to show what the theorem
   excludes. *)
Definition passes_widened (c : opcfg_x) (dcm : bool) (v : view) : bool :=
  (included (x_cfg c) (v_host1 v) (v_text v) || (nonempty (x_domains_crawl c) && dcm))
  && negb (excluded (x_cfg c) (v_host1 v) (v_text v) (v_bits v)).

(* ---- (2) reading the exclusion files at start-up --------------------------------------------- *)
(* what the ONE read of a named file yields (file system / network: oracle).  [FFail]: the local
   file cannot be opened or read; the download fails (connection refused or reset, time-out
   after 5 s, status other than 200, body cut short). *)
Inductive fetch :=
| FOk (content : bytes)
| FFail.

(* bufio.Scanner with its default buffer: a piece between two LFs (the CR of a CRLF counts) of
   65536 bytes or more is bufio.ErrTooLong - the reader fails.  (One corner the content alone does
   not decide: a LAST piece without LF of exactly 65536 bytes is returned when the reader delivers
   io.EOF together with the last bytes and refused otherwise; the model says refused, the
   generator leaves that length out.) *)
Definition max_token : N := 65536.
Fixpoint too_long_acc (n : N) (s : bytes) : bool :=
  match s with
  | [] => false
  | c :: r => if Ascii.eqb c LF then too_long_acc 0 r
              else N.leb max_token (N.succ n) || too_long_acc (N.succ n) r
  end.
Definition too_long (content : bytes) : bool := too_long_acc 0 content.

(* [read_lines] of Scope.v with a linear reversal (List.rev is quadratic; a line at the scanner's
   limit has 65535 bytes); equal to it: StartProofs.read_lines_fast_eq *)
Fixpoint lines_fast_acc (acc : bytes) (s : bytes) : list bytes :=
  match s with
  | [] => match acc with [] => [] | _ => [drop_last_cr (rev_append acc [])] end
  | c :: r => if Ascii.eqb c LF then drop_last_cr (rev_append acc []) :: lines_fast_acc [] r else lines_fast_acc (c :: acc) r
  end.
Definition read_lines_fast (content : bytes) : list bytes := lines_fast_acc [] content.

Definition read_file (f : fetch) : option (list bytes) :=
  match f with
  | FFail => None
  | FOk content => if too_long content then None else Some (read_lines_fast content)
  end.

(* GenerateCrawlConfig's loop: every named file is read (error: return err, the crawl does not
   start), its lines compiled (regexp.MustCompile: a line Go's regexp refuses is a panic, the
   crawl does not start; [compiles] is the oracle) and APPENDED.  None = start refused. *)
Fixpoint load_files (compiles : bytes -> bool) (fs : list fetch) : option (list bytes) :=
  match fs with
  | [] => Some []
  | f :: r =>
    match read_file f with
    | None => None
    | Some ls =>
      if forallb compiles ls then
        match load_files compiles r with
        | None => None
        | Some rest => Some (ls ++ rest)
        end
      else None
    end
  end.

(* NOT the code: the loop that skips a file it cannot read ("the server holding the list may be
   down for a moment") *)
Fixpoint load_files_skipping (compiles : bytes -> bool) (fs : list fetch) : option (list bytes) :=
  match fs with
  | [] => Some []
  | f :: r =>
    match read_file f with
    | None => load_files_skipping compiles r
    | Some ls =>
      if forallb compiles ls then
        match load_files_skipping compiles r with
        | None => None
        | Some rest => Some (ls ++ rest)
        end
      else None
    end
  end.

Definition content_of (f : fetch) : bytes := match f with FOk c => c | FFail => [] end.
