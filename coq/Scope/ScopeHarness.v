(* C05 - what the generated case files evaluate.  One case = one real models.Item tree given to
   the real preprocess() under one real filter configuration. *)
From ZenoV Require Import Lib.Harness Scope.Scope Scope.Start.
Open Scope N_scope.

(* a URL as the implementation holds it after preprocess: parsed.Scheme, parsed.Host,
   parsed.Hostname(), the string, the exclusion regexes' answers on the string *)
Record uview := UV { u_scheme : bytes; u_host : bytes; u_hostname : bytes; u_text : bytes; u_bits : list bool }.

(* one node of the tree that came out of preprocess *)
Record onode := ON {
  on_id : N;
  on_st : status;
  on_req : bool;               (* GetURL().GetRequest() != nil *)
  on_item : option uview;      (* the item's URL (GetParsed / String()), None: not parsed *)
  on_reqv : option uview       (* the attached request's own URL (req.URL) *)
}.

Record scase := SC {
  s_cfg : opcfg;                     (* the operator's lists as assigned to the config *)
  s_dc : list bytes;                 (* --domains-crawl as assigned to the config (handed to domainscrawl by GenerateCrawlConfig) *)
  s_dcm : list N;                    (* the nodes whose String() the real domainscrawl.Match knows (observed; the decision must not depend on it) *)
  s_files : list bytes;              (* the --exclusion-file files written for the case: their CONTENT, byte for byte *)
  s_eff : list bytes;                (* config.Get().ExcludeHosts after GenerateCrawlConfig() *)
  s_eff_re : list bytes;             (* config.Get().ExclusionRegexes after it: each expression's String() *)
  s_in : item;                       (* the tree before *)
  s_nv : list (N * norm_view);       (* per node at the working depth: what the parsers said *)
  s_seen : list N;                   (* oracle: the seen-store's answers (observed) *)
  s_reqfail : list N;                (* oracle: http.NewRequest failed *)
  s_panic : bool;
  s_out : item;                      (* the tree after *)
  s_nodes : list onode               (* every node of the tree after *)
}.

Definition memN (x : N) (l : list N) : bool := existsb (N.eqb x) l.

Definition nv_of (c : scase) (id : N) : norm_view :=
  match assoc id (s_nv c) with Some v => v | None => NVErr end.

Definition case_oracle (c : scase) : oracle :=
  scope_oracle_x (OCX (s_cfg c) (s_dc c)) (fun id => memN id (s_dcm c)) (nv_of c)
                 (fun id => memN id (s_seen c)) (fun id => memN id (s_reqfail c)).

Definition info_eqb (a c : info) : bool :=
  N.eqb (nid a) (nid c) && N.eqb (nurl a) (nurl c) && status_eqb (nst a) (nst c)
  && Bool.eqb (nvia a) (nvia c) && N.eqb (nhops a) (nhops c) && N.eqb (nredir a) (nredir c).

Fixpoint item_eqb (a c : item) : bool :=
  match a, c with
  | Node i cs, Node j ds =>
    info_eqb i j &&
    (fix go (l m : list item) : bool :=
       match l, m with
       | [], [] => true
       | x :: l', y :: m' => item_eqb x y && go l' m'
       | _, _ => false
       end) cs ds
  end.

Fixpoint bytes_list_eqb (a c : list bytes) : bool :=
  match a, c with
  | [], [] => true
  | x :: a', y :: c' => bytes_eqb x y && bytes_list_eqb a' c'
  | _, _ => false
  end.

(* correspondence: effective exclusion lists (hosts, regexes of all files), and the whole tree
   after preprocess.  The regex answers in the case ([v_bits], [u_bits]) are computed by the driver
   with Go's regexp from the lines of ALL files, not from the implementation's compiled list. *)
Definition diff_case (c : scase) : bool :=
  negb (bytes_list_eqb (exc_hosts (gen_cfg (s_cfg c))) (s_eff c))
  || negb (bytes_list_eqb (gen_regexes_raw (s_files c)) (s_eff_re c))
  || match preprocess (case_oracle c) (s_in c) with
     | Ok t => s_panic c || negb (item_eqb t (s_out c))
     | Panic _ => negb (s_panic c)
     end.

Definition diffs (l : list scase) := bad_idx diff_case l.

(* ---- monitors: the theorem's predicates on the implementation's own strings ------------- *)
Definition colon (s : bytes) : bytes := s ++ bs ":".

Definition uv_in_scope (c : scase) (u : option uview) : bool :=
  match u with
  | Some v => in_scope (gen_cfg (s_cfg c)) (u_host v) (u_text v) (u_bits v)
  | None => false
  end.
Definition uv_shape_ok (u : option uview) : bool :=
  match u with
  | Some v => shape_ok (colon (u_scheme v)) (u_hostname v)
  | None => false
  end.

(* 0: every request is for a URL inside the operator's scope (item's URL and request's URL) *)
Definition mon_in_scope (c : scase) : bool :=
  forallb (fun n => implb (on_req n) (uv_in_scope c (on_item n) && uv_in_scope c (on_reqv n))) (s_nodes c).

(* 1: ... with scheme http/https and a dotted host other than localhost / 127.0.0.1 *)
Definition mon_shape (c : scase) : bool :=
  forallb (fun n => implb (on_req n) (uv_shape_ok (on_item n) && uv_shape_ok (on_reqv n))) (s_nodes c).

(* 2: a request is attached exactly to the PreProcessed nodes *)
Definition mon_req_iff_pp (c : scase) : bool :=
  forallb (fun n => Bool.eqb (on_req n) (status_eqb (on_st n) PreProcessed)) (s_nodes c).

(* 3: a seed that is itself at the working depth (the whole tree) stays childless and ends
   PreProcessed (request), Seen, Failed or Completed; when the implementation's own strings say
   it is out of scope (or it was not parsed) it ends Failed or Completed, and nothing in the tree
   carries a request unless the seed is PreProcessed *)
Definition mon_rejected_seed (c : scase) : bool :=
  match s_in c with
  | Node i [] =>
    if status_eqb (nst i) Fresh then
      match s_out c with
      | Node j [] =>
        let st := nst j in
        (status_eqb st PreProcessed || status_eqb st Failed || status_eqb st Completed || status_eqb st Seen)
        && forallb (fun n => implb (on_req n) (status_eqb st PreProcessed)) (s_nodes c)
        && match s_nodes c with
           | n :: _ =>
             if uv_in_scope c (on_item n) && uv_shape_ok (on_item n) then true
             else status_eqb st Failed || status_eqb st Completed
           | [] => false
           end
      | _ => false
      end
    else true
  | _ => true
  end.

Definition mons (l : list scase) :=
  mon_idx [mon_in_scope; mon_shape; mon_req_iff_pp; mon_rejected_seed] l.

(* ---- the archiver's side: what ARRIVES at the origin --------------------------------------- *)
(* One case = one pre-processed item (its request attached) given to the REAL archiver stage
   (archiver.Start, worker, archive(), the real WARC/HTTP client) against a scripted local
   origin; the origin logs every request it receives.  The archiver must send exactly the
   attached request: a 3xx answer is handed on as a response (the redirect target becomes a
   child that goes through preprocess and its filters), never followed by the client. *)
Record arcase := ARC {
  a_cfg : opcfg;                 (* the operator's lists the run is judged against *)
  a_expected : list bytes;       (* the URLs of the requests attached to the items sent in *)
  a_arrivals : list uview        (* origin log: scheme, Host header, host name, URL, regex answers *)
}.

Definition a_diff_case (c : arcase) : bool :=
  negb (bytes_list_eqb (a_expected c) (map u_text (a_arrivals c))).
Definition adiffs (l : list arcase) := bad_idx a_diff_case l.

(* the same predicates as monitors 0 and 1 of the scope driver, on the origin's log *)
Definition a_mon_in_scope (c : arcase) : bool :=
  forallb (fun v => in_scope (gen_cfg (a_cfg c)) (u_host v) (u_text v) (u_bits v)) (a_arrivals c).
Definition a_mon_shape (c : arcase) : bool :=
  forallb (fun v => shape_ok (colon (u_scheme v)) (u_hostname v)) (a_arrivals c).
Definition amons (l : list arcase) := mon_idx [a_mon_in_scope; a_mon_shape] l.

(* ---- the start-up: GenerateCrawlConfig with exclusion files that may fail to be read ---------- *)
(* One case = one list of --exclusion-file arguments (local paths and http URLs served by a
   scripted in-process server) given to the REAL config.GenerateCrawlConfig; when it returns
   without error (the crawl would start) the real preprocess() runs on probe URLs. *)
Record xfile := XF {
  xf_fetch : fetch;            (* what the script makes the one read yield: the content, or a failure *)
  xf_lines : list bytes        (* the lines of the file the operator named (the driver's own splitting of the
                                  content the server holds / the path would hold), readable or not *)
}.
Record probe := PR {
  p_text : bytes;              (* URL.String() of the probe *)
  p_req : bool;                (* a request was attached by preprocess() *)
  p_bits : list bool           (* the driver's own compilation of every line of every named file, on the text *)
}.
Record cfcase := CF {
  cf_files : list xfile;
  cf_bad : list bytes;         (* oracle: the lines Go's regexp refuses to compile *)
  cf_started : bool;           (* GenerateCrawlConfig returned nil (no error, no panic) *)
  cf_eff : list bytes;         (* config.Get().ExclusionRegexes after it: each expression's String() *)
  cf_probes : list probe
}.

(* a run of [n] bytes "x" (a line at the scanner's limit, written compactly in the case files) *)
Definition xrun (n : N) : bytes := repeat "x"%char (N.to_nat n).

Definition cf_compiles (c : cfcase) (l : bytes) : bool := negb (memb l (cf_bad c)).

Definition cf_diff_case (c : cfcase) : bool :=
  match load_files (cf_compiles c) (map xf_fetch (cf_files c)) with
  | None => cf_started c
  | Some regs => negb (cf_started c) || negb (bytes_list_eqb regs (cf_eff c))
  end.
Definition cfdiffs (l : list cfcase) := bad_idx cf_diff_case l.

Definition fetch_ok (f : fetch) : bool := match f with FOk _ => true | FFail => false end.

(* 0: a crawl that starts has read every file the operator named, and every line of every one of
   them is among the effective expressions *)
Definition cf_mon_all_in_force (c : cfcase) : bool :=
  implb (cf_started c)
        (forallb (fun f => fetch_ok (xf_fetch f) && forallb (fun l => memb l (cf_eff c)) (xf_lines f)) (cf_files c)).

(* 1: no request for a URL that a line of a named file matches; nothing is requested by a crawl
   that does not start *)
Definition cf_mon_no_request (c : cfcase) : bool :=
  forallb (fun p => implb (p_req p) (cf_started c && negb (existsb (fun b => b) (p_bits p)))) (cf_probes c).

Definition cfmons (l : list cfcase) := mon_idx [cf_mon_all_in_force; cf_mon_no_request] l.
