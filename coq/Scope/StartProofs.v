(* C05 - facts about the start-up model (Start.v): --domains-crawl never widens the include filter;
   a crawl that starts has every line of every named exclusion file in force. *)
From Coq Require Import Lia.
From ZenoV Require Import Scope.Scope Scope.Start Scope.ScopeProofs Scope.TreeFacts Scope.PreProofs.
Open Scope N_scope.

(* ---- (1) --domains-crawl --------------------------------------------------------------------- *)
Lemma scope_oracle_x_eq (oc : opcfg_x) dcm nvs seen reqfail :
  scope_oracle_x oc dcm nvs seen reqfail = scope_oracle (x_cfg oc) nvs seen reqfail.
Proof. reflexivity. Qed.

(* filter level: an include filter is given and the URL matches none of its entries - it does not
   pass, whatever --domains-crawl holds and whatever its matcher says about the URL *)
Lemma domains_crawl_never_widens_lemma (c : opcfg_x) (dcm : bool) (v : view) :
  inc_hosts (x_cfg c) <> [] \/ inc_strings (x_cfg c) <> [] ->
  (forall e, In e (inc_hosts (x_cfg c)) -> ~ substring e (v_host1 v)) ->
  (forall e, In e (inc_strings (x_cfg c)) -> ~ substring e (v_text v)) ->
  passes_x c dcm v = false.
Proof.
  intros Hne Hh Hs. unfold passes_x, passes. apply include_required_lemma; assumption.
Qed.

(* ... and the decision is the predicate of the four lists: equal for any two domains-crawl
   settings and matcher answers *)
Lemma domains_crawl_irrelevant_lemma (c : opcfg) (dc dc' : list bytes) (dcm dcm' : bool) (v : view) :
  passes_x (OCX c dc) dcm v = passes_x (OCX c dc') dcm' v
  /\ passes_x (OCX c dc) dcm v = in_scope c (v_host1 v) (v_text v) (v_bits v).
Proof. split; reflexivity. Qed.

(* tree level: the theorem of PreProofs.v with every option in view.  For every tree, every
   --domains-crawl setting, every answer of its matcher: a request is attached only to a node whose
   URL is in scope under the four lists (defaults appended) - seed, redirect target, asset alike *)
Lemma domains_crawl_request_implies_scope_lemma :
  forall (oc : opcfg_x) (dcm : N -> bool) nvs seen reqfail t t',
    NoDup (ids t) -> (forall m, In m (flatten t) -> st_of m <> PreProcessed) ->
    preprocess (scope_oracle_x oc dcm nvs seen reqfail) t = Ok t' ->
    forall m', In m' (flatten t') -> st_of m' = PreProcessed ->
      exists proto hn v,
        nvs (id_of m') = NVAda proto hn (Some v) /\ v_url v = url_of m'
        /\ shape_ok proto hn = true
        /\ in_scope (gen_cfg (x_cfg oc)) (v_host1 v) (v_text v) (v_bits v) = true.
Proof.
  intros oc dcm nvs seen reqfail t t' Hd Hno Hp. rewrite scope_oracle_x_eq in Hp.
  exact (request_implies_scope_fresh_lemma (x_cfg oc) nvs seen reqfail t t' Hd Hno Hp).
Qed.

(* isSubdomainOrExactMatch meets its description *)
Lemma suffixb_spec s h : suffixb s h = true <-> exists p, h = p ++ s.
Proof.
  unfold suffixb. rewrite prefixb_spec. split.
  - intros [r Hr]. exists (rev r). rewrite <- (rev_involutive h), Hr, rev_app_distr, rev_involutive. reflexivity.
  - intros [p ->]. exists (rev p). apply rev_app_distr.
Qed.

Lemma sub_or_exact_spec host domain :
  sub_or_exact host domain = true <-> host = domain \/ exists p, host = p ++ bs "." ++ domain.
Proof. unfold sub_or_exact. rewrite orb_true_iff, bytes_eqb_eq, suffixb_spec. reflexivity. Qed.

(* non-vacuity: --include-host allowed.example.org --domains-crawl crawled.example.net; the matcher
   knows the seed's host, an asset's sub-domain; none of them passes *)
Example ex_dc_cfg : opcfg_x := gen_cfg_x (OCX (OC [bs "allowed.example.org"] [] [] []) [bs "crawled.example.net"]).
Example ex_dc_view (host text : string) : view := View 1 (bs host) (bs host) (bs text) [] false.

Example ex_domains_crawl :
  dc_domain_match (x_domains_crawl ex_dc_cfg) (bs "crawled.example.net") = true
  /\ dc_domain_match (x_domains_crawl ex_dc_cfg) (bs "cdn.crawled.example.net") = true
  /\ dc_domain_match (x_domains_crawl ex_dc_cfg) (bs "notcrawled.example.net") = false
  /\ passes_x ex_dc_cfg true (ex_dc_view "crawled.example.net" "http://crawled.example.net/page.html") = false
  /\ passes_x ex_dc_cfg true (ex_dc_view "cdn.crawled.example.net" "http://cdn.crawled.example.net/lib.js") = false
  /\ passes_x ex_dc_cfg false (ex_dc_view "allowed.example.org" "http://allowed.example.org/") = true.
Proof. vm_compute. repeat split; reflexivity. Qed.

(* what the theorem excludes: an include block that asks the matcher lets out-of-scope URLs pass *)
Lemma passes_widened_unsound :
  exists (c : opcfg_x) (v : view),
    dc_domain_match (x_domains_crawl c) (v_host1 v) = true
    /\ passes_widened c true v = true
    /\ passes_x c true v = false
    /\ in_scope (x_cfg c) (v_host1 v) (v_text v) (v_bits v) = false.
Proof.
  exists ex_dc_cfg, (ex_dc_view "crawled.example.net" "http://crawled.example.net/page.html").
  vm_compute. repeat split; reflexivity.
Qed.

(* ---- (2) the exclusion files at start-up ------------------------------------------------------ *)
Definition readable (compiles : bytes -> bool) (f : fetch) : Prop :=
  exists content, f = FOk content /\ too_long content = false
                  /\ forall l, In l (read_lines content) -> compiles l = true.

Lemma lines_fast_acc_eq : forall s acc, lines_fast_acc acc s = lines_acc acc s.
Proof.
  induction s as [|c r IH]; intros acc; cbn [lines_fast_acc lines_acc]; rewrite <- ?rev_alt.
  - reflexivity.
  - destruct (Ascii.eqb c LF); rewrite IH; reflexivity.
Qed.

Lemma read_lines_fast_eq content : read_lines_fast content = read_lines content.
Proof. apply lines_fast_acc_eq. Qed.

Lemma read_file_some f ls :
  read_file f = Some ls -> exists content, f = FOk content /\ too_long content = false /\ ls = read_lines content.
Proof.
  destruct f as [content|]; cbn [read_file]; [|discriminate].
  destruct (too_long content) eqn:E; [discriminate|]. intros H. injection H as <-.
  exists content. repeat split; [exact E | apply read_lines_fast_eq].
Qed.

(* a crawl that starts: every named file was read completely, every line compiled, and the
   effective list is the concatenation of all files' lines in order (the model of Scope.v) *)
Lemma load_files_some_lemma (compiles : bytes -> bool) : forall fs regs,
  load_files compiles fs = Some regs ->
  regs = gen_regexes_raw (map content_of fs) /\ Forall (readable compiles) fs.
Proof.
  induction fs as [|f r IH]; intros regs H; cbn [load_files] in H.
  - injection H as <-. split; [reflexivity | constructor].
  - destruct (read_file f) as [ls|] eqn:Ef; [|discriminate].
    destruct (forallb compiles ls) eqn:Ec; [|discriminate].
    destruct (load_files compiles r) as [rest|] eqn:Er; [|discriminate].
    injection H as <-. destruct (IH rest eq_refl) as [H1 H2].
    apply read_file_some in Ef as [content [-> [Hl ->]]]. split.
    + unfold gen_regexes_raw, gen_regexes in *. cbn [map content_of concat]. rewrite H1. reflexivity.
    + constructor; [|exact H2]. exists content. repeat split; [exact Hl|].
      intros l Hin. rewrite forallb_forall in Ec. exact (Ec l Hin).
Qed.

(* ... hence every line of every named file is in force *)
Lemma start_all_in_force_lemma (compiles : bytes -> bool) (fs : list fetch) (regs : list bytes) :
  load_files compiles fs = Some regs ->
  forall f, In f fs ->
    exists content, f = FOk content /\ forall l, In l (read_lines content) -> In l regs.
Proof.
  intros H f Hf. destruct (load_files_some_lemma compiles fs regs H) as [-> Hall].
  rewrite Forall_forall in Hall. destruct (Hall f Hf) as [content [-> _]].
  exists content. split; [reflexivity|]. intros l Hl.
  unfold gen_regexes_raw. apply gen_regexes_in_lemma. exists (read_lines content). split; [|exact Hl].
  apply in_map_iff. exists content. split; [reflexivity|].
  apply in_map_iff. exists (FOk content). split; [reflexivity | exact Hf].
Qed.

(* a named file that cannot be read (missing, download failed, line too long), or one of whose
   lines Go's regexp refuses: the crawl does not start - it never runs with a part of the
   operator's exclusions *)
Lemma unreadable_refuses_lemma (compiles : bytes -> bool) (fs : list fetch) f :
  In f fs -> ~ readable compiles f -> load_files compiles fs = None.
Proof.
  intros Hf Hn. destruct (load_files compiles fs) as [regs|] eqn:E; [|reflexivity].
  exfalso. apply Hn. destruct (load_files_some_lemma compiles fs regs E) as [_ Hall].
  rewrite Forall_forall in Hall. exact (Hall f Hf).
Qed.

Lemma failed_fetch_refuses_lemma (compiles : bytes -> bool) (fs : list fetch) :
  In FFail fs -> load_files compiles fs = None.
Proof.
  intros Hf. apply (unreadable_refuses_lemma compiles fs FFail Hf).
  intros [content [H _]]. discriminate.
Qed.

(* whatever Go's regexp answers: in a crawl that started, a URL whose text is matched by a line of
   ANY file the operator named is out of scope under every configuration of the four lists *)
Lemma start_excludes_lemma (compiles : bytes -> bool) (matches : bytes -> bytes -> bool) :
  forall (fs : list fetch) (regs : list bytes) content l (c : opcfg) host text,
    load_files compiles fs = Some regs ->
    In (FOk content) fs -> In l (read_lines content) -> matches l text = true ->
    in_scope c host text (map (fun r => matches r text) regs) = false.
Proof.
  intros fs regs content l c host text H Hf Hl Hm.
  apply exclusion_wins_lemma. apply excluded_spec. right. right.
  apply in_map_iff. exists l. split; [exact Hm|].
  destruct (start_all_in_force_lemma compiles fs regs H (FOk content) Hf) as [content' [He Hall]].
  injection He as <-. exact (Hall l Hl).
Qed.

(* when every file is readable the crawl starts (the refusals above are the only ones) *)
Lemma all_readable_starts_lemma (compiles : bytes -> bool) : forall fs,
  Forall (readable compiles) fs -> exists regs, load_files compiles fs = Some regs.
Proof.
  induction fs as [|f r IH]; intros H; cbn [load_files]; [exists []; reflexivity|].
  inversion H as [|f' r' [content [-> [Hl Hc]]] Hr]; subst. cbn [read_file]. rewrite Hl, read_lines_fast_eq.
  assert (forallb compiles (read_lines content) = true) as -> by (apply forallb_forall; exact Hc).
  destruct (IH Hr) as [rest ->]. eexists. reflexivity.
Qed.

(* what the theorem excludes: the loop that skips an unreadable file starts without it *)
Lemma load_files_skipping_unsound :
  exists (fs : list fetch) (regs : list bytes),
    In FFail fs /\ load_files_skipping (fun _ => true) fs = Some regs
    /\ load_files (fun _ => true) fs = None.
Proof. exists [FOk (bs "a"); FFail], [bs "a"]. vm_compute. repeat split. right. left. reflexivity. Qed.

(* non-vacuity *)
Example ex_files : list fetch :=
  [FOk (bs "\.pdf$" ++ [LF] ++ bs "/private/"); FOk []; FOk (bs "^https?://[^/]+/cart/" ++ [CR; LF])].

Example ex_start :
  load_files (fun _ => true) ex_files = Some [bs "\.pdf$"; bs "/private/"; bs "^https?://[^/]+/cart/"]
  /\ load_files (fun _ => true) (ex_files ++ [FFail]) = None
  /\ load_files (fun l => negb (bytes_eqb l (bs "/private/"))) ex_files = None
  /\ in_scope (OC [] [] [] []) (bs "shop.example.org") (bs "http://shop.example.org/cart/checkout")
       (map (fun r => contains (bs "/cart/") (bs "http://shop.example.org/cart/checkout") && prefixb (bs "^https") r)
            [bs "\.pdf$"; bs "/private/"; bs "^https?://[^/]+/cart/"]) = false.
Proof. vm_compute. repeat split; reflexivity. Qed.

(* the scanner's limit: a piece of 65535 bytes before its LF is read, one of 65536 is not *)
Example ex_too_long :
  too_long (repeat "a"%char (N.to_nat 65535) ++ [LF] ++ bs "b") = false
  /\ too_long (repeat "a"%char (N.to_nat 65534) ++ [CR; LF]) = false
  /\ too_long (repeat "a"%char (N.to_nat 65535) ++ [CR; LF]) = true
  /\ too_long (bs "b" ++ [LF] ++ repeat "a"%char (N.to_nat 65536)) = true.
Proof. vm_compute. repeat split; reflexivity. Qed.
