(* C05 - the scope filter of the preprocessor: executable model.  Proofs are in ScopeProofs.v
   (filter algebra) and PreProofs.v (the tree-level theorem).  Transcribed from

     internal/pkg/utils/strings.go          StringContainsSliceElements, DedupeStrings
     internal/pkg/config/config.go          GenerateCrawlConfig (default excluded hosts)
     internal/pkg/preprocessor/url.go       NormalizeURL (the scheme / host tests)
     internal/pkg/preprocessor/exclusion.go matchRegexExclusion
     internal/pkg/preprocessor/preprocessor.go  preprocess(): include block, exclude block

   What the URL parsers (net/url, ada, x/net/idna) and Go's regexp say about a URL enters as a
   per-node oracle ([norm_view]); the tree part of preprocess() is Stage/Pass.v, whose [o_pre]
   oracle is REFINED here: [scope_pre] computes it from the operator's configuration and the
   strings the code looks at. *)
From Coq Require Export List Bool Ascii String NArith.
From ZenoV Require Export Lib.Hex Tree.Item Stage.Pass.
Export ListNotations.

(* ---- strings.Contains / utils.StringContainsSliceElements --------------------------- *)
Fixpoint prefixb (p s : bytes) : bool :=
  match p, s with
  | [], _ => true
  | a :: p', c :: s' => Ascii.eqb a c && prefixb p' s'
  | _ :: _, [] => false
  end.

(* strings.Contains(hay, needle); the empty needle is contained in everything *)
Fixpoint contains (needle hay : bytes) : bool :=
  match hay with
  | [] => prefixb needle []
  | _ :: r => prefixb needle hay || contains needle r
  end.

(* StringContainsSliceElements(target, slice) *)
Definition contains_any (target : bytes) (slice : list bytes) : bool :=
  existsb (fun e => contains e target) slice.

(* ---- utils.DedupeStrings: first occurrences, order kept ------------------------------ *)
Definition memb (x : bytes) (l : list bytes) : bool := existsb (bytes_eqb x) l.

Fixpoint dedupe_from (seen l : list bytes) : list bytes :=
  match l with
  | [] => []
  | x :: r => if memb x seen then dedupe_from seen r else x :: dedupe_from (x :: seen) r
  end.
Definition dedupe_strings (l : list bytes) : list bytes := dedupe_from [] l.

(* ---- the operator's filter configuration -------------------------------------------- *)
Record opcfg := OC {
  inc_hosts : list bytes;      (* --include-host *)
  inc_strings : list bytes;    (* --include-string *)
  exc_hosts : list bytes;      (* --exclude-host *)
  exc_strings : list bytes     (* --exclude-string *)
}.
(* the compiled --exclusion-file regexes are not part of the record: Go's regexp is an oracle,
   each URL carries the vector of MatchString answers ([v_bits]) *)

Definition archive_org : bytes := bs "archive.org".
Definition archive_it_org : bytes := bs "archive-it.org".

(* GenerateCrawlConfig:
     config.ExcludeHosts = utils.DedupeStrings(append(config.ExcludeHosts, "archive.org", "archive-it.org")) *)
Definition gen_cfg (c : opcfg) : opcfg :=
  OC (inc_hosts c) (inc_strings c)
     (dedupe_strings (exc_hosts c ++ [archive_org; archive_it_org]))
     (exc_strings c).

(* ---- the exclusion files ---------------------------------------------------------------- *)
(* --exclusion-file may be given several times.  GenerateCrawlConfig reads the files in order,
   every line of a file is one regular expression (an empty line too: it matches everything),
   and APPENDS each file's compiled expressions to config.ExclusionRegexes:
       for _, file := range config.ExclusionFile {
           ... config.ExclusionRegexes = append(config.ExclusionRegexes, compileRegexes(regexes)...) }
   A file = the list of its lines. *)
Definition exclusion_files := list (list bytes).
Definition gen_regexes (files : exclusion_files) : list bytes := concat files.

(* What is a line.  readLocalExclusionFile / readRemoteExclusionFile read with a bufio.Scanner
   (bufio.ScanLines): the content is cut at every LF, one trailing CR is dropped from each piece
   (CRLF files), the text after the last LF is a line too when it is not empty (a file need not
   end in a newline), and nothing follows a final LF.  A blank line is the empty expression.
   (Not modelled: a line above the scanner's 64 KiB token limit makes GenerateCrawlConfig fail.) *)
Definition LF : ascii := ascii_of_N 10.
Definition CR : ascii := ascii_of_N 13.

Fixpoint drop_last_cr (s : bytes) : bytes :=
  match s with
  | [] => []
  | [c] => if Ascii.eqb c CR then [] else [c]
  | c :: r => c :: drop_last_cr r
  end.

(* [acc] = the current line so far, reversed *)
Fixpoint lines_acc (acc : bytes) (s : bytes) : list bytes :=
  match s with
  | [] => match acc with [] => [] | _ => [drop_last_cr (rev acc)] end
  | c :: r => if Ascii.eqb c LF then drop_last_cr (rev acc) :: lines_acc [] r else lines_acc (c :: acc) r
  end.
Definition read_lines (content : bytes) : list bytes := lines_acc [] content.

(* the effective expressions for files given by their CONTENT *)
Definition gen_regexes_raw (contents : list bytes) : list bytes := gen_regexes (map read_lines contents).

(* matchRegexExclusion's inputs for one URL text: the answers of the effective expressions, in
   order.  [matches re text] = regexp.MustCompile(re).MatchString(text) is an oracle. *)
Definition regex_bits (matches : bytes -> bytes -> bool) (files : exclusion_files) (text : bytes) : list bool :=
  map (fun re => matches re text) (gen_regexes files).

(* ---- the scope predicate ------------------------------------------------------------- *)
(* len(IncludeHosts) > 0 || len(IncludeString) > 0 *)
Definition nonempty {A} (l : list A) : bool := match l with [] => false | _ => true end.
Definition inc_active (c : opcfg) : bool := nonempty (inc_hosts c) || nonempty (inc_strings c).

Definition included (c : opcfg) (host text : bytes) : bool :=
  negb (inc_active c) || contains_any host (inc_hosts c) || contains_any text (inc_strings c).

Definition excluded (c : opcfg) (host text : bytes) (bits : list bool) : bool :=
  contains_any host (exc_hosts c) || contains_any text (exc_strings c) || existsb (fun b => b) bits.

(* [c] is the EFFECTIVE configuration (after GenerateCrawlConfig); host = URL.GetParsed().Host
   (port included), text = URL.String(), bits = the exclusion regexes' answers on text.
   Exclusion is tested after inclusion and wins. *)
Definition in_scope (c : opcfg) (host text : bytes) (bits : list bool) : bool :=
  included c host text && negb (excluded c host text bits).

(* ---- NormalizeURL's tests, on ada's Protocol() and Hostname() ------------------------ *)
Definition scheme_ok (proto : bytes) : bool :=
  bytes_eqb proto (bs "http:") || bytes_eqb proto (bs "https:").
Definition host_ok (hostname : bytes) : bool :=
  negb (bytes_eqb hostname (bs "localhost")) && negb (bytes_eqb hostname (bs "127.0.0.1"))
  && contains (bs ".") hostname.
Definition shape_ok (proto hostname : bytes) : bool := scheme_ok proto && host_ok hostname.

(* ---- what the code reads of a normalised URL ------------------------------------------ *)
(* URL.String() caches its result but computes it by MUTATING the parsed URL (RawQuery and
   Host, through idna.ToASCII), so GetParsed().Host read before the first String() call
   ([v_host0]) and after it ([v_host1]) are two values; the request is built from String(). *)
Record view := View {
  v_url : N;                 (* interned URL.String() (the tree's [nurl]) *)
  v_host0 : bytes;           (* GetParsed().Host before String() *)
  v_host1 : bytes;           (* GetParsed().Host after String() *)
  v_text : bytes;            (* URL.String() *)
  v_bits : list bool;        (* ExclusionRegexes[i].MatchString(text) *)
  v_empty_path : bool        (* GetParsed().Path is "" or "/" *)
}.

(* preprocess() as FIXED by fixes/C05-scope-host-before-string: String() is called right after
   NormalizeURL, so the include block and the exclude block read the final host *)
Definition passes (c : opcfg) (v : view) : bool :=
  in_scope c (v_host1 v) (v_text v) (v_bits v).

(* the code before the fix: the host is read before String() unless the include-string test
   (which calls String()) ran first.  Kept for the refutation witness. *)
(* include block: (passes, String() has been called) *)
Definition include_pass_orig (c : opcfg) (v : view) : bool * bool :=
  if inc_active c then
    if contains_any (v_host0 v) (inc_hosts c) then (true, false)
    else (contains_any (v_text v) (inc_strings c), true)
  else (true, false).

(* exclude block *)
Definition exclude_hit_orig (c : opcfg) (called : bool) (v : view) : bool :=
  excluded c (if called then v_host1 v else v_host0 v) (v_text v) (v_bits v).

Definition passes_orig (c : opcfg) (v : view) : bool :=
  let '(ok, called) := include_pass_orig c v in ok && negb (exclude_hit_orig c called v).

(* ---- the normaliser's answer for one node (oracle) ------------------------------------ *)
Inductive norm_view :=
| NVErr                                              (* url.Parse / goada failed: no URL to test *)
| NVAda (proto hostname : bytes) (post : option view).
    (* ada parsed the reference; post = None: URL.Parse() (ParseRequestURI of ada's href) failed *)

(* NormalizeURL + include + exclude for one node = Stage/Pass.v's [pre_ans] *)
Definition pre_ans_with (pass : opcfg -> view -> bool) (c : opcfg) (nv : norm_view) : pre_ans :=
  match nv with
  | NVErr => PNormFail
  | NVAda proto hn post =>
    if shape_ok proto hn then
      match post with
      | None => PNormFail
      | Some v => POk (v_url v) (negb (pass c v)) (v_empty_path v)
      end
    else PNormFail
  end.
Definition pre_ans_of := pre_ans_with passes.

(* [oc] = the operator's lists as given on the command line *)
Definition scope_pre (oc : opcfg) (nvs : N -> norm_view) : N -> pre_ans :=
  fun id => pre_ans_of (gen_cfg oc) (nvs id).

Definition scope_oracle (oc : opcfg) (nvs : N -> norm_view) (seen reqfail : N -> bool) : oracle :=
  Oracle (scope_pre oc nvs) seen reqfail (fun _ => None).

(* the oracle of the code before the fix *)
Definition scope_oracle_orig (oc : opcfg) (nvs : N -> norm_view) (seen reqfail : N -> bool) : oracle :=
  Oracle (fun id => pre_ans_with passes_orig (gen_cfg oc) (nvs id)) seen reqfail (fun _ => None).

(* the verdict the theorem speaks about: this node's URL was accepted - ada parsed the reference,
   its scheme and host passed NormalizeURL's tests, and the final host / text / regex answers
   (those of the URL the request is built from) are in scope under the effective configuration *)
Definition accepted (oc : opcfg) (nv : norm_view) (url : N) : Prop :=
  exists proto hn v,
    nv = NVAda proto hn (Some v) /\ v_url v = url /\ shape_ok proto hn = true
    /\ in_scope (gen_cfg oc) (v_host1 v) (v_text v) (v_bits v) = true.
