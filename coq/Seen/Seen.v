(* C08 - the seen-stores: executable model.  Proofs are in SeenProofs.v.

   internal/pkg/preprocessor/seencheck/seencheck.go   local store (LevelDB) and SeencheckItem
   internal/pkg/source/hq/seencheck.go                crawl-HQ variant (one round trip; batches: see the end)
   internal/pkg/preprocessor/preprocessor.go          preprocess: dedupe, seencheck, filter, requests

   URLs are interned canonical strings (what URL.String() returns): [nurl] of Tree/Item.v.  The
   canonicalisation itself is C09's; here the canonical string is the identity of a URL.
   The LevelDB key is strconv.FormatUint(fnv64a(canonical string)): [hash] below, a parameter of
   every definition (a Section variable; the theorems state what they need of it). *)
From Coq Require Export List NArith Bool.
From ZenoV Require Export Tree.Item.
Export ListNotations.

(* ---- the local store -------------------------------------------------------------- *)
(* value of an entry: "seed" | "asset" *)
Inductive kind := KSeed | KAsset.

Definition kind_eqb (a c : kind) : bool :=
  match a, c with KSeed, KSeed | KAsset, KAsset => true | _, _ => false end.

(* The store is the list of the writes made so far, newest first: DB.Set overwrites, so what
   DB.Get answers is the newest write of the key; the length is Seencheck.Count. *)
Definition store := list (N * kind).

Fixpoint lookup (k : N) (s : store) : option kind :=
  match s with
  | [] => None
  | (k', v) :: r => if N.eqb k k' then Some v else lookup k r
  end.

(* seen(hash, value) *)
Definition put (k : N) (v : kind) (s : store) : store := (k, v) :: s.

(* never downgraded: seed stays seed *)
Definition kind_le (a c : kind) : bool :=
  match a, c with KSeed, KAsset => false | _, _ => true end.

(* items[i].IsChild() ? "asset" : "seed"   -   IsChild = parent != nil && parent.status == GotChildren.
   [pst] is the status of the parent, None for the root.  A redirect target (parent
   GotRedirected) therefore counts as "seed". *)
Definition url_type (pst : option status) : kind :=
  match pst with Some GotChildren => KAsset | _ => KSeed end.

Definition mark_seen (t : item) : item :=
  match t with Node i cs => Node (set_st Seen i) cs end.

(* state-threading map *)
Fixpoint map_acc {S A B : Type} (f : S -> A -> S * B) (s : S) (l : list A) : S * list B :=
  match l with
  | [] => (s, [])
  | a :: r => let '(s1, b) := f s a in
              let '(s2, bs) := map_acc f s1 r in (s2, b :: bs)
  end.

(* apply [f] to the nodes at depth [lvl] below [t] *)
Fixpoint map_level (lvl : nat) (f : item -> item) (t : item) : item :=
  match lvl with
  | 0 => f t
  | S l => match t with Node i cs => Node i (map (map_level l f) cs) end
  end.

Definition set_root (s : status) (t : item) : item :=
  match t with Node i cs => Node (set_st s i) cs end.

Section Local.
Variable hash : N -> N.

(* the body of the loop of SeencheckItem for one node: (store after, marked seen?) *)
Definition check_one (s : store) (u : N) (ty : kind) : store * bool :=
  match lookup (hash u) s with
  | None => (put (hash u) ty s, false)                      (* first time seen: record, process *)
  | Some KAsset =>
    match ty with
    | KSeed => (put (hash u) KSeed s, false)                (* promotion: record as seed, process *)
    | KAsset => (s, true)
    end
  | Some KSeed => (s, true)                                 (* all other cases: already seen, skip *)
  end.

(* SeencheckItem walks GetNodesAtLevel(GetMaxDepth()) in order (pre-order, left to right) and sets
   the status through the node pointers: a traversal that threads the store. *)
Fixpoint sc_level (lvl : nat) (pst : option status) (s : store) (t : item) : store * item :=
  match lvl with
  | 0 => let '(s', b) := check_one s (url_of t) (url_type pst) in
         (s', if b then mark_seen t else t)
  | S l => match t with
           | Node i cs => let '(s', cs') := map_acc (sc_level l (Some (nst i))) s cs in
                          (s', Node i cs')
           end
  end.

Definition seencheck_item (s : store) (t : item) : store * item :=
  sc_level (max_depth t) None s t.

(* the list view of the same loop: (URL, type) of the nodes at the working depth, in order ... *)
Fixpoint work (lvl : nat) (pst : option status) (t : item) : list (N * kind) :=
  match lvl with
  | 0 => [(url_of t, url_type pst)]
  | S l => match t with Node i cs => flat_map (work l (Some (nst i))) cs end
  end.
Definition level_work (t : item) : list (N * kind) := work (max_depth t) None t.

(* ... and the loop over it: store after, one flag per node (marked seen?) *)
Fixpoint check_list (s : store) (ws : list (N * kind)) : store * list bool :=
  match ws with
  | [] => (s, [])
  | (u, ty) :: r => let '(s1, b) := check_one s u ty in
                    let '(s2, bs) := check_list s1 r in (s2, b :: bs)
  end.

End Local.

(* ---- preprocess, from DedupeItems on ---------------------------------------------- *)
(* [sc] is the seencheck in use (local store or crawl HQ), threading its state.  The part of
   preprocess before DedupeItems (normalisation, include/exclude filters, host-only assets) is
   C05/C09's; it panics when a node at the working depth is not Fresh: None. *)
Definition is_fresh (t : item) : bool := status_eqb (st_of t) Fresh.

Definition build_requests (d : nat) (t : item) : item :=
  map_level d (fun n => if is_fresh n then set_root PreProcessed n else n) t.

Definition pre_core {S : Type} (sc : S -> item -> S * item) (s : S) (t : item) : option (S * item) :=
  let d := max_depth t in                                   (* operatingDepth, computed once *)
  if negb (forallb is_fresh (nodes_at d t)) then None       (* panic: non-fresh item received *)
  else
    let t1 := dedupe t in
    match nodes_at d t1 with
    | [] => Some (s, set_root Completed t1)                 (* no more work to do after dedupe *)
    | _ =>
      let '(s', t2) := sc s t1 in
      if forallb (fun n => negb (is_fresh n)) (nodes_at d t2)
      then Some (s', set_root Completed t2)                 (* no more work to do after seencheck *)
      else Some (s', build_requests d t2)                   (* http.NewRequest assumed to succeed *)
    end.

(* ---- histories over one persistent local store ------------------------------------ *)
Inductive op :=
| OCheck (t : item)      (* seencheck.SeencheckItem(t) *)
| OPre (t : item)        (* preprocess(t), local seencheck *)
| OReopen.               (* Close(); Start(same job directory) *)

Section LocalHist.
Variable hash : N -> N.

Definition step (s : store) (o : op) : store * option item :=
  match o with
  | OCheck t => let '(s', t') := seencheck_item hash s t in (s', Some t')
  | OPre t => match pre_core (seencheck_item hash) s t with
              | Some (s', t') => (s', Some t')
              | None => (s, None)
              end
  | OReopen => (s, None)
  end.

Definition run (s : store) (h : list op) : store := fold_left (fun s o => fst (step s o)) h s.

(* the (URL, type) pairs an operation hands to the store *)
Definition op_work (o : op) : list (N * kind) :=
  match o with
  | OCheck t => level_work t
  | OPre t =>
    let d := max_depth t in
    if negb (forallb is_fresh (nodes_at d t)) then []
    else match nodes_at d (dedupe t) with [] => [] | _ => level_work (dedupe t) end
  | OReopen => []
  end.
End LocalHist.

(* ---- crawl HQ --------------------------------------------------------------------- *)
(* What the crawl HQ answers to one seencheck request: an error, or the list of the texts it had
   NOT seen before (a URL that is not returned was seen before). *)
Inductive hq_reply := HRErr | HROk (answer : list N).

Inductive hq_outcome :=
| HNoop      (* only the seed at the working depth: never seenchecked *)
| HPanic     (* "no URLs to seencheck" *)
| HErr       (* the request failed: nothing is marked *)
| HDone.

Definition mem (x : N) (l : list N) : bool := existsb (N.eqb x) l.

(* nodes at the working depth with the type they are sent with; depth >= 1, so none is the seed *)
Fixpoint work_nodes (lvl : nat) (pst : option status) (t : item) : list (item * kind) :=
  match lvl with
  | 0 => [(t, url_type pst)]
  | S l => match t with Node i cs => flat_map (work_nodes l (Some (nst i))) cs end
  end.

(* the request: text and type of every Fresh node at the working depth.
   FIXED code ("fix: send the canonical URL to the crawl HQ seencheck"): the text sent is the one
   the answer is compared with, URL.String(). *)
Definition hq_sent (t : item) : list (N * kind) :=
  map (fun '(n, ty) => (url_of n, ty)) (filter (fun '(n, _) => is_fresh n) (work_nodes (max_depth t) None t)).

(* every node at the working depth whose text is not in the answer is marked seen *)
Definition hq_mark (answer : list N) (t : item) : item :=
  map_level (max_depth t) (fun n => if mem (url_of n) answer then n else mark_seen n) t.

Definition hq_seencheck (reply : list (N * kind) -> hq_reply) (t : item) : hq_outcome * item :=
  match max_depth t with
  | 0 => (HNoop, t)
  | _ => match hq_sent t with
         | [] => (HPanic, t)
         | sent => match reply sent with
                   | HRErr => (HErr, t)
                   | HROk answer => (HDone, hq_mark answer t)
                   end
         end
  end.

(* The code before the fix, on the list of the nodes at the working depth: the RAW text
   (URL.Raw, the parser's serialisation) is sent, the CANONICAL text (URL.String()) is compared. *)
Record hnode := HN { h_raw : N; h_canon : N; h_type : kind; h_fresh : bool }.
Definition hq_sent_orig (items : list hnode) : list (N * kind) :=
  map (fun n => (h_raw n, h_type n)) (filter h_fresh items).
Definition hq_flags_orig (answer : list N) (items : list hnode) : list bool :=
  map (fun n => negb (mem (h_canon n) answer)) items.
(* the same list view of the fixed code *)
Definition hq_sent_list (items : list hnode) : list (N * kind) :=
  map (fun n => (h_canon n, h_type n)) (filter h_fresh items).
Definition hq_flags (answer : list N) (items : list hnode) : list bool :=
  map (fun n => negb (mem (h_canon n) answer)) items.

(* A reference crawl HQ: a set of texts; it answers with the texts of the request it does not
   hold (each once) and then holds all of them.  (The real service is not part of /repo.) *)
Fixpoint hq_new (S : list N) (sent : list N) : list N :=
  match sent with
  | [] => []
  | v :: r => if mem v S then hq_new S r else v :: hq_new (v :: S) r
  end.
Definition hq_ref (S : list N) (sent : list (N * kind)) : hq_reply * list N :=
  (HROk (hq_new S (map fst sent)), rev (map fst sent) ++ S).

Definition hq_step (S : list N) (t : item) : list N * item :=
  match max_depth t with
  | 0 => (S, t)
  | _ => match hq_sent t with
         | [] => (S, t)
         | sent => let '(r, S') := hq_ref S sent in
                   (S', snd (hq_seencheck (fun _ => r) t))
         end
  end.
Definition hq_run (S : list N) (h : list item) : list N := fold_left (fun S t => fst (hq_step S t)) h S.

(* ---- the request in batches ---------------------------------------------------------- *)
(* The seencheck of one pass may be put to the crawl HQ in several requests (batches of
   --hq-batch-size texts, or any other way of cutting the request).  An exchange is one batch
   with the reply it got; the batches of one pass, in order, make up the request: a partition.
   What the pass learns from its exchanges: an error when a batch failed, else the answers of
   all batches, one after the other. *)
Fixpoint hq_collect (replies : list hq_reply) : hq_reply :=
  match replies with
  | [] => HROk []
  | HRErr :: _ => HRErr
  | HROk a :: r => match hq_collect r with HRErr => HRErr | HROk b => HROk (a ++ b) end
  end.

Definition hq_exchange := (list (N * kind) * hq_reply)%type.

(* hq.SeencheckItem given the exchanges it had with the HQ, whatever the partition *)
Definition hq_seencheck_ex (ex : list hq_exchange) (t : item) : hq_outcome * item :=
  hq_seencheck (fun _ => hq_collect (map snd ex)) t.

(* the reference HQ asked batch after batch *)
Fixpoint hq_ref_parts (S : list N) (parts : list (list (N * kind))) : list hq_exchange * list N :=
  match parts with
  | [] => ([], S)
  | p :: r => let '(rep, S1) := hq_ref S p in
              let '(ex, S2) := hq_ref_parts S1 r in ((p, rep) :: ex, S2)
  end.

(* one pass against the reference HQ, the request cut by [split] *)
Definition hq_step_parts (split : list (N * kind) -> list (list (N * kind))) (S : list N) (t : item) : list N * item :=
  match max_depth t with
  | 0 => (S, t)
  | _ => match hq_sent t with
         | [] => (S, t)
         | sent => let '(ex, S') := hq_ref_parts S (split sent) in
                   (S', snd (hq_seencheck_ex ex t))
         end
  end.

(* batches of [b] entries, the last one shorter (fuel: the length of the list is enough) *)
Fixpoint chunks_f {A : Type} (fuel b : nat) (l : list A) : list (list A) :=
  match fuel with
  | 0 => []
  | S f => match l with
           | [] => []
           | _ => firstn b l :: chunks_f f b (skipn b l)
           end
  end.
Definition chunks {A : Type} (b : nat) (l : list A) : list (list A) := chunks_f (length l) b l.
