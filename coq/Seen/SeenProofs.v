(* C08 - proofs about the seen-store model Seen/Seen.v. *)
From Coq Require Import List NArith Bool Arith Lia.
From ZenoV Require Import Tree.Item Tree.ItemSpec Tree.ItemProofs Seen.Seen.
Import ListNotations.
Local Open Scope nat_scope.

(* ================================================================================== *)
(* lists                                                                               *)
(* ================================================================================== *)
Definition apply_flags (ns : list item) (fl : list bool) : list item :=
  map (fun '(n, b) => if b : bool then mark_seen n else n) (combine ns fl).

Lemma combine_app_eq {A B} (a a' : list A) (b b' : list B) :
  length a = length b -> combine (a ++ a') (b ++ b') = combine a b ++ combine a' b'.
Proof.
  revert b. induction a as [|x a IH]; intros [|y b] Hl; simpl in *; try discriminate; auto.
  f_equal. apply IH. lia.
Qed.

Lemma apply_flags_app a a' b b' :
  length a = length b -> apply_flags (a ++ a') (b ++ b') = apply_flags a b ++ apply_flags a' b'.
Proof. intros Hl. unfold apply_flags. rewrite combine_app_eq by exact Hl. apply map_app. Qed.

Lemma nth_error_apply_flags ns fl i n b :
  nth_error ns i = Some n -> nth_error fl i = Some b ->
  nth_error (apply_flags ns fl) i = Some (if b then mark_seen n else n).
Proof.
  revert fl i. induction ns as [|x ns IH]; intros [|y fl] [|i] Hn Hb; simpl in *; try discriminate.
  - inversion Hn; inversion Hb; subst. reflexivity.
  - apply IH; assumption.
Qed.

(* ================================================================================== *)
(* the store                                                                           *)
(* ================================================================================== *)
Lemma lookup_put_same k v s : lookup k (put k v s) = Some v.
Proof. unfold put. simpl. rewrite N.eqb_refl. reflexivity. Qed.

Lemma lookup_put_other k k' v s : k <> k' -> lookup k (put k' v s) = lookup k s.
Proof. intros Hne. unfold put. simpl. destruct (N.eqb_spec k k'); [contradiction|reflexivity]. Qed.

Lemma kind_le_refl v : kind_le v v = true.
Proof. destruct v; reflexivity. Qed.

Lemma kind_le_trans a b c : kind_le a b = true -> kind_le b c = true -> kind_le a c = true.
Proof. destruct a, b, c; simpl; congruence. Qed.

Lemma kind_le_seed v : kind_le v KSeed = true.
Proof. destruct v; reflexivity. Qed.

Lemma kind_le_seed_inv v : kind_le KSeed v = true -> v = KSeed.
Proof. destruct v; simpl; congruence. Qed.

Section Local.
Variable hash : N -> N.

Notation check_one := (check_one hash).
Notation check_list := (check_list hash).
Notation sc_level := (sc_level hash).
Notation seencheck_item := (seencheck_item hash).

(* [le_store s s']: every entry of [s] is still in [s'], at least as strong *)
Definition le_store (s s' : store) : Prop :=
  forall k v, lookup k s = Some v -> exists v', lookup k s' = Some v' /\ kind_le v v' = true.

Lemma le_store_refl s : le_store s s.
Proof. intros k v Hk. exists v. split; [exact Hk|apply kind_le_refl]. Qed.

Lemma le_store_trans a b c : le_store a b -> le_store b c -> le_store a c.
Proof.
  intros Hab Hbc k v Hk. destruct (Hab k v Hk) as (v1 & H1 & L1).
  destruct (Hbc k v1 H1) as (v2 & H2 & L2). exists v2. split; [exact H2|].
  eapply kind_le_trans; eassumption.
Qed.

(* ---- one node ---- *)
(* the decision, exactly *)
Lemma check_one_flag s u ty :
  snd (check_one s u ty) =
  match lookup (hash u) s with
  | None => false
  | Some k => negb (kind_eqb ty KSeed && kind_eqb k KAsset)
  end.
Proof. unfold Seen.check_one. destruct (lookup (hash u) s) as [[|]|]; destruct ty; reflexivity. Qed.

(* what is in the store afterwards under the node's key *)
Lemma check_one_recorded s u ty :
  lookup (hash u) (fst (check_one s u ty)) =
  match lookup (hash u) s with
  | None => Some ty
  | Some KSeed => Some KSeed
  | Some KAsset => Some ty
  end.
Proof.
  unfold Seen.check_one. destruct (lookup (hash u) s) as [[|]|] eqn:E; destruct ty; cbn [fst];
    rewrite ?lookup_put_same; auto.
Qed.

Lemma check_one_other s u ty k : k <> hash u -> lookup k (fst (check_one s u ty)) = lookup k s.
Proof.
  intros Hne. unfold Seen.check_one. destruct (lookup (hash u) s) as [[|]|]; destruct ty; cbn [fst];
    rewrite ?lookup_put_other by exact Hne; reflexivity.
Qed.

Lemma check_one_le s u ty : le_store s (fst (check_one s u ty)).
Proof.
  intros k v Hk. destruct (N.eq_dec k (hash u)) as [->|Hne].
  - rewrite check_one_recorded, Hk. destruct v.
    + exists KSeed. split; reflexivity.
    + exists ty. split; [reflexivity|destruct ty; reflexivity].
  - rewrite check_one_other by exact Hne. exists v. split; [exact Hk|apply kind_le_refl].
Qed.

(* a write happens exactly when the node is not skipped: Count counts the nodes let through *)
Lemma check_one_count s u ty :
  length (fst (check_one s u ty)) = length s + (if snd (check_one s u ty) then 0 else 1).
Proof.
  unfold Seen.check_one. destruct (lookup (hash u) s) as [[|]|]; destruct ty; simpl; lia.
Qed.

(* ---- the loop ---- *)
Lemma check_list_cons s u ty r :
  check_list s ((u, ty) :: r) =
  (fst (check_list (fst (check_one s u ty)) r),
   snd (check_one s u ty) :: snd (check_list (fst (check_one s u ty)) r)).
Proof.
  simpl. destruct (check_one s u ty) as [s1 b]. simpl.
  destruct (check_list s1 r) as [s2 bs]. reflexivity.
Qed.

Lemma check_list_app s a b :
  check_list s (a ++ b) =
  (fst (check_list (fst (check_list s a)) b),
   snd (check_list s a) ++ snd (check_list (fst (check_list s a)) b)).
Proof.
  revert s. induction a as [|[u ty] a IH]; intros s.
  - simpl. destruct (check_list s b); reflexivity.
  - rewrite <- app_comm_cons, !check_list_cons, IH. simpl. reflexivity.
Qed.

Lemma check_list_length s ws : length (snd (check_list s ws)) = length ws.
Proof.
  revert s. induction ws as [|[u ty] ws IH]; intros s; [reflexivity|].
  rewrite check_list_cons. simpl. f_equal. apply IH.
Qed.

Lemma check_list_le s ws : le_store s (fst (check_list s ws)).
Proof.
  revert s. induction ws as [|[u ty] ws IH]; intros s; [apply le_store_refl|].
  rewrite check_list_cons. simpl. eapply le_store_trans; [apply check_one_le|apply IH].
Qed.

(* the flag of the node at position [length pre] *)
Lemma check_list_nth s pre u ty post :
  nth_error (snd (check_list s (pre ++ (u, ty) :: post))) (length pre) =
  Some (snd (check_one (fst (check_list s pre)) u ty)).
Proof.
  rewrite check_list_app. cbn [snd]. rewrite nth_error_app2 by (rewrite check_list_length; lia).
  rewrite check_list_length, Nat.sub_diag, check_list_cons. reflexivity.
Qed.

(* whatever was checked is recorded, at least as strongly as it was checked *)
Lemma check_list_records s ws u ty :
  In (u, ty) ws -> exists v, lookup (hash u) (fst (check_list s ws)) = Some v /\ kind_le ty v = true.
Proof.
  intros Hin. apply in_split in Hin as (a & b & ->).
  rewrite check_list_app. cbn [fst]. rewrite check_list_cons. cbn [fst].
  set (s1 := fst (check_list s a)).
  assert (H1 : exists v, lookup (hash u) (fst (check_one s1 u ty)) = Some v /\ kind_le ty v = true).
  { rewrite check_one_recorded. destruct (lookup (hash u) s1) as [[|]|].
    - exists KSeed. split; [reflexivity|apply kind_le_seed].
    - exists ty. split; [reflexivity|apply kind_le_refl].
    - exists ty. split; [reflexivity|apply kind_le_refl]. }
  destruct H1 as (v & Hv & Lv).
  destruct (check_list_le (fst (check_one s1 u ty)) b _ _ Hv) as (v' & Hv' & Lv').
  exists v'. split; [exact Hv'|]. eapply kind_le_trans; eassumption.
Qed.

(* a flag is raised only for a key some EARLIER element of the list (or the initial store) wrote *)
Lemma check_list_flag_source s ws i :
  nth_error (snd (check_list s ws)) i = Some true ->
  exists u ty, nth_error ws i = Some (u, ty) /\
    (lookup (hash u) s <> None \/ exists j u' ty', j < i /\ nth_error ws j = Some (u', ty') /\ hash u' = hash u).
Proof.
  revert s i. induction ws as [|[u0 ty0] ws IH]; intros s i Hf.
  - simpl in Hf. destruct i; discriminate.
  - rewrite check_list_cons in Hf. simpl in Hf. destruct i as [|i]; simpl in Hf.
    + inversion Hf as [Hb]. exists u0, ty0. split; [reflexivity|]. left.
      rewrite check_one_flag in Hb. destruct (lookup (hash u0) s); [discriminate|discriminate].
    + destruct (IH _ _ Hf) as (u & ty & Hn & Hsrc). exists u, ty. split; [exact Hn|].
      destruct Hsrc as [Hs|(j & u' & ty' & Hj & Hnj & Hh)].
      * destruct (N.eq_dec (hash u) (hash u0)) as [He|Hne].
        -- right. exists 0, u0, ty0. split; [lia|]. split; [reflexivity|]. symmetry. exact He.
        -- left. rewrite check_one_other in Hs by exact Hne. exact Hs.
      * right. exists (S j), u', ty'. split; [lia|]. split; [exact Hnj|exact Hh].
Qed.

(* ---- the tree traversal is the loop over the list of the nodes at the working depth ---- *)
Lemma work_length lvl : forall pst t, length (work lvl pst t) = length (nodes_at lvl t).
Proof.
  induction lvl as [|l IH]; intros pst [i cs]; simpl; [reflexivity|].
  induction cs as [|c cs IHc]; simpl; [reflexivity|]. rewrite !app_length, IH, IHc. reflexivity.
Qed.

Lemma work_nodes_fst lvl : forall pst t, map fst (work_nodes lvl pst t) = nodes_at lvl t.
Proof.
  induction lvl as [|l IH]; intros pst [i cs]; simpl; [reflexivity|].
  induction cs as [|c cs IHc]; simpl; [reflexivity|]. rewrite map_app, IH, IHc. reflexivity.
Qed.

Lemma work_nodes_work lvl : forall pst t,
  map (fun '(n, ty) => (url_of n, ty)) (work_nodes lvl pst t) = work lvl pst t.
Proof.
  induction lvl as [|l IH]; intros pst [i cs]; simpl; [reflexivity|].
  induction cs as [|c cs IHc]; simpl; [reflexivity|]. rewrite map_app, IH, IHc. reflexivity.
Qed.

Lemma sc_level_spec lvl : forall pst s t,
  fst (sc_level lvl pst s t) = fst (check_list s (work lvl pst t))
  /\ nodes_at lvl (snd (sc_level lvl pst s t)) =
     apply_flags (nodes_at lvl t) (snd (check_list s (work lvl pst t))).
Proof.
  induction lvl as [|l IH]; intros pst s [i cs].
  - simpl. change (url_of (Node i cs)) with (nurl i).
    destruct (check_one s (nurl i) (url_type pst)) as [s' b] eqn:E. simpl.
    split; [reflexivity|]. destruct b; reflexivity.
  - simpl. set (p := Some (nst i)).
    assert (H : forall s,
      fst (map_acc (sc_level l p) s cs) = fst (check_list s (flat_map (work l p) cs))
      /\ flat_map (nodes_at l) (snd (map_acc (sc_level l p) s cs)) =
         apply_flags (flat_map (nodes_at l) cs) (snd (check_list s (flat_map (work l p) cs)))).
    { clear s. induction cs as [|c cs IHc]; intros s; [simpl; split; reflexivity|].
      simpl. destruct (IH p s c) as [Hs Hn].
      destruct (sc_level l p s c) as [s1 c'] eqn:E1. simpl in Hs, Hn.
      destruct (IHc s1) as [Hs2 Hn2].
      destruct (map_acc (sc_level l p) s1 cs) as [s2 cs'] eqn:E2. simpl in Hs2, Hn2. simpl.
      rewrite check_list_app. simpl. rewrite <- Hs. split; [exact Hs2|].
      rewrite apply_flags_app by (rewrite check_list_length, work_length; reflexivity).
      rewrite Hn, Hn2. reflexivity. }
    destruct (H s) as [Hs Hn]. destruct (map_acc (sc_level l p) s cs) as [s' cs']. simpl in *.
    split; assumption.
Qed.

(* the status-erased skeleton: ids, URLs and shape *)
End Local.

Fixpoint erase (t : item) : item :=
  match t with Node i cs => Node (set_st Fresh i) (map erase cs) end.

Lemma erase_mark_seen t : erase (mark_seen t) = erase t.
Proof. destruct t as [i cs]. reflexivity. Qed.

Lemma erase_set_root s t : erase (set_root s t) = erase t.
Proof. destruct t as [i cs]. reflexivity. Qed.

Lemma urls_erase : forall t, urls (erase t) = urls t.
Proof.
  induction t as [i cs IH] using item_ind2. rewrite !urls_node. simpl. rewrite urls_node. simpl. f_equal.
  induction cs as [|c cs IHc]; simpl; [reflexivity|]. inversion IH as [|? ? Hc Hcs]; subst.
  rewrite Hc, IHc by assumption. reflexivity.
Qed.

Lemma ids_erase : forall t, ids (erase t) = ids t.
Proof.
  induction t as [i cs IH] using item_ind2. rewrite !ids_node. simpl. rewrite ids_node. simpl. f_equal.
  induction cs as [|c cs IHc]; simpl; [reflexivity|]. inversion IH as [|? ? Hc Hcs]; subst.
  rewrite Hc, IHc by assumption. reflexivity.
Qed.

Lemma erase_eq_urls t t' : erase t' = erase t -> urls t' = urls t.
Proof. intros H. rewrite <- (urls_erase t'), H. apply urls_erase. Qed.

Lemma erase_eq_ids t t' : erase t' = erase t -> ids t' = ids t.
Proof. intros H. rewrite <- (ids_erase t'), H. apply ids_erase. Qed.

Lemma erase_eq_nonseed_urls t t' : erase t' = erase t -> nonseed_urls t' = nonseed_urls t.
Proof. intros H. rewrite !nonseed_urls_tl, (erase_eq_urls _ _ H). reflexivity. Qed.

Lemma erase_map_level lvl f :
  (forall n, erase (f n) = erase n) -> forall t, erase (map_level lvl f t) = erase t.
Proof.
  intros Hf. induction lvl as [|l IH]; intros [i cs]; simpl; [apply (Hf (Node i cs))|].
  f_equal. rewrite map_map. apply map_ext. exact IH.
Qed.

Lemma nodes_at_map_level lvl f : forall t, nodes_at lvl (map_level lvl f t) = map f (nodes_at lvl t).
Proof.
  induction lvl as [|l IH]; intros [i cs]; simpl; [reflexivity|].
  induction cs as [|c cs IHc]; simpl; [reflexivity|]. rewrite map_app, IH, IHc. reflexivity.
Qed.

(* the infos (id, URL, status) of the nodes that are not at depth [lvl] *)
Definition infos (t : item) : list info := map inf (flatten t).

Lemma infos_node i cs : infos (Node i cs) = i :: flat_map infos cs.
Proof.
  unfold infos. simpl. f_equal. induction cs as [|c cs IH]; simpl; [reflexivity|].
  rewrite map_app, IH. reflexivity.
Qed.

Lemma infos_forest cs : map inf (flat_map flatten cs) = flat_map infos cs.
Proof. induction cs as [|c cs IH]; simpl; [reflexivity|]. rewrite map_app, IH. reflexivity. Qed.

Section Local2.
Variable hash : N -> N.
Notation sc_level := (sc_level hash).
Notation seencheck_item := (seencheck_item hash).

Lemma erase_sc_level lvl : forall pst s t, erase (snd (sc_level lvl pst s t)) = erase t.
Proof.
  induction lvl as [|l IH]; intros pst s [i cs].
  - simpl. change (url_of (Node i cs)) with (nurl i).
    destruct (check_one hash s (nurl i) (url_type pst)) as [s' b]. simpl. destruct b; reflexivity.
  - simpl. set (p := Some (nst i)).
    assert (H : forall s, map erase (snd (map_acc (sc_level l p) s cs)) = map erase cs).
    { clear s. induction cs as [|c cs IHc]; intros s; [reflexivity|]. simpl.
      pose proof (IH p s c) as Hc. destruct (sc_level l p s c) as [s1 c']. simpl in Hc.
      pose proof (IHc s1) as Hcs. destruct (map_acc (sc_level l p) s1 cs) as [s2 cs']. simpl in *.
      rewrite Hc, Hcs. reflexivity. }
    pose proof (H s) as Hm. destruct (map_acc (sc_level l p) s cs) as [s' cs']. simpl in *.
    rewrite Hm. reflexivity.
Qed.

(* a node of the result is an untouched node of the input, or a node at the working depth *)
Lemma sc_level_infos lvl : forall pst s t x,
  In x (infos (snd (sc_level lvl pst s t))) ->
  In x (infos t) \/ In x (map inf (nodes_at lvl (snd (sc_level lvl pst s t)))).
Proof.
  induction lvl as [|l IH]; intros pst s [i cs] x Hx.
  - cbn [Seen.sc_level nodes_at] in *. change (url_of (Node i cs)) with (nurl i) in *.
    destruct (check_one hash s (nurl i) (url_type pst)) as [s' b]. cbn [snd] in *.
    assert (Hx' : In x (infos (Node (if b then set_st Seen i else i) cs))) by (destruct b; exact Hx).
    rewrite infos_node in Hx'. destruct Hx' as [Hx'|Hx'].
    + right. destruct b; simpl; left; exact Hx'.
    + left. rewrite infos_node. right. exact Hx'.
  - simpl in *. set (p := Some (nst i)) in *.
    assert (H : forall s x,
      In x (flat_map infos (snd (map_acc (sc_level l p) s cs))) ->
      In x (flat_map infos cs) \/ In x (map inf (flat_map (nodes_at l) (snd (map_acc (sc_level l p) s cs))))).
    { clear s x Hx. induction cs as [|c cs IHc]; intros s x Hx; [simpl in Hx; contradiction|].
      simpl in *. pose proof (IH p s c x) as Hc. destruct (sc_level l p s c) as [s1 c']. simpl in Hc.
      pose proof (IHc s1 x) as Hcs. destruct (map_acc (sc_level l p) s1 cs) as [s2 cs']. simpl in *.
      rewrite map_app. apply in_app_or in Hx as [Hx|Hx].
      - destruct (Hc Hx) as [H1|H1]; [left; apply in_or_app; left; exact H1|right; apply in_or_app; left; exact H1].
      - destruct (Hcs Hx) as [H1|H1]; [left; apply in_or_app; right; exact H1|right; apply in_or_app; right; exact H1]. }
    pose proof (H s x) as Hm. destruct (map_acc (sc_level l p) s cs) as [s' cs']. simpl in *.
    destruct Hx as [Hx|Hx].
    + left. left. exact Hx.
    + rewrite infos_forest in Hx.
      destruct (Hm Hx) as [H1|H1]; [left; right; rewrite infos_forest; exact H1|right; exact H1].
Qed.

End Local2.

(* ================================================================================== *)
(* statements and proofs of the C08 theorems                                           *)
(* ================================================================================== *)
Lemma firstn_mid {A} (l1 : list A) a l2 : firstn (length l1) (l1 ++ a :: l2) = l1.
Proof. rewrite firstn_app, Nat.sub_diag, firstn_all. simpl. apply app_nil_r. Qed.

Lemma nth_error_work_nodes lvl pst t i n ty :
  nth_error (work_nodes lvl pst t) i = Some (n, ty) ->
  nth_error (nodes_at lvl t) i = Some n /\ nth_error (work lvl pst t) i = Some (url_of n, ty).
Proof.
  intros H. split.
  - rewrite <- (work_nodes_fst lvl pst t). apply (map_nth_error fst _ _ H).
  - rewrite <- (work_nodes_work lvl pst t). apply (map_nth_error (fun '(n, ty) => (url_of n, ty)) _ _ H).
Qed.

Lemma mem_false_not_in x l : mem x l = false -> ~ In x l.
Proof.
  intros Hm Hin. unfold mem in Hm. assert (existsb (N.eqb x) l = true) as Ht.
  { apply existsb_exists. exists x. split; [exact Hin|apply N.eqb_refl]. }
  congruence.
Qed.

Lemma mem_true_in x l : mem x l = true -> In x l.
Proof.
  intros Hm. apply existsb_exists in Hm as (y & Hy & He). apply N.eqb_eq in He. subst. exact Hy.
Qed.

Section Hist.
Variable hash : N -> N.

Lemma seencheck_item_store s t :
  fst (seencheck_item hash s t) = fst (check_list hash s (level_work t)).
Proof. apply sc_level_spec. Qed.

Lemma seencheck_item_nodes s t :
  nodes_at (max_depth t) (snd (seencheck_item hash s t)) =
  apply_flags (nodes_at (max_depth t) t) (snd (check_list hash s (level_work t))).
Proof. apply sc_level_spec. Qed.

Lemma erase_seencheck_item s t : erase (snd (seencheck_item hash s t)) = erase t.
Proof. apply erase_sc_level. Qed.

(* every operation is the loop over its work list, as far as the store is concerned *)
Lemma step_store s o : fst (step hash s o) = fst (check_list hash s (op_work o)).
Proof.
  destruct o as [t|t|]; simpl.
  - pose proof (seencheck_item_store s t) as H. destruct (seencheck_item hash s t). exact H.
  - unfold pre_core. destruct (negb (forallb is_fresh (nodes_at (max_depth t) t))); [reflexivity|].
    destruct (nodes_at (max_depth t) (dedupe t)) as [|x r]; [reflexivity|].
    pose proof (seencheck_item_store s (dedupe t)) as H.
    destruct (seencheck_item hash s (dedupe t)) as [s' t2]. simpl in H.
    destruct (forallb (fun n => negb (is_fresh n)) (nodes_at (max_depth t) t2)); exact H.
  - reflexivity.
Qed.

Lemma run_store : forall h s, run hash s h = fst (check_list hash s (flat_map op_work h)).
Proof.
  induction h as [|o h IH]; intros s; [reflexivity|].
  unfold run in *. simpl. rewrite IH, step_store, check_list_app. reflexivity.
Qed.

Lemma run_app s h h' : run hash s (h ++ h') = run hash (run hash s h) h'.
Proof. unfold run. apply fold_left_app. Qed.

(* ---- store_monotone ---- *)
Definition store_monotone_stmt : Prop := forall (s : store) (h h' : list op) (k : N) (v : kind),
  lookup k (run hash s h) = Some v ->
  exists v', lookup k (run hash s (h ++ h')) = Some v' /\ kind_le v v' = true.

Lemma store_monotone_lemma : store_monotone_stmt.
Proof.
  intros s h h' k v Hk. rewrite run_app, (run_store h'). apply (check_list_le hash _ _ _ _ Hk).
Qed.

(* ---- seen_after_record ---- *)
Definition seen_after_record_stmt : Prop :=
  forall (s0 : store) (h1 : list op) (o : op) (h2 : list op) (t : item) (u : N) (ty0 : kind)
         (i : nat) (n : item) (ty : kind),
  In (u, ty0) (op_work o) ->                                               (* u was checked by o, as ty0 *)
  nth_error (work_nodes (max_depth t) None t) i = Some (n, ty) ->          (* a later check of u: node i of t *)
  url_of n = u ->
  let s := run hash s0 (h1 ++ o :: h2) in
  let s_i := fst (check_list hash s (firstn i (level_work t))) in          (* the store when node i is reached *)
  exists k n',
    lookup (hash u) s_i = Some k /\ kind_le ty0 k = true /\
    nth_error (nodes_at (max_depth t) (snd (seencheck_item hash s t))) i = Some n' /\
    (n' = mark_seen n
     \/ (ty = KSeed /\ k = KAsset /\ n' = n
         /\ lookup (hash u) (fst (seencheck_item hash s t)) = Some KSeed)).

Lemma seen_after_record_lemma : seen_after_record_stmt.
Proof.
  intros s0 h1 o h2 t u ty0 i n ty Hin Hn Hu s s_i.
  destruct (nth_error_work_nodes _ _ _ _ _ _ Hn) as [Hnode Hw]. rewrite Hu in Hw.
  (* recorded by o, kept until the check of t *)
  assert (Hrec : exists v, lookup (hash u) s = Some v /\ kind_le ty0 v = true).
  { unfold s. rewrite run_store. apply check_list_records. rewrite flat_map_app. apply in_or_app. right.
    simpl. apply in_or_app. left. exact Hin. }
  destruct Hrec as (v & Hv & Lv).
  fold (level_work t) in Hw.
  destruct (nth_error_split _ _ Hw) as (pre & post & Hsplit & Hlen).
  assert (Hsi : s_i = fst (check_list hash s pre)).
  { unfold s_i. rewrite Hsplit, <- Hlen, firstn_mid. reflexivity. }
  destruct (check_list_le hash s pre _ _ Hv) as (k & Hk & Lk). rewrite <- Hsi in Hk.
  exists k, (if snd (check_one hash s_i u ty) then mark_seen n else n).
  split; [exact Hk|]. split; [eapply kind_le_trans; eassumption|].
  assert (Hflag : nth_error (snd (check_list hash s (level_work t))) i = Some (snd (check_one hash s_i u ty))).
  { rewrite Hsplit, <- Hlen, Hsi. apply check_list_nth. }
  split.
  - rewrite seencheck_item_nodes. apply nth_error_apply_flags; assumption.
  - rewrite check_one_flag, Hk.
    destruct ty, k; simpl; auto. right. repeat split; try reflexivity.
    rewrite seencheck_item_store, Hsplit, check_list_app. cbn [fst]. rewrite check_list_cons. cbn [fst].
    rewrite <- Hsi.
    assert (H1 : lookup (hash u) (fst (check_one hash s_i u KSeed)) = Some KSeed).
    { rewrite check_one_recorded, Hk. reflexivity. }
    destruct (check_list_le hash _ post _ _ H1) as (v' & Hv' & Lv').
    apply kind_le_seed_inv in Lv'. subst v'. exact Hv'.
Qed.

(* ---- seen_only_if_reported (local store) ---- *)
Definition seen_only_if_reported_stmt : Prop :=
  forall (s : store) (t : item) (i : nat) (n n' : item) (ty : kind),
  nth_error (work_nodes (max_depth t) None t) i = Some (n, ty) ->
  nth_error (nodes_at (max_depth t) (snd (seencheck_item hash s t))) i = Some n' ->
  n' = n
  \/ (n' = mark_seen n
      /\ exists k, lookup (hash (url_of n)) (fst (check_list hash s (firstn i (level_work t)))) = Some k
                   /\ (ty = KSeed -> k = KSeed)).

Lemma seen_only_if_reported_lemma : seen_only_if_reported_stmt.
Proof.
  intros s t i n n' ty Hn Hn'.
  destruct (nth_error_work_nodes _ _ _ _ _ _ Hn) as [Hnode Hw]. fold (level_work t) in Hw.
  destruct (nth_error_split _ _ Hw) as (pre & post & Hsplit & Hlen).
  assert (Hflag : nth_error (snd (check_list hash s (level_work t))) i
                  = Some (snd (check_one hash (fst (check_list hash s pre)) (url_of n) ty))).
  { rewrite Hsplit, <- Hlen. apply check_list_nth. }
  rewrite seencheck_item_nodes, (nth_error_apply_flags _ _ _ _ _ Hnode Hflag) in Hn'.
  inversion Hn' as [Hn'']. clear Hn'. subst n'.
  rewrite Hsplit, <- Hlen, firstn_mid.
  rewrite check_one_flag. destruct (lookup (hash (url_of n)) (fst (check_list hash s pre))) as [k|] eqn:Ek.
  - destruct ty, k; cbn [kind_eqb andb negb].
    + right. split; [reflexivity|]. exists KSeed. split; [reflexivity|]. intros _. reflexivity.
    + left. reflexivity.
    + right. split; [reflexivity|]. exists KSeed. split; [reflexivity|]. intros H. discriminate H.
    + right. split; [reflexivity|]. exists KAsset. split; [reflexivity|]. intros H. discriminate H.
  - left. reflexivity.
Qed.

(* nothing but nodes at the working depth is touched *)
Definition only_working_depth_touched_stmt : Prop :=
  forall (s : store) (t : item) (x : info),
  In x (infos (snd (seencheck_item hash s t))) ->
  In x (infos t) \/ In x (map inf (nodes_at (max_depth t) (snd (seencheck_item hash s t)))).

Lemma only_working_depth_touched_lemma : only_working_depth_touched_stmt.
Proof. intros s t x. apply sc_level_infos. Qed.

End Hist.

(* ---- seen_only_if_recorded: with a hash that is injective on the URLs in play, a node is
   skipped only if the SAME URL was checked before, by an earlier operation of the history or by
   an earlier node of the same tree ---- *)
Definition seen_only_if_recorded_stmt : Prop :=
  forall (hash : N -> N) (U : N -> Prop),
  (forall u v, U u -> U v -> hash u = hash v -> u = v) ->
  forall (h : list op) (t : item) (i : nat) (n n' : item) (ty : kind),
  (forall u ty, In (u, ty) (flat_map op_work h ++ level_work t) -> U u) ->
  nth_error (work_nodes (max_depth t) None t) i = Some (n, ty) ->
  nth_error (nodes_at (max_depth t) (snd (seencheck_item hash (run hash [] h) t))) i = Some n' ->
  n' <> n ->
  (exists o ty', In o h /\ In (url_of n, ty') (op_work o))
  \/ (exists j n0 ty', j < i /\ nth_error (work_nodes (max_depth t) None t) j = Some (n0, ty')
                       /\ url_of n0 = url_of n).

Lemma seen_only_if_recorded_lemma : seen_only_if_recorded_stmt.
Proof.
  intros hash U Hinj h t i n n' ty HU Hn Hn' Hne.
  destruct (nth_error_work_nodes _ _ _ _ _ _ Hn) as [Hnode Hw]. fold (level_work t) in Hw.
  set (W := flat_map op_work h) in *.
  (* the flag of node i is raised *)
  assert (Hlen : i < length (snd (check_list hash (run hash [] h) (level_work t)))).
  { rewrite check_list_length. apply nth_error_Some. congruence. }
  destruct (nth_error (snd (check_list hash (run hash [] h) (level_work t))) i) as [b|] eqn:Eb;
    [|apply nth_error_None in Eb; lia].
  rewrite seencheck_item_nodes, (nth_error_apply_flags _ _ _ _ _ Hnode Eb) in Hn'.
  destruct b; [|inversion Hn'; congruence].
  (* seen from the empty store, over the whole work list *)
  assert (Hall : nth_error (snd (check_list hash [] (W ++ level_work t))) (length W + i) = Some true).
  { rewrite check_list_app. cbn [snd]. rewrite nth_error_app2 by (rewrite check_list_length; lia).
    rewrite check_list_length, Nat.add_comm, Nat.add_sub. unfold W. rewrite <- run_store. exact Eb. }
  destruct (check_list_flag_source hash _ _ _ Hall) as (u & ty1 & Hnth & Hsrc).
  rewrite nth_error_app2, Nat.add_comm, Nat.add_sub, Hw in Hnth by lia. inversion Hnth; subst u ty1. clear Hnth.
  destruct Hsrc as [Hs|(j & u' & ty' & Hj & Hnj & Hh)]; [simpl in Hs; congruence|].
  assert (Hu' : u' = url_of n).
  { apply Hinj; [| |exact Hh].
    - apply (HU u' ty'). apply (nth_error_In _ _ Hnj).
    - apply (HU (url_of n) ty). apply in_or_app. right. apply (nth_error_In _ _ Hw). }
  subst u'. destruct (Nat.lt_ge_cases j (length W)) as [Hlt|Hge].
  - left. rewrite nth_error_app1 in Hnj by exact Hlt. apply nth_error_In in Hnj.
    unfold W in Hnj. apply in_flat_map in Hnj as (o & Ho & Hino). exists o, ty'. split; assumption.
  - right. rewrite nth_error_app2 in Hnj by exact Hge. exists (j - length W).
    unfold level_work in Hnj. rewrite <- (work_nodes_work (max_depth t) None t) in Hnj.
    destruct (nth_error (work_nodes (max_depth t) None t) (j - length W)) as [[n0 ty0]|] eqn:E0.
    + rewrite (map_nth_error _ _ _ E0) in Hnj. inversion Hnj as [[Hu0 Ht0]].
      exists n0, ty0. split; [lia|]. split; [congruence|congruence].
    + apply nth_error_None in E0. assert (Hsome : nth_error (map (fun '(n, ty) => (url_of n, ty))
        (work_nodes (max_depth t) None t)) (j - length W) <> None) by congruence.
      apply nth_error_Some in Hsome. rewrite map_length in Hsome. lia.
Qed.

(* ---- store_exact: with an injective key function the store holds, for every URL, exactly the
   strongest type it was checked as so far (nothing for a URL never checked) ---- *)
Definition join (a c : option kind) : option kind :=
  match a, c with
  | None, x | x, None => x
  | Some KAsset, Some KAsset => Some KAsset
  | Some _, Some _ => Some KSeed
  end.

Fixpoint strongest (u : N) (ws : list (N * kind)) : option kind :=
  match ws with
  | [] => None
  | (u', ty) :: r => if N.eqb u' u then join (Some ty) (strongest u r) else strongest u r
  end.

Lemma join_assoc a b c : join (join a b) c = join a (join b c).
Proof. destruct a as [[|]|], b as [[|]|], c as [[|]|]; reflexivity. Qed.

Lemma join_none_r a : join a None = a.
Proof. destruct a as [[|]|]; reflexivity. Qed.

Definition store_exact_stmt : Prop :=
  forall (hash : N -> N) (U : N -> Prop),
  (forall u v, U u -> U v -> hash u = hash v -> u = v) ->
  forall (h : list op) (u : N),
  U u -> (forall u' ty, In (u', ty) (flat_map op_work h) -> U u') ->
  lookup (hash u) (run hash [] h) = strongest u (flat_map op_work h).

Lemma check_list_exact (hash : N -> N) (U : N -> Prop) :
  (forall u v, U u -> U v -> hash u = hash v -> u = v) ->
  forall ws s u, U u -> (forall u' ty, In (u', ty) ws -> U u') ->
  lookup (hash u) (fst (check_list hash s ws)) = join (lookup (hash u) s) (strongest u ws).
Proof.
  intros Hinj. induction ws as [|[u0 ty0] ws IH]; intros s u Hu HU.
  - simpl. symmetry. apply join_none_r.
  - rewrite check_list_cons. cbn [fst]. rewrite IH; [|exact Hu|intros u' ty Hin; apply (HU u' ty); right; exact Hin].
    cbn [strongest]. destruct (N.eqb_spec u0 u) as [->|Hne].
    + rewrite check_one_recorded, <- join_assoc. f_equal.
      destruct (lookup (hash u) s) as [[|]|], ty0; reflexivity.
    + rewrite check_one_other; [reflexivity|]. intros He. apply Hne. symmetry.
      apply Hinj; [exact Hu|apply (HU u0 ty0); left; reflexivity|exact He].
Qed.

Lemma store_exact_lemma : store_exact_stmt.
Proof.
  intros hash U Hinj h u Hu HU. rewrite run_store.
  rewrite (check_list_exact hash U Hinj _ [] u Hu HU). reflexivity.
Qed.

(* ================================================================================== *)
(* preprocess                                                                          *)
(* ================================================================================== *)
Section Pre.
Context {S : Type}.
Variable sc : S -> item -> S * item.
Hypothesis sc_erase : forall s t, erase (snd (sc s t)) = erase t.

Lemma erase_build_requests d t : erase (build_requests d t) = erase t.
Proof.
  unfold build_requests. apply erase_map_level. intros n. destruct (is_fresh n); [apply erase_set_root|reflexivity].
Qed.

Lemma pre_core_erase s t s' t' : pre_core sc s t = Some (s', t') -> erase t' = erase (dedupe t).
Proof.
  unfold pre_core. destruct (negb (forallb is_fresh (nodes_at (max_depth t) t))); [discriminate|].
  destruct (nodes_at (max_depth t) (dedupe t)) as [|x r].
  - intros H. inversion H. apply erase_set_root.
  - pose proof (sc_erase s (dedupe t)) as He. destruct (sc s (dedupe t)) as [s2 t2]. simpl in He.
    destruct (forallb (fun n => negb (is_fresh n)) (nodes_at (max_depth t) t2)); intros H; inversion H; subst.
    + rewrite erase_set_root. exact He.
    + rewrite erase_build_requests. exact He.
Qed.

(* within one tree, after preprocess, no URL is held by two non-seed nodes *)
Lemma pre_core_no_two s t s' t' :
  Inv0 t -> pre_core sc s t = Some (s', t') -> NoDup (nonseed_urls t').
Proof.
  intros Hinv H. rewrite (erase_eq_nonseed_urls _ _ (pre_core_erase _ _ _ _ H)).
  apply dedupe_unique_lemma. exact Hinv.
Qed.

(* the nodes the seencheck marked are filtered out before the requests are built: only a node
   that is still Fresh after the seencheck becomes PreProcessed (= gets its request) *)
Lemma pre_core_requests s t s' t' :
  pre_core sc s t = Some (s', t') ->
  nodes_at (max_depth t) (dedupe t) <> [] ->
  let d := max_depth t in
  let t2 := snd (sc s (dedupe t)) in
  s' = fst (sc s (dedupe t)) /\
  ((forallb (fun n => negb (is_fresh n)) (nodes_at d t2) = true /\ t' = set_root Completed t2)
   \/ nodes_at d t' = map (fun n => if is_fresh n then set_root PreProcessed n else n) (nodes_at d t2)).
Proof.
  unfold pre_core. destruct (negb (forallb is_fresh (nodes_at (max_depth t) t))); [discriminate|].
  destruct (nodes_at (max_depth t) (dedupe t)) as [|x r]; [intros _ Hne; contradiction|].
  intros H _. destruct (sc s (dedupe t)) as [s2 t2]. simpl.
  destruct (forallb (fun n => negb (is_fresh n)) (nodes_at (max_depth t) t2)) eqn:E; inversion H; subst.
  - split; [reflexivity|]. left. split; reflexivity.
  - split; [reflexivity|]. right. unfold build_requests. apply nodes_at_map_level.
Qed.
End Pre.

(* ================================================================================== *)
(* crawl HQ                                                                            *)
(* ================================================================================== *)
Lemma erase_hq_mark answer t : erase (hq_mark answer t) = erase t.
Proof.
  unfold hq_mark. apply erase_map_level. intros n. destruct (mem (url_of n) answer); [reflexivity|apply erase_mark_seen].
Qed.

Lemma erase_hq_seencheck reply t : erase (snd (hq_seencheck reply t)) = erase t.
Proof.
  unfold hq_seencheck. destruct (max_depth t); [reflexivity|].
  destruct (hq_sent t) as [|x r]; [reflexivity|]. destruct (reply (x :: r)); [reflexivity|apply erase_hq_mark].
Qed.

Lemma hq_sent_in t n ty :
  In (n, ty) (work_nodes (max_depth t) None t) -> is_fresh n = true -> In (url_of n, ty) (hq_sent t).
Proof.
  intros Hin Hf. unfold hq_sent. apply in_map_iff. exists (n, ty). split; [reflexivity|].
  apply filter_In. split; assumption.
Qed.

(* a node is marked seen only if the HQ was asked about its text and did not return it *)
Definition hq_seen_only_if_reported_stmt : Prop :=
  forall (reply : list (N * kind) -> hq_reply) (t : item) (i : nat) (n n' : item) (ty : kind),
  nth_error (work_nodes (max_depth t) None t) i = Some (n, ty) ->
  nth_error (nodes_at (max_depth t) (snd (hq_seencheck reply t))) i = Some n' ->
  n' = n
  \/ (n' = mark_seen n
      /\ exists answer, reply (hq_sent t) = HROk answer /\ ~ In (url_of n) answer
                        /\ (is_fresh n = true -> In (url_of n, ty) (hq_sent t))).

Lemma hq_seen_only_if_reported_lemma : hq_seen_only_if_reported_stmt.
Proof.
  intros reply t i n n' ty Hn Hn'.
  destruct (nth_error_work_nodes _ _ _ _ _ _ Hn) as [Hnode _].
  unfold hq_seencheck in Hn'. destruct (max_depth t) as [|d] eqn:Ed.
  - left. simpl snd in Hn'. congruence.
  - destruct (hq_sent t) as [|x r] eqn:Es; [left; simpl snd in Hn'; congruence|].
    destruct (reply (x :: r)) as [|answer] eqn:Er; [left; simpl snd in Hn'; congruence|].
    cbn [snd] in Hn'. unfold hq_mark in Hn'. rewrite Ed, nodes_at_map_level in Hn'.
    rewrite (map_nth_error _ _ _ Hnode) in Hn'. inversion Hn' as [Hn'']. clear Hn'.
    destruct (mem (url_of n) answer) eqn:Em; [left; reflexivity|].
    right. split; [reflexivity|]. exists answer. split; [reflexivity|]. split; [apply mem_false_not_in; exact Em|].
    intros Hf. rewrite <- Es. apply hq_sent_in; [|exact Hf]. rewrite Ed. apply (nth_error_In _ _ Hn).
Qed.

(* ... and it IS marked when the HQ did not return its text *)
Definition hq_seen_if_reported_stmt : Prop :=
  forall (reply : list (N * kind) -> hq_reply) (t : item) (i : nat) (n : item) (ty : kind) (answer : list N),
  max_depth t <> 0 -> hq_sent t <> [] -> reply (hq_sent t) = HROk answer ->
  nth_error (work_nodes (max_depth t) None t) i = Some (n, ty) ->
  ~ In (url_of n) answer ->
  nth_error (nodes_at (max_depth t) (snd (hq_seencheck reply t))) i = Some (mark_seen n).

Lemma hq_seen_if_reported_lemma : hq_seen_if_reported_stmt.
Proof.
  intros reply t i n ty answer Hd Hs Hr Hn Hnot.
  destruct (nth_error_work_nodes _ _ _ _ _ _ Hn) as [Hnode _].
  unfold hq_seencheck. destruct (max_depth t) as [|d] eqn:Ed; [contradiction|].
  destruct (hq_sent t) as [|x r] eqn:Es; [contradiction|]. rewrite Hr. cbn [snd].
  unfold hq_mark. rewrite Ed, nodes_at_map_level, (map_nth_error _ _ _ Hnode).
  destruct (mem (url_of n) answer) eqn:Em; [apply mem_true_in in Em; contradiction|reflexivity].
Qed.

(* the same two facts on the list view (fixed code): the text sent is the text compared *)
Definition hq_flags_only_if_stmt : Prop :=
  forall (items : list hnode) (answer : list N) (i : nat) (n : hnode),
  nth_error items i = Some n ->
  (nth_error (hq_flags answer items) i = Some true <-> ~ In (h_canon n) answer)
  /\ (h_fresh n = true -> In (h_canon n, h_type n) (hq_sent_list items)).

Lemma hq_flags_only_if_lemma : hq_flags_only_if_stmt.
Proof.
  intros items answer i n Hn. split.
  - unfold hq_flags. rewrite (map_nth_error _ _ _ Hn). split.
    + intros H. inversion H as [Hm]. apply mem_false_not_in. destruct (mem (h_canon n) answer); [discriminate|reflexivity].
    + intros H. destruct (mem (h_canon n) answer) eqn:Em; [apply mem_true_in in Em; contradiction|reflexivity].
  - intros Hf. unfold hq_sent_list. apply in_map_iff. exists n. split; [reflexivity|].
    apply filter_In. split; [apply (nth_error_In _ _ Hn)|exact Hf].
Qed.

(* the code before the fix: a node is marked seen although the HQ returned the very text that was
   sent for it ("not seen before") *)
Definition hq_orig_refuted_stmt : Prop :=
  exists (items : list hnode) (answer : list N) (i : nat) (n : hnode),
    nth_error items i = Some n /\ h_fresh n = true
    /\ In (h_raw n, h_type n) (hq_sent_orig items)             (* this text was sent for the node *)
    /\ incl answer (map fst (hq_sent_orig items))              (* the HQ answers about what it was asked *)
    /\ In (h_raw n) answer                                     (* and reports the node's text as new *)
    /\ nth_error (hq_flags_orig answer items) i = Some true.   (* yet the node is marked seen *)

Lemma hq_orig_refuted_lemma : hq_orig_refuted_stmt.
Proof.
  (* raw "http://h.example/p0?x" = 1, canonical "http://h.example/p0?x=" = 2 *)
  exists [HN 1 2 KAsset true], [1%N], 0, (HN 1 2 KAsset true).
  repeat split; try reflexivity; try (simpl; auto; fail).
  intros x Hx. exact Hx.
Qed.

(* ---- histories against the reference HQ ---- *)
Lemma hq_new_not_held : forall sent S v, In v (hq_new S sent) -> ~ In v S.
Proof.
  induction sent as [|v0 sent IH]; intros S v Hin; [contradiction|].
  simpl in Hin. destruct (mem v0 S) eqn:Em.
  - apply IH. exact Hin.
  - destruct Hin as [->|Hin]; [apply mem_false_not_in; exact Em|].
    intros HS. apply (IH _ _ Hin). right. exact HS.
Qed.

Lemma hq_step_holds S t :
  incl S (fst (hq_step S t))
  /\ (max_depth t <> 0 -> forall u ty, In (u, ty) (hq_sent t) -> In u (fst (hq_step S t))).
Proof.
  unfold hq_step. destruct (max_depth t) as [|d]; [split; [apply incl_refl|intros H; contradiction]|].
  destruct (hq_sent t) as [|x r] eqn:Es.
  - split; [apply incl_refl|]. intros _ u ty Hin. contradiction.
  - cbn [hq_ref fst]. split.
    + intros v Hv. apply in_or_app. right. exact Hv.
    + intros _ u ty Hin. apply in_or_app. left. apply in_rev. rewrite rev_involutive.
      apply in_map_iff. exists (u, ty). split; [reflexivity|exact Hin].
Qed.

Lemma hq_run_incl : forall h S, incl S (hq_run S h).
Proof.
  induction h as [|t h IH]; intros S; [apply incl_refl|].
  unfold hq_run in *. simpl. eapply incl_tran; [apply (proj1 (hq_step_holds S t))|apply IH].
Qed.

Lemma hq_step_eq S t :
  max_depth t <> 0 -> hq_sent t <> [] ->
  hq_step S t = (rev (map fst (hq_sent t)) ++ S,
                 snd (hq_seencheck (fun _ => HROk (hq_new S (map fst (hq_sent t)))) t)).
Proof.
  intros Hd Hs. unfold hq_step. destruct (max_depth t); [contradiction|].
  destruct (hq_sent t); [contradiction|]. reflexivity.
Qed.

Definition hq_seen_after_record_stmt : Prop :=
  forall (S0 : list N) (h1 : list item) (t1 : item) (h2 : list item) (t : item) (u : N) (ty0 : kind)
         (i : nat) (n : item) (ty : kind),
  max_depth t1 <> 0 -> In (u, ty0) (hq_sent t1) ->               (* u was handed to the HQ by the check of t1 *)
  nth_error (work_nodes (max_depth t) None t) i = Some (n, ty) -> (* a later Fresh node with the same URL *)
  url_of n = u -> is_fresh n = true -> max_depth t <> 0 ->
  let S := hq_run S0 (h1 ++ t1 :: h2) in
  nth_error (nodes_at (max_depth t) (snd (hq_step S t))) i = Some (mark_seen n).

Lemma hq_seen_after_record_lemma : hq_seen_after_record_stmt.
Proof.
  intros S0 h1 t1 h2 t u ty0 i n ty Hd1 Hin1 Hn Hu Hf Hd S.
  assert (HuS : In u S).
  { unfold S, hq_run. rewrite fold_left_app. simpl. apply hq_run_incl.
    apply (proj2 (hq_step_holds _ t1) Hd1 u ty0 Hin1). }
  assert (Hsent : In (u, ty) (hq_sent t)).
  { rewrite <- Hu. apply hq_sent_in; [apply (nth_error_In _ _ Hn)|exact Hf]. }
  assert (Hne : hq_sent t <> []) by (intros E; rewrite E in Hsent; contradiction).
  rewrite (hq_step_eq S t Hd Hne). cbn [snd].
  apply (hq_seen_if_reported_lemma (fun _ => HROk (hq_new S (map fst (hq_sent t)))) t i n ty
           (hq_new S (map fst (hq_sent t)))); auto.
  rewrite Hu. intros Hnew. apply (hq_new_not_held _ _ _ Hnew). exact HuS.
Qed.

(* ---- the request in batches ---- *)
Lemma hq_collect_ok_all : forall rs a, hq_collect rs = HROk a ->
  forall r, In r rs -> exists a', r = HROk a' /\ incl a' a.
Proof.
  induction rs as [|r0 rs IH]; intros a Hc r Hin; [contradiction|].
  simpl in Hc. destruct r0 as [|a0]; [discriminate|].
  destruct (hq_collect rs) as [|b] eqn:Eb; [discriminate|]. inversion Hc; subst a. clear Hc.
  destruct Hin as [<-|Hin].
  - exists a0. split; [reflexivity|]. intros x Hx. apply in_or_app. left. exact Hx.
  - destruct (IH b eq_refl r Hin) as (a' & -> & Hi). exists a'. split; [reflexivity|].
    intros x Hx. apply in_or_app. right. apply Hi. exact Hx.
Qed.

Lemma hq_collect_ok_in : forall rs a x, hq_collect rs = HROk a -> In x a ->
  exists a', In (HROk a') rs /\ In x a'.
Proof.
  induction rs as [|r0 rs IH]; intros a x Hc Hx.
  - simpl in Hc. inversion Hc; subst a. contradiction.
  - simpl in Hc. destruct r0 as [|a0]; [discriminate|].
    destruct (hq_collect rs) as [|b] eqn:Eb; [discriminate|]. inversion Hc; subst a. clear Hc.
    apply in_app_or in Hx as [Hx|Hx].
    + exists a0. split; [left; reflexivity|exact Hx].
    + destruct (IH b x eq_refl Hx) as (a' & Hin & Hx'). exists a'. split; [right; exact Hin|exact Hx'].
Qed.

Lemma hq_collect_all_ok : forall rs, (forall r, In r rs -> exists a', r = HROk a') ->
  exists a, hq_collect rs = HROk a.
Proof.
  induction rs as [|r0 rs IH]; intros Hall; [exists []; reflexivity|].
  destruct (Hall r0 (or_introl eq_refl)) as (a0 & ->).
  destruct (IH (fun r Hr => Hall r (or_intror Hr))) as (b & Hb).
  exists (a0 ++ b). simpl. rewrite Hb. reflexivity.
Qed.

(* whatever the partition of the request: a node is marked seen only if EVERY batch was answered
   and no answer holds the node's text - in particular not the answer to the batch the node's
   text was sent in *)
Definition hq_batched_seen_only_if_reported_stmt : Prop :=
  forall (ex : list hq_exchange) (t : item) (i : nat) (n n' : item) (ty : kind),
  concat (map fst ex) = hq_sent t ->
  nth_error (work_nodes (max_depth t) None t) i = Some (n, ty) ->
  nth_error (nodes_at (max_depth t) (snd (hq_seencheck_ex ex t))) i = Some n' ->
  n' = n
  \/ (n' = mark_seen n
      /\ (forall b r, In (b, r) ex -> exists a, r = HROk a /\ ~ In (url_of n) a)
      /\ (is_fresh n = true ->
          exists b a, In (b, HROk a) ex /\ In (url_of n, ty) b /\ ~ In (url_of n) a)).

Lemma hq_batched_seen_only_if_reported_lemma : hq_batched_seen_only_if_reported_stmt.
Proof.
  intros ex t i n n' ty Hpart Hn Hn'. unfold hq_seencheck_ex in Hn'.
  destruct (hq_seen_only_if_reported_lemma _ t i n n' ty Hn Hn') as [->|(-> & answer & Hc & Hnot & Hsent)];
    [left; reflexivity|].
  right. split; [reflexivity|].
  assert (Hall : forall b r, In (b, r) ex -> exists a, r = HROk a /\ ~ In (url_of n) a).
  { intros b r Hin.
    destruct (hq_collect_ok_all _ _ Hc r) as (a' & -> & Hi).
    { apply in_map_iff. exists (b, r). split; [reflexivity|exact Hin]. }
    exists a'. split; [reflexivity|]. intros Hx. apply Hnot. apply Hi. exact Hx. }
  split; [exact Hall|].
  intros Hf. specialize (Hsent Hf). rewrite <- Hpart in Hsent.
  apply in_concat in Hsent as (b & Hb & Hin). apply in_map_iff in Hb as ([b' r] & Eb & Hex).
  simpl in Eb. subst b'. destruct (Hall b r Hex) as (a & -> & Ha).
  exists b, a. split; [exact Hex|]. split; [exact Hin|exact Ha].
Qed.

(* ... and it IS marked when every batch was answered and no answer holds its text *)
Definition hq_batched_seen_if_reported_stmt : Prop :=
  forall (ex : list hq_exchange) (t : item) (i : nat) (n : item) (ty : kind),
  max_depth t <> 0 -> hq_sent t <> [] ->
  (forall b r, In (b, r) ex -> exists a, r = HROk a /\ ~ In (url_of n) a) ->
  nth_error (work_nodes (max_depth t) None t) i = Some (n, ty) ->
  nth_error (nodes_at (max_depth t) (snd (hq_seencheck_ex ex t))) i = Some (mark_seen n).

Lemma hq_batched_seen_if_reported_lemma : hq_batched_seen_if_reported_stmt.
Proof.
  intros ex t i n ty Hd Hs Hall Hn. unfold hq_seencheck_ex.
  destruct (hq_collect_all_ok (map snd ex)) as (answer & Hc).
  { intros r Hr. apply in_map_iff in Hr as ([b r'] & Er & Hin). simpl in Er. subst r'.
    destruct (Hall b r Hin) as (a & -> & _). exists a. reflexivity. }
  apply (hq_seen_if_reported_lemma _ t i n ty answer Hd Hs Hc Hn).
  intros Hx. destruct (hq_collect_ok_in _ _ _ Hc Hx) as (a' & Hin & Hx').
  apply in_map_iff in Hin as ([b r] & Er & Hex). simpl in Er. subst r.
  destruct (Hall b _ Hex) as (a & Ea & Ha). inversion Ea; subst a. exact (Ha Hx').
Qed.

(* the reference HQ: what it answers depends on the set it holds, not on the list *)
Lemma mem_app x l1 l2 : mem x (l1 ++ l2) = mem x l1 || mem x l2.
Proof. unfold mem. apply existsb_app. Qed.

Lemma hq_new_ext : forall sent S S', (forall x, mem x S = mem x S') -> hq_new S sent = hq_new S' sent.
Proof.
  induction sent as [|v sent IH]; intros S S' He; [reflexivity|].
  simpl. rewrite <- (He v). destruct (mem v S); [apply IH; exact He|].
  f_equal. apply IH. intros x. change (mem x (v :: S)) with ((x =? v)%N || mem x S).
  change (mem x (v :: S')) with ((x =? v)%N || mem x S'). rewrite He. reflexivity.
Qed.

(* the answer to a request is the answer to its first part followed by the answer to the rest,
   given to the HQ that holds the first part *)
Lemma hq_new_app : forall a S b, hq_new S (a ++ b) = hq_new S a ++ hq_new (rev a ++ S) b.
Proof.
  induction a as [|v a IH]; intros S b; [reflexivity|].
  simpl. destruct (mem v S) eqn:Em.
  - rewrite IH. f_equal. apply hq_new_ext. intros x.
    cbn [rev]. rewrite <- app_assoc, !mem_app.
    change (mem x [v]) with ((x =? v)%N || false).
    destruct (mem x (rev a)); [reflexivity|].
    destruct (N.eqb_spec x v) as [E|_]; [rewrite E, Em|]; reflexivity.
  - rewrite IH. simpl. rewrite <- app_assoc. reflexivity.
Qed.

Lemma hq_ref_parts_concat : forall parts S,
  hq_collect (map snd (fst (hq_ref_parts S parts))) = fst (hq_ref S (concat parts))
  /\ snd (hq_ref_parts S parts) = snd (hq_ref S (concat parts))
  /\ map fst (fst (hq_ref_parts S parts)) = parts.
Proof.
  induction parts as [|p parts IH]; intros S; [repeat split|].
  cbn [hq_ref_parts hq_ref]. specialize (IH (rev (map fst p) ++ S)).
  destruct (hq_ref_parts (rev (map fst p) ++ S) parts) as [ex S2]. cbn [fst snd] in *.
  destruct IH as (Hc & HS & Hm). cbn [map snd fst hq_collect concat]. rewrite Hc. cbn [hq_ref fst snd] in *.
  split; [|split].
  - rewrite map_app, hq_new_app. reflexivity.
  - rewrite HS, map_app, rev_app_distr, app_assoc. reflexivity.
  - rewrite Hm. reflexivity.
Qed.

(* the outcome of a pass does not depend on how the request is cut into batches *)
Definition hq_batching_irrelevant_stmt : Prop :=
  forall (split : list (N * kind) -> list (list (N * kind))),
  (forall l, concat (split l) = l) ->
  forall (S : list N) (t : item), hq_step_parts split S t = hq_step S t.

Lemma hq_batching_irrelevant_lemma : hq_batching_irrelevant_stmt.
Proof.
  intros split Hsplit S t. unfold hq_step_parts, hq_step.
  destruct (max_depth t); [reflexivity|]. destruct (hq_sent t) as [|x r]; [reflexivity|].
  destruct (hq_ref_parts_concat (split (x :: r)) S) as (Hc & HS & _).
  destruct (hq_ref_parts S (split (x :: r))) as [ex S']. cbn [fst snd] in *.
  rewrite Hsplit in Hc, HS. destruct (hq_ref S (x :: r)) as [rep S0]. cbn [fst snd] in *. subst S' rep.
  unfold hq_seencheck_ex. reflexivity.
Qed.

(* batches of --hq-batch-size entries are such a partition *)
Lemma chunks_f_spec {A} (b : nat) : b <> 0 -> forall fuel (l : list A), length l <= fuel ->
  concat (chunks_f fuel b l) = l
  /\ Forall (fun p => p <> [] /\ length p <= b) (chunks_f fuel b l).
Proof.
  intros Hb. induction fuel as [|f IH]; intros l Hl.
  - destruct l; [split; [reflexivity|constructor]|simpl in Hl; lia].
  - destruct l as [|x l']; [split; [reflexivity|constructor]|].
    change (chunks_f (S f) b (x :: l')) with (firstn b (x :: l') :: chunks_f f b (skipn b (x :: l'))).
    remember (x :: l') as l eqn:El.
    assert (Hlen : length (skipn b l) <= f).
    { rewrite skipn_length. subst l. cbn [length] in *. lia. }
    destruct (IH _ Hlen) as [Hc Hf]. split.
    + cbn [concat]. rewrite Hc. apply firstn_skipn.
    + constructor; [|exact Hf]. split.
      * destruct b as [|b']; [contradiction|]. subst l. discriminate.
      * apply firstn_le_length.
Qed.

Definition hq_batch_size_irrelevant_stmt : Prop :=
  forall (b : nat), b <> 0 ->
  (forall l : list (N * kind), concat (chunks b l) = l /\ Forall (fun p => p <> [] /\ length p <= b) (chunks b l))
  /\ forall (S : list N) (t : item), hq_step_parts (chunks b) S t = hq_step S t.

Lemma hq_batch_size_irrelevant_lemma : hq_batch_size_irrelevant_stmt.
Proof.
  intros b Hb.
  assert (Hs : forall l : list (N * kind), concat (chunks b l) = l /\ Forall (fun p => p <> [] /\ length p <= b) (chunks b l)).
  { intros l. apply (chunks_f_spec b Hb). apply le_n. }
  split; [exact Hs|]. apply hq_batching_irrelevant_lemma. intros l. apply (proj1 (Hs l)).
Qed.

(* ---- the preprocess statements for the two seen-stores ---- *)
Definition no_two_nonseed_same_url_stmt : Prop :=
  forall (hash : N -> N) (s : store) (t : item) (s' : store) (t' : item),
  Inv0 t -> pre_core (seencheck_item hash) s t = Some (s', t') -> NoDup (nonseed_urls t').

Lemma no_two_nonseed_same_url_lemma : no_two_nonseed_same_url_stmt.
Proof. intros hash. apply pre_core_no_two. apply erase_seencheck_item. Qed.

Definition no_two_nonseed_same_url_hq_stmt : Prop :=
  forall (reply : list (N * kind) -> hq_reply) (t t' : item) (u u' : unit),
  Inv0 t -> pre_core (fun (_ : unit) t => (tt, snd (hq_seencheck reply t))) u t = Some (u', t') ->
  NoDup (nonseed_urls t').

Lemma no_two_nonseed_same_url_hq_lemma : no_two_nonseed_same_url_hq_stmt.
Proof.
  intros reply t t' u u'.
  apply (pre_core_no_two (fun (_ : unit) t => (tt, snd (hq_seencheck reply t)))).
  intros _ t0. apply erase_hq_seencheck.
Qed.

Definition seen_not_requested_stmt : Prop :=
  forall (hash : N -> N) (s : store) (t : item) (s' : store) (t' : item),
  pre_core (seencheck_item hash) s t = Some (s', t') ->
  nodes_at (max_depth t) (dedupe t) <> [] ->
  let d := max_depth t in
  let t2 := snd (seencheck_item hash s (dedupe t)) in
  s' = fst (seencheck_item hash s (dedupe t)) /\
  ((forallb (fun n => negb (is_fresh n)) (nodes_at d t2) = true /\ t' = set_root Completed t2)
   \/ nodes_at d t' = map (fun n => if is_fresh n then set_root PreProcessed n else n) (nodes_at d t2)).

Lemma seen_not_requested_lemma : seen_not_requested_stmt.
Proof. intros hash. apply pre_core_requests. Qed.

(* ================================================================================== *)
(* non-vacuity: the hypotheses are met by concrete, non-trivial states                 *)
(* ================================================================================== *)
From ZenoV Require Import Tree.Witness.
Local Open Scope N_scope.

Definition hid (u : N) : N := u.
Definition leaf (id u : N) (s : status) : item := Node (Info id u s false 0 0) [].
(* seed 20 with three assets: 1, 7 and 1 again (a duplicate inside the tree) *)
Definition ex_page : item := Node (Info 0 20 GotChildren false 0 0) [leaf 1 1 Fresh; leaf 2 7 Fresh; leaf 3 1 Fresh].
(* a history: the seed 20 alone, then its assets, then big_tree (Tree/Witness.v; after de-duplication
   URLs 7 (asset) and 9 (redirect target) at its working depth), re-opening the store in between *)
Definition ex_hist : list op := [OPre (leaf 0 20 Fresh); OPre ex_page; OReopen; OPre big_tree].

Example ex_hist_store :
  map (fun u => lookup u (run hid [] ex_hist)) [20; 1; 7; 2; 4; 9; 3]
  = [Some KSeed; Some KAsset; Some KAsset; None; None; Some KSeed; None].
Proof. vm_compute. reflexivity. Qed.

Example store_exact_nonvacuous :
  map (fun u => strongest u (flat_map op_work ex_hist)) [20; 1; 7; 2; 4; 9; 3]
  = [Some KSeed; Some KAsset; Some KAsset; None; None; Some KSeed; None].
Proof. vm_compute. reflexivity. Qed.

(* store_monotone: asset 7 recorded by the second operation, still there; URL 1 promoted later *)
Example store_monotone_nonvacuous :
  lookup 1 (run hid [] (firstn 2 ex_hist)) = Some KAsset
  /\ lookup 1 (run hid [] (firstn 2 ex_hist ++ [OCheck (leaf 0 1 Fresh)])) = Some KSeed
  /\ kind_le KAsset KSeed = true.
Proof. vm_compute. repeat split. Qed.

(* seen_after_record, both branches: URL 7 (asset of ex_page) is skipped as an asset of big_tree;
   URL 1 (asset only) checked as a seed is processed and recorded as seed; checked again, skipped *)
Example seen_after_record_nonvacuous :
  In (7, KAsset) (op_work (OPre ex_page))
  /\ nth_error (work_nodes (max_depth (dedupe big_tree)) None (dedupe big_tree)) 0 = Some (leaf 6 7 Fresh, KAsset)
  /\ nth_error (nodes_at 3 (snd (seencheck_item hid (run hid [] (firstn 3 ex_hist)) (dedupe big_tree)))) 0
     = Some (leaf 6 7 Seen)
  /\ In (1, KAsset) (op_work (OPre ex_page))
  /\ seencheck_item hid (run hid [] ex_hist) (leaf 0 1 Fresh)
     = ((1, KSeed) :: run hid [] ex_hist, leaf 0 1 Fresh)
  /\ snd (seencheck_item hid ((1, KSeed) :: run hid [] ex_hist) (leaf 0 1 Fresh)) = leaf 0 1 Seen.
Proof. vm_compute. repeat split; auto. Qed.

(* seen_only_if_reported / _recorded: in the check of big_tree after ex_page exactly the node with
   URL 7 is marked, and 7 is a URL the history checked before *)
Example seen_only_if_reported_nonvacuous :
  map st_of (nodes_at 3 (snd (seencheck_item hid (run hid [] (firstn 3 ex_hist)) (dedupe big_tree))))
  = [Seen; Fresh]
  /\ map url_of (nodes_at 3 (dedupe big_tree)) = [7; 9]
  /\ (forall u v : N, True -> True -> hid u = hid v -> u = v).
Proof. split; [vm_compute; reflexivity|]. split; [vm_compute; reflexivity|]. intros u v _ _ H. exact H. Qed.

(* preprocess on a tree that meets Inv0 and has duplicates; the seen node gets no request *)
Example pre_core_nonvacuous :
  Inv0 big_tree
  /\ nonseed_urls big_tree = [1; 2; 3; 2; 7; 7; 4; 4; 9; 10]
  /\ exists s' t', pre_core (seencheck_item hid) (run hid [] (firstn 3 ex_hist)) big_tree = Some (s', t')
     /\ nonseed_urls t' = [1; 2; 3; 7; 4; 9; 10]
     /\ map st_of (nodes_at 3 t') = [Seen; PreProcessed]
     /\ map url_of (nodes_at 3 t') = [7; 9].
Proof.
  split; [exact big_tree_inv0|]. split; [vm_compute; reflexivity|].
  eexists. eexists. split; [vm_compute; reflexivity|]. vm_compute. repeat split.
Qed.

(* the crawl HQ: of three assets the HQ holds one; that one is skipped, the others are fetched *)
Example hq_nonvacuous :
  hq_sent ex_page = [(1, KAsset); (7, KAsset); (1, KAsset)]
  /\ fst (hq_ref [7] (hq_sent ex_page)) = HROk [1]
  /\ map st_of (nodes_at 1 (snd (hq_step [7] ex_page))) = [Fresh; Seen; Fresh]
  /\ map st_of (nodes_at 1 (snd (hq_step (hq_run [] [ex_page]) ex_page))) = [Seen; Seen; Seen].
Proof. vm_compute. repeat split. Qed.

(* the same pass put to the HQ in batches of 2 and of 1: the duplicate of URL 1 travels in a later
   batch, its batch answers "held", yet both nodes are fetched (the first batch returned it);
   URL 7, held from the start, is skipped; an assets page cut one-over (3 = 2 + 1) and into
   singletons gives what the single request gives *)
Definition ex_page5 : item :=
  Node (Info 0 20 GotChildren false 0 0) [leaf 1 1 Fresh; leaf 2 2 Fresh; leaf 3 3 Fresh; leaf 4 7 Fresh; leaf 5 5 Fresh].
Example hq_batched_nonvacuous :
  chunks 2 (hq_sent ex_page) = [[(1, KAsset); (7, KAsset)]; [(1, KAsset)]]
  /\ fst (hq_ref_parts [7] (chunks 2 (hq_sent ex_page)))
     = [([(1, KAsset); (7, KAsset)], HROk [1]); ([(1, KAsset)], HROk [])]
  /\ map st_of (nodes_at 1 (snd (hq_step_parts (chunks 2) [7] ex_page))) = [Fresh; Seen; Fresh]
  /\ map st_of (nodes_at 1 (snd (hq_step_parts (chunks 1) [7] ex_page))) = [Fresh; Seen; Fresh]
  /\ map (@length _) (chunks 2 (hq_sent ex_page5)) = [2; 2; 1]%nat
  /\ map snd (fst (hq_ref_parts [7] (chunks 2 (hq_sent ex_page5)))) = [HROk [1; 2]; HROk [3]; HROk [5]]
  /\ map st_of (nodes_at 1 (snd (hq_step_parts (chunks 2) [7] ex_page5))) = [Fresh; Fresh; Fresh; Seen; Fresh]
  /\ map st_of (nodes_at 1 (snd (hq_seencheck_ex [([(1, KAsset); (2, KAsset)], HROk [1; 2]); ([(3, KAsset)], HRErr)] ex_page5)))
     = [Fresh; Fresh; Fresh; Fresh; Fresh].
Proof. vm_compute. repeat split. Qed.
