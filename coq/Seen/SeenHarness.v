(* C08 - harness side: replay of a history in the model, comparison with what the implementation
   showed after every step, and the property's monitors evaluated on the observed trees / store
   answers only (the monitors use getters of the tree model but none of the seencheck functions). *)
From ZenoV Require Import Lib.Harness Tree.Item Seen.Seen.
Open Scope N_scope.

(* ---- structural equality ---- *)
Definition info_eqb (a c : info) : bool :=
  (nid a =? nid c) && (nurl a =? nurl c) && status_eqb (nst a) (nst c).
Fixpoint item_eqb (a c : item) : bool :=
  match a, c with
  | Node i cs, Node j ds =>
    info_eqb i j &&
    (fix go (l1 l2 : list item) : bool :=
       match l1, l2 with
       | [], [] => true
       | x :: r1, y :: r2 => item_eqb x y && go r1 r2
       | _, _ => false
       end) cs ds
  end.
Fixpoint listN_eqb (a c : list N) : bool :=
  match a, c with
  | [], [] => true
  | x :: r, y :: s => (x =? y) && listN_eqb r s
  | _, _ => false
  end.
Fixpoint nodupN (l : list N) : bool :=
  match l with
  | [] => true
  | x :: r => negb (existsb (N.eqb x) r) && nodupN r
  end.
Fixpoint assocN {V} (k : N) (l : list (N * V)) : option V :=
  match l with
  | [] => None
  | (k', v) :: r => if k =? k' then Some v else assocN k r
  end.

(* ================================================================================== *)
(* local store: driver "seen"                                                          *)
(* ================================================================================== *)
Inductive sop := SCheck (t : item) | SPre (t : item) | SReopen.

(* after the step: the tree, what the store answers for every canonical string met so far
   (0 absent, 1 "seed", 2 "asset", 3 other), the number of records written by the step, the ids
   of the nodes that carry a request *)
Record sobs := SO { so_tree : item; so_store : list (N * N); so_count : N; so_req : list N }.
(* [sc_off]: the OPERATOR switched the seencheck off (--disable-seencheck); every other combination
   of operator flags leaves it on.  The configuration the code runs with comes from the real
   GenerateCrawlConfig. *)
Record scase := SC { sc_steps : list (sop * sobs); sc_keys : list (N * N); sc_off : bool }.

(* URLs are interned canonical strings; the driver checks that fnv64a is injective on them *)
Definition hid (u : N) : N := u.

Definition code_of (o : option kind) : N :=
  match o with None => 0 | Some KSeed => 1 | Some KAsset => 2 end.
Definition store_matches (s : store) (obs : list (N * N)) : bool :=
  forallb (fun '(k, c) => code_of (lookup k s) =? c) obs.

Definition req_pred (d : nat) (t' : item) : list N :=
  map id_of (filter (fun n => status_eqb (st_of n) PreProcessed) (nodes_at d t')).

Definition no_seencheck (s : store) (t : item) : store * item := (s, t).

Fixpoint replay (off : bool) (s : store) (steps : list (sop * sobs)) : bool :=
  match steps with
  | [] => true
  | (o, ob) :: r =>
    match o with
    | SReopen => store_matches s (so_store ob) && replay off s r
    | SCheck t =>
      let '(s', t') := seencheck_item hid s t in
      item_eqb t' (so_tree ob) && store_matches s' (so_store ob)
      && (N.of_nat (length s' - length s) =? so_count ob)
      && listN_eqb [] (so_req ob) && replay off s' r
    | SPre t =>
      match pre_core (if off then no_seencheck else seencheck_item hid) s t with
      | None => false
      | Some (s', t') =>
        item_eqb t' (so_tree ob) && store_matches s' (so_store ob)
        && (N.of_nat (length s' - length s) =? so_count ob)
        && listN_eqb (req_pred (max_depth t) t') (so_req ob) && replay off s' r
      end
    end
  end.

Definition diff_case (c : scase) : bool := negb (replay (sc_off c) [] (sc_steps c)).
Definition diffs (l : list scase) := bad_idx diff_case l.

(* ---- monitors ---- *)
Definition op_tree (o : sop) : option item :=
  match o with SCheck t | SPre t => Some t | SReopen => None end.

(* type ("seed" / "asset") of the nodes at the working depth, by id, read off the tree the
   operation was given *)
Definition types_of (t : item) : list (N * kind) :=
  map (fun '(n, ty) => (id_of n, ty)) (work_nodes (max_depth t) None t).
Definition status_before (t : item) : list (N * status) :=
  map (fun n => (id_of n, st_of n)) (flatten t).

Definition kind_max (a c : kind) : kind := match a, c with KAsset, KAsset => KAsset | _, _ => KSeed end.
Definition ref_add (u : N) (ty : kind) (ref : list (N * kind)) : list (N * kind) :=
  match assocN u ref with
  | Some k => (u, kind_max k ty) :: ref
  | None => (u, ty) :: ref
  end.
Definition is_seen (n : item) : bool := status_eqb (st_of n) Seen.
(* skipped = marked Seen; inside preprocess a seed that is itself the only node at the working
   depth and was marked Seen is then set to Completed ("no more work to do after seencheck") *)
Definition skipped (pre : bool) (n : item) : bool :=
  is_seen n || (pre && status_eqb (st_of n) Completed).
Definition code_in (u : N) (obs : list (N * N)) : N :=
  match assocN u obs with Some c => c | None => 0 end.

(* the nodes at the working depth of the observed tree after the step, in order, each with its type *)
Definition level_after (t t' : item) : list (item * kind) :=
  map (fun n => (n, match assocN (id_of n) (types_of t) with Some ty => ty | None => KSeed end))
      (nodes_at (max_depth t) t').

(* one step of m0/m1.  [ref]: URL -> strongest type it was checked as so far (a reference set
   built from the observed trees).  Returns (ref', after_record_ok, only_if_reported_ok). *)
Fixpoint mon_level (pre : bool) (t : item) (prev_store now_store : list (N * N)) (seen_here : list N)
         (ref : list (N * kind)) (l : list (item * kind)) : list (N * kind) * bool * bool :=
  match l with
  | [] => (ref, true, true)
  | (n, ty) :: r =>
    let u := url_of n in
    let unchanged := match assocN (id_of n) (status_before t) with Some st => status_eqb st (st_of n) | None => false end in
    let a := match assocN u ref with
             | Some k =>
               if skipped pre n then true
               else (* the one exception: checked as seed / redirect target, recorded only as asset;
                       it is then recorded as seed *)
                 kind_eqb ty KSeed && kind_eqb k KAsset && (code_in u now_store =? 1)
             | None => true
             end in
    let o := if skipped pre n && negb unchanged
             then (match assocN u ref with Some _ => true | None => false end)
                  && (negb (code_in u prev_store =? 0) || existsb (N.eqb u) seen_here)
             else true in
    let '(ref', a', o') := mon_level pre t prev_store now_store (u :: seen_here) (ref_add u ty ref) r in
    (ref', a && a', o && o')
  end.

(* a node that became Seen is a node at the working depth *)
Definition only_level_marked (t t' : item) : bool :=
  let lvl := map id_of (nodes_at (max_depth t) t') in
  forallb (fun n => negb (is_seen n)
                    || match assocN (id_of n) (status_before t) with Some Seen => true | _ => false end
                    || existsb (N.eqb (id_of n)) lvl) (flatten t').

(* the store holds exactly the reference: an entry for the URLs checked so far and no other, each
   with the strongest type it was checked as *)
Definition store_is_ref (ref : list (N * kind)) (obs : list (N * N)) : bool :=
  forallb (fun '(k, c) => c =? code_of (assocN k ref)) obs.

Fixpoint mon_hist (off : bool) (prev_store : list (N * N)) (ref : list (N * kind)) (steps : list (sop * sobs)) : bool * bool * bool :=
  match steps with
  | [] => (true, true, true)
  | (o, ob) :: r =>
    match op_tree o with
    | None => let '(a', oo', e') := mon_hist off (so_store ob) ref r in
              (a', oo', store_is_ref ref (so_store ob) && e')
    | Some t =>
      let pre := match o with SPre _ => true | _ => false end in
      if pre && off then
        (* seencheck switched off by the operator: preprocess asks no store, skips nothing, records nothing *)
        let '(a', oo', e') := mon_hist off (so_store ob) ref r in
        (a', forallb (fun '(n, _) => negb (skipped true n)) (level_after t (so_tree ob)) && oo',
         store_is_ref ref (so_store ob) && e')
      else
      let '(ref', a, oo) := mon_level pre t prev_store (so_store ob) [] ref (level_after t (so_tree ob)) in
      let '(a', oo', e') := mon_hist off (so_store ob) ref' r in
      (a && a', oo && only_level_marked t (so_tree ob) && oo', store_is_ref ref' (so_store ob) && e')
    end
  end.

(* m0 seen_after_record *)
Definition mon_after_record (c : scase) : bool := fst (fst (mon_hist (sc_off c) [] [] (sc_steps c))).
(* m1 seen_only_if_reported *)
Definition mon_only_if_reported (c : scase) : bool := snd (fst (mon_hist (sc_off c) [] [] (sc_steps c))).
(* m6 store_exact *)
Definition mon_store_exact (c : scase) : bool := snd (mon_hist (sc_off c) [] [] (sc_steps c)).

(* m2 no_two_nonseed_same_url: after preprocess no URL is held by two non-seed nodes *)
Definition mon_no_two (c : scase) : bool :=
  forallb (fun '(o, ob) => match o with SPre _ => nodupN (nonseed_urls (so_tree ob)) | _ => true end) (sc_steps c).

(* m3 store_monotone: an entry is never lost or downgraded (also across Close/Start) *)
Fixpoint mon_mono_from (prev : list (N * N)) (steps : list (sop * sobs)) : bool :=
  match steps with
  | [] => true
  | (_, ob) :: r =>
    forallb (fun '(k, c) => (c =? 0) || (let c' := code_in k (so_store ob) in (c' =? c) || ((c =? 2) && (c' =? 1)))) prev
    && forallb (fun '(_, c) => c <=? 2) (so_store ob)
    && mon_mono_from (so_store ob) r
  end.
Definition mon_monotone (c : scase) : bool := mon_mono_from [] (sc_steps c).

(* m4 seen_not_requested: after preprocess the nodes at the working depth are Seen without a
   request or PreProcessed with one; nothing else carries a request *)
Definition mon_requests (c : scase) : bool :=
  forallb (fun '(o, ob) =>
    match o with
    | SPre t =>
      let lvl := nodes_at (max_depth t) (so_tree ob) in
      forallb (fun n => if skipped true n then negb (existsb (N.eqb (id_of n)) (so_req ob))
                        else status_eqb (st_of n) PreProcessed && existsb (N.eqb (id_of n)) (so_req ob)) lvl
      && forallb (fun i => existsb (fun n => id_of n =? i) lvl) (so_req ob)
    | _ => listN_eqb [] (so_req ob)
    end) (sc_steps c).

(* m5 key_deterministic: nodes with the same normalised text have the same canonical string *)
Definition mon_key_det (c : scase) : bool :=
  forallb (fun '(r1, c1) => forallb (fun '(r2, c2) => negb (r1 =? r2) || (c1 =? c2)) (sc_keys c)) (sc_keys c).

Definition mons (l : list scase) :=
  mon_idx [mon_after_record; mon_only_if_reported; mon_no_two; mon_monotone; mon_requests; mon_key_det; mon_store_exact] l.

(* ================================================================================== *)
(* crawl HQ: driver "hqseen"                                                           *)
(* ================================================================================== *)
(* one step: preprocess (true) or hq.SeencheckItem (false) on [h_tree]; [h_exch]: the exchanges the
   fake HQ had during the step, in order - every request it received (text, type) with what it
   answered: one pass may put its request in several batches (--hq-batch-size); [h_asked]: there
   was a request; [h_faithful]: true when the answers were the faithful ones (texts not held
   yet); [h_raws]: node id -> interned URL.Raw *)
Record hstep := HS {
  h_pre : bool; h_tree : item; h_exch : list hq_exchange; h_asked : bool; h_faithful : bool;
  h_out : hq_outcome; h_after : item; h_req : list N; h_raws : list (N * N) }.
Record hcase := HC { hc_seen0 : list N; hc_steps : list hstep; hc_off : bool }.

(* the request of the step: its batches one after the other (the model says nothing about the
   partition); what the step learnt: an error, or the answers of all batches *)
Definition h_sent (h : hstep) : list (N * kind) := concat (map fst (h_exch h)).
Definition h_reply (h : hstep) : hq_reply := if h_asked h then hq_collect (map snd (h_exch h)) else HRErr.

Definition outcome_eqb (a c : hq_outcome) : bool :=
  match a, c with HNoop, HNoop | HPanic, HPanic | HErr, HErr | HDone, HDone => true | _, _ => false end.
Fixpoint kinds_eqb (a c : list kind) : bool :=
  match a, c with
  | [], [] => true
  | x :: r, y :: s => kind_eqb x y && kinds_eqb r s
  | _, _ => false
  end.
(* [c] is a prefix of [a] *)
Fixpoint kinds_prefixb (a c : list kind) : bool :=
  match a, c with
  | _, [] => true
  | x :: r, y :: s => kind_eqb x y && kinds_prefixb r s
  | [], _ :: _ => false
  end.
(* the request the model expects against the batches the HQ received: the same entries when every
   batch was answered; when a batch failed the pass may have stopped there (a prefix) *)
Definition sent_matches (reply : hq_reply) (model obs : list kind) : bool :=
  match reply with HROk _ => kinds_eqb model obs | HRErr => kinds_prefixb model obs end.

(* preprocess sends a request iff the seencheck is on, the working depth is not the seed's and
   de-duplication left something there *)
Definition pre_asks (off : bool) (t : item) : bool :=
  negb off && negb (Nat.eqb (max_depth t) 0)
  && match nodes_at (max_depth t) (dedupe t) with [] => false | _ => true end
  && forallb is_fresh (nodes_at (max_depth t) t).

Definition hstep_ok (off : bool) (h : hstep) : bool :=
  let rep := fun _ : list (N * kind) => h_reply h in
  if h_pre h then
    match pre_core (fun (_ : unit) t => if off then (tt, t) else (tt, snd (hq_seencheck rep t))) tt (h_tree h) with
    | None => false
    | Some (_, t') =>
      item_eqb t' (h_after h) && listN_eqb (req_pred (max_depth (h_tree h)) t') (h_req h)
      && Bool.eqb (h_asked h) (pre_asks off (h_tree h))
      && (if h_asked h then sent_matches (h_reply h) (map snd (hq_sent (dedupe (h_tree h)))) (map snd (h_sent h)) else true)
    end
  else
    let '(out, t') := hq_seencheck rep (h_tree h) in
    outcome_eqb out (h_out h) && item_eqb t' (h_after h) && listN_eqb [] (h_req h)
    && (if h_asked h then sent_matches (h_reply h) (map snd (hq_sent (h_tree h))) (map snd (h_sent h))
        else match out with HNoop | HPanic => true | _ => false end).

Definition hdiff_case (c : hcase) : bool := negb (forallb (hstep_ok (hc_off c)) (hc_steps c)).
Definition hdiffs (l : list hcase) := bad_idx hdiff_case l.

(* ---- monitors, on the observed request / answer / statuses ---- *)
(* the Fresh nodes at the working depth of the tree hq.SeencheckItem was given (for preprocess:
   the nodes that survived de-duplication), in order: the k-th one belongs to the k-th entry of
   the request *)
Definition asked_nodes (h : hstep) : list item :=
  let d := max_depth (h_tree h) in
  filter (fun n => match assocN (id_of n) (status_before (h_tree h)) with Some Fresh => true | _ => false end)
         (nodes_at d (h_after h)).

Fixpoint zip {A B} (a : list A) (b : list B) : list (A * B) :=
  match a, b with x :: r, y :: s => (x, y) :: zip r s | _, _ => [] end.

Definition answer_of (h : hstep) : option (list N) :=
  match h_reply h with HROk a => Some a | HRErr => None end.

(* every entry of the request with the reply to the batch it travelled in *)
Definition sent_with_reply (h : hstep) : list ((N * kind) * hq_reply) :=
  flat_map (fun '(b, r) => map (fun e => (e, r)) b) (h_exch h).

(* hm0 seen_only_if_reported, per asset and per batch: a node marked seen was asked about (every
   Fresh node is in exactly one batch, in order) and the HQ's reply to the batch that carried its
   text is an answer that does not return the text *)
Definition hmon_only_if (c : hcase) : bool :=
  forallb (fun h =>
    if h_asked h then
      (* every batch answered: every Fresh node was asked about; a batch failed (the pass may stop
         there): the nodes that were not asked about any more are not marked *)
      (match h_reply h with
       | HROk _ => Nat.eqb (length (asked_nodes h)) (length (h_sent h))
       | HRErr => Nat.leb (length (h_sent h)) (length (asked_nodes h))
                  && forallb (fun n => negb (is_seen n)) (skipn (length (h_sent h)) (asked_nodes h))
       end) &&
      forallb (fun '(n, ((txt, _), r)) =>
        negb (is_seen n) || match r with HROk a => negb (mem txt a) | HRErr => false end)
        (zip (asked_nodes h) (sent_with_reply h))
    else forallb (fun n => negb (is_seen n)) (asked_nodes h)) (hc_steps c).

(* hm1 seen_if_reported: every batch answered - a node whose text no batch's answer returned is skipped *)
Definition hmon_if (c : hcase) : bool :=
  forallb (fun h =>
    match h_asked h, answer_of h with
    | true, Some a => forallb (fun '(n, (txt, _)) => mem txt a || is_seen n) (zip (asked_nodes h) (h_sent h))
    | _, _ => true
    end) (hc_steps c).

(* hm2 like_with_like: the text sent for a node is the text its answer is compared with (canonical) *)
Definition hmon_like (c : hcase) : bool :=
  forallb (fun h =>
    negb (h_asked h) || forallb (fun '(n, (txt, _)) => txt =? url_of n) (zip (asked_nodes h) (h_sent h))) (hc_steps c).

(* hm3 seen_after_record: with a faithful HQ, a node whose canonical URL was handed to the HQ by an
   earlier request (or is in its initial set) is skipped *)
Fixpoint hmon_hist (off : bool) (rec : list N) (steps : list hstep) : bool :=
  match steps with
  | [] => true
  | h :: r =>
    (* the nodes the HQ has to be asked about: those it was asked about, and - seencheck on - the
       Fresh non-seed nodes preprocess holds at the working depth *)
    let due := h_asked h || (h_pre h && negb off && negb (Nat.eqb (max_depth (h_tree h)) 0)) in
    let asked := if due then asked_nodes h else [] in
    let ok := if h_faithful h then forallb (fun n => negb (mem (url_of n) rec) || is_seen n) asked else true in
    (* handed over: by a request the HQ answered - or due to be handed over to a faithful HQ *)
    let rec' := match h_asked h, answer_of h with
                | true, Some _ => map url_of asked ++ rec
                | false, _ => if due && h_faithful h then map url_of asked ++ rec else rec
                | _, _ => rec
                end in
    ok && hmon_hist off rec' r
  end.
Definition hmon_after_record (c : hcase) : bool := hmon_hist (hc_off c) (hc_seen0 c) (hc_steps c).

(* hm4 seen_not_requested, hm5 no_two_nonseed_same_url: as for the local store *)
Definition hmon_requests (c : hcase) : bool :=
  forallb (fun h =>
    if h_pre h then
      let lvl := nodes_at (max_depth (h_tree h)) (h_after h) in
      forallb (fun n => if skipped true n then negb (existsb (N.eqb (id_of n)) (h_req h))
                        else status_eqb (st_of n) PreProcessed && existsb (N.eqb (id_of n)) (h_req h)) lvl
      && forallb (fun i => existsb (fun n => id_of n =? i) lvl) (h_req h)
    else listN_eqb [] (h_req h)) (hc_steps c).
Definition hmon_no_two (c : hcase) : bool :=
  forallb (fun h => negb (h_pre h) || nodupN (nonseed_urls (h_after h))) (hc_steps c).

Definition hmons (l : list hcase) :=
  mon_idx [hmon_only_if; hmon_if; hmon_like; hmon_after_record; hmon_requests; hmon_no_two] l.

(* ================================================================================== *)
(* truly parallel checks: driver "seenconc"                                            *)
(* ================================================================================== *)
(* Phase A: sequential operations (the store is observed after each).  Phase B: the operations run
   IN PARALLEL, one goroutine each, all started after phase A has returned; the store and the
   counter are observed once they have all returned.  Phase C: sequential again.  No URL that is
   WRITTEN by a phase-B operation occurs in another phase-B operation, so the outcome does not
   depend on the interleaving: the model runs phase B in list order. *)
Record cstep := CS { cs_pre : bool; cs_tree : item; cs_after : item; cs_req : list N }.
Record ccase := CC {
  cc_a : list (cstep * list (N * N));
  cc_b : list cstep; cc_store_b : list (N * N); cc_count_b : N;
  cc_c : list (cstep * list (N * N)) }.

Definition cstep_model (s : store) (c : cstep) : option store :=
  if cs_pre c then
    match pre_core (seencheck_item hid) s (cs_tree c) with
    | None => None
    | Some (s', t') =>
      if item_eqb t' (cs_after c) && listN_eqb (req_pred (max_depth (cs_tree c)) t') (cs_req c)
      then Some s' else None
    end
  else
    let '(s', t') := seencheck_item hid s (cs_tree c) in
    if item_eqb t' (cs_after c) && listN_eqb [] (cs_req c) then Some s' else None.

Fixpoint cseq (s : store) (l : list (cstep * list (N * N))) : option store :=
  match l with
  | [] => Some s
  | (c, obs) :: r =>
    match cstep_model s c with
    | Some s' => if store_matches s' obs then cseq s' r else None
    | None => None
    end
  end.
Fixpoint cpar (s : store) (l : list cstep) : option store :=
  match l with
  | [] => Some s
  | c :: r => match cstep_model s c with Some s' => cpar s' r | None => None end
  end.

Definition cdiff_case (c : ccase) : bool :=
  match cseq [] (cc_a c) with
  | None => true
  | Some sa =>
    match cpar sa (cc_b c) with
    | None => true
    | Some sb =>
      negb (store_matches sb (cc_store_b c) && (N.of_nat (length sb - length sa) =? cc_count_b c))
      || match cseq sb (cc_c c) with None => true | Some _ => false end
    end
  end.
Definition cdiffs (l : list ccase) := bad_idx cdiff_case l.

(* monitors: the reference set (URL -> strongest type checked so far) is threaded through the
   phases; for a phase-B operation "the store before" is the store after phase A (what had been
   recorded, completely, before the operation started) and "the store after" is the store after
   phase B *)
Definition cmon_step (prev now : list (N * N)) (ref : list (N * kind)) (c : cstep) : list (N * kind) * bool * bool :=
  let '(ref', a, o) := mon_level (cs_pre c) (cs_tree c) prev now [] ref (level_after (cs_tree c) (cs_after c)) in
  (ref', a, o && only_level_marked (cs_tree c) (cs_after c)).

Fixpoint cmon_seq (prev : list (N * N)) (ref : list (N * kind)) (l : list (cstep * list (N * N)))
  : list (N * kind) * list (N * N) * (bool * bool * bool) :=
  match l with
  | [] => (ref, prev, (true, true, true))
  | (c, obs) :: r =>
    let '(ref', a, o) := cmon_step prev obs ref c in
    let '(ref'', last, (a', o', e')) := cmon_seq obs ref' r in
    (ref'', last, (a && a', o && o', store_is_ref ref' obs && e'))
  end.
Fixpoint cmon_par (prev now : list (N * N)) (ref : list (N * kind)) (l : list cstep) : list (N * kind) * (bool * bool) :=
  match l with
  | [] => (ref, (true, true))
  | c :: r =>
    let '(ref', a, o) := cmon_step prev now ref c in
    let '(ref'', (a', o')) := cmon_par prev now ref' r in
    (ref'', (a && a', o && o'))
  end.

Definition cmon_all (c : ccase) : bool * bool * bool :=
  let '(refa, sa, (a1, o1, e1)) := cmon_seq [] [] (cc_a c) in
  let '(refb, (a2, o2)) := cmon_par sa (cc_store_b c) refa (cc_b c) in
  let e2 := store_is_ref refb (cc_store_b c) in
  let '(_, _, (a3, o3, e3)) := cmon_seq (cc_store_b c) refb (cc_c c) in
  (a1 && a2 && a3, o1 && o2 && o3, e1 && e2 && e3).

(* cm0 seen_after_record, cm1 seen_only_if_reported, cm2 store_exact (after the parallel phase the
   store is the union), cm3 requests *)
Definition cmon_after_record (c : ccase) : bool := fst (fst (cmon_all c)).
Definition cmon_only_if_reported (c : ccase) : bool := snd (fst (cmon_all c)).
Definition cmon_store_exact (c : ccase) : bool := snd (cmon_all c).
Definition cmon_requests (c : ccase) : bool :=
  forallb (fun s =>
    if cs_pre s then
      let lvl := nodes_at (max_depth (cs_tree s)) (cs_after s) in
      forallb (fun n => if skipped true n then negb (existsb (N.eqb (id_of n)) (cs_req s))
                        else status_eqb (st_of n) PreProcessed && existsb (N.eqb (id_of n)) (cs_req s)) lvl
    else listN_eqb [] (cs_req s)) (map fst (cc_a c) ++ cc_b c ++ map fst (cc_c c)).

Definition cmons (l : list ccase) :=
  mon_idx [cmon_after_record; cmon_only_if_reported; cmon_store_exact; cmon_requests] l.
