//go:build verif

package main

import (
	"bytes"
	"fmt"
	"os"
	"os/exec"
	"path/filepath"
	"runtime"
	"sort"
	"strconv"
	"strings"
	"sync"
	"sync/atomic"
	"time"

	"github.com/internetarchive/Zeno/internal/pkg/archiver"
	"github.com/internetarchive/Zeno/internal/pkg/config"
	"github.com/internetarchive/Zeno/internal/pkg/controler/pause"
	"github.com/internetarchive/Zeno/internal/pkg/finisher"
	"github.com/internetarchive/Zeno/internal/pkg/postprocessor"
	"github.com/internetarchive/Zeno/internal/pkg/preprocessor"
	"github.com/internetarchive/Zeno/internal/pkg/stats"
	"github.com/internetarchive/Zeno/internal/pkg/verifhook"
	"github.com/internetarchive/Zeno/pkg/models"
)

// C14 driver `pausestart`: "pause stops ALL workers of EVERY stage".
//
// The stages are started the way the crawler starts them - through their EXPORTED
// Start(inputChan, outputChan) / Stop() with config.WorkersCount = w - every stage on channels of
// its own; nothing here depends on an unexported identifier of a stage package (the only shim used
// is the pause package's subscriber count).  One controller issues the ops one after the other:
//
// Input:  "w=<workers per stage> st=<stages> cap=<input channel capacity> ops=<op>;<op>;..."
//   stages: subset of  p=preprocessor a=archiver o=postprocessor f=finisher
//   op:     P  pause.Pause()      R  pause.Resume()
//           F<k>  k fresh seeds are offered on the input channel of every started stage (k feeder
//                 goroutines per stage, each blocked in its send until a worker takes the item)
//           S  Stop() of every started stage, in the order of controler.Stop()  (at most once)
// A fresh seed passes every stage without network: the preprocessor really preprocesses it, the
// archiver and the postprocessor skip it (wrong status for them), the finisher hands it to the
// "produced" channel.  After every op the driver waits for the call to return (safety deadline
// only) and then for QUIESCENCE, decided on a consistent runtime.Stack(all) dump: every stage
// worker parked in its main select or in the acknowledging send, every feeder / collector / pause
// goroutine parked - no sleeps, no timing assumption.  Then it records pause.IsPaused(), the
// number of subscribers, and per stage: worker goroutines in the main select / acknowledging /
// elsewhere, items taken so far (hook point "<stage>.in"), items that came out so far.
//
// One case = one child process (the stages are process singletons).

const c14sDeadline = 60 * time.Second // safety net only: expires only when the crawler is stuck

type c14sStage struct {
	kind    byte
	pkg     string // path fragment that names the stage package in a stack dump
	point   string // hook point passed by a worker right after it took an item
	in      chan *models.Item
	outs    []chan *models.Item
	taken   atomic.Int64
	out     atomic.Int64
	fedSeq  int
	stopFn  func()
	startFn func() error
}

type c14sOp struct {
	kind byte
	k    int
}

func c14sParse(in string) (w int, st string, capa int, ops []c14sOp, ok bool) {
	kv := map[string]string{}
	for _, f := range strings.Fields(in) {
		if k, v, o := strings.Cut(f, "="); o {
			kv[k] = v
		}
	}
	w, _ = strconv.Atoi(kv["w"])
	st = kv["st"]
	capa, err := strconv.Atoi(kv["cap"])
	if w < 1 || w > 8 || st == "" || err != nil || capa < 0 || capa > 16 {
		return 0, "", 0, nil, false
	}
	last := -1
	for i := 0; i < len(st); i++ { // a subset of paof in that order
		p := strings.IndexByte("paof", st[i])
		if p <= last {
			return 0, "", 0, nil, false
		}
		last = p
	}
	stops := 0
	if kv["ops"] != "" {
		for _, s := range strings.Split(kv["ops"], ";") {
			if s == "" {
				return 0, "", 0, nil, false
			}
			op := c14sOp{kind: s[0]}
			switch op.kind {
			case 'P', 'R', 'S':
				if len(s) != 1 {
					return 0, "", 0, nil, false
				}
				if op.kind == 'S' {
					stops++
				}
			case 'F':
				k, err := strconv.Atoi(s[1:])
				if err != nil || k < 0 || k > 12 {
					return 0, "", 0, nil, false
				}
				op.k = k
			default:
				return 0, "", 0, nil, false
			}
			ops = append(ops, op)
		}
	}
	if stops > 1 || len(ops) > 24 {
		return 0, "", 0, nil, false
	}
	return w, st, capa, ops, true
}

func c14sRender(w int, st string, capa int, ops []c14sOp) string {
	var os_ []string
	for _, o := range ops {
		if o.kind == 'F' {
			os_ = append(os_, fmt.Sprintf("F%d", o.k))
		} else {
			os_ = append(os_, string(o.kind))
		}
	}
	return fmt.Sprintf("w=%d st=%s cap=%d ops=%s", w, st, capa, strings.Join(os_, ";"))
}

func c14sCoqOp(o c14sOp) string {
	switch o.kind {
	case 'P':
		return "SPause"
	case 'R':
		return "SResume"
	case 'F':
		return fmt.Sprintf("(SFeed %d)", o.k)
	}
	return "SStop"
}

// ---- goroutine dump (same rules as the protocol drivers in harness/zpause) ----

type c14sG struct {
	state   string
	blocked bool
	text    string
}

var c14sStackBuf = make([]byte, 4<<20)

// parked in an operation of the experiment itself; "semacquire" that waits for the runtime (e.g.
// mallocgc -> gcStart while this very dump holds the world) is NOT parked
func c14sParked(state, text string) bool {
	switch state {
	case "chan send", "chan receive", "select", "sync.Mutex.Lock", "sync.WaitGroup.Wait":
		return true
	case "semacquire":
		return strings.Contains(text, "sync.(*WaitGroup).Wait") || strings.Contains(text, "sync.(*Mutex).Lock")
	}
	return false
}

func c14sSnapshot() []c14sG {
	for {
		n := runtime.Stack(c14sStackBuf, true)
		if n < len(c14sStackBuf) {
			self := true
			var out []c14sG
			for _, blk := range bytes.Split(c14sStackBuf[:n], []byte("\n\n")) {
				s := string(blk)
				if !strings.HasPrefix(s, "goroutine ") {
					continue
				}
				if self {
					self = false
					continue
				}
				hdrEnd := strings.IndexByte(s, '\n')
				if hdrEnd < 0 {
					hdrEnd = len(s)
				}
				hdr := s[:hdrEnd]
				g := c14sG{text: s}
				if i, j := strings.IndexByte(hdr, '['), strings.LastIndexByte(hdr, ']'); i >= 0 && j > i {
					st := hdr[i+1 : j]
					if k := strings.IndexByte(st, ','); k >= 0 {
						st = st[:k]
					}
					g.state = st
				}
				g.blocked = c14sParked(g.state, s)
				out = append(out, g)
			}
			return out
		}
		c14sStackBuf = make([]byte, 2*len(c14sStackBuf))
	}
}

// the goroutine is a worker of the stage package pkg: a frame of a function named worker of that package
func c14sIsWorker(g c14sG, pkg string) bool {
	for _, l := range strings.Split(g.text, "\n") {
		if strings.Contains(l, ".worker(") && strings.Contains(l, "/internal/pkg/"+pkg+".") {
			return true
		}
	}
	return false
}

var c14sSrcCache sync.Map

// c14sWhere: where a worker goroutine is parked, read from its own stack and the source line:
// 0 main select (the one with the PauseCh arm), 1 acknowledging send on ResumeCh (bare or first arm
// of a select), 4 the select that passes an item on, 3 anywhere else
func c14sWhere(g c14sG) int {
	lines := strings.Split(g.text, "\n")
	for i, l := range lines {
		if strings.Contains(l, ".worker(") && i+1 < len(lines) {
			loc := strings.TrimSpace(lines[i+1])
			if k := strings.IndexByte(loc, ' '); k >= 0 {
				loc = loc[:k]
			}
			if v, ok := c14sSrcCache.Load(loc); ok {
				return v.(int)
			}
			res := 3
			if k := strings.LastIndexByte(loc, ':'); k > 0 {
				ln, _ := strconv.Atoi(loc[k+1:])
				if data, err := os.ReadFile(loc[:k]); err == nil {
					src := strings.Split(string(data), "\n")
					if ln >= 1 && ln <= len(src) {
						here := src[ln-1]
						next := ""
						if ln < len(src) {
							next = src[ln]
						}
						mainSel, outSel := false, false
						for k := ln; k < ln+6 && k < len(src); k++ {
							if strings.Contains(strings.ToLower(src[k]), "pausech") {
								mainSel = true
							}
							if strings.Contains(src[k], "outputCh <- seed") {
								outSel = true
							}
						}
						switch {
						case strings.Contains(here, "ResumeCh"):
							res = 1
						case strings.Contains(here, "select") && strings.Contains(next, "ResumeCh"):
							res = 1
						case strings.Contains(here, "select") && mainSel:
							res = 0
						case strings.Contains(here, "select") && outSel:
							res = 4
						}
					}
				}
			}
			c14sSrcCache.Store(loc, res)
			return res
		}
	}
	return 3
}

type c14sRun struct {
	stages   []*c14sStage
	abort    chan struct{}
	timedOut bool
	panicked atomic.Bool
}

func (r *c14sRun) marked(g c14sG) (isWorker bool, marked bool) {
	for _, s := range r.stages {
		if c14sIsWorker(g, s.pkg) {
			return true, true
		}
		// a goroutine spawned by the stage's Start that has not run yet shows only the `go` statement's
		// wrapper, not the worker frame: it is a worker about to start (not parked, so not quiescent);
		// other goroutines a Start may spawn are of no interest once they are parked
		if !g.blocked && strings.Contains(g.text, "created by github.com/internetarchive/Zeno/internal/pkg/"+s.pkg+".Start") {
			return false, true
		}
	}
	return false, strings.Contains(g.text, "controler/pause.") || strings.Contains(g.text, "main.c14s")
}

// quiet: in this (consistent) dump no goroutine of the experiment can move
func (r *c14sRun) quiet(gs []c14sG) bool {
	for _, g := range gs {
		isW, m := r.marked(g)
		if !m {
			continue
		}
		if !g.blocked {
			return false
		}
		if isW {
			if p := c14sWhere(g); p != 0 && p != 1 {
				return false
			}
		}
	}
	return true
}

// quiesce: no goroutine of the experiment can move any more
func (r *c14sRun) quiesce() []c14sG {
	deadline := time.Now().Add(c14sDeadline)
	for {
		gs := c14sSnapshot()
		if r.quiet(gs) {
			return gs
		}
		if time.Now().After(deadline) {
			r.timedOut = true
			return gs
		}
		runtime.Gosched()
		time.Sleep(100 * time.Microsecond)
	}
}

func c14sCollect(s *c14sStage, ch chan *models.Item, abort <-chan struct{}) {
	for {
		select {
		case <-ch:
			s.out.Add(1)
		case <-abort:
			return
		}
	}
}

func c14sFeed(s *c14sStage, it *models.Item, abort <-chan struct{}) {
	select {
	case s.in <- it:
	case <-abort:
	}
}

func c14sCaller(r *c14sRun, f func(), done chan struct{}) {
	defer func() {
		if e := recover(); e != nil {
			r.panicked.Store(true)
			if os.Getenv("C14S_DEBUG") != "" {
				fmt.Fprintf(os.Stderr, "c14s: a call panicked: %v\n", e)
			}
		}
		close(done)
	}()
	f()
}

// c14sCall runs one call of the crawler's API in a goroutine of its own; false = it did not return
// (safety deadline: Start and Stop talk to goroutines this driver does not follow)
func (r *c14sRun) c14sCall(f func()) bool {
	done := make(chan struct{})
	go c14sCaller(r, f, done)
	select {
	case <-done:
		return true
	case <-time.After(c14sDeadline):
		return false
	}
}

// c14sInPause: the calling goroutine is parked in an operation of the pause package itself (the
// first frame that is not the runtime's or sync's belongs to it)
func c14sInPause(gs []c14sG) bool {
	for _, g := range gs {
		if !strings.Contains(g.text, "main.c14sCaller") {
			continue
		}
		for _, l := range strings.Split(g.text, "\n")[1:] {
			if strings.HasPrefix(l, "\t") || strings.HasPrefix(l, "runtime.") || strings.HasPrefix(l, "sync.") || strings.HasPrefix(l, "internal/") {
				continue
			}
			return strings.Contains(l, "/internal/pkg/controler/pause.")
		}
	}
	return false
}

// c14sCallPause: a Pause / Resume call.  These only talk to the subscribers, so a call that will
// never return is recognised at once and without a watchdog: a consistent dump in which the
// caller is parked inside the pause package and every other goroutine of the experiment is parked
// too (workers in their main select or in the acknowledgement).
func (r *c14sRun) c14sCallPause(f func()) bool {
	done := make(chan struct{})
	go c14sCaller(r, f, done)
	deadline := time.Now().Add(c14sDeadline)
	poll := 200 * time.Microsecond
	for {
		select {
		case <-done:
			return true
		case <-time.After(poll):
		}
		if gs := c14sSnapshot(); r.quiet(gs) && c14sInPause(gs) {
			select {
			case <-done: // (the dump was taken first)
				return true
			default:
				return false
			}
		}
		if time.Now().After(deadline) {
			return false
		}
		if poll < 20*time.Millisecond {
			poll *= 2
		}
	}
}

func c14sItem(kind byte, n int) *models.Item {
	u := &models.URL{Raw: fmt.Sprintf("http://example.com/c14s-%c-%d", kind, n)}
	_ = u.Parse()
	it := models.NewItem(fmt.Sprintf("c14s-%c-%d", kind, n), u, "")
	it.SetSource(models.ItemSourceQueue)
	return it
}

func c14sMust(err error) {
	if err != nil {
		fmt.Fprintln(os.Stderr, "c14s setup:", err)
		os.Exit(4)
	}
}

// c14sExecLocal runs one case in THIS process (the child).
func c14sExecLocal(in string) Result {
	w, st, capa, ops, ok := c14sParse(in)
	if !ok {
		return Result{Term: "SC 0 0 []", Tags: []string{"malformed"}}
	}
	// ---- configuration: what the CLI would fill, no logging, everything below the working directory
	c14sMust(config.InitConfig())
	c := config.Get()
	c.Job = "c14s"
	c.WorkersCount = w
	c.MaxConcurrentAssets = 1
	c.DisableSeencheck = true
	c.InputSeeds = nil
	c.WARCPoolSize = 1
	c.WARCQueueSize = -1
	c.DisableLocalDedupe = true
	c.WARCDedupeSize = 1024
	c.WARCPrefix = "ZENO"
	c.WARCSize = 1024
	c.DisableRateLimit = true
	c.NoStdoutLogging, c.NoStderrLogging, c.NoFileLogging = true, true, true
	c.UserAgent = "zv-c14s"
	c14sMust(config.GenerateCrawlConfig())
	c14sMust(os.MkdirAll(c.JobPath, 0o755))
	stats.Init() // pause.Pause() updates a gauge; the finisher alone does not initialise the stats (startPipeline's earlier stages do)

	r := &c14sRun{abort: make(chan struct{})}
	byPoint := map[string]*c14sStage{}
	for i := 0; i < len(st); i++ {
		s := &c14sStage{kind: st[i], in: make(chan *models.Item, capa)}
		o1 := make(chan *models.Item)
		s.outs = []chan *models.Item{o1}
		switch st[i] {
		case 'p':
			s.pkg, s.point = "preprocessor", "pre.in"
			s.startFn, s.stopFn = func() error { return preprocessor.Start(s.in, o1) }, preprocessor.Stop
		case 'a':
			s.pkg, s.point = "archiver", "arch.in"
			s.startFn, s.stopFn = func() error { return archiver.Start(s.in, o1) }, archiver.Stop
		case 'o':
			s.pkg, s.point = "postprocessor", "post.in"
			s.startFn, s.stopFn = func() error { return postprocessor.Start(s.in, o1) }, postprocessor.Stop
		default:
			o2 := make(chan *models.Item)
			s.outs = append(s.outs, o2)
			s.pkg, s.point = "finisher", "fin.in"
			s.startFn, s.stopFn = func() error { return finisher.Start(s.in, o2, o1) }, finisher.Stop
		}
		byPoint[s.point] = s
		r.stages = append(r.stages, s)
	}
	verifhook.SetHandler(func(point string, _ any) {
		if s := byPoint[point]; s != nil {
			s.taken.Add(1)
		}
	})
	for _, s := range r.stages {
		for _, ch := range s.outs {
			go c14sCollect(s, ch, r.abort)
		}
	}
	startOK := true
	for _, s := range r.stages {
		s := s
		if !r.c14sCall(func() {
			if err := s.startFn(); err != nil {
				r.panicked.Store(true)
				if os.Getenv("C14S_DEBUG") != "" {
					fmt.Fprintf(os.Stderr, "c14s: Start of stage %c: %v\n", s.kind, err)
				}
			}
		}) {
			startOK = false
		}
	}
	r.quiesce() // every worker has subscribed and is in its main select

	observe := func(callOK bool) string {
		gs := r.quiesce()
		var sts []string
		for _, s := range r.stages {
			nm, na, no := 0, 0, 0
			for _, g := range gs {
				if c14sIsWorker(g, s.pkg) {
					switch c14sWhere(g) {
					case 0:
						nm++
					case 1:
						na++
					default:
						no++
					}
				}
			}
			sts = append(sts, fmt.Sprintf("SS %d %d %d %d %d", nm, na, no, s.taken.Load(), s.out.Load()))
		}
		good := callOK && startOK && !r.timedOut && !r.panicked.Load()
		return fmt.Sprintf("(SOb %s %s %d %s)", coqBool(good), coqBool(pause.IsPaused()), pause.VerifC14Subscribers(), coqList(sts))
	}

	var terms []string
	paused, stopped, fedPaused, stopPaused, nontrivial, stuck := false, false, false, false, false, !startOK
	for _, op := range ops {
		callOK := true
		switch op.kind {
		case 'P':
			callOK = r.c14sCallPause(func() { pause.Pause("c14s") })
			paused = true
		case 'R':
			callOK = r.c14sCallPause(pause.Resume)
			paused = false
		case 'F':
			for _, s := range r.stages {
				for j := 0; j < op.k; j++ {
					s.fedSeq++
					go c14sFeed(s, c14sItem(s.kind, s.fedSeq), r.abort)
				}
			}
			if paused && !stopped && op.k > 0 {
				fedPaused = true
				if w >= 2 {
					nontrivial = true
				}
			}
		case 'S':
			for _, s := range r.stages {
				if !r.c14sCall(s.stopFn) {
					callOK = false
				}
			}
			if paused {
				stopPaused = true
			}
			stopped = true
		}
		terms = append(terms, fmt.Sprintf("(%s, %s)", c14sCoqOp(op), observe(callOK)))
		if !callOK || r.timedOut {
			stuck = true
			break // the process is stuck: later ops would only wait for the deadline again
		}
	}

	tags := []string{fmt.Sprintf("workers:%d", w), "stages:" + st, fmt.Sprintf("cap:%d", capa), fmt.Sprintf("ops:%d", len(ops))}
	if fedPaused {
		tags = append(tags, "work-offered-while-paused")
	}
	if stopPaused {
		tags = append(tags, "stop-while-paused")
	}
	if r.timedOut || stuck {
		tags = append(tags, "stuck")
	}
	return Result{Term: fmt.Sprintf("SC %d %d %s", w, len(st), coqList(terms)), Tags: tags, Nontrivial: nontrivial}
}

func c14sChildMain(args []string) {
	if len(args) != 2 {
		os.Exit(2)
	}
	res := c14sExecLocal(args[0])
	nt := "0"
	if res.Nontrivial {
		nt = "1"
	}
	tmp := args[1] + ".tmp"
	if os.WriteFile(tmp, []byte(res.Term+"\x1f"+strings.Join(res.Tags, ",")+"\x1f"+nt), 0o644) != nil || os.Rename(tmp, args[1]) != nil {
		os.Exit(5)
	}
	os.Exit(0) // the stages may still run: the process ends here
}

// cases that ended with the crawler stuck (each costs a deadline): after a few of them - they are
// all reported - the remaining inputs of this run are not executed any more
var c14sStuckCases atomic.Int64

// execPauseStart: one case = one child process with a scratch working directory of its own
func execPauseStart(in string) Result {
	w, st, _, _, ok := c14sParse(in)
	if !ok {
		return Result{Term: "SC 0 0 []", Tags: []string{"malformed"}}
	}
	if c14sStuckCases.Load() >= 3 {
		return Result{Term: "SC 0 0 []", Tags: []string{"not-run-after-3-stuck-cases"}}
	}
	crashed := func(why string) Result {
		// only "the calls return / nothing panics" is reported false
		var sts []string
		for range st {
			sts = append(sts, fmt.Sprintf("SS %d 0 0 0 0", w))
		}
		return Result{Term: fmt.Sprintf("SC %d %d [(SFeed 0, (SOb false false %d %s))]", w, len(st), w*len(st), coqList(sts)),
			Tags: []string{why}}
	}
	exe, err := os.Executable()
	if err != nil {
		return crashed("no-child")
	}
	dir, err := os.MkdirTemp("", "zv-c14s-")
	if err != nil {
		return crashed("no-child")
	}
	defer os.RemoveAll(dir)
	resPath := filepath.Join(dir, "result")
	cmd := exec.Command(exe, "c14startchild", in, resPath)
	cmd.Dir = dir
	cmd.Env = append(os.Environ(), "HOME="+dir)
	var errBuf bytes.Buffer
	cmd.Stderr = &errBuf
	if cmd.Start() != nil {
		return crashed("no-child")
	}
	done := make(chan error, 1)
	go func() { done <- cmd.Wait() }()
	select {
	case <-done:
	case <-time.After(8 * c14sDeadline):
		cmd.Process.Kill()
		<-done
	}
	data, err := os.ReadFile(resPath)
	f := strings.Split(string(data), "\x1f")
	if err != nil || len(f) != 3 {
		tail := errBuf.String()
		if len(tail) > 1500 {
			tail = tail[len(tail)-1500:]
		}
		fmt.Fprintf(os.Stderr, "pausestart: the child died on input %q:\n%s\n", in, tail)
		c14sStuckCases.Add(1)
		return crashed("child-crashed")
	}
	var tags []string
	if f[1] != "" {
		tags = strings.Split(f[1], ",")
	}
	for _, t := range tags {
		if t == "stuck" {
			c14sStuckCases.Add(1)
		}
	}
	return Result{Term: f[0], Tags: tags, Nontrivial: f[2] == "1"}
}

// ---- generator ----

func c14sStagesGen(r *Rng, i int) string {
	if i%4 == 0 {
		return "paof"
	}
	for {
		var b []byte
		for _, ch := range []byte("paof") {
			if r.Chance(55) {
				b = append(b, ch)
			}
		}
		if len(b) > 0 {
			return string(b)
		}
	}
}

// every case offers work while paused at least once: ... P ; F(w+2) ... R ...; around it random ops
func genPauseStart(r *Rng, i int, tier string) string {
	w := 2 + r.Intn(3)
	if r.Chance(8) {
		w = 1
	}
	st := c14sStagesGen(r, i)
	capa := []int{0, 0, w, w + 2}[r.Intn(4)]
	randOp := func() c14sOp {
		switch x := r.Intn(10); {
		case x < 3:
			return c14sOp{kind: 'P'}
		case x < 6:
			return c14sOp{kind: 'R'}
		}
		return c14sOp{kind: 'F', k: r.Intn(w + 3)}
	}
	var ops []c14sOp
	for k := r.Intn(3); k > 0; k-- {
		ops = append(ops, randOp())
	}
	ops = append(ops, c14sOp{kind: 'P'}, c14sOp{kind: 'F', k: w + 2})
	for k := r.Intn(3); k > 0; k-- {
		if r.Bool() {
			ops = append(ops, c14sOp{kind: 'P'})
		} else {
			ops = append(ops, c14sOp{kind: 'F', k: 1 + r.Intn(3)})
		}
	}
	stopAt := -1
	switch x := r.Intn(10); {
	case x < 2: // shutdown while paused, work still on offer
		stopAt = len(ops)
	case x < 6: // resume first, stop at the end
		stopAt = -2
	}
	if stopAt >= 0 {
		ops = append(ops, c14sOp{kind: 'S'})
	}
	ops = append(ops, c14sOp{kind: 'R'})
	for k := r.Intn(4); k > 0; k-- {
		ops = append(ops, randOp())
	}
	if stopAt == -2 {
		ops = append(ops, c14sOp{kind: 'S'})
		if r.Chance(30) {
			ops = append(ops, randOp())
		}
	}
	return c14sRender(w, st, capa, ops)
}

func shrinkPauseStart(in string) []string {
	w, st, capa, ops, ok := c14sParse(in)
	if !ok {
		return nil
	}
	var out []string
	for i := range ops {
		out = append(out, c14sRender(w, st, capa, append(append([]c14sOp{}, ops[:i]...), ops[i+1:]...)))
	}
	for i := 0; i < len(st) && len(st) > 1; i++ {
		out = append(out, c14sRender(w, st[:i]+st[i+1:], capa, ops))
	}
	if w > 1 {
		out = append(out, c14sRender(w-1, st, capa, ops))
	}
	if capa > 0 {
		out = append(out, c14sRender(w, st, 0, ops))
	}
	for i, o := range ops {
		if o.kind == 'F' && o.k > 1 {
			n := append([]c14sOp{}, ops...)
			n[i].k = o.k - 1
			if o.k > 9 { // keep candidates shorter than the input
				n[i].k = 9
			}
			out = append(out, c14sRender(w, st, capa, n))
		}
	}
	sort.SliceStable(out, func(a, b int) bool { return len(out[a]) < len(out[b]) })
	return out
}

func init() {
	subcommands["c14startchild"] = c14sChildMain
	register(&Driver{
		Name:           "pausestart",
		CaseTimeoutSec: 900,
		Parallel:       4,
		Header:         "From ZenoV Require Import Lib.Harness Pause.PauseLts Pause.PauseStartHarness.\n",
		CaseType:       "scase",
		Footer:         stdFooter,
		Rule:           "one case = one process in which 1-4 of the four stages are started through their exported Start(inputChan, outputChan) with config.WorkersCount = w (2-4, sometimes 1), every stage on channels of its own (capacity 0, w or w+2), and a sequence of Pause / Resume / 'offer k fresh seeds to every stage' / Stop() ops issued one after the other with a wait for quiescence (goroutine dump) after each; every case offers w+2 seeds while paused; a fifth stop the stages while paused with work on offer; non-trivial when seeds are offered while paused to stages of at least 2 workers",
		Gen:            genPauseStart,
		Exec:           execPauseStart,
		Shrink:         shrinkPauseStart,
	})
}
