//go:build verif

//verif:target internal/pkg/postprocessor/domainscrawl/zz_verif_c10_shim.go
package domainscrawl

// C10: read-only view of what AddElements stored in the process-global matcher, for the
// `dcmatch` driver (the configuration handed to the matcher model is what the real code holds).

// VerifC10StoredURL is what Match reads of one stored URL.
type VerifC10StoredURL struct {
	String string
	Host   string
	Bare   bool // RawQuery == "" && Path == "" && Fragment == ""
}

// VerifC10Snapshot returns the plain domains, the stored URLs and the source texts of the
// compiled regular expressions, in the order Match walks them.
func VerifC10Snapshot() (enabled bool, domains []string, urls []VerifC10StoredURL, regexes []string) {
	globalMatcher.RLock()
	defer globalMatcher.RUnlock()
	enabled = globalMatcher.enabled
	domains = append(domains, globalMatcher.domains...)
	for _, u := range globalMatcher.urls {
		urls = append(urls, VerifC10StoredURL{String: u.String(), Host: u.Host, Bare: u.RawQuery == "" && u.Path == "" && u.Fragment == ""})
	}
	for _, re := range globalMatcher.regexes {
		regexes = append(regexes, re.String())
	}
	return
}
