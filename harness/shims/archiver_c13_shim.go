//go:build verif

//verif:target internal/pkg/archiver/zz_verif_c13_shim.go
package archiver

import "github.com/internetarchive/Zeno/internal/pkg/archiver/ratelimiter"

// VerifC13HostState: the state of the limiter bucket the archiver holds for host
// (false when the rate limiter is off or the host has no bucket).
func VerifC13HostState(host string) (ratelimiter.VerifState, bool) {
	if globalBucketManager == nil {
		return ratelimiter.VerifState{}, false
	}
	return ratelimiter.VerifHostState(globalBucketManager, host)
}

// VerifC13GrantAll ends an observation: every caller still polling host's bucket is let go (see
// ratelimiter.VerifGrantAll); nothing is measured after this call.
func VerifC13GrantAll(host string) {
	if globalBucketManager != nil {
		ratelimiter.VerifGrantAll(globalBucketManager, host)
	}
}
