//go:build verif

//verif:target internal/pkg/preprocessor/zz_verif_shim_scope.go
package preprocessor

import (
	"fmt"

	"github.com/internetarchive/Zeno/pkg/models"
)

// VerifScopePreprocess runs the unmodified preprocess() on one seed tree (the worker's
// consistency check is not part of it).  A panic is returned as text.
func VerifScopePreprocess(seed *models.Item) (panicked string) {
	defer func() {
		if r := recover(); r != nil {
			panicked = fmt.Sprint(r)
			if panicked == "" {
				panicked = "panic"
			}
		}
	}()
	preprocess("verif", seed)
	return ""
}
