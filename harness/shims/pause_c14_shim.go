//go:build verif

//verif:target internal/pkg/controler/pause/zz_verif_c14_shim.go
package pause

// VerifC14Reset replaces the manager by its zero value (what pause_test.go does between tests).
func VerifC14Reset() { manager = &pauseManager{} }

// VerifC14Subscribers counts the keys of manager.subscribers.
func VerifC14Subscribers() int {
	n := 0
	manager.subscribers.Range(func(_, _ interface{}) bool { n++; return true })
	return n
}

// VerifC14Keys returns the current keys of manager.subscribers.
func VerifC14Keys() []*ControlChans {
	var ks []*ControlChans
	manager.subscribers.Range(func(k, _ interface{}) bool { ks = append(ks, k.(*ControlChans)); return true })
	return ks
}
