//go:build verif

//verif:target internal/pkg/stats/zz_verif_c17prom_shim.go
package stats

import (
	"github.com/internetarchive/Zeno/internal/pkg/config"
	dto "github.com/prometheus/client_model/go"
)

// VerifPromRoutines reads the EXPORTED worker gauge of a stage (0 pre, 1 arch, 2 post, 3 fin) the
// way a scrape does (Metric.Write); ok = false when Prometheus is off.
func VerifPromRoutines(which int) (v float64, ok bool) {
	if globalPromStats == nil {
		return 0, false
	}
	g := globalPromStats.preprocessorRoutines
	switch which {
	case 1:
		g = globalPromStats.archiverRoutines
	case 2:
		g = globalPromStats.postprocessorRoutines
	case 3:
		g = globalPromStats.finisherRoutines
	}
	var m dto.Metric
	if err := g.WithLabelValues(config.Get().Job, hostname, version).Write(&m); err != nil || m.Gauge == nil {
		return 0, false
	}
	return m.Gauge.GetValue(), true
}
