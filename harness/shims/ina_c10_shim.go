//go:build verif

//verif:target internal/pkg/postprocessor/sitespecific/ina/zz_verif_c10_shim.go
package ina

// VerifC10ExtractJWPlayerVersion exposes extractJWPlayerVersion (ina.go; no caller in the pipeline).
func VerifC10ExtractJWPlayerVersion(body string) string { return extractJWPlayerVersion(body) }
