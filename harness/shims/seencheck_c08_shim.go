//go:build verif

//verif:target internal/pkg/preprocessor/seencheck/zz_verif_c08_shim.go
package seencheck

import "sync/atomic"

// VerifC08Lookup exposes isSeen: what the store answers for one key.
func VerifC08Lookup(hash string) (found bool, value string) { return isSeen(hash) }

// VerifC08Count reads the counter of records written since Start.
func VerifC08Count() int64 { return atomic.LoadInt64(globalSeencheck.Count) }
