//go:build verif

//verif:target internal/pkg/archiver/zz_verif_c14_shim.go
//verif:only zpause
package archiver

import (
	"context"

	"github.com/internetarchive/Zeno/pkg/models"
)

// VerifC14SpawnWorker starts ONE real stage worker goroutine (the unmodified worker method) on
// the given channels with a context of its own, bypassing the process-singleton Start().
// onStart runs inside the worker goroutine before the loop.  cancel = what Stop() does to the
// stage context; done is closed when the worker has returned (wg.Wait of Stop() would return).
func VerifC14SpawnWorker(in, out chan *models.Item, onStart func()) (cancel func(), done <-chan struct{}) {
	ctx, c := context.WithCancel(context.Background())
	p := &archiver{ctx: ctx, cancel: c, inputCh: in, outputCh: out}
	// The method value is taken whatever the method's type is, and tested at run time: a change of
	// the unexported worker's signature then fails THIS spawn (nil, nil) instead of the compilation
	// of every harness binary that links the package.
	work, ok := any(p.worker).(func(string))
	if !ok {
		c()
		return nil, nil
	}
	p.wg.Add(1)
	d := make(chan struct{})
	go func() { onStart(); work("c14") }()
	go func() { p.wg.Wait(); close(d) }()
	return c, d
}
