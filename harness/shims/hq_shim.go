//go:build verif

//verif:target internal/pkg/source/hq/zz_verif_shim.go
package hq

// VerifHopsToPath exposes hopsToPath.
func VerifHopsToPath(hops int) string { return hopsToPath(hops) }

// VerifPathToHops exposes pathToHops.
func VerifPathToHops(path string) int { return pathToHops(path) }
