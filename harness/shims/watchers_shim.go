//go:build verif

//verif:target internal/pkg/controler/watchers/zz_verif_shim.go
package watchers

// VerifCheckThreshold exposes checkThreshold: true = refused (error returned).
func VerifCheckThreshold(total, free uint64, minSpaceRequired float64) bool {
	return checkThreshold(total, free, minSpaceRequired) != nil
}
