//go:build verif

//verif:target internal/pkg/archiver/zz_verif_c16_shim.go
package archiver

// VerifLimiterTable returns the size and bound of the per-host limiter table (-1, -1 when the rate limiter is off).
func VerifLimiterTable() (size, max int) {
	if globalBucketManager == nil {
		return -1, -1
	}
	return globalBucketManager.VerifTableSize()
}
