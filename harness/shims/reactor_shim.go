//go:build verif

//verif:target internal/pkg/reactor/zz_verif_shim.go
package reactor

// Read-only views of the reactor singleton for the C12 drivers (harness/zreactor).

// VerifAlive reports whether the global reactor exists (Start done, Stop not finished).
func VerifAlive() bool { return globalReactor != nil }

// VerifTokensInUse is len(tokenPool): the number of tokens currently taken; -1 without a reactor.
func VerifTokensInUse() int {
	r := globalReactor
	if r == nil {
		return -1
	}
	return len(r.tokenPool)
}

// VerifTokenCap is cap(tokenPool).
func VerifTokenCap() int {
	r := globalReactor
	if r == nil {
		return -1
	}
	return cap(r.tokenPool)
}

// VerifInputLen / VerifInputCap: buffered items in, and capacity of, the combined input channel.
func VerifInputLen() int {
	r := globalReactor
	if r == nil {
		return -1
	}
	return len(r.input)
}

func VerifInputCap() int {
	r := globalReactor
	if r == nil {
		return -1
	}
	return cap(r.input)
}

// VerifTrackedCount is the number of entries of the state table (len(GetStateTable()) without the
// nil dereference when the reactor is gone); -1 without a reactor.
func VerifTrackedCount() int {
	r := globalReactor
	if r == nil {
		return -1
	}
	n := 0
	r.stateTable.Range(func(_, _ interface{}) bool { n++; return true })
	return n
}
