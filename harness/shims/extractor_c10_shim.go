//go:build verif

//verif:target internal/pkg/postprocessor/extractor/zz_verif_c10_shim.go
package extractor

// C10: entry points to the unexported byte-level scanners.

// VerifC10HasFileExtension exposes hasFileExtension (utils.go).
func VerifC10HasFileExtension(s string) bool { return hasFileExtension(s) }

// VerifC10IsLikelyJSON exposes isLikelyJSON (json.go).
func VerifC10IsLikelyJSON(s string) bool { return isLikelyJSON(s) }

// VerifC10ExtractFromScriptContent exposes extractFromScriptContent (script.go).
func VerifC10ExtractFromScriptContent(content string) ([]string, error) {
	return extractFromScriptContent(content)
}

// VerifC10SrcsetURLs exposes srcsetURLs (html.go), the srcset / data-srcset splitting helper.
func VerifC10SrcsetURLs(value string) []string { return srcsetURLs(value) }
