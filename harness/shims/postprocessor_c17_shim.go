//go:build verif

//verif:target internal/pkg/postprocessor/zz_verif_c17_shim.go
package postprocessor

import "sync"

// VerifC17Rearm lets the REAL Start() run again in this process (after Stop() has returned): the
// package-level once is re-armed and the stopped stage dropped.  Nothing else is touched.
func VerifC17Rearm() {
	once = sync.Once{}
	globalPostprocessor = nil
}
