//go:build verif

//verif:target internal/pkg/postprocessor/zz_verif_shim_hops.go
package postprocessor

import "github.com/internetarchive/Zeno/pkg/models"

// VerifPostprocessItem exposes postprocessItem.
func VerifPostprocessItem(item *models.Item) []*models.Item { return postprocessItem(item) }
