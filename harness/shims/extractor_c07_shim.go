//go:build verif

//verif:target internal/pkg/postprocessor/extractor/zz_verif_c07_shim.go
package extractor

import "github.com/internetarchive/Zeno/pkg/models"

// VerifC07ResolveURL exposes resolveURL (resolve.go): the reference is resolved against the item's
// <base> if HTMLOutlinks/HTMLAssets found one, else against the item's own URL.
func VerifC07ResolveURL(raw string, item *models.Item) (string, error) { return resolveURL(raw, item) }
