//go:build verif

//verif:target internal/pkg/postprocessor/extractor/zz_verif_c19_shim.go
package extractor

// VerifHasFileExtension exposes hasFileExtension (utils.go).
func VerifHasFileExtension(s string) bool { return hasFileExtension(s) }

// VerifIsValidURL exposes isValidURL (json.go): fasturl accepts the string and reports a host.
func VerifIsValidURL(s string) bool { return isValidURL(s) }

// VerifIsLikelyJSON exposes isLikelyJSON (json.go).
func VerifIsLikelyJSON(s string) bool { return isLikelyJSON(s) }
