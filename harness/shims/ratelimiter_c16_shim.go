//go:build verif

//verif:target internal/pkg/archiver/ratelimiter/zz_verif_c16_shim.go
package ratelimiter

// VerifTableSize returns the number of per-host buckets and the configured bound.
func (bm *BucketManager) VerifTableSize() (size, max int) {
	bm.mu.Lock()
	defer bm.mu.Unlock()
	return len(bm.buckets), bm.maxBuckets
}
