//go:build verif

//verif:target internal/pkg/archiver/ratelimiter/zz_verif_shim.go
package ratelimiter

import (
	"sync"
	"time"
)

// VerifBucket gives the C13 driver access to one real tokenBucket under an injected clock.
type VerifBucket struct{ tb *tokenBucket }

// VerifState is a copy of the bucket's fields.  Pen is meaningless when PenZero (the zero
// time.Time is outside the UnixNano range).
type VerifState struct {
	Tokens, Cap, Rate, Ideal float64
	Last, Pen                int64
	PenZero                  bool
	Fails                    int
}

// VerifNewBucket runs the real constructor, then replaces the two things that read the wall
// clock: lastRefill (time.Now() at creation) and nowFunc.
func VerifNewBucket(capacity, rate float64, t0 time.Time, now func() time.Time) *VerifBucket {
	tb := newTokenBucket(capacity, rate)
	tb.lastRefill = t0
	tb.nowFunc = now
	return &VerifBucket{tb}
}

func (v *VerifBucket) Wait()           { v.tb.Wait() }
func (v *VerifBucket) Fail(status int) { v.tb.adjustOnFailure(status) }
func (v *VerifBucket) Succ()           { v.tb.onSuccess() }

// Refill calls refill() the way Wait does (under the lock).
func (v *VerifBucket) Refill() {
	v.tb.mu.Lock()
	v.tb.refill()
	v.tb.mu.Unlock()
}

// State reads the fields without locking: the driver calls it either from inside nowFunc (the
// calling goroutine holds tb.mu) or between operations of a sequential history.
func (v *VerifBucket) State() VerifState {
	tb := v.tb
	s := VerifState{Tokens: tb.tokens, Cap: tb.capacity, Rate: tb.refillRate, Ideal: tb.idealRate,
		Last: tb.lastRefill.UnixNano(), Fails: tb.failureCount}
	if tb.penaltyUntil.IsZero() {
		s.PenZero = true
	} else {
		s.Pen = tb.penaltyUntil.UnixNano()
	}
	return s
}

// ResetLock re-arms tb.mu after the driver escaped from a Wait that can never return (capacity
// below one token) by panicking out of nowFunc, which runs with the lock held.
func (v *VerifBucket) ResetLock() { v.tb.mu = sync.Mutex{} }

// VerifSnapshot returns host -> usageCount of the manager's table.
func VerifSnapshot(bm *BucketManager) map[string]int {
	bm.mu.Lock()
	defer bm.mu.Unlock()
	m := make(map[string]int, len(bm.buckets))
	for k, mb := range bm.buckets {
		m[k] = mb.usageCount
	}
	return m
}

// VerifGrantAll ends an observation: it hands the bucket registered for host enough tokens for
// every caller still polling it, so that the driver's goroutines terminate.  Nothing is measured
// after this call.
func VerifGrantAll(bm *BucketManager, host string) {
	bm.mu.Lock()
	mb := bm.buckets[host]
	bm.mu.Unlock()
	if mb == nil {
		return
	}
	mb.bucket.mu.Lock()
	mb.bucket.capacity, mb.bucket.tokens = 1e9, 1e9
	mb.bucket.mu.Unlock()
}

// VerifHostState copies the fields of the bucket registered for host (no usage count is added).
func VerifHostState(bm *BucketManager, host string) (VerifState, bool) {
	bm.mu.Lock()
	mb := bm.buckets[host]
	bm.mu.Unlock()
	if mb == nil {
		return VerifState{}, false
	}
	mb.bucket.mu.Lock()
	defer mb.bucket.mu.Unlock()
	return (&VerifBucket{mb.bucket}).State(), true
}
