//go:build verif

//verif:target internal/pkg/preprocessor/zz_verif_c08_shim.go
package preprocessor

import "github.com/internetarchive/Zeno/pkg/models"

// VerifC08Preprocess runs the unmodified preprocess function on one seed (no worker, no channels).
func VerifC08Preprocess(seed *models.Item) { preprocess("c08", seed) }
