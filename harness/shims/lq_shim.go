//go:build verif

//verif:target internal/pkg/source/lq/zz_verif_shim.go
package lq

import (
	"context"

	"github.com/internetarchive/Zeno/internal/pkg/config"
	"github.com/internetarchive/Zeno/internal/pkg/log"
	"github.com/internetarchive/Zeno/internal/pkg/source/lq/sqlc_model"
)

// VerifOpen opens (creating it if needed) the lq.db under config.JobPath through the real Init
// and installs it as the package's client WITHOUT starting the consumer/producer/finisher
// goroutines: the LQClient methods (Add, Get, Delete) go through globalLQ.client.
func VerifOpen() (*LQClient, error) {
	log.Start()
	logger = log.NewFieldedLogger(&log.Fields{"component": "lq"})
	c, err := Init(config.Get().Job)
	if err != nil {
		return nil, err
	}
	globalLQ = &lq{client: c}
	return c, nil
}

// VerifClose closes the database opened by VerifOpen.
func VerifClose() {
	if globalLQ != nil && globalLQ.client != nil {
		globalLQ.client.dbWrite.Close()
	}
	globalLQ = nil
}

// VerifClient returns the client of the running (Start) or opened (VerifOpen) local queue.
func VerifClient() *LQClient {
	if globalLQ == nil {
		return nil
	}
	return globalLQ.client
}

// VerifRows reads the whole table in insertion (rowid) order.
func (c *LQClient) VerifRows() ([]sqlc_model.Url, error) {
	rows, err := c.dbWrite.QueryContext(context.Background(), "SELECT id, value, via, hops, status, timestamp FROM urls ORDER BY rowid")
	if err != nil {
		return nil, err
	}
	defer rows.Close()
	var out []sqlc_model.Url
	for rows.Next() {
		var u sqlc_model.Url
		if err := rows.Scan(&u.ID, &u.Value, &u.Via, &u.Hops, &u.Status, &u.Timestamp); err != nil {
			return nil, err
		}
		out = append(out, u)
	}
	return out, rows.Err()
}

// VerifWipe empties the table (between cases of a driver).
func (c *LQClient) VerifWipe() error {
	_, err := c.dbWrite.ExecContext(context.Background(), "DELETE FROM urls")
	return err
}
