//go:build verif

//verif:target internal/pkg/postprocessor/zz_verif_c10_shim.go
package postprocessor

import "github.com/internetarchive/Zeno/pkg/models"

// VerifC10PostprocessItem exposes postprocessItem (item.go), the per-item dispatch of the stage.
func VerifC10PostprocessItem(item *models.Item) []*models.Item { return postprocessItem(item) }

// VerifC10ExtractAssets / VerifC10ExtractOutlinks expose the two extraction dispatchers; the
// `dispatch` driver calls them on a complete copy of an item to learn what the selected extractor
// yields (the oracle values of the nil-safety model).
func VerifC10ExtractAssets(item *models.Item) (assets, outlinks []*models.URL, err error) {
	return extractAssets(item)
}

func VerifC10ExtractOutlinks(item *models.Item) ([]*models.URL, error) {
	return extractOutlinks(item)
}
