//go:build verif

//verif:target internal/pkg/archiver/zz_verif_c17_shim.go
package archiver

import (
	"context"
	"strconv"

	"github.com/internetarchive/Zeno/pkg/models"
)

// VerifC17StartWorkers does what Start() does for the workers (wg.Add(1); go worker(id), n times)
// without the WARC writer, and returns what Stop() does to them first: cancel(); wg.Wait().
// The workers are the unmodified worker method.
func VerifC17StartWorkers(n int, in, out chan *models.Item) (stop func()) {
	ctx, cancel := context.WithCancel(context.Background())
	a := &archiver{ctx: ctx, cancel: cancel, inputCh: in, outputCh: out}
	for i := 0; i < n; i++ {
		a.wg.Add(1)
		go a.worker(strconv.Itoa(i))
	}
	return func() {
		a.cancel()
		a.wg.Wait()
	}
}
