//go:build verif

//verif:target internal/pkg/stats/zz_verif_shim.go
package stats

import (
	"sync"
	"sync/atomic"
)

// VerifReinit gives the process a fresh globalStats through the real Init().
func VerifReinit() error {
	doOnce = sync.Once{}
	return Init()
}

func verifRate(which int) *rate {
	if which == 0 {
		return globalStats.URLsCrawled
	}
	return globalStats.SeedsFinished
}

func verifCounter(which int) *counter {
	switch which {
	case 0:
		return globalStats.PreprocessorRoutines
	case 1:
		return globalStats.ArchiverRoutines
	case 2:
		return globalStats.PostprocessorRoutines
	}
	return globalStats.FinisherRoutines
}

func verifMean(which int) *mean {
	switch which {
	case 0:
		return globalStats.MeanHTTPResponseTime
	case 1:
		return globalStats.MeanProcessBodyTime
	}
	return globalStats.MeanWaitOnFeedbackTime
}

// the unexported methods, with their step/value parameter
func VerifRateIncr(which int, step uint64)       { verifRate(which).incr(step) }
func VerifRateGetTotal(which int) uint64         { return verifRate(which).getTotal() }
func VerifBucketIncr(key string, step uint64)    { globalStats.HTTPReturnCodes.incr(key, step) }
func VerifBucketGetTotal(key string) uint64      { return globalStats.HTTPReturnCodes.getTotal(key) }
func VerifBucketGetAll() map[string]uint64       { return globalStats.HTTPReturnCodes.getAll() }
func VerifBucketGetAllTotal() map[string]uint64  { return globalStats.HTTPReturnCodes.getAllTotal() }
func VerifBucketGetFiltered(p string) map[string]uint64 {
	return globalStats.HTTPReturnCodes.getFiltered(p)
}
func VerifCounterIncr(which int, step uint64) { verifCounter(which).incr(step) }
func VerifCounterDecr(which int, step uint64) { verifCounter(which).decr(step) }
func VerifMeanAdd(which int, v uint64)        { verifMean(which).add(v) }
func VerifMatch(pattern, s string) bool       { return match(pattern, s) }

// raw words of a mean, read at quiescence (valid for the atomic and for the mutex version)
func VerifMeanRaw(which int) (count, sum uint64) {
	m := verifMean(which)
	return atomic.LoadUint64(&m.count), atomic.LoadUint64(&m.sum)
}
