//go:build verif

//verif:target internal/pkg/source/hq/zz_verif_c08_shim.go
package hq

import (
	"github.com/internetarchive/Zeno/internal/pkg/log"
	"github.com/internetarchive/gocrawlhq"
)

// VerifC08SetClient installs a crawl-HQ client without hq.Start (no consumer / producer /
// finisher / websocket goroutines): SeencheckItem only needs globalHQ.client and the logger.
func VerifC08SetClient(c *gocrawlhq.Client) {
	logger = log.NewFieldedLogger(&log.Fields{"component": "hq"})
	globalHQ = &hq{client: c}
}
