//go:build verif

//verif:target internal/pkg/finisher/zz_verif_c14_shim.go
package finisher

import (
	"context"

	"github.com/internetarchive/Zeno/pkg/models"
)

// VerifC14SpawnWorker: see the preprocessor shim.
func VerifC14SpawnWorker(in, out chan *models.Item, onStart func()) (cancel func(), done <-chan struct{}) {
	ctx, c := context.WithCancel(context.Background())
	f := &finisher{ctx: ctx, cancel: c, inputCh: in, sourceFinishedCh: out, sourceProducedCh: out}
	f.wg.Add(1)
	d := make(chan struct{})
	go func() { onStart(); f.worker("c14") }()
	go func() { f.wg.Wait(); close(d) }()
	return c, d
}
