//go:build verif

//verif:target internal/pkg/finisher/zz_verif_c14_shim.go
//verif:only zpause
package finisher

import (
	"context"

	"github.com/internetarchive/Zeno/pkg/models"
)

// VerifC14SpawnWorker: see the preprocessor shim.
func VerifC14SpawnWorker(in, out chan *models.Item, onStart func()) (cancel func(), done <-chan struct{}) {
	ctx, c := context.WithCancel(context.Background())
	f := &finisher{ctx: ctx, cancel: c, inputCh: in, sourceFinishedCh: out, sourceProducedCh: out}
	// The method value is taken whatever the method's type is, and tested at run time: a change of
	// the unexported worker's signature then fails THIS spawn (nil, nil) instead of the compilation
	// of every harness binary that links the package.
	work, ok := any(f.worker).(func(string))
	if !ok {
		c()
		return nil, nil
	}
	f.wg.Add(1)
	d := make(chan struct{})
	go func() { onStart(); work("c14") }()
	go func() { f.wg.Wait(); close(d) }()
	return c, d
}
