//go:build verif

//verif:target internal/pkg/postprocessor/zz_verif_c19_shim.go
package postprocessor

import "github.com/internetarchive/Zeno/pkg/models"

// VerifC19PostprocessItem exposes postprocessItem (item.go): the children added to the item are the
// assets, the returned items are the outlinks.
func VerifC19PostprocessItem(item *models.Item) []*models.Item { return postprocessItem(item) }
