//go:build verif

//verif:target internal/pkg/postprocessor/zz_verif_c07_shim.go
package postprocessor

import "github.com/internetarchive/Zeno/pkg/models"

// VerifC07PostprocessItem exposes postprocessItem (item.go): children added to the item are the
// assets, the returned items are the outlinks.
func VerifC07PostprocessItem(item *models.Item) []*models.Item { return postprocessItem(item) }

// VerifC07Postprocess exposes postprocess (postprocessor.go): what the stage worker runs on a seed
// tree - postprocessItem on every item of the deepest level; the returned items are the outlinks.
func VerifC07Postprocess(seed *models.Item) []*models.Item { return postprocess("c07", seed) }
