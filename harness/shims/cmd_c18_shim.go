//go:build verif

//verif:target cmd/zz_verif_c18_shim.go
package cmd

import "github.com/spf13/cobra"

// VerifRun runs the REAL root command (cmd.Run(): the real flag declarations, cobra's parsing of argv, the
// real PersistentPreRunE = config.BindFlags + config.InitConfig, `get url`'s own PreRunE) on the given argv.
// Only what `get url` does once the configuration exists (its RunE) is handed to the caller.
func VerifRun(argv []string, run func(args []string) error) error {
	getURLCmd.RunE = func(_ *cobra.Command, args []string) error { return run(args) }
	rootCmd.SetArgs(argv)
	return Run()
}
