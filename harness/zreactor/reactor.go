//go:build verif

package main

// C12, sequential histories: every reactor API call is issued after the previous one has returned
// (or has been found blocked), the run() goroutine is given time to settle, and the observable state
// (return value, tokens in use, sorted state table, channel fill levels, what the consumer received)
// is written down after every operation.  The Coq side (Reactor/ReactorHarness.v) replays the same
// operations on the labelled transition system and evaluates the property's monitors on the
// implementation's answers.

import (
	"fmt"
	"os"
	"runtime"
	"sort"
	"strconv"
	"strings"
	"sync/atomic"
	"time"

	"github.com/internetarchive/Zeno/internal/pkg/config"
	"github.com/internetarchive/Zeno/internal/pkg/reactor"
	"github.com/internetarchive/Zeno/pkg/models"
)

const (
	rxLongFull = 3 * time.Second        // watchdog where the implementation's own state says "can proceed"
	rxShort    = 2 * time.Millisecond   // grace where the implementation's own state says "must block"
	rxQuick    = 200 * time.Microsecond // first look
)

// rxExpired counts watchdogs that ran out.  On a correct tree it stays 0.  Once a handful have expired the
// verdict of the run is settled and the remaining cases use a short watchdog, so that a broken tree
// does not cost three seconds per case.
var rxExpired atomic.Int32

func rxLongNow() time.Duration {
	if rxExpired.Load() >= 6 {
		return 200 * time.Millisecond
	}
	return rxLongFull
}

var rxDevNull *os.File
var rxStdout *os.File

func setupReactor() {
	config.InitConfig()
	c := config.Get()
	c.NoStdoutLogging, c.NoStderrLogging, c.NoFileLogging = true, true, true
	// spew.Dump on the panic paths writes to os.Stdout
	rxStdout = os.Stdout
	rxDevNull, _ = os.OpenFile(os.DevNull, os.O_WRONLY, 0)
	if rxDevNull != nil {
		os.Stdout = rxDevNull
	}
}

func teardownReactor() {
	if rxStdout != nil {
		os.Stdout = rxStdout
	}
}

func init() {
	register(&Driver{
		Name:     "reactor",
		Header:   "From ZenoV Require Import Lib.Harness Reactor.Reactor Reactor.ReactorHarness.\n",
		CaseType: "scase",
		Footer:   stdFooter,
		Rule: "one case = token count, output-channel capacity and a sequence of insert / feedback / finish / consume / freeze / stop " +
			"operations on the real reactor (fresh Start..Stop per case); operands are chosen against the observed state " +
			"(k-th held / tracked / finished / never inserted seed); obj= says whether feedback / finish are issued with the inserted " +
			"object or with another *models.Item carrying the same id; distinct by input text; non-trivial when at least one insert was " +
			"accepted and the history contains a rejection, a blocked call, a freeze or a stop",
		Setup:    setupReactor,
		Gen:      genReactorSeq,
		Exec:     execReactorSeq,
		Shrink:   shrinkReactorSeq,
		Teardown: teardownReactor,
	})
}

// ---------------------------------------------------------------- generator

// rxObjModes: which operations on a seed are carried by a fresh *models.Item with the same id instead of
// the object the seed was inserted with.  The reactor keys its state table by id: every answer has to
// be the same whatever object carries the id.
var rxObjModes = []string{"same", "same", "fresh-feedback", "fresh-finish", "both"}

func genReactorSeq(r *Rng, i int, tier string) string {
	return genReactorSeqOps(r, i, tier) + " obj=" + rxObjModes[r.Intn(len(rxObjModes))]
}

func genReactorSeqOps(r *Rng, i int, tier string) string {
	maxLen := 36
	if tier == "thorough" {
		maxLen = 70
	}
	stream := r.Intn(100)
	capN := 1 + r.Intn(6)
	var ocap int
	switch r.Intn(6) {
	case 0:
		ocap = 0
	case 1:
		ocap = 1
	case 2:
		ocap = 2
	case 3:
		ocap = capN
	default:
		ocap = 16
	}
	n := 5 + r.Intn(maxLen-4)
	var ops []string
	k := func() string { return strconv.Itoa(r.Intn(6)) }
	wfOp := func() string {
		switch x := r.Intn(13); {
		case x < 4:
			return "I"
		case x < 8:
			return "C"
		case x < 10:
			return "Bh" + k()
		default:
			return "Fh" + k()
		}
	}
	malOp := func() string {
		switch r.Intn(12) {
		case 0:
			return "Bu"
		case 1:
			return "Fu"
		case 2, 3:
			return "Bx" + k()
		case 4, 5:
			return "Fx" + k()
		case 6, 7, 8:
			return "Bt" + k()
		case 9, 10:
			return "Ft" + k()
		default:
			if r.Chance(25) {
				return "Id" + k()
			}
			return "Bu"
		}
	}
	switch {
	case stream < 50: // well-formed client
		zAt, sAt := -1, -1
		if r.Chance(30) {
			zAt = r.Intn(n)
		}
		if r.Chance(30) {
			sAt = n - 1 - r.Intn(3)
		}
		for j := 0; j < n; j++ {
			switch {
			case j == zAt:
				ops = append(ops, "Z")
			case j == sAt:
				ops = append(ops, "S")
			default:
				ops = append(ops, wfOp())
			}
		}
		return fmt.Sprintf("kind=wf cap=%d ocap=%d ops=%s", capN, ocap, strings.Join(ops, ","))
	case stream < 82: // malformed / edge stream
		zAt, sAt := -1, -1
		if r.Chance(25) {
			zAt = r.Intn(n)
		}
		if r.Chance(25) {
			sAt = n - 1 - r.Intn(4)
		}
		for j := 0; j < n; j++ {
			switch {
			case j == zAt:
				ops = append(ops, "Z")
			case j == sAt:
				ops = append(ops, "S")
			case r.Chance(40):
				ops = append(ops, malOp())
			default:
				ops = append(ops, wfOp())
			}
		}
		return fmt.Sprintf("kind=mal cap=%d ocap=%d ops=%s", capN, ocap, strings.Join(ops, ","))
	default: // a freeze followed by a burst of inserts and feedbacks while tokens are free
		capN = 4 + r.Intn(6)
		ocap = 16
		pre := 2 + r.Intn(4)
		for j := 0; j < pre; j++ {
			ops = append(ops, "I", "C")
		}
		ops = append(ops, "Z")
		m := 8 + r.Intn(10)
		for j := 0; j < m; j++ {
			switch r.Intn(5) {
			case 0, 1, 2:
				ops = append(ops, "I")
			case 3:
				ops = append(ops, "Bh"+k())
			default:
				ops = append(ops, "Fh"+k())
			}
		}
		if r.Chance(30) {
			ops = append(ops, "S", "I", "Bu")
		}
		return fmt.Sprintf("kind=burst cap=%d ocap=%d ops=%s", capN, ocap, strings.Join(ops, ","))
	}
}

func shrinkReactorSeq(in string) []string {
	kv := parseKV(in)
	ops := strings.Split(kv["ops"], ",")
	mk := func(o []string) string {
		base := fmt.Sprintf("kind=%s cap=%s ocap=%s ops=%s", kv["kind"], kv["cap"], kv["ocap"], strings.Join(o, ","))
		if kv["obj"] != "" {
			base += " obj=" + kv["obj"]
		}
		return base
	}
	var out []string
	if len(ops) > 3 {
		out = append(out, mk(ops[:len(ops)/2]), mk(ops[len(ops)/2:]))
	}
	for j := len(ops) - 1; j >= 0 && len(ops) > 1; j-- {
		o := append(append([]string{}, ops[:j]...), ops[j+1:]...)
		out = append(out, mk(o))
	}
	return out
}

func parseKV(in string) map[string]string {
	m := map[string]string{}
	for _, f := range strings.Fields(in) {
		if k, v, ok := strings.Cut(f, "="); ok {
			m[k] = v
		}
	}
	return m
}

// ---------------------------------------------------------------- running the real reactor

func rxErr(err error) string {
	switch err {
	case nil:
		return "ROk"
	case reactor.ErrReactorNotInitialized:
		return "RNotInit"
	case reactor.ErrReactorShuttingDown:
		return "RShut"
	case reactor.ErrReactorFrozen:
		return "RFrozen"
	case reactor.ErrFeedbackItemNotPresent:
		return "RNotPresent"
	case reactor.ErrFinisehdItemNotFound:
		return "RNotFound"
	}
	return "RPanic"
}

// rxCall runs one API call; a panic of the call is an outcome, not a harness failure.
func rxCall(kind byte, it *models.Item) (r string) {
	defer func() {
		if e := recover(); e != nil {
			r = "RPanic"
		}
	}()
	switch kind {
	case 'I':
		return rxErr(reactor.ReceiveInsert(it))
	case 'B':
		return rxErr(reactor.ReceiveFeedback(it))
	default:
		return rxErr(reactor.MarkAsFinished(it))
	}
}

func rxItem(items map[int]*models.Item, id int) *models.Item {
	if it, ok := items[id]; ok {
		return it
	}
	it := models.NewItem(strconv.Itoa(id), &models.URL{Raw: "http://seed.example/" + strconv.Itoa(id)}, "")
	it.SetSource(models.ItemSourceQueue)
	items[id] = it
	return it
}

func rxTable() []int {
	var ids []int
	for _, s := range reactor.GetStateTable() {
		n, err := strconv.Atoi(s)
		if err != nil {
			n = 999999
		}
		ids = append(ids, n)
	}
	sort.Ints(ids)
	return ids
}

type rxPending struct {
	kind  byte
	id    int
	ch    chan string
	stage int // 1 insert at its select (no token free), 2 insert at its send (input full), 3 feedback at its select (input full), 0 unknown
}

type rxSeq struct {
	capN, ocap int
	out        chan *models.Item
	items      map[int]*models.Item
	inTransit  int // sends that completed minus items the consumer took
	closed     bool
	pend       *rxPending
	held       []int
	finished   []int
	nextID     int
	unsettled  bool
	pendRes    string // result of the blocked call once it has returned (reported with the current step)
}

func (h *rxSeq) settle() {
	deadline := time.Now().Add(rxLongNow())
	for spins := 0; ; spins++ {
		if !reactor.VerifAlive() {
			return
		}
		h.pendDone(0)
		wantOut := h.inTransit
		if wantOut > h.ocap {
			wantOut = h.ocap
		}
		wantIn := h.inTransit - h.ocap - 1
		if wantIn < 0 {
			wantIn = 0
		}
		if len(h.out) == wantOut && reactor.VerifInputLen() == wantIn {
			return
		}
		if time.Now().After(deadline) {
			h.unsettled = true
			rxExpired.Add(1)
			return
		}
		if spins < 50 {
			runtime.Gosched()
		} else {
			time.Sleep(50 * time.Microsecond)
		}
	}
}

// pendMayWake: did the operation just executed give the blocked call what it was waiting for?
// Decided from what the operation did (never from a later look at the reactor, which the woken call
// is changing at that very moment): 'F' a finish returned nil (a token was released), 'C' the
// consumer received an item (run() can move on and free a slot of the input channel), 'Z' freeze.
func (h *rxSeq) pendMayWake(what byte) bool {
	if h.pend == nil {
		return false
	}
	switch h.pend.stage {
	case 1:
		return what == 'F' || what == 'Z'
	case 2:
		return what == 'C'
	case 3:
		return what == 'C' || what == 'Z'
	}
	return false
}

// pendDone notes the return of the earlier blocked call, waiting at most d for it.
func (h *rxSeq) pendDone(d time.Duration) {
	if h.pend == nil {
		return
	}
	var r string
	if d == 0 {
		select {
		case r = <-h.pend.ch:
		default:
			return
		}
	} else {
		select {
		case r = <-h.pend.ch:
		case <-time.After(d):
			return
		}
	}
	if r == "ROk" && h.pend.kind != 'F' {
		h.inTransit++
	}
	if r == "ROk" && h.pend.kind == 'F' {
		h.finished = append(h.finished, h.pend.id)
	}
	h.pend = nil
	h.pendRes = r
}

// pollPending settles and returns the result of the earlier blocked call if it has returned in this step.
// what: see pendMayWake (0 = the operation cannot have woken it).
func (h *rxSeq) pollPending(what byte) string {
	h.settle()
	if h.pend != nil {
		if h.pendMayWake(what) {
			h.pendDone(rxLongNow())
			if h.pend != nil && h.pend.stage == 1 && what == 'F' {
				// it got its token and is now blocked sending to a full input channel
				h.pend.stage = 2
			}
		} else {
			h.pendDone(rxQuick)
		}
		h.settle()
	}
	r := h.pendRes
	h.pendRes = ""
	return r
}

func rmInt(l []int, x int) []int {
	var o []int
	for _, v := range l {
		if v != x {
			o = append(o, v)
		}
	}
	return o
}

func hasInt(l []int, x int) bool {
	for _, v := range l {
		if v == x {
			return true
		}
	}
	return false
}

func coqOptS(s string) string {
	if s == "" {
		return "None"
	}
	return "(Some " + s + ")"
}

func coqNats(l []int) string {
	s := make([]string, len(l))
	for i, v := range l {
		s[i] = strconv.Itoa(v)
	}
	return "[" + strings.Join(s, "; ") + "]"
}

func (h *rxSeq) obs(res, pend string, got int) string {
	g := "None"
	if got >= 0 {
		g = fmt.Sprintf("(Some %d)", got)
	}
	if !reactor.VerifAlive() {
		return fmt.Sprintf("SO %s %s %s false 0 [] 0 %d", coqOptS(res), coqOptS(pend), g, len(h.out))
	}
	return fmt.Sprintf("SO %s %s %s true %d %s %d %d", coqOptS(res), coqOptS(pend), g,
		reactor.VerifTokensInUse(), coqNats(rxTable()), reactor.VerifInputLen(), len(h.out))
}

func (h *rxSeq) take(block bool) int {
	var it *models.Item
	if block {
		select {
		case it = <-h.out:
		case <-time.After(rxLongNow()):
			rxExpired.Add(1)
		}
	} else {
		select {
		case it = <-h.out:
		default:
		}
	}
	if it == nil {
		return -1
	}
	n, err := strconv.Atoi(it.GetID())
	if err != nil {
		return 999999
	}
	h.inTransit--
	return n
}

func execReactorSeq(in string) Result {
	kv := parseKV(in)
	capN, _ := strconv.Atoi(kv["cap"])
	ocap, _ := strconv.Atoi(kv["ocap"])
	if capN < 1 {
		capN = 1
	}
	h := &rxSeq{capN: capN, ocap: ocap, out: make(chan *models.Item, ocap), items: map[int]*models.Item{}, nextID: 1}
	if reactor.VerifAlive() {
		reactor.Stop()
	}
	if err := reactor.Start(capN, h.out); err != nil {
		panic("reactor.Start: " + err.Error())
	}
	obj := kv["obj"]
	if obj == "" {
		obj = "same"
	}
	freshFb := obj == "fresh-feedback" || obj == "both"
	freshFin := obj == "fresh-finish" || obj == "both"
	tags := map[string]bool{"kind:" + kv["kind"]: true, fmt.Sprintf("cap:%d", capN): true, fmt.Sprintf("ocap:%d", ocap): true, "obj:" + obj: true}
	var steps []string
	accepted, interesting := 0, false
	stopped := false

	doConsume := func() int {
		got := h.take(h.inTransit > 0 && !stopped)
		if got >= 0 && !hasInt(h.held, got) {
			h.held = append(h.held, got)
		}
		var what byte
		if got >= 0 {
			what = 'C'
		}
		p := h.pollPending(what)
		steps = append(steps, fmt.Sprintf("(SConsume, %s)", h.obs("", p, got)))
		return got
	}

	for _, o := range strings.Split(kv["ops"], ",") {
		if o == "" {
			continue
		}
		arg := 0
		if len(o) > 2 {
			arg, _ = strconv.Atoi(o[2:])
		}
		pick := func(l []int) (int, bool) {
			if len(l) == 0 {
				return 0, false
			}
			return l[arg%len(l)], true
		}
		var kind byte
		id, ok := 0, true
		switch {
		case o == "I":
			kind, id = 'I', h.nextID
			h.nextID++
		case strings.HasPrefix(o, "Id"):
			kind = 'I'
			if stopped {
				ok = false
			} else {
				id, ok = pick(rxTable())
			}
		case o == "Bu":
			kind, id = 'B', h.nextID
			h.nextID++
		case o == "Fu":
			kind, id = 'F', h.nextID
			h.nextID++
		case strings.HasPrefix(o, "Bh"):
			kind = 'B'
			id, ok = pick(h.held)
		case strings.HasPrefix(o, "Fh"):
			kind = 'F'
			id, ok = pick(h.held)
		case strings.HasPrefix(o, "Bt"), strings.HasPrefix(o, "Ft"):
			kind = o[0]
			if stopped {
				ok = false
			} else {
				id, ok = pick(rxTable())
			}
		case strings.HasPrefix(o, "Bx"), strings.HasPrefix(o, "Fx"):
			kind = o[0]
			id, ok = pick(h.finished)
		case o == "C":
			doConsume()
			continue
		case o == "Z":
			reactor.Freeze()
			h.closed = true
			interesting = true
			tags["has:freeze"] = true
			p := h.pollPending('Z')
			steps = append(steps, fmt.Sprintf("(SFreeze, %s)", h.obs("", p, -1)))
			continue
		case o == "S":
			if stopped {
				continue
			}
			done := make(chan struct{})
			go func() { reactor.Stop(); close(done) }()
			select {
			case <-done:
			case <-time.After(2 * rxLongNow()):
				tags["stop:hung"] = true
			}
			stopped, interesting = true, true
			h.closed = true
			tags["has:stop"] = true
			h.pendDone(rxLongNow())
			p := h.pendRes
			h.pendRes = ""
			steps = append(steps, fmt.Sprintf("(SStop, %s)", h.obs("", p, -1)))
			continue
		default:
			continue
		}
		if !ok {
			continue // operand class empty in the observed state: the op is not part of the case
		}
		// ---- an API call
		if h.pend != nil && kind != 'F' {
			// at most one call is left blocked at a time: a second insert/feedback could block as well
			// and the order in which two blocked calls wake up is not determined
			tags["skipped-while-blocked"] = true
			continue
		}
		preTok, preIn := reactor.VerifTokensInUse(), reactor.VerifInputLen()
		it := rxItem(h.items, id)
		if (kind == 'B' && freshFb) || (kind == 'F' && freshFin) {
			// another object with the same id (the handle kept in h.items stays the inserted one)
			it = models.NewItem(strconv.Itoa(id), &models.URL{Raw: "http://seed.example/" + strconv.Itoa(id)}, "")
			it.SetSource(models.ItemSourceQueue)
		}
		ch := make(chan string, 1)
		go func() { ch <- rxCall(kind, it) }()
		h.held = rmInt(h.held, id)
		mayBlock, stage := false, 0
		if !stopped && !h.closed {
			switch kind {
			case 'I':
				if preTok == capN {
					mayBlock, stage = true, 1
				} else if preIn == capN {
					mayBlock, stage = true, 2
				}
			case 'B':
				if preIn == capN {
					mayBlock, stage = true, 3
				}
			}
		}
		wait := rxLongNow()
		if mayBlock {
			wait = rxShort
		}
		res := ""
		select {
		case res = <-ch:
		case <-time.After(wait):
		}
		opTerm := map[byte]string{'I': "OIns", 'B': "OFb", 'F': "OFin"}[kind]
		pendRes := ""
		if res == "" {
			tags["has:blocked"] = true
			interesting = true
			if h.pend != nil { // a finish blocked while another call is blocked: give up on this history
				tags["trunc:second-block"] = true
				steps = append(steps, fmt.Sprintf("(SCall (%s %d), %s)", opTerm, id, h.obs("", "", -1)))
				break
			}
			h.pend = &rxPending{kind: kind, id: id, ch: ch, stage: stage}
			h.settle()
			if !mayBlock { // the implementation's own state did not announce this: one watchdog per case is enough
				rxExpired.Add(1)
				tags["trunc:unexpected-block"] = true
				steps = append(steps, fmt.Sprintf("(SCall (%s %d), %s)", opTerm, id, h.obs("", "", -1)))
				break
			}
		} else {
			switch {
			case res == "ROk" && kind == 'I':
				accepted++
				h.inTransit++
			case res == "ROk" && kind == 'B':
				h.inTransit++
			case res == "ROk" && kind == 'F':
				h.finished = append(h.finished, id)
			case res == "RPanic":
				tags["has:panic"] = true
				interesting = true
			default:
				interesting = true
				tags["rej:"+res] = true
			}
			var what byte
			if res == "ROk" && kind == 'F' {
				what = 'F'
			}
			pendRes = h.pollPending(what)
		}
		steps = append(steps, fmt.Sprintf("(SCall (%s %d), %s)", opTerm, id, h.obs(res, pendRes, -1)))
		if res == "RPanic" {
			break // the process would be gone
		}
		if h.unsettled {
			break
		}
	}

	// final drain, as explicit consume steps: everything that was accepted has to come out while the
	// consumer reads (after a stop: whatever the output channel still holds)
	for guard := 0; guard < 1000; guard++ {
		if (!stopped && h.inTransit <= 0) || h.unsettled {
			break
		}
		if doConsume() < 0 {
			break
		}
	}
	if h.unsettled {
		tags["unsettled"] = true
	}
	// cleanup
	if reactor.VerifAlive() {
		done := make(chan struct{})
		go func() { reactor.Stop(); close(done) }()
		select {
		case <-done:
		case <-time.After(2 * rxLongNow()):
		}
	}
	if h.pend != nil {
		select {
		case <-h.pend.ch:
		case <-time.After(rxLongNow()):
		}
	}
	tl := make([]string, 0, len(tags))
	for t := range tags {
		tl = append(tl, t)
	}
	sort.Strings(tl)
	stoppedS := "false"
	if stopped {
		stoppedS = "true"
	}
	return Result{
		Term:       fmt.Sprintf("SC %d %d %s %s", capN, ocap, coqList(steps), stoppedS),
		Tags:       tl,
		Nontrivial: accepted > 0 && interesting,
	}
}
