//go:build verif

package main

// C12, concurrent histories: P producers insert fresh seeds (blocking on the token pool), K
// consumers read the output channel and feed each seed back or mark it finished, somebody freezes
// the reactor at a chosen moment, a few calls are deliberately wrong (feedback for a seed nobody
// inserted, a second finish).  Every call is logged with a global sequence number before it is
// issued and after it returned; the merged log, the deliveries and the quiescent state go to Coq:
// monitors of the property on these observations, and a linearizability search against the model
// run at call granularity.

import (
	"fmt"
	"runtime"
	"sort"
	"strconv"
	"strings"
	"sync"
	"sync/atomic"
	"time"

	"github.com/internetarchive/Zeno/internal/pkg/reactor"
	"github.com/internetarchive/Zeno/pkg/models"
)

func init() {
	register(&Driver{
		Name:     "reactorc",
		Header:   "From ZenoV Require Import Lib.Harness Reactor.Reactor Reactor.ReactorHarness.\n",
		CaseType: "ccase",
		Footer:   "\nDefinition DIFF := Eval vm_compute in cdiffs cases.\nPrint DIFF.\nDefinition MON := Eval vm_compute in cmons cases.\nPrint MON.\n",
		Rule: "one case = one Start..Stop life of the real reactor under P producer and K consumer goroutines (token count, " +
			"output capacity, seeds, feedback probability, freeze point, schedule perturbation and whether feedback / finish are issued " +
			"with the received object or another one carrying the same id, all from the input); distinct by input " +
			"text; non-trivial when at least two calls overlapped in time and at least one insert had to wait or was turned away, " +
			"or a feedback was issued, or the case has rounds in which a feedback races a finish of the same seed",
		Setup:    setupReactor,
		Gen:      genReactorConc,
		Exec:     execReactorConc,
		Shrink:   shrinkReactorConc,
		Teardown: teardownReactor,
	})
}

func genReactorConc(r *Rng, i int, tier string) string {
	capN := 1 + r.Intn(4)
	ocap := []int{0, 1, 2, 8}[r.Intn(4)]
	p := 1 + r.Intn(3)
	k := 1 + r.Intn(3)
	seeds := 2 + r.Intn(5)
	if r.Chance(60) { // more seeds than tokens: producers have to wait for finishes
		seeds = capN + 1 + r.Intn(5)
	}
	if tier == "thorough" && r.Chance(30) {
		seeds = 6 + r.Intn(20)
		capN = 1 + r.Intn(8)
		p, k = 1+r.Intn(5), 1+r.Intn(5)
	}
	fb := []int{0, 20, 40, 60}[r.Intn(4)]
	freeze := 0
	if r.Chance(35) {
		freeze = 1 + r.Intn(seeds)
	}
	noise := r.Intn(4) // 0 none, 1 unknown feedback, 2 + repeated finish, 3 + two goroutines finish the same seed at once
	// rounds of "feedback and finish of the same held seed at the same time" after the main phase
	race := 0
	if freeze == 0 && r.Chance(35) {
		race = 10 + r.Intn(30)
		if tier == "thorough" {
			race = 20 + r.Intn(100)
		}
	}
	sched := r.Intn(1 << 30)
	return fmt.Sprintf("cap=%d ocap=%d p=%d k=%d seeds=%d fb=%d freeze=%d noise=%d race=%d sched=%d obj=%s",
		capN, ocap, p, k, seeds, fb, freeze, noise, race, sched, rxObjModes[r.Intn(len(rxObjModes))])
}

func shrinkReactorConc(in string) []string {
	kv := parseKV(in)
	get := func(k string) int { n, _ := strconv.Atoi(kv[k]); return n }
	mk := func(m map[string]int) string {
		base := fmt.Sprintf("cap=%d ocap=%d p=%d k=%d seeds=%d fb=%d freeze=%d noise=%d race=%d sched=%d",
			m["cap"], m["ocap"], m["p"], m["k"], m["seeds"], m["fb"], m["freeze"], m["noise"], m["race"], m["sched"])
		if kv["obj"] != "" {
			base += " obj=" + kv["obj"]
		}
		return base
	}
	base := map[string]int{}
	for _, k := range []string{"cap", "ocap", "p", "k", "seeds", "fb", "freeze", "noise", "race", "sched"} {
		base[k] = get(k)
	}
	var out []string
	try := func(k string, v int) {
		if base[k] != v {
			m := map[string]int{}
			for a, b := range base {
				m[a] = b
			}
			m[k] = v
			out = append(out, mk(m))
		}
	}
	try("seeds", base["seeds"]/2+1)
	try("seeds", base["seeds"]-1)
	try("p", 1)
	try("k", 1)
	try("noise", 0)
	try("race", 0)
	try("race", base["race"]/2)
	try("fb", 0)
	try("freeze", 0)
	try("sched", 0)
	var res []string
	for _, s := range out {
		if len(s) < len(in) || s != in {
			res = append(res, s)
		}
	}
	return res
}

type rcEvent struct {
	seq  int64
	tid  int
	call bool
	kind byte // I B F Z
	id   int
	res  string
}

type rcThread struct {
	tid int
	ev  []rcEvent
	rng *Rng
}

var rcSeq atomic.Int64

// rcHungCases counts cases that ran into a watchdog.  On a correct tree it stays 0.  After a few the
// verdict of the run is settled and the remaining cases get a short watchdog (a leaked token would
// otherwise cost twenty seconds in each of hundreds of cases).
var rcHungCases atomic.Int32

func rcWatch() time.Duration {
	if rcHungCases.Load() >= 4 {
		return 100 * time.Millisecond
	}
	return 5 * time.Second
}

func (t *rcThread) perturb() {
	switch t.rng.Intn(6) {
	case 0:
		runtime.Gosched()
	case 1:
		time.Sleep(time.Duration(t.rng.Intn(60)) * time.Microsecond)
	}
}

// callNow is call without the schedule perturbation (the racing pair is released together).
func (t *rcThread) callNow(kind byte, it *models.Item, id int) string {
	t.ev = append(t.ev, rcEvent{seq: rcSeq.Add(1), tid: t.tid, call: true, kind: kind, id: id})
	r := rxCall(kind, it)
	t.ev = append(t.ev, rcEvent{seq: rcSeq.Add(1), tid: t.tid, kind: kind, id: id, res: r})
	return r
}

func (t *rcThread) call(kind byte, it *models.Item, id int) string {
	t.perturb()
	t.ev = append(t.ev, rcEvent{seq: rcSeq.Add(1), tid: t.tid, call: true, kind: kind, id: id})
	var r string
	if kind == 'Z' {
		reactor.Freeze()
		r = "ROk"
	} else {
		r = rxCall(kind, it)
	}
	t.ev = append(t.ev, rcEvent{seq: rcSeq.Add(1), tid: t.tid, kind: kind, id: id, res: r})
	t.perturb()
	return r
}

func execReactorConc(in string) Result {
	kv := parseKV(in)
	get := func(k string) int { n, _ := strconv.Atoi(kv[k]); return n }
	capN, ocap, P, K, seeds := get("cap"), get("ocap"), get("p"), get("k"), get("seeds")
	fbPct, freezeAt, noise, race := get("fb"), get("freeze"), get("noise"), get("race")
	obj := kv["obj"]
	if obj == "" {
		obj = "same"
	}
	freshFb := obj == "fresh-feedback" || obj == "both"
	freshFin := obj == "fresh-finish" || obj == "both"
	// carrier: the object an operation on seed id is issued with - the one received from the output, or
	// another *models.Item with the same id (the reactor keys its state table by id)
	carrier := func(kind byte, it *models.Item, id int) *models.Item {
		if (kind == 'B' && freshFb) || (kind == 'F' && freshFin) {
			n := models.NewItem(strconv.Itoa(id), &models.URL{Raw: "http://seed.example/" + strconv.Itoa(id)}, "")
			n.SetSource(models.ItemSourceQueue)
			return n
		}
		return it
	}
	if capN < 1 {
		capN = 1
	}
	if P < 1 {
		P = 1
	}
	if K < 1 {
		K = 1
	}
	sched := NewRng(uint64(get("sched")) + 77)
	if reactor.VerifAlive() {
		reactor.Stop()
	}
	out := make(chan *models.Item, ocap)
	if err := reactor.Start(capN, out); err != nil {
		panic("reactor.Start: " + err.Error())
	}
	rcSeq.Store(0)
	items := make([]*models.Item, seeds+1)
	for i := 1; i <= seeds; i++ {
		items[i] = models.NewItem(strconv.Itoa(i), &models.URL{Raw: "http://seed.example/" + strconv.Itoa(i)}, "")
		items[i].SetSource(models.ItemSourceQueue)
	}
	var accepted, finished, dropped atomic.Int64
	var frozenOnce sync.Once
	var mu sync.Mutex
	nth := map[int]int{}
	type deliv struct {
		seq int64
		tid int
		id  int
	}
	var delivs []deliv
	unknownID := atomic.Int64{}
	unknownID.Store(100) // ids stay small: the Coq side counts in unary (seeds < 100, unknown 101.., racing pair 300..)

	threads := make([]*rcThread, P+2*K+2) // producers, consumers, one helper per consumer (racing finish), the racing pair
	for i := range threads {
		threads[i] = &rcThread{tid: i, rng: sched.Fork()}
	}
	var pwg, cwg sync.WaitGroup
	done := make(chan struct{})
	for p := 0; p < P; p++ {
		pwg.Add(1)
		go func(t *rcThread, p int) {
			defer pwg.Done()
			for i := 1 + p; i <= seeds; i += P {
				r := t.call('I', items[i], i)
				if r == "ROk" {
					accepted.Add(1)
				} else if r == "RFrozen" || r == "RShut" || r == "RNotInit" {
					return
				}
			}
		}(threads[p], p)
	}
	for k := 0; k < K; k++ {
		cwg.Add(1)
		go func(t, helper *rcThread) {
			defer cwg.Done()
			for {
				var it *models.Item
				select {
				case it = <-out:
				case <-done:
					return
				}
				id, _ := strconv.Atoi(it.GetID())
				mu.Lock()
				nth[id]++
				n := nth[id]
				delivs = append(delivs, deliv{rcSeq.Add(1), t.tid, id})
				mu.Unlock()
				if noise >= 1 && t.rng.Chance(15) {
					u := int(unknownID.Add(1))
					ui := models.NewItem(strconv.Itoa(u), &models.URL{Raw: "http://seed.example/u"}, "")
					t.call('B', ui, u)
				}
				if n <= 3 && t.rng.Intn(100) < fbPct {
					if r := t.call('B', carrier('B', it, id), id); r != "ROk" {
						dropped.Add(1)
					}
					continue
				}
				r := ""
				if noise >= 3 && t.rng.Chance(40) {
					// a badly behaved client: two goroutines mark the same seed finished at the same time;
					// exactly one of them may succeed
					hr := make(chan string, 1)
					start := make(chan struct{})
					hc := carrier('F', it, id)
					go func() { <-start; hr <- helper.call('F', hc, id) }()
					close(start)
					r = t.call('F', carrier('F', it, id), id)
					if r2 := <-hr; r2 == "ROk" {
						if r == "ROk" {
							finished.Add(1) // both succeeded: counted, the monitors will object
						}
						r = "ROk"
					}
				} else {
					r = t.call('F', carrier('F', it, id), id)
				}
				if r == "ROk" {
					f := finished.Add(1)
					if freezeAt > 0 && int(f) >= freezeAt {
						frozenOnce.Do(func() { t.call('Z', nil, 0) })
					}
				} else {
					dropped.Add(1)
				}
				if noise >= 2 && t.rng.Chance(25) {
					t.call('F', carrier('F', it, id), id)
				}
			}
		}(threads[P+k], threads[P+K+k])
	}
	hung := false
	pdone := make(chan struct{})
	go func() { pwg.Wait(); close(pdone) }()
	deadline := time.After(2 * rcWatch())
	select {
	case <-pdone:
	case <-deadline:
		hung = true
	}
	if !hung {
	wait:
		for {
			if accepted.Load() == finished.Load()+dropped.Load() {
				break
			}
			select {
			case <-deadline:
				hung = true
				break wait
			default:
				time.Sleep(100 * time.Microsecond)
			}
		}
	}
	close(done)
	cdone := make(chan struct{})
	go func() { cwg.Wait(); close(cdone) }()
	select {
	case <-cdone:
	case <-time.After(rcWatch()):
		hung = true
	}
	// A badly behaved client, many rounds: a fresh seed is inserted and received, then one goroutine
	// feeds it back while another marks it finished, released together.  Legal outcomes: feedback
	// accepted and finish accepted (the seed comes out once more), or finish accepted and feedback
	// refused.  Either way the seed is gone from the state table and its token is back.
	raceRounds := 0
	if !hung && freezeAt == 0 && reactor.VerifAlive() {
		ta, tb := threads[P+2*K], threads[P+2*K+1]
		recv := func() bool {
			select {
			case it := <-out:
				rid, _ := strconv.Atoi(it.GetID())
				mu.Lock()
				delivs = append(delivs, deliv{rcSeq.Add(1), ta.tid, rid})
				mu.Unlock()
				return true
			case <-time.After(rcWatch()):
				return false
			}
		}
		for r := 0; r < race && !hung; r++ {
			id := 300 + r
			it := models.NewItem(strconv.Itoa(id), &models.URL{Raw: "http://seed.example/r"}, "")
			it.SetSource(models.ItemSourceQueue)
			ir := make(chan string, 1)
			go func() { ir <- ta.callNow('I', it, id) }()
			select {
			case res := <-ir:
				if res != "ROk" {
					hung = true // every token is taken although nothing is in flight: left to the accounting monitors
				}
			case <-time.After(rcWatch()):
				hung = true
			}
			if hung || !recv() {
				hung = true
				break
			}
			// released together: both spin on a barrier; the finish is delayed by a few dozen
			// iterations at random so that its delete lands at different points of the feedback
			bc, fc := carrier('B', it, id), carrier('F', it, id)
			var ready atomic.Int32
			var sink atomic.Int64
			delay := sched.Intn(200)
			fr, br := make(chan string, 1), make(chan string, 1)
			go func() {
				ready.Add(1)
				for ready.Load() < 2 {
				}
				br <- tb.callNow('B', bc, id)
			}()
			go func() {
				ready.Add(1)
				for ready.Load() < 2 {
				}
				for d := 0; d < delay; d++ {
					sink.Add(1)
				}
				fr <- ta.callNow('F', fc, id)
			}()
			var fres, bres string
			for i := 0; i < 2 && !hung; i++ {
				select {
				case fres = <-fr:
				case bres = <-br:
				case <-time.After(rcWatch()):
					hung = true
				}
			}
			_ = fres
			if !hung && bres == "ROk" {
				// the accepted feedback brings the seed out once more; the client drops it (no second
				// finish here: should the table still hold the seed, the quiescent accounting below says so)
				if !recv() {
					hung = true
					break
				}
			}
			raceRounds++
		}
	}
	// quiescent state
	tokens, table := -1, []int{}
	if reactor.VerifAlive() {
		tokens = reactor.VerifTokensInUse()
		table = rxTable()
	}
	sdone := make(chan struct{})
	go func() { reactor.Stop(); close(sdone) }()
	select {
	case <-sdone:
	case <-time.After(rcWatch()):
		hung = true
	}
	if hung {
		// blocked goroutines may still append to their logs: give them a moment, then read what is there
		select {
		case <-pdone:
		case <-time.After(rcWatch() / 2):
		}
	}
	var after []string
	if !hung {
		for _, k := range []byte{'I', 'B', 'F'} {
			after = append(after, fmt.Sprintf("(%s 1, %s)", map[byte]string{'I': "OIns", 'B': "OFb", 'F': "OFin"}[k], rxCall(k, items[1])))
		}
	}

	var evs []rcEvent
	for _, t := range threads {
		evs = append(evs, t.ev...)
	}
	sort.Slice(evs, func(i, j int) bool { return evs[i].seq < evs[j].seq })
	// the deliveries are interleaved with the call events by their sequence numbers
	type anyEv struct {
		seq  int64
		term string
	}
	var all []anyEv
	overlap, open := false, 0
	waited, fbs := false, 0
	for _, e := range evs {
		var opT string
		switch e.kind {
		case 'I':
			opT = fmt.Sprintf("(CApi (OIns %d))", e.id)
		case 'B':
			opT = fmt.Sprintf("(CApi (OFb %d))", e.id)
			if e.call {
				fbs++
			}
		case 'F':
			opT = fmt.Sprintf("(CApi (OFin %d))", e.id)
		default:
			opT = "CFreeze"
		}
		if e.call {
			open++
			if open > 1 {
				overlap = true
			}
			all = append(all, anyEv{e.seq, fmt.Sprintf("ECall %d %s", e.tid, opT)})
		} else {
			open--
			if e.kind == 'I' && e.res != "ROk" {
				waited = true
			}
			all = append(all, anyEv{e.seq, fmt.Sprintf("ERet %d %s", e.tid, e.res)})
		}
	}
	for _, d := range delivs {
		all = append(all, anyEv{d.seq, fmt.Sprintf("EGot %d %d", d.tid, d.id)})
	}
	sort.Slice(all, func(i, j int) bool { return all[i].seq < all[j].seq })
	terms := make([]string, len(all))
	for i, a := range all {
		terms[i] = a.term
	}
	if int(accepted.Load()) >= capN && seeds > capN {
		waited = true
	}
	tags := []string{fmt.Sprintf("cap:%d", capN), fmt.Sprintf("ocap:%d", ocap), fmt.Sprintf("P:%d", P), fmt.Sprintf("K:%d", K),
		fmt.Sprintf("fb:%d", fbPct), fmt.Sprintf("noise:%d", noise), "obj:" + obj}
	if freezeAt > 0 {
		tags = append(tags, "freeze")
	}
	if raceRounds > 0 {
		tags = append(tags, "race-fb-fin")
	}
	if hung {
		tags = append(tags, "hung")
		rcHungCases.Add(1)
	}
	switch n := len(evs) / 2; {
	case n <= 8:
		tags = append(tags, "calls:<=8")
	case n <= 16:
		tags = append(tags, "calls:9-16")
	case n <= 32:
		tags = append(tags, "calls:17-32")
	default:
		tags = append(tags, "calls:>32")
	}
	if tokens < 0 {
		tokens = 0
	}
	return Result{
		Term: fmt.Sprintf("CC %d %s %s %d %s %s", capN, coqList(terms), coqBool(hung), tokens, coqNats(table),
			coqList(after)),
		Tags:       tags,
		Nontrivial: overlap && (waited || fbs > 0 || raceRounds > 0),
	}
}

var _ = strings.Join
