//go:build verif

package main

// C12, configuration of the real reactor: the model has ONE capacity (init n m gives the token pool
// and the combined input channel the same capacity n), and "feedback never blocks" / "an insert's send
// never blocks" rest on exactly that.  This driver starts the real reactor with token counts from 1
// to 200000 (boundary-dense: powers of two and their neighbours) and reads back cap(tokenPool) and
// cap(input); in a share of the cases it also fills the reactor: n inserts with nobody reading the
// output (every one has to return: a token holder's send finds room), then one seed is received and
// fed back (has to return nil without blocking).

import (
	"fmt"
	"strconv"
	"time"

	"github.com/internetarchive/Zeno/internal/pkg/reactor"
	"github.com/internetarchive/Zeno/pkg/models"
)

func init() {
	register(&Driver{
		Name:     "reactorcfg",
		Header:   "From ZenoV Require Import Lib.Harness Reactor.Reactor Reactor.ReactorHarness.\n",
		CaseType: "kcase",
		Footer:   "\nDefinition DIFF := Eval vm_compute in kdiffs cases.\nPrint DIFF.\nDefinition MON := Eval vm_compute in kmons cases.\nPrint MON.\n",
		Rule: "one case = Start(n) of the real reactor for a token count n in 1..200000 (powers of two and their neighbours, round numbers, " +
			"random), read-back of cap(tokenPool) and cap(input); with fill=1 additionally n inserts with the output not drained and one " +
			"feedback of a received seed; distinct by input text; non-trivial when n > 1 (fill cases: when all n tokens were taken)",
		Setup:    setupReactor,
		Gen:      genReactorCfg,
		Exec:     execReactorCfg,
		Teardown: teardownReactor,
	})
}

func genReactorCfg(r *Rng, i int, tier string) string {
	var n int
	switch r.Intn(5) {
	case 0:
		n = []int{1, 2, 7, 100, 8191, 8192, 8193, 20000, 100000}[r.Intn(9)]
	case 1, 2:
		n = (1 << uint(r.Intn(18))) + r.Intn(3) - 1
	case 3:
		n = 1 + r.Intn(200000)
	default:
		n = 1 + r.Intn(64)
	}
	if n < 1 {
		n = 1
	}
	fill := 0
	lim := 12000
	if tier == "thorough" {
		lim = 70000
	}
	if n <= lim && r.Chance(35) {
		fill = 1
	}
	return fmt.Sprintf("n=%d fill=%d", n, fill)
}

func execReactorCfg(in string) Result {
	kv := parseKV(in)
	n, _ := strconv.Atoi(kv["n"])
	if n < 1 {
		n = 1
	}
	fill := kv["fill"] == "1"
	if reactor.VerifAlive() {
		reactor.Stop()
	}
	out := make(chan *models.Item) // nobody reads unless the case does
	if err := reactor.Start(n, out); err != nil {
		panic("reactor.Start: " + err.Error())
	}
	tokCap, inCap := reactor.VerifTokenCap(), reactor.VerifInputCap()
	inserted, fb := 0, "None"
	tags := []string{}
	switch {
	case n <= 64:
		tags = append(tags, "n:<=64")
	case n <= 8192:
		tags = append(tags, "n:65-8192")
	case n <= 65536:
		tags = append(tags, "n:8193-65536")
	default:
		tags = append(tags, "n:>65536")
	}
	if fill {
		tags = append(tags, "fill")
		items := make([]*models.Item, n)
		for i := range items {
			items[i] = models.NewItem(strconv.Itoa(i+1), &models.URL{Raw: "http://seed.example/c"}, "")
			items[i].SetSource(models.ItemSourceQueue)
		}
		progress := make(chan int, 1)
		go func() {
			k := 0
			for _, it := range items {
				if rxCall('I', it) != "ROk" {
					break
				}
				k++
			}
			progress <- k
		}()
		blocked := false
		select {
		case inserted = <-progress:
		case <-time.After(6 * time.Second):
			blocked = true
			inserted = reactor.VerifTokensInUse() - 1 // the blocked insert holds a token and is not counted
			if inserted < 0 {
				inserted = 0
			}
		}
		if !blocked {
			// one seed is received and fed back: the input channel has room for it
			select {
			case it := <-out:
				res := make(chan string, 1)
				go func() { res <- rxCall('B', it) }()
				select {
				case r := <-res:
					fb = "(Some " + r + ")"
				case <-time.After(4 * time.Second):
				}
			case <-time.After(4 * time.Second):
			}
		}
	}
	done := make(chan struct{})
	go func() { reactor.Stop(); close(done) }()
	select {
	case <-done:
	case <-time.After(6 * time.Second):
		tags = append(tags, "stop:hung")
	}
	return Result{
		Term:       fmt.Sprintf("KC %d%%N %d%%N %d%%N %s %d%%N %s", n, tokCap, inCap, coqBool(fill), inserted, fb),
		Tags:       tags,
		Nontrivial: n > 1 && (!fill || inserted == n),
	}
}
