//go:build verif

// C13, the archiver's use of the limiter: the REAL archiver stage (archiver.Start, its workers, the
// real archive() with its retry loop, the real HTTP/WARC client) with the rate limiter on, against a
// local origin (one listener = one host per case) that answers a scripted status sequence.  Items
// of a case go to the same host one after the other.  Observed: the requests as they arrive at the
// origin (time, item, status answered) and the host's bucket when item 1 has left the archiver.
package main

import (
	"fmt"
	"math"
	"net"
	"net/http"
	"os"
	"sort"
	"strconv"
	"strings"
	"sync"
	"time"

	"github.com/internetarchive/Zeno/internal/pkg/archiver"
	"github.com/internetarchive/Zeno/internal/pkg/config"
	"github.com/internetarchive/Zeno/pkg/models"
)

// The archiver (and with it the limiter's capacity and rate) can be started once per process: one
// (capacity, rate) pair per driver process.  It comes from the `conf=` field of a single -input
// (replay), else from the environment (ZV_ARCHRL_CONF=cap,rate, set per leg in the propdef), else
// 2 @ 7/s.  Every generated input carries the pair; an input for another pair is not run by this
// process (trivial case, tag other-conf) - the leg with that pair runs it.
var arlCap, arlRate = 2.0, 7.0

// number of archiver workers (the archstop driver asks for more: all its cases hold workers at the same time)
var arlWorkers = 64

// The operator's --warc-discard-status list (config.WARCDiscardStatus, read by the discard hook on
// every response) is process-wide as well: one list per driver process, from the `discard=` field of
// a single -input, else from ZV_ARCHRL_DISCARD (set per leg), else Zeno's default (429).  "none" is
// the empty list.  What the limiter hears about a response must not depend on it.
var arlDiscard = []int{429}

func arlConfString() string { return fmt.Sprintf("%g,%g", arlCap, arlRate) }

func arlDiscardString() string {
	if len(arlDiscard) == 0 {
		return "none"
	}
	l := make([]string, len(arlDiscard))
	for i, v := range arlDiscard {
		l[i] = strconv.Itoa(v)
	}
	return strings.Join(l, ",")
}

// arlOtherProcess: the input names a (capacity, rate) pair or a discard list this process was not started with
func arlOtherProcess(kv map[string]string) bool {
	if c := kv["conf"]; c != "" && c != arlConfString() {
		return true
	}
	if d := kv["discard"]; d != "" && d != arlDiscardString() {
		return true
	}
	return false
}

func arlChooseConf() {
	conf := os.Getenv("ZV_ARCHRL_CONF")
	disc := os.Getenv("ZV_ARCHRL_DISCARD")
	for i, a := range os.Args {
		if a == "-input" && i+1 < len(os.Args) {
			if c := parseKV(os.Args[i+1])["conf"]; c != "" {
				conf = c
			}
			if d := parseKV(os.Args[i+1])["discard"]; d != "" {
				disc = d
			}
		}
	}
	if disc != "" {
		arlDiscard = nil
		for _, f := range strings.Split(disc, ",") {
			if v, err := strconv.Atoi(f); err == nil && v >= 100 && v <= 599 {
				arlDiscard = append(arlDiscard, v)
			}
		}
	}
	if a, b, ok := strings.Cut(conf, ","); ok {
		c, e1 := strconv.ParseFloat(a, 64)
		r, e2 := strconv.ParseFloat(b, 64)
		if e1 == nil && e2 == nil && c > 0 && r > 0 {
			arlCap, arlRate = c, r
		}
	}
}

const (
	arlWindow = 1500 * time.Millisecond // how long a later item is watched for
)

func init() {
	register(&Driver{
		Name:     "archrl",
		Header:   "From Coq Require Import Uint63.\nFrom ZenoV Require Import Lib.Harness Rate.Bucket Rate.RateHarness.\nOpen Scope list_scope.\nOpen Scope uint63_scope.\n",
		CaseType: "acase",
		Footer:   "\nDefinition DIFF := Eval vm_compute in adiffs cases.\nPrint DIFF.\nDefinition MON := Eval vm_compute in amons cases.\nPrint MON.\n",
		Rule: "one case = (max-retry 0-2, status script of 1-4 answers from {429,408,425,403 Cloudflare challenge (403c),403,500,502,503,504,599,200,404}, 2-3 items for one fresh host, " +
			"one --warc-discard-status list per process) run through the real " +
			"archiver; an item is submitted when the previous one has come back, the last one is watched for 1.5 s; distinct by input text; " +
			"non-trivial when a throttling status was answered and a later item was submitted",
		Setup:    setupArchRL,
		Gen:      genArchRL,
		Exec:     execArchRLCached,
		Shrink:   func(string) []string { return nil },
		Teardown: func() { os.RemoveAll(arlDir) },
	})
}

var (
	arlDir   string
	arlIn    chan *models.Item
	arlMu    sync.Mutex
	arlWait  = map[string]chan struct{}{} // seed id -> closed when the seed left the archiver
	arlSeq   int
	arlPend  []string
	arlCache map[string]Result
	arlOnce  sync.Once
)

func must(err error) {
	if err != nil {
		fmt.Fprintln(os.Stderr, "fatal:", err)
		os.Exit(3)
	}
}

func setupArchRL() {
	arlChooseConf()
	arlPend = append(arlPend, corpusLines()...) // read before the Chdir below
	var err error
	arlDir, err = os.MkdirTemp("", "zv-archrl")
	must(err)
	must(os.Chdir(arlDir))
	must(config.InitConfig())
	c := config.Get()
	c.Job = "c13"
	c.WorkersCount = arlWorkers // an item held back by a penalty occupies its worker for >= 5 s
	c.MaxConcurrentAssets = 16
	c.WARCWriteAsync = false
	c.WARCPoolSize = 1
	c.WARCQueueSize = -1
	c.DisableLocalDedupe = true
	c.WARCDedupeSize = 1024
	c.WARCPrefix = "ZENO"
	c.WARCSize = 1024
	c.DisableRateLimit = false
	c.RateLimitCapacity = arlCap
	c.RateLimitRefillRate = arlRate
	c.RateLimitCleanupFrequency = time.Hour // 64*16 = 1024 buckets, no cleanup: no bucket is evicted in a run
	c.WARCDiscardStatus = append([]int{}, arlDiscard...)
	c.MaxRetry = 0
	c.HTTPTimeout, c.HTTPReadDeadline = -1, 60
	c.NoStdoutLogging, c.NoStderrLogging, c.NoFileLogging = true, true, true
	c.UserAgent = "zv-c13"
	must(config.GenerateCrawlConfig())
	must(os.MkdirAll(c.JobPath, 0o755))
	arlIn = make(chan *models.Item, 4096)
	out := make(chan *models.Item, 4096)
	must(archiver.Start(arlIn, out))
	go func() {
		for s := range out {
			arlMu.Lock()
			if ch := arlWait[s.GetID()]; ch != nil {
				close(ch)
				delete(arlWait, s.GetID())
			}
			arlMu.Unlock()
		}
	}()
}

// "403c" = status 403 with the header `cf-mitigated: challenge` (a Cloudflare challenge page: a failure
// for the limiter, with a penalty); a plain 403 is a success for archive()
var arlStatuses = []string{"429", "429", "408", "425", "403c", "403c", "403", "500", "500", "500", "502", "503", "504", "599", "200", "404"}

type answer struct {
	status int
	chal   bool
}

func parseScript(sc string) []answer {
	var out []answer
	for _, s := range strings.Split(sc, ",") {
		chal := strings.HasSuffix(s, "c")
		if v, err := strconv.Atoi(strings.TrimSuffix(s, "c")); err == nil && v >= 200 && v <= 599 {
			out = append(out, answer{v, chal})
		}
	}
	return out
}

func (a answer) throttle() bool {
	return a.status == 429 || a.status == 408 || a.status == 425 || a.status == 403 && a.chal
}

func genArchRL(r *Rng, i int, tier string) string {
	retry := []int{0, 0, 1}[r.Intn(3)]
	if tier == "thorough" {
		retry = r.Intn(3)
	}
	n := 1 + r.Intn(4)
	sc := make([]string, n)
	for j := range sc {
		sc[j] = arlStatuses[r.Intn(len(arlStatuses))]
	}
	in := fmt.Sprintf("conf=%s discard=%s retry=%d items=%d script=%s", arlConfString(), arlDiscardString(), retry, 2+r.Intn(2), strings.Join(sc, ","))
	if r.Intn(5) == 0 {
		// a burst: capacity + k items for one host at once, all answered 200
		k := 2 + r.Intn(6)
		if arlRate >= 20 {
			k = int(arlRate) + r.Intn(int(arlRate)/2)
		}
		in = fmt.Sprintf("conf=%s discard=%s retry=0 burst=%d", arlConfString(), arlDiscardString(), int(arlCap)+k)
	}
	arlMu.Lock()
	arlPend = append(arlPend, in)
	arlMu.Unlock()
	return in
}

func retryOf(in string) int {
	v, _ := strconv.Atoi(parseKV(in)["retry"])
	if v < 0 || v > 3 {
		v = 0
	}
	return v
}

// config.MaxRetry is process-wide: generated cases run concurrently in groups of equal max-retry.
func execArchRLCached(in string) Result {
	arlOnce.Do(func() {
		arlMu.Lock()
		ins := append([]string{}, arlPend...)
		arlMu.Unlock()
		sort.SliceStable(ins, func(a, b int) bool { return retryOf(ins[a]) < retryOf(ins[b]) })
		cache := map[string]Result{}
		for lo := 0; lo < len(ins); {
			hi := lo
			for hi < len(ins) && retryOf(ins[hi]) == retryOf(ins[lo]) {
				hi++
			}
			config.Get().MaxRetry = retryOf(ins[lo])
			res := make([]Result, hi-lo)
			var wg sync.WaitGroup
			sem := make(chan struct{}, 12)
			for k := lo; k < hi; k++ {
				wg.Add(1)
				sem <- struct{}{}
				go func(k int) {
					defer wg.Done()
					res[k-lo] = execArchRL(ins[k])
					<-sem
				}(k)
			}
			wg.Wait()
			for k := lo; k < hi; k++ {
				cache[ins[k]] = res[k-lo]
			}
			lo = hi
		}
		arlMu.Lock()
		arlCache = cache
		arlMu.Unlock()
	})
	arlMu.Lock()
	r, ok := arlCache[in]
	arlMu.Unlock()
	if ok {
		return r
	}
	config.Get().MaxRetry = retryOf(in)
	return execArchRL(in)
}

type arrival struct {
	t      int64
	item   int
	status int
	chal   bool
}

// origin: one listener = one host, answering the scripted sequence (then 200) and recording every
// request as it arrives
type origin struct {
	ln       net.Listener
	srv      *http.Server
	host     string
	start    time.Time
	mu       sync.Mutex
	arrivals []arrival
	closed   bool
}

func newOrigin(script []answer) *origin {
	ln, err := net.Listen("tcp", "127.0.0.2:0")
	must(err)
	o := &origin{ln: ln, host: ln.Addr().String(), start: time.Now()}
	o.srv = &http.Server{Handler: http.HandlerFunc(func(w http.ResponseWriter, r *http.Request) {
		o.mu.Lock()
		a := answer{200, false}
		if !o.closed {
			if len(o.arrivals) < len(script) {
				a = script[len(o.arrivals)]
			}
			item, _ := strconv.Atoi(strings.TrimPrefix(r.URL.Path, "/i"))
			o.arrivals = append(o.arrivals, arrival{int64(time.Since(o.start)), item, a.status, a.chal})
		}
		o.mu.Unlock()
		if a.chal {
			w.Header().Set("cf-mitigated", "challenge")
		}
		w.Header().Set("Content-Type", "text/plain")
		w.WriteHeader(a.status)
		w.Write([]byte("x\n"))
	})}
	go o.srv.Serve(ln)
	return o
}

func (o *origin) shut() {
	o.srv.Close()
	o.ln.Close()
}

// seen: the number of requests that have arrived so far
func (o *origin) seen() int {
	o.mu.Lock()
	defer o.mu.Unlock()
	return len(o.arrivals)
}

// finish closes the observation and returns what arrived
func (o *origin) finish() []arrival {
	o.mu.Lock()
	defer o.mu.Unlock()
	o.closed = true
	return append([]arrival{}, o.arrivals...)
}

// arlSubmit hands item k of case caseNo (URL http://host/i<k>) to the archiver; the channel is closed
// when the item has come back
func arlSubmit(host string, caseNo, k int) chan struct{} {
	raw := fmt.Sprintf("http://%s/i%d", host, k)
	u := &models.URL{Raw: raw}
	must(u.Parse())
	it := models.NewItem(fmt.Sprintf("c13-%d-%d", caseNo, k), u, "")
	req, err := http.NewRequest(http.MethodGet, u.String(), nil)
	must(err)
	req.Header.Set("User-Agent", "zv-c13")
	u.SetRequest(req)
	it.SetStatus(models.ItemPreProcessed)
	ch := make(chan struct{})
	arlMu.Lock()
	arlWait[it.GetID()] = ch
	arlMu.Unlock()
	arlIn <- it
	return ch
}

func arlNextCase() int {
	arlMu.Lock()
	defer arlMu.Unlock()
	arlSeq++
	return arlSeq
}

func arlHostState(host string) string {
	if st, ok := archiver.VerifC13HostState(host); ok {
		return fmt.Sprintf("(ASt2 %s %s %s %s)", coqZi(int64(st.Fails)), coqFl(st.Rate), coqFl(st.Cap), coqFl(st.Ideal))
	}
	return "ANone"
}

// arlEvTerms: the arrivals as Coq terms, and what item 1 was answered
func arlEvTerms(evs []arrival) (terms []string, throttled, lastThrottle, challenged bool, per map[int]int) {
	per = map[int]int{}
	for _, a := range evs {
		c := "AE"
		if a.chal {
			c = "AEC"
		}
		terms = append(terms, fmt.Sprintf("%s %s %d %s", c, uz(a.t), a.item, coqZi(int64(a.status))))
		per[a.item]++
		if a.chal && a.status == 403 {
			challenged = true
		}
		if a.item == 1 {
			lastThrottle = answer{a.status, a.chal}.throttle()
			if lastThrottle {
				throttled = true
			}
		}
	}
	return
}

func execArchRL(in string) Result {
	kv := parseKV(in)
	retry := retryOf(in)
	if arlOtherProcess(kv) {
		return Result{Term: fmt.Sprintf("AC (ZP 0) %s %s [] ANone", coqFl(arlCap), coqFl(arlRate)), Tags: []string{"other-conf(not run by this process)"}}
	}
	burst, _ := strconv.Atoi(kv["burst"])
	if burst > 400 {
		burst = 400
	}
	nitems, _ := strconv.Atoi(kv["items"])
	if nitems < 1 || nitems > 4 {
		nitems = 2
	}
	o := newOrigin(parseScript(kv["script"]))
	defer o.shut()
	host := o.host
	caseNo := arlNextCase()
	submit := func(k int) chan struct{} { return arlSubmit(host, caseNo, k) }

	state := "ANone"
	submitted := 0
	readState := func() { state = arlHostState(host) }
	if burst > 0 {
		// all items at once; the burst is watched for the window (items still held back stay with
		// their workers and are not observed any more)
		nitems = 0
		chs := make([]chan struct{}, burst)
		for k := 1; k <= burst; k++ {
			chs[k-1] = submit(k)
			submitted++
		}
		select {
		case <-chs[0]:
			readState()
		case <-time.After(30 * time.Second):
		}
		deadline := time.After(arlWindow)
	burstWait:
		for _, ch := range chs {
			select {
			case <-ch:
			case <-deadline:
				break burstWait
			}
		}
	}
	for k := 1; k <= nitems; k++ {
		ch := submit(k)
		submitted++
		// item 1 makes at most retry+1 requests with pauses of 0, 2, 4 s between them; later items may
		// rightly be held back by a penalty: they are watched for the window only
		limit := arlWindow
		if k == 1 {
			limit = 30 * time.Second
		} else {
			limit += time.Duration(retry*(retry-1)) * time.Second
		}
		back := false
		select {
		case <-ch:
			back = true
		case <-time.After(limit):
		}
		if k == 1 && back {
			readState()
		}
		if !back {
			break
		}
	}
	evs := o.finish()

	terms, throttled, lastThrottle, challenged, per := arlEvTerms(evs)
	tags := []string{fmt.Sprintf("max-retry:%d", retry), "conf:" + arlConfString(), "warc-discard-status:" + strings.ReplaceAll(arlDiscardString(), ",", "+")}
	if burst > 0 {
		tags = append(tags, "burst>capacity")
	}
	if throttled {
		tags = append(tags, "throttle-answered")
	}
	if challenged {
		tags = append(tags, "challenge-page-answered")
	}
	if lastThrottle {
		tags = append(tags, "last-attempt-throttled")
	}
	if per[1] > 1 {
		tags = append(tags, "item-retried")
	}
	return Result{
		Term:       fmt.Sprintf("AC %s %s %s %s %s", coqZi(int64(retry)), coqFl(arlCap), coqFl(arlRate), coqList(terms), state),
		Tags:       tags,
		Nontrivial: throttled && submitted > 1 || burst > int(arlCap),
	}
}

// ---- helpers (the zrate binary has its own copies) ----

func parseKV(in string) map[string]string {
	m := map[string]string{}
	for _, f := range strings.Fields(in) {
		if k, v, ok := strings.Cut(f, "="); ok {
			m[k] = v
		}
	}
	return m
}

func uz(v int64) string {
	if v < 0 {
		return "0"
	}
	return strconv.FormatInt(v, 10)
}

func coqZi(v int64) string {
	if v < 0 {
		return fmt.Sprintf("(ZM %d)", -v)
	}
	return fmt.Sprintf("(ZP %d)", v)
}

func coqFl(f float64) string {
	if math.IsNaN(f) || math.IsInf(f, 0) {
		return "(F 0 9999)"
	}
	frac, exp := math.Frexp(math.Abs(f))
	m := int64(frac * (1 << 53))
	e := exp - 53
	for m != 0 && m%2 == 0 {
		m /= 2
		e++
	}
	if m == 0 {
		e = 0
	}
	c := "F"
	if math.Signbit(f) && m != 0 {
		c = "FN"
	}
	return fmt.Sprintf("(%s %d %d)", c, m, e+1100)
}

// corpusLines: the stored inputs the framework will run first (flag -corpus), so that they can be
// executed concurrently with the generated ones instead of one after the other.
func corpusLines() []string {
	var out []string
	for _, a := range os.Args {
		if a == "-input" { // a single input is run alone: the framework ignores the corpus then
			return nil
		}
	}
	for i, a := range os.Args {
		if a == "-corpus" && i+1 < len(os.Args) {
			if raw, err := os.ReadFile(os.Args[i+1]); err == nil {
				for _, l := range strings.Split(string(raw), "\n") {
					l = strings.TrimSpace(l)
					if l != "" && !strings.HasPrefix(l, "#") {
						out = append(out, l)
					}
				}
			}
		}
	}
	return out
}
