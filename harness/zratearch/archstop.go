//go:build verif

// C13 across a STOP of the crawl: the real archiver (as in archrl.go) with workers blocked in the
// limiter's Wait - by a penalty (a host answered 429/408/425 or a Cloudflare challenge) or by an empty
// bucket (more items than capacity at a slow refill rate) - when archiver.Stop() cancels the
// archiver's context, which is also the context handed to NewBucketManager.  The origin keeps
// recording for 1.5 s after the stop: no request may reach a host before its penalty has elapsed or
// without a token, also while the crawl shuts down (the WARC clients are still open then).
//
// The archiver can be started and stopped once per process: all cases of a process (each on its own
// host) are brought to their blocked state, then ONE Stop is issued, `stop=` ms after the last case
// was armed (the smallest value among the cases).  Afterwards the origins are closed, the callers
// still waiting are let go through the shim (their requests are refused) and Stop is awaited, so that
// the process ends cleanly; nothing is measured in that phase.
package main

import (
	"fmt"
	"os"
	"strconv"
	"strings"
	"sync"
	"time"

	"github.com/internetarchive/Zeno/internal/pkg/archiver"
	"github.com/internetarchive/Zeno/internal/pkg/config"
)

func init() {
	register(&Driver{
		Name:     "archstop",
		Header:   "From Coq Require Import Uint63.\nFrom ZenoV Require Import Lib.Harness Rate.Bucket Rate.RateHarness.\nOpen Scope list_scope.\nOpen Scope uint63_scope.\n",
		CaseType: "acase",
		Footer:   "\nDefinition DIFF := Eval vm_compute in adiffs cases.\nPrint DIFF.\nDefinition MON := Eval vm_compute in amons cases.\nPrint MON.\n",
		Rule: "one case = one fresh host on the real archiver (max-retry 0, slow refill rate): either items answered one after the other by a status script " +
			"(1-2 answers, the last one a 429/408/425/403-challenge) and then `block` more items at once, or a burst of capacity+k items at once; when every case " +
			"of the process has its items with the workers, archiver.Stop() is called and the origin watched for another 1.5 s; distinct by input text; " +
			"non-trivial when a throttling status was answered or the burst exceeded the capacity, and some item had not reached the origin when Stop was called",
		Setup: func() {
			if os.Getenv("ZV_ARCHRL_CONF") == "" {
				os.Setenv("ZV_ARCHRL_CONF", "3,0.2")
			}
			if os.Getenv("ZV_ARCHRL_DISCARD") == "" {
				os.Setenv("ZV_ARCHRL_DISCARD", "403,429")
			}
			arlWorkers = 256
			setupArchRL()
		},
		Gen:      genArchStop,
		Exec:     execArchStopCached,
		Shrink:   func(string) []string { return nil },
		Teardown: func() { os.RemoveAll(arlDir) },
	})
}

var (
	astOnce  sync.Once
	astCache map[string]Result
)

func genArchStop(r *Rng, i int, tier string) string {
	stop := []int{30, 100, 250, 600}[r.Intn(4)]
	var in string
	if i%3 == 2 {
		in = fmt.Sprintf("conf=%s discard=%s stop=%d burst=%d", arlConfString(), arlDiscardString(), stop, int(arlCap)+1+r.Intn(4))
	} else {
		var sc []string
		if r.Intn(3) == 0 {
			sc = append(sc, []string{"200", "404", "403"}[r.Intn(3)]) // not a 5xx: it empties the bucket and the next item would wait 5 s for a token
		}
		sc = append(sc, []string{"429", "429", "408", "425", "403c"}[r.Intn(5)])
		in = fmt.Sprintf("conf=%s discard=%s stop=%d script=%s block=%d", arlConfString(), arlDiscardString(), stop, strings.Join(sc, ","), 1+r.Intn(3))
	}
	arlMu.Lock()
	arlPend = append(arlPend, in)
	arlMu.Unlock()
	return in
}

func astTrivial(tag string) Result {
	return Result{Term: fmt.Sprintf("AC (ZP 0) %s %s [] ANone", coqFl(arlCap), coqFl(arlRate)), Tags: []string{tag}}
}

// waitTimeout: wg.Wait() with a watchdog (generous: only a hung implementation runs into it)
func waitTimeout(wg *sync.WaitGroup, d time.Duration) bool {
	ch := make(chan struct{})
	go func() { wg.Wait(); close(ch) }()
	select {
	case <-ch:
		return true
	case <-time.After(d):
		return false
	}
}

type stopCase struct {
	in        string
	o         *origin
	state     string
	submitted int
	atStop    int // requests that had arrived when Stop was called
	evs       []arrival
}

func execArchStopCached(in string) Result {
	astOnce.Do(func() {
		arlMu.Lock()
		ins := append([]string{}, arlPend...)
		arlMu.Unlock()
		known := false
		for _, x := range ins {
			known = known || x == in
		}
		if !known {
			ins = append(ins, in) // a single -input
		}
		astCache = runArchStop(ins)
	})
	if r, ok := astCache[in]; ok {
		return r
	}
	return astTrivial("not-run(the archiver of this process has been stopped)")
}

func runArchStop(ins []string) map[string]Result {
	config.Get().MaxRetry = 0
	cache := map[string]Result{}
	var cases []*stopCase
	gap := 600
	budget := arlWorkers - 16 // every item held back occupies a worker until the end of the run
	for _, in := range ins {
		if _, dup := cache[in]; dup {
			continue
		}
		kv := parseKV(in)
		if arlOtherProcess(kv) {
			cache[in] = astTrivial("other-conf(not run by this process)")
			continue
		}
		cost := 1
		if b, _ := strconv.Atoi(kv["burst"]); b > 0 {
			cost += b
		} else if b, err := strconv.Atoi(kv["block"]); err == nil && b > 0 {
			cost += b
		}
		if cost > budget {
			cache[in] = astTrivial("not-run(no worker left in this process)")
			continue
		}
		budget -= cost
		cache[in] = Result{}
		cases = append(cases, &stopCase{in: in, state: "ANone"})
		if v, err := strconv.Atoi(kv["stop"]); err == nil && v >= 0 && v < gap {
			gap = v
		}
	}
	var armed, watched sync.WaitGroup
	stopCh := make(chan struct{})
	for _, c := range cases {
		armed.Add(1)
		watched.Add(1)
		go c.run(&armed, &watched, stopCh)
	}
	waitTimeout(&armed, 90*time.Second)
	time.Sleep(time.Duration(gap) * time.Millisecond)
	for _, c := range cases {
		if c.o != nil {
			c.atStop = c.o.seen()
		}
	}
	close(stopCh)
	stopped := make(chan struct{})
	go func() { archiver.Stop(); close(stopped) }()
	waitTimeout(&watched, 90*time.Second)
	// end of the observation: refuse whatever comes now, let the waiting callers go, wait for Stop
	for _, c := range cases {
		if c.o != nil {
			c.o.shut()
			archiver.VerifC13GrantAll(c.o.host)
		}
	}
	select {
	case <-stopped:
	case <-time.After(60 * time.Second):
	}
	for _, c := range cases {
		cache[c.in] = c.result()
	}
	return cache
}

func (c *stopCase) run(armed, watched *sync.WaitGroup, stopCh chan struct{}) {
	defer watched.Done()
	kv := parseKV(c.in)
	script := parseScript(kv["script"])
	burst, _ := strconv.Atoi(kv["burst"])
	if burst > 64 {
		burst = 64
	}
	block, _ := strconv.Atoi(kv["block"])
	if block < 0 || block > 8 {
		block = 1
	}
	c.o = newOrigin(script)
	caseNo := arlNextCase()
	k := 0
	expect := 0 // requests that will arrive without being held back
	if burst > 0 {
		for ; k < burst; k++ {
			arlSubmit(c.o.host, caseNo, k+1)
			c.submitted++
		}
		expect = burst
		if expect > int(arlCap) {
			expect = int(arlCap)
		}
	} else {
		// the scripted answers, one item after the other (each comes back: max-retry 0)
		for range script {
			k++
			ch := arlSubmit(c.o.host, caseNo, k)
			c.submitted++
			back := false
			select {
			case <-ch:
				back = true
			case <-time.After(30 * time.Second):
			}
			if k == 1 && back {
				c.state = arlHostState(c.o.host)
			}
			if !back {
				break
			}
		}
		expect = c.o.seen()
		for j := 0; j < block; j++ {
			k++
			arlSubmit(c.o.host, caseNo, k)
			c.submitted++
		}
	}
	// armed when the requests that need not wait have arrived (or after a generous while), plus the time
	// the workers need to take the other items
	for t := 0; t < 400 && c.o.seen() < expect; t++ {
		time.Sleep(5 * time.Millisecond)
	}
	time.Sleep(40 * time.Millisecond)
	armed.Done()
	<-stopCh
	time.Sleep(arlWindow)
	c.evs = c.o.finish()
}

func (c *stopCase) result() Result {
	terms, _, _, challenged, _ := arlEvTerms(c.evs)
	throttled := false
	for _, a := range c.evs {
		if (answer{a.status, a.chal}).throttle() {
			throttled = true
		}
	}
	kv := parseKV(c.in)
	burst, _ := strconv.Atoi(kv["burst"])
	tags := []string{"conf:" + arlConfString(), "warc-discard-status:" + strings.ReplaceAll(arlDiscardString(), ",", "+"), "stop"}
	if burst > 0 {
		tags = append(tags, "burst>capacity")
	}
	if throttled {
		tags = append(tags, "throttle-answered")
	}
	if challenged {
		tags = append(tags, "challenge-page-answered")
	}
	waiting := c.atStop < c.submitted
	if waiting {
		tags = append(tags, "items-held-back-at-stop")
	}
	if len(c.evs) > c.atStop {
		tags = append(tags, "request-arrived-after-stop")
	}
	return Result{
		Term:       fmt.Sprintf("AC (ZP 0) %s %s %s %s", coqFl(arlCap), coqFl(arlRate), coqList(terms), c.state),
		Tags:       tags,
		Nontrivial: waiting && (throttled || burst > int(arlCap)),
	}
}
