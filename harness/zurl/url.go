//go:build verif

package main

// C09: URL canonicalisation.  Two streams of inputs, both run through the REAL
// preprocessor.NormalizeURL + models.URL.String() on fresh objects:
//   g  (in-grammar): a reference, optionally a parent reference and the parent's own parent,
//      generated as ASTs of the reference grammar (coq/Url/RefUrl.v), rendered to text here and
//      again by the Coq model, which then compares its reference normaliser with what the
//      implementation returned;
//   m  (mutated, out of grammar): text mutants (whitespace, odd escapes, quotes, IDN, IPv6,
//      numeric hosts, backslashes, empty parts, other schemes) checked by the monitors only.

import (
	"encoding/hex"
	"encoding/json"
	"errors"
	"fmt"
	"io"
	"log/slog"
	"net/url"
	"regexp"
	"strings"
	"unicode/utf8"

	"github.com/internetarchive/Zeno/internal/pkg/preprocessor"
	"github.com/internetarchive/Zeno/pkg/models"
)

type gAuth struct {
	User *string  `json:"u,omitempty"`
	Pass *string  `json:"pw,omitempty"`
	Host []string `json:"h"`
	Port *string  `json:"pt,omitempty"`
}

type gRef struct {
	Form   string   `json:"f"` // abs srel pabs prel query frag
	Scheme string   `json:"s,omitempty"`
	Auth   *gAuth   `json:"a,omitempty"`
	Path   []string `json:"p,omitempty"`
	Query  *string  `json:"q,omitempty"`
	Frag   *string  `json:"fr,omitempty"`
}

type urlInput struct {
	Kind   string  `json:"k"`            // g | m
	GP     *gRef   `json:"gp,omitempty"` // g: the parent's own parent
	Parent *gRef   `json:"p,omitempty"`  // g
	Ref    *gRef   `json:"r,omitempty"`  // g
	QA     string  `json:"qa,omitempty"` // quote characters before the text
	QB     string  `json:"qb,omitempty"` // and after
	PH     *string `json:"ph,omitempty"` // m: parent text, hex
	RH     string  `json:"rh,omitempty"` // m: text, hex
	// the state of the URL object before NormalizeURL: "" fresh (never parsed), "p" preparsed
	// (URL.Parse() on the raw text first, as the lq / hq / --input-seeds sources do for every seed),
	// "s" stringed (Parse() and then String() before normalisation)
	State string `json:"st,omitempty"`
}

func sp(s string) *string { return &s }

// ---- rendering (mirrors render_ref of coq/Url/RefUrl.v; the model checks that both agree)

func (a *gAuth) hostport() string {
	s := strings.Join(a.Host, ".")
	if a.Port != nil {
		s += ":" + *a.Port
	}
	return s
}

func (a *gAuth) render() string {
	s := ""
	if a.User != nil {
		s = *a.User
		if a.Pass != nil {
			s += ":" + *a.Pass
		}
		s += "@"
	}
	return s + a.hostport()
}

func renderPath(p []string) string {
	var b strings.Builder
	for _, s := range p {
		b.WriteByte('/')
		b.WriteString(s)
	}
	return b.String()
}

func (r *gRef) render() string {
	tail := ""
	if r.Query != nil {
		tail += "?" + *r.Query
	}
	if r.Frag != nil {
		tail += "#" + *r.Frag
	}
	switch r.Form {
	case "abs":
		return r.Scheme + "://" + r.Auth.render() + renderPath(r.Path) + tail
	case "srel":
		return "//" + r.Auth.render() + renderPath(r.Path) + tail
	case "pabs":
		return renderPath(r.Path) + tail
	case "prel":
		return strings.Join(r.Path, "/") + tail
	case "query", "frag":
		return tail
	}
	return ""
}

// ---- Coq terms

// printable ASCII as a [bx "..."] literal (fast to elaborate), everything else as [hx "hex"]
func coqBytes(s string) string {
	for i := 0; i < len(s); i++ {
		if s[i] < 0x20 || s[i] > 0x7e {
			return coqHex([]byte(s))
		}
	}
	return "(bx \"" + strings.ReplaceAll(s, "\"", "\"\"") + "\")"
}
func coqOptBytes(s *string) string {
	if s == nil {
		return "None"
	}
	return "(Some " + coqBytes(*s) + ")"
}
func coqBytesList(l []string) string {
	items := make([]string, len(l))
	for i, s := range l {
		items[i] = coqBytes(s)
	}
	return coqList(items)
}
func (a *gAuth) coq() string {
	u := "None"
	if a.User != nil {
		u = fmt.Sprintf("(Some (%s, %s))", coqBytes(*a.User), coqOptBytes(a.Pass))
	}
	return fmt.Sprintf("(Auth %s %s %s)", u, coqBytesList(a.Host), coqOptBytes(a.Port))
}
func (r *gRef) coq() string {
	switch r.Form {
	case "abs":
		return fmt.Sprintf("(RAbs (Url %s %s %s %s %s))", coqBytes(r.Scheme), r.Auth.coq(), coqBytesList(r.Path), coqOptBytes(r.Query), coqOptBytes(r.Frag))
	case "srel":
		return fmt.Sprintf("(RSchemeRel %s %s %s %s)", r.Auth.coq(), coqBytesList(r.Path), coqOptBytes(r.Query), coqOptBytes(r.Frag))
	case "pabs":
		return fmt.Sprintf("(RPathAbs %s %s %s)", coqBytesList(r.Path), coqOptBytes(r.Query), coqOptBytes(r.Frag))
	case "prel":
		return fmt.Sprintf("(RPathRel %s %s %s)", coqBytesList(r.Path), coqOptBytes(r.Query), coqOptBytes(r.Frag))
	case "query":
		q := ""
		if r.Query != nil {
			q = *r.Query
		}
		return fmt.Sprintf("(RQuery %s %s)", coqBytes(q), coqOptBytes(r.Frag))
	}
	return fmt.Sprintf("(RFrag %s)", coqOptBytes(r.Frag))
}
func coqOptRef(r *gRef) string {
	if r == nil {
		return "None"
	}
	return "(Some " + r.coq() + ")"
}

// ---- generators

func pick(r *Rng, l []string) string { return l[r.Intn(len(l))] }

var urlLabels = []string{"www", "example", "archive", "a", "b", "c", "co", "test-1", "x9", "cdn", "EXAMPLE", "Www", "img2", "123", "4",
	"-lead", "trail-", "ab--cd", "xn--bcher-kva", "XN--Mnchen-3ya", "a-b-c"}
var urlTLDs = []string{"com", "org", "net", "uk", "io", "COM", "Org", "test", "a1", "it", "xn--p1ai", "x-"}
var urlHosts = [][]string{
	{"localhost"}, {"LOCALHOST"}, {"localhost", ""}, {"127", "0", "0", "1"}, {"127", "0", "0", "2"}, {"10", "0", "0", "1"},
	{"8", "8", "8", "8"}, {"255", "255", "255", "255"}, {"0", "0", "0", "0"}, {"intranet"}, {"a", "b", "c", "d", "e"},
	{"preview", "redd", "it"}, {"external-preview", "redd", "it"}, {"styles", "redditmedia", "com"}, {"PREVIEW", "redd", "it"},
	{"example", "com"}, {"example", "com"}, {"example", "com", ""}, {"www", "example", "org"}, {"localhost", "localdomain"},
	{"preview", "redd", "it"}, {"127", "0", "0", "1", "nip", "io"}, {"1", "2", "3", "4"},
}
var urlPorts = []string{"80", "443", "8080", "0", "65535", "65536", "0080", "", "00443", "8443", "1", "99999", "000", "00065535", "81", "444"}
var urlUsers = []string{"user", "u", "Admin", "a.b", "x_y~z", ""}
var urlSegs = []string{"a", "b", "c", "index.html", "img", "x_y", "~u", "A%20B", "%41", "%2f", "%2Fx", "%3a", "a+b", "a,b", "k=v", "p;q", "u@h", "wow!",
	"", ".", "..", "%2e", "%2E%2e", ".%2E", "%2e.", "...", "a.", ".a", "..a", "%2e%2e%2e", "dir", "Page", "1",
	"it's", "(x)", "a*b", "$1", "a&b", "t:1", "%2ea", "%2e%2e%2f", "%7e", "%00", "%ff"}
var urlKeys = []string{"a", "b", "z", "m", "q", "id", "ID", "x+y", "%41", "a%26b", "k%3D", "%e4%bd%a0", "a:b", "a/b", "u@h", "(x)", "a*b", "$1", "c,d", "w?", "",
	"a b", "'k'", "<k>", "k\"", "k\\", "{k}", "a|b", "^", "`"}
var urlVals = []string{"1", "2", "3", "4", "", "x+y", "%20", "%41", "a%26b", "%3D", "%E4%BD%A0", "http://o.example/p?x=1", "a:b", "-_.~", "v!", "%2B",
	"a b", "it's", "<v>", "\"v\"", "%3c", "%27", " ", "[1]", "%7E~"}
var urlBadPieces = []string{"k=%zz", "%=1", "a%2", "a;b=1", ";", "k=v=w", "=", "=v", "%", "x=%4", "%<=1", "k=%a'", "k=%'a"}
var urlFrags = []string{"", "top", "a/b?c=d", "sec-1", "x=1&y=2", "a b", "%41", "it's", "\"q\"", "<f>",
	"sec#2", "a#b#c", "#", "##", "x#", "#x", "%23", "s%23t", "s%23t#u", "?#", "a?b#c?d", "/#/"}
var urlOtherSchemes = []string{"ftp", "ws", "wss", "gopher", "foo", "FTP", "h2", "javascript", "httpx", "htt"}

func genHost(r *Rng) []string {
	if r.Chance(22) {
		h := urlHosts[r.Intn(len(urlHosts))]
		return append([]string{}, h...)
	}
	n := 1 + r.Intn(3)
	var h []string
	for i := 0; i < n; i++ {
		h = append(h, pick(r, urlLabels))
	}
	h = append(h, pick(r, urlTLDs))
	if r.Chance(5) {
		h = append(h, "")
	}
	return h
}

func genAuth(r *Rng) *gAuth {
	a := &gAuth{Host: genHost(r)}
	if r.Chance(25) {
		a.Port = sp(pick(r, urlPorts))
	}
	if r.Chance(14) {
		a.User = sp(pick(r, urlUsers))
		if r.Chance(60) {
			a.Pass = sp(pick(r, []string{"pw", "", "s3cret", "p.q"}))
		}
	}
	return a
}

func genPath(r *Rng, min int) []string {
	n := min + r.Intn(5)
	if min == 0 && r.Chance(12) {
		n = 0
	}
	var p []string
	for i := 0; i < n; i++ {
		if r.Chance(55) {
			p = append(p, pick(r, urlSegs[:18]))
		} else {
			p = append(p, pick(r, urlSegs))
		}
	}
	return p
}

var urlDroppable = []string{"", "", "x;y", "c=x;y", ";", "k=%zz", "%=1", "a%2", "x=%4", "k=%a'", "%zz", "s;t=1&u"}

// well-formed parameters with droppable pieces (empty, semicolon, invalid escape) placed in
// first / middle / last position: a well-formed parameter must survive whatever stands around it
func genDroppableQuery(r *Rng) string {
	n := 2 + r.Intn(3)
	var ps []string
	for i := 0; i < n; i++ {
		ps = append(ps, pick(r, urlKeys[:8])+"="+pick(r, urlVals[:12]))
	}
	ins := func(pos int) {
		ps = append(ps[:pos], append([]string{pick(r, urlDroppable)}, ps[pos:]...)...)
	}
	switch r.Intn(5) {
	case 0:
		ins(0)
	case 1:
		ins(1 + r.Intn(len(ps)-1))
	case 2:
		ins(len(ps))
	case 3:
		ins(len(ps))
		ins(0)
	default:
		ins(len(ps))
		ins(1 + r.Intn(len(ps)-1))
	}
	return strings.Join(ps, "&")
}

func genQuery(r *Rng) *string {
	if r.Chance(40) {
		return nil
	}
	if r.Chance(25) {
		return sp(genDroppableQuery(r))
	}
	n := r.Intn(6)
	var ps []string
	for i := 0; i < n; i++ {
		switch {
		case r.Chance(8):
			ps = append(ps, pick(r, urlBadPieces))
		case r.Chance(6):
			ps = append(ps, "")
		case r.Chance(10):
			ps = append(ps, pick(r, urlKeys))
		default:
			k := pick(r, urlKeys)
			if r.Chance(50) {
				k = pick(r, urlKeys[:5]) // small pool: repeated keys are common
			}
			ps = append(ps, k+"="+pick(r, urlVals))
		}
	}
	return sp(strings.Join(ps, "&"))
}

func genFrag(r *Rng) *string {
	if r.Chance(70) {
		return nil
	}
	return sp(pick(r, urlFrags))
}

func genScheme(r *Rng) string {
	switch x := r.Intn(100); {
	case x < 40:
		return "http"
	case x < 78:
		return "https"
	case x < 88:
		return pick(r, []string{"HTTP", "Https", "hTTp", "HTTPS"})
	default:
		return pick(r, urlOtherSchemes)
	}
}

func genAbs(r *Rng) *gRef {
	return &gRef{Form: "abs", Scheme: genScheme(r), Auth: genAuth(r), Path: genPath(r, 0), Query: genQuery(r), Frag: genFrag(r)}
}

// mostly acceptable absolute URLs (so that a parent exists)
func genGoodParent(r *Rng) *gRef {
	p := genAbs(r)
	if r.Chance(88) {
		p.Scheme = pick(r, []string{"http", "https", "HTTPS"})
		if len(p.Auth.Host) < 2 || p.Auth.Host[0] == "127" || p.Auth.Host[0] == "localhost" {
			p.Auth.Host = []string{pick(r, urlLabels), pick(r, urlTLDs)}
		}
		if p.Auth.Port != nil && (*p.Auth.Port == "65536" || *p.Auth.Port == "99999") {
			p.Auth.Port = nil
		}
	}
	return p
}

// a reference that is not absolute (used for parents that have a parent themselves)
func genRelative(r *Rng) *gRef {
	x := r.Intn(100)
	switch {
	case x < 12:
		return &gRef{Form: "srel", Auth: genAuth(r), Path: genPath(r, 0), Query: genQuery(r), Frag: genFrag(r)}
	case x < 40:
		p := genPath(r, 1)
		if len(p) > 1 && p[0] == "" {
			p[0] = "r"
		}
		return &gRef{Form: "pabs", Path: p, Query: genQuery(r), Frag: genFrag(r)}
	case x < 82:
		p := genPath(r, 1)
		if p[0] == "" {
			p[0] = pick(r, []string{"..", ".", "s", "%2e%2E"})
		}
		if strings.Contains(p[0], ":") {
			p[0] = "c"
		}
		return &gRef{Form: "prel", Path: p, Query: genQuery(r), Frag: genFrag(r)}
	case x < 93:
		q := genQuery(r)
		if q == nil {
			q = sp("")
		}
		return &gRef{Form: "query", Query: q, Frag: genFrag(r)}
	default:
		f := genFrag(r)
		return &gRef{Form: "frag", Frag: f}
	}
}

func genRef(r *Rng, withParent bool) *gRef {
	x := r.Intn(100)
	if !withParent {
		switch {
		case x < 55:
			return genAbs(r)
		case x < 78:
			a := genAuth(r)
			path := append([]string{strings.Join(a.Host, ".")}, genPath(r, 0)...)
			return &gRef{Form: "prel", Path: path, Query: genQuery(r), Frag: genFrag(r)}
		case x < 86:
			a := genAuth(r)
			path := append([]string{strings.Join(a.Host, ".")}, genPath(r, 0)...)
			return &gRef{Form: "pabs", Path: path, Query: genQuery(r), Frag: genFrag(r)}
		case x < 96:
			return &gRef{Form: "srel", Auth: genAuth(r), Path: genPath(r, 0), Query: genQuery(r), Frag: genFrag(r)}
		default:
			g := genRelative(r)
			if g.Form == "prel" || g.Form == "srel" || (g.Form == "pabs" && g.Path[0] != "") {
				g = &gRef{Form: "query", Query: sp("a=1"), Frag: genFrag(r)}
			}
			return g
		}
	}
	if x < 22 {
		return genAbs(r)
	}
	return genRelative(r)
}

var urlQuotes = []string{`"`, `'`, `"'`, `''`}

// the grammar excludes texts whose own first/last byte is a quote or a space (they are trimmed)
func edgeFix(g *gRef) {
	if g.Query != nil && strings.HasSuffix(*g.Query, " ") {
		g.Query = sp(*g.Query + "e") // the grammar has no query ending with a space
	}
	for k := 0; k < 4; k++ {
		t := g.render()
		if t == "" {
			return
		}
		bad := func(c byte) bool { return c == '"' || c == '\'' || c == ' ' }
		if !bad(t[0]) && !bad(t[len(t)-1]) {
			return
		}
		if bad(t[len(t)-1]) {
			switch {
			case g.Frag != nil:
				g.Frag = sp(*g.Frag + "e")
			case g.Query != nil:
				g.Query = sp(*g.Query + "e")
			case len(g.Path) > 0:
				g.Path[len(g.Path)-1] += "e"
			}
		}
		if bad(t[0]) && g.Form == "prel" {
			g.Path[0] = "s" + g.Path[0]
		}
	}
}

func genURLGrammar(r *Rng) *urlInput {
	in := &urlInput{Kind: "g"}
	if r.Chance(68) {
		if r.Chance(35) {
			in.GP = genGoodParent(r)
			in.Parent = genRelative(r)
			edgeFix(in.GP)
		} else {
			in.Parent = genGoodParent(r)
		}
		edgeFix(in.Parent)
	}
	in.Ref = genRef(r, in.Parent != nil)
	edgeFix(in.Ref)
	if r.Chance(8) {
		switch r.Intn(4) {
		case 0:
			in.QA = pick(r, urlQuotes)
		case 1:
			in.QB = pick(r, urlQuotes)
		default:
			in.QA = pick(r, urlQuotes)
			in.QB = in.QA
		}
	}
	return in
}

var urlOddTexts = []string{
	"", "?", "#", "/", "//", "///", ":", "://", "http://", "http:///x", "http:/a.b/", "http:a.b/c", "://a.b", "http://a.b:/", "http://a.b:x/",
	"http://[::1]/", "http://[2001:db8::1]/x", "http://[::ffff:127.0.0.1]/", "https://[2600:4040:23c7:a620:3642:ebaa:ab23:735e]:8080/t?b=1&a=2",
	"http://127.1/", "http://0x7f.0.0.1/", "http://2130706433/", "http://017700000001/", "http://127.0.0.1./", "http://1.2.3/", "http://1.2.3.4.5/",
	"http://localhost./x", "http://LOCALHOST/", "http://localhost:80/", "http://user@localhost/", "http://127.0.0.1:8080/",
	"javascript:alert(1)", "mailto:a@b.c", "data:,x", "tel:+1", "about:blank", "file:///etc/passwd", "ftp://ftp.example.com", "file://a.com/x",
	"http://münchen.de/", "http://例え.テスト/パス?キー=値", "http://xn--mnchen-3ya.de/", "http://xn--a.com/", "http://XN--MNCHEN-3YA.de/", "http://a.b/ü?ü=ü#ü",
	"http://a.b/x y?q=a b", "http://a.b/x?q='1'&r=\"2\"&s=<3>", "http://a.b/'", "http://a.b/x'", "http://a.b/?q='", "'http://a.b/x'\"", "\"\"", "''http://a.b''",
	"http://a.b\\c\\d", "http:\\\\a.b\\c", "\\\\a.b\\c", "/\\a.b/c", "http://a.b/%", "http://a.b/%zz", "http://a.b/%00", "http://a%2eb.c/", "http://a.b%2fc/",
	"http://a.b/?%", "http://a.b/?a=%zz&b=1", "http://u:p:q@a.b/", "http://u@v@a.b/", "http://@a.b/", "http://:@a.b/", "http://a.b:99999/", "http://a.b:-1/",
	"http://a..b/", "http://.a.b/", "http://a.b../", "http://-a.b/", "http://a-.b/", "http://a_b.c/", "http://a.b/;x=1?y=2;z=3", "HTTP://A.B/C?D=E#F",
	" http://a.b/", "http://a.b/ ", "\thttp://a.b/", "http://a.b/\n", "ht\ttp://a.b/", "http://a.\nb/", "http://a.b/x\ty", "http://a.b/?q=1\r\n",
	"www.example.com", "www.example.com:8080/x", "example.com/a/../b?z=1&a=2", "//example.com", "/path", "../x", "a/b", "?z=1&a=2", "#f", "a.b", "a.b?x#y",
	"http://a.b/?z=1&a=2&m=3&z=4", "http://preview.redd.it/x?b=1&a='2'", "http://a.b:80/", "https://a.b:443/", "http://a.b:443/", "https://a.b:80/", "http://a.b?", "http://a.b?#", "http://a.b/?&&", "http://a.b/?=",
	"http://a.b/a/./b/../c/%2e%2e/d/.", "http://a.b/..", "http://a.b/../..", "http://a.b//", "http://a.b//..//x", "http://a.b/x/%2E", "http://a.b/.%2e/x",
	"http://a.b/[x]", "http://a.b/{x}|^`", "http://a.b/%41 b", "http://a.b/x?a= ", "x?a= ", "%2fa/b", "%2Fa", "/x'", "x/y'", "?&",
	"other.html#sec#2", "http://a.b/x#s#2", "//o.example/p#s#2#3", "\\\\a.b\\c#s#2", "http:\\\\a.b\\c#s#2", "/p?#f#g", "x?#", "x#", "#", "##", "x#%23", "x%23y#z#", "?q#a#b", "//o.example#a#b", "http://a.b#a#b", "http://a.b/x?y#a?b#c", "%2e%2e%2fx|", "x%2fy^z", "http://a.b/d/%2e%2e%2fx|",
	"http://" + strings.Repeat("a", 64) + ".com/", "http://" + strings.Repeat("a.", 130) + "com/", "http://a.b/" + strings.Repeat("x/", 300),
}

func mutateText(r *Rng, s string) string {
	b := []byte(s)
	ins := func(i int, t string) { b = append(b[:i], append([]byte(t), b[i:]...)...) }
	n := 1 + r.Intn(3)
	for k := 0; k < n; k++ {
		pos := 0
		if len(b) > 0 {
			pos = r.Intn(len(b) + 1)
		}
		switch r.Intn(14) {
		case 0:
			ins(0, pick(r, []string{" ", "\t", "\n", "  ", "\r\n"}))
		case 1:
			b = append(b, []byte(pick(r, []string{" ", "\t", "\n", " \n", "\x00"}))...)
		case 2:
			ins(pos, pick(r, []string{" ", "\t", "\n", "\r", "\x00", "\x7f", "\x1f"}))
		case 3:
			b = []byte(strings.Replace(string(b), "/", "\\", 1+r.Intn(3)))
		case 4:
			ins(pos, pick(r, []string{"%", "%zz", "%00", "%2F", "%2f", "%25", "%c3%28", "%E2%82", "%u1234", "%2", "%%"}))
		case 5:
			ins(pos, pick(r, []string{"\"", "'", "`", "\"'"}))
		case 6:
			ins(pos, pick(r, []string{"ü", "é", "例", "\xff", "\xc3", "‮", "\u200b", "ß", "İ", "。"}))
		case 7:
			ins(pos, pick(r, []string{"@", ":", "@@", ":@", "u:p@", "#", "?", "&", "=", ";", "[", "]", "|", "^", "{", "}", "<", ">"}))
		case 8:
			if len(b) > 0 {
				i := r.Intn(len(b))
				b = append(b[:i], b[i+1:]...)
			}
		case 9:
			if len(b) > 0 {
				b[r.Intn(len(b))] = byte(r.Intn(256))
			}
		case 10:
			ins(pos, pick(r, []string{"xn--", "xn--a", "xn--mnchen-3ya.", "0x7f.", "127.1", "[::1]", "localhost", "127.0.0.1", ".", "..", "/../", "/./"}))
		case 11:
			b = []byte(strings.ToUpper(string(b)))
		case 12:
			ins(pos, pick(r, []string{":80", ":443", ":0", ":65536", ":", ":8a", ":-1", ":080"}))
		default:
			if len(b) > 2 {
				i := r.Intn(len(b) - 1)
				b[i], b[i+1] = b[i+1], b[i]
			}
		}
	}
	return string(b)
}

func genURL(r *Rng, i int, tier string) string {
	// the framework's seeds are one-step shifts of each other (seed 2, case i == seed 1, case
	// i+1); mixing the case index in makes the streams of different seeds really different
	r = &Rng{s: r.U64() ^ (uint64(i)+1)*0xD6E8FEB86659FD93}
	var in *urlInput
	if r.Chance(72) {
		in = genURLGrammar(r)
	} else {
		g := genURLGrammar(r)
		in = &urlInput{Kind: "m"}
		if g.Parent != nil {
			pg := g.Parent
			if g.GP != nil {
				pg = g.GP // an absolute one
			}
			pt := pg.render()
			if r.Chance(8) {
				pt = mutateText(r, pt)
			}
			h := hex.EncodeToString([]byte(pt))
			in.PH = &h
		}
		var t string
		switch {
		case r.Chance(30):
			t = pick(r, urlOddTexts)
			if r.Chance(30) {
				t = mutateText(r, t)
			}
		default:
			t = mutateText(r, g.QA+g.Ref.render()+g.QB)
		}
		in.RH = hex.EncodeToString([]byte(t))
	}
	switch x := r.Intn(100); {
	case x < 50:
		in.State = "p"
	case x < 60:
		in.State = "s"
	}
	j, _ := json.Marshal(in)
	return string(j)
}


// ---- the ada dot-segment defect (see coq/Url/Resolve.v, ada_misreads_path): the class of
// inputs on which the third-party parser keeps "." / ".." segments.  Computed from the INPUT
// texts (the cause), so that the known finding excuses exactly this class.

func isDotSegText(s string) bool {
	l := strings.ToLower(s)
	return l == "." || l == ".." || l == "%2e" || l == "%2e%2e" || l == ".%2e" || l == "%2e."
}

// ada's trivial-path test on the path text it consumes (without the leading '/')
func adaMisreads(input string) bool {
	if input == "" || input[0] == '.' {
		return false
	}
	dots := false
	for i := 0; i < len(input); i++ {
		c := input[i]
		switch {
		case c == '.':
			dots = true
		case c <= 0x20 || c == 0x22 || c == 0x23 || c == 0x3c || c == 0x3e || c == 0x3f || c == 0x60 || c == 0x7b || c == 0x7d || c > 0x7e || c == '%' || c == '\\':
			return false
		}
	}
	if !dots {
		return false
	}
	i := strings.Index(input, "/.")
	if i < 0 {
		return false
	}
	if i+2 == len(input) || input[i+2] == '.' || input[i+2] == '/' {
		return false
	}
	for _, seg := range strings.Split(input, "/") {
		if seg == "." || seg == ".." {
			return true
		}
	}
	return false
}

// net/url rebuilds the whole path from its DECODED form when the raw path contains a byte it
// considers invalid; '|' and '^' are the two such bytes that ada leaves alone.  Every escape of
// the path is then decoded (%2e%2e%2f becomes "../", %2f becomes a separator).
func netpathReescape(text string, pcanon string) bool {
	t := text
	if k := strings.IndexAny(t, "?#"); k >= 0 {
		t = t[:k]
	}
	t += canonPath(pcanon) // the escapes may come from the parent's path
	return strings.ContainsAny(t, "|^") && strings.Contains(t, "%")
}

// what net/url makes of a text before ada sees it (no parent, or absolute): when the raw path has a
// byte net/url does not accept, the path is rebuilt from its decoded form, escapes are gone
func goRerender(text string) string {
	u, err := url.Parse(strings.Trim(text, "\"'"))
	if err != nil {
		return ""
	}
	if u.Scheme == "" {
		u.Scheme = "http"
	}
	return u.String()
}

var schemeRe = regexp.MustCompile(`^[A-Za-z][A-Za-z0-9+.-]*:`)

// the path text of a canonical URL
func canonPath(u string) string {
	i := strings.Index(u, "://")
	if i < 0 {
		return ""
	}
	r := u[i+3:]
	j := strings.IndexAny(r, "/?#")
	if j < 0 || r[j] != '/' {
		return ""
	}
	r = r[j:]
	if k := strings.IndexAny(r, "?#"); k >= 0 {
		r = r[:k]
	}
	return r
}

// does the text (with this canonical parent, "" = none) fall into the defect's class?
func adaDotClass(text string, pcanon string) bool {
	t := strings.Trim(text, "\"'")
	t = strings.Trim(t, " \t\r\n\f") // ada strips these
	if k := strings.IndexByte(t, '#'); k >= 0 {
		t = t[:k]
	}
	if k := strings.IndexByte(t, '?'); k >= 0 {
		t = t[:k]
	}
	// ada reads a backslash as a slash in http(s) URLs: in front of and behind the authority it
	// is a separator like any other (the consumed path itself must be free of backslashes for
	// the defect to apply, which adaMisreads checks)
	isSep := func(c byte) bool { return c == '/' || c == '\\' }
	afterAuthority := func(r string) string { // r begins after "//"
		j := strings.IndexAny(r, "/\\")
		if j < 0 {
			return ""
		}
		return r[j+1:]
	}
	if pcanon != "" {
		for _, seg := range strings.Split(canonPath(pcanon), "/") {
			if isDotSegText(seg) {
				return true // the parent is itself a product of the defect
			}
		}
	}
	switch {
	case schemeRe.MatchString(t):
		r := t[strings.IndexByte(t, ':')+1:]
		return adaMisreads(afterAuthority(strings.TrimLeft(r, "/\\")))
	case len(t) >= 2 && isSep(t[0]) && isSep(t[1]):
		return adaMisreads(afterAuthority(strings.TrimLeft(t, "/\\")))
	case pcanon == "":
		// scheme-less without a parent: the first non-empty segment becomes the host
		return adaMisreads(afterAuthority(strings.TrimLeft(t, "/")))
	case len(t) >= 1 && isSep(t[0]):
		return adaMisreads(t[1:])
	default:
		pp := canonPath(pcanon)
		if strings.Count(pp, "/") <= 1 { // the base directory is the root
			return adaMisreads(t)
		}
		return false
	}
}

// ---- running the implementation

type urlObs struct {
	kind string // ok scheme host other panic
	text string
}

func (o urlObs) coq() string {
	switch o.kind {
	case "ok":
		return "(OOk " + coqBytes(o.text) + ")"
	case "scheme":
		return "OScheme"
	case "host":
		return "OHost"
	case "panic":
		return "OPanic"
	}
	return "OOther"
}

func normOnce(raw string, parent *models.URL) (o urlObs) {
	defer func() {
		if e := recover(); e != nil {
			o = urlObs{kind: "panic", text: fmt.Sprint(e)}
		}
	}()
	u := &models.URL{Raw: raw}
	if err := preprocessor.NormalizeURL(u, parent); err != nil {
		switch {
		case errors.Is(err, preprocessor.ErrUnsupportedScheme):
			return urlObs{kind: "scheme"}
		case errors.Is(err, preprocessor.ErrUnsupportedHost):
			return urlObs{kind: "host"}
		}
		return urlObs{kind: "other"}
	}
	return urlObs{kind: "ok", text: u.String()}
}

// one evaluation with the object in a given prior state; besides String() it reports the two other
// views of the result: Raw, and GetParsed().String() after String()
type urlTriple struct {
	o      urlObs
	raw    string
	parsed string
}

func (t urlTriple) coq(oname string) string {
	return fmt.Sprintf("(%s, %s, %s)", oname, coqBytes(t.raw), coqBytes(t.parsed))
}

func normState(raw string, parent *models.URL, st string) (t urlTriple) {
	defer func() {
		if e := recover(); e != nil {
			t = urlTriple{o: urlObs{kind: "panic", text: fmt.Sprint(e)}}
		}
	}()
	u := &models.URL{Raw: raw}
	if st == "p" || st == "s" {
		if err := u.Parse(); err == nil && st == "s" {
			_ = u.String()
		}
	}
	if err := preprocessor.NormalizeURL(u, parent); err != nil {
		switch {
		case errors.Is(err, preprocessor.ErrUnsupportedScheme):
			return urlTriple{o: urlObs{kind: "scheme"}}
		case errors.Is(err, preprocessor.ErrUnsupportedHost):
			return urlTriple{o: urlObs{kind: "host"}}
		}
		return urlTriple{o: urlObs{kind: "other"}}
	}
	t.raw = u.Raw
	t.o = urlObs{kind: "ok", text: u.String()}
	if p := u.GetParsed(); p != nil {
		t.parsed = p.String()
	}
	return t
}

// a fresh, normalised object for the text (nil when the text is rejected); String() rewrites
// the parsed URL's RawQuery and Host in place, so whether it was called before is part of the
// state a parent can be in
func freshURL(text *string, parent *models.URL, stringFirst bool) *models.URL {
	if text == nil {
		return nil
	}
	var p *models.URL
	func() {
		defer func() {
			if e := recover(); e != nil {
				p = nil
			}
		}()
		p = &models.URL{Raw: *text}
		if err := preprocessor.NormalizeURL(p, parent); err != nil {
			p = nil
			return
		}
		if stringFirst {
			_ = p.String()
		}
	}()
	return p
}

const urlRuns = 5

func hasDotSeg(p []string) bool {
	for _, s := range p {
		l := strings.ToLower(s)
		if l == "." || l == ".." || l == "%2e" || l == "%2e%2e" || l == ".%2e" || l == "%2e." {
			return true
		}
	}
	return false
}

func execURL(input string) Result {
	var in urlInput
	if err := json.Unmarshal([]byte(input), &in); err != nil {
		return Result{Term: "UC None None (hx \"\") None [] None None [] 0%N", Tags: []string{"bad-input"}}
	}
	var gtext, ptext *string
	var text, ast string
	var tags []string
	if in.Kind == "g" && in.Ref != nil {
		text = in.QA + in.Ref.render() + in.QB
		if in.Parent != nil {
			ptext = sp(in.Parent.render())
			if in.GP != nil {
				gtext = sp(in.GP.render())
			}
		}
		ast = fmt.Sprintf("(Some (%s, %s, %s, %s, %s))", coqOptRef(in.GP), coqOptRef(in.Parent), in.Ref.coq(), coqBytes(in.QA), coqBytes(in.QB))
		tags = append(tags, "stream:grammar", "form:"+in.Ref.Form)
		if in.QA != "" || in.QB != "" {
			tags = append(tags, "quoted")
		}
		if hasDotSeg(in.Ref.Path) {
			tags = append(tags, "dot-segments")
		}
		if in.Ref.Auth != nil {
			if in.Ref.Auth.User != nil {
				tags = append(tags, "userinfo")
			}
			if in.Ref.Auth.Port != nil {
				tags = append(tags, "port")
			}
		}
		if in.GP != nil {
			tags = append(tags, "grandparent")
		}
		if in.Ref.Frag != nil {
			tags = append(tags, "fragment")
		}
	} else {
		ast = "None"
		b, _ := hex.DecodeString(in.RH)
		text = string(b)
		if in.PH != nil {
			pb, _ := hex.DecodeString(*in.PH)
			ptext = sp(string(pb))
		}
		tags = append(tags, "stream:mutated")
	}
	// query statistics on the text
	if i := strings.IndexAny(text, "?#"); i >= 0 && text[i] == '?' {
		q := text[i+1:]
		if j := strings.IndexByte(q, '#'); j >= 0 {
			q = q[:j]
		}
		if parts := strings.Split(q, "&"); len(parts) >= 2 {
			dropp := func(p string) bool {
				if p == "" || strings.Contains(p, ";") {
					return true
				}
				k, v, _ := strings.Cut(p, "=")
				_, e1 := url.QueryUnescape(k)
				_, e2 := url.QueryUnescape(v)
				return e1 != nil || e2 != nil
			}
			for i, p := range parts {
				if dropp(p) {
					switch {
					case i == 0:
						tags = append(tags, "query:droppable-first")
					case i == len(parts)-1:
						tags = append(tags, "query:droppable-last")
					default:
						tags = append(tags, "query:droppable-middle")
					}
				}
			}
		}
		keys := map[string]int{}
		np := 0
		for _, p := range strings.Split(q, "&") {
			if p == "" {
				continue
			}
			np++
			k, _, _ := strings.Cut(p, "=")
			keys[k]++
		}
		switch {
		case np == 0:
			tags = append(tags, "query:empty")
		case np == 1:
			tags = append(tags, "query:1")
		default:
			tags = append(tags, "query:2+")
		}
		if len(keys) >= 2 {
			tags = append(tags, "query:2+keys")
		}
		for _, c := range keys {
			if c > 1 {
				tags = append(tags, "query:repeated-key")
				break
			}
		}
	} else {
		tags = append(tags, "query:none")
	}

	mkParent := func(stringFirst bool) *models.URL {
		return freshURL(ptext, freshURL(gtext, nil, stringFirst), stringFirst)
	}

	// the parent as the implementation canonicalises it
	pcanon := "None"
	pc := mkParent(true)
	switch {
	case ptext == nil:
		tags = append(tags, "parent:none")
	case pc == nil:
		tags = append(tags, "parent:rejected")
	default:
		tags = append(tags, "parent:used")
		pcs := pc.String()
		pcanon = "(Some " + coqBytes(pcs) + ")"
		if strings.Contains(pcs, "@") {
			tags = append(tags, "parent-userinfo")
		}
	}

	pcs := ""
	if pc != nil {
		pcs = pc.String()
	}
	if adaDotClass(text, pcs) || adaDotClass(goRerender(text), pcs) {
		tags = append(tags, "ada-dotpath")
	}
	if netpathReescape(text, pcs) {
		tags = append(tags, "netpath-reescape")
	}
	if !utf8.ValidString(text) || (ptext != nil && !utf8.ValidString(*ptext)) {
		tags = append(tags, "invalid-utf8")
	}

	var outs []string
	var first urlObs
	var firstT urlTriple
	for k := 0; k < urlRuns; k++ {
		// fresh objects every time; on odd runs the parent's String() has not been called yet
		var o urlObs
		if k == 0 {
			firstT = normState(text, mkParent(true), "")
			o = firstT.o
		} else {
			o = normOnce(text, mkParent(k%2 == 0))
		}
		if o.kind == "panic" {
			tags = append(tags, "panic")
			note("panic in NormalizeURL/String on " + fmt.Sprintf("%q", text) + ": " + o.text)
		}
		if k == 0 {
			first = o
		}
		co := o.coq()
		if k > 0 && o == first {
			co = "o" // shared through the let below: the term is still the list of all answers
		}
		outs = append(outs, co)
	}
	o0 := outs[0]
	outs[0] = "o"
	again := "None"
	tags = append(tags, "result:"+first.kind)
	if first.kind == "ok" {
		o := normOnce(first.text, nil)
		again = "(Some " + o.coq() + ")"
		if o == first {
			again = "(Some o)"
		}
		if strings.HasSuffix(first.text, "'") || strings.HasSuffix(first.text, "\"") {
			tags = append(tags, "result:ends-with-quote")
		}
	}
	pt := "None"
	if ptext != nil {
		pt = "(Some " + coqBytes(*ptext) + ")"
	}
	// the text cut at its first '#' (monitor 6: the fragment plays no role)
	nofrag := "None"
	if tt := strings.Trim(text, "\"'"); strings.Contains(tt, "#") {
		pre := tt[:strings.IndexByte(tt, '#')]
		inner := strings.Count(tt, "#") - 1
		switch {
		case inner == 0:
			tags = append(tags, "frag:plain")
		case inner == 1:
			tags = append(tags, "frag:1-inner-hash")
		default:
			tags = append(tags, "frag:2+inner-hash")
		}
		if strings.HasSuffix(pre, "?") {
			tags = append(tags, "frag:after-bare-?")
		}
		if pre != "" {
			o := normOnce(pre, mkParent(true))
			oc := o.coq()
			if o == first {
				oc = "o"
			}
			nofrag = fmt.Sprintf("(Some (%s, %s))", coqBytes(pre), oc)
		}
	}
	// the same text on an object in another prior state (monitors 8, 9: the answer is a function
	// of the text and the parent, not of the object's history)
	states := []string{"t0"}
	stcode := "0%N"
	switch in.State {
	case "p", "s":
		tags = append(tags, map[string]string{"p": "state:preparsed", "s": "state:stringed"}[in.State])
		stcode = map[string]string{"p": "1%N", "s": "2%N"}[in.State]
		t := normState(text, mkParent(true), in.State)
		switch {
		case t == firstT:
			states = append(states, "t0")
		case t.o == first:
			states = append(states, t.coq("o"))
		default:
			states = append(states, t.coq(t.o.coq()))
		}
	default:
		tags = append(tags, "state:fresh")
	}
	return Result{
		Term: fmt.Sprintf("(let o : obs := %s in let t0 : obs * bytes * bytes := %s in UC %s %s %s %s %s %s %s %s %s)",
			o0, firstT.coq("o"), ast, pt, coqBytes(text), pcanon, coqList(outs), again, nofrag, coqList(states), stcode),
		Tags:       tags,
		Nontrivial: first.kind == "ok" && (pc != nil || first.text != text),
	}
}

// ---- shrinking

func shrinkURL(input string) []string {
	var in urlInput
	if json.Unmarshal([]byte(input), &in) != nil {
		return nil
	}
	var out []string
	emit := func(x *urlInput) {
		j, _ := json.Marshal(x)
		out = append(out, string(j))
	}
	clone := func() *urlInput {
		var c urlInput
		json.Unmarshal([]byte(input), &c)
		return &c
	}
	if in.Kind == "m" {
		b, _ := hex.DecodeString(in.RH)
		if in.PH != nil {
			c := clone()
			c.PH = nil
			emit(c)
		}
		for _, w := range []int{len(b) / 2, len(b) / 4, 4, 1} {
			if w <= 0 || w > len(b) {
				continue
			}
			for i := 0; i+w <= len(b); i += w {
				c := clone()
				nb := append(append([]byte{}, b[:i]...), b[i+w:]...)
				c.RH = hex.EncodeToString(nb)
				emit(c)
			}
		}
		return out
	}
	shrinkRef := func(get func(*urlInput) *gRef) {
		r := get(&in)
		if r == nil {
			return
		}
		for i := range r.Path {
			if (r.Form == "prel" || r.Form == "pabs") && len(r.Path) == 1 {
				break
			}
			c := clone()
			cr := get(c)
			cr.Path = append(append([]string{}, cr.Path[:i]...), cr.Path[i+1:]...)
			if (cr.Form == "prel" || cr.Form == "pabs") && len(cr.Path) > 0 && cr.Path[0] == "" {
				continue
			}
			emit(c)
		}
		if r.Query != nil {
			ps := strings.Split(*r.Query, "&")
			for i := range ps {
				c := clone()
				np := append(append([]string{}, ps[:i]...), ps[i+1:]...)
				get(c).Query = sp(strings.Join(np, "&"))
				emit(c)
			}
			if r.Form != "query" {
				c := clone()
				get(c).Query = nil
				emit(c)
			}
		}
		if r.Frag != nil {
			c := clone()
			get(c).Frag = nil
			emit(c)
		}
		if r.Auth != nil {
			if r.Auth.User != nil {
				c := clone()
				get(c).Auth.User, get(c).Auth.Pass = nil, nil
				emit(c)
			}
			if r.Auth.Port != nil {
				c := clone()
				get(c).Auth.Port = nil
				emit(c)
			}
			if len(r.Auth.Host) > 2 {
				c := clone()
				get(c).Auth.Host = get(c).Auth.Host[1:]
				emit(c)
			}
		}
	}
	if in.GP != nil {
		// the parent becomes the (absolute) grandparent
		c := clone()
		c.Parent, c.GP = c.GP, nil
		emit(c)
	}
	if in.Parent != nil && in.Ref != nil && (in.Ref.Form == "abs" || in.Ref.Form == "srel") {
		c := clone()
		c.Parent, c.GP = nil, nil
		emit(c)
	}
	if in.QA != "" || in.QB != "" {
		c := clone()
		c.QA, c.QB = "", ""
		emit(c)
	}
	shrinkRef(func(x *urlInput) *gRef { return x.Ref })
	shrinkRef(func(x *urlInput) *gRef { return x.Parent })
	shrinkRef(func(x *urlInput) *gRef { return x.GP })
	return out
}

func init() {
	register(&Driver{
		Name:     "url",
		Header:   "From ZenoV Require Import Lib.Hex Lib.Harness Url.Lit Url.RefUrl Url.UrlHarness.\n",
		CaseType: "ucase",
		Footer:   stdFooter,
		Rule:     "one case = (optional parent text [itself optionally relative to a grandparent], URL text), normalised by the real NormalizeURL + URL.String() on fresh objects 5 times (odd runs before the parent's String() was ever called) and once more on the first output; in-grammar cases carry the generator's ASTs and are compared with the reference normaliser, mutated cases are checked by the monitors only; distinct by input text; non-trivial when the URL was accepted and a parent was used or the canonical text differs from the input text",
		Setup: func() {
			slog.SetDefault(slog.New(slog.NewTextHandler(io.Discard, nil)))
		},
		Gen:    genURL,
		Exec:   execURL,
		Shrink: shrinkURL,
	})
}
