//go:build verif

package main

// C09, second leg: "relative references resolve against the parent as the URL standard
// prescribes" through the pipeline.  A seed is preprocessed by the REAL preprocess(), answered with
// a 3xx whose Location header is a reference text of the url generator (with a large share of
// texts on which RFC 3986 / net/url and the URL standard disagree: backslashes, tabs, leading and
// trailing spaces, "\\host", "/\host", %2e dot segments, empty / "." / ".." ...), postprocessed by
// the REAL postprocessItem() and preprocessed again.  The URL of the request built for the
// redirect target is compared with the model's [normalize parent reference] (in-grammar cases)
// and with NormalizeURL called directly on (Location text, parent) (every case).

import (
	"encoding/hex"
	"encoding/json"
	"fmt"
	"io"
	"log/slog"
	"net/http"
	"os"
	"strings"
	"unicode/utf8"

	"github.com/internetarchive/Zeno/internal/pkg/config"
	"github.com/internetarchive/Zeno/internal/pkg/postprocessor"
	"github.com/internetarchive/Zeno/internal/pkg/preprocessor"
	"github.com/internetarchive/Zeno/internal/pkg/stats"
	"github.com/internetarchive/Zeno/pkg/models"
)

var redirDir string

func setupRedir() {
	dir, err := os.MkdirTemp("", "zv-urlredir")
	if err != nil {
		panic(err)
	}
	if err := os.Chdir(dir); err != nil {
		panic(err)
	}
	redirDir = dir
	slog.SetDefault(slog.New(slog.NewTextHandler(io.Discard, nil)))
	config.InitConfig()
	c := config.Get()
	c.Job = "urlredirjob"
	c.WorkersCount = 1
	c.NoStdoutLogging, c.NoStderrLogging, c.NoFileLogging = true, true, true
	c.UserAgent = "zv"
	c.DisableSeencheck = true
	c.MaxRedirect = 20
	if err := config.GenerateCrawlConfig(); err != nil {
		panic(err)
	}
	// the scope filters are another property's business (C05): no host is excluded here
	c.ExcludeHosts, c.IncludeHosts, c.IncludeString, c.ExcludeString = nil, nil, nil, nil
	os.MkdirAll(c.JobPath, 0o755)
	stats.Init()
}

func teardownRedir() {
	os.Chdir("/")
	os.RemoveAll(redirDir)
}

// references on which RFC 3986 (net/url) and the URL standard (ada) disagree, and plain ones
var redirTexts = []string{
	`\docs\page`, `..\up`, `\\cdn.example.com\z`, `/\host.tld/x`, `\/host.tld/x`, `\\host.tld`, `//host.tld\p\q`, `http:\\a.b\c`, `https:\\a.b/c\d`,
	`x\y`, `x\..\y`, `\`, `\\`, `.\x`, `a/b\..\c`, `\x?q=\y`, `\x#\f`, `/a\b/../c`,
	"a\tb", "/a\t/b", "x?q=\t1", "\t/x", "/x\t", "  /x  ", " x", "x ", " //host.tld/x ", "\x01/x", "/x\x1f", "/x\x7f",
	"%2e%2e/x", "%2E/x", ".%2e/x/", "x/%2e%2e", "x/%2e", "%2e%2e%2fx", "..", ".", "", "./", "../", "../..", "../../../x", "./.", "x/./y/../z", "x/..", "/..", "/.", "/./x/../",
	"?", "?q", "#", "#f", "?#", "x#a#b", "http:x", "http:/x", "https:/x", "https:x", "http:///x", "http://", "//", "///host.tld/x", "////x",
	"/x", "x", "//host.tld/x", "//HOST.tld:443/x", "http://host.tld/x", "https://u:p@Host.TLD:8443/a/../b?z=1&a=2#f", "ftp://host.tld/", "mailto:a@b.c", "javascript:void(0)",
	"//localhost/x", "//127.0.0.1/", "http://intranet/", "/x y", "/x%20y", "/%zz", "/ü", "/x?ü=é", "//münchen.de/", "/a|b", "/a^b", "/%2e%2e%2fx|",
	"'/quoted'", "\"//host.tld/q\"", "/x'", "x;p=1", "/a//b", "/a/./b/", "index.html?a=1&&b=2;c&d", "?&", "//host.tld", "//host.tld?x", "//host.tld#f", "//u:p@host.tld/", "//host.tld:99999/",
}

func genRedir(r *Rng, i int, tier string) string {
	r = &Rng{s: r.U64() ^ (uint64(i)+1)*0xD6E8FEB86659FD93}
	seed := genGoodParent(r)
	// a seed that the real code accepts almost always
	seed.Scheme = pick(r, []string{"http", "https", "HTTPS"})
	if len(seed.Auth.Host) < 2 || seed.Auth.Host[0] == "127" || seed.Auth.Host[0] == "localhost" {
		seed.Auth.Host = []string{pick(r, urlLabels), pick(r, urlTLDs)}
	}
	if seed.Auth.Port != nil && (*seed.Auth.Port == "65536" || *seed.Auth.Port == "99999") {
		seed.Auth.Port = nil
	}
	edgeFix(seed)
	var in *urlInput
	switch x := r.Intn(100); {
	case x < 40:
		ref := genRef(r, true)
		edgeFix(ref)
		in = &urlInput{Kind: "g", Parent: seed, Ref: ref}
	case x < 75:
		t := pick(r, redirTexts)
		if r.Chance(25) {
			t = mutateText(r, t)
		}
		h := hex.EncodeToString([]byte(seed.render()))
		in = &urlInput{Kind: "m", PH: &h, RH: hex.EncodeToString([]byte(t))}
	default:
		ref := genRef(r, true)
		t := ref.render()
		switch r.Intn(4) {
		case 0:
			t = strings.ReplaceAll(t, "/", "\\")
		case 1:
			t = strings.Replace(t, "/", "\\", 1+r.Intn(2))
		default:
			t = mutateText(r, t)
		}
		h := hex.EncodeToString([]byte(seed.render()))
		in = &urlInput{Kind: "m", PH: &h, RH: hex.EncodeToString([]byte(t))}
	}
	j, _ := json.Marshal(in)
	return string(j)
}

// what net/http delivers as a header value: no CR, LF or NUL inside, no blanks around
func wireHeaderValue(s string) string {
	s = strings.Map(func(c rune) rune {
		if c == '\r' || c == '\n' || c == 0 {
			return -1
		}
		return c
	}, s)
	return strings.Trim(s, " \t")
}

func execRedir(input string) Result {
	var in urlInput
	if err := json.Unmarshal([]byte(input), &in); err != nil {
		return Result{Term: "RC None (hx \"\") (hx \"\") None RRemoved OOther", Tags: []string{"bad-input"}}
	}
	var ptext, loc, ast string
	var tags []string
	if in.Kind == "g" && in.Ref != nil && in.Parent != nil {
		ptext, loc = in.Parent.render(), in.QA+in.Ref.render()+in.QB
		if wireHeaderValue(loc) == loc && in.QA == "" && in.QB == "" {
			ast = fmt.Sprintf("(Some (%s, %s))", in.Parent.coq(), in.Ref.coq())
		} else {
			ast = "None"
		}
		tags = append(tags, "stream:grammar", "form:"+in.Ref.Form)
		if hasDotSeg(in.Ref.Path) {
			tags = append(tags, "dot-segments")
		}
	} else {
		ast = "None"
		if in.PH != nil {
			b, _ := hex.DecodeString(*in.PH)
			ptext = string(b)
		}
		b, _ := hex.DecodeString(in.RH)
		loc = string(b)
		tags = append(tags, "stream:mutated")
	}
	loc = wireHeaderValue(loc)
	switch {
	case strings.Contains(loc, "\\"):
		tags = append(tags, "loc:backslash")
	case strings.ContainsAny(loc, "\t\x01\x1f\x7f"):
		tags = append(tags, "loc:control")
	case strings.Contains(strings.ToLower(loc), "%2e"):
		tags = append(tags, "loc:%2e")
	}

	pcanon, out, direct := "None", "RRemoved", "OOther"
	nontrivial := false
	func() {
		defer func() {
			if e := recover(); e != nil {
				out = "RPanic"
				tags = append(tags, "panic")
				note(fmt.Sprintf("panic in the redirect path on seed %q Location %q: %v", ptext, loc, e))
			}
		}()
		seed := models.NewItem("seed", &models.URL{Raw: ptext}, "")
		if p := preprocessor.VerifScopePreprocess(seed); p != "" {
			panic(p)
		}
		req := seed.GetURL().GetRequest()
		if seed.GetStatus() != models.ItemPreProcessed || req == nil {
			tags = append(tags, "seed:rejected")
			return
		}
		pcs := seed.GetURL().String()
		pcanon = "(Some " + coqBytes(pcs) + ")"
		if adaDotClass(loc, pcs) || adaDotClass(goRerender(loc), pcs) {
			tags = append(tags, "ada-dotpath")
		}
		if netpathReescape(loc, pcs) {
			tags = append(tags, "netpath-reescape")
		}
		if !utf8.ValidString(loc) {
			tags = append(tags, "invalid-utf8")
		}
		// NormalizeURL called directly on the same text with an equivalent parent
		pt := ptext
		direct = normOnce(loc, freshURL(&pt, nil, true)).coq()

		seed.GetURL().SetResponse(&http.Response{
			StatusCode: []int{301, 302, 303, 307, 308}[len(loc)%5],
			Header:     http.Header{"Location": []string{loc}},
			Request:    req,
		})
		seed.SetStatus(models.ItemArchived)
		postprocessor.VerifPostprocessItem(seed)
		if len(seed.GetChildren()) != 1 {
			tags = append(tags, "no-redirect-child")
			return
		}
		if p := preprocessor.VerifScopePreprocess(seed); p != "" {
			panic(p)
		}
		ch := seed.GetChildren()
		if len(ch) == 0 {
			tags = append(tags, "result:removed")
			return
		}
		u := ch[0].GetURL()
		reqText := ""
		if r := u.GetRequest(); r != nil && r.URL != nil {
			reqText = r.URL.String()
		}
		out = fmt.Sprintf("(ROk %s %s)", coqBytes(u.String()), coqBytes(reqText))
		tags = append(tags, "result:ok")
		nontrivial = true
	}()
	return Result{
		Term:       fmt.Sprintf("RC %s %s %s %s %s %s", ast, coqBytes(ptext), coqBytes(loc), pcanon, out, direct),
		Tags:       tags,
		Nontrivial: nontrivial,
	}
}

func init() {
	register(&Driver{
		Name:     "urlredir",
		Header:   "From ZenoV Require Import Lib.Hex Lib.Harness Url.Lit Url.RefUrl Url.UrlHarness.\n",
		CaseType: "rcase",
		Footer:   "\nDefinition DIFF := Eval vm_compute in rdiffs cases.\nPrint DIFF.\nDefinition MON := Eval vm_compute in rmons cases.\nPrint MON.\n",
		Rule:     "one case = (seed text, Location text): the seed goes through the real preprocess(), gets a 3xx response with that Location header, the real postprocessItem() and preprocess() again; observed: String() and request URL of the redirect target (or its removal), and NormalizeURL called directly on the same pair; distinct by input text; non-trivial when a request was built for the target",
		Setup:    setupRedir,
		Gen:      genRedir,
		Exec:     execRedir,
		Shrink:   shrinkURL,
		Teardown: teardownRedir,
	})
}
