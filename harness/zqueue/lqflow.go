//go:build verif

package main

// lqchild: ONE history against the REAL local-queue source (lq.Start: consumer, producer, finisher
// goroutines on a scratch lq.db) in ONE process.  Driver "lqflow" replays what was observed on
// Queue/Batcher.v (producer in sync mode, finisher) and Queue/LqDb.v.

import (
	"encoding/hex"
	"encoding/json"
	"fmt"
	"net/url"
	"os"
	"sort"
	"strconv"
	"strings"
	"sync"
	"time"
	"unicode/utf8"

	"github.com/google/uuid"
	"github.com/internetarchive/Zeno/internal/pkg/config"
	"github.com/internetarchive/Zeno/internal/pkg/reactor"
	"github.com/internetarchive/Zeno/internal/pkg/source/lq"
	"github.com/internetarchive/Zeno/internal/pkg/source/lq/sqlc_model"
	"github.com/internetarchive/Zeno/internal/pkg/verifhook"
	"github.com/internetarchive/Zeno/pkg/models"
)

type LSpec struct {
	Workers int      `json:"workers"`
	Items   []QItem  `json:"items"`
	Steps   []string `json:"steps"` // P<k> produce, W wait for the adds, X wait for claims + planned deletes
	Fin     string   `json:"fin"`
	Dir     string   `json:"dir"`
	WaitMs  int      `json:"wait_ms"`
	PP      string   `json:"pp"` // outlinks from the real postprocessor (pptree.go); step "PA" produces them all
	PPHops  int      `json:"pp_hops"`
}

type LRow struct {
	ID     string `json:"id"`
	V      string `json:"v"`
	Via    string `json:"via"`
	Hops   int64  `json:"hops"`
	Status string `json:"status"`
}

type LEvent struct {
	K    string `json:"k"` // R produce | A lq.added | C lq.claimed | S seed | F finish | D lq.deleted
	I    int    `json:"i,omitempty"`
	Rows []LRow `json:"rows,omitempty"`
	ID   string `json:"id,omitempty"`
	V    string `json:"v,omitempty"`
	Via  string `json:"via,omitempty"`
	Hops int    `json:"hops,omitempty"`
}

type LResult struct {
	Events   []LEvent `json:"events"`
	Final    []LRow   `json:"final"`
	TimedOut bool     `json:"timed_out"`
	Panic    string   `json:"panic,omitempty"`
}

func lrows(us []sqlc_model.Url) []LRow {
	out := make([]LRow, len(us))
	for i, u := range us {
		out[i] = LRow{ID: hx(u.ID), V: hx(u.Value), Via: hx(u.Via), Hops: u.Hops, Status: u.Status}
	}
	return out
}

func runLQChild(spec *LSpec) (res LResult) {
	var mu sync.Mutex
	var events []LEvent
	added, claimed, deleted, finished := 0, 0, 0, 0
	logEv := func(e LEvent) { events = append(events, e) }
	defer func() {
		if r := recover(); r != nil {
			res.Panic = fmt.Sprint(r)
		}
		mu.Lock()
		res.Events = append([]LEvent(nil), events...)
		mu.Unlock()
	}()

	config.InitConfig()
	c := config.Get()
	c.Job = "lqchild"
	c.JobPath = spec.Dir
	c.NoStdoutLogging, c.NoStderrLogging, c.NoFileLogging = true, true, true
	c.WorkersCount = spec.Workers

	verifhook.SetHandler(func(point string, arg any) {
		switch point {
		case "lq.added":
			us := arg.([]sqlc_model.Url)
			mu.Lock()
			logEv(LEvent{K: "A", Rows: lrows(us)})
			added += len(us)
			mu.Unlock()
		case "lq.claimed":
			us := arg.([]sqlc_model.Url)
			mu.Lock()
			logEv(LEvent{K: "C", Rows: lrows(us)})
			claimed += len(us)
			mu.Unlock()
		case "lq.deleted":
			us := arg.([]sqlc_model.Url)
			mu.Lock()
			logEv(LEvent{K: "D", Rows: lrows(us)})
			deleted += len(us)
			mu.Unlock()
		}
	})

	var ppOuts []ppOut
	if spec.PP != "" {
		var err error
		if ppOuts, err = buildOutlinks(spec.PP, spec.PPHops, spec.Dir); err != nil {
			panic("pp tree: " + err.Error())
		}
	}

	reactorOut := make(chan *models.Item)
	finishCh := make(chan *models.Item)
	produceCh := make(chan *models.Item)
	if err := reactor.Start(4*len(spec.Steps)+len(ppOuts)+16, reactorOut); err != nil {
		panic(err)
	}
	if err := lq.Start(finishCh, produceCh); err != nil {
		panic(err)
	}

	stopSeeds := make(chan struct{})
	seedsDone := make(chan struct{})
	go func() {
		defer close(seedsDone)
		k := 0
		for {
			select {
			case <-stopSeeds:
				return
			case seed := <-reactorOut:
				act := byte('0')
				if len(spec.Fin) > 0 {
					act = spec.Fin[k%len(spec.Fin)]
				}
				k++
				mu.Lock()
				logEv(LEvent{K: "S", ID: hx(seed.GetID()), V: hx(seed.GetURL().Raw), Via: hx(seed.GetSeedVia()), Hops: seed.GetURL().GetHops()})
				mu.Unlock()
				if act == 'H' {
					continue
				}
				for j := 0; j < int(act-'0'); j++ {
					cu := &models.URL{Raw: fmt.Sprintf("http://child.test/%d", j)}
					cu.Parse()
					seed.AddChild(models.NewItem(uuid.NewString(), cu, ""), models.ItemGotChildren)
				}
				if err := reactor.MarkAsFinished(seed); err != nil {
					panic(err)
				}
				mu.Lock()
				logEv(LEvent{K: "F", ID: hx(seed.GetID())})
				finished++
				mu.Unlock()
				select {
				case finishCh <- seed:
				case <-stopSeeds:
					return
				}
			}
		}
	}()

	deadline := time.Now().Add(time.Duration(spec.WaitMs) * time.Millisecond)
	waitFor := func(cond func() bool) bool {
		for {
			mu.Lock()
			ok := cond()
			mu.Unlock()
			if ok {
				return true
			}
			if time.Now().After(deadline) {
				return false
			}
			time.Sleep(25 * time.Millisecond)
		}
	}
	// every claimable row claimed, every seed the plan finishes (and every unparsable row, which
	// lq.consumerSender finishes itself) deleted
	drained := func() bool {
		rows, err := lq.VerifClient().VerifRows()
		if err != nil {
			return false
		}
		for _, r := range rows {
			if r.Status == "FRESH" {
				return false
			}
		}
		mu.Lock()
		defer mu.Unlock()
		want, k := 0, 0
		for _, e := range events {
			if e.K != "C" {
				continue
			}
			for _, r := range e.Rows {
				if _, err := url.ParseRequestURI(unhex(r.V)); err != nil {
					want++
					continue
				}
				act := byte('0')
				if len(spec.Fin) > 0 {
					act = spec.Fin[k%len(spec.Fin)]
				}
				k++
				if act != 'H' {
					want++
				}
			}
		}
		return deleted >= want
	}
	waitDrained := func() bool {
		for {
			if drained() {
				return true
			}
			if time.Now().After(deadline) {
				return false
			}
			time.Sleep(40 * time.Millisecond)
		}
	}

	produced := 0
	for _, st := range spec.Steps {
		if res.TimedOut {
			break
		}
		switch st {
		case "W":
			n := produced
			if !waitFor(func() bool { return added >= n }) {
				res.TimedOut = true
			}
		case "X":
			n := produced
			if !waitFor(func() bool { return added >= n }) || !waitDrained() {
				res.TimedOut = true
			}
		default:
			type prod struct {
				item *models.Item
				ev   LEvent
			}
			var todo []prod
			if st == "PA" {
				for k, o := range ppOuts {
					todo = append(todo, prod{o.item, LEvent{K: "R", I: k, V: hx(o.text), Via: hx(o.docURL), Hops: o.docHops}})
				}
			} else {
				k, _ := strconv.Atoi(st[1:])
				it := spec.Items[k]
				v, _ := hex.DecodeString(it.V)
				via, _ := hex.DecodeString(it.Via)
				todo = append(todo, prod{models.NewItem(uuid.NewString(), &models.URL{Raw: string(v), Hops: it.Hops}, string(via)), LEvent{K: "R", I: k}})
			}
			for _, pr := range todo {
				if res.TimedOut {
					break
				}
				item := pr.item
				mu.Lock()
				logEv(pr.ev)
				mu.Unlock()
				sent := make(chan struct{})
				go func() { produceCh <- item; close(sent) }()
				select {
				case <-sent:
					produced++
				case <-time.After(time.Until(deadline)):
					res.TimedOut = true
				}
			}
		}
	}
	if !res.TimedOut {
		n := produced
		if !waitFor(func() bool { return added >= n }) || !waitDrained() {
			res.TimedOut = true
		}
	}
	time.Sleep(100 * time.Millisecond)
	close(stopSeeds)
	<-seedsDone
	if rows, err := lq.VerifClient().VerifRows(); err == nil {
		res.Final = lrows(rows)
	}
	return res
}

func init() {
	subcommands["lqchild"] = func(args []string) {
		var spec LSpec
		if err := json.Unmarshal([]byte(args[0]), &spec); err != nil {
			fmt.Fprintln(os.Stderr, "bad spec:", err)
			os.Exit(2)
		}
		res := runLQChild(&spec)
		out, _ := json.Marshal(res)
		os.Stdout.Write(out)
		os.Stdout.Write([]byte("\n"))
		os.Exit(0)
	}
	register(&Driver{
		Name:           "lqflow",
		CaseTimeoutSec: 3600, // Exec of the first case waits for the child pool that pre-runs the whole batch
		Header:         "From ZenoV Require Import Lib.Harness Lib.Hex Queue.HopsPath Queue.Batcher Queue.LqDb Queue.QueueHarness.\nOpen Scope Z_scope.\n",
		CaseType:       "qcase",
		Footer:         "\nDefinition DIFF := Eval vm_compute in qdiffs cases.\nPrint DIFF.\nDefinition MON := Eval vm_compute in qmons cases.\nPrint MON.\n",
		Rule:           "one case = one run of the real lq source (lq.Start: consumer, producer, finisher goroutines) in its own process on a scratch lq.db: workers 1..12, 2..250 outlinks produced in 1..3 rounds (texts from a pool incl. duplicates inside a round, duplicates of rows still waiting or claimed, re-adds after the row was finished and deleted, unparsable and non-UTF-8 texts; differing via/hops on duplicates), rounds separated by waits for the timer flush / for claims and deletes, seeds finished (0..2 children) or held by a plan; in ~25% of the cases the outlinks are what the REAL preprocess/postprocess return for a seed tree with a scripted archiver (page behind 0..3 redirects, links in the page's HTML and/or in the JSON document of a child asset); observed through the lq.added / lq.claimed / lq.deleted hook points, the reactor output and the table read back at the end; distinct by input; non-trivial when some produced text was already in the table (skipped) AND some row was claimed and deleted AND a size-triggered (100) or a timer-triggered batch of >= 2 URLs was added",
		Gen:            genLQFlow,
		Exec:           execLQFlow,
		Shrink:         shrinkLQFlow,
	})
}

var lqPool = newChildPool("lqchild", lqSpecOf)

func lqSpecOf(in string) (string, bool) {
	h, ok := parseHQInput(in)
	if !ok {
		return "", false
	}
	spec := LSpec{Workers: atoiDef(h.kv["w"], 2), Items: h.items, Steps: h.steps, Fin: h.kv["fin"], Dir: "@DIR@", WaitMs: atoiDef(h.kv["wait"], 30000),
		PP: h.kv["pp"], PPHops: atoiDef(h.kv["ph"], 0)}
	if h.kv["wait"] == "" {
		for _, st := range spec.Steps {
			if st == "W" || st == "X" {
				spec.WaitMs += 12000 // a producer timer flush and a finisher timer flush per round
			}
		}
	}
	b, _ := json.Marshal(spec)
	return string(b), true
}

// input: w=<workers> fin=<plan> items=<texthex>,<viahex>,<hops>;... steps=P0,P1,W,P0,X,P2
func genLQFlow(r *Rng, i int, tier string) string {
	workers := []int{1, 2, 3, 5, 12}[r.Intn(5)]
	rounds := 1 + r.Intn(3)
	big := r.Chance(20) // a size-triggered batch needs 100 URLs
	if tier == "quick" {
		// every timer flush costs 5 s of wall time: mostly finisher batches that fill up, two rounds
		workers = []int{1, 1, 2, 2, 3, 5}[r.Intn(6)]
		if rounds > 2 {
			rounds = 2
		}
		big = r.Chance(8)
	}
	// a size-triggered batch needs 100 URLs; 230 in one go give two full batches back to back (the
	// second is filled while the first Add runs) and a timer-flushed rest
	nbulk := 104
	if r.Chance(40) {
		nbulk = 230
	}
	npool := 2 + r.Intn(8)
	var items []string
	anyBad := false
	allowBad := r.Chance(25)
	for j := 0; j < npool; j++ {
		t := pickText(r, allowBad, true)
		if _, err := url.ParseRequestURI(t); err != nil {
			anyBad = true
		}
		items = append(items, fmt.Sprintf("%x,%x,%d", t, viaTexts[r.Intn(len(viaTexts))], pickHops(r)))
		if r.Chance(30) { // same text, other via/hops: the first one queued wins
			items = append(items, fmt.Sprintf("%x,%x,%d", t, viaTexts[r.Intn(len(viaTexts))], pickHops(r)))
		}
	}
	if big {
		for j := 0; j < nbulk; j++ {
			items = append(items, fmt.Sprintf("%x,%x,%d", fmt.Sprintf("http://bulk.test/%d", j), viaTexts[r.Intn(len(viaTexts))], j%7))
		}
	}
	var steps []string
	for rd := 0; rd < rounds; rd++ {
		if big && rd == 0 {
			for j := len(items) - nbulk; j < len(items); j++ {
				steps = append(steps, fmt.Sprintf("P%d", j))
			}
		}
		m := 1 + r.Intn(6)
		for j := 0; j < m; j++ {
			steps = append(steps, fmt.Sprintf("P%d", r.Intn(len(items)-map[bool]int{true: nbulk, false: 0}[big])))
		}
		if rd+1 < rounds {
			steps = append(steps, []string{"W", "X", "X"}[r.Intn(3)])
		}
	}
	fin := []string{"0", "1", "2", "01", "0H", "H", "10H"}[r.Intn(7)]
	if anyBad {
		fin = "H"
	}
	if fin != "H" {
		// rows get deleted: start the next round only after the deletes are through, so that the
		// order of a Delete and a later Add of the same text is never in doubt (their hook points
		// fire a moment after the commits)
		for j, st := range steps {
			if st == "W" {
				steps[j] = "X"
			}
		}
	}
	in := fmt.Sprintf("w=%d fin=%s items=%s steps=%s", workers, fin, strings.Join(items, ";"), strings.Join(steps, ","))
	if r.Chance(25) {
		// the outlinks come from the REAL postprocessor (page behind redirects, links in a child asset's
		// document); a second round produces the same links again: all of them are already queued
		pp := fmt.Sprintf("r%d%s", r.Intn(4), []string{"h", "j", "hj"}[r.Intn(3)])
		steps := "PA"
		if r.Chance(40) {
			steps = "PA,X,PA"
		}
		if fin == "H" && r.Chance(50) {
			fin = "0"
		}
		in = fmt.Sprintf("w=%d fin=%s items= steps=%s pp=%s ph=%d", workers, fin, steps, pp, []int{0, 1, 4}[r.Intn(3)])
	}
	lqPool.note(in)
	return in
}

func shrinkLQFlow(in string) []string {
	h, ok := parseHQInput(in)
	if !ok {
		return nil
	}
	var it []string
	for _, q := range h.items {
		it = append(it, fmt.Sprintf("%s,%s,%d", q.V, q.Via, q.Hops))
	}
	var out []string
	for i := range h.steps {
		c := append(append([]string{}, h.steps[:i]...), h.steps[i+1:]...)
		if len(c) > 0 {
			cand := fmt.Sprintf("w=%s fin=%s items=%s steps=%s", h.kv["w"], h.kv["fin"], strings.Join(it, ";"), strings.Join(c, ","))
			if h.kv["pp"] != "" {
				cand += " pp=" + h.kv["pp"] + " ph=" + h.kv["ph"]
			}
			out = append(out, cand)
		}
		if len(out) > 12 {
			break
		}
	}
	return out
}

type lqAddElem struct {
	v, via string
	hops   int64
	ent    *lqEnt
	dummy  string
}
type lqEnt struct {
	id     string
	status string
}
type lqOp struct {
	kind byte
	adds []*lqAddElem
	rows []LRow
}

func coqLRow(r LRow) string {
	st := r.Status
	if st != "FRESH" && st != "CLAIMED" && st != "DONE" {
		st = "DONE"
	}
	return fmt.Sprintf("Row %s %s %s %s %s", coqHexS(r.ID), coqHexS(r.V), coqHexS(r.Via), coqZ(r.Hops), st)
}

func execLQFlow(in string) Result {
	h, ok := parseHQInput(in)
	if !ok {
		return Result{Term: "QC 1 false [] [] [] [] [] []", Tags: []string{"malformed-input"}}
	}
	raw := lqPool.get(in)
	var res LResult
	if err := json.Unmarshal(raw, &res); err != nil {
		note("lqchild produced no result for: " + in)
		res = LResult{TimedOut: true, Panic: "no result"}
	}
	workers := atoiDef(h.kv["w"], 2)
	tags := map[string]bool{}
	var pev, fev, claimedT, seeds []string
	var ops []*lqOp
	skippedDup, deletedAny, bigBatch := false, false, false
	for _, e := range res.Events {
		switch e.K {
		case "R":
			if h.kv["pp"] != "" {
				pev = append(pev, fmt.Sprintf("ORecv (let o := mk_outlink %s %s %s in (o_text o, o_via o, o_hops o))", coqHexS(e.Via), coqN(e.Hops), coqHexS(e.V)))
				continue
			}
			q := h.items[e.I]
			pev = append(pev, fmt.Sprintf("ORecv (%s, %s, %s)", coqHexS(q.V), coqHexS(q.Via), coqN(q.Hops)))
			if !utf8.ValidString(unhex(q.V)) || !utf8.ValidString(unhex(q.Via)) {
				tags["text:invalid-utf8"] = true
			}
			if _, err := url.ParseRequestURI(unhex(q.V)); err != nil {
				tags["text:unparsable"] = true
			}
		case "A":
			var b []string
			op := &lqOp{kind: 'A'}
			for _, r := range e.Rows {
				hops := r.Hops
				if hops < 0 {
					hops = 0
				}
				b = append(b, fmt.Sprintf("(%s, %s, %s)", coqHexS(r.V), coqHexS(r.Via), coqN(int(hops))))
				op.adds = append(op.adds, &lqAddElem{v: r.V, via: r.Via, hops: r.Hops})
			}
			pev = append(pev, fmt.Sprintf("OAtt %s Ok", coqList(b)))
			ops = append(ops, op)
			if len(e.Rows) >= 100 {
				tags["batch:size-triggered"] = true
				bigBatch = true
			} else {
				tags["batch:timer-triggered"] = true
				if len(e.Rows) >= 2 {
					bigBatch = true
				}
			}
		case "C":
			ops = append(ops, &lqOp{kind: 'C', rows: e.Rows})
			for _, r := range e.Rows {
				_, err := url.ParseRequestURI(unhex(r.V))
				claimedT = append(claimedT, fmt.Sprintf("(%s, %s)", coqLRow(r), coqBool(err == nil)))
				if err != nil {
					fev = append(fev, "ORecv "+coqHexS(r.ID))
				}
			}
		case "S":
			seeds = append(seeds, fmt.Sprintf("SD %s %s %s %s", coqHexS(e.ID), coqHexS(e.V), coqHexS(e.Via), coqN(e.Hops)))
		case "F":
			fev = append(fev, "ORecv "+coqHexS(e.ID))
		case "D":
			ops = append(ops, &lqOp{kind: 'D', rows: e.Rows})
			var ids []string
			for _, r := range e.Rows {
				ids = append(ids, coqHexS(r.ID))
			}
			fev = append(fev, fmt.Sprintf("OAtt %s Ok", coqList(ids)))
			deletedAny = true
		}
	}

	// order the database operations as they were committed (a hook fires a moment after its
	// commit, so two neighbouring hooks of different goroutines can be logged swapped) and find
	// the uuid Add gave to each inserted row.  Untrusted: Queue/LqDb.v decides.
	live := map[string]*lqEnt{} // value -> row
	byID := map[string]string{} // id -> value
	fresh := func() int {
		n := 0
		for _, e := range live {
			if e.status == "FRESH" {
				n++
			}
		}
		return n
	}
	ndummy := 0
	applyAdd := func(op *lqOp) {
		for _, a := range op.adds {
			if live[a.v] == nil {
				a.ent = &lqEnt{status: "FRESH"}
				live[a.v] = a.ent
			} else {
				ndummy++
				a.dummy = fmt.Sprintf("unused-uuid-%d", ndummy)
				skippedDup = true
			}
		}
	}
	for i := 0; i < len(ops); i++ {
		op := ops[i]
		switch op.kind {
		case 'A':
			// an Add logged before a Get that in fact committed first: the Get returned fewer rows
			// than the table (with this Add) would have given
			if i+1 < len(ops) && ops[i+1].kind == 'C' {
				nx := ops[i+1]
				want := fresh()
				if want > workers {
					want = workers
				}
				indep := true
				for _, r := range nx.rows {
					if live[r.V] == nil {
						indep = false
					}
				}
				if indep && len(nx.rows) == want && want < workers {
					// the Get is complete without this Add; had the Add been first it would (if it
					// inserts anything) have returned more
					ins := 0
					seen := map[string]bool{}
					for _, a := range op.adds {
						if live[a.v] == nil && !seen[a.v] {
							ins++
						}
						seen[a.v] = true
					}
					if ins > 0 {
						ops[i], ops[i+1] = ops[i+1], ops[i]
						i--
						continue
					}
				}
			}
			applyAdd(op)
		case 'C':
			missing := false
			for _, r := range op.rows {
				if live[r.V] == nil {
					missing = true
				}
			}
			if missing {
				moved := false
				for j := i + 1; j < len(ops) && !moved; j++ {
					if ops[j].kind != 'A' {
						continue
					}
					for _, a := range ops[j].adds {
						for _, r := range op.rows {
							if a.v == r.V && live[r.V] == nil {
								moved = true
							}
						}
					}
					if moved {
						a := ops[j]
						copy(ops[i+1:j+1], ops[i:j])
						ops[i] = a
					}
				}
				if moved {
					i--
					continue
				}
			}
			for _, r := range op.rows {
				if e := live[r.V]; e != nil {
					if e.id == "" {
						e.id = r.ID
					}
					e.status = "CLAIMED"
					byID[r.ID] = r.V
				}
			}
		case 'D':
			for _, r := range op.rows {
				if v, ok := byID[r.ID]; ok {
					delete(live, v)
				}
			}
		}
	}
	finalByValue := map[string]string{}
	var finalT []string
	for _, r := range res.Final {
		finalByValue[r.V] = r.ID
		finalT = append(finalT, coqLRow(r))
	}
	var opsT []string
	for _, op := range ops {
		switch op.kind {
		case 'A':
			var us []string
			for _, a := range op.adds {
				id := a.dummy
				if a.ent != nil {
					id = a.ent.id
					if id == "" {
						id = hex.EncodeToString([]byte("never-seen-" + a.v))
						if fid, ok := finalByValue[a.v]; ok {
							id = fid
						}
						a.ent.id = id
					}
				} else {
					id = hx(id)
				}
				us = append(us, fmt.Sprintf("Url %s %s %s %s", coqHexS(id), coqHexS(a.v), coqHexS(a.via), coqZ(a.hops)))
			}
			opsT = append(opsT, "OAdd "+coqList(us))
		case 'C':
			var ids []string
			for _, r := range op.rows {
				ids = append(ids, coqHexS(r.ID))
			}
			opsT = append(opsT, fmt.Sprintf("OGet %s %s", coqZ(int64(workers)), coqList(ids)))
		case 'D':
			var ids []string
			for _, r := range op.rows {
				ids = append(ids, coqHexS(r.ID))
			}
			opsT = append(opsT, "ODelete "+coqList(ids))
		}
	}
	if res.TimedOut {
		tags["timed-out"] = true
	}
	if res.Panic != "" {
		tags["panic"] = true
		note("lqchild panic: " + res.Panic + " on: " + in)
	}
	if skippedDup {
		tags["add:dup-value"] = true
	}
	if sp, ok := parsePP(h.kv["pp"]); ok && h.kv["pp"] != "" {
		if sp.redirects > 0 {
			tags["pp:page-behind-redirect"] = true
		} else {
			tags["pp:page-is-seed"] = true
		}
		if sp.json {
			tags["pp:links-in-child-asset-document"] = true
		}
	}
	tags[fmt.Sprintf("workers:%d", workers)] = true
	var tl []string
	for k := range tags {
		tl = append(tl, k)
	}
	sort.Strings(tl)
	complete := !res.TimedOut && res.Panic == ""
	return Result{
		Term: fmt.Sprintf("QC %d %s %s %s %s %s %s %s", workers, coqBool(complete), coqList(pev), coqList(opsT), coqList(claimedT),
			coqList(seeds), coqList(fev), coqList(finalT)),
		Tags: tl, Nontrivial: skippedDup && deletedAny && bigBatch,
	}
}
