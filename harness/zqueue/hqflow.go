//go:build verif

package main

// Driver "hqflow": histories of the real crawl-HQ source (hq.Start) against the fake HQ of
// hqchild.go, replayed on Queue/Batcher.v (producer and finisher machines) and Queue/HopsPath.v.

import (
	"encoding/json"
	"fmt"
	"net/url"
	"sort"
	"strconv"
	"strings"
	"unicode/utf8"
)

var hqPool = newChildPool("hqchild", hqSpecOf)

// rough cost of a history in seconds of retry sleeps: the pool starts the long ones first
func hqCost(in string) int {
	kv := parseKV(in)
	c := 0
	for _, f := range kv["addf"] + kv["delf"] {
		switch f {
		case 'O':
		case 'S':
			c += 8
		default:
			c += 3
		}
	}
	if kv["pz"] == "1" {
		c += 4
	}
	return c + 5*strings.Count(kv["steps"], "W")
}

func init() { hqPool.cost = hqCost }

func init() {
	register(&Driver{
		Name:           "hqflow",
		CaseTimeoutSec: 3600, // Exec of the first case waits for the child pool that pre-runs the whole batch
		Header:         "From ZenoV Require Import Lib.Harness Lib.Hex Queue.HopsPath Queue.Batcher Queue.QueueHarness.\n",
		CaseType:       "hcase",
		Footer:         "\nDefinition DIFF := Eval vm_compute in hdiffs cases.\nPrint DIFF.\nDefinition MON := Eval vm_compute in hmons cases.\nPrint MON.\n",
		Rule:           "one case = one run of the real hq source (consumer, producer, finisher, websocket goroutines, real gocrawlhq client) in its own process against a fake crawl HQ that answers the k-th add / delete / get request as a generated fault sequence says (O ok, 5 = 503, R = connection reset, S = stall until the client's 5 s timeout, L = accepted but the answer is lost; runs of 1..2 failures everywhere, and in ~30% of the cases an outage: the same add, delete or get request fails 3..6 times in a row before it succeeds): batch size 1..5, workers 1..25 (1 or 2 senders), 1..14 outlinks (texts from a pool incl. unparsable, non-ASCII, duplicates; hops 0..300) produced back to back with optional waits that force timer-triggered flushes, accepted URLs handed out again on get, seeds finished (0..2 children) or held by a plan; in ~22% of the cases the outlinks are what the REAL preprocess/postprocess return for a seed tree with a scripted archiver (page behind 0..3 redirects, links in the page's HTML and/or in the JSON document of a child asset), in ~35% finished seeds pass through the REAL finisher workers, in ~16% the consumer runs with --hq-batch-concurrency 2..4 (batch size >= concurrency) and single sub-fetches of a round fail while their siblings are served, in ~6% (more in thorough) the finisher's batch channel is backed up by a DELETE outage longer than the 5 s flush ticker while a partial batch of acks is pending, in ~12% pause.Pause()/Resume() is called while a finisher worker is stuck handing a seed to the source during a DELETE outage; distinct by input; non-trivial when at least one request failed and was retried AND at least one batch left on the timer (smaller than the batch size)",
		Gen:            genHQFlow,
		Exec:           execHQFlow,
		Shrink:         shrinkHQFlow,
	})
}

// input:  b=<bsize> w=<workers> c=<0|1> fin=<plan> addf=<faults> delf=<faults> getf=<faults> items=<texthex>,<viahex>,<hops>;... steps=P0,P1,W,P2 wait=<ms>
type hqInput struct {
	kv    map[string]string
	items []QItem
	steps []string
}

func parseHQInput(in string) (*hqInput, bool) {
	kv := parseKV(in)
	h := &hqInput{kv: kv}
	if kv["items"] != "" {
		for _, f := range strings.Split(kv["items"], ";") {
			p := strings.Split(f, ",")
			if len(p) != 3 {
				return nil, false
			}
			hops, err := strconv.Atoi(p[2])
			if err != nil || hops < 0 {
				return nil, false
			}
			h.items = append(h.items, QItem{V: p[0], Via: p[1], Hops: hops})
		}
	}
	if kv["steps"] != "" {
		for _, s := range strings.Split(kv["steps"], ",") {
			if s == "W" || s == "X" || s == "PA" {
				h.steps = append(h.steps, s)
				continue
			}
			k, err := strconv.Atoi(strings.TrimPrefix(s, "P"))
			if err != nil || !strings.HasPrefix(s, "P") || k < 0 || k >= len(h.items) {
				return nil, false
			}
			h.steps = append(h.steps, s)
		}
	}
	return h, true
}

func atoiDef(s string, d int) int {
	if v, err := strconv.Atoi(s); err == nil {
		return v
	}
	return d
}

func hqSpecOf(in string) (string, bool) {
	h, ok := parseHQInput(in)
	if !ok {
		return "", false
	}
	spec := QSpec{
		BSize: atoiDef(h.kv["b"], 2), Workers: atoiDef(h.kv["w"], 1), Items: h.items, Steps: h.steps,
		AddF: h.kv["addf"], DelF: h.kv["delf"], GetF: h.kv["getf"], Consume: h.kv["c"] == "1", Fin: h.kv["fin"],
		Dir: "@DIR@", WaitMs: atoiDef(h.kv["wait"], 25000),
		GetConc: atoiDef(h.kv["gc"], 0), PP: h.kv["pp"], PPHops: atoiDef(h.kv["ph"], 0), RealFin: h.kv["rf"] == "1", PauseOutage: h.kv["pz"] == "1",
	}
	if h.kv["wait"] == "" {
		// watchdog for "not delivered": two timer periods for the producer and two for the finisher,
		// plus what the generated faults and forced timer flushes can cost; generous under load
		for _, st := range spec.Steps {
			if st == "W" || st == "X" {
				spec.WaitMs += 6000
			}
		}
		// every failed request costs its retry sleep (<= 5 s), a stall the client's 5 s timeout as well
		for _, f := range spec.AddF + spec.DelF + spec.GetF {
			if f != 'O' {
				spec.WaitMs += 11000
			}
		}
	}
	b, _ := json.Marshal(spec)
	return string(b), true
}

func genFaults(r *Rng, n int, tier string, stallBudget *int) string {
	var b strings.Builder
	for b.Len() < n {
		switch k := r.Intn(10); {
		case k < 5:
			b.WriteByte('O')
		default:
			run := 1
			if r.Chance(35) {
				run = 2
			}
			if tier == "thorough" && r.Chance(20) {
				run = 3 + r.Intn(3)
			}
			for j := 0; j < run; j++ {
				c := "55RRL"[r.Intn(5)]
				if *stallBudget > 0 && r.Chance(15) {
					c = 'S'
					*stallBudget--
				}
				b.WriteByte(c)
			}
			b.WriteByte('O')
		}
	}
	return b.String()
}

func pickText(r *Rng, allowBad, raw bool) string {
	switch k := r.Intn(20); {
	case k < 14:
		return goodTexts[r.Intn(len(goodTexts))]
	case k < 16 && allowBad:
		return badTexts[r.Intn(len(badTexts))]
	case k < 18 && raw:
		return rawTexts[r.Intn(len(rawTexts))]
	default:
		return fmt.Sprintf("http://gen.test/%d", r.Intn(1000))
	}
}

func pickHops(r *Rng) int {
	switch r.Intn(6) {
	case 0:
		return 0
	case 1:
		return 1
	case 2:
		return r.Intn(6)
	case 3:
		return 50 + r.Intn(10)
	case 4:
		return 300
	default:
		return r.Intn(20)
	}
}

func genHQFlow(r *Rng, i int, tier string) string {
	bsize := []int{1, 2, 2, 3, 3, 5}[r.Intn(6)]
	workers := []int{1, 2, 3, 3, 10, 20, 25}[r.Intn(7)]
	consume := r.Chance(70)
	allowBad := r.Chance(25)
	raw := r.Chance(12) // edge stream: texts / parents that are not well-formed UTF-8
	// number of outlinks: mostly a multiple of the batch size (size-triggered flushes only)
	nb := 1 + r.Intn(4)
	n := nb * bsize
	timerFlush := r.Chance(35)
	if timerFlush {
		n += 1 + r.Intn(bsize)
		if bsize == 1 {
			n = nb
		}
	}
	if n > 14 {
		n = 14
	}
	var items []string
	anyBad := false
	for j := 0; j < n; j++ {
		t := pickText(r, allowBad, raw)
		if j > 0 && r.Chance(10) {
			t = unhex(strings.Split(items[r.Intn(len(items))], ",")[0]) // duplicate text
		}
		if _, err := url.ParseRequestURI(t); err != nil {
			anyBad = true
		}
		items = append(items, fmt.Sprintf("%x,%x,%d", t, pickVia(r, raw), pickHops(r)))
	}
	var steps []string
	midWait := timerFlush && r.Chance(30) && n > 2
	cut := 1 + r.Intn(n)
	for j := 0; j < n; j++ {
		steps = append(steps, fmt.Sprintf("P%d", j))
		if midWait && j+1 == cut {
			steps = append(steps, "W")
		}
	}
	fin := []string{"0", "1", "2", "01", "0H", "H", "102"}[r.Intn(7)]
	if anyBad {
		fin = "H" // unparsable URLs are finished by the consumer itself: keep one feeder of finishCh
	}
	stall := 0
	if r.Chance(12) {
		stall = 1
	}
	addf := genFaults(r, 2+r.Intn(3), tier, &stall)
	delf, getf := "", ""
	if consume {
		delf = genFaults(r, 1+r.Intn(3), tier, &stall)
		if r.Chance(50) {
			getf = genFaults(r, 1+r.Intn(2), tier, &stall)
		}
	}
	// outage stream: the SAME request fails 3..6 times in a row (any mix of 503, reset, lost answer,
	// at most one stall) before the HQ recovers - longer than the three doublings that take the retry
	// sleep to its cap.  Retry sleeps are real (1, 2, 4, 5, 5 s): few of the long ones in quick.
	if r.Chance(30) {
		n := 3 + r.Intn(2)
		if tier == "thorough" || r.Chance(15) {
			n = 3 + r.Intn(4)
		}
		st := 0
		if tier == "thorough" && r.Chance(20) {
			st = 1
		}
		var run strings.Builder
		for j := 0; j < n; j++ {
			ch := "555RRL"[r.Intn(6)]
			if st > 0 && r.Chance(25) {
				ch = 'S'
				st--
			}
			run.WriteByte(ch)
		}
		pre := strings.Repeat("O", r.Intn(2))
		switch k := r.Intn(8); {
		case k < 4 && !anyBad: // acknowledgements of finished seeds
			consume = true
			if fin == "H" {
				fin = "0"
			}
			delf = pre + run.String() + "O"
		case k < 7: // outlinks
			addf = pre + run.String() + "O"
		default: // feed
			consume = true
			getf = run.String() + "O"
		}
		if tier == "thorough" && r.Chance(25) && !anyBad { // both directions down one after the other
			consume = true
			if fin == "H" {
				fin = "1"
			}
			addf = "55R" + "O"
			delf = "R5L5" + "O"
		}
	}
	extra := ""
	switch k := r.Intn(100); {
	case k < 22:
		// the outlinks come from the REAL postprocessor: page behind 0..3 redirects, links in the
		// page and / or in the document of a child asset (pptree.go)
		pp := fmt.Sprintf("r%d", r.Intn(4))
		switch r.Intn(3) {
		case 0:
			pp += "h"
		case 1:
			pp += "j"
		default:
			pp += "hj"
		}
		items, steps = nil, []string{"PA"}
		if anyBad {
			fin = []string{"0", "1", "01"}[r.Intn(3)]
		}
		extra = fmt.Sprintf(" pp=%s ph=%d", pp, []int{0, 0, 1, 3, 7}[r.Intn(5)])
		if consume && r.Chance(50) {
			extra += " rf=1"
		}
	case k < 34:
		// pause during an outage: one sender, tiny batches, the DELETE of the first batch fails three
		// times (7 s) while more seeds finish than the source's pipeline can hold, so that a finisher
		// worker is stuck handing a seed over; then pause.Pause()/Resume() - every ack must still arrive
		workers = 1 + r.Intn(2)
		n := 4*workers + 2 + r.Intn(3)
		bsize = []int{1, 2, n}[r.Intn(3)]
		items, steps = nil, nil
		for j := 0; j < n; j++ {
			items = append(items, fmt.Sprintf("%x,%x,%d", fmt.Sprintf("http://pz.test/%d", j), pickVia(r, false), pickHops(r)))
			steps = append(steps, fmt.Sprintf("P%d", j))
		}
		consume, fin = true, []string{"0", "1", "02"}[r.Intn(3)]
		addf, getf = "O", ""
		var run strings.Builder
		for j := 0; j < 3; j++ {
			run.WriteByte("555RRL"[r.Intn(6)])
		}
		delf = run.String() + "O"
		extra = " rf=1 pz=1"
	case k < 50:
		if consume && !anyBad {
			extra = " rf=1"
		}
	case k < 66:
		// --hq-batch-concurrency 2..4: a fetch round is several concurrent gets of bsize/k URLs; one of
		// them fails (503, reset, now and then a stall to the client's timeout) while its siblings are
		// served - everything the HQ handed out must still become a seed and be acknowledged
		gc := 2 + r.Intn(3)
		bsize = gc * (1 + r.Intn(2))
		if r.Chance(30) {
			bsize++
		}
		n := bsize * (1 + r.Intn(2))
		if n > 14 {
			n = bsize
		}
		items, steps = nil, nil
		for j := 0; j < n; j++ {
			items = append(items, fmt.Sprintf("%x,%x,%d", fmt.Sprintf("http://gc.test/%d?b=2&a=1", j), pickVia(r, false), pickHops(r)))
			steps = append(steps, fmt.Sprintf("P%d", j))
		}
		consume = true
		if r.Chance(70) {
			fin = []string{"0", "1", "01"}[r.Intn(3)]
		} else {
			fin = "H"
		}
		var g strings.Builder
		for j := 0; j < 1+r.Intn(3); j++ {
			g.WriteString([]string{"5", "R", "O5", "OR", "55", "OO5", "5R"}[r.Intn(7)])
			if r.Chance(6) {
				g.WriteString("S")
			}
			g.WriteString("O")
		}
		getf = g.String()
		extra = fmt.Sprintf(" gc=%d", gc)
		if fin != "H" && r.Chance(40) {
			extra += " rf=1"
		}
	case k < 72 || (tier == "thorough" && k < 80):
		// backed-up source and a partial batch at the flush tick: finisher batch size w = 2..3, one
		// sender; the DELETE of the first batch fails for more than a ticker period (attempts at 0, 1, 3,
		// 7 s) while 3 full batches (sender, dispatcher, channel) plus 1..w-1 more acks arrive: when the
		// 5 s ticker fires the receiver holds a partial batch and the batch channel is full
		workers = 2 + r.Intn(2)
		n := 3*workers + 1 + r.Intn(workers-1)
		bsize = []int{1, n}[r.Intn(2)]
		items, steps = nil, nil
		for j := 0; j < n; j++ {
			items = append(items, fmt.Sprintf("%x,%x,%d", fmt.Sprintf("http://bk.test/%d", j), pickVia(r, false), pickHops(r)))
			steps = append(steps, fmt.Sprintf("P%d", j))
		}
		consume, fin = true, []string{"0", "1", "20"}[r.Intn(3)]
		addf, getf = "O", ""
		var run strings.Builder
		for j := 0; j < 3+r.Intn(2); j++ {
			run.WriteByte("555RRL"[r.Intn(6)])
		}
		delf = run.String() + "O"
		extra = " bk=1"
		if r.Chance(40) {
			extra += " rf=1"
		}
	}
	c := 0
	if consume {
		c = 1
	}
	in := fmt.Sprintf("b=%d w=%d c=%d fin=%s addf=%s delf=%s getf=%s items=%s steps=%s%s", bsize, workers, c, fin, addf, delf, getf,
		strings.Join(items, ";"), strings.Join(steps, ","), extra)
	hqPool.note(in)
	return in
}

func shrinkHQFlow(in string) []string {
	h, ok := parseHQInput(in)
	if !ok {
		return nil
	}
	rebuild := func(kv map[string]string, items []QItem, steps []string) string {
		var it []string
		for _, q := range items {
			it = append(it, fmt.Sprintf("%s,%s,%d", q.V, q.Via, q.Hops))
		}
		base := fmt.Sprintf("b=%s w=%s c=%s fin=%s addf=%s delf=%s getf=%s items=%s steps=%s", kv["b"], kv["w"], kv["c"], kv["fin"], kv["addf"], kv["delf"], kv["getf"],
			strings.Join(it, ";"), strings.Join(steps, ","))
		for _, k := range []string{"pp", "ph", "rf", "pz", "gc", "bk"} {
			if kv[k] != "" {
				base += " " + k + "=" + kv[k]
			}
		}
		return base
	}
	var out []string
	// drop the last item
	if n := len(h.items); n > 1 {
		var steps []string
		for _, s := range h.steps {
			if s != fmt.Sprintf("P%d", n-1) {
				steps = append(steps, s)
			}
		}
		out = append(out, rebuild(h.kv, h.items[:n-1], steps))
	}
	// drop waits, faults
	var nowait []string
	for _, s := range h.steps {
		if s != "W" {
			nowait = append(nowait, s)
		}
	}
	if len(nowait) < len(h.steps) {
		out = append(out, rebuild(h.kv, h.items, nowait))
	}
	for _, k := range []string{"addf", "delf", "getf"} {
		if h.kv[k] != "" {
			kv := map[string]string{}
			for a, b := range h.kv {
				kv[a] = b
			}
			kv[k] = h.kv[k][:len(h.kv[k])-1]
			out = append(out, rebuild(kv, h.items, h.steps))
		}
	}
	if h.kv["c"] == "1" {
		kv := map[string]string{}
		for a, b := range h.kv {
			kv[a] = b
		}
		kv["c"] = "0"
		out = append(out, rebuild(kv, h.items, h.steps))
	}
	return out
}

func coqOutlink(q QItem) string {
	return fmt.Sprintf("OL %s %s %s", coqHexS(q.V), coqHexS(q.Via), coqN(q.Hops))
}

func execHQFlow(in string) Result {
	h, ok := parseHQInput(in)
	if !ok {
		return Result{Term: "HC 1 1 false [] [] [] []", Tags: []string{"malformed-input"}}
	}
	raw := hqPool.get(in)
	var res QResult
	if err := json.Unmarshal(raw, &res); err != nil {
		// the child died (panic inside the source, or killed): nothing was observed to complete
		note("hqchild produced no result for: " + in)
		res = QResult{TimedOut: true, Panic: "no result"}
	}
	bsize, workers := atoiDef(h.kv["b"], 2), atoiDef(h.kv["w"], 1)
	tags := map[string]bool{}
	var pev, fev, handed, seeds []string
	children := map[string]int{} // id -> children announced at finish
	nFail, timerBatch := 0, false
	getFails := 0
	effB := bsize
	if effB == 0 {
		effB = 100
	}
	for _, e := range res.Events {
		switch e.K {
		case "R":
			if h.kv["pp"] != "" {
				// a link the real postprocessor found: the expected outlink is the model's
				// mk_outlink of the document's item (URL text, hop count) and the link text
				pev = append(pev, fmt.Sprintf("PR (mk_outlink %s %s %s)", coqHexS(e.Via), coqN(e.Hops), coqHexS(e.V)))
				tags["hops:"+bucket(e.Hops+1)] = true
				continue
			}
			q := h.items[e.I]
			pev = append(pev, "PR ("+coqOutlink(q)+")")
			t := unhex(q.V)
			if !utf8.ValidString(t) || !utf8.ValidString(unhex(q.Via)) {
				tags["text:invalid-utf8"] = true
			}
			if _, err := url.ParseRequestURI(t); err != nil {
				tags["text:unparsable"] = true
			}
			tags["hops:"+bucket(q.Hops)] = true
		case "A":
			var b []string
			for _, u := range e.Batch {
				b = append(b, fmt.Sprintf("(%s, %s, %s)", coqHexS(u[0]), coqHexS(u[1]), coqHexS(u[2])))
			}
			pev = append(pev, fmt.Sprintf("PA %s %s %d", coqList(b), coqRes(e.Res), e.Conc))
			tags["add:"+e.Res] = true
			if e.Res != "O" {
				nFail++
			}
			if len(e.Batch) < effB {
				timerBatch = true
			}
		case "G":
			tags["get:"+e.Res] = true
			var one []string
			for _, u := range e.Batch {
				_, err := url.ParseRequestURI(unhex(u[1]))
				one = append(one, fmt.Sprintf("(HU %s %s %s %s, %s)", coqHexS(u[0]), coqHexS(u[1]), coqHexS(u[2]), coqHexS(u[3]), coqBool(err == nil)))
				if err != nil {
					// hq.consumerSender hands an unparsable URL to the finisher itself
					fev = append(fev, fmt.Sprintf("FR %s %s", coqHexS(u[0]), coqN(0)))
					children[u[0]] = 0
				}
			}
			if e.Res == "O" {
				handed = append(handed, "Some "+coqList(one))
			} else {
				handed = append(handed, "None")
				getFails++
			}
		case "S":
			seeds = append(seeds, fmt.Sprintf("SD %s %s %s %s", coqHexS(e.ID), coqHexS(e.V), coqHexS(e.Via), coqN(e.Hops)))
		case "F":
			fev = append(fev, fmt.Sprintf("FR %s %s", coqHexS(e.ID), coqN(e.N)))
			children[e.ID] = e.N
		case "D":
			var b []string
			for _, u := range e.Batch {
				b = append(b, fmt.Sprintf("(%s, %s)", coqHexS(u[0]), coqN(children[u[0]])))
			}
			fev = append(fev, fmt.Sprintf("FA %s %s %s %d", coqList(b), coqRes(e.Res), coqN(e.N), e.Conc))
			tags["del:"+e.Res] = true
			if e.Res != "O" {
				nFail++
			}
		}
	}
	if h.kv["rf"] == "1" {
		// several finisher workers (and hq.consumerSender) hand seeds to the source concurrently: the
		// order in which the source took them is the order in which they show up in its batches
		rank := map[string]int{}
		for _, e := range res.Events {
			if e.K == "D" {
				for _, u := range e.Batch {
					if _, ok := rank[u[0]]; !ok {
						rank[u[0]] = len(rank)
					}
				}
			}
		}
		var slots []int
		var frs []string
		for i, t := range fev {
			if strings.HasPrefix(t, "FR ") {
				slots = append(slots, i)
				frs = append(frs, t)
			}
		}
		idOf := func(t string) string { // FR (hx "<id>") n
			a := strings.Index(t, "\"")
			b := strings.LastIndex(t, "\"")
			if a < 0 || b <= a {
				return ""
			}
			return t[a+1 : b]
		}
		sort.SliceStable(frs, func(i, j int) bool {
			ri, oki := rank[idOf(frs[i])]
			rj, okj := rank[idOf(frs[j])]
			if oki != okj {
				return oki
			}
			return oki && ri < rj
		})
		for k, i := range slots {
			fev[i] = frs[k]
		}
		tags["real-finisher"] = true
	}
	if gc := atoiDef(h.kv["gc"], 0); gc > 1 {
		tags[fmt.Sprintf("getconc:%d", gc)] = true
		if getFails > 0 {
			tags["getconc:sub-fetch-failed"] = true
		}
	}
	if h.kv["bk"] == "1" {
		// the shape only counts when it was observed: the first three deletes failed, and the acks do
		// not fill a whole number of batches
		nd, firstFails := 0, 0
		for _, e := range res.Events {
			if e.K == "D" {
				if nd < 3 && e.Res != "O" {
					firstFails++
				}
				nd++
			}
		}
		if firstFails == 3 && workers > 0 && len(h.items)%workers != 0 {
			tags["backlog:partial-batch-at-tick"] = true
		}
	}
	if res.PauseDuringOutage {
		tags["pause-during-outage"] = true
	} else if res.PauseIssued {
		tags["pause-while-worker-blocked"] = true
	}
	if h.kv["pp"] != "" {
		if sp, ok := parsePP(h.kv["pp"]); ok {
			if sp.redirects > 0 {
				tags["pp:page-behind-redirect"] = true
			} else {
				tags["pp:page-is-seed"] = true
			}
			if sp.json {
				tags["pp:links-in-child-asset-document"] = true
			}
		}
	}
	if res.TimedOut {
		tags["timed-out"] = true
	}
	if res.Panic != "" {
		tags["panic"] = true
		note("hqchild panic: " + res.Panic + " on: " + in)
	}
	for kind, name := range map[string]string{"A": "add", "D": "del", "G": "get"} {
		best, cur := 0, 0
		for _, e := range res.Events {
			if e.K != kind {
				continue
			}
			if e.Res != "O" {
				cur++
				if cur > best {
					best = cur
				}
			} else {
				cur = 0
			}
		}
		if best >= 3 {
			tags[fmt.Sprintf("outage:%s:%d-in-a-row", name, best)] = true
		}
	}
	tags[fmt.Sprintf("senders:%d", map[bool]int{true: 1, false: workers / 10}[workers < 10])] = true
	tags[fmt.Sprintf("bsize:%d", bsize)] = true
	if h.kv["c"] == "1" {
		tags["consume"] = true
	}
	if timerBatch {
		tags["timer-flush"] = true
	}
	var tl []string
	for k := range tags {
		tl = append(tl, k)
	}
	sort.Strings(tl)
	complete := !res.TimedOut && res.Panic == ""
	return Result{
		Term: fmt.Sprintf("HC %d %d %s %s %s %s %s", bsize, workers, coqBool(complete), coqList(pev), coqList(handed), coqList(seeds), coqList(fev)),
		Tags: tl, Nontrivial: nFail > 0 && timerBatch,
	}
}
