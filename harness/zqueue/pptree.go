//go:build verif

package main

// Outlinks made by the REAL postprocessor for the flow drivers (input key pp=...): a seed tree is
// built by the real preprocess() and postprocess() with a scripted archiver (as harness/zhtml/req.go
// and harness/zunit/pass.go do), so that the page carrying the links is NOT always the seed node:
//
//	pp=r<k>[h][j]   k = 0..3 redirects between the seed and the page (seed 30x -> ... -> page);
//	                h = the page's HTML carries links; j = the page has a JSON asset whose document
//	                carries extension-less URLs (outlinks found in a child asset's document)
//
// Every link text carries the document it was planted in (/dP/ page, /dJ/ JSON asset); what the
// property expects as via / hops is read from the item that received that document.

import (
	"fmt"
	"io"
	"net/http"
	"os"
	"strings"

	"github.com/internetarchive/Zeno/internal/pkg/archiver"
	"github.com/internetarchive/Zeno/internal/pkg/config"
	"github.com/internetarchive/Zeno/internal/pkg/postprocessor"
	"github.com/internetarchive/Zeno/internal/pkg/postprocessor/domainscrawl"
	"github.com/internetarchive/Zeno/internal/pkg/preprocessor"
	"github.com/internetarchive/Zeno/pkg/models"
)

type ppOut struct {
	item    *models.Item // what postprocess() returned: goes to the source's produce channel as it is
	text    string
	docURL  string // URL text of the item whose document carried the link
	docHops int    // hop count of that item
	doc     string // "P" | "J"
}

type ppSpec struct {
	redirects int
	html      bool
	json      bool
}

func parsePP(pp string) (ppSpec, bool) {
	var s ppSpec
	if len(pp) < 2 || pp[0] != 'r' || pp[1] < '0' || pp[1] > '3' {
		return s, false
	}
	s.redirects = int(pp[1] - '0')
	for _, c := range pp[2:] {
		switch c {
		case 'h':
			s.html = true
		case 'j':
			s.json = true
		default:
			return s, false
		}
	}
	return s, s.html || s.json
}

func ppArchive(it *models.Item, status int, ct, location, body, tmp string) error {
	resp := &http.Response{StatusCode: status, Header: http.Header{}, Body: io.NopCloser(strings.NewReader(body))}
	if ct != "" {
		resp.Header.Set("Content-Type", ct)
	}
	if location != "" {
		resp.Header.Set("Location", location)
	}
	it.GetURL().SetResponse(resp)
	if err := archiver.ProcessBody(it.GetURL(), false, false, config.Get().MaxHops, tmp); err != nil {
		return err
	}
	it.SetStatus(models.ItemArchived)
	return nil
}

func buildOutlinks(pp string, seedHops int, tmp string) (outs []ppOut, err error) {
	sp, ok := parsePP(pp)
	if !ok {
		return nil, fmt.Errorf("bad pp spec %q", pp)
	}
	defer func() {
		if r := recover(); r != nil {
			err = fmt.Errorf("panic: %v", r)
		}
	}()
	cf := config.Get()
	cf.UseSeencheck = false
	cf.DisableAssetsCapture = false
	cf.MaxHops = seedHops + 5
	cf.MaxRedirect = 20
	cf.UserAgent = "zv"
	cf.IncludeHosts, cf.IncludeString, cf.ExcludeHosts, cf.ExcludeString = nil, nil, nil, nil
	domainscrawl.Reset()

	urls := []string{}
	for k := 0; k < sp.redirects; k++ {
		urls = append(urls, fmt.Sprintf("http://hop%d.test/r/%d", k, k))
	}
	pageURL := "http://page.test/dir/p.html?x=1"
	urls = append(urls, pageURL)
	if sp.redirects > 0 {
		urls[0] = "http://seed.test/start"
	}

	var page strings.Builder
	page.WriteString("<!DOCTYPE html><html><head><title>t</title></head><body>")
	if sp.html {
		page.WriteString(`<a href="http://out.test/dP/l0">a</a> <a href="/dP/rel?q=2">b</a> <a href="http://other.test/dP/l2#frag">c</a>`)
	}
	if sp.json {
		page.WriteString(`<img src="http://assets.test/a/data.json">`)
	}
	page.WriteString("</body></html>")
	jsonDoc := `{"next":"http://out.test/dJ/l0","more":["http://other.test/dJ/l1"],"pic":"http://out.test/dJ/pic.png"}`

	seed := models.NewItem("pp-seed", &models.URL{Raw: urls[0], Hops: seedHops}, "")
	collect := func(items []*models.Item, carriers map[string]*models.Item) error {
		for _, o := range items {
			raw := o.GetURL().Raw
			// everything else (incl. the asset's own URL, which the text scan of the page also
			// returns as a link) was planted in the page
			doc := "P"
			if strings.Contains(raw, "/dJ/") {
				doc = "J"
			}
			c := carriers[doc]
			if c == nil {
				return fmt.Errorf("outlink %q from a document that was not archived yet", raw)
			}
			outs = append(outs, ppOut{item: o, text: raw, docURL: c.GetURL().String(), docHops: c.GetURL().GetHops(), doc: doc})
		}
		return nil
	}
	carriers := map[string]*models.Item{}
	for level := 0; level < len(urls); level++ {
		if p := preprocessor.VerifScopePreprocess(seed); p != "" {
			return nil, fmt.Errorf("preprocess panicked: %s", p)
		}
		items, e := seed.GetNodesAtLevel(seed.GetMaxDepth())
		if e != nil || len(items) != 1 || items[0].GetStatus() != models.ItemPreProcessed {
			return nil, fmt.Errorf("chain broken at level %d", level)
		}
		it := items[0]
		if level < sp.redirects {
			if e := ppArchive(it, []int{301, 302, 307}[level%3], "text/plain", urls[level+1], "moved\n", tmp); e != nil {
				return nil, e
			}
		} else {
			if e := ppArchive(it, 200, "text/html; charset=utf-8", "", page.String(), tmp); e != nil {
				return nil, e
			}
			carriers["P"] = it
		}
		if e := collect(postprocessor.VerifC07Postprocess(seed), carriers); e != nil {
			return nil, e
		}
	}
	if sp.json {
		if p := preprocessor.VerifScopePreprocess(seed); p != "" {
			return nil, fmt.Errorf("preprocess (assets) panicked: %s", p)
		}
		var asset *models.Item
		for _, ch := range carriers["P"].GetChildren() {
			if ch.GetStatus() == models.ItemPreProcessed && strings.Contains(ch.GetURL().Raw, "data.json") {
				asset = ch
			}
		}
		if asset == nil {
			return nil, fmt.Errorf("the JSON asset did not become a child of the page")
		}
		if e := ppArchive(asset, 200, "application/json", "", jsonDoc, tmp); e != nil {
			return nil, e
		}
		carriers["J"] = asset
		if e := collect(postprocessor.VerifC07Postprocess(seed), carriers); e != nil {
			return nil, e
		}
	}
	return outs, nil
}

func init() {
	subcommands["ppprobe"] = func(args []string) {
		config.InitConfig()
		c := config.Get()
		c.NoStdoutLogging, c.NoStderrLogging, c.NoFileLogging = true, true, true
		tmp, _ := scratchDir("zv-pp-")
		defer os.RemoveAll(tmp)
		outs, err := buildOutlinks(args[0], 2, tmp)
		fmt.Println("err:", err)
		for _, o := range outs {
			fmt.Printf("%s text=%q itemvia=%q itemhops=%d  doc=%q dochops=%d\n", o.doc, o.text, o.item.GetSeedVia(), o.item.GetURL().GetHops(), o.docURL, o.docHops)
		}
	}
}
