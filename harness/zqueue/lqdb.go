//go:build verif

package main

// Drivers "hqpath" (hopsToPath / pathToHops) and "lqdb" (LQClient.Add / Get / Delete / ResetURL on
// a scratch lq.db, operation sequences against Queue/LqDb.v).

import (
	"context"
	"fmt"
	"os"
	"strconv"
	"strings"
	"unicode/utf8"

	"github.com/internetarchive/Zeno/internal/pkg/config"
	"github.com/internetarchive/Zeno/internal/pkg/source/hq"
	"github.com/internetarchive/Zeno/internal/pkg/source/lq"
	"github.com/internetarchive/Zeno/internal/pkg/source/lq/sqlc_model"
)

func init() {
	for i, v := range lqValues {
		intern(fmt.Sprintf("LV%d", i), v)
	}
	for i, v := range viaTexts {
		intern(fmt.Sprintf("VIA%d", i), v)
	}
	for i, v := range lqIDs {
		intern(fmt.Sprintf("ID%d", i), v)
	}
	for i := 1; i <= 80; i++ {
		intern(fmt.Sprintf("NID%d", i), fmt.Sprintf("n%d", i))
	}
	register(&Driver{
		Name:     "hqpath",
		Header:   "From ZenoV Require Import Lib.Harness Lib.Hex Queue.HopsPath Queue.QueueHarness.\n",
		CaseType: "pcase",
		Footer:   "\nDefinition DIFF := Eval vm_compute in pdiffs cases.\nPrint DIFF.\nDefinition MON := Eval vm_compute in pmons cases.\nPrint MON.\n",
		Rule:     "one case = a hop count (0..12 dense, powers of two and their neighbours up to 1025) sent through hopsToPath and back through pathToHops, plus pathToHops on an arbitrary byte string over {L,l,R,E,P,X,0xC3,0x4C-adjacent bytes, NUL}; distinct by input; non-trivial when hops > 0 and the arbitrary string has both L and non-L bytes",
		Gen:      genHQPath,
		Exec:     execHQPath,
	})
	register(&Driver{
		Name:     "lqdb",
		Header:   "From ZenoV Require Import Lib.Harness Lib.Hex Queue.LqDb Queue.QueueHarness.\nOpen Scope Z_scope.\n" + internHeader(),
		CaseType: "lcase",
		Footer:   "\nDefinition DIFF := Eval vm_compute in ldiffs cases.\nPrint DIFF.\nDefinition MON := Eval vm_compute in lmons cases.\nPrint MON.\n",
		Rule:     "one case = a sequence of 3..14 LQClient calls (Add of 0..4 URLs with explicit or empty ids, Get with limit -1..5, Delete of 0..3 ids, ResetURL, close+re-open) on an initially empty scratch lq.db, ids and values drawn from small pools so that duplicates of values and ids, deletes of absent ids and re-adds after delete are frequent; the whole table is read back after every call; distinct by input; non-trivial when some Add skipped a value already present AND some Get returned rows AND some Delete removed a row",
		Setup:    setupLQDB,
		Gen:      genLQDB,
		Exec:     execLQDB,
		Shrink:   shrinkLQDB,
		Teardown: teardownLQDB,
	})
}

// ------------------------------------------------------------------ hqpath

func genHQPath(r *Rng, i int, tier string) string {
	var h int
	switch r.Intn(4) {
	case 0:
		h = r.Intn(13)
	case 1:
		h = (1 << uint(r.Intn(11))) + r.Intn(3) - 1
	case 2:
		h = r.Intn(300)
	default:
		h = i % 40
	}
	if h < 0 {
		h = 0
	}
	alpha := []string{"L", "L", "L", "l", "R", "E", "P", "X", "\xc3", "\x4d", "\x4b", "\x00", "LL", "Ł"}
	n := r.Intn(12)
	var b strings.Builder
	for j := 0; j < n; j++ {
		b.WriteString(alpha[r.Intn(len(alpha))])
	}
	return fmt.Sprintf("h=%d p=%x", h, b.String())
}

func execHQPath(in string) Result {
	kv := parseKV(in)
	h, _ := strconv.Atoi(kv["h"])
	p := unhex(kv["p"])
	path := hq.VerifHopsToPath(h)
	back := hq.VerifPathToHops(path)
	cnt := hq.VerifPathToHops(p)
	nl := strings.Count(p, "L")
	tags := []string{"hops:" + bucket(h)}
	if utf8.ValidString(p) {
		tags = append(tags, "p:utf8")
	} else {
		tags = append(tags, "p:invalid-utf8")
	}
	return Result{
		Term:       fmt.Sprintf("PC %s %s %s %s %s", coqN(h), coqHex([]byte(path)), coqN(back), coqHex([]byte(p)), coqN(cnt)),
		Tags:       tags,
		Nontrivial: h > 0 && nl > 0 && nl < len(p),
	}
}

func bucket(n int) string {
	switch {
	case n == 0:
		return "0"
	case n <= 2:
		return "1-2"
	case n <= 12:
		return "3-12"
	case n <= 100:
		return "13-100"
	default:
		return ">100"
	}
}

// ------------------------------------------------------------------ lqdb

var lqdbDir string
var lqdbClient *lq.LQClient

func setupLQDB() {
	lqdbDir, _ = scratchDir("zv-lqdb-")
	config.InitConfig()
	c := config.Get()
	c.Job = "lqdb"
	c.JobPath = lqdbDir
	c.NoStdoutLogging, c.NoStderrLogging, c.NoFileLogging = true, true, true
	var err error
	lqdbClient, err = lq.VerifOpen()
	if err != nil {
		panic(err)
	}
}

func teardownLQDB() {
	lq.VerifClose()
	os.RemoveAll(lqdbDir)
}

var lqValues = []string{"http://a.test/", "http://b.test/x?y=1", "/rel", "not a url", "", "http://c.test/\xff\xfe", "http://d.test/a\x00b", "http://e.test/é"}
var lqIDs = []string{"i0", "i1", "i2", "i3", "i4", "i5", "i6", "i7", "I0", "i0 "}

// input: ops separated by ';' :  A:<id>,<valuehex>,<viahex>,<hops>|...   G:<limit>   D:<id>,<id>   R:<id>   O
func genLQDB(r *Rng, i int, tier string) string {
	n := 3 + r.Intn(12)
	var ops []string
	live := []string{} // ids probably live (for aiming deletes / resets)
	nextID := 0
	freshID := func() string {
		if r.Chance(12) {
			return "" // let Add generate a uuid, like the producer does
		}
		if r.Chance(15) {
			return lqIDs[r.Intn(len(lqIDs))] // may collide
		}
		nextID++
		return fmt.Sprintf("n%d", nextID)
	}
	for j := 0; j < n; j++ {
		switch k := r.Intn(20); {
		case k < 8:
			m := r.Intn(5)
			if r.Chance(80) && m == 0 {
				m = 1
			}
			var us []string
			for q := 0; q < m; q++ {
				id := freshID()
				v := lqValues[r.Intn(len(lqValues))]
				via := viaTexts[r.Intn(len(viaTexts))]
				hops := r.Intn(6)
				if r.Chance(5) {
					hops = -1 - r.Intn(3)
				}
				if r.Chance(5) {
					hops = 1<<31 + r.Intn(5)
				}
				us = append(us, fmt.Sprintf("%x,%x,%x,%d", id, v, via, hops))
				if id != "" {
					live = append(live, id)
				}
			}
			ops = append(ops, "A:"+strings.Join(us, "|"))
		case k < 12:
			ops = append(ops, fmt.Sprintf("G:%d", r.Intn(7)-1))
		case k < 16:
			m := r.Intn(4)
			var ids []string
			for q := 0; q < m; q++ {
				if len(live) > 0 && r.Chance(75) {
					ids = append(ids, fmt.Sprintf("%x", live[r.Intn(len(live))]))
				} else {
					ids = append(ids, fmt.Sprintf("%x", lqIDs[r.Intn(len(lqIDs))]))
				}
			}
			ops = append(ops, "D:"+strings.Join(ids, ","))
		case k < 19:
			id := lqIDs[r.Intn(len(lqIDs))]
			if len(live) > 0 && r.Chance(75) {
				id = live[r.Intn(len(live))]
			}
			ops = append(ops, fmt.Sprintf("R:%x", id))
		default:
			ops = append(ops, "O")
		}
	}
	return strings.Join(ops, ";")
}

func shrinkLQDB(in string) []string {
	ops := strings.Split(in, ";")
	var out []string
	for i := range ops {
		c := append(append([]string{}, ops[:i]...), ops[i+1:]...)
		if len(c) > 0 {
			out = append(out, strings.Join(c, ";"))
		}
	}
	for i, o := range ops {
		if strings.HasPrefix(o, "A:") {
			us := strings.Split(o[2:], "|")
			for j := range us {
				if len(us) > 1 {
					u2 := append(append([]string{}, us[:j]...), us[j+1:]...)
					c := append([]string{}, ops...)
					c[i] = "A:" + strings.Join(u2, "|")
					out = append(out, strings.Join(c, ";"))
				}
			}
		}
	}
	return out
}

func coqStatus(s string) string {
	switch s {
	case "FRESH", "CLAIMED", "DONE":
		return s
	}
	return "DONE"
}

func coqRow(u sqlc_model.Url) string {
	return fmt.Sprintf("Row %s %s %s %s %s", coqStr(u.ID), coqStr(u.Value), coqStr(u.Via), coqZ(u.Hops), coqStatus(u.Status))
}

func coqRows(us []sqlc_model.Url) string {
	items := make([]string, len(us))
	for i, u := range us {
		items[i] = coqRow(u)
	}
	return coqList(items)
}

func coqIDs(ids []string) string {
	items := make([]string, len(ids))
	for i, s := range ids {
		items[i] = coqStr(s)
	}
	return coqList(items)
}

func execLQDB(in string) Result {
	ctx := context.Background()
	cl := lqdbClient
	if err := cl.VerifWipe(); err != nil {
		panic(err)
	}
	var steps []string
	tags := map[string]int{}
	skipped, got, removed := false, false, false
	table := func() []sqlc_model.Url {
		rows, err := cl.VerifRows()
		if err != nil {
			panic(err)
		}
		return rows
	}
	prev := table()
	for _, o := range strings.Split(in, ";") {
		if o == "" {
			continue
		}
		var opTerm, rowsTerm string
		rowsTerm = "[]"
		isErr := false
		switch o[0] {
		case 'A':
			var us []sqlc_model.Url
			if len(o) > 2 {
				for _, f := range strings.Split(o[2:], "|") {
					p := strings.Split(f, ",")
					if len(p) != 4 {
						continue
					}
					h, _ := strconv.ParseInt(p[3], 10, 64)
					us = append(us, sqlc_model.Url{ID: unhex(p[0]), Value: unhex(p[1]), Via: unhex(p[2]), Hops: h})
				}
			}
			err := cl.Add(ctx, us, false)
			isErr = err != nil
			after := table()
			// resolve generated ids: a row with this value that was not there before
			had := map[string]bool{}
			for _, r := range prev {
				had[r.Value] = true
			}
			newID := map[string]string{}
			for _, r := range after {
				if !had[r.Value] {
					newID[r.Value] = r.ID
				}
			}
			var ut []string
			seenV := map[string]bool{}
			for k, u := range us {
				id := u.ID
				if id == "" {
					tags["add:empty-id"]++
					if nid, ok := newID[u.Value]; ok && !seenV[u.Value] {
						id = nid
					} else {
						id = fmt.Sprintf("unused-uuid-%d", k)
					}
				}
				if had[u.Value] || seenV[u.Value] {
					skipped = true
					tags["add:dup-value"]++
				}
				seenV[u.Value] = true
				if !utf8.ValidString(u.Value) || strings.Contains(u.Value, "\x00") {
					tags["value:raw-bytes"]++
				}
				ut = append(ut, fmt.Sprintf("Url %s %s %s %s", coqStr(id), coqStr(u.Value), coqStr(u.Via), coqZ(u.Hops)))
			}
			if isErr {
				tags["add:error"]++
			}
			tags["op:add"]++
			opTerm = "OAdd " + coqList(ut)
		case 'G':
			limit, _ := strconv.Atoi(o[2:])
			rows, err := cl.Get(ctx, limit)
			isErr = err != nil
			var ids []string
			for _, r := range rows {
				ids = append(ids, r.ID)
			}
			if len(rows) > 0 {
				got = true
			}
			if limit < 0 {
				tags["get:negative-limit"]++
			}
			tags["op:get"]++
			rowsTerm = coqRows(rows)
			opTerm = fmt.Sprintf("OGet %s %s", coqZ(int64(limit)), coqIDs(ids))
		case 'D':
			var ids []string
			var us []sqlc_model.Url
			if len(o) > 2 {
				for _, h := range strings.Split(o[2:], ",") {
					ids = append(ids, unhex(h))
					us = append(us, sqlc_model.Url{ID: unhex(h)})
				}
			}
			err := cl.Delete(ctx, us, false)
			isErr = err != nil
			tags["op:delete"]++
			opTerm = "ODelete " + coqIDs(ids)
		case 'R':
			id := unhex(o[2:])
			err := cl.ResetURL(ctx, id)
			isErr = err != nil
			tags["op:reset"]++
			opTerm = "OReset " + coqStr(id)
		case 'O':
			lq.VerifClose()
			var err error
			lqdbClient, err = lq.VerifOpen()
			if err != nil {
				panic(err)
			}
			cl = lqdbClient
			tags["op:reopen"]++
			opTerm = "OReopen"
		default:
			continue
		}
		after := table()
		if o[0] == 'D' && len(after) < len(prev) {
			removed = true
		}
		steps = append(steps, fmt.Sprintf("LS (%s) %s %s %s", opTerm, coqBool(isErr), rowsTerm, coqRows(after)))
		prev = after
	}
	var tl []string
	for _, k := range sortedKeys(tags) {
		tl = append(tl, k)
	}
	return Result{
		Term:       "LC " + coqList(steps),
		Tags:       tl,
		Nontrivial: skipped && got && removed,
	}
}
