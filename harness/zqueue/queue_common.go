//go:build verif

package main

import (
	"encoding/hex"
	"fmt"
	"os"
	"os/exec"
	"runtime"
	"sort"
	"strings"
	"sync"
	"time"
)

// ---- Coq term helpers (on top of harness/common) ----

func coqN(v int) string   { return fmt.Sprintf("%d%%N", v) }
func coqNat(v int) string { return fmt.Sprintf("%d", v) }
func coqHexS(h string) string {
	return fmt.Sprintf("(hx \"%s\")", h)
}

// strings of the static pools are written as named Coq constants (declared once in the driver's
// header): a case file full of string literals is slow to type-check
var internTable = map[string]string{}
var internDefs []string

func intern(name, s string) {
	if _, ok := internTable[s]; ok {
		return
	}
	internTable[s] = name
	internDefs = append(internDefs, fmt.Sprintf("Definition %s := hx \"%x\".", name, s))
}

func internHeader() string { return strings.Join(internDefs, "\n") + "\n" }

func coqStr(s string) string {
	if n, ok := internTable[s]; ok {
		return n
	}
	return coqHex([]byte(s))
}

// scratch directory, on tmpfs when there is one (SQLite syncs on every commit)
func scratchDir(prefix string) (string, error) {
	if st, err := os.Stat("/dev/shm"); err == nil && st.IsDir() {
		if d, err := os.MkdirTemp("/dev/shm", prefix); err == nil {
			return d, nil
		}
	}
	return os.MkdirTemp("", prefix)
}

func unhex(h string) string {
	b, _ := hex.DecodeString(h)
	return string(b)
}

func coqRes(r string) string {
	switch r {
	case "O":
		return "Ok"
	case "L":
		return "Lost"
	default: // 5 R S X
		return "Fail"
	}
}

func parseKV(in string) map[string]string {
	m := map[string]string{}
	for _, f := range strings.Fields(in) {
		if k, v, ok := strings.Cut(f, "="); ok {
			m[k] = v
		}
	}
	return m
}

// ---- URL text pools ----

// texts that url.ParseRequestURI accepts
var goodTexts = []string{
	"http://a.test/", "http://a.test/x?y=1&z=2", "https://b.test/p/q#frag", "http://c.test/%E2%82%AC",
	"http://d.test/été", "http://e.test/a%20b", "/relative/path", "http://f.test/<>&\"'", "http://g.test/ x",
	"HTTP://UPPER.test/Path", "http://h.test/" + strings.Repeat("long", 40),
}

// texts it refuses (the consumers finish these at once)
var badTexts = []string{"not a url", "", "::", "http://[bad", "\x7f\x01 ctl"}

// texts that are not valid UTF-8 / contain NUL (edge stream)
var rawTexts = []string{"http://i.test/\xff\xfe", "http://j.test/caf\xe9", "http://k.test/a\x00b", "/\xc3\x28"}

var viaTexts = []string{"", "http://parent.test/", "http://parent.test/page?x=1", "https://other.test/ü", "http://p.test/\xe9"}

// pickVia: the last entry of viaTexts is not valid UTF-8 and only used by the raw-bytes stream
func pickVia(r *Rng, raw bool) string {
	if raw {
		return viaTexts[r.Intn(len(viaTexts))]
	}
	return viaTexts[r.Intn(len(viaTexts)-1)]
}

// ---- running cases in parallel child processes ----
//
// The sources under test are process-wide singletons and their batch timers are real (5 s), so
// every history runs in its own child process and the children of all generated inputs are run
// ahead of time by a small pool; Exec then only picks the result up.

type childPool struct {
	mu      sync.Mutex
	sub     string
	toSpec  func(input string) (string, bool)
	results map[string]chan []byte
	queue   []string
	started bool
	cost    func(input string) int // optional: expensive histories are started first
}

func newChildPool(sub string, toSpec func(string) (string, bool)) *childPool {
	return &childPool{sub: sub, toSpec: toSpec, results: map[string]chan []byte{}}
}

func (p *childPool) note(input string) {
	p.mu.Lock()
	defer p.mu.Unlock()
	if _, ok := p.results[input]; !ok {
		p.results[input] = make(chan []byte, 1)
		p.queue = append(p.queue, input)
	}
}

func (p *childPool) runOne(input string) []byte {
	spec, ok := p.toSpec(input)
	if !ok {
		return nil
	}
	dir, err := scratchDir("zv-" + p.sub + "-")
	if err != nil {
		return nil
	}
	defer os.RemoveAll(dir)
	spec = strings.Replace(spec, "@DIR@", dir, 1)
	cmd := exec.Command(os.Args[0], p.sub, spec)
	cmd.Dir = dir
	cmd.Stderr = nil
	done := make(chan struct{})
	var out []byte
	go func() { out, _ = cmd.Output(); close(done) }()
	select {
	case <-done:
	case <-time.After(4 * time.Minute):
		if cmd.Process != nil {
			cmd.Process.Kill()
		}
		<-done
	}
	return out
}

func (p *childPool) start() {
	p.mu.Lock()
	if p.started {
		p.mu.Unlock()
		return
	}
	p.started = true
	// the stored inputs (-corpus file) are run by the pool as well
	for i, a := range os.Args {
		if (a == "-corpus" || a == "--corpus") && i+1 < len(os.Args) {
			if data, err := os.ReadFile(os.Args[i+1]); err == nil {
				for _, l := range strings.Split(string(data), "\n") {
					l = strings.TrimSpace(l)
					if l == "" || strings.HasPrefix(l, "#") {
						continue
					}
					if _, ok := p.results[l]; !ok {
						p.results[l] = make(chan []byte, 1)
						p.queue = append([]string{l}, p.queue...)
					}
				}
			}
		}
	}
	queue := append([]string(nil), p.queue...)
	p.mu.Unlock()
	if p.cost != nil {
		sort.SliceStable(queue, func(i, j int) bool { return p.cost(queue[i]) > p.cost(queue[j]) })
	}
	workers := runtime.NumCPU()
	if workers > 16 {
		workers = 16
	}
	if workers < 4 {
		workers = 4
	}
	ch := make(chan string)
	for w := 0; w < workers; w++ {
		go func() {
			for in := range ch {
				out := p.runOne(in)
				p.mu.Lock()
				c := p.results[in]
				p.mu.Unlock()
				c <- out
			}
		}()
	}
	go func() {
		for _, in := range queue {
			ch <- in
		}
		close(ch)
	}()
}

func (p *childPool) get(input string) []byte {
	p.start()
	p.mu.Lock()
	c, ok := p.results[input]
	p.mu.Unlock()
	if !ok {
		return p.runOne(input)
	}
	out := <-c
	c <- out // a corpus line may repeat
	return out
}

func sortedKeys(m map[string]int) []string {
	ks := make([]string, 0, len(m))
	for k := range m {
		ks = append(ks, k)
	}
	sort.Strings(ks)
	return ks
}
