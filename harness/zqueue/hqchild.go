//go:build verif

package main

// hqchild: ONE history against the REAL crawl-HQ source (hq.Start: consumer, producer, finisher and
// websocket goroutines with the real gocrawlhq HTTP client) in ONE process, talking to a fake
// crawl-HQ HTTP server that lives in the same process, fails on command following the fault
// sequences of the spec, and logs every add / get / delete request body.

import (
	"encoding/hex"
	"encoding/json"
	"fmt"
	"net"
	"net/http"
	"net/url"
	"os"
	"strconv"
	"sync"
	"sync/atomic"
	"time"

	"github.com/gobwas/ws"
	"github.com/google/uuid"
	"github.com/internetarchive/Zeno/internal/pkg/config"
	"github.com/internetarchive/Zeno/internal/pkg/controler/pause"
	"github.com/internetarchive/Zeno/internal/pkg/finisher"
	"github.com/internetarchive/Zeno/internal/pkg/reactor"
	"github.com/internetarchive/Zeno/internal/pkg/source/hq"
	"github.com/internetarchive/Zeno/internal/pkg/verifhook"
	"github.com/internetarchive/Zeno/pkg/models"
	"github.com/internetarchive/gocrawlhq"
)

// QItem is one outlink handed to the source: text, via and hop count (hex = exact bytes).
type QItem struct {
	V    string `json:"v"`   // hex of URL text
	Via  string `json:"via"` // hex of the parent page
	Hops int    `json:"hops"`
}

// QSpec: what the child does.  Steps: "P<k>" produce item k, "W" wait until every outlink produced
// so far has been accepted by the queue (this is what forces a timer-triggered flush).
type QSpec struct {
	BSize       int      `json:"bsize"`   // HQBatchSize (producer batch size, consumer get size)
	Workers     int      `json:"workers"` // WorkersCount (finisher batch size; senders = max(1, workers/10))
	Items       []QItem  `json:"items"`
	Steps       []string `json:"steps"`
	AddF        string   `json:"addf"` // result of the k-th add request: O ok, 5 503, R reset, S stall, L processed but answer lost
	DelF        string   `json:"delf"`
	GetF        string   `json:"getf"`
	Consume     bool     `json:"consume"` // the fake HQ hands accepted URLs back out on get
	Fin         string   `json:"fin"`     // plan for the k-th seed leaving the reactor: digit c = finish with c children, H = hold
	Dir         string   `json:"dir"`
	WaitMs      int      `json:"wait_ms"`      // watchdog for quiescence
	GetConc     int      `json:"get_conc"`     // --hq-batch-concurrency: a fetch round is this many concurrent gets of bsize/GetConc URLs
	PP          string   `json:"pp"`           // outlinks come from the real postprocessor (pptree.go); step "PA" produces them all
	PPHops      int      `json:"pp_hops"`      // hop count of the seed of that tree
	RealFin     bool     `json:"real_fin"`     // finished seeds go through the REAL finisher stage (finisher.Start workers)
	PauseOutage bool     `json:"pause_outage"` // pause.Pause()/Resume() once a finisher worker is stuck handing a seed to the source
}

type QEvent struct {
	K     string     `json:"k"`             // R produce | A add | G get | S seed | F finish | D delete
	I     int        `json:"i,omitempty"`   // R: item index
	Res   string     `json:"res,omitempty"` // A/G/D: O 5 R S L ; G: also E (empty feed, 204)
	Batch [][]string `json:"batch,omitempty"`
	// A: [v, via, path] (hex) ; G: [id, v, via, path] ; D: [id]
	ID    string `json:"id,omitempty"`    // S, F
	V     string `json:"v,omitempty"`     // S
	Via   string `json:"via,omitempty"`   // S
	Hops  int    `json:"hops,omitempty"`  // S
	N     int    `json:"n,omitempty"`     // F: children ; D: localCrawls ; G: size asked
	Conc  int    `json:"conc,omitempty"`  // A/D: requests of this kind open at the same time (including this one)
	Stamp int64  `json:"stamp,omitempty"` // ms since start (information only, never compared)
}

type QResult struct {
	Events   []QEvent `json:"events"`
	TimedOut bool     `json:"timed_out"`
	Panic    string   `json:"panic,omitempty"`
	Notes    []string `json:"notes,omitempty"`
	// a pause was issued while a finisher worker was blocked on the hand-over and the last DELETE had failed
	PauseDuringOutage bool `json:"pause_during_outage,omitempty"`
	PauseIssued       bool `json:"pause_issued,omitempty"`
	ResumeReturned    bool `json:"resume_returned,omitempty"`
}

type fakeHQ struct {
	mu       sync.Mutex
	t0       time.Time
	events   []QEvent
	spec     *QSpec
	nAdd     int
	nDel     int
	nGet     int
	openAdd  int
	openDel  int
	queue    []gocrawlhq.URL // accepted, not yet handed out
	nextID   int
	accepted int // outlinks accepted with an answered 201
	deleted  map[string]int
	handed   int
}

func (f *fakeHQ) log(e QEvent) {
	e.Stamp = time.Since(f.t0).Milliseconds()
	f.events = append(f.events, e)
}

func fault(plan string, k int) byte {
	if k < len(plan) {
		return plan[k]
	}
	return 'O'
}

func hx(s string) string { return hex.EncodeToString([]byte(s)) }

// kill the connection under the client without an HTTP answer
func dropConn(w http.ResponseWriter) {
	hj, ok := w.(http.Hijacker)
	if !ok {
		return
	}
	c, _, err := hj.Hijack()
	if err != nil {
		return
	}
	if tc, ok := c.(*net.TCPConn); ok {
		tc.SetLinger(0)
	}
	c.Close()
}

func (f *fakeHQ) respond(w http.ResponseWriter, r *http.Request, res byte, okStatus int, body []byte) {
	switch res {
	case 'O':
		if body != nil {
			w.Header().Set("Content-Type", "application/json")
		}
		w.WriteHeader(okStatus)
		if body != nil {
			w.Write(body)
		}
	case '5':
		w.WriteHeader(503)
	case 'R', 'L':
		dropConn(w)
	case 'S':
		// hold the request until the client gives up (its 5 s timeout), bounded for safety
		select {
		case <-r.Context().Done():
		case <-time.After(20 * time.Second):
		}
		dropConn(w)
	}
}

func (f *fakeHQ) urls(w http.ResponseWriter, r *http.Request) {
	switch r.Method {
	case http.MethodPost:
		var p gocrawlhq.AddPayload
		err := json.NewDecoder(r.Body).Decode(&p)
		f.mu.Lock()
		res := fault(f.spec.AddF, f.nAdd)
		f.nAdd++
		f.openAdd++
		ev := QEvent{K: "A", Res: string(res), Conc: f.openAdd}
		if err != nil {
			ev.Res = "X"
		}
		for _, u := range p.URLs {
			ev.Batch = append(ev.Batch, []string{hx(u.Value), hx(u.Via), hx(u.Path), hx(u.ID)})
		}
		if err == nil && (res == 'O' || res == 'L') {
			for _, u := range p.URLs {
				u.ID = fmt.Sprintf("hq-%04d", f.nextID)
				f.nextID++
				if f.spec.Consume {
					f.queue = append(f.queue, u)
				}
			}
			if res == 'O' {
				f.accepted += len(p.URLs)
			}
		}
		f.log(ev)
		f.mu.Unlock()
		f.respond(w, r, res, 201, nil)
		f.mu.Lock()
		f.openAdd--
		f.mu.Unlock()
	case http.MethodDelete:
		var p gocrawlhq.DeletePayload
		err := json.NewDecoder(r.Body).Decode(&p)
		f.mu.Lock()
		res := fault(f.spec.DelF, f.nDel)
		f.nDel++
		f.openDel++
		ev := QEvent{K: "D", Res: string(res), N: p.LocalCrawls, Conc: f.openDel}
		if err != nil {
			ev.Res = "X"
		}
		for _, u := range p.URLs {
			ev.Batch = append(ev.Batch, []string{hx(u.ID)})
			if err == nil && res == 'O' {
				f.deleted[u.ID]++
			}
		}
		f.log(ev)
		f.mu.Unlock()
		f.respond(w, r, res, 204, nil)
		f.mu.Lock()
		f.openDel--
		f.mu.Unlock()
	case http.MethodGet:
		size, _ := strconv.Atoi(r.URL.Query().Get("size"))
		f.mu.Lock()
		res := fault(f.spec.GetF, f.nGet)
		if len(f.queue) == 0 {
			// an empty feed is not an event of the history (the consumer polls all the time) and does
			// not use up the fault plan: a planned get fault always hits a round in which the feed has
			// URLs, i.e. in which the sibling sub-fetches are served
			f.mu.Unlock()
			if f.spec.GetConc > 1 {
				time.Sleep(15 * time.Millisecond) // with concurrent sub-fetches an all-empty round is retried at once
			}
			w.WriteHeader(204)
			return
		}
		f.nGet++
		ev := QEvent{K: "G", Res: string(res), N: size}
		var out []gocrawlhq.URL
		if res == 'O' {
			n := size
			if n > len(f.queue) {
				n = len(f.queue)
			}
			if n < 0 {
				n = 0
			}
			out = append(out, f.queue[:n]...)
			f.queue = f.queue[n:]
			f.handed += n
			for _, u := range out {
				ev.Batch = append(ev.Batch, []string{hx(u.ID), hx(u.Value), hx(u.Via), hx(u.Path)})
			}
		}
		f.log(ev)
		f.mu.Unlock()
		var body []byte
		if res == 'O' {
			body, _ = json.Marshal(out)
		}
		f.respond(w, r, res, 200, body)
	default:
		w.WriteHeader(405)
	}
}

func (f *fakeHQ) websocket(w http.ResponseWriter, r *http.Request) {
	conn, _, _, err := ws.UpgradeHTTP(r, w)
	if err != nil {
		return
	}
	go func() {
		defer conn.Close()
		buf := make([]byte, 4096)
		for {
			if _, err := conn.Read(buf); err != nil {
				return
			}
		}
	}()
}

// reactorTokens: the reactor must never be what holds a seed back.  Held seeds (plan H) keep their
// token, and every add whose answer is lost (L) queues its batch a second time at the HQ, so the
// number of seeds is not bounded by the number of outlinks: one token per outlink and per possible
// re-delivery, with room to spare.
func reactorTokens(spec *QSpec, npp int) int {
	n := len(spec.Items) + npp
	lost := 0
	for _, f := range spec.AddF {
		if f == 'L' {
			lost++
		}
	}
	return (n+8)*(lost+2) + 64
}

func runHQChild(spec *QSpec) (res QResult) {
	f := &fakeHQ{t0: time.Now(), spec: spec, deleted: map[string]int{}}
	defer func() {
		if r := recover(); r != nil {
			res.Panic = fmt.Sprint(r)
		}
		f.mu.Lock()
		res.Events = append([]QEvent(nil), f.events...)
		f.mu.Unlock()
	}()

	ln, err := net.Listen("tcp", "127.0.0.1:0")
	if err != nil {
		panic(err)
	}
	const project = "zv"
	mux := http.NewServeMux()
	mux.HandleFunc("/api/projects/"+project+"/urls", f.urls)
	mux.HandleFunc("/api/ws", f.websocket)
	mux.HandleFunc("/api/projects/"+project+"/reset/", func(w http.ResponseWriter, r *http.Request) { w.WriteHeader(200) })
	srv := &http.Server{Handler: mux}
	go srv.Serve(ln)

	config.InitConfig()
	c := config.Get()
	c.Job = "hqchild"
	c.JobPath = spec.Dir
	c.NoStdoutLogging, c.NoStderrLogging, c.NoFileLogging = true, true, true
	c.HQAddress = "http://" + ln.Addr().String()
	c.HQKey, c.HQSecret, c.HQProject = "k", "s", project
	c.HQBatchSize = spec.BSize
	c.HQBatchConcurrency = 1
	if spec.GetConc > 1 {
		c.HQBatchConcurrency = spec.GetConc
	}
	c.WorkersCount = spec.Workers
	c.UseHQ = true

	var ppOuts []ppOut
	if spec.PP != "" {
		var err error
		if ppOuts, err = buildOutlinks(spec.PP, spec.PPHops, spec.Dir); err != nil {
			panic("pp tree: " + err.Error())
		}
	}

	reactorOut := make(chan *models.Item)
	finishCh := make(chan *models.Item)
	produceCh := make(chan *models.Item)
	if err := reactor.Start(reactorTokens(spec, len(ppOuts)), reactorOut); err != nil {
		panic(err)
	}
	if err := hq.Start(finishCh, produceCh); err != nil {
		panic(err)
	}

	// real finisher stage: its workers do CompleteAndCheck, MarkAsFinished and the hand-over to the
	// source; the hook points around the hand-over tell when a worker is stuck in it
	finIn := make(chan *models.Item)
	var finFinished, finNotified int64
	if spec.RealFin {
		verifhook.SetHandler(func(point string, arg any) {
			switch point {
			case "fin.finished":
				seed := arg.(*models.Item)
				f.mu.Lock()
				f.log(QEvent{K: "F", ID: hx(seed.GetID()), N: 0})
				f.mu.Unlock()
				atomic.AddInt64(&finFinished, 1)
			case "fin.notified":
				atomic.AddInt64(&finNotified, 1)
			}
		})
		if err := finisher.Start(finIn, finishCh, produceCh); err != nil {
			panic(err)
		}
	}
	resumeDone := make(chan struct{})
	if spec.RealFin && spec.PauseOutage {
		go func() {
			defer close(resumeDone)
			stuckSince := time.Time{}
			for {
				time.Sleep(20 * time.Millisecond)
				if time.Since(f.t0) > time.Duration(spec.WaitMs)*time.Millisecond {
					return
				}
				if atomic.LoadInt64(&finFinished) > atomic.LoadInt64(&finNotified) {
					if stuckSince.IsZero() {
						stuckSince = time.Now()
					}
				} else {
					stuckSince = time.Time{}
				}
				if stuckSince.IsZero() || time.Since(stuckSince) < 250*time.Millisecond {
					continue
				}
				// a worker has been stuck in the hand-over for a quarter of a second
				f.mu.Lock()
				lastDel := ""
				for _, e := range f.events {
					if e.K == "D" {
						lastDel = e.Res
					}
				}
				res.PauseIssued = true
				res.PauseDuringOutage = lastDel != "" && lastDel != "O"
				f.mu.Unlock()
				pause.Pause("verif: pause during HQ outage")
				time.Sleep(300 * time.Millisecond)
				pause.Resume() // returns once every worker has gone through its pause arm
				f.mu.Lock()
				res.ResumeReturned = true
				f.mu.Unlock()
				return
			}
		}()
	} else {
		close(resumeDone)
	}

	// the part of the finisher stage that talks to the source: a seed leaves the reactor, is
	// marked finished and handed to finishCh (plan digit = number of children it carries)
	var planned int
	var plannedMu sync.Mutex
	stopSeeds := make(chan struct{})
	seedsDone := make(chan struct{})
	go func() {
		defer close(seedsDone)
		k := 0
		for {
			select {
			case <-stopSeeds:
				return
			case seed := <-reactorOut:
				act := byte('0')
				if len(spec.Fin) > 0 {
					act = spec.Fin[k%len(spec.Fin)]
				}
				k++
				f.mu.Lock()
				f.log(QEvent{K: "S", ID: hx(seed.GetID()), V: hx(seed.GetURL().Raw), Via: hx(seed.GetSeedVia()), Hops: seed.GetURL().GetHops()})
				f.mu.Unlock()
				if act == 'H' {
					continue
				}
				nch := int(act - '0')
				for j := 0; j < nch; j++ {
					cu := &models.URL{Raw: fmt.Sprintf("http://child.test/%d", j)}
					cu.Parse()
					ch := models.NewItem(uuid.NewString(), cu, "")
					seed.AddChild(ch, models.ItemGotChildren)
					if spec.RealFin {
						ch.SetStatus(models.ItemCompleted)
					}
				}
				if spec.RealFin {
					// as it leaves the postprocessor: nothing left to do in its tree
					if nch == 0 {
						seed.SetStatus(models.ItemCompleted)
					}
					plannedMu.Lock()
					planned++
					plannedMu.Unlock()
					select {
					case finIn <- seed:
					case <-stopSeeds:
						return
					}
					continue
				}
				if err := reactor.MarkAsFinished(seed); err != nil {
					panic(err)
				}
				plannedMu.Lock()
				planned++
				plannedMu.Unlock()
				f.mu.Lock()
				f.log(QEvent{K: "F", ID: hx(seed.GetID()), N: nch})
				f.mu.Unlock()
				select {
				case finishCh <- seed:
				case <-stopSeeds:
					return
				}
			}
		}
	}()

	deadline := time.Now().Add(time.Duration(spec.WaitMs) * time.Millisecond)
	waitFor := func(cond func() bool) bool {
		for {
			f.mu.Lock()
			ok := cond()
			f.mu.Unlock()
			if ok {
				return true
			}
			if time.Now().After(deadline) {
				return false
			}
			time.Sleep(20 * time.Millisecond)
		}
	}

	produced := 0
	for _, st := range spec.Steps {
		if st == "W" || st == "X" {
			n := produced
			if !waitFor(func() bool { return f.accepted >= n }) {
				res.TimedOut = true
			}
			continue
		}
		type prod struct {
			item *models.Item
			ev   QEvent
		}
		var todo []prod
		if st == "PA" {
			// everything the real postprocessor returned, as it returned it; the event carries what
			// the property expects: link text, URL and hop count of the item whose document had it
			for k, o := range ppOuts {
				todo = append(todo, prod{o.item, QEvent{K: "R", I: k, V: hx(o.text), Via: hx(o.docURL), Hops: o.docHops}})
			}
		} else {
			k, _ := strconv.Atoi(st[1:])
			it := spec.Items[k]
			v, _ := hex.DecodeString(it.V)
			via, _ := hex.DecodeString(it.Via)
			todo = append(todo, prod{models.NewItem(uuid.NewString(), &models.URL{Raw: string(v), Hops: it.Hops}, string(via)), QEvent{K: "R", I: k}})
		}
		for _, pr := range todo {
			item := pr.item
			f.mu.Lock()
			f.log(pr.ev)
			f.mu.Unlock()
			sent := make(chan struct{})
			go func() { produceCh <- item; close(sent) }()
			select {
			case <-sent:
			case <-time.After(time.Until(deadline)):
				res.TimedOut = true
			}
			if res.TimedOut {
				break
			}
			produced++
		}
		if res.TimedOut {
			break
		}
	}

	// quiescence: every outlink accepted; when consuming, every accepted URL handed out again,
	// every parsable one seen as a seed and every planned finish (plus every unparsable URL,
	// which hq.consumerSender sends to the finisher itself) deleted at the HQ
	if !res.TimedOut {
		expectDeleted := func() int {
			n := 0
			k := 0
			for _, e := range f.events {
				if e.K != "G" {
					continue
				}
				for _, u := range e.Batch {
					raw, _ := hex.DecodeString(u[1])
					if _, err := url.ParseRequestURI(string(raw)); err != nil {
						n++
						continue
					}
					act := byte('0')
					if len(spec.Fin) > 0 {
						act = spec.Fin[k%len(spec.Fin)]
					}
					k++
					if act != 'H' {
						n++
					}
				}
			}
			return n
		}
		ok := waitFor(func() bool {
			if f.accepted < produced {
				return false
			}
			if !spec.Consume {
				return true
			}
			if len(f.queue) > 0 {
				return false
			}
			nd := 0
			for _, c := range f.deleted {
				nd += c
			}
			// every parsable URL that was handed out has left the reactor as a seed
			wantSeeds, gotSeeds := 0, 0
			for _, e := range f.events {
				switch e.K {
				case "G":
					for _, u := range e.Batch {
						raw, _ := hex.DecodeString(u[1])
						if _, err := url.ParseRequestURI(string(raw)); err == nil {
							wantSeeds++
						}
					}
				case "S":
					gotSeeds++
				}
			}
			if gotSeeds < wantSeeds {
				return false
			}
			return nd >= expectDeleted()
		})
		if !ok {
			res.TimedOut = true
		}
	}
	// let late duplicate requests (a second delivery of something already acknowledged) show up
	time.Sleep(150 * time.Millisecond)
	select {
	case <-resumeDone:
	case <-time.After(time.Until(deadline) + time.Second):
	}
	close(stopSeeds)
	<-seedsDone
	return res
}

func init() {
	subcommands["hqchild"] = func(args []string) {
		var spec QSpec
		if err := json.Unmarshal([]byte(args[0]), &spec); err != nil {
			fmt.Fprintln(os.Stderr, "bad spec:", err)
			os.Exit(2)
		}
		res := runHQChild(&spec)
		out, _ := json.Marshal(res)
		os.Stdout.Write(out)
		os.Stdout.Write([]byte("\n"))
		os.Exit(0) // no hq.Stop(): the property is about the running crawler; the process ends here
	}
}
