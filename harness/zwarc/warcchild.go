//go:build verif

package main

// warcchild: ONE process = the real archiver stage (archiver.Start / Stop, real WARC-writing
// client writing under <dir>/jobs/<job>/warcs) + an in-process origin on 127.0.0.2.  Items are
// sent through the archiver's input channel; at the archiver's own "arch.written" event point
// (after the feedback wait, before SetStatus(ItemArchived)) and again when the seed leaves the
// archiver the WARC files on disk are read with the independent reader.

import (
	"bytes"
	"compress/gzip"
	"crypto/sha1"
	"encoding/hex"
	"encoding/json"
	"fmt"
	"net"
	"net/http"
	"os"
	"path/filepath"
	"strings"
	"sync"
	"time"

	"github.com/internetarchive/Zeno/internal/pkg/archiver"
	"github.com/internetarchive/Zeno/internal/pkg/config"
	"github.com/internetarchive/Zeno/internal/pkg/verifhook"
	"github.com/internetarchive/Zeno/pkg/models"
)

// HitSpec: what the origin answers to the n-th request for a path.
type HitSpec struct {
	Kind    string `json:"kind"` // resp | drop | trunc | badgzip (Content-Encoding: gzip on an empty entity: the transport fails to set up its decoder, client.Do returns an error although the exchange was captured)
	Status  int    `json:"status"`
	CF      string `json:"cf"`    // value of the cf-mitigated header, "" = absent
	CType   string `json:"ctype"` // Content-Type
	Body    string `json:"body"`  // body spec (see parseBodySpec) or "rnd:<seed>:<n>"
	Gzip    bool   `json:"gzip"`
	Chunked bool   `json:"chunked"`
	// further response headers, "Key: value" (Server and the other headers CDNs add and discard hooks look at)
	Hdrs []string `json:"hdrs,omitempty"`
}

type ResSpec struct {
	Path string    `json:"path"`
	Hits []HitSpec `json:"hits"` // the last one repeats
}

type ChildSpec struct {
	Dir       string    `json:"dir"`
	Workers   int       `json:"workers"`
	MCA       int       `json:"mca"`
	Pool      int       `json:"pool"`
	OnDisk    bool      `json:"ondisk"`
	Dedupe    bool      `json:"dedupe"`
	WarcSize  int       `json:"warc_size"`
	Discard   []int     `json:"discard"`
	MaxRetry  int       `json:"max_retry"`
	Async     bool      `json:"async"`
	DisableAC bool      `json:"disable_assets"`
	MaxHops   int       `json:"max_hops"`
	Proxy     bool      `json:"proxy,omitempty"` // --proxy socks5://<local proxy>: the archiver uses its proxied WARC client
	Resources []ResSpec `json:"resources"`
	Seeds     [][]int   `json:"seeds"` // indices into Resources: one index = a seed fetched itself; more = an already archived seed (first) with the others as its assets
	TimeoutMs int       `json:"timeout_ms"`
}

type HitLog struct {
	Kind   string `json:"kind"`
	Status int    `json:"status"`
	CF     string `json:"cf"`
	SHA    string `json:"sha"`
	Len    int64  `json:"len"`
	Gzip   bool   `json:"gzip"`
	Chunk  bool   `json:"chunked"`
	Server string `json:"server,omitempty"` // Server header sent, "" = none
}

type ItemOut struct {
	Res       int      `json:"res"`
	Status    string   `json:"status"`
	Written   bool     `json:"written_fired"`
	AtWritten []RecSum `json:"at_written"`
	AtOut     []RecSum `json:"at_out"`
	AtEnd     []RecSum `json:"at_end"`
	Hits      []HitLog `json:"hits"`
}

type ChildResult struct {
	Items         []ItemOut `json:"items"`
	BadFiles      []string  `json:"bad_files"`
	Files         int       `json:"files"`
	OtherRecs     int       `json:"other_records"` // records at the end that are neither warcinfo nor about a requested URL
	BadRecs       []string  `json:"bad_records"`
	TimedOut      bool      `json:"timed_out"`
	StopMs        int64     `json:"stop_ms"`
	EmptyMembers  int       `json:"empty_members"`
	ProxyConnects int64     `json:"proxy_connects"`
	// every revisit record refers to a stored response record with the same payload digest and that URI
	RevisitsOK bool `json:"revisits_ok"`
}

func init() { subcommands["warcchild"] = func(a []string) { runWarcChild(a[0]) } }

func rndBytes(seed uint64, n int) []byte {
	r := NewRng(seed)
	b := make([]byte, n)
	for i := 0; i+8 <= n; i += 8 {
		v := r.U64()
		for k := 0; k < 8; k++ {
			b[i+k] = byte(v >> (8 * k))
		}
	}
	for i := n - n%8; i < n; i++ {
		b[i] = byte(r.U64())
	}
	return b
}

func hitBody(h HitSpec) []byte {
	var seed uint64
	var n int
	if k, _ := fmt.Sscanf(h.Body, "rnd:%d:%d", &seed, &n); k == 2 {
		return rndBytes(seed, n)
	}
	return parseBodySpec(h.Body)
}

type wOrigin struct {
	mu    sync.Mutex
	spec  *ChildSpec
	byP   map[string]int
	count map[string]int
	log   map[string][]HitLog
}

func (o *wOrigin) ServeHTTP(w http.ResponseWriter, req *http.Request) {
	p := req.URL.Path
	o.mu.Lock()
	idx, ok := o.byP[p]
	o.count[p]++
	att := o.count[p]
	o.mu.Unlock()
	if !ok {
		http.NotFound(w, req)
		return
	}
	hits := o.spec.Resources[idx].Hits
	h := hits[len(hits)-1]
	if att <= len(hits) {
		h = hits[att-1]
	}
	lg := HitLog{Kind: h.Kind, Status: h.Status, CF: h.CF, Gzip: h.Gzip, Chunk: h.Chunked}
	for _, kv := range h.Hdrs {
		if k, v, ok := strings.Cut(kv, ": "); ok && strings.EqualFold(k, "server") {
			lg.Server = v
		}
	}
	record := func() {
		o.mu.Lock()
		o.log[p] = append(o.log[p], lg)
		o.mu.Unlock()
	}
	if h.Kind == "drop" {
		record()
		if hj, ok := w.(http.Hijacker); ok {
			c, _, err := hj.Hijack()
			if err == nil {
				c.Close()
			}
		}
		return
	}
	body := hitBody(h)
	if h.Status == 204 || h.Status == 304 {
		body = nil
	}
	if h.Kind == "badgzip" {
		body = nil
		w.Header().Set("Content-Encoding", "gzip")
	}
	if h.Gzip && len(body) > 0 {
		var zb bytes.Buffer
		zw := gzip.NewWriter(&zb)
		zw.Write(body)
		zw.Close()
		body = zb.Bytes()
		w.Header().Set("Content-Encoding", "gzip")
	}
	sum := sha1.Sum(body)
	lg.SHA, lg.Len = hex.EncodeToString(sum[:]), int64(len(body))
	record()
	if h.CType != "" {
		w.Header().Set("Content-Type", h.CType)
	}
	if h.CF != "" {
		w.Header().Set("cf-mitigated", h.CF)
	}
	for _, kv := range h.Hdrs {
		if k, v, ok := strings.Cut(kv, ": "); ok {
			w.Header().Set(k, v)
		}
	}
	if h.Status >= 300 && h.Status < 400 && h.Status != 304 {
		w.Header().Set("Location", "/elsewhere")
	}
	if h.Kind == "trunc" {
		// promise more than is sent, then cut the connection
		w.Header().Set("Content-Length", fmt.Sprint(len(body)+1000))
		w.WriteHeader(h.Status)
		w.Write(body)
		if fl, ok := w.(http.Flusher); ok {
			fl.Flush()
		}
		if hj, ok := w.(http.Hijacker); ok {
			c, _, err := hj.Hijack()
			if err == nil {
				c.Close()
			}
		}
		return
	}
	if !h.Chunked || h.Status == 204 || h.Status == 304 {
		if h.Status != 204 && h.Status != 304 {
			w.Header().Set("Content-Length", fmt.Sprint(len(body)))
		}
		w.WriteHeader(h.Status)
		w.Write(body)
		return
	}
	w.WriteHeader(h.Status)
	fl, _ := w.(http.Flusher)
	r := NewRng(uint64(len(body))*31 + uint64(att))
	for off := 0; off < len(body); {
		n := 1 + r.Intn(9000)
		if r.Chance(20) {
			n = 1 + r.Intn(40)
		}
		if off+n > len(body) {
			n = len(body) - off
		}
		w.Write(body[off : off+n])
		if fl != nil {
			fl.Flush()
		}
		off += n
	}
	if len(body) == 0 && fl != nil {
		fl.Flush() // forces chunked framing of an empty entity
	}
}

func statusName(s models.ItemState) string { return s.String() }

func runWarcChild(specPath string) {
	raw, err := os.ReadFile(specPath)
	must(err)
	var sp ChildSpec
	must(json.Unmarshal(raw, &sp))
	must(os.MkdirAll(sp.Dir, 0o755))
	must(os.Chdir(sp.Dir))

	ln, err := net.Listen("tcp", "127.0.0.2:0")
	must(err)
	host := ln.Addr().String()
	org := &wOrigin{spec: &sp, byP: map[string]int{}, count: map[string]int{}, log: map[string][]HitLog{}}
	for i, r := range sp.Resources {
		org.byP[r.Path] = i
	}
	go (&http.Server{Handler: org}).Serve(ln)

	// ---- configuration: the fields the CLI would fill
	must(config.InitConfig())
	c := config.Get()
	c.Job = "c02"
	c.WorkersCount = sp.Workers
	c.MaxConcurrentAssets = sp.MCA
	c.WARCWriteAsync = sp.Async
	c.WARCPoolSize = sp.Pool
	c.WARCQueueSize = -1
	c.WARCOnDisk = sp.OnDisk
	c.DisableLocalDedupe = !sp.Dedupe
	c.WARCDedupeSize = 1024
	c.WARCPrefix = "ZENO"
	c.WARCSize = sp.WarcSize
	c.WARCDiscardStatus = sp.Discard
	c.DisableRateLimit = true
	c.MaxRetry = sp.MaxRetry
	c.MaxHops = sp.MaxHops
	c.DisableAssetsCapture = sp.DisableAC
	c.HTTPTimeout, c.HTTPReadDeadline = -1, 60
	c.NoStdoutLogging, c.NoStderrLogging, c.NoFileLogging = true, true, true
	c.UserAgent = "zv-c02"
	if sp.Proxy {
		c.Proxy = "socks5://" + startSocks5()
	}
	must(config.GenerateCrawlConfig())
	must(os.MkdirAll(c.JobPath, 0o755))
	warcDir := filepath.Join(c.JobPath, "warcs")

	snap := newWarcSnap(warcDir)
	uriOf := func(res int) string { return "http://" + host + sp.Resources[res].Path }
	// the records about resource res; a request record must be the request for exactly that URL
	recsOf := func(res int) []RecSum {
		rs := snap.byURI(uriOf(res))
		for i := range rs {
			if rs[i].Type == "request" && rs[i].OK && (rs[i].ReqLine != "GET "+sp.Resources[res].Path+" HTTP/1.1" || rs[i].ReqHost != host) {
				rs[i].OK, rs[i].Why = false, "request record is not the request for its WARC-Target-URI: "+rs[i].ReqLine+" / "+rs[i].ReqHost
			}
		}
		return rs
	}

	// ---- items
	type tracked struct {
		res  int
		item *models.Item
		out  *ItemOut
	}
	var all []*tracked
	byID := map[string]*tracked{}
	mk := func(id string, res int) *models.Item {
		u := &models.URL{Raw: uriOf(res)}
		must(u.Parse())
		return models.NewItem(id, u, "")
	}
	prep := func(it *models.Item) {
		req, err := http.NewRequest(http.MethodGet, it.GetURL().String(), nil)
		must(err)
		req.Header.Set("User-Agent", c.UserAgent)
		it.GetURL().SetRequest(req)
		it.SetStatus(models.ItemPreProcessed)
	}
	var seeds []*models.Item
	for si, s := range sp.Seeds {
		seed := mk(fmt.Sprintf("seed-%d", si), s[0])
		if len(s) == 1 {
			prep(seed)
			t := &tracked{res: s[0], item: seed, out: &ItemOut{Res: s[0]}}
			all = append(all, t)
			byID[seed.GetID()] = t
		} else {
			seed.SetStatus(models.ItemArchived)
			for ci, r := range s[1:] {
				ch := mk(fmt.Sprintf("seed-%d-asset-%d", si, ci), r)
				must(seed.AddChild(ch, models.ItemGotChildren))
				prep(ch)
				t := &tracked{res: r, item: ch, out: &ItemOut{Res: r}}
				all = append(all, t)
				byID[ch.GetID()] = t
			}
		}
		must(seed.CheckConsistency())
		seeds = append(seeds, seed)
	}

	var hookMu sync.Mutex
	verifhook.SetHandler(func(point string, arg any) {
		if point != "arch.written" {
			return
		}
		it, ok := arg.(*models.Item)
		if !ok {
			return
		}
		hookMu.Lock()
		t := byID[it.GetID()]
		hookMu.Unlock()
		if t == nil {
			return
		}
		snap.update(false)
		t.out.Written = true
		t.out.AtWritten = recsOf(t.res)
	})

	in := make(chan *models.Item, len(seeds))
	out := make(chan *models.Item, len(seeds))
	must(archiver.Start(in, out))
	for _, s := range seeds {
		in <- s
	}
	res := &ChildResult{}
	deadline := time.After(time.Duration(sp.TimeoutMs) * time.Millisecond)
	got := 0
loop:
	for got < len(seeds) {
		select {
		case s := <-out:
			got++
			snap.update(false)
			s.Traverse(func(n *models.Item) {
				if t := byID[n.GetID()]; t != nil {
					t.out.Status = statusName(n.GetStatus())
					t.out.AtOut = recsOf(t.res)
				}
			})
		case <-deadline:
			res.TimedOut = true
			break loop
		}
	}
	if !res.TimedOut {
		t0 := time.Now()
		done := make(chan struct{})
		go func() { archiver.Stop(); close(done) }()
		select {
		case <-done:
			res.StopMs = time.Since(t0).Milliseconds()
		case <-time.After(time.Duration(sp.TimeoutMs) * time.Millisecond):
			res.TimedOut = true
		}
	}
	snap.update(!res.TimedOut)
	known := map[string]bool{}
	// entity SHA-1s (computed from the stored blocks) of the response records under each URI
	storedResp := map[string][]string{}
	for _, q := range snap.all() {
		if q.Type == "response" {
			storedResp[q.URI] = append(storedResp[q.URI], q.SHA)
		}
	}
	for _, t := range all {
		known[uriOf(t.res)] = true
		t.out.AtEnd = recsOf(t.res)
		for i := range t.out.AtEnd {
			if t.out.AtEnd[i].Type == "revisit" {
				t.out.AtEnd[i].Refs = storedResp[t.out.AtEnd[i].RefersURI]
			}
		}
		org.mu.Lock()
		t.out.Hits = org.log[sp.Resources[t.res].Path]
		org.mu.Unlock()
		res.Items = append(res.Items, *t.out)
	}
	allRecs := snap.all()
	res.RevisitsOK = true
	for _, r := range allRecs {
		if r.Type != "revisit" {
			continue
		}
		found := false
		for _, q := range allRecs {
			if q.Type == "response" && q.SHA == r.SHA && q.URI == r.RefersURI {
				found = true
			}
		}
		if !found {
			res.RevisitsOK = false
			res.BadRecs = append(res.BadRecs, r.File+": revisit "+r.URI+" refers to "+r.RefersURI+" which has no stored response with that payload")
		}
	}
	for _, r := range allRecs {
		if !r.OK {
			res.BadRecs = append(res.BadRecs, r.File+": "+r.Type+" "+r.URI+": "+r.Why)
		}
		if r.Type != "warcinfo" && !known[r.URI] {
			res.OtherRecs++
		}
	}
	res.BadFiles = snap.BadFiles
	res.EmptyMembers = snap.EmptyMembers
	res.ProxyConnects = socksConnects.Load()
	res.Files = snap.fileCount()
	outj, _ := json.Marshal(res)
	must(os.WriteFile("result.json", outj, 0o644))
	os.Exit(0)
}
