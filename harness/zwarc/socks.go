//go:build verif

package main

// A minimal no-auth SOCKS5 CONNECT proxy on a loopback port, for the warcleg cases that run
// the archiver with --proxy (the archiver then uses its second, proxied WARC client).

import (
	"encoding/binary"
	"fmt"
	"io"
	"net"
	"sync/atomic"
)

var socksConnects atomic.Int64 // CONNECTs served: shows that the traffic really went through the proxy

func startSocks5() string {
	ln, err := net.Listen("tcp", "127.0.0.1:0")
	must(err)
	go func() {
		for {
			c, err := ln.Accept()
			if err != nil {
				return
			}
			go socksConn(c)
		}
	}()
	return ln.Addr().String()
}

func socksConn(c net.Conn) {
	defer c.Close()
	hdr := make([]byte, 2)
	if _, err := io.ReadFull(c, hdr); err != nil || hdr[0] != 5 {
		return
	}
	methods := make([]byte, hdr[1])
	if _, err := io.ReadFull(c, methods); err != nil {
		return
	}
	c.Write([]byte{5, 0})
	req := make([]byte, 4)
	if _, err := io.ReadFull(c, req); err != nil || req[1] != 1 {
		return
	}
	var host string
	switch req[3] {
	case 1:
		b := make([]byte, 4)
		io.ReadFull(c, b)
		host = net.IP(b).String()
	case 3:
		l := make([]byte, 1)
		io.ReadFull(c, l)
		b := make([]byte, l[0])
		io.ReadFull(c, b)
		host = string(b)
	case 4:
		b := make([]byte, 16)
		io.ReadFull(c, b)
		host = net.IP(b).String()
	}
	pb := make([]byte, 2)
	io.ReadFull(c, pb)
	port := binary.BigEndian.Uint16(pb)
	up, err := net.Dial("tcp", net.JoinHostPort(host, fmt.Sprint(port)))
	if err != nil {
		c.Write([]byte{5, 5, 0, 1, 0, 0, 0, 0, 0, 0})
		return
	}
	defer up.Close()
	socksConnects.Add(1)
	c.Write([]byte{5, 0, 0, 1, 0, 0, 0, 0, 0, 0})
	done := make(chan struct{}, 2)
	go func() { io.Copy(up, c); done <- struct{}{} }()
	go func() { io.Copy(c, up); done <- struct{}{} }()
	<-done // either side closed: tear both down (deferred Close calls)
}
