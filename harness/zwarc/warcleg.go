//go:build verif

package main

// C02 leg "warcleg": archive-to-WARC in one child process per case (see warcchild.go); the
// parent generates the case, runs the child, and renders what the origin served and what the
// independent reader found in the WARC files as a Coq term for Warc/WarcHarness.v.

import (
	"encoding/json"
	"fmt"
	"os"
	"os/exec"
	"path/filepath"
	"strconv"
	"strings"
	"sync"
	"time"
)

func init() {
	register(&Driver{
		Name:     "warcleg",
		Header:   "From ZenoV Require Import Lib.Harness Warc.Discard Warc.Retry Warc.WarcHarness.\nOpen Scope Z_scope.\n",
		CaseType: "wcase",
		Footer:   "\nDefinition DIFF := Eval vm_compute in wdiffs cases.\nPrint DIFF.\nDefinition MON := Eval vm_compute in wmons cases.\nPrint MON.\n",
		Rule:     "one case = one process running the real archiver stage with a real WARC-writing client against an in-process origin: a configuration (fetch concurrency, direct or through a local SOCKS5 --proxy (the archiver's second WARC client), WARC pool size, on-disk mode, local dedupe, rotation size, discard list, MaxRetry, sync/async, drain-only) and 8-16 resources (status sequence per attempt incl. dropped connections and truncated bodies, body kind and size, identity/gzip, content-length/chunked, Cloudflare challenge header and near misses, pages of CDN-fronted sites: 403/429/503/200/404 with Server: cloudflare and other CDN headers but no challenge header, twins with identical payload, head twins whose payloads differ only in their first KB), sent as seeds or as assets of a seed; distinct by input text; non-trivial when at least one accepted response was stored, and the case has a discarded, a retried or a failed exchange",
		Gen:      genWarcleg,
		Exec:     execWarcleg,
		Shrink:   shrinkWarcleg,
	})
}

var (
	wlInputs   []string
	wlOnce     sync.Once
	wlResults  = map[string]chan *wlOutcome{}
	wlParallel = 5
)

type wlOutcome struct {
	res *ChildResult
	err string
}

func wlPick(r *Rng, xs []int) int { return xs[r.Intn(len(xs))] }

func genWarcleg(r *Rng, i int, tier string) string {
	sp := ChildSpec{
		Workers:  wlPick(r, []int{1, 2, 4, 4, 8}),
		MCA:      wlPick(r, []int{1, 2, 4}),
		Pool:     wlPick(r, []int{1, 1, 2, 3}),
		OnDisk:   r.Chance(25),
		Dedupe:   r.Chance(50),
		WarcSize: wlPick(r, []int{1, 1, 100}),
		MaxRetry: wlPick(r, []int{0, 1, 1, 2}),
		Async:    r.Chance(12),
		MaxHops:  1,
		Proxy:    r.Chance(35),
	}
	if tier == "thorough" && r.Chance(15) {
		sp.MaxRetry = 3
	}
	if r.Chance(15) {
		sp.DisableAC, sp.MaxHops = true, 0 // ProcessBody only drains
	}
	sp.Discard = [][]int{nil, nil, {404}, {404, 403}, {503}, {200, 301}, {410, 404, 429}}[r.Intn(7)]
	nres := 8 + r.Intn(9)
	bigLeft := 2
	exts := []string{"html", "txt", "json", "png", "bin", "pdf", "css"}
	ctypes := map[string]string{"html": "text/html; charset=utf-8", "txt": "text/plain", "json": "application/json", "png": "image/png",
		"bin": "application/octet-stream", "pdf": "application/pdf", "css": "text/css"}
	heads := map[string]string{"html": "<!DOCTYPE html><html><body><!-- ", "txt": "words ", "json": "{\"k\":\"", "png": "\x89PNG\r\n\x1a\n",
		"bin": "\x00\x01\x02", "pdf": "%PDF-1.4\n%", "css": "body{color:red}/*"}
	body := func(path string, att int, ext string, mayBeTiny bool) string {
		sizes := []int{0, 1, 100, 2047, 2048, 2049, 3000, 4096, 5000, 70000}
		n := sizes[r.Intn(len(sizes))]
		if !mayBeTiny && n < 100 {
			n = 100 // keeps the exchanges of one URL distinguishable by payload
		}
		if bigLeft > 0 && r.Chance(18) {
			bigLeft--
			if r.Bool() {
				return fmt.Sprintf("rnd:%d:%d", r.U64()%1000000, 1100000+r.Intn(1300000)) // incompressible: slow to write, rotates files
			}
			return litSpec(fmt.Sprintf("%s%s#%d ", heads[ext], path, att)) + "+" + runSpec('x', 2097152+r.Intn(3)*2500-2500)
		}
		if n == 0 {
			return "-"
		}
		head := fmt.Sprintf("%s%s#%d ", heads[ext], path, att)
		if n <= len(head) {
			return litSpec(head[len(head)-n:]) // still unique enough: ends with the attempt marker
		}
		return litSpec(head) + "+" + runSpec(byte('a'+r.Intn(26)), n-len(head))
	}
	for k := 0; k < nres; k++ {
		ext := exts[r.Intn(len(exts))]
		path := fmt.Sprintf("/r%d.%s", k, ext)
		single := true
		mkHit := func(att int, kind string, status int) HitSpec {
			h := HitSpec{Kind: kind, Status: status, CType: ctypes[ext], Gzip: r.Chance(25), Chunked: r.Chance(35)}
			if kind != "drop" {
				h.Body = body(path, att, ext, single)
			}
			return h
		}
		var hits []HitSpec
		final := func(att int) HitSpec {
			st := wlPick(r, []int{200, 200, 200, 200, 200, 201, 204, 301, 302, 304, 403, 404, 410, 451})
			return mkHit(att, "resp", st)
		}
		x := r.Intn(100)
		single = x < 38 || x >= 88 && x < 91 || x >= 93 && x < 97
		switch {
		case x < 38:
			hits = append(hits, final(1))
		case x < 50:
			// a page of a CDN-fronted site: the statuses and Server / CDN headers discard hooks look
			// at, WITHOUT the challenge header - the policy keeps it (unless the status is listed);
			// 429 / 503 are retried, every attempt with its own request id in the head of the page
			st := wlPick(r, []int{403, 403, 403, 403, 429, 503, 200, 404})
			hdrs := cdnHdrs(r)
			cf := ""
			if r.Chance(15) {
				cf = []string{"block", "Challenge", "managed"}[r.Intn(3)]
			}
			tail := r.Intn(1000000)
			n := 1
			if st == 429 || st == 503 {
				n = 1 + r.Intn(sp.MaxRetry+1)
			}
			for a := 1; a <= n; a++ {
				h := HitSpec{Kind: "resp", Status: st, CF: cf, CType: "text/html; charset=utf-8", Chunked: r.Chance(35), Hdrs: hdrs,
					Body: cdnBody(fmt.Sprintf("%s#%d", path, a), tail, wlPick(r, []int{0, 500, 1100, 2000}), wlPick(r, []int{600, 3000, 5000}))}
				hits = append(hits, h)
			}
			if (st == 429 || st == 503) && n <= sp.MaxRetry {
				hits = append(hits, final(n+1))
			}
		case x < 62 && len(sp.Discard) > 0:
			hits = append(hits, mkHit(1, "resp", sp.Discard[r.Intn(len(sp.Discard))]))
		case x < 70:
			// Cloudflare challenge, possibly lifted after some attempts
			n := 1 + r.Intn(sp.MaxRetry+2)
			for a := 1; a <= n; a++ {
				h := mkHit(a, "resp", 403)
				h.CF = "challenge"
				hits = append(hits, h)
			}
			if r.Bool() {
				hits = append(hits, final(n+1))
			}
		case x < 88:
			n := 1 + r.Intn(sp.MaxRetry+1)
			if r.Chance(25) {
				n = sp.MaxRetry + 1 // gives up
			}
			for a := 1; a <= n; a++ {
				if r.Chance(25) {
					hits = append(hits, mkHit(a, "drop", 0))
				} else {
					hits = append(hits, mkHit(a, "resp", wlPick(r, []int{500, 503, 503, 429, 408, 425, 502, 599})))
				}
			}
			hits = append(hits, final(n+1))
		case x < 91:
			hits = append(hits, mkHit(1, "drop", 0))
		case x < 93:
			// a response the transport rejects after it was captured
			n := 1 + r.Intn(sp.MaxRetry+1)
			for a := 1; a <= n; a++ {
				hits = append(hits, mkHit(a, "badgzip", wlPick(r, []int{200, 200, 404, 503})))
			}
			if n <= sp.MaxRetry {
				hits = append(hits, final(n+1))
			}
		case x < 97:
			h := mkHit(1, "trunc", 200)
			h.Gzip, h.Chunked = false, false
			if h.Body == "-" {
				h.Body = litSpec("cut short")
			}
			hits = append(hits, h)
		default:
			// near misses of the challenge rule
			h := mkHit(1, "resp", wlPick(r, []int{403, 403, 200, 503}))
			h.CF = []string{"challenge", "Challenge", "block"}[r.Intn(3)]
			hits = append(hits, h)
			if h.Status == 403 && h.CF == "challenge" || h.Status == 503 {
				hits = append(hits, final(2))
			}
		}
		sp.Resources = append(sp.Resources, ResSpec{Path: path, Hits: hits})
	}
	// twins: identical payload (>= the dedupe threshold) under two URLs: with local dedupe the
	// later one is stored as a revisit record, without it as two full responses
	if r.Chance(65) {
		var singles []int
		for k, rs := range sp.Resources {
			if len(rs.Hits) == 1 && rs.Hits[0].Kind == "resp" && rs.Hits[0].Status != 204 && rs.Hits[0].Status != 304 && !strings.HasPrefix(rs.Hits[0].Body, "rnd:") {
				singles = append(singles, k)
			}
		}
		for p := 1 + r.Intn(2); p > 0 && len(singles) >= 2; p-- {
			i := r.Intn(len(singles))
			a := singles[i]
			singles = append(singles[:i], singles[i+1:]...)
			j := r.Intn(len(singles))
			b := singles[j]
			singles = append(singles[:j], singles[j+1:]...)
			shared := litSpec(fmt.Sprintf("twin payload %d ", r.Intn(1000000))) + "+" + runSpec(byte('A'+r.Intn(26)), wlPick(r, []int{2048, 5000, 70000}))
			for _, k := range []int{a, b} {
				sp.Resources[k].Hits[0].Body = shared
				sp.Resources[k].Hits[0].Gzip = false
			}
		}
	}
	// head twins: two URLs whose payloads (above the dedupe threshold) differ ONLY in their first
	// KB (the request id of an error page) and share a long tail, served with the status / Server
	// header of a CDN: two different payloads - two response records, never a revisit
	if r.Chance(60) {
		var singles []int
		for k, rs := range sp.Resources {
			if len(rs.Hits) == 1 && rs.Hits[0].Kind == "resp" && rs.Hits[0].Status != 204 && rs.Hits[0].Status != 304 &&
				!strings.HasPrefix(rs.Hits[0].Body, "rnd:") && !strings.Contains(rs.Hits[0].Body, litSpec("twin payload ")[1:]) && rs.Hits[0].CF == "" {
				singles = append(singles, k)
			}
		}
		if len(singles) >= 2 {
			i := r.Intn(len(singles))
			a := singles[i]
			singles = append(singles[:i], singles[i+1:]...)
			b := singles[r.Intn(len(singles))]
			st := wlPick(r, []int{403, 403, 403, 404, 200, 451})
			hdrs := cdnHdrs(r)
			if r.Chance(60) {
				hdrs[0] = "Server: cloudflare"
			}
			tail, pad, tl := r.Intn(1000000), wlPick(r, []int{0, 300, 700}), wlPick(r, []int{1500, 3000, 70000})
			for _, k := range []int{a, b} {
				h := &sp.Resources[k].Hits[0]
				h.Status, h.Hdrs, h.Gzip, h.CType = st, hdrs, false, "text/html; charset=utf-8"
				h.Body = cdnBody(fmt.Sprintf("%s#1", sp.Resources[k].Path), tail, pad, tl)
			}
		}
	}
	// seeds: mostly one URL each; sometimes a seed (not fetched again) with a group of assets
	for k := 0; k < nres; {
		if nres-k >= 3 && r.Chance(20) {
			g := 2 + r.Intn(4)
			if k+1+g > nres {
				g = nres - k - 1
			}
			s := []int{k}
			for j := 1; j <= g; j++ {
				s = append(s, k+j)
			}
			sp.Seeds = append(sp.Seeds, s)
			k += g + 1
		} else {
			sp.Seeds = append(sp.Seeds, []int{k})
			k++
		}
	}
	sp.TimeoutMs = 90000
	b, _ := json.Marshal(sp)
	in := string(b)
	wlInputs = append(wlInputs, in)
	return in
}

// cdnHdrs: the Server header (first) and some of the other headers CDNs add
func cdnHdrs(r *Rng) []string {
	hdrs := []string{"Server: " + []string{"cloudflare", "cloudflare", "cloudflare", "cloudflare", "Cloudflare", "cloudflare-nginx", "AkamaiGHost", "nginx", "CloudFront", "ddos-guard"}[r.Intn(10)]}
	for _, kv := range []string{"Cf-Ray: 8a1f00000000aaaa-AMS", "Cf-Cache-Status: DYNAMIC", "X-Cdn: Imperva", "Retry-After: 1", "X-Amz-Cf-Id: abc"} {
		if r.Chance(25) {
			hdrs = append(hdrs, kv)
		}
	}
	return hdrs
}

// cdnBody: an error page whose first part (< 1 KB: title, request id, padding) is its own and whose
// tail is shared by all pages with the same tail number
func cdnBody(id string, tail, pad, tailLen int) string {
	title := []string{"403 Forbidden", "Access denied", "Error 1020", "Just a moment", "Attention Required! | Cloudflare"}[tail%5]
	head := "<!DOCTYPE html><html><head><title>" + title + "</title></head><body><h1>" + title + "</h1><p>Ray ID: " + fmt.Sprintf("%-28s", id) + "</p>"
	spec := litSpec(head)
	if pad > 0 {
		if len(head)+pad > 1000 {
			pad = 1000 - len(head)
		}
		spec += "+" + runSpec(' ', pad)
	}
	return spec + "+" + litSpec(fmt.Sprintf("<p>tail %d ", tail)) + "+" + runSpec('d', tailLen) + "+" + litSpec("</p></body></html>")
}

// runChild runs one case in its own process.  A child that produced no result at all (killed by
// the watchdog, crashed at start-up under machine load) is run once more; what is retried is the
// run, never a result.
func runChild(in string) *wlOutcome {
	o := runChildOnce(in)
	if o.res == nil {
		note("warcleg: child gave no result (" + o.err + "), running it once more")
		o = runChildOnce(in)
	}
	return o
}

func runChildOnce(in string) *wlOutcome {
	var sp ChildSpec
	if err := json.Unmarshal([]byte(in), &sp); err != nil {
		return &wlOutcome{err: "bad input: " + err.Error()}
	}
	dir, err := os.MkdirTemp("", "zv-warcleg")
	if err != nil {
		return &wlOutcome{err: err.Error()}
	}
	defer os.RemoveAll(dir)
	sp.Dir = filepath.Join(dir, "run")
	if sp.TimeoutMs == 0 {
		sp.TimeoutMs = 90000
	}
	b, _ := json.Marshal(sp)
	specPath := filepath.Join(dir, "spec.json")
	os.WriteFile(specPath, b, 0o644)
	cmd := exec.Command(os.Args[0], "warcchild", specPath)
	cmd.Env = append(os.Environ(), "HOME="+dir)
	done := make(chan struct{})
	var out []byte
	var rerr error
	go func() { out, rerr = cmd.CombinedOutput(); close(done) }()
	select {
	case <-done:
	case <-time.After(time.Duration(3*sp.TimeoutMs) * time.Millisecond):
		cmd.Process.Kill()
		<-done
		return &wlOutcome{err: "child killed after watchdog"}
	}
	raw, err := os.ReadFile(filepath.Join(sp.Dir, "result.json"))
	if err != nil {
		tail := string(out)
		if len(tail) > 1500 {
			tail = tail[len(tail)-1500:]
		}
		return &wlOutcome{err: fmt.Sprintf("child wrote no result (%v): %s", rerr, tail)}
	}
	var res ChildResult
	if err := json.Unmarshal(raw, &res); err != nil {
		return &wlOutcome{err: "bad result: " + err.Error()}
	}
	return &wlOutcome{res: &res}
}

func wlStartAll() {
	if v, err := strconv.Atoi(os.Getenv("ZV_WARCLEG_PAR")); err == nil && v > 0 {
		wlParallel = v
	}
	sem := make(chan struct{}, wlParallel)
	for _, in := range wlInputs {
		if _, dup := wlResults[in]; dup {
			continue
		}
		ch := make(chan *wlOutcome, 1)
		wlResults[in] = ch
		go func(in string, ch chan *wlOutcome) {
			sem <- struct{}{}
			o := runChild(in)
			<-sem
			ch <- o
		}(in, ch)
	}
}

func coqRecs(rs []RecSum, end []RecSum) string {
	var out []string
	for _, r := range rs {
		ty := "RTOther"
		switch r.Type {
		case "request":
			ty = "RTRequest"
		case "response":
			ty = "RTResponse"
		case "revisit":
			ty = "RTRevisit"
		}
		sha := r.SHA
		if len(sha) != 40 {
			sha = ""
		}
		var refs []string
		for _, q := range r.Refs {
			if len(q) == 40 {
				refs = append(refs, "hx \""+q+"\"")
			}
		}
		out = append(out, fmt.Sprintf("Rec %s %s (hx \"%s\") %s %s %s", ty, coqZ(int64(r.Status)), sha, coqZ(r.Len), coqBool(r.OK), coqList(refs)))
	}
	return coqList(out)
}

func execWarcleg(in string) Result {
	wlOnce.Do(wlStartAll)
	var o *wlOutcome
	if ch, ok := wlResults[in]; ok {
		o = <-ch
		ch <- o // a duplicate input reads it again
	} else {
		o = runChild(in)
	}
	var sp ChildSpec
	json.Unmarshal([]byte(in), &sp)
	var dl []string
	for _, v := range sp.Discard {
		dl = append(dl, coqZ(int64(v)))
	}
	if o.err != "" || o.res == nil {
		note("warcleg child failed: " + o.err)
		return Result{Term: fmt.Sprintf("WC %d%%N %s %s [] false false", sp.MaxRetry, coqBool(sp.Async), coqList(dl)), Tags: []string{"child-error"}}
	}
	res := o.res
	var items []string
	tags := map[string]bool{}
	stored, interesting := false, false
	for _, it := range res.Items {
		var hits []string
		for _, h := range it.Hits {
			kind := map[string]string{"resp": "HResp", "drop": "HDrop", "trunc": "HTrunc", "badgzip": "HBadGz"}[h.Kind]
			sha := h.SHA
			hits = append(hits, fmt.Sprintf("Hit %s %s %s (hx \"%s\") %s", kind, coqZ(int64(h.Status)), coqHex([]byte(h.CF)), sha, coqZ(h.Len)))
			switch {
			case h.Kind == "drop":
				tags["hit:dropped-connection"] = true
			case h.Kind == "trunc":
				tags["hit:truncated-body"] = true
			case h.Kind == "badgzip":
				tags["hit:gzip-header-on-empty-entity"] = true
			case h.Status == 403 && h.CF == "challenge":
				tags["hit:cloudflare-challenge"] = true
				interesting = true
			case h.Server != "":
				sv := "other-cdn"
				if h.Server == "cloudflare" {
					sv = "cloudflare"
				}
				tags[fmt.Sprintf("hit:server-%s:%d", sv, h.Status)] = true
				tags[fmt.Sprintf("status:%dxx", h.Status/100)] = true
			default:
				tags[fmt.Sprintf("status:%dxx", h.Status/100)] = true
			}
			for _, d := range sp.Discard {
				if d == h.Status && h.Kind == "resp" {
					tags["hit:status-in-discard-list"] = true
					interesting = true
				}
			}
			if h.Gzip && h.Len > 0 {
				tags["enc:gzip"] = true
			}
			if h.Chunk {
				tags["framing:chunked"] = true
			} else if h.Kind == "resp" {
				tags["framing:content-length"] = true
			}
			switch {
			case h.Kind != "resp":
			case h.Len == 0:
				tags["body:empty"] = true
			case h.Len < 2048:
				tags["body:<2048"] = true
			case h.Len <= 4096:
				tags["body:2048..4096"] = true
			case h.Len < 1<<20:
				tags["body:<1MiB"] = true
			default:
				tags["body:>=1MiB"] = true
			}
		}
		if len(it.Hits) > 1 {
			tags["item:retried"] = true
			interesting = true
		}
		st := "FOther"
		switch it.Status {
		case "Archived":
			st = "FArchived"
		case "Failed":
			st = "FFailed"
			tags["item:failed"] = true
			interesting = true
		}
		for _, r := range it.AtEnd {
			if r.Type == "revisit" {
				tags["record:revisit"] = true
			}
			if r.Type == "response" {
				stored = true
			}
		}
		// the retried / given-up exchanges nobody waits for (see known-findings.txt)
		unawaited := false
		for i, h := range it.Hits {
			if h.Kind == "resp" && (i < len(it.Hits)-1 || it.Status == "Failed") {
				unawaited = true
			}
		}
		if unawaited && !sp.Async {
			tags["unawaited-write"] = true
		}
		aw := "None"
		if it.Written {
			aw = "(Some " + coqRecs(it.AtWritten, it.AtEnd) + ")"
		}
		// revisit records must point at a stored response with the same payload somewhere in the job
		items = append(items, fmt.Sprintf("WI %s %s %s %s %s", coqList(hits), st, aw, coqRecs(it.AtOut, it.AtEnd), coqRecs(it.AtEnd, it.AtEnd)))
	}
	clean := len(res.BadFiles) == 0 && len(res.BadRecs) == 0 && res.OtherRecs == 0 && !res.TimedOut
	if !clean {
		note(fmt.Sprintf("warcleg: bad files %v, bad records %v, other records %d, timed out %v", res.BadFiles, res.BadRecs, res.OtherRecs, res.TimedOut))
	}
	if res.EmptyMembers > 0 {
		tags["empty-gzip-member-from-idle-writer"] = true
	}
	// head twins: kept single-hit pages sharing the tail marker of cdnBody
	tails := map[string]int{}
	mark := litSpec("<p>tail ")[1:]
	for _, rs := range sp.Resources {
		if i := strings.Index(rs.Hits[0].Body, "+L"+mark); i >= 0 && len(rs.Hits) == 1 {
			rest := rs.Hits[0].Body[i+2:]
			if j := strings.Index(rest, "+"); j > 0 {
				tails[rest[:j]]++
			}
		}
	}
	for _, n := range tails {
		if n > 1 {
			tags["head-twins"] = true
		}
	}
	tags[fmt.Sprintf("proxy:%v", sp.Proxy)] = true
	if sp.Proxy && res.ProxyConnects == 0 {
		note("warcleg: a --proxy case made no connection through the proxy")
	}
	tags[fmt.Sprintf("pool:%d", sp.Pool)] = true
	tags[fmt.Sprintf("workers:%d", sp.Workers)] = true
	tags[fmt.Sprintf("max-retry:%d", sp.MaxRetry)] = true
	if sp.OnDisk {
		tags["warc-on-disk"] = true
	}
	if sp.Dedupe {
		tags["local-dedupe"] = true
	}
	if sp.Async {
		tags["async-write"] = true
	} else {
		tags["sync-write"] = true
	}
	if sp.DisableAC {
		tags["drain-only"] = true
	}
	if res.Files > sp.Pool {
		tags["rotated-files"] = true
	}
	for _, s := range sp.Seeds {
		if len(s) > 1 {
			tags["seed-with-assets"] = true
		}
	}
	var tl []string
	for t := range tags {
		tl = append(tl, t)
	}
	sortStrings(tl)
	return Result{
		Term:       fmt.Sprintf("WC %d%%N %s %s %s %s %s", sp.MaxRetry, coqBool(sp.Async), coqList(dl), coqList(items), coqBool(clean), coqBool(res.RevisitsOK)),
		Tags:       tl,
		Nontrivial: stored && interesting,
	}
}

func sortStrings(s []string) {
	for i := 1; i < len(s); i++ {
		for j := i; j > 0 && s[j] < s[j-1]; j-- {
			s[j], s[j-1] = s[j-1], s[j]
		}
	}
}

// shrink: drop resources (and the seeds that name them), flatten configuration
func shrinkWarcleg(in string) []string {
	var sp ChildSpec
	if json.Unmarshal([]byte(in), &sp) != nil {
		return nil
	}
	var out []string
	emit := func(s ChildSpec) {
		b, _ := json.Marshal(s)
		if string(b) != in {
			out = append(out, string(b))
		}
	}
	// keep one seed group at a time, then drop one group at a time
	keep := func(groups [][]int) ChildSpec {
		s := sp
		s.Resources = nil
		s.Seeds = nil
		for _, g := range groups {
			var ng []int
			for _, idx := range g {
				ng = append(ng, len(s.Resources))
				s.Resources = append(s.Resources, sp.Resources[idx])
			}
			s.Seeds = append(s.Seeds, ng)
		}
		return s
	}
	if len(sp.Seeds) > 1 {
		for i := range sp.Seeds {
			emit(keep([][]int{sp.Seeds[i]}))
		}
		for i := range sp.Seeds {
			emit(keep(append(append([][]int(nil), sp.Seeds[:i]...), sp.Seeds[i+1:]...)))
		}
	}
	for i, g := range sp.Seeds {
		if len(g) > 2 {
			gs := append([][]int(nil), sp.Seeds...)
			gs[i] = g[:len(g)-1]
			emit(keep(gs))
		}
	}
	s := sp
	s.Workers, s.MCA, s.Pool = 1, 1, 1
	emit(s)
	s = sp
	s.OnDisk, s.Dedupe, s.WarcSize = false, false, 100
	emit(s)
	s = sp
	s.Proxy = false
	emit(s)
	return out
}
