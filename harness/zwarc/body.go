//go:build verif

package main

// C02 leg "body": the real archiver.ProcessBody on scripted readers, compared with
// Warc/Body.v process_body.

import (
	"bytes"
	"errors"
	"fmt"
	"io"
	"net/http"
	"os"
	"sort"
	"strconv"
	"strings"
	"time"

	"github.com/gabriel-vasile/mimetype"
	"github.com/internetarchive/Zeno/internal/pkg/archiver"
	"github.com/internetarchive/Zeno/internal/pkg/config"
	"github.com/internetarchive/Zeno/pkg/models"
)

// ---- body specification:  segments  L<hex>  |  R<byte hex>x<count>  joined by "+" -------------

func parseBodySpec(spec string) []byte {
	var out []byte
	if spec == "" || spec == "-" {
		return out
	}
	for _, seg := range strings.Split(spec, "+") {
		if len(seg) == 0 {
			continue
		}
		switch seg[0] {
		case 'L':
			for i := 1; i+1 < len(seg); i += 2 {
				v, _ := strconv.ParseUint(seg[i:i+2], 16, 8)
				out = append(out, byte(v))
			}
		case 'R':
			bs, cs, _ := strings.Cut(seg[1:], "x")
			v, _ := strconv.ParseUint(bs, 16, 8)
			n, _ := strconv.Atoi(cs)
			if n > 64<<20 {
				n = 64 << 20
			}
			out = append(out, bytes.Repeat([]byte{byte(v)}, n)...)
		}
	}
	return out
}

func litSpec(s string) string { return fmt.Sprintf("L%x", s) }
func runSpec(c byte, n int) string {
	return fmt.Sprintf("R%02xx%d", c, n)
}

// coqData renders bytes as a Warc.Body.data term (runs of >= 24 equal bytes become one pair).
func coqData(b []byte) string {
	var parts []string
	var lit []byte
	flush := func() {
		if len(lit) > 0 {
			parts = append(parts, fmt.Sprintf("lit (hx \"%x\")", lit))
			lit = nil
		}
	}
	for i := 0; i < len(b); {
		j := i
		for j < len(b) && b[j] == b[i] {
			j++
		}
		if j-i >= 24 {
			flush()
			parts = append(parts, fmt.Sprintf("[(ascii_of_N %d, %d%%N)]", b[i], j-i))
		} else {
			lit = append(lit, b[i:j]...)
		}
		i = j
	}
	flush()
	if len(parts) == 0 {
		return "[]"
	}
	if len(parts) == 1 {
		return "(" + parts[0] + ")"
	}
	return "(" + strings.Join(parts, " ++ ") + ")"
}

// ---- the scripted reader ----------------------------------------------------------------------

type scriptErr struct{ code int }

func (e scriptErr) Error() string { return fmt.Sprintf("scripted read error %d", e.code) }

var errDeadline = errors.New("scripted SetReadDeadline failure")

type rchunk struct {
	data []byte
	err  int // 0 = none
}

type scriptBody struct {
	chunks      []rchunk
	off         int
	eofWithLast bool
	consumed    int64
	reads       int
	closed      int
}

func (r *scriptBody) Read(p []byte) (int, error) {
	r.reads++
	if len(r.chunks) == 0 {
		return 0, io.EOF
	}
	c := &r.chunks[0]
	n := copy(p, c.data[r.off:])
	r.off += n
	r.consumed += int64(n)
	if r.off == len(c.data) {
		code := c.err
		r.chunks = r.chunks[1:]
		r.off = 0
		if code != 0 {
			return n, scriptErr{code}
		}
		if len(r.chunks) == 0 && r.eofWithLast && n > 0 {
			return n, io.EOF
		}
	}
	return n, nil
}

func (r *scriptBody) Close() error { r.closed++; return nil }

// connBody additionally offers the deadline interface ProcessBody looks for.
type connBody struct {
	*scriptBody
	failAt int // -1 = never
	calls  int
}

func (c *connBody) SetReadDeadline(t time.Time) error {
	k := c.calls
	c.calls++
	if k == c.failAt {
		return errDeadline
	}
	return nil
}

// ---- MIME chains ------------------------------------------------------------------------------

func coqMime(m *mimetype.MIME) string {
	if m == nil {
		return "[]"
	}
	var nodes []string
	for x := m; x != nil; x = x.Parent() {
		nodes = append(nodes, fmt.Sprintf("MN %s %s %s %s", coqBool(x.Is("text/plain")), coqBool(x.Is("application/pdf")), coqBool(x.Is("application/vnd.apple.mpegurl")), coqHex([]byte(x.String()))))
	}
	return coqList(nodes)
}

func coqOptN(present bool, v int64) string {
	if !present {
		return "None"
	}
	return fmt.Sprintf("(Some %d%%N)", v)
}

// ---- driver -----------------------------------------------------------------------------------

var bodyTemp string

func init() {
	register(&Driver{
		Name:     "body",
		Header:   "From ZenoV Require Import Lib.Harness Warc.Body Warc.WarcHarness.\nOpen Scope N_scope.\n",
		CaseType: "bcase",
		Footer:   "\nDefinition DIFF := Eval vm_compute in bdiffs cases.\nPrint DIFF.\nDefinition MON := Eval vm_compute in bmons cases.\nPrint MON.\n",
		Rule:     "one case = (disable-assets, domains-crawl, max-hops, deadline interface absent / present / failing at call k, body bytes, the way the reader delivers them: piece sizes, errors attached to pieces, EOF with or after the last piece); distinct by input text; non-trivial when the reader was asked at least twice and delivered at least one byte or one error",
		Setup: func() {
			must(config.InitConfig())
			config.Get().HTTPReadDeadline = 60
			var err error
			bodyTemp, err = os.MkdirTemp("", "zv-body")
			must(err)
		},
		Gen:      genBody,
		Exec:     execBody,
		Shrink:   shrinkBody,
		Teardown: func() { os.RemoveAll(bodyTemp) },
	})
}

func must(err error) {
	if err != nil {
		fmt.Fprintln(os.Stderr, "fatal:", err)
		os.Exit(3)
	}
}

var bodyKinds = []string{"html", "text", "json", "xml", "pdf", "png", "bin", "css", "padhtml", "empty", "zeros", "m3u8", "utf16"}

func genBodySpec(r *Rng, tier string) (string, string) {
	sizes := []int{0, 1, 2, 17, 100, 511, 512, 513, 2040, 2046, 2047, 2048, 2049, 2050, 2056, 3000, 4095, 4096, 4097,
		6143, 6144, 6145, 8192, 10239, 10240, 10241, 65535, 65536, 65537, 100000}
	big := []int{2097152 - 4097, 2097152 - 2049, 2097152 - 2048, 2097152 - 1, 2097152, 2097152 + 1, 2097152 + 2048, 2097152 + 4096, 2097152 + 4097, 3 << 20}
	var n int
	switch x := r.Intn(100); {
	case x < 70:
		n = sizes[r.Intn(len(sizes))]
	case x < 80:
		n = r.Intn(12000)
	case x < 90 || tier != "thorough" && x < 96:
		n = 2048 + 4096*r.Intn(4) + r.Intn(5) - 2
	default:
		n = big[r.Intn(len(big))]
	}
	kind := bodyKinds[r.Intn(len(bodyKinds))]
	var head, tail string
	fill := byte('a' + r.Intn(26))
	switch kind {
	case "html":
		head, tail = "<!DOCTYPE html><html><head><title>t</title></head><body><!-- ", " --></body></html>"
	case "text":
		head = "plain words here "
		fill = ' '
	case "json":
		head, tail = "{\"k\":\"", "\"}"
	case "xml":
		head, tail = "<?xml version=\"1.0\"?><r><!-- ", " --></r>"
	case "pdf":
		head, tail = "%PDF-1.4\n%", "\n%%EOF\n"
	case "png":
		head = "\x89PNG\r\n\x1a\n\x00\x00\x00\rIHDR"
		fill = 0
	case "bin":
		head = "\x00\x01\x02\x03\xff\xfe"
		fill = byte(r.Intn(256))
	case "css":
		head, tail = "body{color:red}\n/*", "*/"
	case "padhtml":
		// whitespace up to around the sniff window, then markup: what is detected depends on
		// how many bytes the sniffer is given
		pad := 2048 + r.Intn(17) - 8 - r.Intn(2)*r.Intn(2040)
		if pad < 0 {
			pad = 0
		}
		s := runSpec(' ', pad) + "+" + litSpec("<html><body>x</body></html>")
		if n > pad+27 {
			s += "+" + runSpec(fill, n-pad-27)
		}
		return s, kind
	case "empty":
		return "-", kind
	case "zeros":
		if n == 0 {
			return "-", kind
		}
		return runSpec(0, n), kind
	case "m3u8":
		head = "#EXTM3U\n#EXT-X-VERSION:3\n"
	case "utf16":
		head = "\xff\xfeh\x00i\x00"
		fill = 0
	}
	var segs []string
	if len(head) > 0 {
		segs = append(segs, litSpec(head))
	}
	rest := n - len(head) - len(tail)
	for rest > 0 {
		k := rest
		if rest > 64 && r.Chance(30) {
			k = 1 + r.Intn(rest)
		}
		segs = append(segs, runSpec(fill, k))
		rest -= k
		if rest > 8 && r.Chance(50) {
			isl := make([]byte, 1+r.Intn(8))
			for i := range isl {
				isl[i] = byte('0' + r.Intn(40))
			}
			segs = append(segs, litSpec(string(isl)))
			rest -= len(isl)
		}
	}
	if len(tail) > 0 {
		segs = append(segs, litSpec(tail))
	}
	return strings.Join(segs, "+"), kind
}

func genChunks(r *Rng, n int) string {
	var parts []string
	errMark := func(p int) string {
		if r.Chance(p) {
			return fmt.Sprintf("e%d", 1+r.Intn(9))
		}
		return ""
	}
	mode := r.Intn(10)
	errP := []int{0, 0, 0, 0, 5, 15, 40}[r.Intn(7)]
	switch {
	case mode == 0 || n == 0:
		if n > 0 || r.Bool() {
			parts = append(parts, fmt.Sprint(n)+errMark(errP))
		}
	case mode <= 3:
		// equal pieces
		sz := []int{1, 7, 512, 1000, 1024, 2047, 2048, 2049, 4095, 4096, 4097, 5000, 8192, 65536}[r.Intn(14)]
		for n/sz > 80 {
			sz *= 2
		}
		for left := n; left > 0; left -= sz {
			k := sz
			if left < sz {
				k = left
			}
			parts = append(parts, fmt.Sprint(k)+errMark(errP))
		}
	default:
		// cuts near the interesting offsets and random ones
		var pts []int
		for _, c := range []int{2048, 4096, 6144, 2048 + 8192, 2097152, 2097152 + 2048} {
			if r.Chance(60) {
				c += r.Intn(5) - 2
				if c > 0 && c < n {
					pts = append(pts, c)
				}
			}
		}
		for i := r.Intn(6); i > 0; i-- {
			pts = append(pts, 1+r.Intn(n))
		}
		pts = append(pts, n)
		sort.Ints(pts)
		prev := 0
		for _, c := range pts {
			if c <= prev {
				continue
			}
			if r.Chance(10) {
				parts = append(parts, "0"+errMark(errP*2))
			}
			parts = append(parts, fmt.Sprint(c-prev)+errMark(errP))
			prev = c
		}
	}
	if r.Chance(8) {
		parts = append(parts, "0"+errMark(50))
	}
	return strings.Join(parts, ",")
}

func genBody(r *Rng, i int, tier string) string {
	spec, kind := genBodySpec(r, tier)
	n := len(parseBodySpec(spec))
	da, dc, hops := 0, 0, 1
	switch x := r.Intn(100); {
	case x < 18:
		da, dc, hops = 1, 0, 0 // drain only
	case x < 26:
		da, dc, hops = 1, r.Intn(2), r.Intn(2)
	case x < 34:
		da, dc, hops = r.Intn(2), r.Intn(2), r.Intn(3)
	}
	conn := "none"
	switch x := r.Intn(100); {
	case x < 25:
		conn = "ok"
	case x < 45:
		est := 2 + n/4096
		if r.Bool() {
			conn = fmt.Sprintf("f%d", r.Intn(4))
		} else {
			conn = fmt.Sprintf("f%d", r.Intn(est+2))
		}
	}
	return fmt.Sprintf("kind=%s da=%d dc=%d hops=%d conn=%s eofl=%d body=%s chunks=%s", kind, da, dc, hops, conn, r.Intn(2), spec, genChunks(r, n))
}

func buildChunks(body []byte, spec string) []rchunk {
	var out []rchunk
	off := 0
	if spec != "" {
		for _, p := range strings.Split(spec, ",") {
			ns, es, has := strings.Cut(p, "e")
			k, _ := strconv.Atoi(ns)
			if k < 0 {
				k = 0
			}
			if off+k > len(body) {
				k = len(body) - off
			}
			c := rchunk{data: body[off : off+k]}
			if has {
				c.err, _ = strconv.Atoi(es)
				if c.err <= 0 {
					c.err = 1
				}
			}
			off += k
			out = append(out, c)
		}
	}
	if off < len(body) {
		out = append(out, rchunk{data: body[off:]})
	}
	return out
}

func execBody(in string) Result {
	kv := parseKV(in)
	body := parseBodySpec(kv["body"])
	chunks := buildChunks(body, kv["chunks"])
	da, dc := kv["da"] == "1", kv["dc"] == "1"
	hops, _ := strconv.Atoi(kv["hops"])
	sb := &scriptBody{chunks: append([]rchunk(nil), chunks...), eofWithLast: kv["eofl"] == "1"}
	var rc io.ReadCloser = sb
	var cb *connBody
	connTerm := "NoConn"
	switch c := kv["conn"]; {
	case c == "ok":
		cb = &connBody{scriptBody: sb, failAt: -1}
		rc = cb
		connTerm = "(Conn None)"
	case strings.HasPrefix(c, "f"):
		k, _ := strconv.Atoi(c[1:])
		cb = &connBody{scriptBody: sb, failAt: k}
		rc = cb
		connTerm = fmt.Sprintf("(Conn (Some %d%%N))", k)
	}
	u := &models.URL{Raw: "http://127.0.0.2/x"}
	u.SetResponse(&http.Response{StatusCode: 200, Header: http.Header{}, Body: rc})
	err := archiver.ProcessBody(u, da, dc, hops, bodyTemp)

	// observed
	errTerm := "None"
	var se scriptErr
	switch {
	case err == nil:
	case errors.Is(err, errDeadline):
		errTerm = "(Some PDeadline)"
	case errors.As(err, &se):
		errTerm = fmt.Sprintf("(Some (PRead %d%%N))", se.code)
	default:
		errTerm = "(Some (PRead 999999%N))"
		note("unexpected error class from ProcessBody: " + err.Error())
	}
	spoolTerm := "None"
	if sp := u.GetBody(); sp != nil {
		got, rerr := io.ReadAll(sp)
		if rerr != nil {
			note("reading the spooled copy failed: " + rerr.Error())
		}
		spoolTerm = "(Some " + coqData(got) + ")"
		sp.Close()
	}
	mimeTerm := "None"
	if m := u.GetMIMEType(); m != nil {
		mimeTerm = "(Some " + coqMime(m) + ")"
	}
	calls := 0
	if cb != nil {
		calls = cb.calls
	}
	var script []string
	for _, c := range chunks {
		script = append(script, fmt.Sprintf("(%s, %s)", coqData(c.data), coqOptN(c.err != 0, int64(c.err))))
	}
	pre := body
	if len(pre) > 2048 {
		pre = pre[:2048]
	}
	term := fmt.Sprintf("BC (PC %s %s %s %s) %s %s %s %s %d %s %s %d %d",
		coqBool(da), coqBool(dc), coqZ(int64(hops)), connTerm, coqList(script),
		coqMime(mimetype.Detect(nil)), coqMime(mimetype.Detect(pre)),
		errTerm, sb.consumed, spoolTerm, mimeTerm, calls, sb.closed)

	tags := []string{"kind:" + kv["kind"]}
	switch n := len(body); {
	case n == 0:
		tags = append(tags, "size:0")
	case n < 2048:
		tags = append(tags, "size:<2048")
	case n == 2048:
		tags = append(tags, "size:=2048")
	case n <= 4096+2048:
		tags = append(tags, "size:2049..6144")
	case n < 1<<20:
		tags = append(tags, "size:<1MiB")
	default:
		tags = append(tags, "size:around-2MiB-spool-threshold")
	}
	if da && !dc && hops == 0 {
		tags = append(tags, "mode:drain-only")
	} else {
		tags = append(tags, "mode:sniff")
	}
	switch {
	case cb == nil:
		tags = append(tags, "conn:absent")
	case cb.failAt < 0:
		tags = append(tags, "conn:ok")
	default:
		tags = append(tags, "conn:failing")
	}
	nerr := 0
	for _, c := range chunks {
		if c.err != 0 {
			nerr++
		}
	}
	switch {
	case nerr == 0:
		tags = append(tags, "script:no-error")
	default:
		tags = append(tags, "script:errors")
	}
	if err == nil {
		tags = append(tags, "result:ok")
		if u.GetBody() != nil {
			tags = append(tags, "spooled")
		}
	} else {
		tags = append(tags, "result:error")
	}
	if files, _ := os.ReadDir(bodyTemp); len(files) > 0 {
		note(fmt.Sprintf("%d temp file(s) left after closing the spooled copy", len(files)))
		for _, f := range files {
			os.Remove(bodyTemp + "/" + f.Name())
		}
	}
	return Result{Term: term, Tags: tags, Nontrivial: sb.reads >= 2 && (sb.consumed > 0 || nerr > 0)}
}

func parseKV(in string) map[string]string {
	m := map[string]string{}
	for _, f := range strings.Fields(in) {
		if k, v, ok := strings.Cut(f, "="); ok {
			m[k] = v
		}
	}
	return m
}

func joinKV(kv map[string]string, order []string) string {
	var parts []string
	for _, k := range order {
		parts = append(parts, k+"="+kv[k])
	}
	return strings.Join(parts, " ")
}

var bodyKeys = []string{"kind", "da", "dc", "hops", "conn", "eofl", "body", "chunks"}

func shrinkBody(in string) []string {
	kv := parseKV(in)
	var out []string
	with := func(k, v string) {
		if kv[k] == v {
			return
		}
		c := map[string]string{}
		for a, b := range kv {
			c[a] = b
		}
		c[k] = v
		out = append(out, joinKV(c, bodyKeys))
	}
	with("chunks", "")
	with("conn", "none")
	with("eofl", "0")
	// drop error marks one at a time, merge pieces
	parts := strings.Split(kv["chunks"], ",")
	for i, p := range parts {
		if strings.Contains(p, "e") {
			q := append([]string(nil), parts...)
			q[i], _, _ = strings.Cut(p, "e")
			with("chunks", strings.Join(q, ","))
		}
	}
	if len(parts) > 1 {
		with("chunks", strings.Join(parts[:len(parts)/2], ","))
		with("chunks", strings.Join(parts[len(parts)/2:], ","))
	}
	// shorten the body: halve the longest run, drop a segment
	segs := strings.Split(kv["body"], "+")
	for i, s := range segs {
		if strings.HasPrefix(s, "R") {
			b, c, _ := strings.Cut(s[1:], "x")
			n, _ := strconv.Atoi(c)
			if n > 1 {
				q := append([]string(nil), segs...)
				q[i] = fmt.Sprintf("R%sx%d", b, n/2)
				with("body", strings.Join(q, "+"))
				q[i] = fmt.Sprintf("R%sx%d", b, n-1)
				with("body", strings.Join(q, "+"))
			}
		}
		if len(segs) > 1 {
			q := append(append([]string(nil), segs[:i]...), segs[i+1:]...)
			with("body", strings.Join(q, "+"))
		}
	}
	return out
}
