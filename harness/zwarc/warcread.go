//go:build verif

package main

// An independent reader of the job's WARC files (gzip member walk with the standard library,
// WARC headers, HTTP block, own de-chunker, de-gzip, SHA-1).  It shares no code with the
// recorder (github.com/CorentinB/warc).

import (
	"bufio"
	"bytes"
	"compress/gzip"
	"crypto/sha1"
	"encoding/base32"
	"encoding/hex"
	"io"
	"os"
	"path/filepath"
	"sort"
	"strconv"
	"strings"
	"sync"
)

// RecSum is what the checks need of one record.
type RecSum struct {
	File      string `json:"file"`
	Type      string `json:"type"` // request | response | revisit | warcinfo | ...
	URI       string `json:"uri"`
	Status    int    `json:"status"`     // HTTP status of a response / revisit block
	SHA       string `json:"sha"`        // hex SHA-1 of the entity (response: computed from the block after de-chunking; revisit: from WARC-Payload-Digest)
	Len       int64  `json:"len"`        // entity length (response), -1 otherwise
	OK        bool   `json:"ok"`         // well-formed in every respect listed in checkRecord
	Why       string `json:"why"`        // first reason for !OK
	RefersURI string `json:"refers_uri"` // revisit
	ReqLine   string `json:"req_line"`   // request: request line
	ReqHost   string `json:"req_host"`   // request: Host header
	// revisit, filled in after Stop: entity SHA-1s of the response records stored under RefersURI
	Refs []string `json:"refs,omitempty"`
}

type fileState struct {
	off  int64 // bytes consumed by complete members
	recs []RecSum
}

type warcSnap struct {
	mu    sync.Mutex
	dir   string
	files map[string]*fileState // key: name without ".open"
	// anomalies
	Partial      int // trailing incomplete member seen at the last update (expected only while writers are active)
	EmptyMembers int
	BadFiles     []string
}

func newWarcSnap(dir string) *warcSnap { return &warcSnap{dir: dir, files: map[string]*fileState{}} }

// update parses everything that was appended since the last call.  final = writers are closed:
// a trailing incomplete member or an ".open" name is then an anomaly.
func (w *warcSnap) update(final bool) {
	w.mu.Lock()
	defer w.mu.Unlock()
	w.Partial = 0
	for attempt := 0; attempt < 3; attempt++ {
		ents, err := os.ReadDir(w.dir)
		if err != nil {
			return
		}
		retry := false
		for _, e := range ents {
			name := e.Name()
			key := strings.TrimSuffix(name, ".open")
			if !strings.HasSuffix(key, ".warc.gz") {
				continue
			}
			if final && strings.HasSuffix(name, ".open") {
				w.BadFiles = append(w.BadFiles, name+": still .open after Stop")
			}
			fs := w.files[key]
			if fs == nil {
				fs = &fileState{}
				w.files[key] = fs
			}
			f, err := os.Open(filepath.Join(w.dir, name))
			if err != nil {
				retry = true // renamed under us (rotation): list again
				continue
			}
			st, _ := f.Stat()
			if st.Size() > fs.off {
				f.Seek(fs.off, io.SeekStart)
				w.parseFrom(f, key, fs, final)
			}
			f.Close()
		}
		if !retry {
			break
		}
	}
}

type countingReader struct {
	r *bufio.Reader
	n int64
}

func (c *countingReader) Read(p []byte) (int, error) {
	n, err := c.r.Read(p)
	c.n += int64(n)
	return n, err
}
func (c *countingReader) ReadByte() (byte, error) {
	b, err := c.r.ReadByte()
	if err == nil {
		c.n++
	}
	return b, err
}

func (w *warcSnap) parseFrom(f *os.File, key string, fs *fileState, final bool) {
	cr := &countingReader{r: bufio.NewReaderSize(f, 1<<16)}
	for {
		if _, err := cr.r.Peek(1); err != nil {
			return // clean end
		}
		start := cr.n
		zr, err := gzip.NewReader(cr)
		if err != nil {
			w.Partial++
			if final {
				w.BadFiles = append(w.BadFiles, key+": bad gzip member header at "+strconv.FormatInt(fs.off+start, 10))
			}
			return
		}
		zr.Multistream(false)
		content, err := io.ReadAll(zr)
		if err != nil {
			// incomplete member: a writer is in the middle of a record (or a truncated file)
			w.Partial++
			if final {
				w.BadFiles = append(w.BadFiles, key+": incomplete gzip member at "+strconv.FormatInt(fs.off+start, 10))
			}
			return
		}
		if len(content) == 0 {
			// an empty gzip member holds no record: the recorder's idle pool writers emit one when
			// they are closed (third-party behaviour, counted and reported as a note)
			w.EmptyMembers++
		} else {
			rec := checkRecord(content)
			rec.File = key
			fs.recs = append(fs.recs, rec)
		}
		fs.off += cr.n - start
		// restart counting relative to the new offset
		cr.n = 0
	}
}

// byURI returns the records whose WARC-Target-URI is uri, in file-name then file order.
func (w *warcSnap) byURI(uri string) []RecSum {
	w.mu.Lock()
	defer w.mu.Unlock()
	var keys []string
	for k := range w.files {
		keys = append(keys, k)
	}
	sort.Strings(keys)
	var out []RecSum
	for _, k := range keys {
		for _, r := range w.files[k].recs {
			if r.URI == uri {
				out = append(out, r)
			}
		}
	}
	return out
}

func (w *warcSnap) all() []RecSum {
	w.mu.Lock()
	defer w.mu.Unlock()
	var keys []string
	for k := range w.files {
		keys = append(keys, k)
	}
	sort.Strings(keys)
	var out []RecSum
	for _, k := range keys {
		out = append(out, w.files[k].recs...)
	}
	return out
}

func (w *warcSnap) fileCount() int {
	w.mu.Lock()
	defer w.mu.Unlock()
	return len(w.files)
}

func b32ToHex(d string) string {
	d = strings.TrimPrefix(d, "sha1:")
	raw, err := base32.StdEncoding.DecodeString(d)
	if err != nil {
		return "bad:" + d
	}
	return hex.EncodeToString(raw)
}

// checkRecord parses the content of ONE gzip member, which must be exactly one WARC record.
func checkRecord(c []byte) (r RecSum) {
	r.Len = -1
	r.OK = true
	fail := func(why string) {
		if r.OK {
			r.OK = false
			r.Why = why
		}
	}
	const ver = "WARC/1.1\r\n"
	if !bytes.HasPrefix(c, []byte(ver)) {
		fail("no WARC/1.1 version line")
		return
	}
	end := bytes.Index(c, []byte("\r\n\r\n"))
	if end < 0 {
		fail("no end of WARC header")
		return
	}
	hdr := map[string]string{}
	for _, line := range strings.Split(string(c[len(ver):end]), "\r\n") {
		k, v, ok := strings.Cut(line, ":")
		if !ok {
			fail("malformed WARC header line")
			continue
		}
		hdr[strings.ToLower(strings.TrimSpace(k))] = strings.TrimSpace(v)
	}
	r.Type = hdr["warc-type"]
	r.URI = hdr["warc-target-uri"]
	cl, err := strconv.ParseInt(hdr["content-length"], 10, 64)
	if err != nil || cl < 0 {
		fail("bad Content-Length")
		return
	}
	block := c[end+4:]
	if int64(len(block)) != cl+4 {
		fail("block length differs from Content-Length (or more than one record in the member)")
		return
	}
	if !bytes.HasSuffix(block, []byte("\r\n\r\n")) {
		fail("record does not end with CRLF CRLF")
		return
	}
	block = block[:cl]
	if hdr["warc-record-id"] == "" || hdr["warc-date"] == "" {
		fail("missing WARC-Record-ID / WARC-Date")
	}
	if bd := hdr["warc-block-digest"]; bd != "" {
		s := sha1.Sum(block)
		if b32ToHex(bd) != hex.EncodeToString(s[:]) {
			fail("WARC-Block-Digest does not match the block")
		}
	} else if r.Type != "warcinfo" {
		fail("missing WARC-Block-Digest")
	}
	switch r.Type {
	case "request":
		he := bytes.Index(block, []byte("\r\n\r\n"))
		if he < 0 {
			fail("request block without header end")
			return
		}
		lines := strings.Split(string(block[:he]), "\r\n")
		r.ReqLine = lines[0]
		for _, l := range lines[1:] {
			if k, v, ok := strings.Cut(l, ":"); ok && strings.EqualFold(k, "host") {
				r.ReqHost = strings.TrimSpace(v)
			}
		}
	case "response", "revisit":
		he := bytes.Index(block, []byte("\r\n\r\n"))
		if he < 0 {
			fail("response block without header end")
			return
		}
		lines := strings.Split(string(block[:he]), "\r\n")
		sp := strings.SplitN(lines[0], " ", 3)
		if len(sp) < 2 || !strings.HasPrefix(sp[0], "HTTP/1.") {
			fail("bad status line")
			return
		}
		r.Status, _ = strconv.Atoi(sp[1])
		hh := map[string]string{}
		for _, l := range lines[1:] {
			if k, v, ok := strings.Cut(l, ":"); ok {
				hh[strings.ToLower(strings.TrimSpace(k))] = strings.TrimSpace(v)
			}
		}
		pd := hdr["warc-payload-digest"]
		if pd == "" {
			fail("missing WARC-Payload-Digest")
		}
		if r.Type == "revisit" {
			r.SHA = b32ToHex(pd)
			r.RefersURI = hdr["warc-refers-to-target-uri"]
			if hdr["warc-profile"] != "http://netpreserve.org/warc/1.1/revisit/identical-payload-digest" {
				fail("revisit without identical-payload-digest profile")
			}
			if he+4 != len(block) {
				fail("revisit block carries more than the HTTP headers")
			}
			return
		}
		entity := block[he+4:]
		if strings.EqualFold(hh["transfer-encoding"], "chunked") {
			var ok bool
			entity, ok = dechunk(entity)
			if !ok {
				fail("chunked framing broken or incomplete")
				return
			}
		} else if cls, has := hh["content-length"]; has {
			n, _ := strconv.ParseInt(cls, 10, 64)
			if n != int64(len(entity)) {
				fail("entity shorter or longer than the HTTP Content-Length")
			}
		}
		s := sha1.Sum(entity)
		r.SHA = hex.EncodeToString(s[:])
		r.Len = int64(len(entity))
		if pd != "" && b32ToHex(pd) != r.SHA {
			fail("WARC-Payload-Digest does not match the entity")
		}
		if strings.EqualFold(hh["content-encoding"], "gzip") && len(entity) > 0 {
			zr, err := gzip.NewReader(bytes.NewReader(entity))
			if err != nil {
				fail("gzip entity does not decode")
			} else if _, err := io.Copy(io.Discard, zr); err != nil {
				fail("gzip entity does not decode")
			}
		}
	}
	return
}

// dechunk decodes HTTP/1.1 chunked transfer coding (no extensions expected, trailers skipped).
func dechunk(b []byte) ([]byte, bool) {
	var out []byte
	for {
		i := bytes.Index(b, []byte("\r\n"))
		if i < 0 {
			return nil, false
		}
		szs, _, _ := strings.Cut(string(b[:i]), ";")
		n, err := strconv.ParseInt(strings.TrimSpace(szs), 16, 64)
		if err != nil || n < 0 {
			return nil, false
		}
		b = b[i+2:]
		if n == 0 {
			// trailers until an empty line
			for {
				j := bytes.Index(b, []byte("\r\n"))
				if j < 0 {
					return nil, false
				}
				if j == 0 {
					return out, len(b) == 2
				}
				b = b[j+2:]
			}
		}
		if int64(len(b)) < n+2 || b[n] != '\r' || b[n+1] != '\n' {
			return nil, false
		}
		out = append(out, b[:n]...)
		b = b[n+2:]
	}
}
