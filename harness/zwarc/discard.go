//go:build verif

package main

// C02 leg "discard": the real discard hook chain (discard.Builder, cloudflare, warcdiscardstatus,
// reasoncode) on synthetic *http.Response values, swept exhaustively over the status code for a
// set of cf-mitigated header shapes, compared with Warc/Discard.v.

import (
	"fmt"
	"net/http"
	"strconv"
	"strings"

	"github.com/internetarchive/Zeno/internal/pkg/archiver/discard"
	"github.com/internetarchive/Zeno/internal/pkg/archiver/discard/discarder/cloudflare"
	"github.com/internetarchive/Zeno/internal/pkg/archiver/discard/discarder/warcdiscardstatus"
	"github.com/internetarchive/Zeno/internal/pkg/archiver/discard/reasoncode"
	"github.com/internetarchive/Zeno/internal/pkg/config"
)

func init() {
	register(&Driver{
		Name:     "discard",
		Header:   "From ZenoV Require Import Lib.Harness Warc.Discard Warc.WarcHarness.\nOpen Scope Z_scope.\n",
		CaseType: "dcase",
		Footer:   "\nDefinition DIFF := Eval vm_compute in ddiffs cases.\nPrint DIFF.\nDefinition MON := Eval vm_compute in dmons cases.\nPrint MON.\n",
		Rule:     "one case = (hook chain built through discard.Builder, --warc-discard-status list); for each of 10 shapes of the cf-mitigated header the chain is asked about EVERY status 100..599 plus 0, 99, 600, 999, 403000, -1; distinct by input text; non-trivial when at least one response is discarded and at least one is kept",
		Setup:    func() { must(config.InitConfig()) },
		Gen:      genDiscard,
		Exec:     execDiscard,
		Shrink:   shrinkDiscard,
	})
}

func sweepStatuses() []int {
	var s []int
	for i := 100; i < 600; i++ {
		s = append(s, i)
	}
	return append(s, 0, 99, 600, 999, 403000, -1)
}

// header shapes: how the response header is filled
var cfShapes = []string{"absent", "challenge", "Challenge", "challenge_", "_challenge", "challeng", "block", "two:challenge,block", "two:block,challenge", "rawkey:challenge", "empty"}

func buildHeader(shape string) http.Header {
	h := http.Header{}
	h.Set("Content-Type", "text/html")
	switch {
	case shape == "absent":
	case shape == "empty":
		h.Set("cf-mitigated", "")
	case strings.HasPrefix(shape, "two:"):
		a, b, _ := strings.Cut(shape[4:], ",")
		h.Add("Cf-Mitigated", a)
		h.Add("cf-mitigated", b)
	case strings.HasPrefix(shape, "rawkey:"):
		h["cf-mitigated"] = []string{shape[7:]} // non-canonical key: invisible to Header.Get
	default:
		h.Set("CF-Mitigated", strings.ReplaceAll(shape, "_", " "))
	}
	return h
}

func genDiscard(r *Rng, i int, tier string) string {
	hooks := []string{"default", "default", "default", "default", "empty", "cf", "st", "st,cf", "cf,st", "cf,st,cf", "st,st"}[r.Intn(11)]
	var dl []string
	pool := []int{403, 404, 403, 429, 500, 503, 200, 301, 100, 599, 600, 99, 0, 408, 425, 999, -1}
	switch r.Intn(6) {
	case 0: // empty list
	case 1:
		dl = append(dl, fmt.Sprint(pool[r.Intn(len(pool))]))
	default:
		for k := 1 + r.Intn(6); k > 0; k-- {
			if r.Chance(60) {
				dl = append(dl, fmt.Sprint(pool[r.Intn(len(pool))]))
			} else {
				dl = append(dl, fmt.Sprint(100+r.Intn(500)))
			}
		}
	}
	return fmt.Sprintf("hooks=%s dl=%s", hooks, strings.Join(dl, ","))
}

func reasonTerm(s string) string {
	switch s {
	case "":
		return "RNone"
	case cloudflare.ChallengeDetected:
		return "RChallenge"
	case warcdiscardstatus.InWARCDiscardStatus:
		return "RInList"
	case reasoncode.AllPassed:
		return "RAllPassed"
	case reasoncode.EmptyHookChain:
		return "REmptyChain"
	case reasoncode.HookNotSet:
		return "RHookNotSet"
	}
	return "RNone"
}

func execDiscard(in string) Result {
	kv := parseKV(in)
	var dl []int
	var dlT []string
	if kv["dl"] != "" {
		for _, s := range strings.Split(kv["dl"], ",") {
			v, _ := strconv.Atoi(s)
			dl = append(dl, v)
			dlT = append(dlT, coqZ(int64(v)))
		}
	}
	config.Get().WARCDiscardStatus = dl
	b := discard.NewBuilder()
	var hooksT []string
	switch kv["hooks"] {
	case "default":
		b.AddDefaultHooks()
		hooksT = []string{"HCloudflare", "HStatus"}
	case "empty":
	default:
		for _, h := range strings.Split(kv["hooks"], ",") {
			if h == "cf" {
				b.AddHook(cloudflare.ChallengePageHook)
				hooksT = append(hooksT, "HCloudflare")
			} else {
				b.AddHook(warcdiscardstatus.WARCDiscardStatusHook)
				hooksT = append(hooksT, "HStatus")
			}
		}
	}
	hook := b.Build()
	var cfs, obs []string
	nd, nk := 0, 0
	for _, shape := range cfShapes {
		hdr := buildHeader(shape)
		cfs = append(cfs, coqHex([]byte(hdr.Get("cf-mitigated"))))
		var row []string
		for _, st := range sweepStatuses() {
			d, why := hook(&http.Response{StatusCode: st, Header: hdr})
			if d {
				nd++
				row = append(row, fmt.Sprintf("(%s, %s)", coqZ(int64(st)), reasonTerm(why)))
			} else {
				nk++
				if kv["hooks"] != "empty" && why != reasoncode.AllPassed || kv["hooks"] == "empty" && why != reasoncode.EmptyHookChain {
					// a kept response must carry the chain's own verdict; report as a discarded pair
					// with the unexpected reason so that the model comparison shows it
					row = append(row, fmt.Sprintf("(%s, %s)", coqZ(int64(st)), reasonTerm(why)))
				}
			}
		}
		obs = append(obs, coqList(row))
	}
	var ischal []string
	for _, s := range []string{"", cloudflare.ChallengeDetected, warcdiscardstatus.InWARCDiscardStatus, reasoncode.AllPassed, reasoncode.EmptyHookChain, reasoncode.HookNotSet} {
		ischal = append(ischal, coqBool(reasoncode.IsChallengePage(s)))
	}
	tags := []string{"hooks:" + kv["hooks"], fmt.Sprintf("list-len:%d", len(dl))}
	for _, v := range dl {
		if v == 403 {
			tags = append(tags, "list-has-403")
			break
		}
	}
	return Result{
		Term:       fmt.Sprintf("DCs %s %s %s %s %s", coqList(hooksT), coqList(dlT), coqList(cfs), coqList(obs), coqList(ischal)),
		Tags:       tags,
		Nontrivial: nd > 0 && nk > 0,
	}
}

func shrinkDiscard(in string) []string {
	kv := parseKV(in)
	var out []string
	if kv["dl"] != "" {
		parts := strings.Split(kv["dl"], ",")
		for i := range parts {
			q := append(append([]string(nil), parts[:i]...), parts[i+1:]...)
			out = append(out, fmt.Sprintf("hooks=%s dl=%s", kv["hooks"], strings.Join(q, ",")))
		}
	}
	return out
}
