//go:build verif

package main

// C02 leg "discard": the real discard hook chain (discard.Builder, cloudflare, warcdiscardstatus,
// reasoncode) on synthetic *http.Response values, swept exhaustively over the status code for a
// set of response environments (cf-mitigated header shapes x Server / CDN headers x bodies behind a
// watched reader), compared with Warc/Discard.v.  A hook is a function of (status, headers): after
// every call the body reader must still yield all its bytes.

import (
	"bytes"
	"errors"
	"fmt"
	"io"
	"net/http"
	"sort"
	"strconv"
	"strings"

	"github.com/internetarchive/Zeno/internal/pkg/archiver/discard"
	"github.com/internetarchive/Zeno/internal/pkg/archiver/discard/discarder/cloudflare"
	"github.com/internetarchive/Zeno/internal/pkg/archiver/discard/discarder/warcdiscardstatus"
	"github.com/internetarchive/Zeno/internal/pkg/archiver/discard/reasoncode"
	"github.com/internetarchive/Zeno/internal/pkg/config"
)

// the bodies of the environments are constants: one definition each in the case file's header
// (literals dominate the elaboration time of a case file)
func discardHeader() string {
	h := "From ZenoV Require Import Lib.Harness Warc.Body Warc.Discard Warc.WarcHarness.\nOpen Scope Z_scope.\n"
	for i, b := range dBodies {
		h += fmt.Sprintf("Definition db%d : data := %s.\n", i, coqData(b.bytes))
	}
	// ... and so are the header entries and the cf-mitigated values the environments are made of
	add := func(hd http.Header) {
		var keys []string
		for k := range hd {
			keys = append(keys, k)
		}
		sort.Strings(keys)
		for _, k := range keys {
			e := coqEntry(k, hd[k])
			if _, ok := dEntryName[e]; !ok {
				dEntryName[e] = fmt.Sprintf("he%d", len(dEntryName))
				h += fmt.Sprintf("Definition %s : bytes * list bytes := %s.\n", dEntryName[e], e)
			}
		}
		v := coqHex([]byte(hd.Get("cf-mitigated")))
		if _, ok := dCfName[v]; !ok {
			dCfName[v] = fmt.Sprintf("cfv%d", len(dCfName))
			h += fmt.Sprintf("Definition %s : bytes := %s.\n", dCfName[v], v)
		}
	}
	for _, shape := range cfShapes {
		add(buildHeader(shape))
	}
	for _, sv := range dServers {
		add(dRow{shape: "absent", server: sv, extra: 1<<len(dExtras) - 1}.header())
	}
	return h
}

func coqCfValue(v string) string {
	t := coqHex([]byte(v))
	if name, ok := dCfName[t]; ok {
		return name
	}
	return t
}

var dEntryName, dCfName = map[string]string{}, map[string]string{}

func coqEntry(k string, vs []string) string {
	var vt []string
	for _, v := range vs {
		vt = append(vt, coqHex([]byte(v)))
	}
	return fmt.Sprintf("(%s, %s)", coqHex([]byte(k)), coqList(vt))
}

func init() {
	register(&Driver{
		Name:     "discard",
		Header:   discardHeader(),
		CaseType: "dcase",
		Footer:   "\nDefinition DIFF := Eval vm_compute in ddiffs cases.\nPrint DIFF.\nDefinition MON := Eval vm_compute in dmons cases.\nPrint MON.\n",
		Rule:     "one case = (hook chain built through discard.Builder, --warc-discard-status list, environment seed); for each of 15 response environments (11 shapes of the cf-mitigated header x Server header (none, cloudflare and look-alikes, other CDNs) x other CDN headers x body (challenge-title page, CDN error pages of 1.3-6 KB, empty, http.NoBody) behind a watched reader, four of them fixed: Server: cloudflare without cf-mitigated) the chain is asked about EVERY status 100..599 plus 0, 99, 600, 999, 403000, -1, every call with a fresh body reader that is read to EOF afterwards; distinct by input text; non-trivial when at least one response is discarded and at least one is kept",
		Setup:    func() { must(config.InitConfig()) },
		Gen:      genDiscard,
		Exec:     execDiscard,
		Shrink:   shrinkDiscard,
	})
}

func sweepStatuses() []int {
	var s []int
	for i := 100; i < 600; i++ {
		s = append(s, i)
	}
	return append(s, 0, 99, 600, 999, 403000, -1)
}

// header shapes: how the response header is filled
var cfShapes = []string{"absent", "challenge", "Challenge", "challenge_", "_challenge", "challeng", "block", "two:challenge,block", "two:block,challenge", "rawkey:challenge", "empty"}

func buildHeader(shape string) http.Header {
	h := http.Header{}
	h.Set("Content-Type", "text/html")
	switch {
	case shape == "absent":
	case shape == "empty":
		h.Set("cf-mitigated", "")
	case strings.HasPrefix(shape, "two:"):
		a, b, _ := strings.Cut(shape[4:], ",")
		h.Add("Cf-Mitigated", a)
		h.Add("cf-mitigated", b)
	case strings.HasPrefix(shape, "rawkey:"):
		h["cf-mitigated"] = []string{shape[7:]} // non-canonical key: invisible to Header.Get
	default:
		h.Set("CF-Mitigated", strings.ReplaceAll(shape, "_", " "))
	}
	return h
}

// ---- response environments ----------------------------------------------------------------------

// watchBody is the body reader handed to the hook: it counts what the hook does with it, and a
// closed reader yields nothing any more.
type watchBody struct {
	data          []byte
	off           int
	reads, closes int
	closed        bool
}

func (w *watchBody) Read(p []byte) (int, error) {
	w.reads++
	if w.closed {
		return 0, errors.New("read on a closed body")
	}
	if w.off >= len(w.data) {
		return 0, io.EOF
	}
	n := copy(p, w.data[w.off:])
	w.off += n
	return n, nil
}

func (w *watchBody) Close() error { w.closes++; w.closed = true; return nil }

type dBody struct {
	name   string
	bytes  []byte
	noBody bool
}

func cdnPage(title, id string, pad, tail int) []byte {
	return []byte("<!DOCTYPE html><html><head><title>" + title + "</title></head><body><h1>" + title + "</h1><p>Ray ID: " + id + "</p>" +
		strings.Repeat(" ", pad) + "<p>" + strings.Repeat("d", tail) + "</p></body></html>")
}

// bodies a CDN serves with 403 / 429 / 503 (and anything else): the interstitial whose title the
// discarders of other crawlers grep for, block pages, error pages that differ only in their head
var dBodies = []dBody{
	{name: "challenge-title-page", bytes: cdnPage("Just a moment...", "8a1f00000000aaaa", 1100, 4000)},
	{name: "error-1020-page", bytes: cdnPage("Access denied", "8a1f00000000bbbb", 1100, 4000)},
	{name: "attention-required-page", bytes: cdnPage("Attention Required! | Cloudflare", "8a1f00000000cccc", 200, 1000)},
	{name: "short-text", bytes: []byte("error code: 1020")},
	{name: "empty", bytes: nil},
	{name: "http.NoBody", noBody: true},
	{name: "challenge-title-late", bytes: append(bytes.Repeat([]byte("x"), 1500), cdnPage("Just a moment...", "1", 30, 100)...)},
}

var dServers = []string{"", "", "cloudflare", "cloudflare", "cloudflare", "Cloudflare", "cloudflare-nginx", "AkamaiGHost", "nginx", "CloudFront", "ddos-guard", "Sucuri/Cloudproxy", "BunnyCDN"}

type dRow struct {
	shape  string // of the cf-mitigated header (cfShapes)
	server string
	extra  int // bit set of other CDN-ish headers
	body   int // index into dBodies
}

var dExtras = [][2]string{{"Cf-Ray", "8a1f00000000aaaa-AMS"}, {"Cf-Cache-Status", "DYNAMIC"}, {"X-Cdn", "Imperva"}, {"Retry-After", "30"},
	{"Cf-Chl-Bypass", "1"}, {"X-Amz-Cf-Id", "abc"}, {"Akamai-Grn", "0.1"}}

func (rw dRow) header() http.Header {
	h := buildHeader(rw.shape)
	if rw.server != "" {
		h.Set("Server", rw.server)
	}
	for i, kv := range dExtras {
		if rw.extra&(1<<i) != 0 {
			h.Set(kv[0], kv[1])
		}
	}
	return h
}

// discardRows: every cf-mitigated shape in an environment drawn from the seed, then four fixed
// environments: Server: cloudflare without / with cf-mitigated, in front of the pages above
func discardRows(seed uint64) []dRow {
	r := NewRng(seed*2654435761 + 17)
	var rows []dRow
	for _, shape := range cfShapes {
		rows = append(rows, dRow{shape: shape, server: dServers[r.Intn(len(dServers))], extra: r.Intn(1 << len(dExtras)), body: r.Intn(len(dBodies))})
	}
	return append(rows,
		dRow{shape: "absent", server: "cloudflare", extra: 1, body: 1},
		dRow{shape: "absent", server: "cloudflare", extra: r.Intn(1 << len(dExtras)), body: 0},
		dRow{shape: "challenge", server: "cloudflare", extra: 3, body: r.Intn(len(dBodies))},
		dRow{shape: []string{"absent", "block", "Challenge"}[r.Intn(3)], server: "", extra: 0, body: 0})
}

// coqHeader renders the header map as Warc.Discard.header: key as stored -> values, keys sorted
func coqHeader(h http.Header) string {
	var keys []string
	for k := range h {
		keys = append(keys, k)
	}
	sort.Strings(keys)
	var out []string
	for _, k := range keys {
		e := coqEntry(k, h[k])
		if name, ok := dEntryName[e]; ok {
			e = name
		}
		out = append(out, e)
	}
	return coqList(out)
}

func genDiscard(r *Rng, i int, tier string) string {
	hooks := []string{"default", "default", "default", "default", "empty", "cf", "st", "st,cf", "cf,st", "cf,st,cf", "st,st"}[r.Intn(11)]
	var dl []string
	pool := []int{403, 404, 403, 429, 500, 503, 200, 301, 100, 599, 600, 99, 0, 408, 425, 999, -1}
	switch r.Intn(6) {
	case 0: // empty list
	case 1:
		dl = append(dl, fmt.Sprint(pool[r.Intn(len(pool))]))
	default:
		for k := 1 + r.Intn(6); k > 0; k-- {
			if r.Chance(60) {
				dl = append(dl, fmt.Sprint(pool[r.Intn(len(pool))]))
			} else {
				dl = append(dl, fmt.Sprint(100+r.Intn(500)))
			}
		}
	}
	return fmt.Sprintf("hooks=%s dl=%s env=%d", hooks, strings.Join(dl, ","), r.U64()%1000000)
}

func reasonTerm(s string) string {
	switch s {
	case "":
		return "RNone"
	case cloudflare.ChallengeDetected:
		return "RChallenge"
	case warcdiscardstatus.InWARCDiscardStatus:
		return "RInList"
	case reasoncode.AllPassed:
		return "RAllPassed"
	case reasoncode.EmptyHookChain:
		return "REmptyChain"
	case reasoncode.HookNotSet:
		return "RHookNotSet"
	}
	return "RNone"
}

func execDiscard(in string) Result {
	kv := parseKV(in)
	var dl []int
	var dlT []string
	if kv["dl"] != "" {
		for _, s := range strings.Split(kv["dl"], ",") {
			v, _ := strconv.Atoi(s)
			dl = append(dl, v)
			dlT = append(dlT, coqZ(int64(v)))
		}
	}
	config.Get().WARCDiscardStatus = dl
	b := discard.NewBuilder()
	var hooksT []string
	switch kv["hooks"] {
	case "default":
		b.AddDefaultHooks()
		hooksT = []string{"HCloudflare", "HStatus"}
	case "empty":
	default:
		for _, h := range strings.Split(kv["hooks"], ",") {
			if h == "cf" {
				b.AddHook(cloudflare.ChallengePageHook)
				hooksT = append(hooksT, "HCloudflare")
			} else {
				b.AddHook(warcdiscardstatus.WARCDiscardStatusHook)
				hooksT = append(hooksT, "HStatus")
			}
		}
	}
	hook := b.Build()
	var seed uint64
	fmt.Sscan(kv["env"], &seed)
	rows := discardRows(seed)
	var rowsT []string
	nd, nk, touchedCalls := 0, 0, 0
	envTags := map[string]bool{}
	for _, rw := range rows {
		hdr := rw.header()
		hdrT, cfT := coqHeader(hdr), coqCfValue(hdr.Get("cf-mitigated"))
		body := dBodies[rw.body].bytes
		var row, left []string
		nTouched := 0
		for _, st := range sweepStatuses() {
			resp := &http.Response{StatusCode: st, Header: hdr}
			var wb *watchBody
			if dBodies[rw.body].noBody {
				resp.Body = http.NoBody
			} else {
				wb = &watchBody{data: body}
				resp.Body = wb
			}
			given := resp.Body
			d, why := hook(resp)
			// what the recorder / ProcessBody would get: resp.Body as the hook left it, read to EOF.
			// (A watched reader nobody called and that is still in place yields all its bytes: it is
			// actually read only at the sampled statuses and when it was touched or replaced.)
			sampled := st == 403 || st == 429 || st == 503 || st == 200 || st == 404
			touched := wb != nil && (wb.reads > 0 || wb.closes > 0) || resp.Body != given
			rest := body
			if sampled || touched {
				rest = nil
				if resp.Body != nil {
					rest, _ = io.ReadAll(resp.Body)
				}
				if !bytes.Equal(rest, body) {
					touched = true
				}
			}
			if touched {
				touchedCalls++
				nTouched++
			}
			if sampled || touched && nTouched <= 6 {
				restT := fmt.Sprintf("db%d", rw.body)
				if !bytes.Equal(rest, body) {
					restT = coqData(rest)
				}
				left = append(left, fmt.Sprintf("(%s, %s)", coqZ(int64(st)), restT))
			}
			if d {
				nd++
				row = append(row, fmt.Sprintf("(%s, %s)", coqZ(int64(st)), reasonTerm(why)))
			} else {
				nk++
				if kv["hooks"] != "empty" && why != reasoncode.AllPassed || kv["hooks"] == "empty" && why != reasoncode.EmptyHookChain {
					// a kept response must carry the chain's own verdict; report as a discarded pair
					// with the unexpected reason so that the model comparison shows it
					row = append(row, fmt.Sprintf("(%s, %s)", coqZ(int64(st)), reasonTerm(why)))
				}
			}
		}
		rowsT = append(rowsT, fmt.Sprintf("DR %s %s db%d %s %s", hdrT, cfT, rw.body, coqList(row), coqList(left)))
		if rw.server != "" {
			envTags["env:server:"+rw.server] = true
		} else {
			envTags["env:server:none"] = true
		}
		envTags["env:body:"+dBodies[rw.body].name] = true
	}
	if touchedCalls > 0 {
		note(fmt.Sprintf("discard: the hook chain touched the response body in %d calls (input %s)", touchedCalls, in))
	}
	var ischal []string
	for _, s := range []string{"", cloudflare.ChallengeDetected, warcdiscardstatus.InWARCDiscardStatus, reasoncode.AllPassed, reasoncode.EmptyHookChain, reasoncode.HookNotSet} {
		ischal = append(ischal, coqBool(reasoncode.IsChallengePage(s)))
	}
	tags := []string{"hooks:" + kv["hooks"], fmt.Sprintf("list-len:%d", len(dl))}
	for t := range envTags {
		tags = append(tags, t)
	}
	sort.Strings(tags[2:])
	for _, v := range dl {
		if v == 403 {
			tags = append(tags, "list-has-403")
			break
		}
	}
	return Result{
		Term:       fmt.Sprintf("DCs %s %s %s %s", coqList(hooksT), coqList(dlT), coqList(rowsT), coqList(ischal)),
		Tags:       tags,
		Nontrivial: nd > 0 && nk > 0,
	}
}

func shrinkDiscard(in string) []string {
	kv := parseKV(in)
	var out []string
	if kv["dl"] != "" {
		parts := strings.Split(kv["dl"], ",")
		for i := range parts {
			q := append(append([]string(nil), parts[:i]...), parts[i+1:]...)
			out = append(out, fmt.Sprintf("hooks=%s dl=%s env=%s", kv["hooks"], strings.Join(q, ","), kv["env"]))
		}
	}
	return out
}
