//go:build verif

// Common driver framework, overlaid into EVERY harness binary directory (harness/z*/) by lib/vlib.py.
// zunit & co: component-level correspondence drivers.  Compiled INTO /repo's module through
// `go build -tags verif -overlay` (virtual path internal/verifharness/zunit), so that it can
// import internal packages and the export shims.  Each driver generates inputs from one
// SplitMix64 state, runs the real implementation on them and writes Coq case files that the
// model evaluates with vm_compute.
package main

import (
	"bufio"
	"encoding/json"
	"flag"
	"fmt"
	"os"
	"path/filepath"
	"sort"
	"strings"
	"sync"
	"time"
)

// Rng is SplitMix64; every random choice of every driver derives from one state.
type Rng struct{ s uint64 }

// NewRng hashes the seed first, so that different seeds give unrelated streams (not shifted copies).
func NewRng(seed uint64) *Rng {
	r := &Rng{s: seed}
	r.s = r.U64() ^ 0x1234567
	return r
}
func (r *Rng) U64() uint64 {
	r.s += 0x9E3779B97F4A7C15
	z := r.s
	z = (z ^ (z >> 30)) * 0xBF58476D1CE4E5B9
	z = (z ^ (z >> 27)) * 0x94D049BB133111EB
	return z ^ (z >> 31)
}
func (r *Rng) Intn(n int) int {
	if n <= 0 {
		return 0
	}
	return int(r.U64() % uint64(n))
}
func (r *Rng) Bool() bool        { return r.U64()&1 == 1 }
func (r *Rng) Chance(p int) bool { return r.Intn(100) < p } // p percent
func (r *Rng) Fork() *Rng        { return &Rng{s: r.U64()} }

// Result of running the implementation on one input.
type Result struct {
	Term       string   // Coq term of the driver's case type
	Tags       []string // input-distribution tags (histogram goes into the evidence)
	Nontrivial bool     // by the driver's stated rule
}

type Driver struct {
	Name     string
	Header   string // Coq imports
	CaseType string
	Footer   string // Coq commands evaluating [cases]; must Print DIFF / MON
	Rule     string // what makes a case non-trivial / distinct
	Setup    func() // once per process
	Gen      func(r *Rng, i int, tier string) string
	Exec     func(input string) Result
	Shrink   func(input string) []string // optional: smaller candidate inputs
	Teardown func()
	Parallel int // optional: run Exec on this many inputs concurrently (Exec must then be goroutine-safe)
	// CaseTimeoutSec: a case whose Exec has not returned after this many seconds (default 600; in-process drivers of quick cases set 120) is a hang of
	// the implementation: the process reports the input on stderr and exits with code 3
	CaseTimeoutSec int
}

var drivers = map[string]*Driver{}

// subcommands are non-driver entry points of a binary (e.g. child processes), registered in init().
var subcommands = map[string]func(args []string){}

func register(d *Driver) { drivers[d.Name] = d }

type Meta struct {
	Driver      string         `json:"driver"`
	Seed        uint64         `json:"seed"`
	Evaluations int            `json:"evaluations"`
	Distinct    int            `json:"distinct"`
	Nontrivial  int            `json:"distinct_nontrivial"`
	Rule        string         `json:"rule"`
	Tags        map[string]int `json:"tags"`
	Samples     []string       `json:"samples"`
	Shards      []string       `json:"shards"`
	Corpus      int            `json:"corpus_cases"`
	Notes       []string       `json:"notes,omitempty"`
}

var notes []string

func note(s string) { notes = append(notes, s) }

func main() {
	if len(os.Args) < 2 {
		fmt.Fprintln(os.Stderr, "usage: zunit <driver> [flags]")
		os.Exit(2)
	}
	name := os.Args[1]
	if sc, ok := subcommands[name]; ok {
		sc(os.Args[2:])
		return
	}
	d, ok := drivers[name]
	if !ok {
		fmt.Fprintln(os.Stderr, "unknown driver", name)
		os.Exit(2)
	}
	fs := flag.NewFlagSet(name, flag.ExitOnError)
	seed := fs.Uint64("seed", 1, "PRNG seed")
	n := fs.Int("n", 100, "number of generated cases")
	shard := fs.Int("shard", 250, "cases per Coq file")
	out := fs.String("out", "", "output directory")
	tier := fs.String("tier", "quick", "quick|thorough")
	corpus := fs.String("corpus", "", "file of stored inputs, run first")
	input := fs.String("input", "", "run exactly this one input")
	shrink := fs.String("shrink", "", "print shrink candidates for this input, one per line")
	fs.Parse(os.Args[2:])

	if *shrink != "" {
		if d.Shrink != nil {
			for _, c := range d.Shrink(*shrink) {
				fmt.Println(c)
			}
		}
		return
	}
	if *out == "" {
		fmt.Fprintln(os.Stderr, "-out required")
		os.Exit(2)
	}
	os.MkdirAll(*out, 0o755)
	if d.Setup != nil {
		d.Setup()
	}

	var inputs []string
	ncorpus := 0
	if *input != "" {
		inputs = []string{*input}
	} else {
		if *corpus != "" {
			if f, err := os.Open(*corpus); err == nil {
				sc := bufio.NewScanner(f)
				sc.Buffer(make([]byte, 1<<20), 1<<26)
				for sc.Scan() {
					l := strings.TrimSpace(sc.Text())
					if l != "" && !strings.HasPrefix(l, "#") {
						inputs = append(inputs, l)
					}
				}
				f.Close()
			}
			ncorpus = len(inputs)
		}
		rng := NewRng(*seed)
		for i := 0; i < *n; i++ {
			inputs = append(inputs, d.Gen(rng.Fork(), i, *tier))
		}
	}

	meta := Meta{Driver: name, Seed: *seed, Rule: d.Rule, Tags: map[string]int{}, Corpus: ncorpus}
	seen := map[string]bool{}
	var terms []string
	var tagLines []string
	results := make([]Result, len(inputs))
	// the inputs being executed right now are kept in <out>/<driver>.inflight: when the implementation
	// kills the process (a panic in one of its goroutines, a detected data race), the check reads the
	// file, re-runs each candidate alone and reports the one that dies as the failing input
	inflightPath := filepath.Join(*out, name+".inflight")
	var inflightMu sync.Mutex
	inflight := map[int]string{}
	mark := func(i int, in string, on bool) {
		inflightMu.Lock()
		defer inflightMu.Unlock()
		if on {
			inflight[i] = in
		} else {
			delete(inflight, i)
		}
		var l []string
		for _, x := range inflight {
			l = append(l, x)
		}
		os.WriteFile(inflightPath, []byte(strings.Join(l, "\n")), 0o644)
	}
	caseTimeout := time.Duration(d.CaseTimeoutSec) * time.Second
	if caseTimeout == 0 {
		caseTimeout = 600 * time.Second
	}
	// execWatched runs one case; a case that never returns is reported and ends the process (exit 3)
	execWatched := func(in string) Result {
		ch := make(chan Result, 1)
		go func() { ch <- d.Exec(in) }()
		select {
		case r := <-ch:
			return r
		case <-time.After(caseTimeout):
			os.WriteFile(inflightPath, []byte(in), 0o644)
			fmt.Fprintf(os.Stderr, "HANG: driver %s: the implementation did not return within %v on input: %s\n", name, caseTimeout, in)
			os.Exit(3)
		}
		return Result{}
	}
	if d.Parallel > 1 {
		sem := make(chan struct{}, d.Parallel)
		var wg sync.WaitGroup
		for i, in := range inputs {
			wg.Add(1)
			sem <- struct{}{}
			go func(i int, in string) {
				defer wg.Done()
				defer func() { <-sem }()
				mark(i, in, true)
				results[i] = execWatched(in)
				mark(i, in, false)
			}(i, in)
		}
		wg.Wait()
	} else {
		for i, in := range inputs {
			os.WriteFile(inflightPath, []byte(in), 0o644)
			results[i] = execWatched(in)
		}
	}
	os.Remove(inflightPath)
	for i, in := range inputs {
		res := results[i]
		terms = append(terms, res.Term)
		tagLines = append(tagLines, strings.Join(res.Tags, ","))
		meta.Evaluations++
		if !seen[in] {
			seen[in] = true
			meta.Distinct++
			if res.Nontrivial {
				meta.Nontrivial++
			}
		}
		for _, t := range res.Tags {
			meta.Tags[t]++
		}
		if len(meta.Samples) < 3 {
			s := in
			if len(s) > 600 {
				s = s[:600] + "..."
			}
			meta.Samples = append(meta.Samples, s)
		}
	}
	if d.Teardown != nil {
		d.Teardown()
	}

	for k := 0; k*(*shard) < len(terms); k++ {
		lo, hi := k*(*shard), (k+1)*(*shard)
		if hi > len(terms) {
			hi = len(terms)
		}
		base := fmt.Sprintf("%s_%03d", name, k)
		var b strings.Builder
		b.WriteString(d.Header)
		b.WriteString("\nDefinition cases : list " + d.CaseType + " := [\n")
		b.WriteString(strings.Join(terms[lo:hi], ";\n"))
		b.WriteString("\n].\n")
		b.WriteString(d.Footer)
		os.WriteFile(filepath.Join(*out, base+".v"), []byte(b.String()), 0o644)
		os.WriteFile(filepath.Join(*out, base+".inputs"), []byte(strings.Join(inputs[lo:hi], "\n")+"\n"), 0o644)
		os.WriteFile(filepath.Join(*out, base+".tags"), []byte(strings.Join(tagLines[lo:hi], "\n")+"\n"), 0o644)
		meta.Shards = append(meta.Shards, base)
	}
	meta.Notes = notes
	mj, _ := json.MarshalIndent(meta, "", " ")
	os.WriteFile(filepath.Join(*out, name+".meta.json"), mj, 0o644)
	keys := make([]string, 0, len(meta.Tags))
	for k := range meta.Tags {
		keys = append(keys, k)
	}
	sort.Strings(keys)
	fmt.Printf("zunit %s: %d cases (%d distinct, %d non-trivial), %d shards\n", name, meta.Evaluations, meta.Distinct, meta.Nontrivial, len(meta.Shards))
}

// ---- helpers for writing Coq terms ----

func coqBool(b bool) string {
	if b {
		return "true"
	}
	return "false"
}

func coqZ(v int64) string {
	if v < 0 {
		return fmt.Sprintf("(%d)%%Z", v)
	}
	return fmt.Sprintf("%d%%Z", v)
}

func coqZu(v uint64) string { return fmt.Sprintf("%d%%Z", v) }

func coqHex(s []byte) string { return fmt.Sprintf("(hx \"%x\")", s) }

func coqList(items []string) string { return "[" + strings.Join(items, "; ") + "]" }

const stdFooter = `
Definition DIFF := Eval vm_compute in diffs cases.
Print DIFF.
Definition MON := Eval vm_compute in mons cases.
Print MON.
`
