//go:build verif

package main

// C12, what the PIPELINE configures: every case is one real crawl in its own OS process (the
// `pipechild` machinery with the real controler.Start()/Stop(), --workers w, seeds given on the command
// line and/or rows of the local queue, an origin that takes 120-420 ms per answer).  A watcher
// goroutine in the child samples the reactor while the crawl runs: cap(tokenPool) and the number of
// tracked seeds.  Observable: workers, token capacity, most seeds ever tracked at once.  The in-flight
// bound of C12 is instantiated with n = --workers: capacity = workers, tracked <= workers at every sample.

import (
	"encoding/json"
	"fmt"
	"os"
	"os/exec"
	"path/filepath"
	"strconv"
	"strings"
	"time"

	"github.com/internetarchive/Zeno/internal/pkg/reactor"
)

type rpWatchResult struct {
	MaxTracked int `json:"max_tracked"`
	TokenCap   int `json:"token_cap"`
	Samples    int `json:"samples"`
}

func rpWatch(path string) {
	w := rpWatchResult{TokenCap: -1}
	write := func() {
		b, _ := json.Marshal(w)
		os.WriteFile(path+".tmp", b, 0o644)
		os.Rename(path+".tmp", path)
	}
	write()
	for {
		if reactor.VerifAlive() {
			n, c := reactor.VerifTrackedCount(), reactor.VerifTokenCap()
			if n >= 0 && c >= 0 {
				w.Samples++
				changed := false
				if n > w.MaxTracked {
					w.MaxTracked, changed = n, true
				}
				if c > w.TokenCap {
					w.TokenCap, changed = c, true
				}
				if changed || w.Samples%500 == 0 {
					write()
				}
			}
		}
		time.Sleep(150 * time.Microsecond)
	}
}

func init() {
	subcommands["reactorpipechild"] = func(a []string) {
		abs, _ := filepath.Abs(a[0] + ".watch") // the child changes its directory
		go rpWatch(abs)
		runPipeChild(a[0])
	}
	register(&Driver{
		Name:     "reactorpipe",
		Header:   "From ZenoV Require Import Lib.Harness Reactor.Reactor Reactor.ReactorHarness.\n",
		CaseType: "pcase",
		Footer:   "\nDefinition DIFF := Eval vm_compute in pdiffs cases.\nPrint DIFF.\nDefinition MON := Eval vm_compute in pmons cases.\nPrint MON.\n",
		Rule: "one case = one real crawl (own process, real controler.Start/Stop) with --workers w in 1..4, 0..8 seeds on the command " +
			"line, 0..6 rows in the local queue, slow origin; the reactor is sampled every 150 us; distinct by input text; non-trivial when " +
			"there are more seeds than workers and the bound was attained (most tracked at once = workers)",
		Gen:  genReactorPipe,
		Exec: execReactorPipe,
	})
}

func genReactorPipe(r *Rng, i int, tier string) string {
	w := 1 + r.Intn(4)
	in, rows := r.Intn(9), r.Intn(7)
	if r.Chance(60) && in <= w { // more command-line seeds than workers
		in = w + 1 + r.Intn(8-w)
	}
	if in+rows == 0 {
		in = 1
	}
	return fmt.Sprintf("w=%d in=%d rows=%d site=%d", w, in, rows, r.Intn(1000000))
}

func execReactorPipe(input string) Result {
	kv := parseKV(input)
	atoi := func(k string) int { n, _ := strconv.Atoi(kv[k]); return n }
	w, in, rows := atoi("w"), atoi("in"), atoi("rows")
	if w < 1 {
		w = 1
	}
	site, _ := strconv.ParseUint(kv["site"], 10, 64)
	bad := func(tag string) Result {
		return Result{Term: fmt.Sprintf("PC %d 0 0 %d %d 0 0 false", w, in, rows), Tags: []string{tag}}
	}
	dir, err := os.MkdirTemp("", "zv-rpipe-")
	if err != nil {
		return bad("mktemp-failed")
	}
	defer os.RemoveAll(dir)
	sp := &PipeSpec{Dir: filepath.Join(dir, "run"), Job: "j", SiteSeed: site, SiteMode: "slow", Workers: w, MCA: 1,
		Seencheck: true, Pool: 1, MaxRetry: 1, MaxRedirect: 3, IdleMs: 700, TimeoutMs: 90000}
	for i := 0; i < in; i++ {
		sp.InputSeeds = append(sp.InputSeeds, fmt.Sprintf("http://{A}/s%d-%d.html", site%1000, 100+i))
	}
	for i := 0; i < rows; i++ {
		host := "{A}"
		if (site+uint64(i))%3 == 0 {
			host = "{B}"
		}
		sp.LQRows = append(sp.LQRows, LQRow{ID: fmt.Sprintf("row%d", i), Value: fmt.Sprintf("http://%s/s%d-%d.html", host, site%1000, i)})
	}
	sp.Expect = in + rows
	os.MkdirAll(sp.Dir, 0o755)
	raw, _ := json.Marshal(sp)
	specPath := filepath.Join(dir, "run.spec.json")
	os.WriteFile(specPath, raw, 0o644)
	cmd := exec.Command(os.Args[0], "reactorpipechild", specPath)
	cmd.Env = append(os.Environ(), "ZV_SCHEMA="+filepath.Join(repoRoot(), "internal/pkg/source/lq/schema.sql"))
	var out strings.Builder
	cmd.Stderr, cmd.Stdout = &out, &out
	if err := cmd.Start(); err != nil {
		return bad("start-failed")
	}
	done := make(chan error, 1)
	go func() { done <- cmd.Wait() }()
	status := "ok"
	select {
	case err := <-done:
		if err != nil {
			status = "child-failed"
		}
	case <-time.After(time.Duration(sp.TimeoutMs+30000) * time.Millisecond):
		cmd.Process.Kill()
		<-done
		status = "watchdog"
	}
	var wr rpWatchResult
	if b, err := os.ReadFile(specPath + ".watch"); err == nil {
		json.Unmarshal(b, &wr)
	}
	res := &PipeResult{}
	if b, err := os.ReadFile(filepath.Join(sp.Dir, "result.1.json")); err == nil {
		json.Unmarshal(b, res)
	}
	if status != "ok" {
		tail := out.String()
		if len(tail) > 600 {
			tail = tail[len(tail)-600:]
		}
		note("reactorpipe " + input + ": " + status + " | " + strings.ReplaceAll(tail, "\n", " / "))
	}
	if wr.TokenCap < 0 {
		wr.TokenCap = 0
	}
	complete := status == "ok" && !res.TimedOut && wr.Samples > 0
	tags := []string{fmt.Sprintf("w:%d", w), "child:" + status}
	if in > w {
		tags = append(tags, "inputs>workers")
	}
	if rows > 0 {
		tags = append(tags, "queue-rows")
	}
	if wr.MaxTracked == w {
		tags = append(tags, "bound-attained")
	}
	return Result{
		Term: fmt.Sprintf("PC %d %d %d %d %d %d %d %s", w, wr.TokenCap, wr.MaxTracked, in, rows, res.Finished, wr.Samples,
			coqBool(complete)),
		Tags:       tags,
		Nontrivial: complete && in+rows > w && wr.MaxTracked == w,
	}
}
