//go:build verif

package main

import (
	"bufio"
	"bytes"
	"compress/gzip"
	"crypto/sha1"
	"encoding/hex"
	"io"
	"net/http"
	"os"
	"path/filepath"
	"strconv"
	"strings"
)

// An independent, minimal WARC reader: one gzip member per record, WARC/1.x header block,
// Content-Length bytes of block, CRLF CRLF.  Used to decide "consists only of complete records".

type warcRecord struct {
	Type      string
	TargetURI string
	Status    int    // HTTP status of a response record
	PayloadSHA string // sha1 of the HTTP payload (after the HTTP header block), hex
	PayloadLen int
	Revisit   bool
}

type warcScan struct {
	Files, OpenFiles, Records, BadFiles int
	Recs                                []warcRecord
	Problems                            []string
}

func scanWarcDir(dir string) warcScan {
	var sc warcScan
	filepath.Walk(dir, func(p string, info os.FileInfo, err error) error {
		if err != nil || info.IsDir() {
			return nil
		}
		switch {
		case strings.HasSuffix(p, ".open"):
			sc.OpenFiles++
			sc.Problems = append(sc.Problems, "open file left: "+filepath.Base(p))
		case strings.HasSuffix(p, ".warc.gz"):
			sc.Files++
			recs, prob := readWarcFile(p)
			sc.Records += len(recs)
			sc.Recs = append(sc.Recs, recs...)
			if prob != "" {
				sc.BadFiles++
				sc.Problems = append(sc.Problems, filepath.Base(p)+": "+prob)
			}
		}
		return nil
	})
	return sc
}

// readWarcFile returns the complete records of a file and a description of the first defect, if any
func readWarcFile(path string) ([]warcRecord, string) {
	raw, err := os.ReadFile(path)
	if err != nil {
		return nil, err.Error()
	}
	var recs []warcRecord
	br := bytes.NewReader(raw)
	for br.Len() > 0 {
		zr, err := gzip.NewReader(br)
		if err != nil {
			return recs, "gzip member header: " + err.Error()
		}
		zr.Multistream(false)
		data, err := io.ReadAll(zr)
		if err != nil {
			return recs, "gzip member truncated: " + err.Error()
		}
		if len(data) == 0 {
			continue // an empty gzip member (written when a writer is closed) holds no record, partial or otherwise
		}
		rec, prob := parseWarcRecord(data)
		if prob != "" {
			return recs, prob
		}
		recs = append(recs, rec)
	}
	return recs, ""
}

func parseWarcRecord(data []byte) (warcRecord, string) {
	var rec warcRecord
	i := bytes.Index(data, []byte("\r\n\r\n"))
	if i < 0 || !bytes.HasPrefix(data, []byte("WARC/1.")) {
		return rec, "no WARC header block"
	}
	clen := -1
	for _, line := range strings.Split(string(data[:i]), "\r\n")[1:] {
		kv := strings.SplitN(line, ":", 2)
		if len(kv) != 2 {
			continue
		}
		k, v := strings.ToLower(strings.TrimSpace(kv[0])), strings.TrimSpace(kv[1])
		switch k {
		case "warc-type":
			rec.Type = v
			rec.Revisit = v == "revisit"
		case "warc-target-uri":
			rec.TargetURI = strings.Trim(v, "<>")
		case "content-length":
			clen, _ = strconv.Atoi(v)
		}
	}
	if clen < 0 {
		return rec, "no Content-Length"
	}
	block := data[i+4:]
	if len(block) != clen+4 || !bytes.HasSuffix(block, []byte("\r\n\r\n")) {
		return rec, "block length " + strconv.Itoa(len(block)) + " does not match Content-Length " + strconv.Itoa(clen)
	}
	block = block[:clen]
	if rec.Type == "response" || rec.Type == "revisit" {
		if resp, err := http.ReadResponse(bufio.NewReader(bytes.NewReader(block)), nil); err == nil {
			rec.Status = resp.StatusCode
			resp.Body.Close()
		}
		if j := bytes.Index(block, []byte("\r\n\r\n")); j >= 0 {
			payload := block[j+4:]
			sum := sha1.Sum(payload)
			rec.PayloadSHA = hex.EncodeToString(sum[:])
			rec.PayloadLen = len(payload)
		}
	}
	return rec, ""
}

// ---- after a kill: every file (final or still *.open) must be readable record by record up to its
// last complete record; whatever follows must be a single truncated tail, not a defect in mid-file

type warcScanAll struct {
	Records, PartialTails, MidFileDefects int
	Recs                                   []warcRecord
	Problems                               []string
}

func scanWarcDirAll(dir string) warcScanAll {
	var sc warcScanAll
	filepath.Walk(dir, func(p string, info os.FileInfo, err error) error {
		if err != nil || info.IsDir() || !(strings.HasSuffix(p, ".warc.gz") || strings.HasSuffix(p, ".warc.gz.open")) {
			return nil
		}
		raw, err := os.ReadFile(p)
		if err != nil {
			return nil
		}
		off := 0
		for off < len(raw) {
			br := bytes.NewReader(raw[off:])
			zr, err := gzip.NewReader(br)
			var data []byte
			if err == nil {
				zr.Multistream(false)
				data, err = io.ReadAll(zr)
			}
			if err == nil && len(data) > 0 {
				rec, prob := parseWarcRecord(data)
				if prob == "" {
					sc.Records++
					sc.Recs = append(sc.Recs, rec)
				} else {
					err = io.ErrUnexpectedEOF
				}
			}
			if err != nil {
				// a defect at [off]: is there a complete record further on?
				later := false
				for q := off + 1; q+3 < len(raw); q++ {
					if raw[q] == 0x1f && raw[q+1] == 0x8b && raw[q+2] == 0x08 {
						if z2, e2 := gzip.NewReader(bytes.NewReader(raw[q:])); e2 == nil {
							z2.Multistream(false)
							if d2, e3 := io.ReadAll(z2); e3 == nil && len(d2) > 0 {
								if _, pr := parseWarcRecord(d2); pr == "" {
									later = true
									break
								}
							}
						}
					}
				}
				if later {
					sc.MidFileDefects++
					sc.Problems = append(sc.Problems, filepath.Base(p)+": defect in mid-file at offset "+strconv.Itoa(off))
				} else {
					sc.PartialTails++
				}
				break
			}
			off = len(raw) - br.Len()
		}
		return nil
	})
	return sc
}
