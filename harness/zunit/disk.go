//go:build verif

package main

import (
	"fmt"
	"math"
	"os"
	"strconv"
	"strings"
	"syscall"
	"time"

	"github.com/internetarchive/Zeno/internal/pkg/config"
	"github.com/internetarchive/Zeno/internal/pkg/controler/pause"
	"github.com/internetarchive/Zeno/internal/pkg/controler/watchers"
	"github.com/internetarchive/Zeno/internal/pkg/stats"
)

const gib = uint64(1) << 30

func coqFloat(f float64) string {
	switch {
	case math.IsNaN(f):
		return "FNaN"
	case math.IsInf(f, 1):
		return "(FInf false)"
	case math.IsInf(f, -1):
		return "(FInf true)"
	}
	neg := math.Signbit(f)
	frac, exp := math.Frexp(math.Abs(f))
	m := int64(frac * (1 << 53)) // exact: frac has at most 53 significant bits
	e := exp - 53
	for m != 0 && m%2 == 0 { // keep the literals small
		m /= 2
		e++
	}
	return fmt.Sprintf("(FFin %s %s %s)", coqBool(neg), coqZ(m), coqZ(int64(e)))
}

func init() {
	register(&Driver{
		Name:     "disk",
		Header:   "From ZenoV Require Import Lib.Harness Disk.Threshold Disk.DiskHarness.\nOpen Scope Z_scope.\n",
		CaseType: "dcase",
		Footer:   stdFooter,
		Rule:     "one case = (total, operator value, list of free-space values) with free values placed at -2..+2 bytes around the threshold the formula gives, plus 0, max and random; distinct by input text; non-trivial when the answers for the free values are not all equal (the case straddles the decision boundary)",
		Gen:      genDisk,
		Exec:     execDisk,
	})
	register(&Driver{
		Name:     "diskwatch",
		Header:   "From ZenoV Require Import Lib.Harness Disk.Threshold Disk.DiskHarness.\n",
		CaseType: "wcase",
		Footer:   "\nDefinition DIFF := Eval vm_compute in wdiffs cases.\nPrint DIFF.\nDefinition MON := Eval vm_compute in wmons cases.\nPrint MON.\n",
		Rule:     "one case = a sequence of low/ok disk observations given to the real WatchDiskSpace loop (real statfs on the job volume; the operator threshold is moved across the volume's actual free space between ticks); non-trivial when the sequence contains both a pause and a resume edge",
		Setup:    setupDiskWatch,
		Gen:      genDiskWatch,
		Exec:     execDiskWatch,
		Teardown: func() { watchers.StopDiskWatcher() },
	})
}

func genDisk(r *Rng, i int, tier string) string {
	// operator value
	var ms float64
	switch r.Intn(14) {
	case 0, 1, 2:
		ms = 0 // default rule
	case 3:
		ms = -float64(r.Intn(100)) - 0.5
	case 4:
		ms = math.NaN()
	case 5:
		if r.Bool() {
			ms = math.Inf(1)
		} else {
			ms = math.Inf(-1)
		}
	case 6:
		ms = float64(1 + r.Intn(500)) // whole GiB
	case 7:
		ms = float64(r.Intn(100000)) / 1000.0 // decimal fraction: not dyadic
	case 8:
		ms = math.Ldexp(float64(1+r.Intn(1<<20)), -r.Intn(60)) // dyadic, possibly tiny
	case 9:
		ms = math.Float64frombits(r.U64()) // any bit pattern
	case 10:
		ms = math.Ldexp(1, 33) + float64(r.Intn(3)) - 1 // close below 2^34 GiB = 2^64 bytes
	case 11:
		ms = math.Ldexp(1, 34) * (1 + float64(r.Intn(3))) // beyond the defined domain
	case 12:
		ms = math.SmallestNonzeroFloat64 * float64(1+r.Intn(8))
	default:
		ms = math.Nextafter(float64(1+r.Intn(64)), float64(r.Intn(2)*1000)) // one ulp off an integer
	}
	// volume size
	var total uint64
	switch r.Intn(8) {
	case 0:
		total = 256*gib + uint64(r.Intn(5)) - 2
	case 1:
		total = uint64(1)<<uint(r.Intn(64)) + uint64(r.Intn(3)) - 1
	case 2:
		total = r.U64() % (256 * gib)
	case 3:
		total = r.U64()
	case 4:
		total = uint64(r.Intn(1 << 20))
	case 5:
		total = (uint64(1) << 53) + uint64(r.Intn(5)) - 2
	case 6:
		total = uint64(r.Intn(1024)) * gib
	default:
		total = r.U64() % (uint64(1) << 45)
	}
	// threshold estimate, only to aim the free values at the boundary
	var th float64
	if ms > 0 {
		th = ms * float64(gib)
	} else if total <= 256*gib {
		th = float64(50*gib) * (float64(total) / float64(256*gib))
	} else {
		th = float64(50 * gib)
	}
	var frees []uint64
	if th >= 0 && th < 1.8e19 {
		t := uint64(th)
		for d := -2; d <= 2; d++ {
			v := t + uint64(d)
			if (d < 0 && t < uint64(-d)) || (d > 0 && v < t) {
				continue
			}
			frees = append(frees, v)
		}
	}
	frees = append(frees, 0, math.MaxUint64, r.U64(), r.U64()%(uint64(1)<<40))
	fs := make([]string, len(frees))
	for i, f := range frees {
		fs[i] = strconv.FormatUint(f, 10)
	}
	return fmt.Sprintf("total=%d ms=%016x frees=%s", total, math.Float64bits(ms), strings.Join(fs, ","))
}

func parseKV(in string) map[string]string {
	m := map[string]string{}
	for _, f := range strings.Fields(in) {
		if k, v, ok := strings.Cut(f, "="); ok {
			m[k] = v
		}
	}
	return m
}

func execDisk(in string) Result {
	kv := parseKV(in)
	total, _ := strconv.ParseUint(kv["total"], 10, 64)
	bits, _ := strconv.ParseUint(kv["ms"], 16, 64)
	ms := math.Float64frombits(bits)
	var obs []string
	nt, nf := 0, 0
	for _, s := range strings.Split(kv["frees"], ",") {
		f, _ := strconv.ParseUint(s, 10, 64)
		r := watchers.VerifCheckThreshold(total, f, ms)
		if r {
			nt++
		} else {
			nf++
		}
		obs = append(obs, fmt.Sprintf("(%s, %s)", coqZu(f), coqBool(r)))
	}
	var tags []string
	switch {
	case math.IsNaN(ms):
		tags = append(tags, "ms:nan")
	case math.IsInf(ms, 0):
		tags = append(tags, "ms:inf")
	case ms <= 0:
		tags = append(tags, "ms:default")
	case ms*float64(gib) >= 1.8446744073709552e19:
		tags = append(tags, "ms:out-of-domain")
	case ms == math.Trunc(ms):
		tags = append(tags, "ms:whole")
	default:
		tags = append(tags, "ms:fractional")
	}
	if total <= 256*gib {
		tags = append(tags, "total:<=256GiB")
	} else {
		tags = append(tags, "total:>256GiB")
	}
	return Result{
		Term:       fmt.Sprintf("DC %s %s %s", coqZu(total), coqFloat(ms), coqList(obs)),
		Tags:       tags,
		Nontrivial: nt > 0 && nf > 0,
	}
}

// ---- the real WatchDiskSpace loop ----

var watchDir string
var watchFree uint64

const watchInterval = 15 * time.Millisecond

func setupDiskWatch() {
	config.InitConfig()
	stats.Init()
	watchDir, _ = os.MkdirTemp("", "zv-diskwatch")
	var st syscall.Statfs_t
	syscall.Statfs(watchDir, &st)
	watchFree = st.Bavail * uint64(st.Bsize)
	config.Get().MinSpaceRequired = float64(watchFree) / float64(gib) / 4 // well below free: ok
	go watchers.WatchDiskSpace(watchDir, watchInterval)
	time.Sleep(4 * watchInterval)
	note(fmt.Sprintf("watch volume free=%d bytes", watchFree))
}

func genDiskWatch(r *Rng, i int, tier string) string {
	n := 4 + r.Intn(8)
	var b strings.Builder
	for j := 0; j < n; j++ {
		if r.Bool() {
			b.WriteByte('L')
		} else {
			b.WriteByte('K')
		}
	}
	return b.String()
}

func execDiskWatch(in string) Result {
	// bring the loop to the not-paused state first (every case starts from paused=false)
	config.Get().MinSpaceRequired = float64(watchFree) / float64(gib) / 4
	time.Sleep(4 * watchInterval)
	prev := pause.IsPaused()
	var obs, calls, paused []string
	np, nr := 0, 0
	if prev {
		note("watcher did not return to running before a case")
	}
	for _, c := range in {
		low := c == 'L'
		if low {
			config.Get().MinSpaceRequired = float64(watchFree)/float64(gib)*4 + 1
		} else {
			config.Get().MinSpaceRequired = float64(watchFree) / float64(gib) / 4
		}
		time.Sleep(4 * watchInterval)
		cur := pause.IsPaused()
		obs = append(obs, coqBool(low))
		paused = append(paused, coqBool(cur))
		switch {
		case cur && !prev:
			calls = append(calls, "WPause")
			np++
		case !cur && prev:
			calls = append(calls, "WResume")
			nr++
		default:
			calls = append(calls, "WNone")
		}
		prev = cur
	}
	return Result{
		Term:       fmt.Sprintf("WC %s %s %s", coqList(obs), coqList(calls), coqList(paused)),
		Tags:       []string{fmt.Sprintf("len:%d", len(in))},
		Nontrivial: np > 0 && nr > 0,
	}
}

// ---- driver "diskstat": which number CheckDiskUsage takes for "free space" --------------------
// The real CheckDiskUsage(path) is called on real volumes with an operator threshold placed well
// below the space available to the crawler (statfs f_bavail: "lo"), between f_bavail and f_bfree
// (the blocks reserved for root lie in between on ext4: "mid"), or well above f_bfree ("hi").
// The case is the `dcase` of driver "disk" with free = f_bavail * f_bsize as measured by the
// harness just before the call.  Input: "<path>|<lo|mid|hi>".

func execDiskStat(in string) Result {
	parts := strings.SplitN(in, "|", 2)
	if len(parts) != 2 {
		return Result{Term: "DC 0%Z (FFin false 0%Z 0%Z) []", Tags: []string{"bad-input"}}
	}
	path, pos := parts[0], parts[1]
	var st syscall.Statfs_t
	if err := syscall.Statfs(path, &st); err != nil {
		return Result{Term: "DC 0%Z (FFin false 0%Z 0%Z) []", Tags: []string{"statfs-failed:" + path}}
	}
	total := st.Blocks * uint64(st.Bsize)
	avail := st.Bavail * uint64(st.Bsize)
	free := st.Bfree * uint64(st.Bsize)
	margin := 4 * gib // other processes write to these volumes while we measure
	reserved := free > avail+3*margin
	var threshold uint64
	switch pos {
	case "lo":
		if avail < 2*margin {
			return Result{Term: "DC 0%Z (FFin false 0%Z 0%Z) []", Tags: []string{"volume-too-full:" + path}}
		}
		threshold = avail - margin
	case "mid":
		if !reserved {
			return Result{Term: "DC 0%Z (FFin false 0%Z 0%Z) []", Tags: []string{"no-reserved-blocks:" + path}}
		}
		threshold = avail + (free-avail)/2
	default:
		threshold = free + margin
	}
	ms := float64(threshold/gib) + 0.5 // whole GiB and a half: exactly representable
	old := config.Get().MinSpaceRequired
	config.Get().MinSpaceRequired = ms
	refused := watchers.CheckDiskUsage(path) != nil
	config.Get().MinSpaceRequired = old
	return Result{
		Term:       fmt.Sprintf("DC %s %s [(%s, %s)]", coqZu(total), coqFloat(ms), coqZu(avail), coqBool(refused)),
		Tags:       []string{"path:" + path, "pos:" + pos, fmt.Sprintf("reserved-blocks:%v", reserved)},
		Nontrivial: pos == "mid",
	}
}

func genDiskStat(r *Rng, i int, tier string) string {
	paths := []string{"/", "/tmp", "/verif", "/dev/shm", "/root"}
	return paths[(i/3)%len(paths)] + "|" + []string{"lo", "mid", "hi"}[i%3]
}

func init() {
	register(&Driver{
		Name:     "diskstat",
		Header:   "From ZenoV Require Import Lib.Harness Disk.Threshold Disk.DiskHarness.\nOpen Scope Z_scope.\n",
		CaseType: "dcase",
		Footer:   stdFooter,
		Rule:     "one case = the real CheckDiskUsage on a real volume with the operator threshold below / between / above the space available to the crawler and the space free including root's reserve; non-trivial when the threshold lies between the two (needs a volume with reserved blocks)",
		Setup:    func() { config.InitConfig() },
		Gen:      genDiskStat,
		Exec:     execDiskStat,
	})
}
