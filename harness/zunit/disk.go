//go:build verif

package main

import (
	"fmt"
	"math"
	"os"
	"os/exec"
	"path/filepath"
	"strconv"
	"strings"
	"sync"
	"syscall"
	"time"

	zcmd "github.com/internetarchive/Zeno/cmd"
	"github.com/internetarchive/Zeno/internal/pkg/config"
	"github.com/internetarchive/Zeno/internal/pkg/controler"
	"github.com/internetarchive/Zeno/internal/pkg/controler/pause"
	"github.com/internetarchive/Zeno/internal/pkg/controler/watchers"
	"github.com/internetarchive/Zeno/internal/pkg/stats"
)

const gib = uint64(1) << 30

func coqFloat(f float64) string {
	switch {
	case math.IsNaN(f):
		return "FNaN"
	case math.IsInf(f, 1):
		return "(FInf false)"
	case math.IsInf(f, -1):
		return "(FInf true)"
	}
	neg := math.Signbit(f)
	frac, exp := math.Frexp(math.Abs(f))
	m := int64(frac * (1 << 53)) // exact: frac has at most 53 significant bits
	e := exp - 53
	for m != 0 && m%2 == 0 { // keep the literals small
		m /= 2
		e++
	}
	return fmt.Sprintf("(FFin %s %s %s)", coqBool(neg), coqZ(m), coqZ(int64(e)))
}

func init() {
	register(&Driver{
		Name:     "disk",
		Header:   "From ZenoV Require Import Lib.Harness Disk.Threshold Disk.DiskHarness.\nOpen Scope Z_scope.\n",
		CaseType: "dcase",
		Footer:   stdFooter,
		Rule:     "one case = (total, operator value, list of free-space values) with free values placed at -2..+2 bytes around the threshold the formula gives, plus 0, max and random; distinct by input text; non-trivial when the answers for the free values are not all equal (the case straddles the decision boundary)",
		Gen:      genDisk,
		Exec:     execDisk,
	})
	register(&Driver{
		Name:     "diskwatch",
		Header:   "From ZenoV Require Import Lib.Harness Disk.Threshold Disk.DiskHarness.\n",
		CaseType: "wcase",
		Footer:   "\nDefinition DIFF := Eval vm_compute in wdiffs cases.\nPrint DIFF.\nDefinition MON := Eval vm_compute in wmons cases.\nPrint MON.\n",
		Rule:     "one case = a sequence of low/ok disk observations given to the real WatchDiskSpace loop (real statfs on the job volume; the operator threshold is moved across the volume's actual free space between ticks); non-trivial when the sequence contains both a pause and a resume edge",
		Setup:    setupDiskWatch,
		Gen:      genDiskWatch,
		Exec:     execDiskWatch,
		Teardown: func() { watchers.StopDiskWatcher() },
	})
}

func genDisk(r *Rng, i int, tier string) string {
	// operator value
	var ms float64
	switch r.Intn(14) {
	case 0, 1, 2:
		ms = 0 // default rule
	case 3:
		ms = -float64(r.Intn(100)) - 0.5
	case 4:
		ms = math.NaN()
	case 5:
		if r.Bool() {
			ms = math.Inf(1)
		} else {
			ms = math.Inf(-1)
		}
	case 6:
		ms = float64(1 + r.Intn(500)) // whole GiB
	case 7:
		ms = float64(r.Intn(100000)) / 1000.0 // decimal fraction: not dyadic
	case 8:
		ms = math.Ldexp(float64(1+r.Intn(1<<20)), -r.Intn(60)) // dyadic, possibly tiny
	case 9:
		ms = math.Float64frombits(r.U64()) // any bit pattern
	case 10:
		ms = math.Ldexp(1, 33) + float64(r.Intn(3)) - 1 // close below 2^34 GiB = 2^64 bytes
	case 11:
		ms = math.Ldexp(1, 34) * (1 + float64(r.Intn(3))) // beyond the defined domain
	case 12:
		ms = math.SmallestNonzeroFloat64 * float64(1+r.Intn(8))
	default:
		ms = math.Nextafter(float64(1+r.Intn(64)), float64(r.Intn(2)*1000)) // one ulp off an integer
	}
	// volume size
	var total uint64
	switch r.Intn(8) {
	case 0:
		total = 256*gib + uint64(r.Intn(5)) - 2
	case 1:
		total = uint64(1)<<uint(r.Intn(64)) + uint64(r.Intn(3)) - 1
	case 2:
		total = r.U64() % (256 * gib)
	case 3:
		total = r.U64()
	case 4:
		total = uint64(r.Intn(1 << 20))
	case 5:
		total = (uint64(1) << 53) + uint64(r.Intn(5)) - 2
	case 6:
		total = uint64(r.Intn(1024)) * gib
	default:
		total = r.U64() % (uint64(1) << 45)
	}
	// threshold estimate, only to aim the free values at the boundary
	var th float64
	if ms > 0 {
		th = ms * float64(gib)
	} else if total <= 256*gib {
		th = float64(50*gib) * (float64(total) / float64(256*gib))
	} else {
		th = float64(50 * gib)
	}
	var frees []uint64
	if th >= 0 && th < 1.8e19 {
		t := uint64(th)
		for d := -2; d <= 2; d++ {
			v := t + uint64(d)
			if (d < 0 && t < uint64(-d)) || (d > 0 && v < t) {
				continue
			}
			frees = append(frees, v)
		}
	}
	frees = append(frees, 0, math.MaxUint64, r.U64(), r.U64()%(uint64(1)<<40))
	fs := make([]string, len(frees))
	for i, f := range frees {
		fs[i] = strconv.FormatUint(f, 10)
	}
	return fmt.Sprintf("total=%d ms=%016x frees=%s", total, math.Float64bits(ms), strings.Join(fs, ","))
}

func parseKV(in string) map[string]string {
	m := map[string]string{}
	for _, f := range strings.Fields(in) {
		if k, v, ok := strings.Cut(f, "="); ok {
			m[k] = v
		}
	}
	return m
}

func execDisk(in string) Result {
	kv := parseKV(in)
	total, _ := strconv.ParseUint(kv["total"], 10, 64)
	bits, _ := strconv.ParseUint(kv["ms"], 16, 64)
	ms := math.Float64frombits(bits)
	var obs []string
	nt, nf := 0, 0
	for _, s := range strings.Split(kv["frees"], ",") {
		f, _ := strconv.ParseUint(s, 10, 64)
		r := watchers.VerifCheckThreshold(total, f, ms)
		if r {
			nt++
		} else {
			nf++
		}
		obs = append(obs, fmt.Sprintf("(%s, %s)", coqZu(f), coqBool(r)))
	}
	var tags []string
	switch {
	case math.IsNaN(ms):
		tags = append(tags, "ms:nan")
	case math.IsInf(ms, 0):
		tags = append(tags, "ms:inf")
	case ms <= 0:
		tags = append(tags, "ms:default")
	case ms*float64(gib) >= 1.8446744073709552e19:
		tags = append(tags, "ms:out-of-domain")
	case ms == math.Trunc(ms):
		tags = append(tags, "ms:whole")
	default:
		tags = append(tags, "ms:fractional")
	}
	if total <= 256*gib {
		tags = append(tags, "total:<=256GiB")
	} else {
		tags = append(tags, "total:>256GiB")
	}
	return Result{
		Term:       fmt.Sprintf("DC %s %s %s", coqZu(total), coqFloat(ms), coqList(obs)),
		Tags:       tags,
		Nontrivial: nt > 0 && nf > 0,
	}
}

// ---- the real WatchDiskSpace loop ----

var watchDir string
var watchFree uint64

const watchInterval = 15 * time.Millisecond

func setupDiskWatch() {
	config.InitConfig()
	stats.Init()
	watchDir, _ = os.MkdirTemp("", "zv-diskwatch")
	var st syscall.Statfs_t
	syscall.Statfs(watchDir, &st)
	watchFree = st.Bavail * uint64(st.Bsize)
	config.Get().MinSpaceRequired = float64(watchFree) / float64(gib) / 4 // well below free: ok
	go watchers.WatchDiskSpace(watchDir, watchInterval)
	time.Sleep(4 * watchInterval)
	note(fmt.Sprintf("watch volume free=%d bytes", watchFree))
}

func genDiskWatch(r *Rng, i int, tier string) string {
	n := 4 + r.Intn(8)
	var b strings.Builder
	for j := 0; j < n; j++ {
		if r.Bool() {
			b.WriteByte('L')
		} else {
			b.WriteByte('K')
		}
	}
	return b.String()
}

func execDiskWatch(in string) Result {
	// bring the loop to the not-paused state first (every case starts from paused=false)
	config.Get().MinSpaceRequired = float64(watchFree) / float64(gib) / 4
	time.Sleep(4 * watchInterval)
	prev := pause.IsPaused()
	var obs, calls, paused []string
	np, nr := 0, 0
	if prev {
		note("watcher did not return to running before a case")
	}
	for _, c := range in {
		low := c == 'L'
		if low {
			config.Get().MinSpaceRequired = float64(watchFree)/float64(gib)*4 + 1
		} else {
			config.Get().MinSpaceRequired = float64(watchFree) / float64(gib) / 4
		}
		time.Sleep(4 * watchInterval)
		cur := pause.IsPaused()
		obs = append(obs, coqBool(low))
		paused = append(paused, coqBool(cur))
		switch {
		case cur && !prev:
			calls = append(calls, "WPause")
			np++
		case !cur && prev:
			calls = append(calls, "WResume")
			nr++
		default:
			calls = append(calls, "WNone")
		}
		prev = cur
	}
	return Result{
		Term:       fmt.Sprintf("WC %s %s %s", coqList(obs), coqList(calls), coqList(paused)),
		Tags:       []string{fmt.Sprintf("len:%d", len(in))},
		Nontrivial: np > 0 && nr > 0,
	}
}

// ---- driver "diskstat": which number CheckDiskUsage takes for "free space" --------------------
// The real CheckDiskUsage(path) is called on real volumes with an operator threshold placed well
// below the space available to the crawler (statfs f_bavail: "lo"), between f_bavail and f_bfree
// (the blocks reserved for root lie in between on ext4: "mid"), or well above f_bfree ("hi").
// The case is the `dcase` of driver "disk" with free = f_bavail * f_bsize as measured by the
// harness just before the call.  Input: "<path>|<lo|mid|hi>".

func execDiskStat(in string) Result {
	parts := strings.SplitN(in, "|", 2)
	if len(parts) != 2 {
		return Result{Term: "DC 0%Z (FFin false 0%Z 0%Z) []", Tags: []string{"bad-input"}}
	}
	path, pos := parts[0], parts[1]
	var st syscall.Statfs_t
	if err := syscall.Statfs(path, &st); err != nil {
		return Result{Term: "DC 0%Z (FFin false 0%Z 0%Z) []", Tags: []string{"statfs-failed:" + path}}
	}
	total := st.Blocks * uint64(st.Bsize)
	avail := st.Bavail * uint64(st.Bsize)
	free := st.Bfree * uint64(st.Bsize)
	margin := 4 * gib // other processes write to these volumes while we measure
	reserved := free > avail+3*margin
	var threshold uint64
	switch pos {
	case "lo":
		if avail < 2*margin {
			return Result{Term: "DC 0%Z (FFin false 0%Z 0%Z) []", Tags: []string{"volume-too-full:" + path}}
		}
		threshold = avail - margin
	case "mid":
		if !reserved {
			return Result{Term: "DC 0%Z (FFin false 0%Z 0%Z) []", Tags: []string{"no-reserved-blocks:" + path}}
		}
		threshold = avail + (free-avail)/2
	default:
		threshold = free + margin
	}
	ms := float64(threshold/gib) + 0.5 // whole GiB and a half: exactly representable
	old := config.Get().MinSpaceRequired
	config.Get().MinSpaceRequired = ms
	refused := watchers.CheckDiskUsage(path) != nil
	config.Get().MinSpaceRequired = old
	return Result{
		Term:       fmt.Sprintf("DC %s %s [(%s, %s)]", coqZu(total), coqFloat(ms), coqZu(avail), coqBool(refused)),
		Tags:       []string{"path:" + path, "pos:" + pos, fmt.Sprintf("reserved-blocks:%v", reserved)},
		Nontrivial: pos == "mid",
	}
}

func genDiskStat(r *Rng, i int, tier string) string {
	paths := []string{"/", "/tmp", "/verif", "/dev/shm", "/root"}
	return paths[(i/3)%len(paths)] + "|" + []string{"lo", "mid", "hi"}[i%3]
}

func init() {
	register(&Driver{
		Name:     "diskstat",
		Header:   "From ZenoV Require Import Lib.Harness Disk.Threshold Disk.DiskHarness.\nOpen Scope Z_scope.\n",
		CaseType: "dcase",
		Footer:   stdFooter,
		Rule:     "one case = the real CheckDiskUsage on a real volume with the operator threshold below / between / above the space available to the crawler and the space free including root's reserve; non-trivial when the threshold lies between the two (needs a volume with reserved blocks)",
		Setup:    func() { config.InitConfig() },
		Gen:      genDiskStat,
		Exec:     execDiskStat,
	})
}

// ---- driver "diskstart": WHICH VOLUME the start-up check looks at ------------------------------
// One case = one real controler.Start() in a child process (`zunit diskstartchild`) whose working
// directory lies on one filesystem and whose job directory (jobs/<job>, reached through a `jobs`
// symlink, the way an operator puts jobs/ on a data disk) lies on ANOTHER one, with
// --min-space-required placed between the free space of the two volumes ("mid": the volumes are on
// opposite sides of the threshold), below both ("lo"), above both ("hi"), or left to the default
// rule ("default").  Observed: statfs (f_blocks, f_bavail) of the JOB volume taken by the child
// right before the start, and whether the crawler started or refused (`can't start Zeno: ...` +
// exit status 1).  Input: "job=<dir> cwd=<dir> pos=<mid|lo|hi|default> u=<0..999>" (u places the
// threshold inside the admissible interval).
//
// Free space moves while the test runs (other builds write to the same volumes): the threshold is
// kept at least 64 MiB away from both volumes' free space, pairs closer than 256 MiB are not used,
// and a case in which the job volume's free space came within 16 MiB of the threshold at any of the
// three measurements (parent before, child before the start, after the decision) is reported as
// not run.  Fewer than two filesystems with different free space: the "mid" cases are trivial
// (tag trivial:...), the term is the neutral SNotRun.

const (
	mib               = uint64(1) << 20
	startMargin       = 64 * mib  // distance of the threshold from either volume's free space
	startMinGap       = 256 * mib // pairs whose free space is closer than this are not used
	startSlack        = 16 * mib  // a measurement closer than this to the threshold voids the case
	startNeutral      = "SC 0%Z 0%Z (FFin false 0%Z 0%Z) SNotRun"
	startChildTimeout = 60 * time.Second
)

type startVol struct {
	dir string
	dev uint64
}

var (
	startVolsOnce sync.Once
	startVols     []startVol
)

var startNoteMu sync.Mutex

// startNote: note() from cases that run concurrently
func startNote(s string) {
	startNoteMu.Lock()
	defer startNoteMu.Unlock()
	note(s)
}

func devOf(dir string) (uint64, bool) {
	var st syscall.Stat_t
	if err := syscall.Stat(dir, &st); err != nil {
		return 0, false
	}
	return uint64(st.Dev), true
}

func availOf(dir string) (total, avail uint64, ok bool) {
	var st syscall.Statfs_t
	if err := syscall.Statfs(dir, &st); err != nil {
		return 0, 0, false
	}
	return st.Blocks * uint64(st.Bsize), st.Bavail * uint64(st.Bsize), true
}

// discoverStartVols: writable directories on distinct filesystems (one per device id), in a fixed order.
// ZV_DISKSTART_DIRS (colon-separated) replaces the candidate list.
func discoverStartVols() []startVol {
	startVolsOnce.Do(func() {
		cands := []string{os.TempDir(), "/dev/shm", "/run", "/var/tmp", os.Getenv("HOME"), os.Getenv("VERIF_BUILD"), "/run/user/" + strconv.Itoa(os.Getuid()), "/mnt", "/data"}
		if e := os.Getenv("ZV_DISKSTART_DIRS"); e != "" {
			cands = strings.Split(e, ":")
		}
		seen := map[uint64]bool{}
		for _, d := range cands {
			if d == "" || strings.ContainsAny(d, " \t") {
				continue
			}
			dev, ok := devOf(d)
			if !ok || seen[dev] {
				continue
			}
			probe, err := os.MkdirTemp(d, "zv-diskstart-probe")
			if err != nil {
				continue // not writable
			}
			os.Remove(probe)
			seen[dev] = true
			startVols = append(startVols, startVol{d, dev})
		}
	})
	return startVols
}

func genDiskStart(r *Rng, i int, tier string) string {
	vols := discoverStartVols()
	var pairs [][2]string
	for _, a := range vols {
		for _, b := range vols {
			if a.dev != b.dev {
				pairs = append(pairs, [2]string{a.dir, b.dir})
			}
		}
	}
	if len(pairs) == 0 { // one filesystem only: job and cwd on the same volume
		d := os.TempDir()
		if len(vols) > 0 {
			d = vols[0].dir
		}
		pairs = append(pairs, [2]string{d, d})
	}
	// the straddling position first, for every ordered pair; then above both, below both, default rule
	pos := []string{"mid", "hi", "lo", "mid", "default"}[(i/len(pairs))%5]
	p := pairs[i%len(pairs)]
	return fmt.Sprintf("job=%s cwd=%s pos=%s u=%d", p[0], p[1], pos, r.Intn(1000))
}

func execDiskStart(in string) Result {
	kv := parseKV(in)
	jobBase, cwdBase, pos := kv["job"], kv["cwd"], kv["pos"]
	u, _ := strconv.ParseUint(kv["u"], 10, 64)
	u %= 1000
	neutral := func(tag string) Result {
		return Result{Term: startNeutral, Tags: []string{tag, "pos:" + pos}}
	}
	jdev, ok1 := devOf(jobBase)
	cdev, ok2 := devOf(cwdBase)
	if !ok1 || !ok2 {
		return neutral("trivial:no-such-directory")
	}
	sameFS := jdev == cdev
	_, jfree, ok1 := availOf(jobBase)
	_, cfree, ok2 := availOf(cwdBase)
	if !ok1 || !ok2 {
		return neutral("trivial:statfs-failed")
	}
	lo, hi := jfree, cfree
	if lo > hi {
		lo, hi = hi, lo
	}
	// the operator value, in bytes (a multiple of 1 KiB below 2^53: bytes/2^30 and back are exact in binary64)
	var thr uint64
	switch pos {
	case "mid":
		if sameFS {
			return neutral("trivial:one-filesystem")
		}
		if hi-lo < startMinGap {
			return neutral("trivial:same-free-space")
		}
		m := (hi - lo) / 8
		if m < startMargin {
			m = startMargin
		}
		thr = lo + m + (hi-lo-2*m)*u/999
	case "lo":
		if lo < 4*startMargin {
			return neutral("trivial:volume-too-full")
		}
		thr = lo - startMargin - (lo-2*startMargin)/2*u/999
	case "hi":
		thr = hi + startMargin + 8*gib*u/999
	case "default":
		thr = 0
	default:
		return neutral("bad-input")
	}
	thr &^= 1023
	if thr%gib == 0 && pos != "default" {
		thr += 1024 // a FRACTIONAL number of GiB, as an operator may well give (0.5, 62.25)
	}
	if pos != "default" && thr == 0 {
		return neutral("trivial:volume-too-full")
	}
	ms := float64(thr) / float64(gib)

	// layout: <cwdBase>/zv-dstart-XXXX/        working directory of the crawler
	//         <cwdBase>/zv-dstart-XXXX/jobs -> <jobBase>/zv-dstart-jobs-XXXX   (the data disk)
	cwd, err := os.MkdirTemp(cwdBase, "zv-dstart-")
	if err != nil {
		return neutral("trivial:not-writable")
	}
	defer os.RemoveAll(cwd)
	jobsDir, err := os.MkdirTemp(jobBase, "zv-dstart-jobs-")
	if err != nil {
		return neutral("trivial:not-writable")
	}
	defer os.RemoveAll(jobsDir)
	if err := os.Symlink(jobsDir, filepath.Join(cwd, "jobs")); err != nil {
		return neutral("trivial:no-symlink")
	}
	scratch, err := os.MkdirTemp("", "zv-dstart-out-")
	if err != nil {
		return neutral("trivial:not-writable")
	}
	defer os.RemoveAll(scratch)
	marker := filepath.Join(scratch, "marker")

	self, err := os.Executable() // absolute: the child's working directory is not ours
	if err != nil {
		self, _ = filepath.Abs(os.Args[0])
	}
	msText := "-" // flag absent
	if pos != "default" {
		msText = strconv.FormatFloat(ms, 'g', -1, 64) // shortest text that parses back to exactly ms
	}
	cmd := exec.Command(self, "diskstartchild", cwd, "j", msText, marker, jobsDir)
	cmd.Dir = cwd
	cmd.Env = append(os.Environ(), "HOME="+scratch) // no stray ~/zeno-config.yaml
	var out strings.Builder
	cmd.Stdout, cmd.Stderr = &out, &out
	if err := cmd.Start(); err != nil {
		startNote("diskstart: cannot start the child: " + err.Error())
		return neutral("child-error:spawn")
	}
	done := make(chan error, 1)
	go func() { done <- cmd.Wait() }()
	timedOut := false
	select {
	case <-done:
	case <-time.After(startChildTimeout):
		cmd.Process.Kill()
		<-done
		timedOut = true
	}
	_, freeAfter, _ := availOf(jobsDir)
	code := cmd.ProcessState.ExitCode()

	// marker lines: "pre <total> <avail>", "started <total> <avail>", "stopped"
	var total, free uint64
	havePre, started, stopped := false, false, false
	frees := []uint64{jfree, freeAfter}
	raw, _ := os.ReadFile(marker)
	for _, l := range strings.Split(string(raw), "\n") {
		f := strings.Fields(l)
		switch {
		case len(f) == 3 && f[0] == "pre":
			total, _ = strconv.ParseUint(f[1], 10, 64)
			free, _ = strconv.ParseUint(f[2], 10, 64)
			havePre = true
			frees = append(frees, free)
		case len(f) == 3 && f[0] == "started":
			started = true
			a, _ := strconv.ParseUint(f[2], 10, 64)
			frees = append(frees, a)
		case len(f) >= 1 && f[0] == "stopped":
			stopped = true
		}
	}
	tail := strings.ReplaceAll(out.String(), "\n", " / ")
	if len(tail) > 400 {
		tail = tail[len(tail)-400:]
	}
	refusedMsg := strings.Contains(out.String(), "can't start Zeno:")
	var outcome string
	switch {
	case !havePre:
		startNote(fmt.Sprintf("diskstart: child did not reach the start (exit %d, timeout %v) on %s: %s", code, timedOut, in, tail))
		return neutral("child-error:before-start")
	case started:
		outcome = "SStarted"
	case !timedOut && code == 1 && refusedMsg:
		outcome = "SRefused"
	default:
		// neither started nor the documented refusal: not this property's business, but say so
		startNote(fmt.Sprintf("diskstart: child neither started nor refused (exit %d, timeout %v) on %s: %s", code, timedOut, in, tail))
		return neutral("child-error:no-outcome")
	}
	tags := []string{"pos:" + pos, "outcome:" + strings.ToLower(outcome[1:])}
	if sameFS {
		tags = append(tags, "volumes:same")
	} else {
		tags = append(tags, "volumes:different")
		if jfree < cfree {
			tags = append(tags, "job-volume:less-free")
		} else {
			tags = append(tags, "job-volume:more-free")
		}
	}
	if started && !stopped {
		tags = append(tags, "stop-did-not-return")
		startNote("diskstart: controler.Stop() did not return in the child on " + in)
	}
	// stability: the decision boundary must be clear of every measurement of the job volume
	boundary := thr
	if pos == "default" {
		if total <= 256*gib {
			boundary = uint64(float64(50*gib) * (float64(total) / float64(256*gib)))
		} else {
			boundary = 50 * gib
		}
	}
	slack := startSlack
	if pos == "default" {
		slack = startMinGap
	}
	for _, f := range frees {
		d := f - boundary
		if f < boundary {
			d = boundary - f
		}
		if d < slack {
			return Result{Term: startNeutral, Tags: append(tags, "trivial:free-space-moved-to-threshold")}
		}
	}
	return Result{
		Term:       fmt.Sprintf("SC %s %s %s %s", coqZu(total), coqZu(free), coqFloat(ms), outcome),
		Tags:       tags,
		Nontrivial: pos == "mid",
	}
}

// diskstartchild <cwd> <job> <--min-space-required text, "-" = flag absent> <marker file> <job volume dir>:
// the configuration comes from the REAL command line path (cmd.Run(): cobra flags -> viper -> config.InitConfig ->
// GenerateCrawlConfig; JobPath = jobs/<job>, relative to the working directory), then the real controler.Start()
// and, when it returns, controler.Stop().
func runDiskStartChild(a []string) {
	cwd, job, msText, marker, jobVol := a[0], a[1], a[2], a[3], a[4]
	must(os.Chdir(cwd))
	mf, err := os.OpenFile(marker, os.O_CREATE|os.O_WRONLY|os.O_APPEND, 0o644)
	must(err)
	// the operator's command line; everything not given keeps the CLI's defaults
	argv := []string{"get", "url", "--job", job, "--no-stdout-log", "--no-stderr-log", "--no-log-file",
		"--disable-seencheck", "--disable-local-dedupe", "--disable-rate-limit"}
	if msText != "-" {
		argv = append(argv, "--min-space-required", msText)
	}
	argv = append(argv, "http://127.0.0.1:9/")
	err = zcmd.VerifRun(argv, func(args []string) error {
		// what `get url` does (cmd/get_url.go), minus the seeds (nothing is to be fetched) and with the markers
		if err := config.GenerateCrawlConfig(); err != nil {
			return err
		}
		diskStartRun(mf, jobVol)
		return nil
	})
	fmt.Println("command line not accepted:", err)
	os.Exit(6)
}

func diskStartRun(mf *os.File, jobVol string) {
	total, avail, ok := availOf(jobVol)
	if !ok {
		fmt.Println("statfs of the job volume failed")
		os.Exit(5)
	}
	fmt.Fprintf(mf, "pre %d %d\n", total, avail) // unbuffered: there before the refusal exits the process
	started := make(chan struct{})
	go func() { controler.Start(); close(started) }()
	select {
	case <-started:
	case <-time.After(startChildTimeout / 2):
		fmt.Println("controler.Start() did not return")
		os.Exit(4)
	}
	total, avail, _ = availOf(jobVol)
	fmt.Fprintf(mf, "started %d %d\n", total, avail)
	stopped := make(chan struct{})
	go func() { controler.Stop(); close(stopped) }()
	select {
	case <-stopped:
		fmt.Fprintf(mf, "stopped\n")
	case <-time.After(startChildTimeout / 3):
		fmt.Println("controler.Stop() did not return")
	}
	os.Exit(0)
}

func init() {
	subcommands["diskstartchild"] = runDiskStartChild
	register(&Driver{
		Name:           "diskstart",
		Header:         "From ZenoV Require Import Lib.Harness Disk.Threshold Disk.DiskHarness.\nOpen Scope Z_scope.\n",
		CaseType:       "scase",
		Footer:         "\nDefinition DIFF := Eval vm_compute in sdiffs cases.\nPrint DIFF.\nDefinition MON := Eval vm_compute in smons cases.\nPrint MON.\n",
		Rule:           "one case = one real controler.Start() in a child process with the job directory (jobs/ symlinked) and the working directory on DIFFERENT filesystems and --min-space-required between / below / above the two volumes' free space or unset; non-trivial when the threshold lies between the two (the volumes are on opposite sides of it): needs two writable filesystems whose free space differs by 256 MiB or more, otherwise those cases are tagged trivial:* and claim nothing",
		Gen:            genDiskStart,
		Exec:           execDiskStart,
		Parallel:       3,
		CaseTimeoutSec: 150,
	})
}
