//go:build verif

package main

import (
	"bytes"
	"fmt"
	"io"
	"net/http"
	"sort"
	"strconv"
	"strings"

	"github.com/google/uuid"
	"github.com/internetarchive/Zeno/internal/pkg/archiver"
	"github.com/internetarchive/Zeno/internal/pkg/config"
	"github.com/internetarchive/Zeno/internal/pkg/postprocessor"
	"github.com/internetarchive/Zeno/internal/pkg/postprocessor/domainscrawl"
	"github.com/internetarchive/Zeno/pkg/models"
)

// Driver "hops" (C06): the real postprocessItem on a synthetic archived page (status, hops,
// --max-hops, --domains-crawl on/off with a host pattern, anchors to matching and non-matching
// hosts, images, a Location header on redirects): the queued outlinks (text, via, hops) and the
// children (assets / redirect target with their hops and redirect counters) are compared with
// Stage/Outlinks.v.
//
// Input: "hops=<h> maxhops=<m> dc=<0|1> status=<code> redirs=<r> mr=<max-redirect> links=<k1,k2,...>"
//   link kinds: m = anchor to a host matching the domains-crawl pattern, n = anchor to another host, i = image,
//   L / M = URL only in the Link response header (other / matching host), t = URL only in the running text

func execHops(input string) Result {
	kv := parseKV(input)
	atoi := func(k string) int { n, _ := strconv.Atoi(kv[k]); return n }
	hops, maxhops, status, redirs, mr := atoi("hops"), atoi("maxhops"), atoi("status"), atoi("redirs"), atoi("mr")
	dc := kv["dc"] == "1"
	doc := kv["doc"] // "" / "html" = an HTML page; "json" / "xml" = a structured document whose extension-less URLs are
	// outlinks found among the assets (extractAssets' second result) and whose URLs with a file extension are assets
	c := config.Get()
	c.MaxHops, c.MaxRedirect, c.DisableAssetsCapture = maxhops, mr, false
	domainscrawl.Reset()
	if dc {
		domainscrawl.AddElements([]string{"match.example"})
	}
	var b strings.Builder
	b.WriteString("<!DOCTYPE html><html><head><title>t</title></head><body>\n")
	var want []string // (url, matches?) in document order, anchors only
	var kinds, linkHeader []string
	if kv["links"] != "" {
		kinds = strings.Split(kv["links"], ",")
	}
	for i, k := range kinds {
		switch k {
		case "m":
			u := fmt.Sprintf("http://match.example/p%d", i)
			fmt.Fprintf(&b, "<a href=\"%s\">x</a>\n", u)
			want = append(want, u+"|1")
		case "n":
			u := fmt.Sprintf("http://other.example/p%d", i)
			fmt.Fprintf(&b, "<a href=\"%s\">x</a>\n", u)
			want = append(want, u+"|0")
		case "x": // a host that merely ENDS with the pattern's characters (no label boundary): not a match
			u := fmt.Sprintf("http://notmatch.example/p%d", i)
			fmt.Fprintf(&b, "<a href=\"%s\">x</a>\n", u)
			want = append(want, u+"|0")
		case "s": // a sub-domain of the pattern: a match
			u := fmt.Sprintf("http://www.match.example/p%d", i)
			fmt.Fprintf(&b, "<a href=\"%s\">x</a>\n", u)
			want = append(want, u+"|1")
		case "i":
			fmt.Fprintf(&b, "<img src=\"/img%d.png\">\n", i)
		case "L": // only in the Link response header
			u := fmt.Sprintf("http://other.example/lh%d", i)
			linkHeader = append(linkHeader, fmt.Sprintf("<%s>; rel=\"next\"", u))
			want = append(want, u+"|0")
		case "M":
			u := fmt.Sprintf("http://match.example/lh%d", i)
			linkHeader = append(linkHeader, fmt.Sprintf("<%s>; rel=\"next\"", u))
			want = append(want, u+"|1")
		case "t": // only in the running text (the aggressive text/* link extraction)
			u := fmt.Sprintf("http://other.example/txt%d", i)
			fmt.Fprintf(&b, "<p>see %s for more</p>\n", u)
			want = append(want, u+"|0")
		}
	}
	b.WriteString("</body></html>\n")
	ctype := "text/html; charset=utf-8"
	pageURL := "http://page.example/index.html"
	if doc == "json" || doc == "xml" {
		// the same planted URLs, as string values / text nodes; L, M (Link header) stay in the header; t = a string value too
		want, linkHeader = nil, nil
		var vals []string
		for i, k := range kinds {
			switch k {
			case "m", "M":
				vals = append(vals, fmt.Sprintf("http://match.example/p%d", i))
				want = append(want, vals[len(vals)-1]+"|1")
			case "n", "L", "t":
				vals = append(vals, fmt.Sprintf("http://other.example/p%d", i))
				want = append(want, vals[len(vals)-1]+"|0")
			case "x":
				vals = append(vals, fmt.Sprintf("http://notmatch.example/p%d", i))
				want = append(want, vals[len(vals)-1]+"|0")
			case "s":
				vals = append(vals, fmt.Sprintf("http://www.match.example/p%d", i))
				want = append(want, vals[len(vals)-1]+"|1")
			case "i":
				vals = append(vals, fmt.Sprintf("http://page.example/img%d.png", i))
			}
		}
		b.Reset()
		if doc == "json" {
			ctype, pageURL = "application/json", "http://page.example/api/list"
			b.WriteString("{\"items\":[")
			for i, v := range vals {
				if i > 0 {
					b.WriteString(",")
				}
				fmt.Fprintf(&b, "{\"u\":%q}", v)
			}
			b.WriteString("]}")
		} else {
			ctype, pageURL = "application/xml", "http://page.example/api/feed"
			b.WriteString("<?xml version=\"1.0\"?><feed>")
			for _, v := range vals {
				fmt.Fprintf(&b, "<entry><link>%s</link></entry>", v)
			}
			b.WriteString("</feed>")
		}
	}
	u := &models.URL{Raw: pageURL, Hops: hops, Redirects: redirs}
	if err := u.Parse(); err != nil {
		panic(err)
	}
	it := models.NewItem(uuid.New().String(), u, "")
	if kv["under"] == "1" {
		// the page is not the seed itself but the target of the seed's redirect: via must still be the PAGE's URL
		su := &models.URL{Raw: "http://seed.example/start", Hops: hops}
		if err := su.Parse(); err != nil {
			panic(err)
		}
		seedItem := models.NewItem(uuid.New().String(), su, "")
		if err := seedItem.AddChild(it, models.ItemGotRedirected); err != nil {
			panic(err)
		}
	}
	resp := &http.Response{StatusCode: status, Header: http.Header{}, Body: io.NopCloser(bytes.NewReader([]byte(b.String())))}
	resp.Header.Set("Content-Type", ctype)
	if status >= 300 && status < 400 {
		resp.Header.Set("Location", "http://page.example/moved")
	}
	if len(linkHeader) > 0 {
		resp.Header.Set("Link", strings.Join(linkHeader, ", "))
	}
	u.SetResponse(resp)
	if err := archiver.ProcessBody(u, false, dc, maxhops, c.WARCTempDir); err != nil {
		return Result{Term: "HC (OCfg 0 false) 0 0 0 0 [] [] [] 9", Tags: []string{"processbody-failed"}}
	}
	it.SetStatus(models.ItemArchived)
	out := postprocessor.VerifPostprocessItem(it)
	// observed outlinks: keep those that point at our two hosts (the aggressive text regex also returns them:
	// duplicates of the anchors, with the same hops) - as a sorted set of "url|hops"
	seen := map[string]bool{}
	var got []string
	viaOK := true
	for _, o := range out {
		raw := o.GetURL().Raw
		if !strings.HasPrefix(raw, "http://match.example/") && !strings.HasPrefix(raw, "http://other.example/") &&
			!strings.HasPrefix(raw, "http://notmatch.example/") && !strings.HasPrefix(raw, "http://www.match.example/") {
			continue
		}
		k := fmt.Sprintf("%s|%d", raw, o.GetURL().GetHops())
		if !seen[k] {
			seen[k] = true
			got = append(got, k)
		}
		if o.GetSeedVia() != pageURL {
			viaOK = false
		}
	}
	sort.Strings(got)
	in := map[string]int{}
	intern := func(s string) int {
		if v, ok := in[s]; ok {
			return v
		}
		in[s] = len(in)
		return in[s]
	}
	var links, obs, kids []string
	for _, w := range want {
		p := strings.Split(w, "|")
		links = append(links, fmt.Sprintf("(%d, %s)", intern(p[0]), coqBool(p[1] == "1")))
	}
	for _, g := range got {
		p := strings.Split(g, "|")
		obs = append(obs, fmt.Sprintf("(%d, %s)", intern(p[0]), p[1]))
	}
	for _, ch := range it.GetChildren() {
		kids = append(kids, fmt.Sprintf("(%d, %d)", ch.GetURL().GetHops(), ch.GetURL().GetRedirects()))
	}
	via := 0
	if !viaOK {
		via = 1
	}
	term := fmt.Sprintf("HC (OCfg %d %s) %d %d %d %d %s %s %s %d", maxhops, coqBool(dc), hops, status, redirs, mr, coqList(links), coqList(obs), coqList(kids), via)
	if doc == "" {
		doc = "html"
	}
	return Result{Term: term, Tags: []string{"doc:" + doc, "under-redirect:" + kv["under"], fmt.Sprintf("dc:%v", dc), fmt.Sprintf("hops-vs-max:%d", cmpInt(hops, maxhops)), fmt.Sprintf("status:%d", status), fmt.Sprintf("links:%d", len(kinds))},
		Nontrivial: len(want) > 0}
}

func cmpInt(a, b int) int {
	switch {
	case a < b:
		return -1
	case a > b:
		return 1
	}
	return 0
}

func genHops(r *Rng, i int, tier string) string {
	maxhops := r.Intn(4)
	hops := maxhops - 1 + r.Intn(3)
	if hops < 0 {
		hops = 0
	}
	status := []int{200, 200, 200, 200, 301, 302, 404, 500, 204}[r.Intn(9)]
	n := r.Intn(7)
	var ks []string
	for j := 0; j < n; j++ {
		ks = append(ks, []string{"m", "n", "n", "i", "L", "M", "t", "x", "s"}[r.Intn(9)])
	}
	mr := r.Intn(4)
	s := fmt.Sprintf("hops=%d maxhops=%d dc=%d status=%d redirs=%d mr=%d links=%s", hops, maxhops, r.Intn(2), status, r.Intn(mr+2), mr, strings.Join(ks, ","))
	if r.Chance(30) {
		s += " under=1"
	}
	if x := r.Intn(10); x < 2 {
		s += " doc=json"
	} else if x < 4 {
		s += " doc=xml"
	}
	return s
}

func init() {
	register(&Driver{
		Name:     "hops",
		Header:   "From ZenoV Require Import Lib.Harness Stage.Outlinks Stage.OutlinksHarness.\nOpen Scope N_scope.\n",
		CaseType: "hcase",
		Footer:   stdFooter,
		Rule:     "non-trivial: the page has at least one anchor; distinct by input line",
		Setup: func() {
			if ph == nil { // the pass driver's setup initialises config, stats and the seen-store
				setupPass()
			}
		},
		Gen:  genHops,
		Exec: execHops,
	})
}
