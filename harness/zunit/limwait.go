//go:build verif

package main

import (
	"fmt"
	"strconv"
	"strings"
	"time"

	"github.com/internetarchive/Zeno/internal/pkg/archiver/ratelimiter"
)

// Driver "limwait" (C03): the rate limiter's share of "a stop request returns within bounded time".
// archiver.Stop() waits for the workers, and a worker inside archive() first waits for its host's token in the
// limiter's Wait() - a polling loop that does not watch the context.  One case = one REAL tokenBucket
// (newTokenBucket, adjustOnFailure, onSuccess, Wait; shim harness/shims/ratelimiter_shim.go) under an injected
// clock: a history of the host's answers (failure statuses, successes) and single polls, then n goroutines'
// Wait() at one later instant, each allowed exactly one reading of the clock (= one iteration of Wait()'s loop).
// Observed: which polls of the history and how many of the n final Waits returned.  The monitor is theorem
// C03_limiter_wait_bounded: when the final instant lies 30 s (longest penalty) + n tokens' worth of time at the
// floor rate min(1/2, rate) after the last operation, all n are granted - whatever the history was.
//
// Input: cap=<int> rate=<num>/<den> n=<waiters> lead=<ns from the last operation to the final polls>
//        ops=<op>;<op>...  with op = F<status>:<ms before> | S:<ms before> | W:<ms before>

const limClockBase = int64(1000000000) * 1000000000 // 2001: keeps every instant inside the UnixNano range

type limEscape struct{}

func limRate(s string) (num, den int64) {
	a, b, ok := strings.Cut(s, "/")
	num, _ = strconv.ParseInt(a, 10, 64)
	den = 1
	if ok {
		den, _ = strconv.ParseInt(b, 10, 64)
	}
	if den <= 0 {
		den = 1
	}
	return
}

// limCoverNs: the smallest whole number of ns after which n tokens have accrued at the floor rate min(1/2, num/den)
func limCoverNs(n, num, den int64) int64 {
	fn, fd := num, den // floor = min(1/2, num/den)
	if 2*num >= den {
		fn, fd = 1, 2
	}
	if fn <= 0 {
		return 1 << 50
	}
	x := n * fd * 1000000000
	return (x + fn - 1) / fn
}

func execLimwait(in string) Result {
	kv := parseKV(in)
	capv, _ := strconv.ParseInt(kv["cap"], 10, 64)
	num, den := limRate(kv["rate"])
	n, _ := strconv.ParseInt(kv["n"], 10, 64)
	lead, _ := strconv.ParseInt(kv["lead"], 10, 64)
	if n < 0 {
		n = 0
	}
	if n > 8 {
		n = 8
	}
	clock := limClockBase
	reads, allowed := 0, 0
	now := func() time.Time {
		reads++
		if reads > allowed {
			panic(limEscape{})
		}
		return time.Unix(0, clock)
	}
	vb := ratelimiter.VerifNewBucket(float64(capv), float64(num)/float64(den), time.Unix(0, clock), now)
	// one call of the real Wait() with one reading of the clock: granted = it returned; refused = its second poll
	// asked for the clock again (50 ms of real time later) and was thrown out of nowFunc, which runs under tb.mu
	poll := func() (ok bool) {
		defer func() {
			if r := recover(); r != nil {
				if _, mine := r.(limEscape); !mine {
					panic(r)
				}
				vb.ResetLock()
				ok = false
			}
		}()
		allowed = reads + 1
		vb.Wait()
		return true
	}
	var ops, obs []string
	fails5, failsT, succ, maxStreak, streak := 0, 0, 0, 0, 0
	for _, op := range strings.Split(kv["ops"], ";") {
		if op == "" {
			continue
		}
		name, arg, _ := strings.Cut(op, ":")
		ms, _ := strconv.ParseInt(arg, 10, 64)
		if ms < 0 {
			ms = 0
		}
		clock += ms * 1000000
		switch {
		case name == "W":
			obs = append(obs, coqBool(poll()))
			ops = append(ops, fmt.Sprintf("(%d, -1)", clock))
		case name == "S":
			allowed = reads + 1
			vb.Succ()
			succ++
			streak = 0
			ops = append(ops, fmt.Sprintf("(%d, 0)", clock))
		case strings.HasPrefix(name, "F"):
			st, _ := strconv.Atoi(name[1:])
			if st <= 0 {
				st = 503
			}
			allowed = reads + 1
			vb.Fail(st)
			if st >= 500 {
				fails5++
				streak++
				if streak > maxStreak {
					maxStreak = streak
				}
			} else {
				failsT++
			}
			ops = append(ops, fmt.Sprintf("(%d, %d)", clock, st))
		}
	}
	T := clock
	clock = T + lead
	granted := 0
	for i := int64(0); i < n; i++ {
		if poll() {
			granted++
		}
	}
	covered := lead >= 30000000000+limCoverNs(n, num, den) && n <= capv
	term := fmt.Sprintf("LC (%d # 1) (%d # %d) %d %s %s %d %d %d %d", capv, num, den, limClockBase, coqList(ops), coqList(obs), n, T, clock, granted)
	tags := []string{fmt.Sprintf("covered:%v", covered), fmt.Sprintf("n:%d", n), fmt.Sprintf("rate:%d/%d", num, den), fmt.Sprintf("cap:%d", capv),
		fmt.Sprintf("5xx-streak:%d", bucket(maxStreak)), fmt.Sprintf("throttled:%d", bucket(failsT)), fmt.Sprintf("successes:%d", bucket(succ)),
		fmt.Sprintf("all-granted:%v", int64(granted) == n)}
	if covered && int64(granted) != n {
		note(fmt.Sprintf("limwait case [%s]: %d of %d waiting goroutines still without a token %d ms after the host's last answer", in, n-int64(granted), n, lead/1000000))
	}
	return Result{Term: term, Tags: tags, Nontrivial: covered && n >= 1 && fails5+failsT >= 1}
}

var limRates = []string{"50/1", "50/1", "50/1", "1/1", "1/2", "2/1", "8/1", "1/4", "3/4", "16/1", "1/8"}
var limCaps = []int{150, 150, 1, 2, 3, 10}

func genLimwait(r *Rng, i int, tier string) string {
	capv := limCaps[r.Intn(len(limCaps))]
	rate := limRates[r.Intn(len(limRates))]
	num, den := limRate(rate)
	n := 1 + r.Intn(4)
	if n > capv {
		n = capv
	}
	gap := func() int { return []int{0, 0, 1, 10, 50, 200, 1000, 2000, 2000, 5000, 31000}[r.Intn(11)] }
	var ops []string
	five := []int{500, 502, 503, 503, 503, 504, 599}
	thr := []int{429, 429, 403, 408, 425}
	for blocks := 1 + r.Intn(4); blocks > 0; blocks-- {
		switch r.Intn(6) {
		case 0, 1, 2: // a run of consecutive 5xx answers (a host that is down while its URLs are retried)
			for k := 1 + r.Intn(12); k > 0; k-- {
				ops = append(ops, fmt.Sprintf("F%d:%d", five[r.Intn(len(five))], gap()))
			}
		case 3: // a run of throttling answers (penalty doubling up to its cap)
			for k := 1 + r.Intn(8); k > 0; k-- {
				ops = append(ops, fmt.Sprintf("F%d:%d", thr[r.Intn(len(thr))], gap()))
			}
		case 4:
			for k := 1 + r.Intn(3); k > 0; k-- {
				ops = append(ops, fmt.Sprintf("S:%d", gap()))
			}
		default:
			for k := 1 + r.Intn(2); k > 0; k-- {
				ops = append(ops, fmt.Sprintf("W:%d", gap()))
			}
		}
	}
	lead := int64(30000000000) + limCoverNs(int64(n), num, den) + []int64{0, 0, 1, 1000000, 1000000000}[r.Intn(5)]
	if r.Chance(20) { // too early for the theorem to speak: model against code only
		lead = []int64{0, 1000000, 50000000, 1000000000, 2000000000, 10000000000, 30000000000}[r.Intn(7)]
	}
	return fmt.Sprintf("cap=%d rate=%s n=%d lead=%d ops=%s", capv, rate, n, lead, strings.Join(ops, ";"))
}

func shrinkLimwait(in string) []string {
	i := strings.Index(in, "ops=")
	if i < 0 {
		return nil
	}
	head, ops := in[:i+4], strings.Split(in[i+4:], ";")
	var out []string
	if len(ops) > 1 {
		out = append(out, head+strings.Join(ops[:len(ops)/2], ";"), head+strings.Join(ops[len(ops)/2:], ";"))
		for k := 0; k < len(ops) && k < 40; k++ {
			rest := append(append([]string{}, ops[:k]...), ops[k+1:]...)
			out = append(out, head+strings.Join(rest, ";"))
		}
	}
	kv := parseKV(in)
	if kv["n"] != "1" && kv["n"] != "" {
		num, den := limRate(kv["rate"])
		out = append(out, strings.Replace(strings.Replace(in, " n="+kv["n"]+" ", " n=1 ", 1), " lead="+kv["lead"]+" ", fmt.Sprintf(" lead=%d ", 30000000000+limCoverNs(1, num, den)), 1))
	}
	return out
}

func init() {
	register(&Driver{
		Name:     "limwait",
		Header:   "From ZenoV Require Import Lib.Harness Rate.Bucket Pipe.LimiterWait Pipe.LimiterWaitHarness.\nOpen Scope Z_scope.\n",
		CaseType: "lcase",
		Footer:   stdFooter,
		Rule: "one case = (capacity, configured rate, history of a host's answers: runs of 1-12 consecutive 5xx, runs of 429/403/408/425, successes, single polls, " +
			"with 0 ms - 31 s between them; n = 1-4 goroutines waiting at the end); non-trivial: the history holds a failure status and the final instant is " +
			"covered (30 s + n tokens at the floor rate after the last answer), so that the theorem speaks; distinct by input line",
		Gen:            genLimwait,
		Exec:           execLimwait,
		Shrink:         shrinkLimwait,
		Parallel:       16,
		CaseTimeoutSec: 120,
	})
}
