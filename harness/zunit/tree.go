//go:build verif

package main

import (
	"fmt"
	"os"
	"strconv"
	"strings"

	"github.com/internetarchive/Zeno/pkg/models"
)

// Driver "tree": operation sequences on a real models.Item tree through the public API only.
// Input: space-separated ops.
//   seed.<url>            first op: NewItem("n0", url)
//   a<pid>.<url>.<r|c|x>  AddChild(new item with the next id, from GotRedirected|GotChildren|invalid)
//                         <url> = <k> or <k>v<j>: URL id k (the model's URL = the canonical URL.String()),
//                         written in Raw spelling j of rawSpellings (no selector = v0, Raw == String())
//   r<pid>.<cid>          pid.RemoveChild(cid)
//   s<id>.<0..7>          SetStatus
//   d                     seed.DedupeItems()
//   k                     seed.CompleteAndCheck()
//   |                     stage boundary (pipeline-shaped sequences: well-formedness is monitored here)

var statusNames = []string{"Fresh", "PreProcessed", "Archived", "Failed", "Completed", "Seen", "GotRedirected", "GotChildren"}

type treeRun struct {
	nodes []*models.Item // by id (attached or detached)
	seed  *models.Item
	urls  map[string]int
}

// URL identity.  In the model a URL is a number: it stands for the canonical text URL.String(), which is
// what the pipeline builds the request from, seenchecks and fetches - NOT for URL.Raw, which is finer:
// String() re-encodes the query parameter by parameter (pkg/models/url.go encodeQuery) and, like
// url.ParseQuery, drops empty parameters, parameters containing a semicolon and parameters with an
// invalid percent-escape.  URL id k is http://h.example/u<k>; rawSpellings are Raw texts that differ
// from each other but all give that same String().  The observation that goes into the Coq case
// (urlIndex) is computed from String() only.
var rawSpellings = []string{
	"",       // v0: Raw == String()
	"?&",     // v1: only empty parameters
	"?a;b=1", // v2: a parameter containing a semicolon
	"?%zz&&", // v3: a parameter with an invalid percent-escape, and empty ones
}

func canonURL(k int) string { return fmt.Sprintf("http://h.example/u%d", k) }

func treeFatal(format string, a ...any) {
	fmt.Fprintf(os.Stderr, "tree driver: "+format+"\n", a...)
	os.Exit(4)
}

// mkURL builds URL id k in Raw spelling v and insists that the real String() is the canonical text:
// if the implementation stops canonicalising one of the spellings, that is not a finding about the
// item tree - the driver stops with an explanation instead of reporting surviving "duplicates".
func mkURL(k, v int) *models.URL {
	if v < 0 || v >= len(rawSpellings) {
		treeFatal("no Raw spelling v%d (have v0..v%d)", v, len(rawSpellings)-1)
	}
	u := &models.URL{Raw: canonURL(k) + rawSpellings[v]}
	if err := u.Parse(); err != nil {
		treeFatal("Raw spelling v%d of URL id %d (%q) does not parse: %v", v, k, u.Raw, err)
	}
	if got := u.String(); got != canonURL(k) {
		treeFatal("precondition of the C11 drivers broken: Raw spelling v%d of URL id %d (%q) has String() %q, expected %q - "+
			"the spellings of one URL id must share one String(); no item-tree case was run", v, k, u.Raw, got, canonURL(k))
	}
	return u
}

// treeSetup: once per process, before any case - every spelling of a range of ids has the canonical
// String(), and the spellings are pairwise different Raw texts (otherwise they exercise nothing).
func treeSetup() {
	for k := 0; k < 16; k++ {
		seen := map[string]int{}
		for v := range rawSpellings {
			u := mkURL(k, v)
			if w, dup := seen[u.Raw]; dup {
				treeFatal("Raw spellings v%d and v%d of URL id %d are the same text %q", w, v, k, u.Raw)
			}
			seen[u.Raw] = v
		}
	}
}

// parseURLSpec: "<k>" or "<k>v<j>"
func parseURLSpec(s string) (k, v int) {
	ks, vs, has := strings.Cut(s, "v")
	k, err := strconv.Atoi(ks)
	if err != nil {
		treeFatal("bad URL id in %q", s)
	}
	if has {
		if v, err = strconv.Atoi(vs); err != nil {
			treeFatal("bad Raw spelling selector in %q", s)
		}
	}
	return k, v
}

func urlIndex(it *models.Item) int {
	s := it.GetURL().String()
	i := strings.LastIndex(s, "/u")
	if i < 0 {
		treeFatal("node %s: String() %q is not one of the driver's canonical URLs", it.GetID(), s)
	}
	k, err := strconv.Atoi(s[i+2:])
	if err != nil || s != canonURL(k) {
		treeFatal("node %s: String() %q is not one of the driver's canonical URLs", it.GetID(), s)
	}
	return k
}

func idIndex(it *models.Item) int {
	k, _ := strconv.Atoi(it.GetID()[1:])
	return k
}

// applyOp runs one op on the real tree; ret: 0 ok / 1 error or false
func (t *treeRun) applyOp(op string) (ret int) {
	switch {
	case strings.HasPrefix(op, "seed."):
		k, v := parseURLSpec(op[5:])
		t.seed = models.NewItem("n0", mkURL(k, v), "")
		t.nodes = []*models.Item{t.seed}
	case op == "d":
		if err := t.seed.DedupeItems(); err != nil {
			ret = 1
		}
	case op == "k":
		if t.seed.CompleteAndCheck() {
			ret = 1
		}
	case op == "|":
	case op[0] == 'a':
		f := strings.Split(op[1:], ".")
		pid, _ := strconv.Atoi(f[0])
		u, v := parseURLSpec(f[1])
		from := models.ItemFresh
		switch f[2] {
		case "r":
			from = models.ItemGotRedirected
		case "c":
			from = models.ItemGotChildren
		}
		child := models.NewItem(fmt.Sprintf("n%d", len(t.nodes)), mkURL(u, v), "")
		t.nodes = append(t.nodes, child)
		if pid < len(t.nodes)-1 {
			if err := t.nodes[pid].AddChild(child, from); err != nil {
				ret = 1
			}
		}
	case op[0] == 'r':
		f := strings.Split(op[1:], ".")
		pid, _ := strconv.Atoi(f[0])
		cid, _ := strconv.Atoi(f[1])
		if pid < len(t.nodes) && cid < len(t.nodes) {
			t.nodes[pid].RemoveChild(t.nodes[cid])
		}
	case op[0] == 's':
		f := strings.Split(op[1:], ".")
		id, _ := strconv.Atoi(f[0])
		st, _ := strconv.Atoi(f[1])
		if id < len(t.nodes) {
			t.nodes[id].SetStatus(models.ItemState(st))
		}
	}
	return ret
}

func coqItem(it *models.Item) string {
	var kids []string
	for _, c := range it.GetChildren() {
		kids = append(kids, coqItem(c))
	}
	return fmt.Sprintf("Node (Info %d %d %s %s %d %d) %s", idIndex(it), urlIndex(it), statusNames[it.GetStatus()],
		coqBool(it.GetSeedVia() != ""), it.GetURL().GetHops(), it.GetURL().GetRedirects(), coqList(kids))
}

var consistencyRules = []string{
	"item is a child but has a seedVia",                        // 3
	"item is fresh but has children",                           // 4
	"item is not a seed and fresh but parent is not",           // 5
	"item has more than one children but is ItemGotRedirected", // 6
	"item has children but is not",                             // 7
}

func consistencyCode(err error) int {
	if err == nil {
		return 0
	}
	for i, s := range consistencyRules {
		if strings.Contains(err.Error(), s) {
			return i + 3
		}
	}
	return 99
}

// linksOK: parent pointers are symmetric with the children slices, and depths agree
func linksOK(it *models.Item, depth int64) bool {
	if it.GetDepth() != depth {
		return false
	}
	for _, c := range it.GetChildren() {
		if c.GetParent() != it || !linksOK(c, depth+1) {
			return false
		}
	}
	return true
}

func (t *treeRun) observe(ret int) string {
	s := t.seed
	md := s.GetMaxDepth()
	lvl, _ := s.GetNodesAtLevel(md)
	var lids []string
	for _, n := range lvl {
		lids = append(lids, fmt.Sprintf("%d%%N", idIndex(n)))
	}
	var dwr []string
	s.Traverse(func(n *models.Item) {
		dwr = append(dwr, fmt.Sprintf("(%d%%N, %d)", idIndex(n), n.GetDepthWithoutRedirections()+1))
	})
	return fmt.Sprintf("Obs (%s) %d %d %s %s %s %d", coqItem(s), consistencyCode(s.CheckConsistency()), md,
		coqList(lids), coqList(dwr), coqBool(linksOK(s, 0) && s.GetParent() == nil), ret)
}

func coqOp(op string) string {
	switch {
	case strings.HasPrefix(op, "seed."):
		k, _ := parseURLSpec(op[5:])
		return fmt.Sprintf("OSeed %d", k)
	case op == "d":
		return "ODedupe"
	case op == "k":
		return "OComplete"
	case op == "|":
		return "OBoundary"
	case op[0] == 'a':
		f := strings.Split(op[1:], ".")
		from := "Fresh"
		if f[2] == "r" {
			from = "GotRedirected"
		} else if f[2] == "c" {
			from = "GotChildren"
		}
		k, _ := parseURLSpec(f[1])
		return fmt.Sprintf("OAdd %s %d %s", f[0], k, from)
	case op[0] == 'r':
		f := strings.Split(op[1:], ".")
		return fmt.Sprintf("ORemove %s %s", f[0], f[1])
	case op[0] == 's':
		f := strings.Split(op[1:], ".")
		st, _ := strconv.Atoi(f[1])
		return fmt.Sprintf("OSet %s %s", f[0], statusNames[st])
	}
	return "OBoundary"
}

func execTree(in string) Result {
	ops := strings.Fields(in)
	t := &treeRun{}
	var steps []string
	nd, nk, nadd := 0, 0, 0
	for _, op := range ops {
		ret := t.applyOp(op)
		steps = append(steps, fmt.Sprintf("(%s, %s)", coqOp(op), t.observe(ret)))
		switch op[0] {
		case 'd':
			nd++
		case 'k':
			nk++
		case 'a':
			nadd++
		}
	}
	shape := "random"
	if strings.Contains(in, "|") {
		shape = "pipeline"
	}
	// rawvariants:yes = two nodes created in this case carry the same URL (one String()) in different Raw spellings
	rawv := "no"
	spelt := map[string]string{}
	for _, n := range t.nodes {
		u := n.GetURL()
		if raw, ok := spelt[u.String()]; ok && raw != u.Raw {
			rawv = "yes"
		} else if !ok {
			spelt[u.String()] = u.Raw
		}
	}
	return Result{
		Term: fmt.Sprintf("TC %s %s", coqBool(shape == "pipeline"), coqList(steps)),
		Tags: []string{"shape:" + shape, fmt.Sprintf("nodes:%d", bucket(len(t.nodes))), fmt.Sprintf("ops:%d", bucket(len(ops))),
			"rawvariants:" + rawv},
		Nontrivial: nadd >= 2 && (nd > 0 || nk > 0),
	}
}

func bucket(n int) int {
	switch {
	case n <= 4:
		return n
	case n <= 8:
		return 8
	case n <= 16:
		return 16
	case n <= 32:
		return 32
	case n <= 64:
		return 64
	}
	return 128
}

// speller: in 3 cases out of 4 every URL of the case is written in a random Raw spelling (same
// URL id, same String(), different Raw); otherwise, as before, Raw == String() everywhere.
func speller(r *Rng, pct int) func() string {
	on := r.Chance(pct)
	return func() string {
		if !on {
			return ""
		}
		if v := r.Intn(len(rawSpellings)); v > 0 {
			return fmt.Sprintf("v%d", v)
		}
		return ""
	}
}

// genTreeRandom: arbitrary API ops (the model is faithful outside the invariant too)
func genTreeRandom(r *Rng) string {
	t := &treeRun{}
	sp := speller(r, 75)
	ops := []string{fmt.Sprintf("seed.%d%s", r.Intn(4), sp())}
	t.applyOp(ops[0])
	n := 3 + r.Intn(14)
	for i := 0; i < n; i++ {
		var op string
		switch r.Intn(10) {
		case 0, 1, 2, 3:
			from := "c"
			if r.Chance(25) {
				from = "r"
			} else if r.Chance(5) {
				from = "x"
			}
			op = fmt.Sprintf("a%d.%d%s.%s", r.Intn(len(t.nodes)), r.Intn(5), sp(), from)
		case 4:
			op = fmt.Sprintf("r%d.%d", r.Intn(len(t.nodes)), r.Intn(len(t.nodes)))
		case 5, 6:
			op = fmt.Sprintf("s%d.%d", r.Intn(len(t.nodes)), r.Intn(8))
		case 7, 8:
			op = "d"
		default:
			op = "k"
		}
		t.applyOp(op)
		ops = append(ops, op)
	}
	return strings.Join(ops, " ")
}

// genTreePipeline: sequences shaped like what the stages do (preprocess: removals, dedupe,
// seen/preprocessed marks; archive: archived/failed; postprocess: redirect / assets / completed;
// finisher: complete-and-check), driven on a real tree to know what is at the working depth.
func genTreePipeline(r *Rng) string {
	t := &treeRun{}
	sp := speller(r, 75)
	ops := []string{fmt.Sprintf("seed.%d%s", r.Intn(3), sp())}
	do := func(op string) int {
		ops = append(ops, op)
		return t.applyOp(op)
	}
	t.applyOp(ops[0])
	pool := 3 + r.Intn(8) // URL pool: small pools give many duplicates
	maxPasses := 2 + r.Intn(6)
	for pass := 0; pass < maxPasses; pass++ {
		// ---- preprocess
		lvl, _ := t.seed.GetNodesAtLevel(t.seed.GetMaxDepth())
		aborted := false
		for _, n := range lvl {
			if n.GetParent() == nil {
				if r.Chance(6) { // seed rejected: failed (normalisation) or completed (excluded)
					if r.Bool() {
						do("s0.3")
					} else {
						do("s0.4")
					}
					aborted = true
				}
				continue
			}
			if r.Chance(15) { // invalid / excluded / empty-path child
				do(fmt.Sprintf("r%d.%d", idIndex(n.GetParent()), idIndex(n)))
			}
		}
		if !aborted {
			do("d")
			depth := t.seed.GetMaxDepth()
			_ = depth
			lvl, _ = t.seed.GetNodesAtLevel(int64(workDepth(lvl, t)))
			fresh := 0
			for _, n := range lvl {
				if n.GetStatus() != models.ItemFresh {
					continue
				}
				if n.GetParent() != nil && r.Chance(15) {
					do(fmt.Sprintf("s%d.5", idIndex(n))) // seen
				} else {
					fresh++
				}
			}
			if fresh == 0 {
				do("s0.4")
			} else {
				for _, n := range lvl {
					if n.GetStatus() == models.ItemFresh {
						do(fmt.Sprintf("s%d.1", idIndex(n)))
					}
				}
			}
		}
		do("|")
		// ---- archive
		lvl, _ = t.seed.GetNodesAtLevel(t.seed.GetMaxDepth())
		for _, n := range lvl {
			if n.GetStatus() == models.ItemPreProcessed {
				if r.Chance(15) {
					do(fmt.Sprintf("s%d.3", idIndex(n)))
				} else {
					do(fmt.Sprintf("s%d.2", idIndex(n)))
				}
			}
		}
		do("|")
		// ---- postprocess
		st := t.seed.GetStatus()
		if st == models.ItemArchived || st == models.ItemGotRedirected || st == models.ItemGotChildren {
			lvl, _ = t.seed.GetNodesAtLevel(t.seed.GetMaxDepth())
			for _, n := range lvl {
				if n.GetStatus() != models.ItemArchived {
					continue
				}
				switch c := r.Intn(10); {
				case c < 2:
					do(fmt.Sprintf("a%d.%d%s.r", idIndex(n), r.Intn(pool), sp()))
				case c < 7 && pass < maxPasses-1:
					k := 1 + r.Intn(4)
					for j := 0; j < k; j++ {
						do(fmt.Sprintf("a%d.%d%s.c", idIndex(n), r.Intn(pool), sp()))
					}
				default:
					do(fmt.Sprintf("s%d.4", idIndex(n)))
				}
			}
		}
		do("|")
		// ---- finisher
		if do("k") == 1 {
			break
		}
		do("|")
	}
	return strings.Join(ops, " ")
}

// the preprocessor keeps working at the depth it computed before removals/dedupe
func workDepth(before []*models.Item, t *treeRun) int {
	if len(before) == 0 {
		return 0
	}
	return int(before[0].GetDepth())
}

// Exhaustive small scope: the i-th case of the enumeration (sizes ascending) of
//   tree shape (parent vector) x url in {0,1} per non-seed node x status in 0..7 per node x
//   final op in {d, k, d k}.   count(n) = (n-1)! * 2^(n-1) * 8^n * 3
func treeExCount(n int) int {
	c := 3
	for j := 1; j < n; j++ {
		c *= j * 2
	}
	for j := 0; j < n; j++ {
		c *= 8
	}
	return c
}

// genTreeDup: de-duplication under heavy collisions - 4 to 8 nodes in a random shape whose URLs come
// from a pool of one or two (so three and more nodes share a URL), every status assignment, then
// dedupe (and complete-and-check).  The exhaustive leg stops at 3 (quick) / 4 (thorough) nodes.
func genTreeDup(r *Rng) string {
	n := 4 + r.Intn(5)
	pool := 1 + r.Intn(2)
	sp := speller(r, 75)
	ops := []string{"seed.0"}
	for j := 1; j < n; j++ {
		ops = append(ops, fmt.Sprintf("a%d.%d%s.c", r.Intn(j), 1+r.Intn(pool), sp()))
	}
	for j := 0; j < n; j++ {
		st := r.Intn(8)
		if r.Chance(35) {
			st = 0 // Fresh leaves are what the pipeline de-duplicates most
		}
		ops = append(ops, fmt.Sprintf("s%d.%d", j, st))
	}
	ops = append(ops, "d")
	if r.Bool() {
		ops = append(ops, "k")
	}
	return strings.Join(ops, " ")
}

func genTreeExhaustive(i int) string {
	n := 1
	for i >= treeExCount(n) {
		i -= treeExCount(n)
		n++
		if n > 6 {
			n = 1
		}
	}
	x := i
	ops := []string{"seed.0"}
	for j := 1; j < n; j++ {
		p := x % j
		x /= j
		u := x % 2
		x /= 2
		// node j is written in Raw spelling j mod 4: any two same-URL nodes of a tree of <= 4 nodes differ in Raw
		ops = append(ops, fmt.Sprintf("a%d.%d%s.c", p, u, []string{"", "v1", "v2", "v3"}[j%4]))
	}
	for j := 0; j < n; j++ {
		st := x % 8
		x /= 8
		ops = append(ops, fmt.Sprintf("s%d.%d", j, st))
	}
	switch x % 3 {
	case 0:
		ops = append(ops, "d")
	case 1:
		ops = append(ops, "k")
	default:
		ops = append(ops, "d", "k")
	}
	return strings.Join(ops, " ")
}

func shrinkTree(in string) []string {
	ops := strings.Fields(in)
	var out []string
	// drop a suffix, then single ops (ids shift when an add is dropped, so only drop non-add ops or the tail)
	for cut := len(ops) - 1; cut >= 2; cut-- {
		out = append(out, strings.Join(ops[:cut], " "))
		if len(out) > 6 {
			break
		}
	}
	for i := len(ops) - 1; i >= 1; i-- {
		if ops[i][0] != 'a' {
			c := append(append([]string{}, ops[:i]...), ops[i+1:]...)
			out = append(out, strings.Join(c, " "))
		}
	}
	// write a URL in the plain spelling (Raw == String()): all at once, then one at a time
	plain := func(op string) string {
		if op[0] != 'a' && !strings.HasPrefix(op, "seed.") {
			return op
		}
		f := strings.Split(op, ".")
		f[1], _, _ = strings.Cut(f[1], "v")
		return strings.Join(f, ".")
	}
	all := make([]string, len(ops))
	for i, op := range ops {
		all[i] = plain(op)
	}
	if a := strings.Join(all, " "); a != in {
		out = append(out, a)
	}
	for i, op := range ops {
		if p := plain(op); p != op {
			c := append([]string{}, ops...)
			c[i] = p
			out = append(out, strings.Join(c, " "))
		}
	}
	return out
}

func init() {
	register(&Driver{
		Name:     "tree",
		Header:   "From ZenoV Require Import Lib.Harness Tree.Item Tree.TreeHarness.\nOpen Scope N_scope.\n",
		CaseType: "tcase",
		Footer:   stdFooter,
		Rule:     "one case = an operation sequence on a real models.Item tree (public API), observed after every op (tree, CheckConsistency rule, max depth, working level, depths without redirections, pointer symmetry, return value); three generators: pipeline-shaped sequences (stage-like passes with duplicate-rich URL pools), arbitrary API sequences and a collision stream; a node's URL in the observation is the canonical id derived from URL.String(); in 3 generated cases out of 4 every URL is written in a random one of 4 Raw spellings, so nodes of one URL id are written in different Raw spellings that share one String() (tag rawvariants:yes when two nodes of the case carry one URL in two Raw spellings), checked at start-up; non-trivial when the sequence adds >= 2 nodes and runs dedupe or complete-and-check",
		Setup:    treeSetup,
		Gen: func(r *Rng, i int, tier string) string {
			switch i % 4 {
			case 2:
				return genTreeRandom(r)
			case 3:
				return genTreeDup(r)
			}
			return genTreePipeline(r)
		},
		Exec:   execTree,
		Shrink: shrinkTree,
	})
	register(&Driver{
		Name:     "treex",
		Header:   "From ZenoV Require Import Lib.Harness Tree.Item Tree.TreeHarness.\nOpen Scope N_scope.\n",
		CaseType: "tcase",
		Footer:   stdFooter,
		Rule:     "exhaustive small scope: case i is the i-th element of the enumeration of all trees (every parent vector, url in {0,1} per non-seed node) x all 8 statuses per node x final op in {dedupe, complete, dedupe+complete}; node j is written in Raw spelling j mod 4 (same String(), so any two same-URL nodes differ in Raw); sizes ascending: 24 + 384 + 12288 cases cover every tree of <= 3 nodes, + 589824 every tree of <= 4 nodes; non-trivial when the tree has >= 3 nodes",
		Setup:    treeSetup,
		Gen:      func(r *Rng, i int, tier string) string { return genTreeExhaustive(i) },
		Exec:     execTree,
		Shrink:   shrinkTree,
	})
}
