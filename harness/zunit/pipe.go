//go:build verif

package main

import (
	"bufio"
	"encoding/hex"
	"encoding/json"
	"fmt"
	"os"
	"os/exec"
	"path/filepath"
	"strconv"
	"strings"
	"sync"
	"time"
)

// Driver "pipe" (C01, C16): every case is ONE real crawl in its own OS process (`zunit pipechild`):
// real controler.Start()/Stop(), real reactor, stages, local queue, WARC writer, an in-process origin
// server that serves a generated site, seeded schedule perturbation at the hook points.  The hook-event
// trace is turned into the Coq case that Pipe/PipeHarness.v replays through PipeLts.step.
//
// Input: "site=<n> w=<W> mca=<M> sched=<s> seeds=<k> mr=<max-redirect> retry=<r> [mode=adversarial] [badrows=<b>]"
// badrows=<b>: b more rows are put into the queue, at positions drawn from the site seed, whose text is not a URL
// (url.ParseRequestURI rejects it): the queue's own consumer finishes such a row at once, it never enters the reactor.
// The crawl is then kept running until the queue has been seen holding a report for every row.

func repoRoot() string {
	if r := os.Getenv("VERIF_REPO"); r != "" {
		return r
	}
	return "/repo"
}

type pnode struct {
	uuid     string
	status   int
	depth    int
	redirs   int
	hops     int
	text     string
	children []*pnode
}

func parseSnap(line string) *pnode {
	var stack []*pnode
	var root *pnode
	for _, part := range strings.Split(line, "|") {
		f := strings.Split(part, ",")
		if len(f) != 6 {
			return nil
		}
		st, _ := strconv.Atoi(f[1])
		d, _ := strconv.Atoi(f[2])
		rd, _ := strconv.Atoi(f[3])
		hp, _ := strconv.Atoi(f[4])
		tx, _ := hex.DecodeString(f[5])
		n := &pnode{uuid: f[0], status: st, depth: d, redirs: rd, hops: hp, text: string(tx)}
		if d == 0 {
			root = n
			stack = []*pnode{n}
			continue
		}
		if d > len(stack) {
			return nil
		}
		stack = stack[:d]
		stack[d-1].children = append(stack[d-1].children, n)
		stack = append(stack, n)
	}
	return root
}

type pInterner struct {
	urls map[string]int
}

func (in *pInterner) url(s string) int {
	if v, ok := in.urls[s]; ok {
		return v
	}
	in.urls[s] = len(in.urls)
	return in.urls[s]
}

type seedIDs struct{ ids map[string]int }

func (s *seedIDs) id(u string) int {
	if v, ok := s.ids[u]; ok {
		return v
	}
	s.ids[u] = len(s.ids)
	return s.ids[u]
}
func (s *seedIDs) assign(n *pnode) {
	s.id(n.uuid)
	for _, c := range n.children {
		s.assign(c)
	}
}

func pcoq(in *pInterner, ids *seedIDs, n *pnode) string {
	var kids []string
	for _, c := range n.children {
		kids = append(kids, pcoq(in, ids, c))
	}
	return fmt.Sprintf("Node (Info %d %d %s false %d %d) %s", ids.id(n.uuid), in.url(n.text), statusNames[n.status], n.hops, n.redirs, coqList(kids))
}

func pMaxDepth(n *pnode) int {
	d := 0
	for _, c := range n.children {
		if x := pMaxDepth(c) + 1; x > d {
			d = x
		}
	}
	return d
}

func pLevel(n *pnode, lvl int, out *[]*pnode) {
	if lvl == 0 {
		*out = append(*out, n)
		return
	}
	for _, c := range n.children {
		pLevel(c, lvl-1, out)
	}
}

func pIndex(n *pnode, m map[string]*pnode) {
	m[n.uuid] = n
	for _, c := range n.children {
		pIndex(c, m)
	}
}

func pCount(n *pnode) int {
	c := 1
	for _, k := range n.children {
		c += pCount(k)
	}
	return c
}

// inferPass builds the PR record of Stage/PassHarness.v for one pass: the oracle answers are
// read off the observed trees (an answer is whatever makes the model take the branch the real
// stage visibly took), then the model must reproduce all four trees exactly.
func inferPass(in *pInterner, ids *seedIDs, prev, pre, arch, post, fin *pnode, finished bool) string {
	preIdx, archIdx, postIdx := map[string]*pnode{}, map[string]*pnode{}, map[string]*pnode{}
	pIndex(pre, preIdx)
	pIndex(arch, archIdx)
	pIndex(post, postIdx)
	var lvl []*pnode
	pLevel(prev, pMaxDepth(prev), &lvl)
	var preAns, seen, fetch []string
	for _, n := range lvl {
		p, ok := preIdx[n.uuid]
		switch {
		case !ok:
			preAns = append(preAns, fmt.Sprintf("(%d, PNormFail)", ids.id(n.uuid)))
		case n.depth == 0 && p.status == 3: // seed Failed
			preAns = append(preAns, fmt.Sprintf("(%d, PNormFail)", ids.id(n.uuid)))
		case n.depth == 0 && p.status == 4: // seed Completed without a request
			preAns = append(preAns, fmt.Sprintf("(%d, POk %d true false)", ids.id(n.uuid), in.url(p.text)))
		default:
			preAns = append(preAns, fmt.Sprintf("(%d, POk %d false false)", ids.id(n.uuid), in.url(p.text)))
			if p.status == 5 {
				seen = append(seen, strconv.Itoa(ids.id(n.uuid)))
			}
		}
	}
	ids.assign(pre)
	ids.assign(post)
	var walk func(n *pnode)
	walk = func(n *pnode) {
		if n.status == 1 { // PreProcessed: a request was built
			a := archIdx[n.uuid]
			q := postIdx[n.uuid]
			switch {
			case a == nil || a.status == 3:
				fetch = append(fetch, fmt.Sprintf("(%d, None)", ids.id(n.uuid)))
			case q != nil && q.status == 6 && len(q.children) == 1:
				fetch = append(fetch, fmt.Sprintf("(%d, Some (Resp true %d false false []))", ids.id(n.uuid), in.url(q.children[0].text)))
			case q != nil && q.status == 7:
				var as []string
				for _, c := range q.children {
					as = append(as, strconv.Itoa(in.url(c.text)))
				}
				fetch = append(fetch, fmt.Sprintf("(%d, Some (Resp false 0 true false %s))", ids.id(n.uuid), coqList(as)))
			default:
				fetch = append(fetch, fmt.Sprintf("(%d, Some (Resp false 0 false false []))", ids.id(n.uuid)))
			}
		}
		for _, c := range n.children {
			walk(c)
		}
	}
	walk(pre)
	dec := "DFeedback"
	if finished {
		dec = "DFinish"
	}
	return fmt.Sprintf("(PR %s %s %s (%s) (%s) (%s) (%s) %s)", coqList(preAns), coqList(seen), coqList(fetch),
		pcoq(in, ids, pre), pcoq(in, ids, arch), pcoq(in, ids, post), pcoq(in, ids, fin), dec)
}

type pevent struct {
	seq    int
	kind   string
	fields []string
}

func readEvents(path string) []pevent {
	f, err := os.Open(path)
	if err != nil {
		return nil
	}
	defer f.Close()
	var out []pevent
	sc := bufio.NewScanner(f)
	sc.Buffer(make([]byte, 1<<20), 1<<28)
	for sc.Scan() {
		p := strings.Split(sc.Text(), "\t")
		if len(p) < 2 {
			continue
		}
		n, _ := strconv.Atoi(p[0])
		out = append(out, pevent{n, p[1], p[2:]})
	}
	return out
}

func runChild(spec *PipeSpec, timeout time.Duration) (*PipeResult, []pevent, string) {
	os.MkdirAll(spec.Dir, 0o755)
	sp, _ := json.Marshal(spec)
	specPath := filepath.Join(filepath.Dir(spec.Dir), filepath.Base(spec.Dir)+".spec.json")
	os.WriteFile(specPath, sp, 0o644)
	runN := 1
	for {
		if _, err := os.Stat(filepath.Join(spec.Dir, fmt.Sprintf("events.%d.log", runN))); err != nil {
			break
		}
		runN++
	}
	cmd := exec.Command(os.Args[0], "pipechild", specPath)
	cmd.Env = append(os.Environ(), "ZV_SCHEMA="+filepath.Join(repoRoot(), "internal/pkg/source/lq/schema.sql"))
	var stderr strings.Builder
	cmd.Stderr = &stderr
	cmd.Stdout = &stderr
	done := make(chan error, 1)
	if err := cmd.Start(); err != nil {
		return nil, nil, "start: " + err.Error()
	}
	go func() { done <- cmd.Wait() }()
	status := ""
	select {
	case err := <-done:
		if err != nil {
			status = "exit: " + err.Error()
		}
	case <-time.After(timeout):
		cmd.Process.Kill()
		<-done
		status = "watchdog"
	}
	evs := readEvents(filepath.Join(spec.Dir, fmt.Sprintf("events.%d.log", runN)))
	var res *PipeResult
	if raw, err := os.ReadFile(filepath.Join(spec.Dir, fmt.Sprintf("result.%d.json", runN))); err == nil {
		res = &PipeResult{}
		json.Unmarshal(raw, res)
	}
	if status != "" {
		tail := stderr.String()
		if len(tail) > 1500 {
			tail = tail[len(tail)-1500:]
		}
		status += " | " + strings.ReplaceAll(tail, "\n", " / ")
	}
	return res, evs, status
}

var hookNo = map[string]int{"pre.in": 1, "arch.in": 3, "arch.done": 4, "post.in": 5, "post.done": 6, "fin.in": 7,
	"fin.feedback": 8, "fin.finished": 9, "fin.notified": 10}

// traceToCase turns the event log into the Coq term of Pipe/PipeHarness.ecase
func traceToCase(spec *PipeSpec, res *PipeResult, evs []pevent, status string) (string, []string, bool) {
	in := &pInterner{urls: map[string]int{}}
	port := 0
	if len(evs) > 0 && evs[0].kind == "run" && len(evs[0].fields) >= 2 {
		port, _ = strconv.Atoi(evs[0].fields[1])
	}
	hostA, hostB := fmt.Sprintf("127.0.0.2:%d", port), fmt.Sprintf("127.0.0.3:%d", port)
	rowURL, rowHops, sidOf := map[string]string{}, map[string]int{}, map[string]int{}
	var rowIDs []string
	for i, r := range spec.LQRows {
		rowURL[r.ID] = strings.NewReplacer("{A}", hostA, "{B}", hostB).Replace(r.Value)
		rowHops[r.ID] = r.Hops
		sidOf[r.ID] = i
		rowIDs = append(rowIDs, strconv.Itoa(i))
	}
	// per seed: the list of its events (indices), to look ahead for the snapshots of a pass
	perSeed := map[string][]int{}
	for i, e := range evs {
		if _, ok := hookNo[e.kind]; (ok || e.kind == "pre.done") && len(e.fields) >= 1 {
			if _, isSeed := sidOf[e.fields[0]]; isSeed {
				perSeed[e.fields[0]] = append(perSeed[e.fields[0]], i)
			}
		}
	}
	ids := map[string]*seedIDs{}
	prevTree := map[string]*pnode{}
	dropped := map[string]bool{} // seeds whose trace was cut inside a pass
	complete := status == "" && res != nil && res.StopReturned && !res.TimedOut
	var out []string
	passes, maxNodes, feedbacks, reports := 0, 0, 0, 0
	reportedN, lateNoted := map[string]int{}, map[string]bool{}
	insert := func(id string) {
		if _, ok := sidOf[id]; ok && ids[id] == nil {
			out = append(out, fmt.Sprintf("GIns %d %d %d", sidOf[id], in.url(rowURL[id]), rowHops[id]))
			ids[id] = &seedIDs{ids: map[string]int{}}
			ids[id].id(id)
			prevTree[id] = &pnode{uuid: id, status: 0, text: rowURL[id], hops: rowHops[id]}
		}
	}
	for i, e := range evs {
		id := ""
		if len(e.fields) > 0 {
			id = e.fields[0]
		}
		if e.kind == "pre.in" {
			insert(id)
		}
		if _, isRow := sidOf[id]; isRow && reportedN[id] > 0 && !lateNoted[id] && e.kind != "fin.notified" && (hookNo[e.kind] > 0 || e.kind == "lq.insert" || e.kind == "pre.done") {
			lateNoted[id] = true
			pipeNote(fmt.Sprintf("pipe case: row %s (%q) is in the pipeline (%s) after the queue was told it is finished", id, rowURL[id], e.kind))
		}
		switch e.kind {
		case "lq.inserted":
			// the hook after ReceiveInsert can be logged late (the seed may already be in the
			// preprocessor): the insert is placed at whichever comes first, this hook or the seed's first pre.in
			insert(id)
		case "pre.done":
			if _, ok := sidOf[id]; !ok || dropped[id] || ids[id] == nil || len(e.fields) < 2 {
				continue
			}
			// look ahead: arch.done, post.done, fin.feedback|fin.finished of this seed
			var arch, post, fin *pnode
			finished := false
			found := 0
			for _, j := range perSeed[id] {
				if j <= i {
					continue
				}
				k := evs[j].kind
				if k == "pre.done" {
					break
				}
				if len(evs[j].fields) < 2 {
					continue
				}
				switch k {
				case "arch.done":
					arch = parseSnap(evs[j].fields[1])
					found++
				case "post.done":
					post = parseSnap(evs[j].fields[1])
					found++
				case "fin.feedback":
					fin = parseSnap(evs[j].fields[1])
					found++
				case "fin.finished":
					fin = parseSnap(evs[j].fields[1])
					finished = true
					found++
				}
			}
			pre := parseSnap(e.fields[1])
			if pre == nil || arch == nil || post == nil || fin == nil {
				dropped[id] = true
				complete = false
				continue
			}
			out = append(out, fmt.Sprintf("GPre %d %s", sidOf[id], inferPass(in, ids[id], prevTree[id], pre, arch, post, fin, finished)))
			prevTree[id] = fin
			passes++
			if !finished {
				feedbacks++
			}
			if n := pCount(fin); n > maxNodes {
				maxNodes = n
			}
		case "arch.fetch":
			if len(e.fields) >= 3 {
				if sid, ok := sidOf[e.fields[2]]; ok && !dropped[e.fields[2]] {
					out = append(out, fmt.Sprintf("GFetch %d %d", sid, in.url(e.fields[1])))
				}
			}
		case "lq.deleted":
			for _, x := range e.fields {
				if sid, ok := sidOf[x]; ok {
					out = append(out, fmt.Sprintf("GDel %d", sid))
				}
			}
		case "lq.insert": // the queue's consumer is about to hand the row to the reactor
			if sid, ok := sidOf[id]; ok {
				out = append(out, fmt.Sprintf("GOffer %d", sid))
			}
		case "lq.report": // the queue holds a finish report for each of these rows
			for _, x := range e.fields {
				if sid, ok := sidOf[x]; ok {
					out = append(out, fmt.Sprintf("GRep %d %d %d", sid, in.url(rowURL[x]), rowHops[x]))
					reports++
					if reportedN[x]++; reportedN[x] == 2 {
						pipeNote(fmt.Sprintf("pipe case: row %s (%q) was reported to the queue as finished a second time", x, rowURL[x]))
					}
				}
			}
		case "fin.captured":
			if sid, ok := sidOf[id]; ok && len(e.fields) >= 3 {
				out = append(out, fmt.Sprintf("GCapt %d %s %s", sid, e.fields[1], e.fields[2]))
			}
		default:
			if k, ok := hookNo[e.kind]; ok {
				if sid, isSeed := sidOf[id]; isSeed && !dropped[id] && ids[id] != nil {
					out = append(out, fmt.Sprintf("GHook %d %d", sid, k))
				}
			}
		}
	}
	tableEnd := 0
	if res != nil {
		tableEnd = res.StateAtQuiet
	}
	da := "false"
	// wedged: the watchdog fired while seeds were still tracked and NOTHING had happened for 35 s (every legitimate wait
	// of the crawler - retry sleeps, limiter penalties capped at 30 s - is shorter than that)
	wedged := res != nil && res.TimedOut && !res.StopCalled && res.TableAtTimeout > 0 && res.IdleAtTimeout >= 35000
	if wedged {
		note(fmt.Sprintf("crawl wedged: %d seed(s) tracked, no event for %d ms", res.TableAtTimeout, res.IdleAtTimeout))
	}
	// the hop bound, end to end: a seed's depth is 0 for a row of the queue and depth(page it was found on) + 1 for an outlink;
	// the page is identified by the via URL = the URL at which some seed was fetched (the smallest depth among the seeds
	// fetched there so far, so that the computed depth never exceeds the real hop count). No seed deeper than --max-hops
	// is ever fetched.
	depthByID, depthByURL, producedDepth := map[string]int{}, map[string]int{}, map[string]int{}
	for id := range sidOf {
		depthByID[id] = 0
	}
	hopViol := 0
	for _, e := range evs {
		switch e.kind {
		case "arch.fetch":
			if len(e.fields) >= 3 && e.fields[0] == e.fields[2] { // the seed's own URL
				d, ok := depthByID[e.fields[0]]
				if !ok { // a seed born from an outlink: the queue gives it a new id, its URL is the text that was produced
					d, ok = producedDepth[e.fields[1]]
				}
				if ok {
					if old, seen := depthByURL[e.fields[1]]; !seen || d < old {
						depthByURL[e.fields[1]] = d
					}
					if d > spec.MaxHops {
						hopViol++
						note(fmt.Sprintf("pipe case: seed %s (%s) is %d links away from the queue's rows and was fetched with --max-hops %d", e.fields[0], e.fields[1], d, spec.MaxHops))
					}
				}
			}
		case "fin.produce":
			if len(e.fields) >= 3 {
				if d, ok := depthByURL[e.fields[2]]; ok {
					if old, seen := producedDepth[e.fields[1]]; !seen || d+1 < old {
						producedDepth[e.fields[1]] = d + 1
					}
				}
			}
		}
	}
	term := fmt.Sprintf("EC %d (Cfg %d false %s) %s %s %s %d %d %s %d %s", spec.Workers, spec.MaxRedirect, da, coqList(rowIDs), coqList(out), coqBool(complete), tableEnd, spec.MaxRetry, coqBool(wedged), hopViol, coqBool(spec.ExpectReports > 0))
	tags := []string{fmt.Sprintf("w:%d", spec.Workers), fmt.Sprintf("mca:%d", spec.MCA), fmt.Sprintf("seeds:%d", len(spec.LQRows)),
		fmt.Sprintf("passes:%d", bucket(passes)), fmt.Sprintf("nodes:%d", bucket(maxNodes)), fmt.Sprintf("complete:%v", complete),
		fmt.Sprintf("badrows:%d", len(spec.LQRows)-spec.Expect), fmt.Sprintf("queue-reports-seen:%d", bucket(reports))}
	if status != "" {
		tags = append(tags, "child:"+strings.SplitN(status, " ", 2)[0])
		note("pipechild " + status)
	}
	return term, tags, feedbacks >= 1 && maxNodes >= 3 && complete
}

func pipeSpecFromInput(input string, dir string) *PipeSpec {
	kv := parseKV(input)
	atoi := func(k string, def int) int {
		if v, ok := kv[k]; ok {
			n, _ := strconv.Atoi(v)
			return n
		}
		return def
	}
	site, _ := strconv.ParseUint(kv["site"], 10, 64)
	sched, _ := strconv.ParseUint(kv["sched"], 10, 64)
	sp := &PipeSpec{Dir: dir, Job: "j", SiteSeed: site, SiteMode: kv["mode"], Workers: atoi("w", 1), MCA: atoi("mca", 1),
		Seencheck: atoi("seencheck", 1) == 1, Pool: atoi("pool", 1), MaxRetry: atoi("retry", 1), MaxRedirect: atoi("mr", 3),
		MaxHops: atoi("maxhops", 0), SchedSeed: sched, IdleMs: 700, TimeoutMs: atoi("timeout", 60000), Async: atoi("async", 0) == 1,
		RateLimit: atoi("rl", 0) == 1, Proxy: atoi("proxy", 0) == 1, OnDisk: atoi("ondisk", 0) == 1, LocalDedupe: atoi("dedupe", 0) == 1,
		Footprint: atoi("footprint", 0) == 1, HTTPTimeout: atoi("httpto", 0), DiskLowMs: atoi("disklow", 0), TempInJob: atoi("tempjob", 0) == 1, IncludeHost: kv["inc"], StopSignal: kv["sig"], ViaFlags: atoi("flags", 0) == 1}
	if v, ok := kv["discard"]; ok { // discard=404,503 : --warc-discard-status
		for _, x := range strings.Split(v, ",") {
			if n, err := strconv.Atoi(x); err == nil {
				sp.Discard = append(sp.Discard, n)
			}
		}
	}
	sp.Outage5xx, sp.StopBoundMs = atoi("outage", 0), atoi("stopbound", 0) // C03: host A is down for its first <outage> requests; Stop() has <stopbound> ms
	if sp.MaxHops > 0 {
		sp.IdleMs = 5800 // the queue's producer flushes its batch of outlinks after at most 5 s: quiescence must outlast it
	}
	if v, ok := kv["slow"]; ok { // slow=<point>:<ms>
		if p := strings.SplitN(v, ":", 2); len(p) == 2 {
			sp.SlowPoint = p[0]
			sp.SlowMs, _ = strconv.Atoi(p[1])
		}
	}
	n := atoi("seeds", 3)
	for i := 0; i < n; i++ {
		host := "{A}"
		if (site+uint64(i))%3 == 0 && atoi("onehost", 0) != 1 { // onehost=1: every row on host A (C03: URLs of one host queue up behind its token bucket)
			host = "{B}"
		}
		sp.LQRows = append(sp.LQRows, LQRow{ID: fmt.Sprintf("row%d", i), Value: fmt.Sprintf("http://%s/s%d-%d.html", host, site%1000, i), Hops: 0})
	}
	sp.Expect = len(sp.LQRows)
	if nb := atoi("badrows", 0); nb > 0 {
		for j := 0; j < nb; j++ {
			r := mix(site, fmt.Sprintf("badrow#%d", j))
			row := LQRow{ID: fmt.Sprintf("bad%d", j), Value: badRowText(r.Intn(len(badRowShapes)), int(site%1000), j), Hops: 0}
			at := r.Intn(len(sp.LQRows) + 1)
			sp.LQRows = append(sp.LQRows[:at], append([]LQRow{row}, sp.LQRows[at:]...)...)
		}
		sp.ExpectReports = len(sp.LQRows) // Expect stays the number of rows the finisher will see
	}
	if v, ok := kv["stop"]; ok {
		p := strings.SplitN(v, ":", 2)
		k, _ := strconv.Atoi(p[1])
		sp.StopAt = &Trigger{p[0], k}
	}
	if v, ok := kv["pause"]; ok {
		p := strings.SplitN(v, ":", 2)
		k, _ := strconv.Atoi(p[1])
		sp.PauseAt = &Trigger{p[0], k}
	}
	if v, ok := kv["kill"]; ok {
		p := strings.SplitN(v, ":", 2)
		k, _ := strconv.Atoi(p[1])
		sp.KillAt = &Trigger{p[0], k}
	}
	return sp
}

// texts that are not URLs for url.ParseRequestURI (= models.URL.Parse): the kinds of raw outlink text that reach the local queue
// (its producer stores what the extractors found, unparsed), each made unique by the site and row number
var badRowShapes = []string{
	"http://[::1/x%d-%d",     // IPv6 literal without its closing bracket
	"http://[bad%d-%d/page",  // the same, a host name in brackets
	"http://{A}/%%zz%d-%d",   // invalid percent escape
	"no-scheme-%d-%d",        // neither absolute nor rooted
	"http://{A}:port%d-%d/x", // port that is not a number
	"http://a b%d-%d/",       // space in the host
	"http://{A}/\x01c%d-%d",  // control character
}

// cases run in parallel: the notes of this file's queue-side checks are serialised among themselves
var pipeNoteMu sync.Mutex

func pipeNote(s string) {
	pipeNoteMu.Lock()
	defer pipeNoteMu.Unlock()
	note(s)
}

func badRowText(shape, site, j int) string { return fmt.Sprintf(badRowShapes[shape], site, j) }

func execPipe(input string) Result {
	dir, err := os.MkdirTemp("", "zv-pipe-")
	if err != nil {
		return Result{Term: "EC 0 (Cfg 0 false false) [] [] false 0 0 false 0 false", Tags: []string{"mktemp-failed"}}
	}
	if os.Getenv("ZV_KEEP") == "" {
		defer os.RemoveAll(dir)
	} else {
		fmt.Fprintln(os.Stderr, "kept:", dir)
	}
	sp := pipeSpecFromInput(input, filepath.Join(dir, "run"))
	res, evs, status := runChild(sp, time.Duration(sp.TimeoutMs+30000)*time.Millisecond)
	term, tags, nt := traceToCase(sp, res, evs, status)
	return Result{Term: term, Tags: tags, Nontrivial: nt}
}

func genPipe(r *Rng, i int, tier string) string {
	w := []int{1, 1, 2, 2, 3, 4}[r.Intn(6)]
	mca := []int{1, 1, 2, 3}[r.Intn(4)]
	seeds := 1 + r.Intn(5)
	if r.Chance(25) {
		seeds = 5 + r.Intn(6)
	}
	s := fmt.Sprintf("site=%d w=%d mca=%d sched=%d seeds=%d mr=%d retry=%d", r.U64()%1000000, w, mca, r.U64()%1000, seeds, r.Intn(4), r.Intn(2))
	if r.Chance(15) {
		s += " mode=adversarial"
	} else if r.Chance(15) {
		s += " mode=bodies" // sizes around the sniff window and the 2 MiB spool threshold, empty bodies, gzip, chunked
	}
	if r.Chance(20) {
		s += " async=1"
	}
	if r.Chance(20) {
		s += " rl=1"
	}
	if r.Chance(15) {
		// the second WARC client (--proxy): challenge pages the discard policy rejects, hang-ups and truncated bodies make its
		// writer report on its error channel, which somebody has to drain or the seed never leaves the archiver
		s += " proxy=1"
	}
	if r.Chance(25) {
		// rows that are not URLs: the queue's own consumer reports them finished, the finisher never sees them
		s += fmt.Sprintf(" badrows=%d", 1+r.Intn(2))
	}
	return s
}

// genPipeAdv: adversarial servers only (C06): endless redirect chains, always-failing and
// fail-then-succeed URLs, assets of assets; all values of max-redirect / max-retry
func genPipeAdv(r *Rng, i int, tier string) string {
	retry := []int{0, 1, 1, 2}[r.Intn(4)]
	s := fmt.Sprintf("site=%d w=%d mca=%d sched=%d seeds=%d mr=%d retry=%d mode=adversarial", r.U64()%1000000, 1+r.Intn(3), 1+r.Intn(3), r.U64()%1000,
		1+r.Intn(4), r.Intn(4), retry)
	if r.Chance(35) {
		// outlinks travel postprocessor -> finisher -> queue -> reactor and come back as seeds one hop further: the crawl
		// must stop at the hop limit (every page of the site links on, so without the limit it would not end)
		s += " maxhops=1"
	}
	return s
}

// genPipeBodies: every site serves bodies around the sniff window and the 2 MiB spool threshold (C02, C04):
// big records take the WARC writer measurably long, which is what "finished implies captured" races against
func genPipeBodies(r *Rng, i int, tier string) string {
	s := fmt.Sprintf("site=%d w=%d mca=%d sched=%d seeds=%d mr=%d retry=0 mode=bodies", r.U64()%1000000, 1+r.Intn(3), 1+r.Intn(3), r.U64()%1000, 1+r.Intn(4), 1+r.Intn(3))
	if r.Chance(30) {
		s += " ondisk=1"
	}
	if r.Chance(30) {
		s += " pool=2"
	}
	if r.Chance(30) {
		s += " dedupe=1"
	}
	return s
}

func init() {
	pb := *&Driver{
		Name:           "pipebodies",
		Header:         "From ZenoV Require Import Lib.Harness Tree.Item Stage.Pass Stage.PassHarness Pipe.PipeHarness.\nOpen Scope N_scope.\n",
		CaseType:       "ecase",
		Footer:         stdFooter,
		Rule:           "non-trivial: the crawl of a site with large / boundary-sized bodies ran to quiescence, a seed was fed back and a tree reached >= 3 nodes",
		Gen:            genPipeBodies,
		Exec:           execPipe,
		Parallel:       6,
		CaseTimeoutSec: 900,
	}
	register(&pb)
	pd := *&Driver{
		Name:           "pipeadv",
		Header:         "From ZenoV Require Import Lib.Harness Tree.Item Stage.Pass Stage.PassHarness Pipe.PipeHarness.\nOpen Scope N_scope.\n",
		CaseType:       "ecase",
		Footer:         stdFooter,
		Rule:           "non-trivial: the crawl of an adversarial site ran to quiescence, at least one seed was fed back and a tree reached >= 3 nodes",
		Gen:            genPipeAdv,
		Exec:           execPipe,
		Parallel:       6,
		CaseTimeoutSec: 900,
	}
	register(&pd)
	register(&Driver{
		Name:           "pipe",
		Header:         "From ZenoV Require Import Lib.Harness Tree.Item Stage.Pass Stage.PassHarness Pipe.PipeHarness.\nOpen Scope N_scope.\n",
		CaseType:       "ecase",
		Footer:         stdFooter,
		Rule:           "non-trivial: the crawl ran to quiescence, at least one seed was fed back (>= 2 passes) and a tree reached >= 3 nodes; distinct by input line",
		Gen:            genPipe,
		Exec:           execPipe,
		Parallel:       6,
		CaseTimeoutSec: 900,
		Shrink: func(input string) []string {
			kv := parseKV(input)
			var out []string
			if n, _ := strconv.Atoi(kv["seeds"]); n > 1 {
				out = append(out, strings.Replace(input, "seeds="+kv["seeds"], fmt.Sprintf("seeds=%d", n-1), 1))
				out = append(out, strings.Replace(input, "seeds="+kv["seeds"], "seeds=1", 1))
			}
			if kv["sched"] != "0" {
				out = append(out, strings.Replace(input, "sched="+kv["sched"], "sched=0", 1))
			}
			if n, _ := strconv.Atoi(kv["badrows"]); n > 1 {
				out = append(out, strings.Replace(input, "badrows="+kv["badrows"], "badrows=1", 1))
			}
			return out
		},
	})
}
